(* Proofs/FormatSemProofs.v -- everything norm erases is invisible to the semantics. *)
From Verif Require Import Base.Str Syntax.FormatSem.
Open Scope N_scope.

Scheme word_mind := Induction for word Sort Prop
  with part_mind := Induction for part Sort Prop
  with dq_mind := Induction for dq Sort Prop
  with words_mind := Induction for words Sort Prop
  with stmts_mind := Induction for stmts Sort Prop
  with stmt_mind := Induction for stmt Sort Prop.
Combined Scheme fragment_mutind from word_mind, part_mind, dq_mind, words_mind, stmts_mind, stmt_mind.

Lemma norm_stmts_nil : forall l, match norm_stmts l with SNil => l = SNil | SCons _ _ _ _ _ => l <> SNil end.
Proof. destruct l; cbn; [reflexivity|discriminate]. Qed.

Lemma unquote_dq_strip_len : forall n s, (length s <= n)%nat -> unquote_dq (strip_escnl_dq s) = unquote_dq s.
Proof.
  induction n as [|n IH]; intros s Hl.
  - destruct s; [reflexivity|cbn in Hl; lia].
  - destruct s as [|b t]; [reflexivity|]. cbn [strip_escnl_dq unquote_dq].
    destruct (b =? BSL) eqn:Hb.
    + destruct t as [|c t']; [cbn; rewrite Hb; reflexivity|].
      destruct (c =? NL) eqn:Hc.
      * apply IH. cbn in Hl. lia.
      * assert (Ht' : unquote_dq (strip_escnl_dq t') = unquote_dq t') by (apply IH; cbn in Hl; lia).
        cbn [unquote_dq]. rewrite Hb, Hc.
        destruct ((c =? DQ) || (c =? BSL) || (c =? DOLLAR) || (c =? BQ)) eqn:Hs.
        -- rewrite Ht'. reflexivity.
        -- assert (Hcb : (c =? BSL) = false).
           { destruct (c =? DQ); [discriminate|]. destruct (c =? BSL); [discriminate|reflexivity]. }
           cbn [unquote_dq]. rewrite Hcb. rewrite Ht'. reflexivity.
    + cbn [unquote_dq]. rewrite Hb. f_equal. apply IH. cbn in Hl. lia.
Qed.
Lemma unquote_dq_strip : forall s, unquote_dq (strip_escnl_dq s) = unquote_dq s.
Proof. intros s. apply (unquote_dq_strip_len (length s)). apply le_n. Qed.

Section SemProofs.
  Variable State : Type.
  Variable lookup : State -> str -> str.
  Variable run : list str -> State -> State * str * Z.
  Variable set_status : State -> Z -> State.

  Notation sw := (sem_word State lookup run set_status).
  Notation sp := (sem_part State lookup run set_status).
  Notation sd := (sem_dq State lookup run set_status).
  Notation sws := (sem_words State lookup run set_status).
  Notation sss := (sem_stmts State lookup run set_status).
  Notation ss := (sem_stmt State lookup run set_status).

  (* unfolding equations (cbn would expose the raw mutual fix) *)
  Lemma sw_cons : forall fuel p r s, sw fuel (WCons p r) s =
    match sp fuel p s with
    | Some (a, s1) => match sw fuel r s1 with Some (b, s2) => Some (a ++ b, s2) | None => None end
    | None => None end.
  Proof. reflexivity. Qed.
  Lemma sp_dbl : forall fuel d s, sp fuel (PDbl d) s = sd fuel d s.
  Proof. reflexivity. Qed.
  Lemma sp_param : forall fuel b n s, sp fuel (PParam b n) s = Some (lookup s n, s).
  Proof. reflexivity. Qed.
  Lemma sp_sub : forall fuel bq b s, sp fuel (PSub bq b) s =
    match sss fuel b s with Done _ o z => Some (strip_trailing_nl o, set_status s z) | OutOfFuel => None end.
  Proof. reflexivity. Qed.
  Lemma sd_lit : forall fuel t r s, sd fuel (DLit t r) s =
    match sd fuel r s with Some (b, s2) => Some (unquote_dq t ++ b, s2) | None => None end.
  Proof. reflexivity. Qed.
  Lemma sd_param : forall fuel br n r s, sd fuel (DParam br n r) s =
    match sd fuel r s with Some (b, s2) => Some (lookup s n ++ b, s2) | None => None end.
  Proof. reflexivity. Qed.
  Lemma sd_sub : forall fuel bq b r s, sd fuel (DSub bq b r) s =
    match sss fuel b s with
    | Done _ o z => match sd fuel r (set_status s z) with Some (b', s2) => Some (strip_trailing_nl o ++ b', s2) | None => None end
    | OutOfFuel => None end.
  Proof. reflexivity. Qed.
  Lemma sws_cons : forall fuel e w r s, sws fuel (WsCons e w r) s =
    match sw fuel w s with
    | Some (a, s1) => match sws fuel r s1 with Some (l, s2) => Some (a :: l, s2) | None => None end
    | None => None end.
  Proof. reflexivity. Qed.
  Lemma sss_cons : forall fuel line c semi st r s, sss fuel (SCons line c semi st r) s =
    match ss fuel st s with
    | OutOfFuel => OutOfFuel
    | Done s1 o1 z1 =>
        match r with
        | SNil => Done s1 o1 z1
        | _ => match sss fuel r (set_status s1 z1) with
               | OutOfFuel => OutOfFuel
               | Done s2 o2 z2 => Done s2 (o1 ++ o2) z2
               end
        end
    end.
  Proof. reflexivity. Qed.
  Lemma ss_simple : forall fuel ws s, ss fuel (Simple ws) s =
    match sws fuel ws s with
    | Some (argv, s1) => let '(s2, o, z) := run argv s1 in Done s2 o z
    | None => OutOfFuel end.
  Proof. reflexivity. Qed.
  Lemma ss_not : forall fuel st s, ss fuel (Not st) s =
    match ss fuel st s with
    | Done s1 o z => Done s1 o (if (z =? 0)%Z then 1%Z else 0%Z)
    | OutOfFuel => OutOfFuel end.
  Proof. reflexivity. Qed.
  Lemma ss_andor : forall fuel o a b s, ss fuel (AndOr o a b) s =
    match ss fuel a s with
    | OutOfFuel => OutOfFuel
    | Done s1 o1 z1 =>
        if Bool.eqb (z1 =? 0)%Z o then
          match ss fuel b (set_status s1 z1) with
          | Done s2 o2 z2 => Done s2 (o1 ++ o2) z2
          | OutOfFuel => OutOfFuel
          end
        else Done s1 o1 z1
    end.
  Proof. reflexivity. Qed.
  Lemma ss_brace : forall fuel b s, ss fuel (Brace b) s = sss fuel b s.
  Proof. reflexivity. Qed.
  Lemma ss_subshell : forall fuel b s, ss fuel (Subshell b) s =
    match sss fuel b s with Done _ o z => Done s o z | OutOfFuel => OutOfFuel end.
  Proof. reflexivity. Qed.
  Lemma ss_if : forall fuel c t e s, ss fuel (If c t e) s =
    match sss fuel c s with
    | OutOfFuel => OutOfFuel
    | Done s1 o1 z1 =>
        match (if (z1 =? 0)%Z then sss fuel t (set_status s1 z1)
               else match e with SNil => Done s1 [] 0%Z | _ => sss fuel e (set_status s1 z1) end) with
        | Done s2 o2 z2 => Done s2 (o1 ++ o2) z2
        | OutOfFuel => OutOfFuel
        end
    end.
  Proof. reflexivity. Qed.
  Lemma ss_while : forall fuel u c b s, ss fuel (While u c b) s =
    loop State set_status fuel u (sss fuel c) (sss fuel b) s [] 0%Z.
  Proof. reflexivity. Qed.

  Lemma loop_ext : forall n u c1 b1 c2 b2,
    (forall s, c1 s = c2 s) -> (forall s, b1 s = b2 s) ->
    forall s acc last, loop State set_status n u c1 b1 s acc last = loop State set_status n u c2 b2 s acc last.
  Proof.
    induction n as [|n IH]; intros u c1 b1 c2 b2 Hc Hb s acc last; [reflexivity|].
    cbn [loop]. rewrite Hc. destruct (c2 s) as [s1 o1 z1|]; [|reflexivity].
    destruct (Bool.eqb (z1 =? 0)%Z (negb u)); [|reflexivity].
    rewrite Hb. destruct (b2 s1) as [s2 o2 z2|]; [|reflexivity].
    apply IH; assumption.
  Qed.

  Theorem norm_sem_all :
    (forall w fuel s, sw fuel (norm_word w) s = sw fuel w s) /\
    (forall p fuel s, sp fuel (norm_part p) s = sp fuel p s) /\
    (forall d fuel s, sd fuel (norm_dq d) s = sd fuel d s) /\
    (forall ws fuel s, sws fuel (norm_words ws) s = sws fuel ws s) /\
    (forall l fuel s, sss fuel (norm_stmts l) s = sss fuel l s) /\
    (forall st fuel s, ss fuel (norm_stmt st) s = ss fuel st s).
  Proof.
    apply fragment_mutind.
    - (* WNil *) reflexivity.
    - (* WCons *) intros p Hp w Hw fuel s. cbn [norm_word]. rewrite !sw_cons. rewrite Hp.
      destruct (sp fuel p s) as [[a s1]|]; [|reflexivity]. rewrite Hw. reflexivity.
    - reflexivity.
    - reflexivity.
    - (* PDbl *) intros d Hd fuel s. cbn [norm_part]. rewrite !sp_dbl. apply Hd.
    - (* PParam *) reflexivity.
    - (* PSub *) intros bq b Hb fuel s. cbn [norm_part]. rewrite !sp_sub. rewrite Hb. reflexivity.
    - reflexivity.
    - (* DLit *) intros t r Hr fuel s. cbn [norm_dq]. rewrite sd_lit.
      rewrite <- (unquote_dq_strip t).
      destruct (strip_escnl_dq t) as [|c t'] eqn:Est.
      + rewrite Hr. destruct (sd fuel r s) as [[b s2]|]; reflexivity.
      + rewrite sd_lit. rewrite Hr. reflexivity.
    - (* DParam *) intros br n r Hr fuel s. cbn [norm_dq]. rewrite !sd_param. rewrite Hr. reflexivity.
    - (* DSub *) intros bq b Hb r Hr fuel s. cbn [norm_dq]. rewrite !sd_sub. rewrite Hb.
      destruct (sss fuel b s) as [s1 o z|]; [|reflexivity]. rewrite Hr. reflexivity.
    - reflexivity.
    - (* WsCons *) intros e w Hw r Hr fuel s. cbn [norm_words]. rewrite !sws_cons. rewrite Hw.
      destruct (sw fuel w s) as [[a s1]|]; [|reflexivity]. rewrite Hr. reflexivity.
    - reflexivity.
    - (* SCons *) intros line c semi st Hst r Hr fuel s. cbn [norm_stmts]. rewrite !sss_cons. rewrite Hst.
      destruct (ss fuel st s) as [s1 o1 z1|]; [|reflexivity].
      destruct r as [|l2 c2 semi2 st2 r2]; [reflexivity|].
      specialize (Hr fuel (set_status s1 z1)).
      cbn [norm_stmts] in *. rewrite Hr. reflexivity.
    - (* Simple *) intros ws Hws fuel s. cbn [norm_stmt]. rewrite !ss_simple. rewrite Hws. reflexivity.
    - (* Not *) intros st Hst fuel s. cbn [norm_stmt]. rewrite !ss_not. rewrite Hst. reflexivity.
    - (* AndOr *) intros o a Ha b Hb fuel s. cbn [norm_stmt]. rewrite !ss_andor. rewrite Ha.
      destruct (ss fuel a s) as [s1 o1 z1|]; [|reflexivity].
      destruct (Bool.eqb (z1 =? 0)%Z o); [|reflexivity]. rewrite Hb. reflexivity.
    - (* Brace *) intros b Hb fuel s. cbn [norm_stmt]. rewrite !ss_brace. apply Hb.
    - (* Subshell *) intros b Hb fuel s. cbn [norm_stmt]. rewrite !ss_subshell. rewrite Hb. reflexivity.
    - (* If *) intros c Hc t Ht e He fuel s. cbn [norm_stmt]. rewrite !ss_if. rewrite Hc.
      destruct (sss fuel c s) as [s1 o1 z1|]; [|reflexivity].
      destruct (z1 =? 0)%Z.
      + rewrite Ht. reflexivity.
      + destruct e as [|l2 c2 semi2 st2 r2]; [reflexivity|].
        specialize (He fuel (set_status s1 z1)). cbn [norm_stmts] in *. rewrite He. reflexivity.
    - (* While *) intros u c Hc b Hb fuel s. cbn [norm_stmt]. rewrite !ss_while.
      apply loop_ext; intros; [apply Hc|apply Hb].
  Qed.

  (* the property theorem: trees with the same normal form have the same behaviour
     (final state, standard output, exit status), for every fuel, out-of-fuel included *)
  Theorem norm_preserves_sem : forall t t' fuel s,
    norm_stmts t = norm_stmts t' -> sss fuel t s = sss fuel t' s.
  Proof.
    intros t t' fuel s H.
    destruct norm_sem_all as (_ & _ & _ & _ & Hs & _).
    rewrite <- (Hs t), <- (Hs t'), H. reflexivity.
  Qed.
End SemProofs.
