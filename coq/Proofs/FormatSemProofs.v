(* Proofs/FormatSemProofs.v -- everything norm erases is invisible to the semantics. *)
From Verif Require Import Base.Str Syntax.FormatSem.
Open Scope N_scope.

Scheme word_mind := Induction for word Sort Prop
  with part_mind := Induction for part Sort Prop
  with dq_mind := Induction for dq Sort Prop
  with words_mind := Induction for words Sort Prop
  with assigns_mind := Induction for assigns Sort Prop
  with redirs_mind := Induction for redirs Sort Prop
  with citems_mind := Induction for citems Sort Prop
  with stmts_mind := Induction for stmts Sort Prop
  with stmt_mind := Induction for stmt Sort Prop.
Combined Scheme fragment_mutind from word_mind, part_mind, dq_mind, words_mind, assigns_mind, redirs_mind,
  citems_mind, stmts_mind, stmt_mind.

(* ---- strings ---- *)
Lemma unquote_dq_strip_len : forall n s, (length s <= n)%nat -> unquote_dq (strip_escnl_dq s) = unquote_dq s.
Proof.
  induction n as [|n IH]; intros s Hl.
  - destruct s; [reflexivity|cbn in Hl; lia].
  - destruct s as [|b t]; [reflexivity|]. cbn [strip_escnl_dq unquote_dq].
    destruct (b =? BSL) eqn:Hb.
    + destruct t as [|c t']; [cbn; rewrite Hb; reflexivity|].
      destruct (c =? NL) eqn:Hc.
      * apply IH. cbn in Hl. lia.
      * assert (Ht' : unquote_dq (strip_escnl_dq t') = unquote_dq t') by (apply IH; cbn in Hl; lia).
        cbn [unquote_dq]. rewrite Hb, Hc.
        destruct ((c =? DQ) || (c =? BSL) || (c =? DOLLAR) || (c =? BQ)) eqn:Hs.
        -- rewrite Ht'. reflexivity.
        -- assert (Hcb : (c =? BSL) = false).
           { destruct (c =? DQ); [discriminate|]. destruct (c =? BSL); [discriminate|reflexivity]. }
           cbn [unquote_dq]. rewrite Hcb. rewrite Ht'. reflexivity.
    + cbn [unquote_dq]. rewrite Hb. f_equal. apply IH. cbn in Hl. lia.
Qed.
Lemma unquote_dq_strip : forall s, unquote_dq (strip_escnl_dq s) = unquote_dq s.
Proof. intros s. apply (unquote_dq_strip_len (length s)). apply le_n. Qed.

Lemma strip_escnl_idem_len : forall n s, (length s <= n)%nat -> strip_escnl_dq (strip_escnl_dq s) = strip_escnl_dq s.
Proof.
  induction n as [|n IH]; intros s Hl.
  - destruct s; [reflexivity|cbn in Hl; lia].
  - destruct s as [|b t]; [reflexivity|]. cbn [strip_escnl_dq].
    destruct (b =? BSL) eqn:Hb.
    + destruct t as [|c t']; [cbn; rewrite Hb; reflexivity|].
      destruct (c =? NL) eqn:Hc.
      * apply IH. cbn in Hl. lia.
      * cbn [strip_escnl_dq]. rewrite Hb, Hc. do 2 f_equal. apply IH. cbn in Hl. lia.
    + cbn [strip_escnl_dq]. rewrite Hb. f_equal. apply IH. cbn in Hl. lia.
Qed.
Lemma strip_escnl_idem : forall s, strip_escnl_dq (strip_escnl_dq s) = strip_escnl_dq s.
Proof. intros s. apply (strip_escnl_idem_len (length s)). apply le_n. Qed.

Lemma strip_tabs_str_idem : forall s bol,
  strip_tabs_str (fst (strip_tabs_str s bol)) bol = strip_tabs_str s bol.
Proof.
  induction s as [|c t IH]; intros bol; [reflexivity|].
  cbn [strip_tabs_str].
  destruct (bol && (c =? TAB)) eqn:E.
  - apply andb_true_iff in E. destruct E as [-> _]. apply IH.
  - specialize (IH (c =? NL)). destruct (strip_tabs_str t (c =? NL)) as [r e] eqn:Er.
    cbn [fst] in *. cbn [strip_tabs_str]. rewrite E. rewrite IH. reflexivity.
Qed.

Lemma strip_tabs_str_nil : forall s bol e, strip_tabs_str s bol = ([], e) -> e = bol.
Proof.
  induction s as [|c t IH]; intros bol e H; cbn [strip_tabs_str] in H.
  - inversion H. reflexivity.
  - destruct (bol && (c =? TAB)) eqn:E.
    + apply andb_true_iff in E. destruct E as [-> _]. apply IH in H. exact H.
    + destruct (strip_tabs_str t (c =? NL)). discriminate.
Qed.

Lemma strip_tabs_dq_idem : forall d bol, strip_tabs_dq (strip_tabs_dq d bol) bol = strip_tabs_dq d bol.
Proof.
  induction d as [|s r IH|b n r IH|bq b r IH]; intros bol; cbn [strip_tabs_dq]; try reflexivity.
  - pose proof (strip_tabs_str_idem s bol) as H.
    destruct (strip_tabs_str s bol) as [s' e] eqn:E. cbn [fst] in H.
    destruct s' as [|c t].
    + apply strip_tabs_str_nil in E. subst e. apply IH.
    + cbn [strip_tabs_dq]. rewrite H, IH. reflexivity.
  - rewrite IH. reflexivity.
  - rewrite IH. reflexivity.
Qed.

Lemma norm_hd_strip_comm : forall d bol, norm_hd (strip_tabs_dq d bol) = strip_tabs_dq (norm_hd d) bol.
Proof.
  induction d as [|s r IH|b n r IH|bq b r IH]; intros bol; cbn [strip_tabs_dq norm_hd]; try reflexivity.
  - destruct s as [|c0 t0].
    + cbn [strip_tabs_str]. apply IH.
    + cbn [strip_tabs_dq]. destruct (strip_tabs_str (c0 :: t0) bol) as [s' e].
      destruct s' as [|c t]; [apply IH|]. cbn [norm_hd]. rewrite IH. reflexivity.
  - rewrite IH. reflexivity.
  - rewrite IH. reflexivity.
Qed.

(* ---- norm is idempotent ---- *)
Theorem norm_idem_all :
  (forall w, norm_word (norm_word w) = norm_word w) /\
  (forall p, norm_part (norm_part p) = norm_part p) /\
  (forall d, norm_dq (norm_dq d) = norm_dq d /\ norm_hd (norm_hd d) = norm_hd d) /\
  (forall ws, norm_words (norm_words ws) = norm_words ws) /\
  (forall a, norm_assigns (norm_assigns a) = norm_assigns a) /\
  (forall rs, norm_redirs (norm_redirs rs) = norm_redirs rs) /\
  (forall c, norm_citems (norm_citems c) = norm_citems c) /\
  (forall l, norm_stmts (norm_stmts l) = norm_stmts l) /\
  (forall s, norm_stmt (norm_stmt s) = norm_stmt s).
Proof.
  apply fragment_mutind; intros;
    repeat match goal with H : _ /\ _ |- _ => destruct H end;
    cbn [norm_word norm_part norm_dq norm_hd norm_words norm_assigns norm_redirs norm_citems norm_stmts norm_stmt];
    try reflexivity; try congruence; try (split; congruence).
  - (* DLit *) split.
    + destruct (strip_escnl_dq s) as [|c t] eqn:E; [assumption|].
      cbn [norm_dq]. rewrite <- E, strip_escnl_idem, E. congruence.
    + destruct s as [|c t]; [assumption|]. cbn [norm_hd]. congruence.
  - (* RHdoc *) rewrite H0. f_equal.
    destruct dash.
    + rewrite norm_hd_strip_comm, H1, strip_tabs_dq_idem. reflexivity.
    + assumption.
Qed.

Lemma norm_stmt_idem : forall s, norm_stmt (norm_stmt s) = norm_stmt s.
Proof. apply norm_idem_all. Qed.

Lemma norm_stmts_nil_iff : forall l, norm_stmts l = SNil <-> l = SNil.
Proof. destruct l; cbn; split; congruence. Qed.

Section SemProofs.
  Variable State : Type.
  Variable lookup : State -> str -> str.
  Variable run : list (bool * str * str) -> list str -> State -> State * str * Z.
  Variable set_status : State -> Z -> State.
  Variable redir_open : list (N * option str * str) -> State -> State.
  Variable redir_close : State -> State -> str -> State * str.
  Variable set_var : State -> str -> str -> State.
  Variable pmatch : str -> str -> bool.
  Variable def_func : State -> str -> stmt -> State.
  Variable func_body : State -> str -> option stmt.
  Variable enter_func : list (bool * str * str) -> list str -> State -> State.
  Variable leave_func : State -> State -> State.
  Variable call : stmt -> State -> outcome State.

  Notation sw := (sem_word State lookup run set_status redir_open redir_close set_var pmatch def_func func_body enter_func leave_func call).
  Notation sp := (sem_part State lookup run set_status redir_open redir_close set_var pmatch def_func func_body enter_func leave_func call).
  Notation sd := (sem_dq State lookup run set_status redir_open redir_close set_var pmatch def_func func_body enter_func leave_func call).
  Notation shd := (sem_hd State lookup run set_status redir_open redir_close set_var pmatch def_func func_body enter_func leave_func call).
  Notation sws := (sem_words State lookup run set_status redir_open redir_close set_var pmatch def_func func_body enter_func leave_func call).
  Notation sas := (sem_assigns State lookup run set_status redir_open redir_close set_var pmatch def_func func_body enter_func leave_func call).
  Notation srs := (sem_redirs State lookup run set_status redir_open redir_close set_var pmatch def_func func_body enter_func leave_func call).
  Notation sci := (sem_citems State lookup run set_status redir_open redir_close set_var pmatch def_func func_body enter_func leave_func call).
  Notation sss := (sem_stmts State lookup run set_status redir_open redir_close set_var pmatch def_func func_body enter_func leave_func call).
  Notation ss := (sem_stmt State lookup run set_status redir_open redir_close set_var pmatch def_func func_body enter_func leave_func call).

  (* unfolding equations (cbn would expose the raw mutual fix) *)
  Lemma sw_cons : forall fuel p r s, sw fuel (WCons p r) s =
    match sp fuel p s with
    | Some (a, s1) => match sw fuel r s1 with Some (b, s2) => Some (a ++ b, s2) | None => None end
    | None => None end.
  Proof. reflexivity. Qed.
  Lemma sp_dbl : forall fuel d s, sp fuel (PDbl d) s = sd fuel d s.
  Proof. reflexivity. Qed.
  Lemma sp_sub : forall fuel bq b s, sp fuel (PSub bq b) s =
    match sss fuel b s with Done _ o z => Some (strip_trailing_nl o, set_status s z) | OutOfFuel => None end.
  Proof. reflexivity. Qed.
  Lemma sd_lit : forall fuel t r s, sd fuel (DLit t r) s =
    match sd fuel r s with Some (b, s2) => Some (unquote_dq t ++ b, s2) | None => None end.
  Proof. reflexivity. Qed.
  Lemma sd_param : forall fuel br n r s, sd fuel (DParam br n r) s =
    match sd fuel r s with Some (b, s2) => Some (lookup s n ++ b, s2) | None => None end.
  Proof. reflexivity. Qed.
  Lemma sd_sub : forall fuel bq b r s, sd fuel (DSub bq b r) s =
    match sss fuel b s with
    | Done _ o z => match sd fuel r (set_status s z) with Some (b', s2) => Some (strip_trailing_nl o ++ b', s2) | None => None end
    | OutOfFuel => None end.
  Proof. reflexivity. Qed.
  Lemma shd_lit : forall fuel q dash bol t r s, shd fuel q dash bol (DLit t r) s =
    let (t', e) := if dash then strip_tabs_str t bol else (t, false) in
    match shd fuel q dash e r s with
    | Some (b, s2) => Some ((if q then t' else unquote_hd t') ++ b, s2)
    | None => None end.
  Proof. reflexivity. Qed.
  Lemma shd_param : forall fuel q dash bol br n r s, shd fuel q dash bol (DParam br n r) s =
    match shd fuel q dash false r s with Some (b, s2) => Some (lookup s n ++ b, s2) | None => None end.
  Proof. reflexivity. Qed.
  Lemma shd_sub : forall fuel q dash bol bq b r s, shd fuel q dash bol (DSub bq b r) s =
    match sss fuel b s with
    | Done _ o z => match shd fuel q dash false r (set_status s z) with Some (b', s2) => Some (strip_trailing_nl o ++ b', s2) | None => None end
    | OutOfFuel => None end.
  Proof. reflexivity. Qed.
  Lemma sws_cons : forall fuel e w r s, sws fuel (WsCons e w r) s =
    match sw fuel w s with
    | Some (a, s1) => match sws fuel r s1 with Some (l, s2) => Some (a :: l, s2) | None => None end
    | None => None end.
  Proof. reflexivity. Qed.
  Lemma sas_cons : forall fuel ap n v r s, sas fuel (ACons ap n v r) s =
    match sw fuel v s with
    | Some (x, s1) => match sas fuel r s1 with Some (l, s2) => Some ((ap, n, x) :: l, s2) | None => None end
    | None => None end.
  Proof. reflexivity. Qed.
  Lemma srs_file : forall fuel op fd t r s, srs fuel (RFile op fd t r) s =
    match sw fuel t s with
    | Some (x, s1) => match srs fuel r s1 with Some (l, s2) => Some ((op, fd, x) :: l, s2) | None => None end
    | None => None end.
  Proof. reflexivity. Qed.
  Lemma srs_hdoc : forall fuel dash q delim b r s, srs fuel (RHdoc dash q delim b r) s =
    match shd fuel q dash true b s with
    | Some (x, s1) => match srs fuel r s1 with Some (l, s2) => Some ((HDOC_OP, None, x) :: l, s2) | None => None end
    | None => None end.
  Proof. reflexivity. Qed.
  Lemma sci_cons : forall fuel ps b r v s, sci fuel (CCons ps b r) v s =
    match sws fuel ps s with
    | None => OutOfFuel
    | Some (pl, s1) => if existsb (fun p => pmatch p v) pl then sss fuel b s1 else sci fuel r v s1
    end.
  Proof. reflexivity. Qed.
  Lemma sss_cons : forall fuel line c semi st r s, sss fuel (SCons line c semi st r) s =
    match ss fuel st s with
    | OutOfFuel => OutOfFuel
    | Done s1 o1 z1 =>
        match r with
        | SNil => Done s1 o1 z1
        | _ => match sss fuel r (set_status s1 z1) with
               | OutOfFuel => OutOfFuel
               | Done s2 o2 z2 => Done s2 (o1 ++ o2) z2
               end
        end
    end.
  Proof. reflexivity. Qed.
  Lemma ss_simple : forall fuel asg ws s, ss fuel (Simple asg ws) s =
    match sas fuel asg s with
    | None => OutOfFuel
    | Some (al, s0) =>
        match sws fuel ws s0 with
        | None => OutOfFuel
        | Some (argv, s1) =>
            match match argv with name :: _ => func_body s1 name | [] => None end with
            | Some body =>
                match call body (enter_func al argv s1) with
                | Done s2 o z => Done (leave_func s1 s2) o z
                | OutOfFuel => OutOfFuel
                end
            | None => let '(s2, o, z) := run al argv s1 in Done s2 o z
            end
        end
    end.
  Proof. reflexivity. Qed.
  Lemma ss_redirected : forall fuel st rs s, ss fuel (Redirected st rs) s =
    match srs fuel rs s with
    | None => OutOfFuel
    | Some (rl, s0) =>
        match ss fuel st (redir_open rl s0) with
        | Done s1 o z => let (s2, o') := redir_close s0 s1 o in Done s2 o' z
        | OutOfFuel => OutOfFuel
        end
    end.
  Proof. reflexivity. Qed.
  Lemma ss_not : forall fuel st s, ss fuel (Not st) s =
    match ss fuel st s with
    | Done s1 o z => Done s1 o (if (z =? 0)%Z then 1%Z else 0%Z)
    | OutOfFuel => OutOfFuel end.
  Proof. reflexivity. Qed.
  Lemma ss_andor : forall fuel o a b s, ss fuel (AndOr o a b) s =
    match ss fuel a s with
    | OutOfFuel => OutOfFuel
    | Done s1 o1 z1 =>
        if Bool.eqb (z1 =? 0)%Z o then
          match ss fuel b (set_status s1 z1) with
          | Done s2 o2 z2 => Done s2 (o1 ++ o2) z2
          | OutOfFuel => OutOfFuel
          end
        else Done s1 o1 z1
    end.
  Proof. reflexivity. Qed.
  Lemma ss_brace : forall fuel b s, ss fuel (Brace b) s = sss fuel b s.
  Proof. reflexivity. Qed.
  Lemma ss_subshell : forall fuel b s, ss fuel (Subshell b) s =
    match sss fuel b s with Done _ o z => Done s o z | OutOfFuel => OutOfFuel end.
  Proof. reflexivity. Qed.
  Lemma ss_if : forall fuel c t e s, ss fuel (If c t e) s =
    match sss fuel c s with
    | OutOfFuel => OutOfFuel
    | Done s1 o1 z1 =>
        match (if (z1 =? 0)%Z then sss fuel t (set_status s1 z1)
               else match e with SNil => Done s1 [] 0%Z | _ => sss fuel e (set_status s1 z1) end) with
        | Done s2 o2 z2 => Done s2 (o1 ++ o2) z2
        | OutOfFuel => OutOfFuel
        end
    end.
  Proof. reflexivity. Qed.
  Lemma ss_while : forall fuel u c b s, ss fuel (While u c b) s =
    loop State set_status fuel u (sss fuel c) (sss fuel b) s [] 0%Z.
  Proof. reflexivity. Qed.
  Lemma ss_for : forall fuel v items b s, ss fuel (For v items b) s =
    match sws fuel items s with
    | None => OutOfFuel
    | Some (vals, s1) => for_loop State set_status set_var v vals (sss fuel b) s1 [] 0%Z
    end.
  Proof. reflexivity. Qed.
  Lemma ss_case : forall fuel w items s, ss fuel (Case w items) s =
    match sw fuel w s with
    | None => OutOfFuel
    | Some (v, s1) => sci fuel items v s1
    end.
  Proof. reflexivity. Qed.
  Lemma ss_funcdecl : forall fuel n b s, ss fuel (FuncDecl n b) s = Done (def_func s n (norm_stmt b)) [] 0%Z.
  Proof. reflexivity. Qed.

  Lemma shd_nil : forall fuel q dash bol s, shd fuel q dash bol DNil s = Some ([], s).
  Proof. reflexivity. Qed.
  Lemma shd_nodash_bol : forall fuel q bol bol' d s, shd fuel q false bol d s = shd fuel q false bol' d s.
  Proof. intros fuel q bol bol' d s. destruct d; reflexivity. Qed.

  Lemma loop_ext : forall n u c1 b1 c2 b2,
    (forall s, c1 s = c2 s) -> (forall s, b1 s = b2 s) ->
    forall s acc last, loop State set_status n u c1 b1 s acc last = loop State set_status n u c2 b2 s acc last.
  Proof.
    induction n as [|n IH]; intros u c1 b1 c2 b2 Hc Hb s acc last; [reflexivity|].
    cbn [loop]. rewrite Hc. destruct (c2 s) as [s1 o1 z1|]; [|reflexivity].
    destruct (Bool.eqb (z1 =? 0)%Z (negb u)); [|reflexivity].
    rewrite Hb. destruct (b2 s1) as [s2 o2 z2|]; [|reflexivity].
    apply IH; assumption.
  Qed.

  Lemma for_loop_ext : forall var vals b1 b2,
    (forall s, b1 s = b2 s) ->
    forall s acc last, for_loop State set_status set_var var vals b1 s acc last =
                       for_loop State set_status set_var var vals b2 s acc last.
  Proof.
    induction vals as [|v rest IH]; intros b1 b2 Hb s acc last; [reflexivity|].
    cbn [for_loop]. rewrite Hb. destruct (b2 (set_var s var v)) as [s2 o2 z2|]; [|reflexivity].
    apply IH; assumption.
  Qed.

  Theorem norm_sem_all :
    (forall w fuel s, sw fuel (norm_word w) s = sw fuel w s) /\
    (forall p fuel s, sp fuel (norm_part p) s = sp fuel p s) /\
    (forall d, (forall fuel s, sd fuel (norm_dq d) s = sd fuel d s) /\
               (forall fuel q dash bol s, shd fuel q dash bol (norm_hd d) s = shd fuel q dash bol d s) /\
               (forall fuel q bol s, shd fuel q true bol (strip_tabs_dq (norm_hd d) bol) s = shd fuel q true bol d s)) /\
    (forall ws fuel s, sws fuel (norm_words ws) s = sws fuel ws s) /\
    (forall a fuel s, sas fuel (norm_assigns a) s = sas fuel a s) /\
    (forall rs fuel s, srs fuel (norm_redirs rs) s = srs fuel rs s) /\
    (forall c fuel v s, sci fuel (norm_citems c) v s = sci fuel c v s) /\
    (forall l fuel s, sss fuel (norm_stmts l) s = sss fuel l s) /\
    (forall st fuel s, ss fuel (norm_stmt st) s = ss fuel st s).
  Proof.
    apply fragment_mutind.
    - (* WNil *) reflexivity.
    - (* WCons *) intros p Hp w Hw fuel s. cbn [norm_word]. rewrite !sw_cons. rewrite Hp.
      destruct (sp fuel p s) as [[a s1]|]; [|reflexivity]. rewrite Hw. reflexivity.
    - reflexivity.
    - reflexivity.
    - (* PDbl *) intros d (Hd & _ & _) fuel s. cbn [norm_part]. rewrite !sp_dbl. apply Hd.
    - (* PParam *) reflexivity.
    - (* PSub *) intros bq b Hb fuel s. cbn [norm_part]. rewrite !sp_sub. rewrite Hb. reflexivity.
    - (* DNil *) repeat split; reflexivity.
    - (* DLit *) intros t r (Hr & Hh & Hs). repeat split.
      + intros fuel s. cbn [norm_dq]. rewrite sd_lit.
        rewrite <- (unquote_dq_strip t).
        destruct (strip_escnl_dq t) as [|c t'] eqn:Est.
        * rewrite Hr. destruct (sd fuel r s) as [[b s2]|]; reflexivity.
        * rewrite sd_lit. rewrite Hr. reflexivity.
      + intros fuel q dash bol s. destruct t as [|c0 t0].
        * cbn [norm_hd]. rewrite shd_lit. rewrite Hh.
          destruct dash; cbn [strip_tabs_str].
          -- destruct (shd fuel q true bol r s) as [[b s2]|]; destruct q; reflexivity.
          -- rewrite (shd_nodash_bol fuel q bol false).
             destruct (shd fuel q false false r s) as [[b s2]|]; destruct q; reflexivity.
        * cbn [norm_hd]. rewrite !shd_lit.
          destruct dash; [destruct (strip_tabs_str (c0 :: t0) bol) as [t' e]|]; rewrite Hh; reflexivity.
      + intros fuel q bol s.
        assert (G : shd fuel q true bol (strip_tabs_dq (DLit t (norm_hd r)) bol) s = shd fuel q true bol (DLit t r) s).
        { cbn [strip_tabs_dq].
          pose proof (strip_tabs_str_idem t bol) as Hi.
          destruct (strip_tabs_str t bol) as [t' e] eqn:Et. cbn [fst] in Hi.
          destruct t' as [|c1 t1].
          - pose proof (strip_tabs_str_nil _ _ _ Et) as He. subst e.
            rewrite shd_lit, Et. rewrite Hs.
            destruct (shd fuel q true bol r s) as [[b s2]|]; destruct q; reflexivity.
          - rewrite !shd_lit. rewrite Hi, Et. rewrite Hs. reflexivity. }
        destruct t as [|c0 t0]; [|exact G].
        cbn [norm_hd]. rewrite Hs. rewrite shd_lit. cbn [strip_tabs_str].
        destruct (shd fuel q true bol r s) as [[b s2]|]; destruct q; reflexivity.
    - (* DParam *) intros br n r (Hr & Hh & Hs). repeat split.
      + intros fuel s. cbn [norm_dq]. rewrite !sd_param. rewrite Hr. reflexivity.
      + intros fuel q dash bol s. cbn [norm_hd]. rewrite !shd_param. rewrite Hh. reflexivity.
      + intros fuel q bol s. cbn [norm_hd strip_tabs_dq]. rewrite !shd_param. rewrite Hs. reflexivity.
    - (* DSub *) intros bq b Hb r (Hr & Hh & Hs). repeat split.
      + intros fuel s. cbn [norm_dq]. rewrite !sd_sub. rewrite Hb.
        destruct (sss fuel b s) as [s1 o z|]; [|reflexivity]. rewrite Hr. reflexivity.
      + intros fuel q dash bol s. cbn [norm_hd]. rewrite !shd_sub. rewrite Hb.
        destruct (sss fuel b s) as [s1 o z|]; [|reflexivity]. rewrite Hh. reflexivity.
      + intros fuel q bol s. cbn [norm_hd strip_tabs_dq]. rewrite !shd_sub. rewrite Hb.
        destruct (sss fuel b s) as [s1 o z|]; [|reflexivity]. rewrite Hs. reflexivity.
    - (* WsNil *) reflexivity.
    - (* WsCons *) intros e w Hw r Hr fuel s. cbn [norm_words]. rewrite !sws_cons. rewrite Hw.
      destruct (sw fuel w s) as [[a s1]|]; [|reflexivity]. rewrite Hr. reflexivity.
    - (* ANil *) reflexivity.
    - (* ACons *) intros ap n v Hv r Hr fuel s. cbn [norm_assigns]. rewrite !sas_cons. rewrite Hv.
      destruct (sw fuel v s) as [[x s1]|]; [|reflexivity]. rewrite Hr. reflexivity.
    - (* RNil *) reflexivity.
    - (* RFile *) intros op fd t Ht r Hr fuel s. cbn [norm_redirs]. rewrite !srs_file. rewrite Ht.
      destruct (sw fuel t s) as [[x s1]|]; [|reflexivity]. rewrite Hr. reflexivity.
    - (* RHdoc *) intros dash q delim b (_ & Hh & Hs) r Hr fuel s. cbn [norm_redirs]. rewrite !srs_hdoc.
      assert (E : shd fuel q dash true (if dash then strip_tabs_dq (norm_hd b) true else norm_hd b) s = shd fuel q dash true b s).
      { destruct dash; [apply Hs|apply Hh]. }
      rewrite E. destruct (shd fuel q dash true b s) as [[x s1]|]; [|reflexivity]. rewrite Hr. reflexivity.
    - (* CNil *) reflexivity.
    - (* CCons *) intros ps Hps b Hb r Hr fuel v s. cbn [norm_citems]. rewrite !sci_cons. rewrite Hps.
      destruct (sws fuel ps s) as [[pl s1]|]; [|reflexivity].
      destruct (existsb (fun p => pmatch p v) pl); [apply Hb|apply Hr].
    - (* SNil *) reflexivity.
    - (* SCons *) intros line c semi st Hst r Hr fuel s. cbn [norm_stmts]. rewrite !sss_cons. rewrite Hst.
      destruct (ss fuel st s) as [s1 o1 z1|]; [|reflexivity].
      destruct r as [|l2 c2 semi2 st2 r2]; [reflexivity|].
      specialize (Hr fuel (set_status s1 z1)).
      cbn [norm_stmts] in *. rewrite Hr. reflexivity.
    - (* Simple *) intros a Ha ws Hws fuel s. cbn [norm_stmt]. rewrite !ss_simple. rewrite Ha.
      destruct (sas fuel a s) as [[al s0]|]; [|reflexivity]. rewrite Hws. reflexivity.
    - (* Redirected *) intros st Hst rs Hrs fuel s. cbn [norm_stmt]. rewrite !ss_redirected. rewrite Hrs.
      destruct (srs fuel rs s) as [[rl s0]|]; [|reflexivity]. rewrite Hst. reflexivity.
    - (* Not *) intros st Hst fuel s. cbn [norm_stmt]. rewrite !ss_not. rewrite Hst. reflexivity.
    - (* AndOr *) intros o a Ha b Hb fuel s. cbn [norm_stmt]. rewrite !ss_andor. rewrite Ha.
      destruct (ss fuel a s) as [s1 o1 z1|]; [|reflexivity].
      destruct (Bool.eqb (z1 =? 0)%Z o); [|reflexivity]. rewrite Hb. reflexivity.
    - (* Brace *) intros b Hb fuel s. cbn [norm_stmt]. rewrite !ss_brace. apply Hb.
    - (* Subshell *) intros b Hb fuel s. cbn [norm_stmt]. rewrite !ss_subshell. rewrite Hb. reflexivity.
    - (* If *) intros c Hc t Ht e He fuel s. cbn [norm_stmt]. rewrite !ss_if. rewrite Hc.
      destruct (sss fuel c s) as [s1 o1 z1|]; [|reflexivity].
      destruct (z1 =? 0)%Z.
      + rewrite Ht. reflexivity.
      + destruct e as [|l2 c2 semi2 st2 r2]; [reflexivity|].
        specialize (He fuel (set_status s1 z1)). cbn [norm_stmts] in *. rewrite He. reflexivity.
    - (* While *) intros u c Hc b Hb fuel s. cbn [norm_stmt]. rewrite !ss_while.
      apply loop_ext; intros; [apply Hc|apply Hb].
    - (* For *) intros v items Hi b Hb fuel s. cbn [norm_stmt]. rewrite !ss_for. rewrite Hi.
      destruct (sws fuel items s) as [[vals s1]|]; [|reflexivity].
      apply for_loop_ext. intros; apply Hb.
    - (* Case *) intros w Hw items Hi fuel s. cbn [norm_stmt]. rewrite !ss_case. rewrite Hw.
      destruct (sw fuel w s) as [[v s1]|]; [|reflexivity]. apply Hi.
    - (* FuncDecl *) intros n b Hb fuel s. cbn [norm_stmt]. rewrite !ss_funcdecl. rewrite norm_stmt_idem. reflexivity.
  Qed.
End SemProofs.

(* the property theorem: trees with the same normal form have the same behaviour (final
   state, standard output, exit status), for every fuel, running out of fuel included *)
Theorem norm_preserves_sem :
  forall State lookup run set_status redir_open redir_close set_var pmatch def_func func_body enter_func leave_func
         t t' fuel s,
    norm_stmts t = norm_stmts t' ->
    sem_top State lookup run set_status redir_open redir_close set_var pmatch def_func func_body enter_func leave_func fuel t s =
    sem_top State lookup run set_status redir_open redir_close set_var pmatch def_func func_body enter_func leave_func fuel t' s.
Proof.
  intros State lookup run set_status redir_open redir_close set_var pmatch def_func func_body enter_func leave_func
         t t' fuel s H.
  unfold sem_top.
  destruct (norm_sem_all State lookup run set_status redir_open redir_close set_var pmatch def_func func_body
              enter_func leave_func
              (call_fuel State lookup run set_status redir_open redir_close set_var pmatch def_func func_body
                 enter_func leave_func fuel))
    as (_ & _ & _ & _ & _ & _ & _ & Hs & _).
  rewrite <- (Hs t), <- (Hs t'), H. reflexivity.
Qed.
