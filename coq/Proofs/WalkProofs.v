(* Proofs/WalkProofs.v — proofs about Syntax/Walk.v, generic in schema and walk table. *)
From Verif Require Import Base.Str Syntax.Schema Syntax.Walk.
From Coq Require Import Permutation Lia.
Local Open Scope nat_scope.

(* ---- induction principle for the nested type [value] -------------------------------- *)
Section ValueInd.
  Variable P : value -> Prop.
  Hypothesis Hstruct : forall sid a fs, Forall P fs -> P (VStruct sid a fs).
  Hypothesis HptrN : P (VPtr None).
  Hypothesis HptrS : forall u, P u -> P (VPtr (Some u)).
  Hypothesis HifN : P (VIface None).
  Hypothesis HifS : forall u, P u -> P (VIface (Some u)).
  Hypothesis Hslice : forall b l, Forall P l -> P (VSlice b l).
  Hypothesis Hstr : forall s, P (VStr s).
  Hypothesis Hbool : forall b, P (VBool b).
  Hypothesis Huint : forall u n, P (VUint u n).
  Hypothesis Hpos : forall p, P (VPos p).
  Fixpoint value_ind' (v : value) : P v :=
    match v with
    | VStruct sid a fs =>
        Hstruct sid a fs ((fix go (l : list value) : Forall P l :=
                             match l with [] => Forall_nil P | x :: r => Forall_cons x (value_ind' x) (go r) end) fs)
    | VPtr None => HptrN
    | VPtr (Some u) => HptrS u (value_ind' u)
    | VIface None => HifN
    | VIface (Some u) => HifS u (value_ind' u)
    | VSlice b l =>
        Hslice b l ((fix go (l : list value) : Forall P l :=
                       match l with [] => Forall_nil P | x :: r => Forall_cons x (value_ind' x) (go r) end) l)
    | VStr s => Hstr s
    | VBool b => Hbool b
    | VUint u n => Huint u n
    | VPos p => Hpos p
    end.
End ValueInd.

(* ---- unfolding the nested fixpoints ------------------------------------------------------ *)
Fixpoint fields_typed (sch : schema) (fs : list value) (ds : list field_decl) : bool :=
  match fs, ds with
  | [], [] => true
  | x :: r, d :: ds' => has_type sch (f_ty d) x && fields_typed sch r ds'
  | _, _ => false
  end.

Lemma has_type_struct : forall sch sid' sid a fs,
  has_type sch (TStruct sid') (VStruct sid a fs) =
  (Nat.eqb sid sid' && Bool.eqb (match a with Some _ => true | None => false end) (is_node sch sid)
   && fields_typed sch fs (struct_fields sch sid))%bool.
Proof.
  intros. cbn [has_type]. f_equal.
  generalize (struct_fields sch sid) as ds. induction fs as [|x r IH]; intros [|d ds']; cbn; auto.
  all: try (f_equal; apply IH).
Qed.

Lemma has_type_slice : forall sch te b l,
  has_type sch (TSlice te) (VSlice b l) = forallb (has_type sch te) l.
Proof. intros. cbn [has_type]. induction l as [|x r IH]; cbn; auto; try (f_equal; apply IH). Qed.

Lemma reach_struct : forall sch sid a fs,
  reach sch (VStruct sid a fs) = if is_node sch sid then [VStruct sid a fs] else flat_map (reach sch) fs.
Proof.
  intros. cbn [reach]. destruct (is_node sch sid); reflexivity.
Qed.

Lemma reach_slice : forall sch b l, reach sch (VSlice b l) = flat_map (reach sch) l.
Proof. reflexivity. Qed.

Lemma nodes_in_struct : forall sch sid a fs,
  nodes_in sch (VStruct sid a fs) =
  (if is_node sch sid then [VStruct sid a fs] else []) ++ flat_map (nodes_in sch) fs.
Proof.
  reflexivity.
Qed.

Lemma nodes_in_slice : forall sch b l, nodes_in sch (VSlice b l) = flat_map (nodes_in sch) l.
Proof. reflexivity. Qed.

Fixpoint list_max (l : list nat) : nat := match l with [] => O | x :: r => Nat.max x (list_max r) end.
Lemma height_struct : forall sid a fs, height (VStruct sid a fs) = S (list_max (map height fs)).
Proof. intros. cbn [height]. f_equal. induction fs as [|x r IH]; cbn; auto. Qed.
Lemma height_slice : forall b l, height (VSlice b l) = S (list_max (map height l)).
Proof. intros. cbn [height]. f_equal. induction l as [|x r IH]; cbn; auto. Qed.
Lemma list_max_in : forall l x, In x l -> x <= list_max l.
Proof. induction l; cbn; intros x H; [tauto|]. destruct H; subst; [lia|]. apply IHl in H. lia. Qed.

Lemma fields_typed_in : forall sch fs ds x, fields_typed sch fs ds = true -> In x fs ->
  exists d, In d ds /\ has_type sch (f_ty d) x = true.
Proof.
  induction fs as [|y r IH]; intros [|d ds'] x H Hin; cbn in *; try discriminate; try tauto.
  apply andb_prop in H as [H1 H2]. destruct Hin as [->|Hin].
  - eauto.
  - destruct (IH _ _ H2 Hin) as (d' & ? & ?). eauto.
Qed.

(* ---- typing of the nodes a value reaches ---------------------------------------------------- *)
Section WithSchema.
Variable sch : schema.

Definition node_typed (c : value) : Prop :=
  exists sid, has_type sch (TStruct sid) c = true /\ is_node sch sid = true.

Lemma has_type_TStruct_inv : forall sid x, has_type sch (TStruct sid) x = true ->
  exists a fs, x = VStruct sid a fs /\ fields_typed sch fs (struct_fields sch sid) = true.
Proof.
  intros sid x H. destruct x as [sid' a fs| [u|] | [u|] | b l | s | b | u n | p]; try (cbn in H; discriminate).
  rewrite has_type_struct in H. apply andb_prop in H as [H H3]. apply andb_prop in H as [H1 H2].
  apply Nat.eqb_eq in H1. subst. eauto.
Qed.

Lemma has_type_struct_ty : forall t sid a fs, has_type sch t (VStruct sid a fs) = true -> t = TStruct sid.
Proof.
  intros t sid a fs H. destruct t; try (cbn in H; discriminate).
  rewrite has_type_struct in H. apply andb_prop in H as [H _]. apply andb_prop in H as [H _].
  apply Nat.eqb_eq in H. subst. reflexivity.
Qed.

Lemma reach_typed : forall v t, has_type sch t v = true -> forall c, In c (reach sch v) -> node_typed c.
Proof.
  induction v using value_ind'; intros t Ht c Hin.
  - pose proof (has_type_struct_ty _ _ _ _ Ht); subst t.
    rewrite reach_struct in Hin. destruct (is_node sch sid) eqn:E.
    + destruct Hin as [<-|[]]. exists sid. auto.
    + apply in_flat_map in Hin as (f & Hf & Hc).
      rewrite has_type_struct in Ht. apply andb_prop in Ht as [_ Ht].
      destruct (fields_typed_in _ _ _ _ Ht Hf) as (d & _ & Hd).
      rewrite Forall_forall in H. eapply H; eauto.
  - cbn in Hin. tauto.
  - destruct t; try (cbn in Ht; discriminate). cbn in Ht. cbn in Hin. eapply IHv; eauto.
  - cbn in Hin. tauto.
  - destruct t; try (cbn in Ht; discriminate). cbn in Ht.
    destruct v; try discriminate. apply andb_prop in Ht as [_ Ht]. cbn [reach] in Hin. eapply IHv; eauto.
  - destruct t; try (cbn in Ht; discriminate). rewrite has_type_slice in Ht.
    rewrite reach_slice in Hin. apply in_flat_map in Hin as (f & Hf & Hc).
    rewrite forallb_forall in Ht. rewrite Forall_forall in H. eapply H; eauto.
  - cbn in Hin; tauto.
  - cbn in Hin; tauto.
  - cbn in Hin; tauto.
  - cbn in Hin; tauto.
Qed.

Lemma kids_typed : forall sid v, has_type sch (TStruct sid) v = true ->
  forall c, In c (kids sch v) -> node_typed c.
Proof.
  intros sid v H c Hin. destruct (has_type_TStruct_inv _ _ H) as (a & fs & -> & Hf).
  cbn [kids] in Hin. apply in_flat_map in Hin as (f & Hfin & Hc).
  destruct (fields_typed_in _ _ _ _ Hf Hfin) as (d & _ & Hd). eapply reach_typed; eauto.
Qed.

(* ---- what a typed field value reaches, by class ------------------------------------------------ *)
Lemma all_nodes_iface_mem : forall iid sid, all_nodes_iface sch iid = true ->
  mem_nat sid (iface_impls sch iid) = true -> is_node sch sid = true.
Proof.
  unfold all_nodes_iface, iface_impls, mem_nat. intros iid sid H M.
  destruct (get_iface sch iid) as [d|]; [|discriminate].
  apply existsb_exists in M as (y & Hy & E). apply Nat.eqb_eq in E. subst y.
  rewrite forallb_forall in H. auto.
Qed.

Lemma reach_node_struct : forall sid x, has_type sch (TStruct sid) x = true -> is_node sch sid = true ->
  reach sch x = [x].
Proof.
  intros sid x H N. destruct (has_type_TStruct_inv _ _ H) as (a & fs & -> & _).
  rewrite reach_struct, N. reflexivity.
Qed.

Lemma reach_ptr : forall u, reach sch (VPtr (Some u)) = reach sch u.
Proof. reflexivity. Qed.
Lemma reach_iface : forall u, reach sch (VIface (Some u)) = reach sch u.
Proof. reflexivity. Qed.

Lemma class_ptr : forall t x, classify sch t = CPtr -> has_type sch t x = true ->
  exists o, deref x = Ok o /\ reach sch x = match o with Some n => [n] | None => [] end.
Proof.
  intros t x C H. destruct t; cbn in C; try discriminate.
  - destruct (is_node sch sid) eqn:N; [|discriminate].
    destruct x as [sid' a fs| [u|] | [u|] | b l | s | b | u n | p]; try (cbn in H; discriminate).
    + exists (Some u). split; auto. cbn in H. rewrite reach_ptr. eapply reach_node_struct; eauto.
    + exists None. auto.
  - destruct (all_nodes_iface sch iid) eqn:N; [|discriminate].
    destruct x as [sid' a fs| [u|] | [u|] | b l | s | b | u n | p]; try (cbn in H; discriminate).
    + exists (Some u). split; auto. cbn in H. destruct u; try discriminate.
      apply andb_prop in H as [M H]. rewrite reach_iface. eapply reach_node_struct; eauto.
      eapply all_nodes_iface_mem; eauto.
    + exists None. auto.
  - destruct t; try discriminate.
    + destruct (is_node sch sid); discriminate.
    + destruct (is_node sch sid); discriminate.
    + destruct (all_nodes_iface sch iid); discriminate.
Qed.

Lemma class_list_elem : forall te, classify sch (TSlice te) = CList -> classify sch te = CPtr.
Proof.
  intros te C. destruct te; cbn in C |- *; try discriminate.
  - destruct (is_node sch sid); discriminate.
  - destruct (is_node sch sid); auto; discriminate.
  - destruct (all_nodes_iface sch iid); auto; discriminate.
Qed.

Lemma class_list : forall t x, classify sch t = CList -> has_type sch t x = true ->
  exists b l, x = VSlice b l /\ forall ns, deref_all l = Ok ns -> reach sch x = ns.
Proof.
  intros t x C H. destruct t; try (cbn in C; discriminate).
  - cbn in C. destruct (is_node sch sid); discriminate.
  - cbn in C. destruct (all_nodes_iface sch iid); discriminate.
  - pose proof (class_list_elem _ C) as CE.
    destruct x as [sid' a fs| [u|] | [u|] | b l | s | b | u n | p]; try (cbn in H; discriminate).
    exists b, l. split; auto. rewrite has_type_slice in H. rewrite reach_slice.
    clear C. induction l as [|e r IH]; intros ns D; cbn in D.
    + inversion D. reflexivity.
    + cbn in H. apply andb_prop in H as [He Hr].
      destruct (class_ptr _ _ CE He) as (o & Do & Ro). rewrite Do in D.
      destruct o as [n|]; [|discriminate].
      destruct (deref_all r) as [ns'| |] eqn:Dr; try discriminate. inversion D; subst.
      cbn [flat_map]. rewrite Ro. cbn. f_equal. apply IH; auto.
Qed.

Lemma class_comments : forall t x, classify sch t = CComments -> has_type sch t x = true ->
  exists b l, x = VSlice b l /\ reach sch x = l.
Proof.
  intros t x C H. destruct t; try (cbn in C; discriminate).
  - cbn in C. destruct (is_node sch sid); discriminate.
  - cbn in C. destruct (all_nodes_iface sch iid); discriminate.
  - destruct t; cbn in C; try discriminate.
    + destruct (is_node sch sid) eqn:N; [|discriminate].
      destruct x as [sid' a fs| [u|] | [u|] | b l | s | b | u n | p]; try (cbn in H; discriminate).
      exists b, l. split; auto. rewrite has_type_slice in H. rewrite reach_slice.
      induction l as [|e r IH]; auto. cbn in H. apply andb_prop in H as [He Hr].
      cbn [flat_map]. rewrite (reach_node_struct _ _ He N). cbn. f_equal. auto.
    + destruct (is_node sch sid); discriminate.
    + destruct (all_nodes_iface sch iid); discriminate.
Qed.

Lemma class_none : forall t x, classify sch t = CNone -> has_type sch t x = true -> reach sch x = [].
Proof.
  intros t x C H. destruct t; cbn in C; try discriminate;
    try (destruct x as [sid' a fs| [u|] | [u|] | b l | s | b | u n | p]; try (cbn in H; discriminate); reflexivity).
  - destruct (is_node sch sid); discriminate.
  - destruct (all_nodes_iface sch iid); discriminate.
  - destruct x as [sid' a fs| [u|] | [u|] | b l | s | b | u n | p]; try (cbn in H; discriminate).
    rewrite has_type_slice in H. rewrite reach_slice.
    destruct t; try discriminate;
      try (destruct (is_node sch sid); discriminate); try (destruct (all_nodes_iface sch iid); discriminate).
    all: induction l as [|e r IH]; auto; cbn in H; apply andb_prop in H as [He Hr];
      cbn [flat_map]; rewrite IH by auto;
      destruct e as [sid' a fs| [u|] | [u|] | b' l' | s | b' | u n | p]; try (cbn in He; discriminate); reflexivity.
Qed.
End WithSchema.

(* ---- the node-reaching paths of a kind reach exactly the children -------------------------------- *)
Section Paths.
Variable sch : schema.

Definition path_nodes (v : value) (p : list nat) : list value :=
  match field_at v p with Ok (Some x) => reach sch x | _ => [] end.

Definition good_class (c : fclass) : Prop := c = CPtr \/ c = CList \/ c = CComments.
Definition path_good (v : value) (pc : list nat * fclass) : Prop :=
  good_class (snd pc) /\
  match field_at v (fst pc) with
  | Ok None => True
  | Ok (Some x) => exists t, has_type sch t x = true /\ classify sch t = snd pc
  | _ => False
  end.

Lemma sub_paths_spec : forall i v ds fs j sp,
  fields_typed sch fs ds = true -> sub_paths sch i j ds = Some sp ->
  (forall m y, nth_error fs m = Some y -> field_at v [i; j + m] = Ok (Some y)) ->
  flat_map (reach sch) fs = flat_map (path_nodes v) (map fst sp) /\ Forall (path_good v) sp.
Proof.
  induction ds as [|d ds IH]; intros fs j sp Ht Hs Hacc.
  - destruct fs; [|discriminate]. cbn in Hs. inversion Hs. cbn. auto.
  - destruct fs as [|x fs]; [discriminate|]. cbn in Ht. apply andb_prop in Ht as [Hx Ht].
    cbn [sub_paths] in Hs. destruct (sub_paths sch i (S j) ds) as [rest|] eqn:Er; [|discriminate].
    assert (Hacc' : forall m y, nth_error fs m = Some y -> field_at v [i; S j + m] = Ok (Some y)).
    { intros m y Hm. replace (S j + m) with (j + S m) by lia. apply Hacc. exact Hm. }
    destruct (IH fs (S j) rest Ht Er Hacc') as [IH1 IH2].
    assert (Hx0 : field_at v [i; j] = Ok (Some x)).
    { replace j with (j + 0) at 1 by lia. apply Hacc. reflexivity. }
    destruct (classify sch (f_ty d)) eqn:C; inversion Hs; subst; cbn [flat_map map fst].
    + rewrite (class_none _ _ _ C Hx). cbn. auto.
    + split.
      * unfold path_nodes at 1. rewrite Hx0. f_equal. exact IH1.
      * constructor; auto. split; [left; reflexivity|]. cbn [fst snd]. rewrite Hx0. eauto.
    + split.
      * unfold path_nodes at 1. rewrite Hx0. f_equal. exact IH1.
      * constructor; auto. split; [right; left; reflexivity|]. cbn [fst snd]. rewrite Hx0. eauto.
    + split.
      * unfold path_nodes at 1. rewrite Hx0. f_equal. exact IH1.
      * constructor; auto. split; [right; right; reflexivity|]. cbn [fst snd]. rewrite Hx0. eauto.
Qed.

Lemma sub_paths_shape : forall i ds j sp, sub_paths sch i j ds = Some sp ->
  Forall (fun pc => good_class (snd pc) /\ exists j', fst pc = [i; j']) sp.
Proof.
  induction ds as [|d ds IH]; intros j sp Hs; cbn in Hs.
  - inversion Hs. constructor.
  - destruct (sub_paths sch i (S j) ds) as [rest|] eqn:Er; [|discriminate].
    specialize (IH _ _ Er).
    destruct (classify sch (f_ty d)); inversion Hs; subst; auto; constructor; auto; cbn; split; eauto;
      unfold good_class; auto.
Qed.

Lemma class_sub_inv : forall t s2, classify sch t = CSub s2 -> t = TPtr s2 /\ is_node sch s2 = false.
Proof.
  intros t s2 C. destruct t; cbn in C; try discriminate.
  - destruct (is_node sch sid) eqn:N; [discriminate|]. inversion C; subst. auto.
  - destruct (all_nodes_iface sch iid); discriminate.
  - destruct t; try discriminate.
    + destruct (is_node sch sid); discriminate.
    + destruct (is_node sch sid); discriminate.
    + destruct (all_nodes_iface sch iid); discriminate.
Qed.

Lemma node_paths_spec : forall sid a all_fs ds fs k rp,
  fields_typed sch fs ds = true -> node_paths sch k ds = Some rp ->
  (forall m y, nth_error fs m = Some y -> nth_error all_fs (k + m) = Some y) ->
  flat_map (reach sch) fs = flat_map (path_nodes (VStruct sid a all_fs)) (map fst rp) /\
  Forall (path_good (VStruct sid a all_fs)) rp.
Proof.
  intros sid a all_fs. set (v := VStruct sid a all_fs).
  induction ds as [|d ds IH]; intros fs k rp Ht Hs Hacc.
  - destruct fs; [|discriminate]. cbn in Hs. inversion Hs. cbn. auto.
  - destruct fs as [|x fs]; [discriminate|]. cbn in Ht. apply andb_prop in Ht as [Hx Ht].
    cbn [node_paths] in Hs. destruct (node_paths sch (S k) ds) as [rest|] eqn:Er; [|discriminate].
    assert (Hacc' : forall m y, nth_error fs m = Some y -> nth_error all_fs (S k + m) = Some y).
    { intros m y Hm. replace (S k + m) with (k + S m) by lia. apply Hacc. exact Hm. }
    destruct (IH fs (S k) rest Ht Er Hacc') as [IH1 IH2].
    assert (Hk : nth_error all_fs k = Some x).
    { replace k with (k + 0) by lia. apply Hacc. reflexivity. }
    assert (Hx0 : field_at v [k] = Ok (Some x)). { cbn. rewrite Hk. reflexivity. }
    destruct (classify sch (f_ty d)) eqn:C; cbn [flat_map map fst].
    + inversion Hs; subst. rewrite (class_none _ _ _ C Hx). cbn. auto.
    + inversion Hs; subst. split.
      * cbn [map fst flat_map]. unfold path_nodes at 1. rewrite Hx0. f_equal. exact IH1.
      * constructor; auto. split; [left; reflexivity|]. cbn [fst snd]. rewrite Hx0. eauto.
    + inversion Hs; subst. split.
      * cbn [map fst flat_map]. unfold path_nodes at 1. rewrite Hx0. f_equal. exact IH1.
      * constructor; auto. split; [right; left; reflexivity|]. cbn [fst snd]. rewrite Hx0. eauto.
    + inversion Hs; subst. split.
      * cbn [map fst flat_map]. unfold path_nodes at 1. rewrite Hx0. f_equal. exact IH1.
      * constructor; auto. split; [right; right; reflexivity|]. cbn [fst snd]. rewrite Hx0. eauto.
    + (* a pointer to a non-node struct *)
      destruct (class_sub_inv _ _ C) as [Et Nn]. rewrite Nn in Hs.
      destruct (sub_paths sch k 0 (struct_fields sch sid0)) as [sp|] eqn:Es; [|discriminate].
      inversion Hs; subst rp. rewrite Et in Hx.
      rewrite map_app, flat_map_app. rewrite Forall_app.
      destruct x as [sid' a' fs'| [u|] | [u|] | b l | s | b | u n | p]; try (cbn in Hx; discriminate).
      * cbn in Hx. destruct (has_type_TStruct_inv _ _ _ Hx) as (a2 & fs2 & -> & Hf2).
        assert (Hacc2 : forall m y, nth_error fs2 m = Some y -> field_at v [k; 0 + m] = Ok (Some y)).
        { intros m y Hm. cbn. rewrite Hk. rewrite Hm. reflexivity. }
        destruct (sub_paths_spec k v _ _ _ _ Hf2 Es Hacc2) as [S1 S2].
        split; [|split; auto].
        rewrite reach_ptr, reach_struct, Nn. rewrite S1, IH1. reflexivity.
      * pose proof (sub_paths_shape _ _ _ _ Es) as Sh.
        assert (Hnil : forall pc, In pc sp -> field_at v (fst pc) = Ok None).
        { intros pc Hin. rewrite Forall_forall in Sh. destruct (Sh _ Hin) as [_ [j' E]].
          rewrite E. cbn. rewrite Hk. reflexivity. }
        split; [|split; auto].
        -- cbn [reach app]. rewrite <- IH1.
           replace (flat_map (path_nodes v) (map fst sp)) with (@nil value); auto.
           clear - Hnil. induction sp as [|pc sp IHsp]; auto. cbn.
           unfold path_nodes at 1. rewrite (Hnil pc) by (left; auto). cbn. apply IHsp.
           intros; apply Hnil; right; auto.
        -- rewrite Forall_forall. intros pc Hin. rewrite Forall_forall in Sh.
           destruct (Sh _ Hin) as [G _]. split; auto. rewrite (Hnil _ Hin). exact I.
    + discriminate.
Qed.

Lemma kids_paths : forall sid v rp, has_type sch (TStruct sid) v = true -> reach_paths sch sid = Some rp ->
  kids sch v = flat_map (path_nodes v) (map fst rp) /\ Forall (path_good v) rp.
Proof.
  intros sid v rp H R. destruct (has_type_TStruct_inv _ _ _ H) as (a & fs & -> & Hf).
  unfold reach_paths in R. cbn [kids].
  apply (node_paths_spec sid a fs _ fs 0 rp Hf R). intros m y Hm. exact Hm.
Qed.

(* ---- one step visits exactly what its path reaches ------------------------------------------------- *)
Lemma span_comments_app : forall keep l a b, span_comments keep l = (a, b) -> a ++ b = l.
Proof.
  induction l as [|c r IH]; intros a b H; cbn in H.
  - inversion H. reflexivity.
  - destruct (keep c).
    + destruct (span_comments keep r) as [a' b'] eqn:E. inversion H; subst. cbn. f_equal. apply IH. reflexivity.
    + inversion H; subst. reflexivity.
Qed.

Lemma step_targets_spec : forall v p c m n d,
  path_good v (p, c) -> mode_ok c m = true ->
  step_targets v {| w_path := p; w_mode := m |} = Ok (n, d) -> n ++ d = path_nodes v p.
Proof.
  intros v p c m n d [G Hp] M St. cbn [fst snd] in *. unfold step_targets in St. cbn [w_path w_mode] in St.
  unfold path_nodes. destruct (field_at v p) as [[x|]| |]; try discriminate; try tauto.
  2: { inversion St. reflexivity. }
  destruct Hp as (t & Ht & C).
  destruct c; cbn in M; try discriminate.
  - destruct (class_ptr _ _ _ C Ht) as (o & Do & Ro). rewrite Ro.
    destruct m; try discriminate; rewrite Do in St; destruct o; inversion St; reflexivity.
  - destruct (class_list _ _ _ C Ht) as (b & l & -> & Hl).
    destruct m; try discriminate. destruct (deref_all l) as [ns| |] eqn:D; try discriminate.
    inversion St; subst. rewrite app_nil_r. symmetry. apply Hl. reflexivity.
  - destruct (class_comments _ _ _ C Ht) as (b & l & -> & Hl). rewrite Hl.
    destruct m; try discriminate; inversion St; subst.
    + apply app_nil_r.
    + eapply span_comments_app; eauto.
    + eapply span_comments_app; eauto.
Qed.

(* ---- boolean path checks ------------------------------------------------------------------------------ *)
Lemma path_eqb_eq : forall a b, path_eqb a b = true <-> a = b.
Proof.
  unfold path_eqb. induction a as [|x a IH]; intros [|y b]; split; intro H; try discriminate; auto.
  - apply andb_prop in H as [H1 H2]. apply Nat.eqb_eq in H1. apply IH in H2. subst. reflexivity.
  - inversion H; subst. apply andb_true_intro. split; [apply Nat.eqb_refl|]. apply IH. reflexivity.
Qed.

Lemma mem_path_in : forall p l, mem_path p l = true <-> In p l.
Proof.
  unfold mem_path. intros p l. rewrite existsb_exists. split.
  - intros (q & Hq & E). apply path_eqb_eq in E. subst. exact Hq.
  - intros H. exists p. split; auto. apply path_eqb_eq. reflexivity.
Qed.

Lemma nodup_paths_NoDup : forall l, nodup_paths l = true -> NoDup l.
Proof.
  induction l as [|p r IH]; intro H; [constructor|]. cbn in H. apply andb_prop in H as [H1 H2].
  constructor; auto. intro Hin. apply mem_path_in in Hin. rewrite Hin in H1. discriminate.
Qed.

Lemma path_class_in : forall p rp c, path_class p rp = Some c -> In (p, c) rp.
Proof.
  induction rp as [|[q c'] r IH]; intros c H; cbn in H; [discriminate|].
  destruct (path_eqb p q) eqn:E.
  - apply path_eqb_eq in E. inversion H; subst. left. reflexivity.
  - right. auto.
Qed.

(* ---- the targets of a node are a permutation of its children ------------------------------------------- *)
Lemma targets_perm_paths : forall v steps now dfr,
  (forall st n d, In st steps -> step_targets v st = Ok (n, d) -> n ++ d = path_nodes v (w_path st)) ->
  targets v steps = Ok (now, dfr) ->
  Permutation (now ++ dfr) (flat_map (path_nodes v) (map w_path steps)).
Proof.
  induction steps as [|st r IH]; intros now dfr Hst T; cbn in T.
  - inversion T. constructor.
  - destruct (step_targets v st) as [[n1 d1]| |] eqn:E1; try discriminate.
    destruct (targets v r) as [[n2 d2]| |] eqn:E2; try discriminate. inversion T; subst.
    cbn [map flat_map]. rewrite <- (Hst st n1 d1) by (auto; left; auto).
    specialize (IH n2 d2 (fun st' n d Hin => Hst st' n d (or_intror Hin)) eq_refl).
    rewrite <- IH. rewrite <- !app_assoc. apply Permutation_app_head.
    rewrite !app_assoc. apply Permutation_app_tail. apply Permutation_app_comm.
Qed.

Theorem targets_children : forall tbl sid v steps now dfr,
  table_ok sch tbl = true -> has_type sch (TStruct sid) v = true -> is_node sch sid = true ->
  table_get tbl sid = Some steps -> targets v steps = Ok (now, dfr) ->
  Permutation (now ++ dfr) (kids sch v).
Proof.
  intros tbl sid v steps now dfr Tok Ht Nn Tg T.
  (* the row of this kind is ok *)
  assert (Hlt : sid < length (structs sch)).
  { unfold is_node, get_struct in Nn. destruct (nth_error (structs sch) sid) eqn:E; [|discriminate].
    apply nth_error_Some. congruence. }
  unfold table_ok in Tok. rewrite forallb_forall in Tok.
  specialize (Tok sid). rewrite in_seq in Tok. specialize (Tok ltac:(lia)).
  rewrite Nn in Tok. cbn in Tok. unfold kind_ok in Tok. unfold table_get in Tg.
  destruct (nth_error tbl sid) as [[steps'|]|]; try discriminate. inversion Tg; subst steps'.
  unfold steps_ok in Tok. destruct (reach_paths sch sid) as [rp|] eqn:R; [|discriminate].
  apply andb_prop in Tok as [Tok Hmodes]. apply andb_prop in Tok as [Tok Hincl2].
  apply andb_prop in Tok as [Tok Hincl1]. apply andb_prop in Tok as [Hnd1 Hnd2].
  destruct (kids_paths _ _ _ Ht R) as [Hk Hg]. rewrite Hk.
  rewrite (targets_perm_paths v steps now dfr); auto.
  - apply Permutation_flat_map. apply NoDup_Permutation.
    + apply nodup_paths_NoDup; auto.
    + apply nodup_paths_NoDup; auto.
    + intro p. rewrite forallb_forall in Hincl1, Hincl2. split; intro Hin.
      * apply mem_path_in. apply Hincl1. exact Hin.
      * apply mem_path_in. apply Hincl2. exact Hin.
  - intros st n d Hin St. rewrite forallb_forall in Hmodes. specialize (Hmodes _ Hin).
    destruct (path_class (w_path st) rp) as [c|] eqn:Pc; [|discriminate].
    apply path_class_in in Pc. rewrite Forall_forall in Hg. specialize (Hg _ Pc).
    destruct st as [p m]. cbn [w_path w_mode] in *. eapply step_targets_spec; eauto.
Qed.
End Paths.

Scheme WalkSpec_mut := Minimality for WalkSpec Sort Prop
  with WalkSeq_mut := Minimality for WalkSeq Sort Prop.

(* ---- main theorems ---------------------------------------------------------------------------------------- *)
Section Main.
Variable sch : schema.
Variable tbl : walk_table.
Hypothesis Tok : table_ok sch tbl = true.

Section Cb.
Context {S : Type}.
Variable cb : S -> ev -> S * bool.

Lemma walk_seq_spec : forall (w : S -> value -> res (list ev * S)) l s t s',
  (forall x, In x l -> forall s t s', w s x = Ok (t, s') -> WalkSpec sch cb s x t s') ->
  walk_seq w l s = Ok (t, s') -> WalkSeq sch cb s l t s'.
Proof.
  induction l as [|x r IH]; intros s t s' Hw H; cbn in H.
  - inversion H; subst. constructor.
  - destruct (w s x) as [[t1 s1]| |] eqn:E; try discriminate.
    destruct (walk_seq w r s1) as [[t2 s2]| |] eqn:E2; try discriminate.
    inversion H; subst. econstructor.
    + apply Hw; [left; reflexivity|exact E].
    + apply IH; auto. intros y Hy. apply Hw. right. exact Hy.
Qed.

Theorem walk_spec : forall fuel s v sid t s',
  has_type sch (TStruct sid) v = true -> is_node sch sid = true ->
  walk tbl cb fuel s v = Ok (t, s') -> WalkSpec sch cb s v t s'.
Proof.
  induction fuel as [|fuel IH]; intros s v sid t s' Ht Nn W; cbn [walk] in W; [discriminate|].
  destruct (has_type_TStruct_inv _ _ _ Ht) as (a & fs & -> & Hf).
  destruct (cb s (Some (VStruct sid a fs))) as [s1 b] eqn:Ecb.
  destruct b; cbn [negb] in W.
  2: { inversion W; subst. apply WS_prune. exact Ecb. }
  destruct (table_get tbl sid) as [steps|] eqn:Tg; try discriminate.
  destruct (targets (VStruct sid a fs) steps) as [[now dfr]| |] eqn:T; try discriminate.
  destruct (walk_seq (walk tbl cb fuel) now s1) as [[t1 s2]| |] eqn:W1; try discriminate.
  destruct (cb s2 None) as [s3 b'] eqn:Ecb2.
  destruct (walk_seq (walk tbl cb fuel) dfr s3) as [[t2 s4]| |] eqn:W2; try discriminate.
  inversion W; subst.
  pose proof (targets_children sch tbl sid _ steps now dfr Tok Ht Nn Tg T) as P.
  assert (Hch : forall x, In x (now ++ dfr) -> forall s t s',
             walk tbl cb fuel s x = Ok (t, s') -> WalkSpec sch cb s x t s').
  { intros x Hin s0 t0 s0' Hw. apply (Permutation_in _ P) in Hin.
    destruct (kids_typed sch _ _ Ht _ Hin) as (sid' & Hx & Nx). eapply IH; eauto. }
  eapply WS_enter; eauto.
  - eapply walk_seq_spec; eauto. intros x Hin. apply Hch. apply in_or_app. left. exact Hin.
  - eapply walk_seq_spec; eauto. intros x Hin. apply Hch. apply in_or_app. right. exact Hin.
Qed.
End Cb.

(* ---- unpruned: every node exactly once, one nil per node ---------------------------------------------------- *)
Definition is_node_val (v : value) : Prop :=
  exists sid a fs, v = VStruct sid a fs /\ is_node sch sid = true.

Lemma reach_are_nodes : forall x c, In c (reach sch x) -> is_node_val c.
Proof.
  induction x using value_ind'; intros c Hin; try (cbn in Hin; tauto).
  - rewrite reach_struct in Hin. destruct (is_node sch sid) eqn:E.
    + destruct Hin as [<-|[]]. exists sid, a, fs. auto.
    + apply in_flat_map in Hin as (f & Hf & Hc). rewrite Forall_forall in H. eauto.
  - rewrite reach_ptr in Hin. auto.
  - rewrite reach_iface in Hin. auto.
  - rewrite reach_slice in Hin. apply in_flat_map in Hin as (f & Hf & Hc). rewrite Forall_forall in H. eauto.
Qed.

Lemma flat_map_flat_map : forall (A B C : Type) (f : A -> list B) (g : B -> list C) l,
  flat_map g (flat_map f l) = flat_map (fun x => flat_map g (f x)) l.
Proof. induction l; cbn; auto. rewrite flat_map_app. f_equal. auto. Qed.

Lemma nodes_in_reach : forall x, nodes_in sch x = flat_map (nodes_in sch) (reach sch x).
Proof.
  induction x using value_ind'; try reflexivity.
  - rewrite reach_struct. destruct (is_node sch sid) eqn:E.
    + cbn [flat_map]. rewrite app_nil_r. reflexivity.
    + rewrite nodes_in_struct, E. cbn [app]. rewrite flat_map_flat_map.
      induction fs as [|f r IHr]; auto. inversion H; subst. cbn. f_equal; auto.
  - rewrite reach_ptr. exact IHx.
  - rewrite reach_iface. exact IHx.
  - rewrite reach_slice, nodes_in_slice, flat_map_flat_map.
    induction l as [|f r IHr]; auto. inversion H; subst. cbn. f_equal; auto.
Qed.

Lemma nodes_in_kids : forall v, is_node_val v -> nodes_in sch v = v :: flat_map (nodes_in sch) (kids sch v).
Proof.
  intros v (sid & a & fs & -> & N). rewrite nodes_in_struct, N. cbn [app kids]. f_equal.
  rewrite flat_map_flat_map. induction fs as [|f r IH]; auto. cbn. f_equal; auto. apply nodes_in_reach.
Qed.

Lemma somes_app : forall a b, somes (a ++ b) = somes a ++ somes b.
Proof. induction a as [|[x|] a IH]; intros; cbn; auto. f_equal. auto. Qed.
Lemma count_none_app : forall a b, count_none (a ++ b) = count_none a + count_none b.
Proof. induction a as [|[x|] a IH]; intros; cbn; auto. Qed.

Lemma kids_are_nodes : forall v c, In c (kids sch v) -> is_node_val c.
Proof.
  intros v c Hin. destruct v; cbn in Hin; try tauto.
  apply in_flat_map in Hin as (f & _ & Hc). eapply reach_are_nodes; eauto.
Qed.

Theorem spec_unpruned : forall s v t s', WalkSpec sch cb_true s v t s' -> is_node_val v ->
  Permutation (somes t) (nodes_in sch v) /\ count_none t = length (nodes_in sch v).
Proof.
  apply (WalkSpec_mut sch unit cb_true
    (fun s v t s' => is_node_val v ->
       Permutation (somes t) (nodes_in sch v) /\ count_none t = length (nodes_in sch v))
    (fun s l t s' => Forall is_node_val l ->
       Permutation (somes t) (flat_map (nodes_in sch) l) /\ count_none t = length (flat_map (nodes_in sch) l))).
  - intros s v s1 H. discriminate.
  - intros s v s1 now dfr t1 s2 s3 b t2 s4 _ P _ IH1 _ _ IH2 Nv.
    assert (Hall : Forall is_node_val (now ++ dfr)).
    { rewrite Forall_forall. intros x Hin. apply (Permutation_in _ P) in Hin. eapply kids_are_nodes; eauto. }
    apply Forall_app in Hall as [Hn Hd].
    destruct (IH1 Hn) as [P1 C1]. destruct (IH2 Hd) as [P2 C2].
    rewrite (nodes_in_kids _ Nv). cbn [somes count_none length].
    rewrite somes_app, count_none_app. cbn [somes count_none].
    assert (PK : Permutation (flat_map (nodes_in sch) (now ++ dfr)) (flat_map (nodes_in sch) (kids sch v))).
    { apply Permutation_flat_map. exact P. }
    rewrite flat_map_app in PK. split.
    + constructor. rewrite <- PK. apply Permutation_app; auto.
    + rewrite <- (Permutation_length PK), app_length. lia.
  - intros s _. cbn. auto.
  - intros s x r t1 s1 t2 s2 _ IH1 _ IH2 Hall. inversion Hall; subst.
    destruct (IH1 H1) as [P1 C1]. destruct (IH2 H2) as [P2 C2].
    cbn [flat_map]. rewrite somes_app, count_none_app, app_length. split.
    + apply Permutation_app; auto.
    + lia.
Qed.

Theorem walk_all_exactly_once : forall fuel v sid t u,
  has_type sch (TStruct sid) v = true -> is_node sch sid = true ->
  walk_all tbl fuel v = Ok (t, u) ->
  Permutation (somes t) (nodes_in sch v) /\ count_none t = length (nodes_in sch v) /\
  exists t', t = Some v :: t'.
Proof.
  intros fuel v sid t u Ht Nn W. unfold walk_all in W.
  pose proof (walk_spec cb_true fuel tt v sid t u Ht Nn W) as Sp.
  destruct (has_type_TStruct_inv _ _ _ Ht) as (a & fs & E & _).
  assert (Nv : is_node_val v) by (exists sid, a, fs; auto).
  destruct (spec_unpruned _ _ _ _ Sp Nv) as [P C]. split; auto. split; auto.
  inversion Sp; subst; eauto.
Qed.

(* ---- Preorder -------------------------------------------------------------------------------------------------- *)
Section Pre.
Context {Y : Type}.
Variable yield : Y -> value -> Y * bool.

Lemma feed_false : forall y l, feed yield (false, y) l = (false, y).
Proof. destruct l; reflexivity. Qed.

Lemma feed_app : forall l1 l2 st, feed yield st (l1 ++ l2) = feed yield (feed yield st l1) l2.
Proof.
  induction l1 as [|n r IH]; intros l2 [ok y]; cbn; auto.
  destruct ok.
  - destruct (yield y n) as [y' b]. apply IH.
  - rewrite feed_false. reflexivity.
Qed.

Lemma preorder_seq : forall (fuel : nat),
  (forall v t u, walk tbl cb_true fuel tt v = Ok (t, u) ->
     forall st, exists t', walk tbl (pre_cb yield) fuel st v = Ok (t', feed yield st (somes t))) ->
  forall l t u, walk_seq (walk tbl cb_true fuel) l tt = Ok (t, u) ->
  forall st, exists t', walk_seq (walk tbl (pre_cb yield) fuel) l st = Ok (t', feed yield st (somes t)).
Proof.
  intros fuel IH. induction l as [|x r IHl]; intros t u W st; cbn in W.
  - inversion W; subst. exists []. reflexivity.
  - destruct (walk tbl cb_true fuel tt x) as [[t1 []]| |] eqn:E1; try discriminate.
    destruct (walk_seq (walk tbl cb_true fuel) r tt) as [[t2 u2]| |] eqn:E2; try discriminate.
    inversion W; subst. destruct (IH _ _ _ E1 st) as (t1' & H1).
    destruct (IHl _ _ eq_refl (feed yield st (somes t1))) as (t2' & H2).
    exists (t1' ++ t2'). cbn. rewrite H1, H2. rewrite somes_app, feed_app. reflexivity.
Qed.

Theorem preorder_feeds_walk_order : forall fuel v t u,
  walk_all tbl fuel v = Ok (t, u) ->
  forall st, exists t', walk tbl (pre_cb yield) fuel st v = Ok (t', feed yield st (somes t)).
Proof.
  unfold walk_all. induction fuel as [|fuel IH]; intros v t u W st; cbn [walk] in W; [discriminate|].
  destruct v as [sid a fs| | | | | | | ]; try discriminate.
  cbn [cb_true negb] in W.
  destruct (table_get tbl sid) as [steps|] eqn:Tg; try discriminate.
  destruct (targets (VStruct sid a fs) steps) as [[now dfr]| |] eqn:T; try discriminate.
  destruct (walk_seq (walk tbl cb_true fuel) now tt) as [[t1 []]| |] eqn:W1; try discriminate.
  destruct (walk_seq (walk tbl cb_true fuel) dfr tt) as [[t2 u2]| |] eqn:W2; try discriminate.
  inversion W; subst. cbn [somes]. rewrite somes_app. cbn [somes].
  destruct st as [ok y]. cbn [walk]. destruct ok.
  - cbn [pre_cb feed]. destruct (yield y (VStruct sid a fs)) as [y' b] eqn:Ey. destruct b; cbn [negb].
    + rewrite Tg, T.
      destruct (preorder_seq fuel IH _ _ _ W1 (true, y')) as (t1' & H1). rewrite H1.
      remember (feed yield (true, y') (somes t1)) as st2. destruct st2 as [ok2 y2].
      cbn [pre_cb].
      destruct (preorder_seq fuel IH _ _ _ W2 (ok2, y2)) as (t2' & H2). rewrite H2.
      eexists. rewrite feed_app, <- Heqst2. reflexivity.
    + eexists. rewrite feed_false. reflexivity.
  - cbn [pre_cb negb]. eexists. rewrite feed_false. reflexivity.
Qed.
End Pre.
End Main.

(* ---- the model's error results (ill-typed input, out of fuel) are unreachable --------------------------------- *)
Section NoErr.
Variable sch : schema.
Variable tbl : walk_table.
Hypothesis Tok : table_ok sch tbl = true.

Lemma reach_height : forall x c, In c (reach sch x) -> height c <= height x.
Proof.
  induction x using value_ind'; intros c Hin; try (cbn in Hin; tauto).
  - rewrite reach_struct in Hin. destruct (is_node sch sid).
    + destruct Hin as [<-|[]]. lia.
    + apply in_flat_map in Hin as (f & Hf & Hc). rewrite Forall_forall in H.
      specialize (H _ Hf _ Hc). rewrite height_struct.
      pose proof (list_max_in (map height fs) (height f) (in_map height _ _ Hf)). lia.
  - rewrite reach_ptr in Hin. apply IHx in Hin. cbn [height]. lia.
  - rewrite reach_iface in Hin. apply IHx in Hin. cbn [height]. lia.
  - rewrite reach_slice in Hin. apply in_flat_map in Hin as (f & Hf & Hc). rewrite Forall_forall in H.
    specialize (H _ Hf _ Hc). rewrite height_slice.
    pose proof (list_max_in (map height l) (height f) (in_map height _ _ Hf)). lia.
Qed.

Lemma kids_height : forall v c, In c (kids sch v) -> height c < height v.
Proof.
  intros v c Hin. destruct v as [sid a fs|o|o|b l|s|b|u n|p]; try (cbn in Hin; tauto).
  cbn [kids] in Hin.
  apply in_flat_map in Hin as (f & Hf & Hc). apply reach_height in Hc. rewrite height_struct.
  pose proof (list_max_in (map height fs) (height f) (in_map height _ _ Hf)). lia.
Qed.

Lemma deref_all_no_err : forall te l, classify sch te = CPtr -> forallb (has_type sch te) l = true ->
  forall e, deref_all l <> Err e.
Proof.
  intros te l C. induction l as [|x r IH]; intros H e; cbn; [discriminate|].
  cbn in H. apply andb_prop in H as [Hx Hr].
  destruct (class_ptr _ _ _ C Hx) as (o & Do & _). rewrite Do. destruct o; [|discriminate].
  specialize (IH Hr). destruct (deref_all r); try discriminate. intro E. inversion E; subst. eapply IH; eauto.
Qed.

Lemma step_targets_no_err : forall v p c m, path_good sch v (p, c) -> mode_ok c m = true ->
  forall e, step_targets v {| w_path := p; w_mode := m |} <> Err e.
Proof.
  intros v p c m [G Hp] M e. cbn [fst snd] in *. unfold step_targets. cbn [w_path w_mode].
  destruct (field_at v p) as [[x|]| |]; try discriminate; try tauto.
  destruct Hp as (t & Ht & C). destruct c; cbn in M; try discriminate.
  - destruct (class_ptr _ _ _ C Ht) as (o & Do & _). destruct m; try discriminate; rewrite Do; destruct o; discriminate.
  - destruct m; try discriminate.
    destruct t; try (cbn in C; discriminate).
    + cbn in C. destruct (is_node sch sid); discriminate.
    + cbn in C. destruct (all_nodes_iface sch iid); discriminate.
    + pose proof (class_list_elem _ _ C) as CE.
      destruct x as [sid' a fs| [u|] | [u|] | b l | s | b | u n | p']; try (cbn in Ht; discriminate).
      rewrite has_type_slice in Ht. pose proof (deref_all_no_err _ _ CE Ht) as NE.
      destruct (deref_all l); try discriminate. intro E. inversion E; subst. eapply NE; eauto.
  - destruct (class_comments _ _ _ C Ht) as (b & l & -> & _). destruct m; discriminate.
Qed.

Lemma targets_no_err : forall v steps,
  (forall st, In st steps -> forall e, step_targets v st <> Err e) -> forall e, targets v steps <> Err e.
Proof.
  induction steps as [|st r IH]; intros H e; cbn; [discriminate|].
  pose proof (H st (or_introl eq_refl)) as H1.
  destruct (step_targets v st) as [[n1 d1]|e1|]; try discriminate.
  - specialize (IH (fun st' Hin => H st' (or_intror Hin))).
    destruct (targets v r) as [[n2 d2]|e2|]; try discriminate. intro E. inversion E; subst. eapply IH; eauto.
  - exfalso. eapply H1; eauto.
Qed.

Lemma targets_typed_no_err : forall sid v steps,
  has_type sch (TStruct sid) v = true -> is_node sch sid = true -> table_get tbl sid = Some steps ->
  forall e, targets v steps <> Err e.
Proof.
  intros sid v steps Ht Nn Tg. apply targets_no_err. intros st Hin.
  assert (Hlt : sid < length (structs sch)).
  { unfold is_node, get_struct in Nn. destruct (nth_error (structs sch) sid) eqn:E; [|discriminate].
    apply nth_error_Some. congruence. }
  pose proof Tok as Tok'. unfold table_ok in Tok'. rewrite forallb_forall in Tok'.
  specialize (Tok' sid). rewrite in_seq in Tok'. specialize (Tok' ltac:(lia)).
  rewrite Nn in Tok'. cbn in Tok'. unfold kind_ok in Tok'. unfold table_get in Tg.
  destruct (nth_error tbl sid) as [[steps'|]|]; try discriminate. inversion Tg; subst steps'.
  unfold steps_ok in Tok'. destruct (reach_paths sch sid) as [rp|] eqn:R; [|discriminate].
  apply andb_prop in Tok' as [_ Hmodes].
  destruct (kids_paths _ _ _ _ Ht R) as [_ Hg].
  rewrite forallb_forall in Hmodes. specialize (Hmodes _ Hin).
  destruct (path_class (w_path st) rp) as [c|] eqn:Pc; [|discriminate].
  apply path_class_in in Pc. rewrite Forall_forall in Hg. specialize (Hg _ Pc).
  destruct st as [p m]. cbn [w_path w_mode] in *. eapply step_targets_no_err; eauto.
Qed.

Section Cb.
Context {S : Type}.
Variable cb : S -> ev -> S * bool.

Lemma walk_seq_no_err : forall (w : S -> value -> res (list ev * S)) l,
  (forall x, In x l -> forall s e, w s x <> Err e) -> forall s e, walk_seq w l s <> Err e.
Proof.
  induction l as [|x r IH]; intros H s e; cbn; [discriminate|].
  pose proof (H x (or_introl eq_refl) s) as H1.
  destruct (w s x) as [[t1 s1]|e1|]; try discriminate.
  - specialize (IH (fun y Hy => H y (or_intror Hy)) s1).
    destruct (walk_seq w r s1) as [[t2 s2]|e2|]; try discriminate. intro E. inversion E; subst. eapply IH; eauto.
  - exfalso. eapply H1; eauto.
Qed.

(* a well-typed tree and fuel above its height: Walk returns or panics, the model never reports
   an ill-typed input or exhausted fuel *)
Theorem walk_no_err : forall fuel s v sid,
  has_type sch (TStruct sid) v = true -> is_node sch sid = true -> height v < fuel ->
  forall e, walk tbl cb fuel s v <> Err e.
Proof.
  induction fuel as [|fuel IH]; intros s v sid Ht Nn Hh e; [lia|]. cbn [walk].
  destruct (has_type_TStruct_inv _ _ _ Ht) as (a & fs & -> & Hf).
  destruct (cb s (Some (VStruct sid a fs))) as [s1 b]. destruct b; cbn [negb]; [|discriminate].
  destruct (table_get tbl sid) as [steps|] eqn:Tg; [|discriminate].
  pose proof (targets_typed_no_err _ _ _ Ht Nn Tg) as NE.
  destruct (targets (VStruct sid a fs) steps) as [[now dfr]|e1|] eqn:T; try discriminate.
  2: { exfalso. eapply NE; eauto. }
  pose proof (targets_children sch tbl sid _ steps now dfr Tok Ht Nn Tg T) as P.
  assert (Hch : forall x, In x (now ++ dfr) -> forall s e, walk tbl cb fuel s x <> Err e).
  { intros x Hin s0 e0. apply (Permutation_in _ P) in Hin.
    destruct (kids_typed sch _ _ Ht _ Hin) as (sid' & Hx & Nx).
    apply kids_height in Hin. eapply IH; eauto. lia. }
  pose proof (walk_seq_no_err (walk tbl cb fuel) now
                (fun x Hin => Hch x (in_or_app _ _ _ (or_introl Hin))) s1) as N1.
  destruct (walk_seq (walk tbl cb fuel) now s1) as [[t1 s2]|e1|]; try discriminate.
  2: { exfalso. eapply N1; eauto. }
  destruct (cb s2 None) as [s3 b'].
  pose proof (walk_seq_no_err (walk tbl cb fuel) dfr
                (fun x Hin => Hch x (in_or_app _ _ _ (or_intror Hin))) s3) as N2.
  destruct (walk_seq (walk tbl cb fuel) dfr s3) as [[t2 s4]|e2|]; try discriminate.
  exfalso. eapply N2; eauto.
Qed.
End Cb.
End NoErr.

(* ---- non-vacuity: a two-kind schema (a list node with a trailing-comment rule, a leaf) ----------------------- *)
Module Mini.
  Local Open Scope N_scope.
  (* struct 0 "L": node, fields [Cs []C; Kids []*L; One *L]; struct 1 "C": node (comment-like leaf) *)
  Definition sch : schema :=
    {| structs := [ {| s_name := [76]; s_node := true;
                       s_fields := [ {| f_name := [67]; f_ty := TSlice (TStruct 1) |};
                                     {| f_name := [75]; f_ty := TSlice (TPtr 0) |};
                                     {| f_name := [79]; f_ty := TPtr 0 |} ] |};
                    {| s_name := [67]; s_node := true; s_fields := [ {| f_name := [84]; f_ty := TString |} ] |} ];
       ifaces := []; uints := []; node_iface := 0 |}.
  Definition tbl : walk_table :=
    [ Some [ {| w_path := [0%nat]; w_mode := WDeferEndAfter |};
             {| w_path := [2%nat]; w_mode := WNilable |};
             {| w_path := [1%nat]; w_mode := WList |} ];
      Some [] ].
  Definition c (off : N) : value := VStruct 1 (Some ((off, 1), (off + 1, 1))) [VStr [99]].
  Definition leaf : value := VStruct 0 (Some ((20, 1), (25, 1))) [VSlice true []; VSlice true []; VPtr None].
  Definition tree : value :=
    VStruct 0 (Some ((10, 1), (30, 1)))
      [VSlice false [c 5; c 40; c 50]; VSlice false [VPtr (Some leaf)]; VPtr (Some leaf)].
  Lemma tbl_ok : table_ok sch tbl = true. Proof. vm_compute. reflexivity. Qed.
  Lemma tree_typed : has_type sch (TStruct 0) tree = true. Proof. vm_compute. reflexivity. Qed.
  (* comment 5 first, then One, then Kids, nil, then the two trailing comments *)
  Lemma tree_walk : walk_all tbl 10 tree =
    Ok ([Some tree; Some (c 5); None; Some leaf; None; Some leaf; None; None; Some (c 40); None; Some (c 50); None], tt).
  Proof. vm_compute. reflexivity. Qed.
End Mini.
