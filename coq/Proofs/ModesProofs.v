From Verif Require Import Base.Str Shfmt.Modes.
Require Import ZifyNat ZifyBool.

Lemma cmp_str_eq_m : forall a b, cmp_str a b = Eq <-> a = b.
Proof.
  induction a as [|x a IH]; destruct b as [|y b]; simpl; split; intro H; try congruence; try discriminate.
  - destruct (N.compare x y) eqn:E; try discriminate.
    apply N.compare_eq_iff in E. apply IH in H. congruence.
  - inversion H; subst. rewrite N.compare_refl. apply IH. reflexivity.
Qed.
Lemma str_eqb_eq_m : forall a b, str_eqb a b = true <-> a = b.
Proof. intros a b. unfold str_eqb. rewrite <- cmp_str_eq_m. destruct (cmp_str a b); split; congruence. Qed.
Lemma str_eqb_neq_m : forall a b, str_eqb a b = false <-> a <> b.
Proof. intros a b. rewrite <- str_eqb_eq_m. destruct (str_eqb a b); split; congruence. Qed.

Section ModesProofs.
  Variable fmt : lang -> str -> res str.
  Variable shebang : str -> str.
  Variable lang_from_filename : str -> option lang.

  Notation format_bytes := (format_bytes fmt).
  Notation format_path := (format_path fmt shebang lang_from_filename).
  Notation format_stdin := (format_stdin fmt shebang lang_from_filename).
  Notation run_files := (run_files fmt shebang lang_from_filename).
  Notation detect := (detect shebang lang_from_filename).
  Notation file_lang := (file_lang shebang lang_from_filename).
  Notation differs := (differs fmt shebang lang_from_filename).
  Notation errors := (errors fmt shebang lang_from_filename).
  Notation skipped := (skipped shebang).

  (* --- format_bytes, case by case ------------------------------------------- *)
  Lemma fb_same : forall fl src path l isreg,
    fmt l src = Ok src -> format_bytes fl src path l isreg = ((if plain fl then [EvOut src] else []), RNil).
  Proof.
    intros. unfold Modes.format_bytes. rewrite H.
    replace (str_eqb src src) with true by (symmetry; apply str_eqb_eq_m; reflexivity). reflexivity.
  Qed.

  Lemma fb_err : forall fl src path l isreg,
    (forall r, fmt l src <> Ok r) -> format_bytes fl src path l isreg = ([], RErr).
  Proof.
    intros. unfold Modes.format_bytes. destruct (fmt l src) eqn:E; auto. exfalso. eapply H; eauto.
  Qed.

  (* events of a file whose formatted output differs, no -w *)
  Lemma fb_diff_nowrite : forall fl src path l isreg r,
    fmt l src = Ok r -> r <> src -> f_write fl = false ->
    format_bytes fl src path l isreg =
      ((match f_list fl with LOff => [] | LNl => [EvList path false] | LZero => [EvList path true] end)
       ++ (if f_diff fl then [EvDiff path src r] else if listing fl then [] else [EvOut r]),
       if f_diff fl || listing fl then RDiffers else RNil).
  Proof.
    intros fl src path l isreg r Hf Hne Hw. unfold Modes.format_bytes. rewrite Hf.
    replace (str_eqb src r) with false by (symmetry; apply str_eqb_neq_m; congruence).
    rewrite Hw. simpl. unfold plain, listing. rewrite Hw.
    destruct (f_list fl), (f_diff fl); simpl; reflexivity.
  Qed.

  Lemma fb_diff_write : forall fl src path l r,
    fmt l src = Ok r -> r <> src -> f_write fl = true ->
    format_bytes fl src path l true =
      ((match f_list fl with LOff => [] | LNl => [EvList path false] | LZero => [EvList path true] end)
       ++ [EvWrite path r] ++ (if f_diff fl then [EvDiff path src r] else []),
       if f_diff fl then RDiffers else RNil).
  Proof.
    intros fl src path l r Hf Hne Hw. unfold Modes.format_bytes. rewrite Hf.
    replace (str_eqb src r) with false by (symmetry; apply str_eqb_neq_m; congruence).
    rewrite Hw. simpl. unfold plain, listing. rewrite Hw.
    destruct (f_list fl), (f_diff fl); simpl; reflexivity.
  Qed.

  (* classification of a file *)
  Lemma file_cases : forall flagl f,
    skipped f = true \/
    (skipped f = false /\ fmt (file_lang flagl f) (fi_src f) = Ok (fi_src f)) \/
    differs flagl f \/ errors flagl f.
  Proof.
    intros flagl f. destruct (skipped f) eqn:Es; auto. right.
    destruct (fmt (file_lang flagl f) (fi_src f)) as [r| |] eqn:E.
    - destruct (str_eqb r (fi_src f)) eqn:E2.
      + apply str_eqb_eq_m in E2. subst r. auto.
      + apply str_eqb_neq_m in E2. right; left. split; auto. exists r; auto.
    - right; right. split; auto. congruence.
    - right; right. split; auto. congruence.
  Qed.

  Lemma differs_not_errors : forall flagl f, differs flagl f -> errors flagl f -> False.
  Proof. intros flagl f (_ & r & Hr & _) (_ & He). eapply He; eauto. Qed.

  (* --- format_path without -w -------------------------------------------------- *)
  Definition list_evs (fl : flags) (p : str) : list ev :=
    match f_list fl with LOff => [] | LNl => [EvList p false] | LZero => [EvList p true] end.

  Lemma fp_skipped : forall fl flagl f, skipped f = true -> format_path fl flagl f = ([], RNil).
  Proof. intros. unfold Modes.format_path. rewrite H. reflexivity. Qed.

  Lemma fp_same : forall fl flagl f, skipped f = false -> fmt (file_lang flagl f) (fi_src f) = Ok (fi_src f) ->
    format_path fl flagl f = ((if plain fl then [EvOut (fi_src f)] else []), RNil).
  Proof. intros. unfold Modes.format_path. rewrite H. apply fb_same. exact H0. Qed.

  Lemma fp_err : forall fl flagl f, errors flagl f -> format_path fl flagl f = ([], RErr).
  Proof. intros fl flagl f [Hs He]. unfold Modes.format_path. rewrite Hs. apply fb_err. exact He. Qed.

  Lemma fp_differs_nowrite : forall fl flagl f r, skipped f = false ->
    fmt (file_lang flagl f) (fi_src f) = Ok r -> r <> fi_src f -> f_write fl = false ->
    format_path fl flagl f =
      (list_evs fl (fi_path f) ++ (if f_diff fl then [EvDiff (fi_path f) (fi_src f) r] else if listing fl then [] else [EvOut r]),
       if f_diff fl || listing fl then RDiffers else RNil).
  Proof. intros. unfold Modes.format_path. rewrite H. apply fb_diff_nowrite; auto. Qed.

  Lemma fp_differs_write : forall fl flagl f r, skipped f = false -> fi_isreg f = true ->
    fmt (file_lang flagl f) (fi_src f) = Ok r -> r <> fi_src f -> f_write fl = true ->
    format_path fl flagl f =
      (list_evs fl (fi_path f) ++ [EvWrite (fi_path f) r] ++ (if f_diff fl then [EvDiff (fi_path f) (fi_src f) r] else []),
       if f_diff fl then RDiffers else RNil).
  Proof. intros. unfold Modes.format_path. rewrite H, H0. apply fb_diff_write; auto. Qed.

  (* --- run_files ---------------------------------------------------------------- *)
  Lemma run_files_cons : forall fl flagl f rest,
    run_files fl flagl (f :: rest) =
    let '(e1, r) := format_path fl flagl f in
    let '(e2, st) := run_files fl flagl rest in
    match r with
    | RNil => (e1 ++ e2, st)
    | RDiffers => (e1 ++ e2, true)
    | RErr => (e1 ++ EvErr (fi_path f) :: e2, true)
    end.
  Proof. reflexivity. Qed.

  Lemma in_list_evs : forall fl p q z, In (EvList q z) (list_evs fl p) <-> (listing fl = true /\ q = p /\ z = match f_list fl with LZero => true | _ => false end).
  Proof.
    intros. unfold list_evs, listing. destruct (f_list fl); simpl; split; intro H.
    - contradiction.
    - destruct H as [H _]; discriminate.
    - destruct H as [H|[]]. inversion H; auto.
    - destruct H as (_ & -> & ->). auto.
    - destruct H as [H|[]]. inversion H; auto.
    - destruct H as (_ & -> & ->). auto.
  Qed.

  (* C36_list_iff_differs (no -w): the paths printed by -l are exactly the paths of differing files *)
  Lemma listed_iff_differs : forall fl flagl fs, listing fl = true -> f_write fl = false ->
    forall p, listed (fst (run_files fl flagl fs)) p <-> exists f, In f fs /\ fi_path f = p /\ differs flagl f.
  Proof.
    intros fl flagl fs Hl Hw p. induction fs as [|f rest IH].
    - simpl. split; [intros [z []] | intros (f & [] & _)].
    - rewrite run_files_cons.
      destruct (run_files fl flagl rest) as [e2 st] eqn:Er. simpl in IH.
      assert (Hrest : forall e1, (forall z, ~ In (EvList p z) e1) ->
                 (listed (e1 ++ e2) p <-> exists f0, In f0 rest /\ fi_path f0 = p /\ differs flagl f0)).
      { intros e1 Hno. rewrite <- IH. unfold listed. split; intros [z Hz]; exists z.
        - apply in_app_or in Hz. destruct Hz; auto. exfalso; eapply Hno; eauto.
        - apply in_or_app; auto. }
      destruct (file_cases flagl f) as [Hs|[[Hs Hsame]|[Hd|He]]].
      + rewrite (fp_skipped _ _ _ Hs). simpl. rewrite IH. split.
        * intros (f0 & Hin & Hp & Hd). exists f0; auto.
        * intros (f0 & [->|Hin] & Hp & Hd); [|exists f0; auto].
          destruct Hd as [Hd _]. congruence.
      + rewrite (fp_same _ _ _ Hs Hsame). unfold plain. rewrite Hl. simpl. rewrite IH. split.
        * intros (f0 & Hin & Hp & Hd). exists f0; auto.
        * intros (f0 & [->|Hin] & Hp & Hd); [|exists f0; auto].
          destruct Hd as (_ & r & Hr & Hne). congruence.
      + destruct Hd as (Hs & r & Hr & Hne).
        rewrite (fp_differs_nowrite fl flagl f r Hs Hr Hne Hw). rewrite Hl.
        assert (Hret : (if f_diff fl || true then RDiffers else RNil) = RDiffers) by (destruct (f_diff fl); reflexivity).
        rewrite Hret. simpl. unfold listed. split.
        * intros [z Hz]. apply in_app_or in Hz. destruct Hz as [Hz|Hz].
          -- apply in_app_or in Hz. destruct Hz as [Hz|Hz].
             ++ apply in_list_evs in Hz. destruct Hz as (_ & -> & _). exists f. repeat split; auto. exists r; auto.
             ++ destruct (f_diff fl); simpl in Hz; [destruct Hz as [Hz|[]]; discriminate | contradiction].
          -- assert (listed e2 p) by (exists z; auto). apply IH in H. destruct H as (f0 & Hin & Hp & Hd). exists f0; auto.
        * intros (f0 & [->|Hin] & Hp & Hd).
          -- exists (match f_list fl with LZero => true | _ => false end). apply in_or_app. left. apply in_or_app. left.
             apply in_list_evs. subst p. auto.
          -- assert (listed e2 p) by (apply IH; exists f0; auto). destruct H as [z Hz]. exists z. apply in_or_app; auto.
      + rewrite (fp_err _ _ _ He). simpl. unfold listed. split.
        * intros [z [Hz|Hz]]; [discriminate|]. assert (listed e2 p) by (exists z; auto). apply IH in H.
          destruct H as (f0 & Hin & Hp & Hd). exists f0; auto.
        * intros (f0 & [->|Hin] & Hp & Hd).
          -- exfalso. eapply differs_not_errors; eauto.
          -- assert (listed e2 p) by (apply IH; exists f0; auto). destruct H as [z Hz]. exists z. right; auto.
  Qed.

  (* --- general shape of run_files --------------------------------------------- *)
  Lemma run_files_in : forall fl flagl fs e,
    In e (fst (run_files fl flagl fs)) <->
    exists f, In f fs /\ (In e (fst (format_path fl flagl f)) \/
                          (e = EvErr (fi_path f) /\ snd (format_path fl flagl f) = RErr)).
  Proof.
    intros fl flagl fs e. induction fs as [|f rest IH].
    - simpl. split; [intros [] | intros (f & [] & _)].
    - rewrite run_files_cons. destruct (format_path fl flagl f) as [e1 r] eqn:Ef.
      destruct (run_files fl flagl rest) as [e2 st] eqn:Er. simpl in IH.
      assert (Hgen : In e e1 \/ (e = EvErr (fi_path f) /\ r = RErr) \/ In e e2 <->
                     exists f0, In f0 (f :: rest) /\ (In e (fst (format_path fl flagl f0)) \/
                          (e = EvErr (fi_path f0) /\ snd (format_path fl flagl f0) = RErr))).
      { split.
        - intros [H|[H|H]].
          + exists f. split; [left; auto|]. rewrite Ef. auto.
          + exists f. split; [left; auto|]. rewrite Ef. auto.
          + apply IH in H. destruct H as (f0 & Hin & H). exists f0. split; [right; auto|auto].
        - intros (f0 & [->|Hin] & H).
          + rewrite Ef in H. simpl in H. tauto.
          + right; right. apply IH. exists f0; auto. }
      rewrite <- Hgen. destruct r; simpl; rewrite ?in_app_iff; simpl; split; intro H.
      + tauto.
      + destruct H as [H|[[_ H]|H]]; try discriminate; tauto.
      + tauto.
      + destruct H as [H|[[_ H]|H]]; try discriminate; tauto.
      + destruct H as [H|[H|H]]; auto.
      + destruct H as [H|[[H _]|H]]; auto.
  Qed.

  Lemma run_files_status : forall fl flagl fs,
    snd (run_files fl flagl fs) = true <-> exists f, In f fs /\ snd (format_path fl flagl f) <> RNil.
  Proof.
    intros fl flagl fs. induction fs as [|f rest IH].
    - simpl. split; [discriminate | intros (f & [] & _)].
    - rewrite run_files_cons. destruct (format_path fl flagl f) as [e1 r] eqn:Ef.
      destruct (run_files fl flagl rest) as [e2 st] eqn:Er. simpl in IH.
      destruct r; simpl.
      + rewrite IH. split.
        * intros (f0 & Hin & H). exists f0; split; [right; auto|auto].
        * intros (f0 & [->|Hin] & H); [rewrite Ef in H; simpl in H; congruence | exists f0; auto].
      + split; auto. intros _. exists f. split; [left; auto|]. rewrite Ef. simpl. discriminate.
      + split; auto. intros _. exists f. split; [left; auto|]. rewrite Ef. simpl. discriminate.
  Qed.

  (* per file, no -w: status and diff events *)
  Lemma fp_status_nowrite : forall fl flagl f, f_write fl = false -> (listing fl = true \/ f_diff fl = true) ->
    (snd (format_path fl flagl f) <> RNil <-> differs flagl f \/ errors flagl f).
  Proof.
    intros fl flagl f Hw Hm. destruct (file_cases flagl f) as [Hs|[[Hs Hsame]|[Hd|He]]].
    - rewrite (fp_skipped _ _ _ Hs). simpl. split; [congruence|].
      intros [[H _]|[H _]]; congruence.
    - rewrite (fp_same _ _ _ Hs Hsame). simpl. split; [congruence|].
      intros [(_ & r & Hr & Hne)|(_ & H)]; [congruence | exfalso; eapply H; eauto].
    - destruct Hd as (Hs & r & Hr & Hne). rewrite (fp_differs_nowrite fl flagl f r Hs Hr Hne Hw). simpl.
      split; [intros _; left; split; auto; exists r; auto|].
      intros _. destruct Hm as [->| ->]; destruct (f_diff fl); simpl; discriminate.
    - rewrite (fp_err _ _ _ He). simpl. split; [auto | discriminate].
  Qed.

  Lemma fp_diff_nowrite : forall fl flagl f p s r, f_write fl = false -> f_diff fl = true ->
    (In (EvDiff p s r) (fst (format_path fl flagl f)) <->
     p = fi_path f /\ s = fi_src f /\ skipped f = false /\ fmt (file_lang flagl f) (fi_src f) = Ok r /\ r <> fi_src f).
  Proof.
    intros fl flagl f p s r Hw Hd. destruct (file_cases flagl f) as [Hs|[[Hs Hsame]|[Hdf|He]]].
    - rewrite (fp_skipped _ _ _ Hs). simpl. split; [contradiction | intros (_ & _ & H & _); congruence].
    - rewrite (fp_same _ _ _ Hs Hsame). unfold plain. rewrite Hd. rewrite andb_false_r. simpl.
      split; [contradiction | intros (_ & _ & _ & H & Hne); congruence].
    - destruct Hdf as (Hs & r0 & Hr & Hne). rewrite (fp_differs_nowrite fl flagl f r0 Hs Hr Hne Hw). rewrite Hd. simpl.
      rewrite in_app_iff. split.
      + intros [H|[H|[]]].
        * unfold list_evs in H. destruct (f_list fl); simpl in H; try contradiction; destruct H as [H|[]]; discriminate.
        * inversion H; subst. auto.
      + intros (-> & -> & _ & H & _). right. left. congruence.
    - rewrite (fp_err _ _ _ He). simpl. split; [contradiction|]. intros (_ & _ & _ & H & _). destruct He as [_ He]. exfalso; eapply He; eauto.
  Qed.

  (* C36_exit_iff_listed *)
  Lemma exit_iff : forall fl flagl fs, listing fl = true -> f_write fl = false ->
    (snd (run_files fl flagl fs) = true <->
     (exists p, listed (fst (run_files fl flagl fs)) p) \/ (exists f, In f fs /\ errors flagl f)).
  Proof.
    intros fl flagl fs Hl Hw. rewrite run_files_status. split.
    - intros (f & Hin & H). apply fp_status_nowrite in H; auto. destruct H as [H|H].
      + left. exists (fi_path f). apply listed_iff_differs; auto. exists f; auto.
      + right. exists f; auto.
    - intros [[p H]|(f & Hin & H)].
      + apply listed_iff_differs in H; auto. destruct H as (f & Hin & _ & Hd). exists f. split; auto.
        apply fp_status_nowrite; auto.
      + exists f. split; auto. apply fp_status_nowrite; auto.
  Qed.

  (* C36_diff_iff_listed: -d prints a diff exactly for the differing files, and it is the diff src -> formatted *)
  Lemma diffed_iff_differs : forall fl flagl fs, f_diff fl = true -> f_write fl = false ->
    forall p, diffed (fst (run_files fl flagl fs)) p <-> exists f, In f fs /\ fi_path f = p /\ differs flagl f.
  Proof.
    intros fl flagl fs Hd Hw p. unfold diffed. split.
    - intros (s & r & H). apply run_files_in in H. destruct H as (f & Hin & [H|[H _]]); [|discriminate].
      apply fp_diff_nowrite in H; auto. destruct H as (-> & -> & Hs & Hr & Hne). exists f. repeat split; auto. exists r; auto.
    - intros (f & Hin & <- & (Hs & r & Hr & Hne)). exists (fi_src f), r. apply run_files_in. exists f. split; auto. left.
      apply fp_diff_nowrite; auto.
  Qed.

  Lemma diff_is_src_to_formatted : forall fl flagl fs p s r, f_diff fl = true -> f_write fl = false ->
    In (EvDiff p s r) (fst (run_files fl flagl fs)) ->
    exists f, In f fs /\ fi_path f = p /\ fi_src f = s /\ fmt (file_lang flagl f) s = Ok r.
  Proof.
    intros fl flagl fs p s r Hd Hw H. apply run_files_in in H. destruct H as (f & Hin & [H|[H _]]); [|discriminate].
    apply fp_diff_nowrite in H; auto. destruct H as (-> & -> & Hs & Hr & Hne). exists f. auto.
  Qed.

  (* with -l and -d together the two sets coincide *)
  Lemma diffed_iff_listed : forall fl flagl fs, listing fl = true -> f_diff fl = true -> f_write fl = false ->
    forall p, diffed (fst (run_files fl flagl fs)) p <-> listed (fst (run_files fl flagl fs)) p.
  Proof. intros. rewrite diffed_iff_differs, listed_iff_differs; auto. reflexivity. Qed.

  (* C36_stdin_same: the same bytes through stdin give the same events when the same language is detected *)
  Lemma stdin_same : forall fl flagl f, f_write fl = false -> skipped f = false ->
    detect flagl (fi_path f) (fi_src f) = detect flagl (fi_path f) (head32 (fi_src f)) ->
    format_stdin fl flagl (fi_path f) (fi_src f) = format_path fl flagl f.
  Proof.
    intros fl flagl f Hw Hs Hdet. unfold Modes.format_stdin, Modes.format_path. rewrite Hw, Hs, Hdet.
    unfold Modes.format_bytes. destruct (fmt _ _); auto. destruct (str_eqb _ _); auto. rewrite Hw. reflexivity.
  Qed.

  (* sufficient conditions for the same language: -ln given, or decided by the file name, or same shebang *)
  Lemma detect_same : forall flagl path src,
    (flagl <> None \/ lang_from_filename path <> None \/ shebang src = shebang (head32 src)) ->
    detect flagl path src = detect flagl path (head32 src).
  Proof.
    intros flagl path src H. unfold Modes.detect. destruct flagl; auto. destruct (lang_from_filename path); auto.
    destruct H as [H|[H|H]]; try congruence. rewrite H. reflexivity.
  Qed.

  (* --- -w followed by -l -------------------------------------------------------- *)
  Lemma written_in : forall evs p r, written evs p = Some r -> In (EvWrite p r) evs.
  Proof.
    induction evs as [|e t IH]; simpl; intros p r H; try discriminate.
    destruct (written t p) eqn:E.
    - inversion H; subst. right. apply IH. exact E.
    - destruct e; try discriminate. destruct (str_eqb path p) eqn:E2; try discriminate.
      apply str_eqb_eq_m in E2. inversion H; subst. left. reflexivity.
  Qed.

  Lemma written_none : forall evs p r, written evs p = None -> ~ In (EvWrite p r) evs.
  Proof.
    induction evs as [|e t IH]; simpl; intros p r H; auto.
    destruct (written t p) eqn:E; try discriminate.
    intros [Hin|Hin].
    - subst e. replace (str_eqb p p) with true in H by (symmetry; apply str_eqb_eq_m; reflexivity). discriminate.
    - eapply IH; eauto.
  Qed.

  Lemma fp_write_ev : forall fl flagl f p r, f_write fl = true -> fi_isreg f = true ->
    (In (EvWrite p r) (fst (format_path fl flagl f)) <->
     p = fi_path f /\ skipped f = false /\ fmt (file_lang flagl f) (fi_src f) = Ok r /\ r <> fi_src f).
  Proof.
    intros fl flagl f p r Hw Hreg. destruct (file_cases flagl f) as [Hs|[[Hs Hsame]|[Hdf|He]]].
    - rewrite (fp_skipped _ _ _ Hs). simpl. split; [contradiction | intros (_ & H & _); congruence].
    - rewrite (fp_same _ _ _ Hs Hsame). unfold plain. rewrite Hw. rewrite andb_false_r. simpl.
      split; [contradiction | intros (_ & _ & H & Hne); congruence].
    - destruct Hdf as (Hs & r0 & Hr & Hne). rewrite (fp_differs_write fl flagl f r0 Hs Hreg Hr Hne Hw). simpl.
      rewrite in_app_iff. split.
      + intros [H|[H|H]].
        * unfold list_evs in H. destruct (f_list fl); simpl in H; try contradiction; destruct H as [H|[]]; discriminate.
        * inversion H; subst. auto.
        * destruct (f_diff fl); simpl in H; [destruct H as [H|[]]; discriminate | contradiction].
      + intros (-> & _ & H & _). right. left. congruence.
    - rewrite (fp_err _ _ _ He). simpl. split; [contradiction|]. intros (_ & _ & H & _). destruct He as [_ He]. exfalso; eapply He; eauto.
  Qed.

  (* -w, whatever other mode flags are given (-l, -d): exactly the differing files are rewritten, with their
     formatted bytes *)
  Lemma write_iff_differs : forall fl flagl fs p r, f_write fl = true -> (forall f, In f fs -> fi_isreg f = true) ->
    (In (EvWrite p r) (fst (run_files fl flagl fs)) <->
     exists f, In f fs /\ fi_path f = p /\ skipped f = false /\
               fmt (file_lang flagl f) (fi_src f) = Ok r /\ r <> fi_src f).
  Proof.
    intros fl flagl fs p r Hw Hreg. rewrite run_files_in. split.
    - intros (f & Hin & [H|[H _]]); [|discriminate].
      apply fp_write_ev in H; auto. destruct H as (-> & Hs & Hr & Hne). exists f. auto.
    - intros (f & Hin & <- & Hs & Hr & Hne). exists f. split; auto. left. apply fp_write_ev; auto.
  Qed.

  Lemma nodup_map_inj : forall {A B} (g : A -> B) (l : list A) a b,
    NoDup (map g l) -> In a l -> In b l -> g a = g b -> a = b.
  Proof.
    induction l as [|x l IH]; simpl; intros a b Hnd Ha Hb Hg; [contradiction|].
    inversion Hnd as [|? ? Hnot Hnd']; subst.
    destruct Ha as [->|Ha], Hb as [->|Hb]; auto.
    - exfalso. apply Hnot. rewrite Hg. apply in_map. exact Hb.
    - exfalso. apply Hnot. rewrite <- Hg. apply in_map. exact Ha.
  Qed.

  Lemma write_then_list_empty : forall flw fll flagl fs,
    f_write flw = true -> listing fll = true -> f_write fll = false ->
    (forall l s r, fmt l s = Ok r -> fmt l r = Ok r) ->                       (* C02: the formatter is idempotent *)
    (forall f r, In f fs -> skipped f = false -> fmt (file_lang flagl f) (fi_src f) = Ok r ->
       let f' := mkFile (fi_path f) r (fi_check_shebang f) (fi_isreg f) in
       skipped f' = false -> file_lang flagl f' = file_lang flagl f) ->        (* same language detected afterwards *)
    NoDup (map fi_path fs) -> (forall f, In f fs -> fi_isreg f = true) ->
    forall p, ~ listed (fst (run_files fll flagl (map (after_write (fst (run_files flw flagl fs))) fs))) p.
  Proof.
    intros flw fll flagl fs Hw Hl Hnw Hidem Hstable Hnd Hreg p Hlisted.
    apply listed_iff_differs in Hlisted; auto.
    destruct Hlisted as (f' & Hin' & _ & Hd').
    apply in_map_iff in Hin'. destruct Hin' as (f & <- & Hin).
    set (evs := fst (run_files flw flagl fs)) in *.
    unfold after_write in Hd'.
    destruct (written evs (fi_path f)) as [r|] eqn:Ewr.
    - apply written_in in Ewr. apply run_files_in in Ewr.
      destruct Ewr as (f0 & Hin0 & [H|[H _]]); [|discriminate].
      apply fp_write_ev in H; auto. destruct H as (Hp & Hs & Hr & Hne).
      assert (f0 = f) by (eapply (nodup_map_inj fi_path); eauto). subst f0.
      destruct Hd' as (Hs' & r2 & Hr2 & Hne2). simpl in Hr2, Hne2.
      pose proof (Hstable f r Hin Hs Hr Hs') as Hlang. simpl in Hlang.
      unfold Modes.file_lang in Hr2, Hlang. simpl in Hr2, Hlang. rewrite Hlang in Hr2.
      apply Hidem in Hr. unfold Modes.file_lang in Hr. congruence.
    - destruct Hd' as (Hs & r & Hr & Hne).
      eapply written_none with (r := r) in Ewr. apply Ewr. apply run_files_in. exists f. split; auto. left.
      apply fp_write_ev; auto.
  Qed.
End ModesProofs.

(* --- non-vacuity: a concrete idempotent formatter (drops blanks) ---------------- *)
Definition ex_fmt (_ : lang) (s : str) : res str :=
  if existsb (N.eqb 40) s then Err 1 else Ok (filter (fun c => negb (N.eqb c 32)) s).
Definition ex_shebang (_ : str) : str := [].
Definition ex_lff (_ : str) : option lang := None.
Definition ex_files : list file :=
  [mkFile [97] [120; 32; 121] false true;       (* "a": "x y"  -> differs *)
   mkFile [98] [120; 121] false true;           (* "b": "xy"   -> already formatted *)
   mkFile [99] [40; 32] false true]%N.          (* "c": "( "   -> parse error *)

Lemma ex_modes_run :
  run_files ex_fmt ex_shebang ex_lff (mkFlags LNl false false) None ex_files
    = ([EvList [97] false; EvErr [99]], true)%N /\
  run_files ex_fmt ex_shebang ex_lff (mkFlags LNl false false) None
    (map (after_write (fst (run_files ex_fmt ex_shebang ex_lff (mkFlags LOff true false) None ex_files))) ex_files)
    = ([EvErr [99]], true)%N.
Proof. split; vm_compute; reflexivity. Qed.
