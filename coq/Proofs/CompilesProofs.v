(* Proofs/CompilesProofs.v — text/AST lockstep: whenever the translation yields an AST, the regexp text it
   wrote is exactly that AST printed (all modes, all patterns). *)
From Verif Require Import Base.Str Pattern.Regex Pattern.Translate.
From Coq Require Import ZifyN ZifyNat ZifyBool.
Open Scope N_scope.

Lemma print_lit_re : forall t, print_re (lit_re t) = quote_meta t.
Proof.
  induction t as [|c t IH]; [reflexivity|]. unfold lit_re, quote_meta in *. simpl. rewrite IH. reflexivity.
Qed.

Lemma tok_char_text : forall t a q, tok_char t = Some (a, q) -> btok_text t = print_lit a q.
Proof. intros [c q'| |k|] a q H; simpl in H; try discriminate; injection H as <- <-; reflexivity. Qed.

Lemma cv_cons_ok : forall it r items, cv_cons it r = CvOk items -> exists l, r = CvOk l /\ items = it :: l.
Proof. intros it [l| |] items H; simpl in H; try discriminate. injection H as <-. eauto. Qed.

Lemma conv_print : forall fuel toks items, conv fuel toks = CvOk items ->
  flat_map print_item items = flat_map btok_text toks.
Proof.
  induction fuel as [|fuel IH]; intros toks items H; [discriminate|].
  destruct toks as [|t1 rest]; [injection H as <-; reflexivity|].
  (* single-token continuation used by several branches *)
  assert (Single : forall a qa, tok_char t1 = Some (a, qa) -> cv_cons (CChar a qa) (conv fuel rest) = CvOk items ->
            flat_map print_item items = flat_map btok_text (t1 :: rest)).
  { intros a qa Ht Hc. apply cv_cons_ok in Hc as (l & Hl & ->). simpl. rewrite (IH _ _ Hl).
    rewrite (tok_char_text _ _ _ Ht). reflexivity. }
  assert (Range : forall t3 rest', rest = BDash :: t3 :: rest' ->
            match tok_char t1, tok_char t3 with
            | Some (a, qa), Some (b, qb) => if b <? a then CvBad else cv_cons (CRange a qa b qb) (conv fuel rest')
            | _, _ => CvUnmodelled end = CvOk items ->
            flat_map print_item items = flat_map btok_text (t1 :: rest)).
  { intros t3 rest' -> Hc. destruct (tok_char t1) as [[a qa]|] eqn:H1; [|discriminate].
    destruct (tok_char t3) as [[b qb]|] eqn:H3; [|discriminate].
    destruct (b <? a); [discriminate|]. apply cv_cons_ok in Hc as (l & Hl & ->). simpl.
    rewrite (IH _ _ Hl), (tok_char_text _ _ _ H1), (tok_char_text _ _ _ H3). simpl. rewrite <- !app_assoc. reflexivity. }
  destruct t1 as [c q| |k|].
  - (* BChar *) destruct rest as [|t2 rest2].
    + simpl in H. eapply Single; eauto. reflexivity.
    + destruct t2; try (simpl in H; eapply Single; eauto; reflexivity).
      destruct rest2 as [|t3 rest3]; [simpl in H; eapply Single; eauto; reflexivity|].
      eapply Range; eauto.
  - (* BDash *) destruct rest as [|t2 rest2].
    + simpl in H. eapply Single; eauto. reflexivity.
    + destruct t2; try (simpl in H; eapply Single; eauto; reflexivity).
      destruct rest2 as [|t3 rest3]; [simpl in H; eapply Single; eauto; reflexivity|].
      eapply Range; eauto.
  - (* BNamed *) simpl in H. apply cv_cons_ok in H as (l & Hl & ->). simpl. rewrite (IH _ _ Hl). reflexivity.
  - (* BOpen *) destruct rest as [|t2 rest2].
    + simpl in H. eapply Single; eauto. reflexivity.
    + destruct t2 as [c2 q2| |k2|].
      * simpl in H. destruct (c2 =? cCOLON); [discriminate|]. eapply Single; eauto. reflexivity.
      * destruct rest2 as [|t3 rest3]; [simpl in H; eapply Single; eauto; reflexivity|].
        eapply Range; eauto.
      * simpl in H. eapply Single; eauto. reflexivity.
      * simpl in H. eapply Single; eauto. reflexivity.
Qed.

Definition step_ok (s : step) : Prop :=
  match s with SOk t (OOk r) _ => t = print_re r | _ => True end.

Lemma bracket_loop_print : forall fuel filenames neg lit c l first st,
  step_ok (bracket_loop fuel filenames neg lit c l first st).
Proof.
  induction fuel as [|fuel IH]; intros; [exact I|].
  cbn [bracket_loop].
  destruct (c =? 0).
  { destruct (bs_cls st); exact I || reflexivity. }
  destruct (c =? cBSL).
  { destruct (lnext l) as [c2 l2]. destruct (c2 =? 0); [apply IH|].
    destruct (lnext l2) as [c' l']. apply IH. }
  destruct (c =? cDASH).
  { destruct (lnext l) as [c' l'].
    destruct (first || _); [apply IH|]. destruct (negb _ && _); apply IH. }
  destruct (c =? cRBRK).
  { destruct (bs_slash st).
    - simpl. rewrite print_lit_re. reflexivity.
    - destruct (bs_def st); [exact I|].
      destruct (conv _ _) as [items| |] eqn:Hc; try exact I.
      simpl. apply conv_print in Hc. rewrite Hc. destruct neg; reflexivity. }
  destruct (c =? cLBRK).
  { destruct (char_class (lrest l)) as [[n err] k]. destruct (lnext (lskip n l)) as [c' l']. apply IH. }
  destruct (lnext l) as [c' l']. apply IH.
Qed.

Lemma bracket_print : forall filenames lit, step_ok (bracket filenames lit).
Proof.
  intros. unfold bracket. destruct (lnext lit) as [c l].
  destruct (c =? 0); [reflexivity|].
  destruct ((c =? cBANG) || (c =? cCARET)).
  - destruct (lnext l) as [c1 l1]. destruct (c1 =? 0); [reflexivity|].
    destruct (c1 =? cRBRK); [|apply bracket_loop_print].
    destruct (lnext l1) as [c2 l2]. destruct (c2 =? 0); [reflexivity|apply bracket_loop_print].
  - destruct (c =? 0); [reflexivity|].
    destruct (c =? cRBRK); [|apply bracket_loop_print].
    destruct (lnext l) as [c2 l2]. destruct (c2 =? 0); [reflexivity|apply bracket_loop_print].
Qed.

Lemma star_filenames_print : forall m l, step_ok (star_filenames m l).
Proof.
  intros. unfold star_filenames.
  destruct (lpeek l =? cSTAR).
  - destruct (negb (m_noglobstar m) && _ && _).
    + destruct (negb (m_leadingdot m)); destruct (lpeek (lskip1 l) =? cSLASH); reflexivity.
    + destruct (_ && negb (m_leadingdot m)); reflexivity.
  - destruct (_ && negb (m_leadingdot m)); reflexivity.
Qed.

Lemma plain_next_print : forall m c l, step_ok (plain_next m c l).
Proof.
  intros. unfold plain_next.
  destruct (c =? 0); [exact I|].
  destruct (c =? cSTAR).
  { destruct (negb (m_filenames m)); [reflexivity|apply star_filenames_print]. }
  destruct (c =? cQUEST); [destruct (m_filenames m); reflexivity|].
  destruct (c =? cBSL).
  { destruct (lnext l) as [c2 l2]. destruct (c2 =? 0); [exact I|reflexivity]. }
  destruct (c =? cLBRK); [apply bracket_print|reflexivity].
Qed.

(* the accumulated group text is the printed accumulated AST *)
Definition ginv (txt : str) (alts : option ore) (cur : ore) : Prop :=
  match alts, cur with
  | None, OOk rc => txt = print_re rc
  | Some (OOk ra), OOk rc => txt = print_re ra ++ [cBAR] ++ print_re rc
  | _, _ => True
  end.

Lemma ext_op_cases : forall c, is_ext_op c = true ->
  c = cBANG \/ c = cQUEST \/ c = cSTAR \/ c = cPLUS \/ c = cAT.
Proof. intros c H. unfold is_ext_op in H. repeat rewrite orb_true_iff in H. repeat rewrite N.eqb_eq in H. tauto. Qed.

Lemma group_loop_print : forall next c optxt start, is_ext_op c = true -> (forall l, step_ok (next l)) ->
  forall gfuel lx txt alts cur, ginv txt alts cur ->
  step_ok (group_loop next c optxt start gfuel lx txt alts cur).
Proof.
  intros next c optxt start Hop Hn. induction gfuel as [|g IH]; intros lx txt alts cur Hi; [exact I|].
  cbn [group_loop].
  destruct (lpeek lx =? cRPAR).
  { assert (Body : forall rb, match alts with None => cur | Some a => oalt a cur end = OOk rb ->
               [cLPAR] ++ txt ++ [cRPAR] = print_re (RGroup rb)).
    { intros rb Hb. simpl. f_equal. f_equal. unfold ginv in Hi.
      destruct alts as [[ra| |]|]; destruct cur as [rc| |]; simpl in Hb; try discriminate;
        injection Hb as <-; simpl; auto. }
    destruct (c =? cBANG) eqn:E0; [exact I|].
    destruct (match alts with None => cur | Some a => oalt a cur end) as [rb| |] eqn:Hb;
      try (destruct (c =? cAT); [exact I|]; destruct (c =? cSTAR); [exact I|]; destruct (c =? cPLUS); exact I).
    specialize (Body rb eq_refl).
    destruct (c =? cAT) eqn:E1; [exact Body|].
    destruct (c =? cSTAR) eqn:E2.
    { apply N.eqb_eq in E2. subst c. unfold step_ok, omap. rewrite Body. reflexivity. }
    destruct (c =? cPLUS) eqn:E3.
    { apply N.eqb_eq in E3. subst c. unfold step_ok, omap. rewrite Body. reflexivity. }
    assert (c = cQUEST).
    { apply ext_op_cases in Hop. apply N.eqb_neq in E0, E1, E2, E3. tauto. }
    subst c. unfold step_ok, omap. rewrite Body. reflexivity. }
  destruct (lpeek lx =? cBAR).
  { apply IH. unfold ginv in *.
    destruct alts as [[ra| |]|]; destruct cur as [rc| |]; simpl; auto.
    - rewrite Hi. simpl. rewrite ?app_nil_r, <- ?app_assoc. reflexivity.
    - rewrite Hi. simpl. rewrite ?app_nil_r. reflexivity. }
  specialize (Hn lx). destruct (next lx) as [lend|e|a b l'|t r l'|]; try exact I.
  - simpl. rewrite print_lit_re. reflexivity.
  - apply IH. unfold ginv in *.
    destruct alts as [[ra| |]|]; destruct cur as [rc| |]; destruct r as [rr| |]; simpl; auto; simpl in Hn.
    + rewrite Hi, Hn. rewrite <- !app_assoc. reflexivity.
    + rewrite Hi, Hn. reflexivity.
Qed.

Lemma regexp_next_print : forall fuel m l, step_ok (regexp_next fuel m l).
Proof.
  induction fuel as [|fuel IH]; intros m l; [exact I|].
  cbn [regexp_next]. destruct (lnext l) as [c l1].
  destruct (m_ext m && is_ext_op c && (lpeek l1 =? cLPAR)) eqn:E.
  - apply andb_true_iff in E as [E _]. apply andb_true_iff in E as [_ E].
    apply group_loop_print; auto. simpl. reflexivity.
  - apply plain_next_print.
Qed.

Lemma top_loop_print : forall fuel m l txt body negs t bol eol r,
  (forall rb, body = OOk rb -> txt = header m ++ print_re rb) ->
  top_loop fuel m l txt body negs = TOk t bol eol (OOk r) ->
  t = header m ++ print_re r ++ (if m_entire m then [36] else []).
Proof.
  induction fuel as [|fuel IH]; intros m l txt body negs t bol eol r Hb H; [discriminate|].
  cbn [top_loop] in H.
  pose proof (regexp_next_print (S (S (length (lrest l)))) m l) as Hs.
  destruct (regexp_next (S (S (length (lrest l)))) m l) as [lend|e|a b l'|t1 r1 l'|]; try discriminate.
  - destruct negs; [|discriminate]. injection H as <- <- <- ->. rewrite (Hb r eq_refl), <- app_assoc. reflexivity.
  - eapply IH; [|exact H]. exact Hb.
  - eapply IH; [|exact H]. intros rb Hrb.
    destruct body as [rb0| |]; destruct r1 as [rr| |]; simpl in Hrb; try discriminate.
    injection Hrb as <-. simpl in Hs. rewrite (Hb rb0 eq_refl), Hs. simpl. rewrite <- app_assoc. reflexivity.
Qed.

Lemma quote_meta_nospecial : forall p, existsb needs_escaping p = false -> quote_meta p = p.
Proof.
  induction p as [|c p IH]; intros H; [reflexivity|]. simpl in H. apply orb_false_iff in H as [H1 H2].
  unfold quote_meta in *. simpl. unfold quote_meta1 at 1. unfold needs_escaping in H1. rewrite H1. simpl.
  rewrite IH; auto.
Qed.

(* C17_compiles: the emitted text is the printed AST, between the mode header and the optional $ *)
Theorem text_is_printed_ast : forall m p txt bol eol r,
  translate m p = TOk txt bol eol (OOk r) ->
  txt = print_re r \/ txt = header m ++ print_re r ++ (if m_entire m then [36] else []).
Proof.
  intros m p txt bol eol r H. unfold translate in H.
  destruct (negb (m_entire m) && negb (m_nocase m) && negb (existsb needs_escaping p)) eqn:E.
  - injection H as <- <- <- <-. left. rewrite print_lit_re. symmetry. apply quote_meta_nospecial.
    apply andb_true_iff in E as [_ E]. apply negb_true_iff in E. exact E.
  - right. eapply top_loop_print; [|exact H]. intros rb Hrb. injection Hrb as <-. simpl. rewrite app_nil_r. reflexivity.
Qed.
