(* Proofs/TypedJsonTableOk.v — the finite checks on the GENERATED schema and operator tables
   (coq/Gen), re-run by the kernel whenever the harness regenerates them from the running code. *)
From Verif Require Import Base.Str Syntax.Schema Syntax.TypedJson Gen.Schema Gen.Operators.

(* field names distinct and none of Type/Pos/End, no struct-valued fields, every node struct is in
   typedjson's nodeByName under its own name, Stringer <-> TextUnmarshaler, operator tables round-trip *)
Lemma gen_schema_json_ok : schema_json_ok gen_schema gen_tables = true.
Proof. vm_compute. reflexivity. Qed.

Lemma gen_ops_roundtrip : ops_roundtrip gen_tables = true.
Proof. vm_compute. reflexivity. Qed.
