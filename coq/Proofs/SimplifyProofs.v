(* Proofs/SimplifyProofs.v -- proofs about Syntax/Simplify.v (property C04).
   words: sw_scan vs dq_unescape, expansion preserved, returned bool;
   arithmetic: value and side effects preserved (walk_arith_sound), totality of the fuel, returned bool;
   tests: truth value preserved, returned bool; subshells: semantics preserved, returned bool;
   a concrete decimal itoa/atoi instance of the arithmetic hypotheses. *)
From Verif Require Import Base.Str Syntax.Simplify.
From Coq Require Import ZifyN ZifyNat ZifyBool DecimalZ Decimal.
Open Scope N_scope.


(* ---------------------------------------------------------------- words *)

Lemma sw_scan_dq : forall v,
  (forall nv, sw_scan v false = Some nv -> ends_escaped v false = false -> dq_unescape v = nv) /\
  (forall nv, sw_scan v true = Some nv -> ends_escaped v true = false -> dq_unescape (BSL :: v) = nv).
Proof.
  induction v as [|r t [IHf IHt]]; split; intros nv Hs He.
  - simpl in Hs. inversion Hs. reflexivity.
  - simpl in He. discriminate.
  - cbn [sw_scan] in Hs. cbn [ends_escaped] in He.
    destruct (r =? BSL) eqn:Hb.
    + apply N.eqb_eq in Hb. subst r. cbn [negb] in *. apply IHt; assumption.
    + destruct (r =? SQ) eqn:Hq; [discriminate|].
      assert (Hd : dq_unescape (r :: t) = r :: dq_unescape t).
      { cbn [dq_unescape]. rewrite Hb. reflexivity. }
      rewrite Hd.
      destruct ((r =? DOLLAR) || (r =? DQ) || (r =? BQ)) eqn:Hsp.
      * destruct (sw_scan t false) as [nv'|] eqn:Hs'; [|discriminate]. cbn in Hs. inversion Hs. subst nv.
        f_equal. apply IHf; auto.
      * cbn [negb] in Hs. destruct (sw_scan t false) as [nv'|] eqn:Hs'; [|discriminate]. cbn in Hs. inversion Hs. subst nv.
        f_equal. apply IHf; auto.
  - cbn [sw_scan] in Hs. cbn [ends_escaped] in He.
    destruct (r =? BSL) eqn:Hb.
    + apply N.eqb_eq in Hb. subst r. cbn [negb] in *.
      destruct (sw_scan t false) as [nv'|] eqn:Hs'; [|discriminate]. cbn in Hs. inversion Hs. subst nv.
      change (dq_unescape (BSL :: BSL :: t)) with (BSL :: dq_unescape t).
      f_equal. apply IHf; auto.
    + destruct (r =? SQ) eqn:Hq; [discriminate|].
      destruct ((r =? DOLLAR) || (r =? DQ) || (r =? BQ)) eqn:Hsp; [|discriminate].
      destruct (sw_scan t false) as [nv'|] eqn:Hs'; [|discriminate]. cbn in Hs. inversion Hs. subst nv.
      assert (Hd : dq_unescape (BSL :: r :: t) = r :: dq_unescape t).
      { cbn [dq_unescape]. change (BSL =? BSL) with true. cbn iota.
        unfold dq_special. unfold DOLLAR, DQ, BQ, BSL in *.
        destruct (r =? 34) eqn:E1; cbn [orb]; [reflexivity|].
        destruct (r =? 92) eqn:E2; [discriminate|]. cbn [orb].
        destruct (r =? 36) eqn:E3; cbn [orb] in *; [reflexivity|].
        destruct (r =? 96) eqn:E4; cbn [orb] in *; [reflexivity|discriminate]. }
      rewrite Hd. f_equal. apply IHf; auto.
Qed.

Lemma map_fst_quoted : forall s, map fst (quoted s) = s.
Proof. induction s; simpl; congruence. Qed.
Lemma map_fst_unquoted : forall s, map fst (unquoted s) = s.
Proof. induction s; simpl; congruence. Qed.

Lemma expand_q_cons : forall pval p w, expand_q pval (p :: w) = expand_wpart pval p ++ expand_q pval w.
Proof. reflexivity. Qed.

Lemma wf_word_cons : forall p w, wf_word (p :: w) = wf_wpart p && wf_word w.
Proof. reflexivity. Qed.

(* the quote-removed expansion (with quoting marks) of a word is unchanged *)
Lemma simplify_word_expand : forall pval w,
  wf_word w = true -> expand_q pval (fst (simplify_word w)) = expand_q pval w.
Proof.
  intros pval w. induction w as [|wp rest IH]; intros Hwf; [reflexivity|].
  rewrite wf_word_cons in Hwf. apply andb_true_iff in Hwf. destruct Hwf as [Hp Hr].
  cbn [simplify_word].
  destruct wp as [s|d s|d ps|sh fl n]; try reflexivity.
  destruct d; [reflexivity|].
  destruct ps as [|[v|sh fl n] [|q ps']]; try reflexivity.
  destruct (sw_scan v false) as [nv|] eqn:Hs.
  - destruct (str_eqb nv v); [reflexivity|].
    destruct (simplify_word rest) as [r m] eqn:Hr'. cbn [fst] in *.
    rewrite !expand_q_cons. rewrite (IH Hr). f_equal.
    cbn [expand_wpart flat_map expand_dpart]. rewrite app_nil_r.
    f_equal. symmetry. apply (proj1 (sw_scan_dq v)); auto.
    cbn [wf_wpart forallb wf_dpart] in Hp. rewrite andb_true_r in Hp.
    apply negb_true_iff in Hp. exact Hp.
  - destruct (simplify_word rest) as [r m] eqn:Hr'. cbn [fst] in *.
    rewrite !expand_q_cons. rewrite (IH Hr). reflexivity.
Qed.

Lemma simplify_word_literal : forall pval w,
  wf_word w = true -> literal pval (fst (simplify_word w)) = literal pval w.
Proof. intros. unfold literal. rewrite simplify_word_expand; auto. Qed.

(* the returned bool: false -> unchanged, true -> changed *)
Lemma simplify_word_mod : forall w,
  (snd (simplify_word w) = false -> fst (simplify_word w) = w) /\
  (snd (simplify_word w) = true -> fst (simplify_word w) <> w).
Proof.
  induction w as [|wp rest [IHf IHt]]; [split; [reflexivity|discriminate]|].
  cbn [simplify_word].
  destruct wp as [s|d s|d ps|sh fl n]; try (split; [reflexivity|discriminate]).
  destruct d; [split; [reflexivity|discriminate]|].
  destruct ps as [|[v|sh fl n] [|q ps']]; try (split; [reflexivity|discriminate]).
  destruct (sw_scan v false) as [nv|] eqn:Hs.
  - destruct (str_eqb nv v); [split; [reflexivity|discriminate]|].
    destruct (simplify_word rest) as [r m]. cbn [fst snd] in *.
    split; [discriminate|]. intros _ H. discriminate.
  - destruct (simplify_word rest) as [r m]. cbn [fst snd] in *.
    split; intros Hm.
    + f_equal. auto.
    + intros H. inversion H. apply IHt; auto.
Qed.

Lemma simplify_word_wf : forall w, wf_word w = true -> wf_word (fst (simplify_word w)) = true.
Proof.
  induction w as [|wp rest IH]; intros Hwf; [reflexivity|].
  rewrite wf_word_cons in Hwf. apply andb_true_iff in Hwf. destruct Hwf as [Hp Hr].
  cbn [simplify_word].
  assert (Hsame : wf_word (wp :: rest) = true) by (rewrite wf_word_cons, Hp, Hr; reflexivity).
  destruct wp as [s|d s|d ps|sh fl n]; try exact Hsame.
  destruct d; [exact Hsame|].
  destruct ps as [|[v|sh fl n] [|q ps']]; try exact Hsame.
  destruct (sw_scan v false) as [nv|] eqn:Hs.
  - destruct (str_eqb nv v); [exact Hsame|].
    destruct (simplify_word rest) as [r m]. cbn [fst] in *.
    rewrite wf_word_cons. cbn [wf_wpart]. auto.
  - destruct (simplify_word rest) as [r m]. cbn [fst] in *.
    rewrite wf_word_cons, Hp. auto.
Qed.

(* the rewrite that the fix removed would have changed the expansion *)
Lemma dollar_rewrite_differs :
  let w := [WDbl true [DLit [97; 92; 92; 98]]] in   (* $"a\\b" *)
  fst (simplify_word_prefix w) = [WSgl true [97; 92; 98]] /\    (* $'a\b' *)
  forall pval, expand_q pval (fst (simplify_word_prefix w)) <> expand_q pval w.
Proof.
  split; [reflexivity|]. intros pval. vm_compute. discriminate.
Qed.

Lemma simplify_word_dollar_untouched : forall ps rest,
  simplify_word (WDbl true ps :: rest) = (WDbl true ps :: rest, false).
Proof. reflexivity. Qed.


(* ---------------------------------------------------------------- arithmetic *)

Lemma inline_cases : forall x,
  inline_simple_params x = (x, false) \/
  exists sh name, x = AWord [WParam sh 0 name] /\ valid_name name = true /\
                  inline_simple_params x = (AWord [WLit name], true).
Proof.
  intros x. destruct x as [w|op post x|op x y|x]; try (left; reflexivity).
  destruct w as [|[s|d s|d ps|sh fl n] [|q r]]; try (left; reflexivity).
  cbn [inline_simple_params].
  destruct (valid_name n) eqn:Hv; cbn [andb]; [|left; reflexivity].
  destruct (fl =? 0) eqn:Hf; [|left; reflexivity].
  apply N.eqb_eq in Hf. subst fl. right. exists sh, n. auto.
Qed.

Definition is_paren (e : aexpr) : bool := match e with AParen _ => true | _ => false end.

Lemma rpa_not_paren : forall x, is_paren (fst (remove_parens_arithm x)) = false.
Proof. induction x; try reflexivity. exact IHx. Qed.

Lemma rpa_mod : forall x,
  (snd (remove_parens_arithm x) = false -> fst (remove_parens_arithm x) = x) /\
  (snd (remove_parens_arithm x) = true -> is_paren x = true).
Proof. destruct x; cbn; split; auto; discriminate. Qed.

Lemma rpa_wf : forall x, wf_arith x = true -> wf_arith (fst (remove_parens_arithm x)) = true.
Proof. induction x; auto. Qed.

Lemma rpa_size : forall x, (asize (fst (remove_parens_arithm x)) <= asize x)%nat.
Proof. induction x; cbn [remove_parens_arithm fst asize]; lia. Qed.

Lemma inline_wf : forall x, wf_arith x = true -> wf_arith (fst (inline_simple_params x)) = true.
Proof.
  intros x H. destruct (inline_cases x) as [E|(sh & n & Ex & Hv & E)]; rewrite E; auto.
Qed.

Lemma inline_size : forall x, asize (fst (inline_simple_params x)) = asize x.
Proof.
  intros x. destruct (inline_cases x) as [E|(sh & n & Ex & Hv & E)]; rewrite E; auto. subst x. reflexivity.
Qed.

Lemma inline_paren : forall x, is_paren (fst (inline_simple_params x)) = is_paren x.
Proof.
  intros x. destruct (inline_cases x) as [E|(sh & n & Ex & Hv & E)]; rewrite E; auto. subst x. reflexivity.
Qed.

Lemma lit_word_inline : forall x, is_lit_word x = true -> inline_simple_params x = (x, false).
Proof.
  intros x H. destruct x as [w| | |]; try discriminate.
  destruct w as [|[s|d s|d ps|sh fl n] [|q r]]; try discriminate. reflexivity.
Qed.

Lemma lit_word_walk : forall f x r, is_lit_word x = true -> walk_arith f x = Some r -> r = (x, false).
Proof.
  intros f x r H Hw. destruct f; [discriminate|].
  destruct x as [w| | |]; try discriminate.
  destruct w as [|[s|d s|d ps|sh fl n] [|q r']]; try discriminate.
  cbn in Hw. inversion Hw. reflexivity.
Qed.

Lemma walk_arith_paren : forall f e e' m, walk_arith f e = Some (e', m) -> is_paren e' = is_paren e.
Proof.
  intros f e e' m H. destruct f; [discriminate|]. cbn [walk_arith] in H.
  destruct e as [w|op post x|op x y|x].
  - destruct (simplify_word w). inversion H. reflexivity.
  - destruct (walk_arith f x) as [[x' m']|]; inversion H. reflexivity.
  - destruct (inline_simple_params x), (inline_simple_params y).
    destruct (walk_arith f a) as [[? ?]|]; [|discriminate].
    destruct (walk_arith f a0) as [[? ?]|]; inversion H. reflexivity.
  - destruct (remove_parens_arithm x). destruct (inline_simple_params a).
    destruct (walk_arith f a0) as [[? ?]|]; inversion H. reflexivity.
Qed.

Section ArithProofs.
  Variable itoa : Z -> str.
  Variable atoi : str -> Z.
  Variable pother : N -> str -> aenv -> str.
  Variable binop assignop : N -> Z -> Z -> res Z.
  Variable unop : N -> Z -> res Z.
  Hypothesis atoi_itoa : forall z, atoi (itoa z) = z.
  Hypothesis itoa_not_name : forall z, valid_name (itoa z) = false.

  Notation ev := (aeval itoa atoi pother binop assignop unop).
  Definition aequiv (e e' : aexpr) : Prop := forall env, ev e' env = ev e env.

  Lemma aequiv_refl : forall e, aequiv e e.
  Proof. intros e env. reflexivity. Qed.
  Lemma aequiv_trans : forall a b c, aequiv a b -> aequiv b c -> aequiv a c.
  Proof. intros a b c H1 H2 env. rewrite H2, H1. reflexivity. Qed.

  Lemma rpa_equiv : forall x, aequiv x (fst (remove_parens_arithm x)).
  Proof.
    induction x; try apply aequiv_refl.
    intros env. cbn [remove_parens_arithm fst]. rewrite IHx. reflexivity.
  Qed.

  Lemma inline_equiv : forall x, aequiv x (fst (inline_simple_params x)).
  Proof.
    intros x. destruct (inline_cases x) as [E|(sh & n & Ex & Hv & E)]; rewrite E; [apply aequiv_refl|].
    subst x. intros env. cbn [fst aeval].
    unfold literal, expand_q. cbn [flat_map expand_wpart]. rewrite !app_nil_r.
    rewrite !map_fst_unquoted. rewrite Hv.
    unfold apval. change (0 =? 0) with true. cbn iota.
    rewrite itoa_not_name, atoi_itoa. reflexivity.
  Qed.

  Definition shape (e e' : aexpr) : Prop :=
    match e with
    | ABin op a b => exists a' b', e' = ABin op a' b' /\ aequiv a a' /\ aequiv b b'
    | _ => match e' with ABin _ _ _ => False | _ => True end
    end.

  Lemma walk_arith_sound : forall f e e' m,
    walk_arith f e = Some (e', m) -> wf_arith e = true -> aequiv e e' /\ shape e e'.
  Proof.
    induction f as [|f IH]; intros e e' m H Hwf; [discriminate|].
    cbn [walk_arith] in H.
    destruct e as [w|op post x|op x y|x].
    - (* AWord *)
      destruct (simplify_word w) as [w' mw] eqn:Hw. inversion H. subst e' m. clear H.
      split; [|exact I].
      intros env. cbn [aeval]. cbn [wf_arith] in Hwf.
      replace w' with (fst (simplify_word w)) by (rewrite Hw; reflexivity).
      rewrite simplify_word_literal by assumption. reflexivity.
    - (* AUn *)
      destruct (walk_arith f x) as [[x' mx]|] eqn:Hx; [|discriminate]. inversion H. subst e' m. clear H.
      split; [|exact I].
      cbn [wf_arith] in Hwf. apply andb_true_iff in Hwf. destruct Hwf as [Hlit Hwx].
      intros env. cbn [aeval].
      destruct (un_incdec op) eqn:Hop.
      + try rewrite Hop in Hlit. apply lit_word_walk in Hx; [|assumption]. inversion Hx. reflexivity.
      + destruct (IH _ _ _ Hx Hwx) as [Heq _]. rewrite Heq. reflexivity.
    - (* ABin *)
      cbn [wf_arith] in Hwf. apply andb_true_iff in Hwf. destruct Hwf as [Hwf Hwy].
      apply andb_true_iff in Hwf. destruct Hwf as [Hlit Hwx].
      destruct (inline_simple_params x) as [x1 m1] eqn:Hix.
      destruct (inline_simple_params y) as [y1 m2] eqn:Hiy.
      destruct (walk_arith f x1) as [[x2 m3]|] eqn:Hx; [|discriminate].
      destruct (walk_arith f y1) as [[y2 m4]|] eqn:Hy; [|discriminate].
      inversion H. subst e' m. clear H.
      assert (Hwx1 : wf_arith x1 = true) by (pose proof (inline_wf x Hwx) as P; rewrite Hix in P; exact P).
      assert (Hwy1 : wf_arith y1 = true) by (pose proof (inline_wf y Hwy) as P; rewrite Hiy in P; exact P).
      assert (Exi : aequiv x x1) by (pose proof (inline_equiv x) as P; rewrite Hix in P; exact P).
      assert (Eyi : aequiv y y1) by (pose proof (inline_equiv y) as P; rewrite Hiy in P; exact P).
      destruct (IH _ _ _ Hx Hwx1) as [Ex2 Sx2].
      destruct (IH _ _ _ Hy Hwy1) as [Ey2 Sy2].
      assert (Ex : aequiv x x2) by (eapply aequiv_trans; eassumption).
      assert (Ey : aequiv y y2) by (eapply aequiv_trans; eassumption).
      split; [|exists x2, y2; auto].
      intros env. cbn [aeval].
      destruct (bin_assign op) eqn:Hop.
      + (* assignment: the left operand is a literal word and stays as it is *)
        try rewrite Hop in Hlit. rewrite (lit_word_inline x Hlit) in Hix. inversion Hix. subst x1 m1.
        apply lit_word_walk in Hx; [|assumption]. inversion Hx. subst x2 m3.
        destruct x as [w| | |]; try discriminate.
        rewrite Ey. reflexivity.
      + destruct (op =? OP_QUEST) eqn:Hq.
        * rewrite Ex. destruct (ev x env) as [[cond env1]| |]; try reflexivity.
          (* the shape of y decides *)
          destruct y as [yw|yop ypost yx|yop ya yb|yx].
          -- destruct (inline_cases (AWord yw)) as [E|(sh & n & Eyw & Hv & E)]; rewrite E in Hiy; inversion Hiy; subst y1 m2;
               cbn [shape] in Sy2; destruct y2; try reflexivity; contradiction.
          -- cbn in Hiy. inversion Hiy. subst y1 m2. cbn [shape] in Sy2. destruct y2; try reflexivity; contradiction.
          -- cbn in Hiy. inversion Hiy. subst y1 m2. cbn [shape] in Sy2.
             destruct Sy2 as (a' & b' & Ey2' & Ea & Eb). subst y2.
             rewrite Ea, Eb. reflexivity.
          -- cbn in Hiy. inversion Hiy. subst y1 m2. cbn [shape] in Sy2. destruct y2; try reflexivity; contradiction.
        * destruct ((op =? OP_ANDARIT) || (op =? OP_ORARIT)) eqn:Hao.
          -- rewrite Ex. destruct (ev x env) as [[l env1]| |]; try reflexivity.
             rewrite Ey. reflexivity.
          -- rewrite Ex. destruct (ev x env) as [[l env1]| |]; try reflexivity.
             rewrite Ey. reflexivity.
    - (* AParen *)
      cbn [wf_arith] in Hwf.
      destruct (remove_parens_arithm x) as [x1 m1] eqn:Hrx.
      destruct (inline_simple_params x1) as [x2 m2] eqn:Hix.
      destruct (walk_arith f x2) as [[x3 m3]|] eqn:Hx; [|discriminate].
      inversion H. subst e' m. clear H.
      assert (Hw1 : wf_arith x1 = true) by (pose proof (rpa_wf x Hwf) as P; rewrite Hrx in P; exact P).
      assert (Hw2 : wf_arith x2 = true) by (pose proof (inline_wf x1 Hw1) as P; rewrite Hix in P; exact P).
      assert (E1 : aequiv x x1) by (pose proof (rpa_equiv x) as P; rewrite Hrx in P; exact P).
      assert (E2 : aequiv x1 x2) by (pose proof (inline_equiv x1) as P; rewrite Hix in P; exact P).
      destruct (IH _ _ _ Hx Hw2) as [E3 _].
      split; [|exact I].
      intros env. cbn [aeval]. rewrite E3, E2, E1. reflexivity.
  Qed.

  Lemma walk_arith_total : forall f e, (asize e <= f)%nat -> exists r, walk_arith f e = Some r.
  Proof.
    induction f as [|f IH]; intros e Hs; [destruct e; cbn in Hs; lia|].
    destruct e as [w|op post x|op x y|x]; cbn [walk_arith asize] in *.
    - destruct (simplify_word w). eauto.
    - destruct (IH x) as [[x' m'] Hx]; [lia|]. rewrite Hx. eauto.
    - destruct (inline_simple_params x) as [x1 m1] eqn:Hix.
      destruct (inline_simple_params y) as [y1 m2] eqn:Hiy.
      assert (asize x1 = asize x) by (replace x1 with (fst (inline_simple_params x)) by (rewrite Hix; reflexivity); apply inline_size).
      assert (asize y1 = asize y) by (replace y1 with (fst (inline_simple_params y)) by (rewrite Hiy; reflexivity); apply inline_size).
      destruct (IH x1) as [[x2 m3] Hx]; [lia|]. destruct (IH y1) as [[y2 m4] Hy]; [lia|].
      rewrite Hx, Hy. eauto.
    - destruct (remove_parens_arithm x) as [x1 m1] eqn:Hrx.
      destruct (inline_simple_params x1) as [x2 m2] eqn:Hix.
      assert (asize x1 <= asize x)%nat by (replace x1 with (fst (remove_parens_arithm x)) by (rewrite Hrx; reflexivity); apply rpa_size).
      assert (asize x2 = asize x1) by (replace x2 with (fst (inline_simple_params x1)) by (rewrite Hix; reflexivity); apply inline_size).
      destruct (IH x2) as [[x3 m3] Hx]; [lia|]. rewrite Hx. eauto.
  Qed.

  (* the holder level: value and side effects of the simplified expression *)
  Theorem simplify_arith_sound : forall parens inline e,
    wf_arith e = true ->
    exists e' m, simplify_arith parens inline e = Some (e', m) /\
                 forall env, ev e' env = ev e env.
  Proof.
    intros parens inline e Hwf. unfold simplify_arith, simplify_arith_fuel.
    destruct (if parens then remove_parens_arithm e else (e, false)) as [x1 m1] eqn:H1.
    destruct (if inline then inline_simple_params x1 else (x1, false)) as [x2 m2] eqn:H2.
    assert (Hw1 : wf_arith x1 = true /\ aequiv e x1 /\ (asize x1 <= asize e)%nat).
    { destruct parens.
      - pose proof (rpa_wf e Hwf) as P1. pose proof (rpa_equiv e) as P2. pose proof (rpa_size e) as P3.
        rewrite H1 in P1, P2, P3. auto.
      - inversion H1; subst. split; [assumption|]. split; [apply aequiv_refl|lia]. }
    destruct Hw1 as (Hw1 & E1 & S1).
    assert (Hw2 : wf_arith x2 = true /\ aequiv x1 x2 /\ asize x2 = asize x1).
    { destruct inline.
      - pose proof (inline_wf x1 Hw1) as P1. pose proof (inline_equiv x1) as P2. pose proof (inline_size x1) as P3.
        rewrite H2 in P1, P2, P3. auto.
      - inversion H2; subst. auto using aequiv_refl. }
    destruct Hw2 as (Hw2 & E2 & S2).
    destruct (walk_arith_total (asize e) x2) as [[x3 m3] Hx]; [lia|].
    rewrite Hx. exists x3, (m1 || m2 || m3). split; [reflexivity|].
    destruct (walk_arith_sound _ _ _ _ Hx Hw2) as [E3 _].
    intros env. rewrite E3, E2, E1. reflexivity.
  Qed.
End ArithProofs.


(* ------------------------------------------------ the returned bool, arithmetic *)

Definition mod_spec {A} (x r : A) (m : bool) : Prop := (m = false -> r = x) /\ (m = true -> r <> x).

Lemma paren_neq : forall a b, is_paren a <> is_paren b -> a <> b.
Proof. intros a b H E. subst. auto. Qed.

Lemma inline_walk_chain : forall f,
  (forall e e' m, walk_arith f e = Some (e', m) -> mod_spec e e' m) ->
  forall x x1 m1 x2 m3,
    inline_simple_params x = (x1, m1) -> walk_arith f x1 = Some (x2, m3) -> mod_spec x x2 (m1 || m3).
Proof.
  intros f IH x x1 m1 x2 m3 Hi Hw.
  destruct (inline_cases x) as [E|(sh & n & Ex & Hv & E)]; rewrite E in Hi; inversion Hi; subst x1 m1.
  - cbn [orb]. eapply IH; eauto.
  - apply lit_word_walk in Hw; [|reflexivity]. inversion Hw. subst x2 m3 x.
    split; [discriminate|]. intros _ H. discriminate.
Qed.

Lemma walk_arith_mod : forall f e e' m, walk_arith f e = Some (e', m) -> mod_spec e e' m.
Proof.
  induction f as [|f IH]; intros e e' m H; [discriminate|].
  cbn [walk_arith] in H.
  destruct e as [w|op post x|op x y|x].
  - destruct (simplify_word w) as [w' mw] eqn:Hw. inversion H. subst e' m.
    destruct (simplify_word_mod w) as [Hf Ht]. rewrite Hw in Hf, Ht. cbn [fst snd] in *.
    split; intros Hm.
    + f_equal. auto.
    + intros E. inversion E. apply Ht; auto.
  - destruct (walk_arith f x) as [[x' mx]|] eqn:Hx; [|discriminate]. inversion H. subst e' m.
    destruct (IH _ _ _ Hx) as [Hf Ht].
    split; intros Hm.
    + f_equal. auto.
    + intros E. inversion E. apply Ht; auto.
  - destruct (inline_simple_params x) as [x1 m1] eqn:Hix.
    destruct (inline_simple_params y) as [y1 m2] eqn:Hiy.
    destruct (walk_arith f x1) as [[x2 m3]|] eqn:Hx; [|discriminate].
    destruct (walk_arith f y1) as [[y2 m4]|] eqn:Hy; [|discriminate].
    inversion H. subst e' m.
    destruct (inline_walk_chain f IH _ _ _ _ _ Hix Hx) as [Hxf Hxt].
    destruct (inline_walk_chain f IH _ _ _ _ _ Hiy Hy) as [Hyf Hyt].
    split; intros Hm.
    + assert (m1 || m3 = false /\ m2 || m4 = false) as [A B] by (destruct m1, m2, m3, m4; cbn in *; auto; discriminate).
      f_equal; auto.
    + intros E. inversion E.
      destruct (m1 || m3) eqn:A; [apply Hxt; auto|].
      destruct (m2 || m4) eqn:B; [apply Hyt; auto|].
      destruct m1, m2, m3, m4; cbn in *; discriminate.
  - destruct (remove_parens_arithm x) as [x1 m1] eqn:Hrx.
    destruct (inline_simple_params x1) as [x2 m2] eqn:Hix.
    destruct (walk_arith f x2) as [[x3 m3]|] eqn:Hx; [|discriminate].
    inversion H. subst e' m.
    destruct (inline_walk_chain f IH _ _ _ _ _ Hix Hx) as [Hf Ht].
    destruct (rpa_mod x) as [Rf Rt]. rewrite Hrx in Rf, Rt. cbn [fst snd] in *.
    destruct m1.
    + split; [discriminate|]. intros _ E. inversion E.
      assert (P3 : is_paren x3 = false).
      { rewrite (walk_arith_paren _ _ _ _ Hx).
        pose proof (inline_paren x1) as P. rewrite Hix in P. cbn [fst] in P. rewrite P.
        pose proof (rpa_not_paren x) as Q. rewrite Hrx in Q. exact Q. }
      rewrite H1 in P3. rewrite Rt in P3; [discriminate|reflexivity].
    + rewrite (Rf eq_refl) in *. cbn [orb].
      split; intros Hm.
      * f_equal. auto.
      * intros E. inversion E. apply Ht; auto.
Qed.

Theorem simplify_arith_mod : forall parens inline e e' m,
  simplify_arith parens inline e = Some (e', m) -> (m = true <-> e' <> e).
Proof.
  intros parens inline e e' m H. unfold simplify_arith, simplify_arith_fuel in H.
  destruct (if parens then remove_parens_arithm e else (e, false)) as [x1 m1] eqn:H1.
  destruct (if inline then inline_simple_params x1 else (x1, false)) as [x2 m2] eqn:H2.
  destruct (walk_arith (asize e) x2) as [[x3 m3]|] eqn:Hx; [|discriminate].
  inversion H. subst e' m. clear H.
  assert (C : mod_spec x1 x3 (m2 || m3)).
  { destruct inline.
    - eapply inline_walk_chain; eauto. intros; eapply walk_arith_mod; eauto.
    - inversion H2. subst x2 m2. cbn [orb]. eapply walk_arith_mod; eauto. }
  destruct C as [Cf Ct].
  assert (S : mod_spec e x3 (m1 || m2 || m3)).
  { destruct parens.
    - destruct (rpa_mod e) as [Rf Rt]. rewrite H1 in Rf, Rt. cbn [fst snd] in *.
      destruct m1.
      + split; [discriminate|]. intros _ E.
        assert (P3 : is_paren x3 = false).
        { rewrite (walk_arith_paren _ _ _ _ Hx).
          assert (is_paren x2 = is_paren x1).
          { destruct inline; [|inversion H2; reflexivity].
            pose proof (inline_paren x1) as P. rewrite H2 in P. exact P. }
          rewrite H. pose proof (rpa_not_paren e) as Q. rewrite H1 in Q. exact Q. }
        rewrite E in P3. rewrite Rt in P3; [discriminate|reflexivity].
      + rewrite (Rf eq_refl) in *. cbn [orb]. split; auto.
    - inversion H1. subst x1 m1. cbn [orb]. split; auto. }
  destruct S as [Sf St]. split; [exact St|].
  intros Hne. destruct (m1 || m2 || m3); [reflexivity|]. exfalso. apply Hne. auto.
Qed.


(* ---------------------------------------------------------------- [[ ]] tests *)

Lemma unquote_cases : forall x,
  unquote_params x = (x, false) \/
  exists d sh fl n, x = TWord [WDbl d [DParam sh fl n]] /\ unquote_params x = (TWord [WParam sh fl n], true).
Proof.
  intros x. destruct x as [w|op x|op x y|x]; try (left; reflexivity).
  destruct w as [|[s|d s|d [|[v|sh fl n] [|q ps']]|sh fl n] [|q' r]]; try (left; reflexivity).
  right. exists d, sh, fl, n. auto.
Qed.

Inductive rnt_case (x : texpr) : texpr -> bool -> Prop :=
| RntSame : rnt_case x x false
| RntEmp : forall y, x = TUn T_NOT (TUn T_EMP y) -> rnt_case x (TUn T_NEMP y) true
| RntNemp : forall y, x = TUn T_NOT (TUn T_NEMP y) -> rnt_case x (TUn T_EMP y) true
| RntNot : forall y, x = TUn T_NOT (TUn T_NOT y) -> rnt_case x y true
| RntMatch : forall a b, x = TUn T_NOT (TBin T_MATCH a b) -> rnt_case x (TBin T_NOMATCH a b) true
| RntNoMatch : forall a b, x = TUn T_NOT (TBin T_NOMATCH a b) -> rnt_case x (TBin T_MATCH a b) true.

Lemma rnt_cases : forall x, rnt_case x (fst (remove_negate_test x)) (snd (remove_negate_test x)).
Proof.
  intros x. destruct x as [w|op x|op x y|x]; try apply RntSame.
  destruct x as [w|op2 y|op2 a b|y]; try apply RntSame; cbn [remove_negate_test].
  - destruct (op =? T_NOT) eqn:E0; [|apply RntSame]. apply N.eqb_eq in E0. subst op.
    destruct (op2 =? T_EMP) eqn:E1; [apply N.eqb_eq in E1; subst; apply RntEmp; reflexivity|].
    destruct (op2 =? T_NEMP) eqn:E2; [apply N.eqb_eq in E2; subst; apply RntNemp; reflexivity|].
    destruct (op2 =? T_NOT) eqn:E3; [apply N.eqb_eq in E3; subst; apply RntNot; reflexivity|].
    apply RntSame.
  - destruct (op =? T_NOT) eqn:E0; [|apply RntSame]. apply N.eqb_eq in E0. subst op.
    destruct (op2 =? T_MATCH) eqn:E1; [apply N.eqb_eq in E1; subst; apply RntMatch; reflexivity|].
    destruct (op2 =? T_NOMATCH) eqn:E2; [apply N.eqb_eq in E2; subst; apply RntNoMatch; reflexivity|].
    apply RntSame.
Qed.

Definition is_tparen (e : texpr) : bool := match e with TParen _ => true | _ => false end.

Lemma rpt_not_paren : forall x, is_tparen (fst (remove_parens_test x)) = false.
Proof. induction x; try reflexivity. exact IHx. Qed.
Lemma rpt_mod : forall x,
  (snd (remove_parens_test x) = false -> fst (remove_parens_test x) = x) /\
  (snd (remove_parens_test x) = true -> (tsize (fst (remove_parens_test x)) < tsize x)%nat).
Proof.
  destruct x; cbn [remove_parens_test fst snd tsize]; split; auto; try discriminate.
  intros _. clear. induction x; cbn [remove_parens_test fst tsize]; lia.
Qed.
Lemma rpt_size : forall x, (tsize (fst (remove_parens_test x)) <= tsize x)%nat.
Proof. induction x; cbn [remove_parens_test fst tsize]; lia. Qed.
Lemma rpt_wf : forall x, wf_test x = true -> wf_test (fst (remove_parens_test x)) = true.
Proof. induction x; auto. Qed.

Lemma rnt_wf : forall x, wf_test x = true -> wf_test (fst (remove_negate_test x)) = true.
Proof.
  intros x H. destruct (rnt_cases x); auto; subst x; cbn [wf_test] in *; auto.
Qed.
Lemma rnt_size : forall x,
  (tsize (fst (remove_negate_test x)) <= tsize x)%nat /\
  (snd (remove_negate_test x) = true -> (tsize (fst (remove_negate_test x)) < tsize x)%nat) /\
  (snd (remove_negate_test x) = false -> fst (remove_negate_test x) = x).
Proof.
  intros x. destruct (rnt_cases x); try subst x; cbn [tsize]; repeat split; auto; try lia; try discriminate.
Qed.

Lemma unquote_wf : forall x, wf_test x = true -> wf_test (fst (unquote_params x)) = true.
Proof.
  intros x H. destruct (unquote_cases x) as [E|(d & sh & fl & n & Ex & E)]; rewrite E; auto.
Qed.
Lemma unquote_size : forall x, tsize (fst (unquote_params x)) = tsize x.
Proof.
  intros x. destruct (unquote_cases x) as [E|(d & sh & fl & n & Ex & E)]; rewrite E; auto. subst; reflexivity.
Qed.

Lemma walk_test_word : forall f w r, walk_test f (TWord w) = Some r ->
  r = (TWord (fst (simplify_word w)), snd (simplify_word w)).
Proof.
  intros f w r H. destruct f; [discriminate|]. cbn in H. destruct (simplify_word w). inversion H. reflexivity.
Qed.

Lemma walk_test_size : forall f e e' m, walk_test f e = Some (e', m) -> (tsize e' <= tsize e)%nat.
Proof.
  induction f as [|f IH]; intros e e' m H; [discriminate|].
  cbn [walk_test] in H. destruct e as [w|op x|op x y|x].
  - destruct (simplify_word w). inversion H. cbn. lia.
  - destruct (unquote_params x) as [x1 m1] eqn:H1.
    destruct (walk_test f x1) as [[x2 m2]|] eqn:H2; [|discriminate]. inversion H. subst.
    pose proof (unquote_size x) as S1. rewrite H1 in S1. cbn [fst] in S1.
    apply IH in H2. cbn [tsize]. lia.
  - destruct (unquote_params x) as [x1 m1] eqn:H1.
    destruct (remove_negate_test x1) as [x2 m2] eqn:H2.
    destruct (if op =? T_MATCHSHORT then (T_MATCH, true) else (op, false)) as [op1 m3].
    destruct (if (op1 =? T_MATCH) || (op1 =? T_NOMATCH) || (op1 =? T_REMATCH) then (y, false) else unquote_params y) as [y1 m4] eqn:H4.
    destruct (remove_negate_test y1) as [y2 m5] eqn:H5.
    destruct (walk_test f x2) as [[x3 m6]|] eqn:H6; [|discriminate].
    destruct (walk_test f y2) as [[y3 m7]|] eqn:H7; [|discriminate].
    inversion H. subst.
    pose proof (unquote_size x) as S1. rewrite H1 in S1. cbn [fst] in S1.
    pose proof (proj1 (rnt_size x1)) as S2. rewrite H2 in S2. cbn [fst] in S2.
    assert (S4 : tsize y1 = tsize y).
    { destruct ((op1 =? T_MATCH) || (op1 =? T_NOMATCH) || (op1 =? T_REMATCH)); [inversion H4; reflexivity|].
      pose proof (unquote_size y) as S. rewrite H4 in S. exact S. }
    pose proof (proj1 (rnt_size y1)) as S5. rewrite H5 in S5. cbn [fst] in S5.
    apply IH in H6. apply IH in H7. cbn [tsize]. lia.
  - destruct (remove_parens_test x) as [x1 m1] eqn:H1.
    destruct (remove_negate_test x1) as [x2 m2] eqn:H2.
    destruct (walk_test f x2) as [[x3 m3]|] eqn:H3; [|discriminate]. inversion H. subst.
    pose proof (rpt_size x) as S1. rewrite H1 in S1. cbn [fst] in S1.
    pose proof (proj1 (rnt_size x1)) as S2. rewrite H2 in S2. cbn [fst] in S2.
    apply IH in H3. cbn [tsize]. lia.
Qed.

Lemma size_neq : forall a b, (tsize a < tsize b)%nat -> a <> b.
Proof. intros a b H E. subst. lia. Qed.

(* chains used by the visit cases: [unquote;] removeNegate; walk *)
Lemma rnt_walk_chain : forall f,
  (forall e e' m, walk_test f e = Some (e', m) -> mod_spec e e' m) ->
  forall x1 x2 m2 x3 m3,
    remove_negate_test x1 = (x2, m2) -> walk_test f x2 = Some (x3, m3) ->
    mod_spec x1 x3 (m2 || m3) /\ (tsize x3 <= tsize x1)%nat.
Proof.
  intros f IH x1 x2 m2 x3 m3 H2 H3.
  pose proof (rnt_size x1) as (S & St & Sf). rewrite H2 in S, St, Sf. cbn [fst snd] in *.
  pose proof (walk_test_size _ _ _ _ H3) as S3.
  split; [|lia].
  destruct m2.
  - split; [discriminate|]. intros _. apply size_neq. specialize (St eq_refl). lia.
  - rewrite (Sf eq_refl) in *. cbn [orb]. eapply IH; eauto.
Qed.

Lemma unquote_rnt_walk_chain : forall f,
  (forall e e' m, walk_test f e = Some (e', m) -> mod_spec e e' m) ->
  forall x x1 m1 x2 m2 x3 m3,
    unquote_params x = (x1, m1) -> remove_negate_test x1 = (x2, m2) -> walk_test f x2 = Some (x3, m3) ->
    mod_spec x x3 (m1 || m2 || m3).
Proof.
  intros f IH x x1 m1 x2 m2 x3 m3 H1 H2 H3.
  destruct (unquote_cases x) as [E|(d & sh & fl & n & Ex & E)]; rewrite E in H1; inversion H1; subst x1 m1.
  - cbn [orb]. eapply rnt_walk_chain; eauto.
  - cbn in H2. inversion H2. subst x2 m2.
    apply walk_test_word in H3. cbn in H3. inversion H3. subst x3 m3 x.
    split; [discriminate|]. intros _ H. discriminate.
Qed.

Lemma walk_test_mod : forall f e e' m, walk_test f e = Some (e', m) -> mod_spec e e' m.
Proof.
  induction f as [|f IH]; intros e e' m H; [discriminate|].
  cbn [walk_test] in H. destruct e as [w|op x|op x y|x].
  - destruct (simplify_word w) as [w' mw] eqn:Hw. inversion H. subst e' m.
    destruct (simplify_word_mod w) as [Hf Ht]. rewrite Hw in Hf, Ht. cbn [fst snd] in *.
    split; intros Hm; [f_equal; auto|]. intros E. inversion E. apply Ht; auto.
  - destruct (unquote_params x) as [x1 m1] eqn:H1.
    destruct (walk_test f x1) as [[x2 m2]|] eqn:H2; [|discriminate]. inversion H. subst e' m.
    destruct (unquote_cases x) as [E|(d & sh & fl & n & Ex & E)]; rewrite E in H1; inversion H1; subst x1 m1.
    + cbn [orb]. destruct (IH _ _ _ H2) as [Hf Ht].
      split; intros Hm; [f_equal; auto|]. intros E'. inversion E'. apply Ht; auto.
    + apply walk_test_word in H2. cbn in H2. inversion H2. subst x2 m2 x.
      split; [discriminate|]. intros _ E'. discriminate.
  - destruct (unquote_params x) as [x1 m1] eqn:H1.
    destruct (remove_negate_test x1) as [x2 m2] eqn:H2.
    destruct (if op =? T_MATCHSHORT then (T_MATCH, true) else (op, false)) as [op1 m3] eqn:H3.
    destruct (if (op1 =? T_MATCH) || (op1 =? T_NOMATCH) || (op1 =? T_REMATCH) then (y, false) else unquote_params y) as [y1 m4] eqn:H4.
    destruct (remove_negate_test y1) as [y2 m5] eqn:H5.
    destruct (walk_test f x2) as [[x3 m6]|] eqn:H6; [|discriminate].
    destruct (walk_test f y2) as [[y3 m7]|] eqn:H7; [|discriminate].
    inversion H. subst e' m.
    destruct (unquote_rnt_walk_chain f IH _ _ _ _ _ _ _ H1 H2 H6) as [Xf Xt].
    assert (Y : mod_spec y y3 (m4 || m5 || m7)).
    { destruct ((op1 =? T_MATCH) || (op1 =? T_NOMATCH) || (op1 =? T_REMATCH)).
      - inversion H4. subst y1 m4. cbn [orb]. eapply rnt_walk_chain; eauto.
      - eapply unquote_rnt_walk_chain; eauto. }
    destruct Y as [Yf Yt].
    assert (O : mod_spec op op1 m3).
    { destruct (op =? T_MATCHSHORT) eqn:E; inversion H3; subst.
      - apply N.eqb_eq in E. subst op. split; [discriminate|]. intros _ E'. discriminate.
      - split; auto. discriminate. }
    destruct O as [Of Ot].
    split; intros Hm.
    + assert (m1 || m2 || m6 = false /\ m4 || m5 || m7 = false /\ m3 = false) as (A & B & C)
        by (destruct m1, m2, m3, m4, m5, m6, m7; cbn in *; auto; discriminate).
      f_equal; auto.
    + intros E'. inversion E'.
      destruct (m1 || m2 || m6) eqn:A; [apply Xt; auto|].
      destruct (m4 || m5 || m7) eqn:B; [apply Yt; auto|].
      destruct m3; [apply Ot; auto|].
      destruct m1, m2, m4, m5, m6, m7; cbn in *; discriminate.
  - destruct (remove_parens_test x) as [x1 m1] eqn:H1.
    destruct (remove_negate_test x1) as [x2 m2] eqn:H2.
    destruct (walk_test f x2) as [[x3 m3]|] eqn:H3; [|discriminate]. inversion H. subst e' m.
    destruct (rnt_walk_chain f IH _ _ _ _ _ H2 H3) as [[Cf Ct] CS].
    destruct (rpt_mod x) as [Rf Rt]. rewrite H1 in Rf, Rt. cbn [fst snd] in *.
    destruct m1.
    + split; [discriminate|]. intros _ E. inversion E. specialize (Rt eq_refl). subst x3. lia.
    + rewrite (Rf eq_refl) in *. cbn [orb].
      split; intros Hm; [f_equal; auto|]. intros E. inversion E. apply Ct; auto.
Qed.

Theorem simplify_test_mod : forall e e' m, simplify_test e = Some (e', m) -> (m = true <-> e' <> e).
Proof.
  intros e e' m H. unfold simplify_test, simplify_test_fuel in H.
  destruct (remove_parens_test e) as [x1 m1] eqn:H1.
  destruct (remove_negate_test x1) as [x2 m2] eqn:H2.
  destruct (walk_test (tsize e) x2) as [[x3 m3]|] eqn:H3; [|discriminate]. inversion H. subst e' m.
  destruct (rnt_walk_chain _ (walk_test_mod (tsize e)) _ _ _ _ _ H2 H3) as [[Cf Ct] CS].
  destruct (rpt_mod e) as [Rf Rt]. rewrite H1 in Rf, Rt. cbn [fst snd] in *.
  assert (S : mod_spec e x3 (m1 || m2 || m3)).
  { destruct m1.
    - split; [discriminate|]. intros _ E. specialize (Rt eq_refl). subst x3. lia.
    - rewrite (Rf eq_refl) in *. cbn [orb]. split; auto. }
  destruct S as [Sf St]. split; [exact St|].
  intros Hne. destruct (m1 || m2 || m3); [reflexivity|]. exfalso. apply Hne. auto.
Qed.


Section TestProofs.
  Variable pval : bool -> N -> str -> str.
  Variable pmatch : qstr -> str -> bool.
  Variable untest_o : N -> str -> bool.
  Variable bintest_o : N -> str -> str -> bool.

  Notation tev := (teval pval pmatch untest_o bintest_o).
  Notation lit := (literal pval).

  (* refinement: whenever the original has a truth value, the result has the same *)
  Definition tequiv (e e' : texpr) : Prop := forall b, tev e = Ok b -> tev e' = Ok b.

  Lemma tequiv_refl : forall e, tequiv e e.
  Proof. intros e b H. exact H. Qed.
  Lemma tequiv_trans : forall a b c, tequiv a b -> tequiv b c -> tequiv a c.
  Proof. intros a b c H1 H2 v H. auto. Qed.

  Lemma rpt_equiv : forall x, tequiv x (fst (remove_parens_test x)).
  Proof.
    induction x; try apply tequiv_refl. intros b H. cbn [remove_parens_test fst]. apply IHx. exact H.
  Qed.

  Lemma unquote_lit : forall d sh fl n, lit [WDbl d [DParam sh fl n]] = lit [WParam sh fl n].
  Proof.
    intros. unfold literal, expand_q. cbn [flat_map expand_wpart expand_dpart].
    rewrite !app_nil_r. rewrite map_fst_quoted, map_fst_unquoted. reflexivity.
  Qed.

  Lemma unquote_equiv : forall x, tequiv x (fst (unquote_params x)).
  Proof.
    intros x. destruct (unquote_cases x) as [E|(d & sh & fl & n & Ex & E)]; rewrite E; [apply tequiv_refl|].
    subst x. intros b H. cbn [fst teval] in *. rewrite <- unquote_lit with (d := d). exact H.
  Qed.

  (* word operands: the unquoted word has the same literal expansion *)
  Lemma unquote_word : forall w, exists w', fst (unquote_params (TWord w)) = TWord w' /\ lit w' = lit w /\ wf_word w' = wf_word w.
  Proof.
    intros w. destruct (unquote_cases (TWord w)) as [E|(d & sh & fl & n & Ex & E)]; rewrite E.
    - exists w. auto.
    - inversion Ex. subst w. exists [WParam sh fl n]. cbn [fst]. split; [reflexivity|].
      split; [symmetry; apply unquote_lit|reflexivity].
  Qed.

  Lemma negb_negb_ok : forall (r : res bool) b,
    match match r with Ok b0 => Ok (negb b0) | Err c => Err c | Panic => Panic end with
    | Ok b0 => Ok (negb b0) | Err c => Err c | Panic => Panic end = Ok b -> r = Ok b.
  Proof. intros [b0|c|] b H; try discriminate. inversion H. rewrite negb_involutive. reflexivity. Qed.

  Lemma rnt_equiv : forall x, tequiv x (fst (remove_negate_test x)).
  Proof.
    intros x. destruct (rnt_cases x) as [|y E|y E|y E|a b E|a b E]; try apply tequiv_refl; subst x; intros v H.
    - (* ! -z y  ->  -n y *)
      cbn [teval] in *. change (T_NOT =? T_NOT) with true in H. change (T_EMP =? T_NOT) with false in H.
      change (T_NEMP =? T_NOT) with false. cbn iota in *.
      destruct y as [w| | |]; try discriminate. inversion H. f_equal.
      unfold untest. change (T_EMP =? T_EMP) with true. change (T_NEMP =? T_EMP) with false.
      change (T_NEMP =? T_NEMP) with true. cbn iota. symmetry. apply negb_involutive.
    - cbn [teval] in *. change (T_NOT =? T_NOT) with true in H. change (T_NEMP =? T_NOT) with false in H.
      change (T_EMP =? T_NOT) with false. cbn iota in *.
      destruct y as [w| | |]; try discriminate. inversion H. reflexivity.
    - cbn [teval] in H. change (T_NOT =? T_NOT) with true in H. cbn iota in H.
      apply negb_negb_ok in H. exact H.
    - (* ! (a == b)  ->  a != b *)
      cbn [teval] in *. change (T_NOT =? T_NOT) with true in H. cbn iota in H.
      change ((T_MATCH =? T_AND) || (T_MATCH =? T_OR)) with false in H.
      change ((T_NOMATCH =? T_AND) || (T_NOMATCH =? T_OR)) with false. cbn iota in *.
      destruct a as [aw| | |]; try discriminate. destruct b as [bw| | |]; try discriminate.
      change ((T_MATCH =? T_MATCHSHORT) || (T_MATCH =? T_MATCH)) with true in H.
      change ((T_NOMATCH =? T_MATCHSHORT) || (T_NOMATCH =? T_MATCH)) with false.
      change (T_NOMATCH =? T_NOMATCH) with true. cbn iota in *. exact H.
    - cbn [teval] in *. change (T_NOT =? T_NOT) with true in H. cbn iota in H.
      change ((T_NOMATCH =? T_AND) || (T_NOMATCH =? T_OR)) with false in H.
      change ((T_MATCH =? T_AND) || (T_MATCH =? T_OR)) with false. cbn iota in *.
      destruct a as [aw| | |]; try discriminate. destruct b as [bw| | |]; try discriminate.
      change ((T_NOMATCH =? T_MATCHSHORT) || (T_NOMATCH =? T_MATCH)) with false in H.
      change (T_NOMATCH =? T_NOMATCH) with true in H.
      change ((T_MATCH =? T_MATCHSHORT) || (T_MATCH =? T_MATCH)) with true. cbn iota in *.
      inversion H. rewrite negb_involutive. reflexivity.
  Qed.

  Lemma rnt_word : forall w, remove_negate_test (TWord w) = (TWord w, false).
  Proof. reflexivity. Qed.

  (* operand chain for a word operand: unquote? ; removeNegate ; walk gives a word with the same views *)
  Lemma word_chain_unquote : forall f w x1 m1 x2 m2 x3 m3,
    wf_word w = true ->
    unquote_params (TWord w) = (x1, m1) -> remove_negate_test x1 = (x2, m2) -> walk_test f x2 = Some (x3, m3) ->
    exists w3, x3 = TWord w3 /\ lit w3 = lit w.
  Proof.
    intros f w x1 m1 x2 m2 x3 m3 Hwf H1 H2 H3.
    destruct (unquote_word w) as (w1 & E1 & L1 & W1). rewrite H1 in E1. cbn [fst] in E1. subst x1.
    rewrite rnt_word in H2. inversion H2. subst x2 m2.
    apply walk_test_word in H3. inversion H3. subst x3 m3.
    eexists. split; [reflexivity|]. rewrite simplify_word_literal; [exact L1|]. rewrite W1. exact Hwf.
  Qed.

  Lemma word_chain_plain : forall f w x2 m2 x3 m3,
    wf_word w = true ->
    remove_negate_test (TWord w) = (x2, m2) -> walk_test f x2 = Some (x3, m3) ->
    exists w3, x3 = TWord w3 /\ expand_q pval w3 = expand_q pval w.
  Proof.
    intros f w x2 m2 x3 m3 Hwf H2 H3.
    rewrite rnt_word in H2. inversion H2. subst x2 m2.
    apply walk_test_word in H3. inversion H3. subst x3 m3.
    eexists. split; [reflexivity|]. apply simplify_word_expand. exact Hwf.
  Qed.

  Lemma walk_test_sound : forall f e e' m,
    walk_test f e = Some (e', m) -> wf_test e = true -> tequiv e e'.
  Proof.
    induction f as [|f IH]; intros e e' m H Hwf; [discriminate|].
    cbn [walk_test] in H. destruct e as [w|op x|op x y|x].
    - destruct (simplify_word w) as [w' mw] eqn:Hw. inversion H. subst e' m.
      intros b Hb. cbn [teval] in *. cbn [wf_test] in Hwf.
      replace w' with (fst (simplify_word w)) by (rewrite Hw; reflexivity).
      rewrite simplify_word_literal; auto.
    - (* TUn *)
      cbn [wf_test] in Hwf.
      destruct (unquote_params x) as [x1 m1] eqn:H1.
      destruct (walk_test f x1) as [[x2 m2]|] eqn:H2; [|discriminate]. inversion H. subst e' m.
      intros b Hb. cbn [teval] in *.
      destruct (op =? T_NOT) eqn:Hop.
      + assert (E : tequiv x x2).
        { eapply tequiv_trans.
          - pose proof (unquote_equiv x) as P. rewrite H1 in P. exact P.
          - eapply IH; eauto. pose proof (unquote_wf x Hwf) as P. rewrite H1 in P. exact P. }
        destruct (tev x) as [bx|c|] eqn:Hx; try discriminate.
        rewrite (E bx Hx). exact Hb.
      + destruct x as [w| | |]; try discriminate.
        destruct (unquote_word w) as (w1 & E1 & L1 & W1). rewrite H1 in E1. cbn [fst] in E1. subst x1.
        apply walk_test_word in H2. inversion H2. subst x2 m2.
        rewrite simplify_word_literal; [rewrite L1; exact Hb|]. rewrite W1. exact Hwf.
    - (* TBin *)
      cbn [wf_test] in Hwf. apply andb_true_iff in Hwf. destruct Hwf as [Hwx Hwy].
      destruct (unquote_params x) as [x1 m1] eqn:H1.
      destruct (remove_negate_test x1) as [x2 m2] eqn:H2.
      destruct (if op =? T_MATCHSHORT then (T_MATCH, true) else (op, false)) as [op1 m3] eqn:H3.
      destruct (if (op1 =? T_MATCH) || (op1 =? T_NOMATCH) || (op1 =? T_REMATCH) then (y, false) else unquote_params y) as [y1 m4] eqn:H4.
      destruct (remove_negate_test y1) as [y2 m5] eqn:H5.
      destruct (walk_test f x2) as [[x3 m6]|] eqn:H6; [|discriminate].
      destruct (walk_test f y2) as [[y3 m7]|] eqn:H7; [|discriminate].
      inversion H. subst e' m. clear H.
      intros b Hb. cbn [teval] in Hb.
      destruct ((op =? T_AND) || (op =? T_OR)) eqn:Hlog.
      + (* && || : both sides are arbitrary test expressions *)
        assert (Hop1 : op1 = op).
        { destruct (op =? T_MATCHSHORT) eqn:E; inversion H3; auto.
          apply N.eqb_eq in E. subst op. discriminate. }
        subst op1.
        assert (Hnm : (op =? T_MATCH) || (op =? T_NOMATCH) || (op =? T_REMATCH) = false).
        { unfold T_AND, T_OR, T_MATCH, T_NOMATCH, T_REMATCH in *.
          destruct (op =? 4) eqn:A; [apply N.eqb_eq in A; subst; reflexivity|].
          destruct (op =? 5) eqn:B; [apply N.eqb_eq in B; subst; reflexivity|discriminate]. }
        rewrite Hnm in H4.
        assert (Ex : tequiv x x3).
        { eapply tequiv_trans; [pose proof (unquote_equiv x) as P; rewrite H1 in P; exact P|].
          eapply tequiv_trans; [pose proof (rnt_equiv x1) as P; rewrite H2 in P; exact P|].
          eapply IH; eauto.
          pose proof (unquote_wf x Hwx) as P. rewrite H1 in P. cbn [fst] in P.
          pose proof (rnt_wf x1 P) as Q. rewrite H2 in Q. exact Q. }
        assert (Ey : tequiv y y3).
        { eapply tequiv_trans; [pose proof (unquote_equiv y) as P; rewrite H4 in P; exact P|].
          eapply tequiv_trans; [pose proof (rnt_equiv y1) as P; rewrite H5 in P; exact P|].
          eapply IH; eauto.
          pose proof (unquote_wf y Hwy) as P. rewrite H4 in P. cbn [fst] in P.
          pose proof (rnt_wf y1 P) as Q. rewrite H5 in Q. exact Q. }
        cbn [teval]. rewrite Hlog.
        destruct (tev x) as [bx|c|] eqn:Hx; destruct (tev y) as [by_|c'|] eqn:Hy; try discriminate.
        rewrite (Ex bx Hx), (Ey by_ Hy). exact Hb.
      + (* every other operator has word operands *)
        destruct x as [xw| | |]; try discriminate. destruct y as [yw| | |]; try discriminate.
        cbn [wf_test] in Hwx, Hwy.
        destruct (word_chain_unquote f xw _ _ _ _ _ _ Hwx H1 H2 H6) as (xw3 & Ex3 & Lx). subst x3.
        destruct (op =? T_MATCHSHORT) eqn:E0.
        * (* = becomes == *)
          inversion H3. subst op1 m3. apply N.eqb_eq in E0. subst op.
          change ((T_MATCH =? T_MATCH) || (T_MATCH =? T_NOMATCH) || (T_MATCH =? T_REMATCH)) with true in H4.
          inversion H4. subst y1 m4.
          destruct (word_chain_plain f yw _ _ _ _ Hwy H5 H7) as (yw3 & Ey3 & Qy). subst y3.
          cbn [teval] in *. change ((T_MATCH =? T_AND) || (T_MATCH =? T_OR)) with false.
          change ((T_MATCHSHORT =? T_MATCHSHORT) || (T_MATCHSHORT =? T_MATCH)) with true in Hb.
          change ((T_MATCH =? T_MATCHSHORT) || (T_MATCH =? T_MATCH)) with true.
          cbn iota in *. rewrite Lx, Qy. exact Hb.
        * inversion H3. subst op1 m3.
          destruct ((op =? T_MATCH) || (op =? T_NOMATCH) || (op =? T_REMATCH)) eqn:Hpat.
          -- inversion H4. subst y1 m4.
             destruct (word_chain_plain f yw _ _ _ _ Hwy H5 H7) as (yw3 & Ey3 & Qy). subst y3.
             cbn [teval]. rewrite Hlog. rewrite E0 in *. cbn [orb] in *.
             assert (Ly : lit yw3 = lit yw) by (unfold literal; rewrite Qy; reflexivity).
             rewrite Lx, Qy, Ly. exact Hb.
          -- destruct (word_chain_unquote f yw _ _ _ _ _ _ Hwy H4 H5 H7) as (yw3 & Ey3 & Ly). subst y3.
             cbn [teval]. rewrite Hlog. rewrite E0 in *. cbn [orb] in *.
             assert (Hm : (op =? T_MATCH) = false /\ (op =? T_NOMATCH) = false).
             { destruct (op =? T_MATCH); [discriminate|]. destruct (op =? T_NOMATCH); [discriminate|]. auto. }
             destruct Hm as [Hm1 Hm2]. rewrite Hm1, Hm2 in *. rewrite Lx, Ly. exact Hb.
    - (* TParen *)
      cbn [wf_test] in Hwf.
      destruct (remove_parens_test x) as [x1 m1] eqn:H1.
      destruct (remove_negate_test x1) as [x2 m2] eqn:H2.
      destruct (walk_test f x2) as [[x3 m3]|] eqn:H3; [|discriminate]. inversion H. subst e' m.
      intros b Hb. cbn [teval] in *.
      pose proof (rpt_wf x Hwf) as W1. rewrite H1 in W1. cbn [fst] in W1.
      pose proof (rnt_wf x1 W1) as W2. rewrite H2 in W2. cbn [fst] in W2.
      apply (IH _ _ _ H3 W2).
      pose proof (rnt_equiv x1) as P2. rewrite H2 in P2. apply P2.
      pose proof (rpt_equiv x) as P1. rewrite H1 in P1. apply P1. exact Hb.
  Qed.

  Lemma walk_test_total : forall f e, (tsize e <= f)%nat -> exists r, walk_test f e = Some r.
  Proof.
    induction f as [|f IH]; intros e Hs; [destruct e; cbn in Hs; lia|].
    destruct e as [w|op x|op x y|x]; cbn [walk_test tsize] in *.
    - destruct (simplify_word w). eauto.
    - destruct (unquote_params x) as [x1 m1] eqn:H1.
      pose proof (unquote_size x) as S1. rewrite H1 in S1. cbn [fst] in S1.
      destruct (IH x1) as [[x2 m2] Hx]; [lia|]. rewrite Hx. eauto.
    - destruct (unquote_params x) as [x1 m1] eqn:H1.
      destruct (remove_negate_test x1) as [x2 m2] eqn:H2.
      destruct (if op =? T_MATCHSHORT then (T_MATCH, true) else (op, false)) as [op1 m3].
      destruct (if (op1 =? T_MATCH) || (op1 =? T_NOMATCH) || (op1 =? T_REMATCH) then (y, false) else unquote_params y) as [y1 m4] eqn:H4.
      destruct (remove_negate_test y1) as [y2 m5] eqn:H5.
      pose proof (unquote_size x) as S1. rewrite H1 in S1. cbn [fst] in S1.
      pose proof (proj1 (rnt_size x1)) as S2. rewrite H2 in S2. cbn [fst] in S2.
      assert (S4 : tsize y1 = tsize y).
      { destruct ((op1 =? T_MATCH) || (op1 =? T_NOMATCH) || (op1 =? T_REMATCH)); [inversion H4; reflexivity|].
        pose proof (unquote_size y) as S. rewrite H4 in S. exact S. }
      pose proof (proj1 (rnt_size y1)) as S5. rewrite H5 in S5. cbn [fst] in S5.
      destruct (IH x2) as [[x3 m6] Hx]; [lia|]. destruct (IH y2) as [[y3 m7] Hy]; [lia|].
      rewrite Hx, Hy. eauto.
    - destruct (remove_parens_test x) as [x1 m1] eqn:H1.
      destruct (remove_negate_test x1) as [x2 m2] eqn:H2.
      pose proof (rpt_size x) as S1. rewrite H1 in S1. cbn [fst] in S1.
      pose proof (proj1 (rnt_size x1)) as S2. rewrite H2 in S2. cbn [fst] in S2.
      destruct (IH x2) as [[x3 m3] Hx]; [lia|]. rewrite Hx. eauto.
  Qed.

  Theorem simplify_test_sound : forall e,
    wf_test e = true ->
    exists e' m, simplify_test e = Some (e', m) /\ forall b, tev e = Ok b -> tev e' = Ok b.
  Proof.
    intros e Hwf. unfold simplify_test, simplify_test_fuel.
    destruct (remove_parens_test e) as [x1 m1] eqn:H1.
    destruct (remove_negate_test x1) as [x2 m2] eqn:H2.
    pose proof (rpt_size e) as S1. rewrite H1 in S1. cbn [fst] in S1.
    pose proof (proj1 (rnt_size x1)) as S2. rewrite H2 in S2. cbn [fst] in S2.
    destruct (walk_test_total (tsize e) x2) as [[x3 m3] Hx]; [lia|].
    rewrite Hx. exists x3, (m1 || m2 || m3). split; [reflexivity|].
    pose proof (rpt_wf e Hwf) as W1. rewrite H1 in W1. cbn [fst] in W1.
    pose proof (rnt_wf x1 W1) as W2. rewrite H2 in W2. cbn [fst] in W2.
    intros b Hb. apply (walk_test_sound _ _ _ _ Hx W2).
    pose proof (rnt_equiv x1) as P2. rewrite H2 in P2. apply P2.
    pose proof (rpt_equiv e) as P1. rewrite H1 in P1. apply P1. exact Hb.
  Qed.
End TestProofs.


(* ---------------------------------------------------------------- subshells *)

Definition walk_stmts (f : nat) : list stmt -> option (list stmt * bool) :=
  fix go (l : list stmt) : option (list stmt * bool) :=
    match l with
    | [] => Some ([], false)
    | St p c' :: r =>
        match walk_cmd f c', go r with
        | Some (c2, m2), Some (r2, m3) => Some (St p c2 :: r2, m2 || m3)
        | _, _ => None
        end
    end.

Lemma walk_cmd_sub : forall f ss,
  walk_cmd (S f) (CSub ss) =
  let (ss1, m1) := inline_subshell ss in
  match walk_stmts f ss1 with
  | Some (ss2, m2) => Some (CSub ss2, m1 || m2)
  | None => None
  end.
Proof. reflexivity. Qed.

Lemma csize_sub : forall ss, csize (CSub ss) = S (ssize ss).
Proof. reflexivity. Qed.
Lemma ssize_cons : forall p c r, ssize (St p c :: r) = S (csize c + ssize r).
Proof. reflexivity. Qed.

Lemma csize_pos : forall c, (1 <= csize c)%nat.
Proof. destruct c; cbn; lia. Qed.

(* inline_inner by size induction *)
Lemma inline_inner_size : forall n c r, (csize c <= n)%nat -> inline_inner c = Some r -> (ssize r < csize c)%nat.
Proof.
  induction n as [|n IH]; intros c r Hs H; [pose proof (csize_pos c); lia|].
  destruct c as [inner|id]; [|discriminate].
  cbn [inline_inner] in H. inversion H. clear H. rewrite csize_sub in *.
  destruct inner as [|[[|] c'] [|q rest]]; try lia.
  destruct (inline_inner c') as [r'|] eqn:E; [|lia].
  rewrite ssize_cons in *.
  assert (ssize r' < csize c')%nat by (eapply IH; eauto; lia). lia.
Qed.

Lemma inline_subshell_size : forall ss,
  (ssize (fst (inline_subshell ss)) <= ssize ss)%nat /\
  (snd (inline_subshell ss) = true -> (ssize (fst (inline_subshell ss)) < ssize ss)%nat) /\
  (snd (inline_subshell ss) = false -> fst (inline_subshell ss) = ss).
Proof.
  intros ss. unfold inline_subshell.
  destruct ss as [|[[|] c] [|q rest]]; cbn [fst snd]; try (repeat split; intros; auto; try lia; discriminate).
  destruct (inline_inner c) as [r|] eqn:E; cbn [fst snd]; try (repeat split; auto; try lia; discriminate).
  pose proof (inline_inner_size _ _ _ (le_n _) E) as S. rewrite ssize_cons. cbn [ssize] in *.
  repeat split; intros; try lia; try discriminate.
Qed.

Lemma walk_cmd_size : forall f c c' m, walk_cmd f c = Some (c', m) -> (csize c' <= csize c)%nat.
Proof.
  induction f as [|f IH]; intros c c' m H; [discriminate|].
  destruct c as [ss|id]; [|cbn in H; inversion H; lia].
  rewrite walk_cmd_sub in H.
  destruct (inline_subshell ss) as [ss1 m1] eqn:H1.
  destruct (walk_stmts f ss1) as [[ss2 m2]|] eqn:H2; [|discriminate]. inversion H. subst c' m.
  pose proof (proj1 (inline_subshell_size ss)) as S1. rewrite H1 in S1. cbn [fst] in S1.
  rewrite !csize_sub.
  assert (ssize ss2 <= ssize ss1)%nat; [|lia].
  clear H H1 S1. revert ss2 m2 H2. induction ss1 as [|[p c1] r IHr]; intros ss2 m2 H2.
  - cbn in H2. inversion H2. lia.
  - cbn [walk_stmts] in H2. fold (walk_stmts f) in H2.
    destruct (walk_cmd f c1) as [[c2 mc]|] eqn:Hc; [|discriminate].
    destruct (walk_stmts f r) as [[r2 mr]|] eqn:Hr; [|discriminate].
    inversion H2. subst. rewrite !ssize_cons. apply IH in Hc. specialize (IHr _ _ eq_refl). lia.
Qed.

Lemma walk_stmts_size : forall f l l' m, walk_stmts f l = Some (l', m) -> (ssize l' <= ssize l)%nat.
Proof.
  intros f. induction l as [|[p c1] r IHr]; intros l' m H.
  - cbn in H. inversion H. lia.
  - cbn [walk_stmts] in H. fold (walk_stmts f) in H.
    destruct (walk_cmd f c1) as [[c2 mc]|] eqn:Hc; [|discriminate].
    destruct (walk_stmts f r) as [[r2 mr]|] eqn:Hr; [|discriminate].
    inversion H. subst. rewrite !ssize_cons. apply walk_cmd_size in Hc. specialize (IHr _ _ eq_refl). lia.
Qed.

Lemma ssize_neq : forall a b, (ssize a < ssize b)%nat -> a <> b.
Proof. intros a b H E. subst. lia. Qed.

Lemma walk_cmd_mod : forall f c c' m, walk_cmd f c = Some (c', m) -> mod_spec c c' m.
Proof.
  induction f as [|f IH]; intros c c' m H; [discriminate|].
  destruct c as [ss|id]; [|cbn in H; inversion H; split; [reflexivity|discriminate]].
  rewrite walk_cmd_sub in H.
  destruct (inline_subshell ss) as [ss1 m1] eqn:H1.
  destruct (walk_stmts f ss1) as [[ss2 m2]|] eqn:H2; [|discriminate]. inversion H. subst c' m. clear H.
  assert (L : mod_spec ss1 ss2 m2).
  { clear H1. revert ss2 m2 H2. induction ss1 as [|[p c1] r IHr]; intros ss2 m2 H2.
    - cbn in H2. inversion H2. split; [reflexivity|discriminate].
    - cbn [walk_stmts] in H2. fold (walk_stmts f) in H2.
      destruct (walk_cmd f c1) as [[c2 mc]|] eqn:Hc; [|discriminate].
      destruct (walk_stmts f r) as [[r2 mr]|] eqn:Hr; [|discriminate].
      inversion H2. subst ss2 m2.
      destruct (IH _ _ _ Hc) as [Cf Ct]. destruct (IHr _ _ eq_refl) as [Rf Rt].
      split; intros Hm.
      + destruct mc, mr; try discriminate. f_equal; [f_equal|]; auto.
      + intros E. inversion E. destruct mc; [apply Ct; auto|]. destruct mr; [apply Rt; auto|]. discriminate. }
  destruct L as [Lf Lt].
  pose proof (inline_subshell_size ss) as (S & St' & Sf). rewrite H1 in S, St', Sf. cbn [fst snd] in *.
  pose proof (walk_stmts_size _ _ _ _ H2) as S2.
  destruct m1.
  - split; [discriminate|]. intros _ E. inversion E. specialize (St' eq_refl). subst ss2. lia.
  - rewrite (Sf eq_refl) in *. cbn [orb].
    split; intros Hm; [f_equal; auto|]. intros E. inversion E. apply Lt; auto.
Qed.

Lemma walk_cmd_total : forall f c, (csize c <= f)%nat -> exists r, walk_cmd f c = Some r.
Proof.
  induction f as [|f IH]; intros c Hs; [pose proof (csize_pos c); lia|].
  destruct c as [ss|id]; [|cbn; eauto].
  rewrite walk_cmd_sub. rewrite csize_sub in Hs.
  destruct (inline_subshell ss) as [ss1 m1] eqn:H1.
  pose proof (proj1 (inline_subshell_size ss)) as S1. rewrite H1 in S1. cbn [fst] in S1.
  assert (exists r, walk_stmts f ss1 = Some r) as [[ss2 m2] E].
  { assert (Hb : (ssize ss1 <= f)%nat) by lia. clear H1 S1 Hs.
    induction ss1 as [|[p c1] r IHr]; [cbn; eauto|].
    rewrite ssize_cons in Hb. cbn [walk_stmts]. fold (walk_stmts f).
    destruct (IH c1) as [[c2 mc] Hc]; [lia|]. destruct IHr as [[r2 mr] Hr]; [lia|].
    rewrite Hc, Hr. eauto. }
  rewrite E. eauto.
Qed.

Theorem simplify_cmd_mod : forall c c' m, simplify_cmd c = Some (c', m) -> (m = true <-> c' <> c).
Proof.
  intros c c' m H. destruct (walk_cmd_mod _ _ _ _ H) as [Hf Ht]. split; [exact Ht|].
  intros Hne. destruct m; [reflexivity|]. exfalso. apply Hne. auto.
Qed.

Section CmdProofs.
  Variable State : Type.
  Variable run_other : N -> State -> State * str * Z.
  Variable modify : State -> State * str * Z -> State * str * Z.
  Variable set_status : State -> Z -> State.

  Notation sem := (sem_cmd State run_other modify set_status).

  Fixpoint sem_stmts (l : list stmt) (s0 : State) : State * str * Z :=
    match l with
    | [] => (s0, [], 0%Z)
    | St p c' :: r =>
        let '(s1, o1, z1) := if p then sem c' s0 else modify s0 (sem c' s0) in
        match r with
        | [] => (s1, o1, z1)
        | _ => let '(s2, o2, z2) := sem_stmts r (set_status s1 z1) in (s2, o1 ++ o2, z2)
        end
    end.

  Definition subrun (l : list stmt) (s : State) : State * str * Z :=
    let '(_, o, z) := sem_stmts l s in (s, o, z).

  Lemma sem_sub : forall ss s, sem (CSub ss) s = subrun ss s.
  Proof. reflexivity. Qed.

  Lemma sem_stmts_single : forall c s, sem_stmts [St true c] s = sem c s.
  Proof. intros c s. cbn [sem_stmts]. destruct (sem c s) as [[s1 o1] z1]. reflexivity. Qed.

  Lemma inline_inner_sound : forall n c r, (csize c <= n)%nat -> inline_inner c = Some r ->
    forall s, sem c s = subrun r s.
  Proof.
    induction n as [|n IH]; intros c r Hs H s; [pose proof (csize_pos c); lia|].
    destruct c as [inner|id]; [|discriminate].
    cbn [inline_inner] in H. inversion H. clear H. rewrite csize_sub in Hs.
    destruct inner as [|[[|] c'] [|q rest]]; try apply sem_sub.
    destruct (inline_inner c') as [r'|] eqn:E; [|apply sem_sub].
    rewrite sem_sub. unfold subrun at 1. rewrite sem_stmts_single.
    rewrite ssize_cons in Hs. rewrite (IH c' r'); [|lia|exact E].
    unfold subrun. destruct (sem_stmts r' s) as [[s1 o1] z1]. reflexivity.
  Qed.

  Lemma inline_subshell_sound : forall ss s, subrun (fst (inline_subshell ss)) s = subrun ss s.
  Proof.
    intros ss s. unfold inline_subshell.
    destruct ss as [|[[|] c] [|q rest]]; try reflexivity.
    destruct (inline_inner c) as [r|] eqn:E; try reflexivity. cbn [fst].
    unfold subrun at 2. rewrite sem_stmts_single.
    rewrite (inline_inner_sound _ _ _ (le_n _) E). unfold subrun.
    destruct (sem_stmts r s) as [[s1 o1] z1]. reflexivity.
  Qed.

  Lemma walk_cmd_sound : forall f c c' m, walk_cmd f c = Some (c', m) -> forall s, sem c' s = sem c s.
  Proof.
    induction f as [|f IH]; intros c c' m H s; [discriminate|].
    destruct c as [ss|id]; [|cbn in H; inversion H; reflexivity].
    rewrite walk_cmd_sub in H.
    destruct (inline_subshell ss) as [ss1 m1] eqn:H1.
    destruct (walk_stmts f ss1) as [[ss2 m2]|] eqn:H2; [|discriminate]. inversion H. subst c' m. clear H.
    rewrite !sem_sub.
    pose proof (inline_subshell_sound ss s) as P. rewrite H1 in P. cbn [fst] in P. rewrite <- P.
    assert (L : forall s0, sem_stmts ss2 s0 = sem_stmts ss1 s0).
    { clear H1 P. revert ss2 m2 H2. induction ss1 as [|[p c1] r IHr]; intros ss2 m2 H2 s0.
      - cbn in H2. inversion H2. reflexivity.
      - cbn [walk_stmts] in H2. fold (walk_stmts f) in H2.
        destruct (walk_cmd f c1) as [[c2 mc]|] eqn:Hc; [|discriminate].
        destruct (walk_stmts f r) as [[r2 mr]|] eqn:Hr; [|discriminate].
        inversion H2. subst ss2 m2.
        pose proof (IH _ _ _ Hc) as Ec. specialize (IHr _ _ eq_refl).
        cbn [sem_stmts].
        rewrite (Ec s0).
        destruct (if p then sem c1 s0 else modify s0 (sem c1 s0)) as [[s1 o1] z1].
        destruct r as [|q r'].
        + cbn in Hr. inversion Hr. reflexivity.
        + assert (r2 <> []).
          { destruct q as [pq cq]. cbn [walk_stmts] in Hr. fold (walk_stmts f) in Hr.
            destruct (walk_cmd f cq) as [[? ?]|]; [|discriminate].
            destruct (walk_stmts f r') as [[? ?]|]; [|discriminate]. inversion Hr. discriminate. }
          destruct r2 as [|q2 r2']; [contradiction|].
          rewrite (IHr (set_status s1 z1)). reflexivity. }
    unfold subrun. rewrite L. reflexivity.
  Qed.

  Theorem simplify_cmd_sound : forall c,
    exists c' m, simplify_cmd c = Some (c', m) /\ forall s, sem c' s = sem c s.
  Proof.
    intros c. destruct (walk_cmd_total (csize c) c (le_n _)) as [[c' m] H].
    exists c', m. split; [exact H|]. eapply walk_cmd_sound; eauto.
  Qed.
End CmdProofs.

Theorem simplify_word_mod_iff : forall w, snd (simplify_word w) = true <-> fst (simplify_word w) <> w.
Proof.
  intros w. destruct (simplify_word_mod w) as [Hf Ht]. split; [exact Ht|].
  intros Hne. destruct (snd (simplify_word w)); [reflexivity|]. exfalso. apply Hne. auto.
Qed.


(* ------------------------------------------------ a concrete decimal itoa / atoi *)

Fixpoint uint_to_str (u : Decimal.uint) : str :=
  match u with
  | Nil => []
  | D0 r => 48 :: uint_to_str r | D1 r => 49 :: uint_to_str r | D2 r => 50 :: uint_to_str r
  | D3 r => 51 :: uint_to_str r | D4 r => 52 :: uint_to_str r | D5 r => 53 :: uint_to_str r
  | D6 r => 54 :: uint_to_str r | D7 r => 55 :: uint_to_str r | D8 r => 56 :: uint_to_str r
  | D9 r => 57 :: uint_to_str r
  end.
Fixpoint str_to_uint (s : str) : Decimal.uint :=
  match s with
  | [] => Nil
  | c :: r =>
      let u := str_to_uint r in
      if c =? 48 then D0 u else if c =? 49 then D1 u else if c =? 50 then D2 u else if c =? 51 then D3 u
      else if c =? 52 then D4 u else if c =? 53 then D5 u else if c =? 54 then D6 u else if c =? 55 then D7 u
      else if c =? 56 then D8 u else if c =? 57 then D9 u else Nil
  end.
Definition itoa_dec (z : Z) : str :=
  match Z.to_int z with
  | Decimal.Pos u => uint_to_str u
  | Decimal.Neg u => 45 :: uint_to_str u
  end.
Definition atoi_dec (s : str) : Z :=
  match s with
  | 45 :: t => Z.of_int (Decimal.Neg (str_to_uint t))
  | _ => Z.of_int (Decimal.Pos (str_to_uint s))
  end.

Lemma str_to_uint_to_str : forall u, str_to_uint (uint_to_str u) = u.
Proof. induction u; cbn; congruence. Qed.

Lemma uint_to_str_head : forall u, match uint_to_str u with 45 :: _ => False | _ => True end.
Proof. destruct u; cbn; exact I. Qed.

Lemma atoi_itoa_dec : forall z, atoi_dec (itoa_dec z) = z.
Proof.
  intros z. unfold itoa_dec. destruct (Z.to_int z) as [u|u] eqn:E.
  - unfold atoi_dec. pose proof (uint_to_str_head u) as H.
    destruct (uint_to_str u) as [|c r] eqn:Eu.
    + rewrite <- Eu, str_to_uint_to_str, <- E. apply DecimalZ.of_to.
    + assert (Hc : c <> 45) by (intros ->; exact H).
      replace (match c :: r with 45 :: t => Z.of_int (Decimal.Neg (str_to_uint t)) | _ => Z.of_int (Decimal.Pos (str_to_uint (c :: r))) end)
        with (Z.of_int (Decimal.Pos (str_to_uint (c :: r)))).
      * rewrite <- Eu, str_to_uint_to_str, <- E. apply DecimalZ.of_to.
      * clear -Hc. destruct c as [|p]; [reflexivity|].
        do 6 (destruct p as [p|p|]; try reflexivity). exfalso; apply Hc; reflexivity.
  - unfold atoi_dec. rewrite str_to_uint_to_str, <- E. apply DecimalZ.of_to.
Qed.

Lemma itoa_dec_not_name : forall z, valid_name (itoa_dec z) = false.
Proof.
  intros z. unfold itoa_dec. destruct (Z.to_int z) as [u|u]; [|reflexivity].
  destruct u; reflexivity.
Qed.
