(* Proofs/SimplifyProofs.v — proofs about Syntax/Simplify.v *)
From Verif Require Import Base.Str Syntax.Simplify.
From Coq Require Import ZifyN ZifyNat ZifyBool.
Open Scope N_scope.

Lemma placeholder_true : True.
Proof. exact I. Qed.
