(* Proofs/MiniLex.v — lexing layer of the level-S round trip: next_token, iterated over the
   SingleLine rendering of a well-formed tree, yields exactly the token list of the tree. *)
From Verif Require Import Base.Str Syntax.Word Syntax.MiniAst Syntax.MiniPrinter Syntax.MiniParser
  Proofs.WordProofs Proofs.MiniRender.
Require Import ZifyN ZifyBool.
Open Scope N_scope.

Inductive yields : str -> list tok -> str -> Prop :=
| y_nil s : yields s [] s
| y_cons s t s1 ts s2 : next_token s = Some (t, s1) -> yields s1 ts s2 -> yields s (t :: ts) s2.

Lemma yields_app : forall s ts1 s1 ts2 s2,
  yields s ts1 s1 -> yields s1 ts2 s2 -> yields s (ts1 ++ ts2) s2.
Proof. induction 1; intros; simpl; [assumption|econstructor; eauto]. Qed.

Lemma yields_one : forall s t s1, next_token s = Some (t, s1) -> yields s [t] s1.
Proof. intros. econstructor; [eassumption|constructor]. Qed.

Lemma next_token_sp : forall s, next_token (32 :: s) = next_token s.
Proof. reflexivity. Qed.

Lemma yields_sp : forall s ts s', ts <> [] -> yields s ts s' -> yields (s_sp ++ s) ts s'.
Proof.
  intros s ts s' Hne H. destruct H; [congruence|].
  econstructor; [|eassumption]. unfold s_sp. cbn [app]. rewrite next_token_sp. assumption.
Qed.

(* ------------------------------------------------------------------ token lists *)
Definition K (v : str) : tok := TWord [Lit v].
Definition t_op (op : binop) : tok :=
  match op with AndStmt => TAndAnd | OrStmt => TOrOr | Pipe => TPipe end.
Definition t_term (ss : stmts) : list tok := if last_bg ss then [] else [TSemi].

Fixpoint t_cmd (c : cmd) : list tok :=
  match c with
  | Call args => map TWord args
  | Block ss => K kw_lbrace :: t_stmts ss ++ t_term ss ++ [K kw_rbrace]
  | Subshell ss => TLparen :: t_stmts ss ++ [TRparen]
  | IfClause c t e => K kw_if :: t_stmts c ++ t_term c ++ K kw_then :: t_stmts t ++ t_term t ++ t_else e
  | WhileClause u c b =>
      K (if u then kw_until else kw_while) :: t_stmts c ++ t_term c ++ K kw_do :: t_stmts b ++ t_term b ++ [K kw_done]
  | Binary op x y => t_stmt x ++ t_op op :: t_stmt y
  end
with t_stmt (s : stmt) : list tok :=
  match s with
  | Stmt n c b => (if n then [K kw_bang] else []) ++ t_cmd c ++ (if b then [TAmp] else [])
  end
with t_stmts (ss : stmts) : list tok :=
  match ss with
  | SNil => []
  | SCons s rest =>
      t_stmt s ++ match rest with SNil => [] | _ => (if stmt_bg s then [] else [TSemi]) ++ t_stmts rest end
  end
with t_else (e : else_) : list tok :=
  match e with
  | NoElse => [K kw_fi]
  | Elif c t e' => K kw_elif :: t_stmts c ++ t_term c ++ K kw_then :: t_stmts t ++ t_term t ++ t_else e'
  | Else t => K kw_else :: t_stmts t ++ t_term t ++ [K kw_fi]
  end.

(* ------------------------------------------------------------------ single tokens *)

(* the byte after a rendered piece: blank, newline, `)` or `;` *)
Definition delim_tail (tail : str) : Prop :=
  match tail with
  | c :: _ => c = 32 \/ c = 10 \/ c = 41 \/ c = 59
  | [] => False
  end.

Lemma delim_tail_sp : forall s, delim_tail (s_sp ++ s).
Proof. intros. simpl. auto. Qed.

(* first byte of a printed statement-level word *)
Definition word_start (c : N) : Prop :=
  c <> 32 /\ c <> 9 /\ c <> 10 /\ c <> 59 /\ c <> 38 /\ c <> 124 /\ c <> 40 /\ c <> 41 /\
  c <> 60 /\ c <> 62 /\ c <> 35 /\ c <> 13.

Lemma print_lit_lone_odd : forall v, wf_lit_body v -> print_lit (v ++ [BS]) <> v ++ [BS].
Proof.
  intros v H E. rewrite (print_lit_lone v H) in E.
  apply (f_equal (@length N)) in E. rewrite !app_length in E. simpl in E. lia.
Qed.

Lemma sword_first : forall w, wf_sword w ->
  exists c t, print_word false w = c :: t /\ word_start c.
Proof.
  intros w (Hw & Hc & Hr & Hne & Hn).
  destruct w as [|[v|b v|b ps|s n] w]; [congruence| | | |].
  - inversion Hw; subst.
    + cbn [print_word]. rewrite print_lit_body by assumption.
      destruct v as [|c v]; [congruence|]. exists c, (v ++ print_word false w). split; [reflexivity|].
      simpl in Hc, Hr.
      match goal with Hb : wf_lit_body (c :: v) |- _ => inversion Hb; subst end.
      * match goal with Hs : lit_stop c = false |- _ =>
          destruct (lit_stop_false c Hs) as (A & _) end.
        unfold word_break in A. unfold word_start. lia.
      * unfold word_start, BS. lia.
    + exfalso. cbn [norm_word] in Hn. inversion Hn as [H1]. unfold norm_lit in H1.
      eapply print_lit_lone_odd; eauto.
  - destruct b; simpl; eexists _, _; (split; [reflexivity|]); unfold word_start, DOL, SQ; lia.
  - destruct b; simpl; eexists _, _; (split; [reflexivity|]); unfold word_start, DOL, DQ; lia.
  - cbn [print_word]. unfold print_param. destruct (eff_short false s n (lit_cont w));
      simpl; eexists _, _; (split; [reflexivity|]); unfold word_start, DOL; lia.
Qed.

Lemma delim_tail_word_delim : forall d rest, delim_tail (d :: rest) -> word_delim d = true.
Proof. intros d rest H. simpl in H. unfold word_delim. lia. Qed.

Lemma skip_blanks_start : forall c t, c <> 32 -> c <> 9 -> skip_blanks (c :: t) = c :: t.
Proof.
  intros c t H1 H2. simpl.
  replace (c =? 32) with false by lia. replace (c =? 9) with false by lia. reflexivity.
Qed.

Lemma next_token_word : forall w tail, wf_sword w -> delim_tail tail ->
  next_token (print_word false w ++ tail) = Some (TWord w, tail).
Proof.
  intros w tail Hs Ht. destruct tail as [|d rest]; [contradiction|].
  pose proof (delim_tail_word_delim d rest Ht) as Hd.
  destruct (sword_first w Hs) as (c & t & E & Hc).
  destruct Hs as (Hw & Hcs & Hr & Hne & Hn).
  pose proof (word_roundtrip false w d rest Hw Hcs Hd) as RT. rewrite Hn in RT.
  unfold next_token. rewrite E in *. cbn [app] in *.
  unfold word_start in Hc.
  rewrite skip_blanks_start by lia.
  replace (c =? 10) with false by lia. replace (c =? 59) with false by lia.
  replace (c =? 38) with false by lia. replace (c =? 124) with false by lia.
  replace (c =? 40) with false by lia. replace (c =? 41) with false by lia.
  replace (c =? 60) with false by lia. replace (c =? 62) with false by lia.
  replace (c =? 35) with false by lia. replace (c =? 13) with false by lia.
  cbn [orb]. rewrite RT.
  destruct w as [|p w']; [congruence|].
  simpl in Ht.
  replace (d =? 40) with false by lia. replace (d =? 60) with false by lia.
  replace (d =? 62) with false by lia. reflexivity.
Qed.

(* keywords are statement-level words *)
Lemma plain_body : forall v, forallb (fun c => negb (lit_stop c) && negb (c =? BS)) v = true -> wf_lit_body v.
Proof.
  induction v as [|c v IH]; intros H; [constructor|].
  simpl in H. apply andb_prop in H. destruct H as (H1 & H2). apply andb_prop in H1. destruct H1 as (H1 & H3).
  constructor; [destruct (lit_stop c); [discriminate|reflexivity] | lia | auto].
Qed.

Definition plain_kw (v : str) : bool :=
  match v with
  | c :: _ => forallb (fun c => negb (lit_stop c) && negb (c =? BS)) v && negb (c =? 35) && negb (c =? 13)
              && negb (odd_trailing_bs v)
  | [] => false
  end.

Lemma plain_kw_inv : forall v, plain_kw v = true ->
  exists c t, v = c :: t /\ forallb (fun c => negb (lit_stop c) && negb (c =? BS)) v = true /\
              c <> 35 /\ c <> 13 /\ odd_trailing_bs v = false.
Proof.
  intros [|c t] H; [discriminate|]. unfold plain_kw in H.
  apply andb_prop in H. destruct H as (H & H4).
  apply andb_prop in H. destruct H as (H & H3).
  apply andb_prop in H. destruct H as (H1 & H2).
  exists c, t. split; [reflexivity|]. split; [assumption|]. split; [lia|]. split; [lia|].
  destruct (odd_trailing_bs (c :: t)); [discriminate|reflexivity].
Qed.

Lemma kw_sword : forall v, plain_kw v = true -> wf_sword [Lit v].
Proof.
  intros v H. destruct (plain_kw_inv v H) as (c & t & -> & Hb & H35 & H13 & Ho).
  repeat split.
  - constructor; [discriminate | apply plain_body; assumption | exact I | constructor].
  - simpl. assumption.
  - simpl. assumption.
  - discriminate.
  - cbn [norm_word]. unfold norm_lit, print_lit. rewrite Ho. reflexivity.
Qed.

Lemma next_token_kw : forall v tail, plain_kw v = true -> delim_tail tail ->
  next_token (v ++ tail) = Some (K v, tail).
Proof.
  intros v tail H Ht.
  pose proof (next_token_word [Lit v] tail (kw_sword v H) Ht) as E.
  cbn [print_word] in E. rewrite app_nil_r in E.
  destruct (plain_kw_inv v H) as (c & t & Ev & _ & _ & _ & Ho).
  unfold print_lit in E. rewrite Ho in E. exact E.
Qed.

Lemma yields_kw : forall v tail, plain_kw v = true -> delim_tail tail -> yields (v ++ tail) [K v] tail.
Proof. intros. apply yields_one. apply next_token_kw; assumption. Qed.

(* operators *)
Lemma next_semi_sp : forall s, next_token (s_semi ++ s_sp ++ s) = Some (TSemi, s_sp ++ s).
Proof. reflexivity. Qed.
Lemma next_amp : forall tail, delim_tail tail -> next_token (s_amp ++ tail) = Some (TAmp, tail).
Proof.
  intros [|d rest] H; [contradiction|]. simpl in H. unfold next_token. simpl.
  replace (d =? 38) with false by lia. replace (d =? 62) with false by lia.
  replace (d =? 124) with false by lia. replace (d =? 33) with false by lia. reflexivity.
Qed.
Lemma next_op : forall op s, next_token (op_string op ++ s_sp ++ s) = Some (t_op op, s_sp ++ s).
Proof. intros [] s; reflexivity. Qed.
Lemma next_rparen : forall s, next_token (s_rparen ++ s) = Some (TRparen, s).
Proof. reflexivity. Qed.
Lemma next_lparen : forall c s, c <> 40 -> next_token (s_lparen ++ c :: s) = Some (TLparen, c :: s).
Proof.
  intros c s H. unfold next_token. simpl. replace (c =? 40) with false by lia. reflexivity.
Qed.

(* ------------------------------------------------------------------ words of a call *)
Lemma yields_words : forall ws tail, Forall wf_sword ws -> delim_tail tail ->
  yields (r_words ws ++ tail) (map TWord ws) tail.
Proof.
  induction ws as [|w rest IH]; intros tail Hf Ht.
  - constructor.
  - inversion Hf as [|? ? Hw Hr]; subst. cbn [r_words map].
    destruct rest as [|w2 rest'].
    + rewrite app_nil_r. apply yields_one. apply next_token_word; assumption.
    + rewrite <- !app_assoc. econstructor.
      * apply next_token_word; [assumption|apply delim_tail_sp].
      * apply yields_sp; [discriminate|]. apply IH; assumption.
Qed.

(* ------------------------------------------------------------------ first bytes *)
(* a rendered statement starts with `(` exactly when startsWithLparen says so *)
Definition first_is (c : N) (s : str) : Prop := match s with d :: _ => d = c | [] => False end.
Definition first_not (c : N) (s : str) : Prop := match s with d :: _ => d <> c | [] => False end.

Lemma first_not_app : forall c a b, first_not c a -> first_not c (a ++ b).
Proof. intros c [|d a] b H; [contradiction|exact H]. Qed.

Lemma r_words_first : forall ws, ws <> [] -> Forall wf_sword ws -> first_not 40 (r_words ws).
Proof.
  intros [|w rest] Hne Hf; [congruence|]. inversion Hf; subst.
  destruct (sword_first w) as (c & t & E & Hc); [assumption|].
  cbn [r_words]. rewrite E. simpl. unfold word_start in Hc. lia.
Qed.

Lemma starts_first :
  (forall c, wf_cmd c -> starts_lparen_cmd c = false -> first_not 40 (r_cmd c)) /\
  (forall s, wf_stmt s -> starts_lparen s = false -> first_not 40 (r_stmt s)) /\
  (forall ss : stmts, True) /\ (forall e : else_, True).
Proof.
  apply mini_mutind; try (intros; exact I).
  - intros args (Hf & Hw) _. cbn. destruct args as [|w r]; [contradiction|].
    apply r_words_first; [discriminate|assumption].
  - intros. cbn. lia.
  - intros ss _ _ H. discriminate.
  - intros. cbn. lia.
  - intros u. intros. cbn. destruct u; simpl; lia.
  - intros op x IHx y IHy (Wx & _) H. destruct x as [nx cx bx].
    cbn [starts_lparen_cmd] in H. cbn [r_cmd].
    apply first_not_app. apply IHx; [assumption|exact H].
  - intros n c IHc b (Wc & _) H. unfold starts_lparen in H. cbn [stmt_cmd] in H.
    cbn [r_stmt]. destruct n.
    + cbn. lia.
    + cbn [app]. apply first_not_app. apply IHc; assumption.
Qed.

(* ------------------------------------------------------------------ the lexing theorem *)
Definition starts_sp (s : str) : Prop := exists t, s = 32 :: t.

Lemma starts_sp_app : forall a b, starts_sp a -> starts_sp (a ++ b).
Proof. intros a b (t & ->). exists (t ++ b). reflexivity. Qed.
Lemma starts_sp_sp : forall s, starts_sp (s_sp ++ s).
Proof. intros s. exists s. reflexivity. Qed.
Lemma starts_sp_delim : forall s, starts_sp s -> delim_tail s.
Proof. intros s (t & ->). simpl. auto. Qed.

Lemma r_else_sp : forall e, starts_sp (r_else e).
Proof. intros []; cbn [r_else]; apply starts_sp_sp. Qed.

Lemma t_nonempty :
  (forall c, wf_cmd c -> t_cmd c <> []) /\ (forall s, wf_stmt s -> t_stmt s <> []) /\
  (forall ss, wf_stmts ss -> ss <> SNil -> t_stmts ss <> []) /\ (forall e : else_, t_else e <> []).
Proof.
  apply mini_mutind; try (intros; cbn; discriminate).
  - intros [|w r] (Hf & Hw); [contradiction|cbn; discriminate].
  - intros op x IHx y IHy _. cbn. destruct (t_stmt x); discriminate.
  - intros n c IHc b (Wc & _). cbn. specialize (IHc Wc).
    destruct n; [discriminate|]. cbn. destruct (t_cmd c); [congruence|discriminate].
  - intros _ H. congruence.
  - intros s IHs rest _ (Ws & _) _. cbn. specialize (IHs Ws). destruct (t_stmt s); [congruence|discriminate].
Qed.

Definition L_cmd (c : cmd) : Prop := wf_cmd c -> forall tail, delim_tail tail ->
  yields (r_cmd c ++ tail) (t_cmd c) tail.
Definition L_stmt (s : stmt) : Prop := wf_stmt s -> forall tail, delim_tail tail ->
  yields (r_stmt s ++ tail) (t_stmt s) tail.
Definition L_stmts (ss : stmts) : Prop := wf_stmts ss -> ss <> SNil -> forall tail, delim_tail tail ->
  yields (r_stmts ss ++ tail) (t_stmts ss) tail.
Definition L_else (e : else_) : Prop := wf_else e -> forall tail, delim_tail tail ->
  yields (r_else e ++ tail) (t_else e) tail.

(* a list followed by its terminator and a blank *)
Lemma list_term : forall ss, L_stmts ss -> wf_stmts ss -> ss <> SNil -> forall tail, starts_sp tail ->
  yields (r_stmts ss ++ term ss ++ tail) (t_stmts ss ++ t_term ss) tail.
Proof.
  intros ss IH Hwf Hne tail (t & ->). unfold term, t_term. destruct (last_bg ss).
  - cbn [app]. rewrite app_nil_r. apply IH; auto. simpl. auto.
  - eapply yields_app.
    + apply IH; auto. simpl. auto.
    + apply yields_one. reflexivity.
Qed.

Lemma yields_sp' : forall s ts s', ts <> [] -> yields s ts s' -> yields (32 :: s) ts s'.
Proof. intros. apply (yields_sp s ts s'); assumption. Qed.

Ltac kw := first [reflexivity | apply delim_tail_sp | assumption].

Theorem lexing :
  (forall c, L_cmd c) /\ (forall s, L_stmt s) /\ (forall ss, L_stmts ss) /\ (forall e, L_else e).
Proof.
  destruct t_nonempty as (NEc & NEs & NEss & NEe).
  apply mini_mutind.
  - (* Call *) intros args (Hf & _) tail Ht. cbn [r_cmd t_cmd]. apply yields_words; assumption.
  - (* Block *)
    intros ss IH (Hne & Hwf) tail Ht. cbn [r_cmd t_cmd]. rewrite <- !app_assoc.
    econstructor; [apply next_token_kw; kw|].
    apply yields_sp; [intro E; apply app_eq_nil in E; destruct E as (E & _); exact (NEss ss Hwf Hne E)|].
    rewrite (app_assoc (t_stmts _)). eapply yields_app.
    + apply list_term; auto. apply starts_sp_sp.
    + apply yields_sp; [discriminate|]. apply yields_kw; kw.
  - (* Subshell *)
    intros ss IH (Hne & Hwf) tail Ht. cbn [r_cmd t_cmd]. rewrite <- !app_assoc.
    destruct ss as [|s0 rest]; [congruence|].
    assert (Y : forall pre, yields (pre ++ (if single_ends_rparen (SCons s0 rest) then s_sp else []) ++ s_rparen ++ tail)
                               [TRparen] tail -> True) by auto.
    assert (Z : yields ((if single_ends_rparen (SCons s0 rest) then s_sp else []) ++ s_rparen ++ tail) [TRparen] tail).
    { destruct (single_ends_rparen (SCons s0 rest)).
      - apply yields_sp; [discriminate|]. apply yields_one. reflexivity.
      - apply yields_one. reflexivity. }
    assert (D : delim_tail ((if single_ends_rparen (SCons s0 rest) then s_sp else []) ++ s_rparen ++ tail)).
    { destruct (single_ends_rparen (SCons s0 rest)); simpl; auto. }
    pose proof (IH Hwf Hne _ D) as B.
    assert (NE : t_stmts (SCons s0 rest) ++ [TRparen] <> []).
    { intro E. apply app_eq_nil in E. destruct E; discriminate. }
    unfold first_starts_lparen. destruct (starts_lparen s0) eqn:SL.
    + econstructor; [reflexivity|]. apply yields_sp; [exact NE|]. eapply yields_app; eassumption.
    + destruct starts_first as (_ & SF & _). destruct Hwf as (W0 & Wr).
      pose proof (SF s0 W0 SL) as F.
      cbn [app].
      assert (F2 : first_not 40 (r_stmts (SCons s0 rest) ++
                    (if single_ends_rparen (SCons s0 rest) then s_sp else []) ++ s_rparen ++ tail)).
      { apply first_not_app. cbn [r_stmts]. apply first_not_app. exact F. }
      destruct (r_stmts (SCons s0 rest) ++
                (if single_ends_rparen (SCons s0 rest) then s_sp else []) ++ s_rparen ++ tail) as [|d X] eqn:EX;
        [contradiction|].
      econstructor; [apply next_lparen; exact F2|]. eapply yields_app; eassumption.
  - (* IfClause *)
    intros cond IHc thn IHt els IHe (Hc & Ht & Wc & Wt & We) tail Htl. cbn [r_cmd t_cmd]. rewrite <- !app_assoc.
    econstructor; [apply next_token_kw; kw|].
    apply yields_sp; [intro E; apply app_eq_nil in E; destruct E as (E & _); exact (NEss cond Wc Hc E)|].
    rewrite (app_assoc (t_stmts _)). eapply yields_app; [apply list_term; auto; apply starts_sp_sp|].
    apply yields_sp; [discriminate|].
    econstructor; [apply next_token_kw; kw|].
    apply yields_sp; [intro E; apply app_eq_nil in E; destruct E as (E & _); exact (NEss thn Wt Ht E)|].
    rewrite (app_assoc (t_stmts _)). eapply yields_app; [apply list_term; auto; apply starts_sp_app, r_else_sp|].
    apply IHe; assumption.
  - (* WhileClause *)
    intros u cond IHc body IHb (Hc & Hb & Wc & Wb) tail Htl. cbn [r_cmd t_cmd]. rewrite <- !app_assoc.
    econstructor; [apply next_token_kw; [destruct u; reflexivity|kw]|].
    apply yields_sp; [intro E; apply app_eq_nil in E; destruct E as (E & _); exact (NEss cond Wc Hc E)|].
    rewrite (app_assoc (t_stmts _)). eapply yields_app; [apply list_term; auto; apply starts_sp_sp|].
    apply yields_sp; [discriminate|].
    econstructor; [apply next_token_kw; kw|].
    apply yields_sp; [intro E; apply app_eq_nil in E; destruct E as (E & _); exact (NEss body Wb Hb E)|].
    rewrite (app_assoc (t_stmts _)). eapply yields_app; [apply list_term; auto; apply starts_sp_sp|].
    apply yields_sp; [discriminate|]. apply yields_kw; kw.
  - (* Binary *)
    intros op x IHx y IHy (Wx & Wy & _) tail Htl. cbn [r_cmd t_cmd]. rewrite <- !app_assoc.
    eapply yields_app; [apply IHx; [assumption|apply delim_tail_sp]|].
    apply yields_sp; [discriminate|].
    econstructor; [apply next_op|].
    apply yields_sp; [apply NEs; assumption|]. apply IHy; assumption.
  - (* Stmt *)
    intros n c IHc b (Wc & _) tail Htl. cbn [r_stmt t_stmt]. rewrite <- !app_assoc.
    assert (Y : yields (r_cmd c ++ (if b then s_sp ++ s_amp else []) ++ tail)
                       (t_cmd c ++ (if b then [TAmp] else [])) tail).
    { destruct b.
      - eapply yields_app; [apply IHc; [assumption|apply delim_tail_sp]|].
        rewrite <- app_assoc. apply yields_sp; [discriminate|]. apply yields_one. apply next_amp. assumption.
      - cbn [app]. rewrite app_nil_r. apply IHc; assumption. }
    destruct n.
    + rewrite <- app_assoc. cbn [app].
      econstructor; [apply (next_token_kw kw_bang); kw|].
      apply yields_sp; [|exact Y].
      intro E. apply app_eq_nil in E. destruct E as (E & _). exact (NEc c Wc E).
    + exact Y.
  - (* SNil *) intros _ H. congruence.
  - (* SCons *)
    intros s IHs rest IHr (Ws & Wr) _ tail Htl. cbn [r_stmts t_stmts].
    destruct rest as [|s1 rest'].
    + rewrite !app_nil_r. apply IHs; assumption.
    + rewrite <- !app_assoc.
      assert (Y : yields (s_sp ++ r_stmts (SCons s1 rest') ++ tail) (t_stmts (SCons s1 rest')) tail).
      { apply yields_sp; [apply NEss; [assumption|discriminate]|]. apply IHr; [assumption|discriminate|assumption]. }
      destruct (stmt_bg s).
      * cbn [app]. eapply yields_app; [apply IHs; [assumption|apply delim_tail_sp]|exact Y].
      * eapply yields_app; [apply IHs; [assumption|simpl; auto]|].
        econstructor; [apply next_semi_sp|exact Y].
  - (* NoElse *)
    intros _ tail Htl. cbn [r_else t_else]. rewrite <- !app_assoc.
    apply yields_sp; [discriminate|]. apply yields_kw; kw.
  - (* Elif *)
    intros cond IHc thn IHt els IHe (Hc & Ht & Wc & Wt & We) tail Htl. cbn [r_else t_else]. rewrite <- !app_assoc.
    apply yields_sp; [discriminate|].
    econstructor; [apply next_token_kw; kw|].
    apply yields_sp; [intro E; apply app_eq_nil in E; destruct E as (E & _); exact (NEss cond Wc Hc E)|].
    rewrite (app_assoc (t_stmts _)). eapply yields_app; [apply list_term; auto; apply starts_sp_sp|].
    apply yields_sp; [discriminate|].
    econstructor; [apply next_token_kw; kw|].
    apply yields_sp; [intro E; apply app_eq_nil in E; destruct E as (E & _); exact (NEss thn Wt Ht E)|].
    rewrite (app_assoc (t_stmts _)). eapply yields_app; [apply list_term; auto; apply starts_sp_app, r_else_sp|].
    apply IHe; assumption.
  - (* Else *)
    intros thn IHt (Ht & Wt) tail Htl. cbn [r_else t_else]. rewrite <- !app_assoc.
    apply yields_sp; [discriminate|].
    econstructor; [apply next_token_kw; kw|].
    apply yields_sp; [intro E; apply app_eq_nil in E; destruct E as (E & _); exact (NEss thn Wt Ht E)|].
    rewrite (app_assoc (t_stmts _)). eapply yields_app; [apply list_term; auto; apply starts_sp_sp|].
    apply yields_sp; [discriminate|]. apply yields_kw; kw.
Qed.
