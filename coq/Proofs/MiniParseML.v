(* Proofs/MiniParseML.v — parsing layer for the default (multi-line) layout: on an input whose tokens
   are the newline-token list u_* of a well-formed tree the parser returns that tree (the
   leading-newline path of p_stmts, lists closed by TNewl + keyword, inline one-statement conditions).
   The command / pipeline / and-or claims are those of MiniParse.v restated over u_*. *)
From Verif Require Import Base.Str Syntax.Word Syntax.MiniAst Syntax.MiniPrinter Syntax.MiniParser
  Proofs.MiniRender Proofs.MiniLex Proofs.MiniParse Proofs.MiniLexML.
Require Import ZifyN ZifyBool ZifyNat.
Open Scope N_scope.

Lemma first_tokens_u :
  (forall c, wf_cmd c -> exists t ts, u_cmd c = t :: ts /\
     (if is_andor c then stmt_start t else cmd_start t) = true) /\
  (forall x, wf_stmt x -> exists t ts, u_stmt x = t :: ts /\
     (if stmt_neg x then is_rsrv t kw_bang
      else if is_andor (stmt_cmd x) then stmt_start t else cmd_start t) = true) /\
  (forall ss : stmts, True) /\ (forall e : else_, True).
Proof.
  apply mini_mutind; try (intros; exact I).
  - intros [|w r] (Hf & Hw); [contradiction|]. exists (TWord w), (map TWord r). split; [reflexivity|].
    cbn [is_andor cmd_start]. unfold first_word_ok in Hw.
    destruct w as [|[v| | |] [|p w]]; try reflexivity.
    apply andb_prop in Hw. destruct Hw as (Hw & _). rewrite Hw. reflexivity.
  - intros. eexists _, _. split; reflexivity.
  - intros. eexists _, _. split; reflexivity.
  - intros. eexists _, _. split; reflexivity.
  - intros u. intros. eexists _, _. split; [reflexivity|]. destruct u; reflexivity.
  - intros op x IHx y IHy (Wx & Wy & Bx & By & Hop).
    destruct (IHx Wx) as (t & ts & E & H). cbn [u_cmd]. rewrite E. cbn [app].
    exists t, (ts ++ t_op op :: u_stmt y). split; [reflexivity|].
    unfold stmt_start in *.
    destruct op; cbn [is_andor].
    + destruct (stmt_neg x); [rewrite H; apply orb_true_r|].
      destruct (is_andor (stmt_cmd x)); [exact H|rewrite H; reflexivity].
    + destruct (stmt_neg x); [rewrite H; apply orb_true_r|].
      destruct (is_andor (stmt_cmd x)); [exact H|rewrite H; reflexivity].
    + destruct Hop as (Nx & _ & Ax & _). rewrite Nx, Ax in H. exact H.
  - intros n c IHc b (Wc & Hn). destruct (IHc Wc) as (t & ts & E & H).
    cbn [u_stmt stmt_neg stmt_cmd]. destruct n.
    + eexists _, _. split; [reflexivity|]. reflexivity.
    + cbn [app]. rewrite E. cbn [app]. eexists _, _. split; [reflexivity|]. exact H.
Qed.

Lemma stmt_first_u : forall x, wf_stmt x -> exists t ts, u_stmt x = t :: ts /\ stmt_start t = true.
Proof.
  intros x W. destruct first_tokens_u as (_ & F & _). destruct (F x W) as (t & ts & E & H).
  exists t, ts. split; [exact E|]. unfold stmt_start in *.
  destruct (stmt_neg x); [rewrite H; apply orb_true_r|].
  destruct (is_andor (stmt_cmd x)); [exact H|rewrite H; reflexivity].
Qed.

Lemma cmd_first_u : forall c, wf_cmd c -> is_andor c = false ->
  exists t ts, u_cmd c = t :: ts /\ cmd_start t = true.
Proof.
  intros c W A. destruct first_tokens_u as (F & _). destruct (F c W) as (t & ts & E & H).
  rewrite A in H. eauto.
Qed.


Definition uA (c : cmd) : Prop := is_binary c = false -> wf_cmd c ->
  forall f insub s s', yields s (u_cmd c) s' -> follows s' (term_tok insub) -> (sz_cmd c <= f)%nat ->
  p_cmd f insub s = Some (c, s').

Definition uB (c : cmd) : Prop := is_andor c = false -> wf_cmd c ->
  forall g f insub s s', yields s (u_cmd c) s' -> follows s' (term_tok insub) -> (sz_cmd c + g <= f)%nat ->
  exists f', (g <= f')%nat /\ pipe_from f insub s = p_pipe_loop f' insub c s'.

Definition uC (x : stmt) : Prop := stmt_bg x = false -> wf_stmt x ->
  forall g f insub s s', yields s (u_stmt x) s' -> follows s' (np insub) -> (sz_stmt x + g <= S f)%nat ->
  exists f', (g <= f')%nat /\ andor_from f insub s = p_andor f' insub false x s'.

Definition uD (y : stmt) : Prop := stmt_bg y = false -> is_andor (stmt_cmd y) = false -> wf_stmt y ->
  forall f insub s s', yields s (u_stmt y) s' -> follows s' (np insub) -> (sz_stmt y <= f)%nat ->
  p_stmt f insub false true s = Some (y, false, s').

Definition uE (x : stmt) : Prop := wf_stmt x ->
  forall f insub semi s s',
  yields s (u_stmt x ++ (if semi && negb (stmt_bg x) then [TSemi] else [])) s' ->
  (semi || stmt_bg x = false -> follows s' (end_tok insub)) -> (sz_stmt x <= f)%nat ->
  p_stmt f insub true false s = Some (x, semi || stmt_bg x, s').


Definition uL (ss : stmts) : Prop := wf_stmts ss ->
  forall f stops insub gotEnd s s', stops_ok stops = true ->
  yields s (u_lines ss) s' ->
  (exists tstop s2, next_token (skip_newl s') = Some (tstop, s2) /\ stops_at stops insub tstop = true) ->
  (ss <> SNil -> follows s' (end_tok insub)) -> (sz_list ss <= f)%nat ->
  p_stmts f stops insub gotEnd s = Some (ss, skip_newl s').

(* a condition: between if / elif / while and then / do *)
Definition uCond (ss : stmts) : Prop := wf_stmts ss -> ss <> SNil ->
  forall stops f insub s1 mk kw m2, stops_ok stops = true ->
  yields s1 (u_cond ss) mk -> next_token mk = Some (K kw, m2) -> stops_at stops insub (K kw) = true ->
  (sz_list ss <= f)%nat ->
  lead_semi s1 = false /\ nonempty (p_stmts f stops insub true s1) = Some (ss, mk).

Definition uEl (e : else_) : Prop := wf_else e ->
  forall f insub s s', yields s (tl (u_else e)) s' -> (sz_else e <= f)%nat ->
  p_else f insub s = Some (e, s').

Lemma head_ok_u : forall n c, uB c -> is_andor c = false -> wf_cmd c ->
  forall f insub s s', yields s (u_stmt (Stmt n c false)) s' -> follows s' (np insub) ->
  (sz_cmd c + 2 <= f)%nat -> p_head f insub s = Some (Stmt n c false, s').
Proof.
  intros n c HB HA W f insub s s' Y F Hf.
  destruct (cmd_first_u c W HA) as (t & ts & E & Hs).
  destruct (cmd_start_facts t Hs) as (S1 & S2 & S3).
  cbn [u_stmt] in Y. rewrite app_nil_r in Y.
  assert (PP : forall s0, yields s0 (u_cmd c) s' -> p_pipe f insub n s0 = Some (Stmt n c false, s')).
  { intros s0 Y0. destruct f as [|f0]; [lia|]. rewrite p_pipe_S'.
    destruct (HB HA W 0%nat f0 insub s0 s' Y0) as (f' & _ & EQ);
      [eapply follows_weaken; [apply np_term|exact F] | lia |].
    rewrite EQ. destruct F as (tf & sf & Ef & Hf2). unfold np in Hf2. apply andb_prop in Hf2.
    destruct Hf2 as (_ & Hp). rewrite (p_pipe_loop_exit f' insub c s' tf sf Ef); [reflexivity|].
    destruct (is_pipe tf); [discriminate|reflexivity]. }
  unfold p_head. destruct n.
  - cbn [app] in Y. apply yields_cons_inv in Y. destruct Y as (s1 & E1 & Y).
    rewrite E1. change (is_rsrv (K kw_bang) kw_bang) with true. cbv zeta. cbn [andb].
    pose proof Y as Y2. rewrite E in Y2. apply yields_cons_inv in Y2. destruct Y2 as (s2 & E2 & _).
    rewrite E2, S1, S2. cbn [orb]. apply PP. exact Y.
  - cbn [app] in Y. pose proof Y as Y2. rewrite E in Y2. apply yields_cons_inv in Y2.
    destruct Y2 as (s2 & E2 & _). rewrite E2, S2. cbv zeta. rewrite E2. cbn [andb]. apply PP. exact Y.
Qed.


Lemma body_ok_u : forall ss, uL ss -> wf_stmts ss -> ss <> SNil ->
  forall stops f insub s1 m m1 tstop m2, stops_ok stops = true ->
  yields s1 (u_lines ss) m -> next_token m = Some (TNewl, m1) -> next_token m1 = Some (tstop, m2) ->
  stops_at stops insub tstop = true -> (sz_list ss <= f)%nat ->
  lead_semi s1 = false /\ nonempty (p_stmts f stops insub true s1) = Some (ss, m1).
Proof.
  intros ss HL W Hne stops f insub s1 m m1 tstop m2 Hs Y E1 E2 Hst Hf.
  assert (SK : skip_newl m = m1) by (unfold skip_newl; rewrite E1; reflexivity).
  split.
  - destruct ss as [|x rest]; [congruence|]. cbn [u_lines] in Y. apply yields_cons_inv in Y.
    destruct Y as (sx & Ex & _). unfold lead_semi. rewrite Ex. reflexivity.
  - rewrite (HL W f stops insub true s1 m Hs Y); auto.
    + rewrite SK. destruct ss; [congruence|reflexivity].
    + rewrite SK. eauto.
    + intros _. exists TNewl, m1. auto.
Qed.

Lemma u_else_cons : forall e, exists tk ts,
  u_else e = TNewl :: K tk :: ts /\ tl (u_else e) = K tk :: ts /\ In tk [kw_fi; kw_elif; kw_else].
Proof. intros []; cbn [u_else tl]; eexists _, _; (split; [reflexivity|split; [reflexivity|simpl; auto]]). Qed.

Definition UQ_cmd (c : cmd) : Prop :=
  uA c /\ uB c /\ match c with Binary _ x y => uC x /\ uD y | _ => True end.
Definition UQ_stmt (x : stmt) : Prop :=
  uA (stmt_cmd x) /\ uB (stmt_cmd x) /\ uC x /\ uD x /\ uE x.

Lemma B_of_A_u : forall c, is_binary c = false -> uA c -> uB c.
Proof.
  intros c Hb HA _ W g f insub s s' Y F Hf. exists f. split; [lia|].
  unfold pipe_from. rewrite (HA Hb W f insub s s' Y F); [reflexivity|lia].
Qed.


Ltac bodyu ss IH W Hne stops f insub s1 m m1 tstop s2 :=
  let BO := fresh "BO" in
  assert (BO : lead_semi s1 = false /\ nonempty (p_stmts f stops insub true s1) = Some (ss, m1));
  [ apply (body_ok_u ss IH W Hne stops f insub s1 m m1 tstop s2);
    try reflexivity; try assumption; try discriminate; try lia
  | let LS := fresh "LS" in let NE := fresh "NE" in destruct BO as (LS & NE); rewrite LS, NE ].

Ltac condu ss IH W Hne stops f insub s1 mk kw m2 :=
  let BO := fresh "BO" in
  assert (BO : lead_semi s1 = false /\ nonempty (p_stmts f stops insub true s1) = Some (ss, mk));
  [ apply (IH W Hne stops f insub s1 mk kw m2);
    try reflexivity; try assumption; try discriminate; try lia
  | let LS := fresh "LS" in let NE := fresh "NE" in destruct BO as (LS & NE); rewrite LS, NE ].

Theorem parsing_ml :
  (forall c, UQ_cmd c) /\ (forall x, UQ_stmt x) /\ (forall ss, uL ss /\ uCond ss) /\ (forall e, uEl e).
Proof.
  apply mini_mutind.
  - (* Call *)
    intros args.
    assert (HA : uA (Call args)).
    { intros _ (Hf & Hw) f insub s s' Y F Hsz. destruct args as [|w rest]; [contradiction|].
      cbn [u_cmd map] in Y. next_kw Y s1 E.
      cbn [sz_cmd length] in Hsz. destruct f as [|f]; [lia|].
      pose proof (args_ok insub rest f s1 s' Y F) as PA.
      cbn [p_cmd]. rewrite E. unfold first_word_ok in Hw.
      destruct w as [|[v|d v|d ps|sh nm] [|p2 w2]]; cbn [word_assign];
        try (rewrite PA by lia; reflexivity).
      + apply andb_prop in Hw. destruct Hw as (H1 & H2).
        destruct (is_reserved v) eqn:R; [discriminate|].
        destruct (assign_prefix v) eqn:AP; [discriminate|].
        destruct (not_reserved_kw v R) as (K1 & K2 & K3 & K4).
        rewrite K1, K2, K3, K4. cbn [orb]. rewrite PA by lia. reflexivity.
      + destruct (assign_prefix v); [discriminate|]. rewrite PA by lia. reflexivity. }
    split; [exact HA|]. split; [apply B_of_A_u; [reflexivity|exact HA]|exact I].
  - (* Block *)
    intros ss (IH & _).
    assert (HA : uA (Block ss)).
    { intros _ (Hne & W) f insub s s' Y F Hsz.
      cbn [u_cmd] in Y. next_kw Y s1 E. apply yields_app_inv in Y. destruct Y as (m & Ym & Y).
      next_kw Y m1 E1. next_kw Y s2 E2. apply yields_nil_inv in Y. subst s2.
      cbn [sz_cmd] in Hsz. destruct f as [|f]; [lia|].
      cbn [p_cmd]. rewrite E. unfold K. cbn beta iota. kwred. cbn beta iota.
      bodyu ss IH W Hne [kw_rbrace] f insub s1 m m1 (K kw_rbrace) s'.
      rewrite (expect_ok _ _ _ E2). reflexivity. }
    split; [exact HA|]. split; [apply B_of_A_u; [reflexivity|exact HA]|exact I].
  - (* Subshell *)
    intros ss (IH & _).
    assert (HA : uA (Subshell ss)).
    { intros _ (Hne & W) f insub s s' Y F Hsz.
      cbn [u_cmd] in Y. next_kw Y s1 E. apply yields_app_inv in Y. destruct Y as (m & Ym & Y).
      next_kw Y m1 E1. next_kw Y s2 E2. apply yields_nil_inv in Y. subst s2.
      cbn [sz_cmd] in Hsz. destruct f as [|f]; [lia|].
      cbn [p_cmd]. rewrite E. cbn beta iota.
      bodyu ss IH W Hne (@nil str) f true s1 m m1 TRparen s'.
      rewrite E2. reflexivity. }
    split; [exact HA|]. split; [apply B_of_A_u; [reflexivity|exact HA]|exact I].
  - (* IfClause *)
    intros cond (_ & IHc) thn (IHt & _) els IHe.
    assert (HA : uA (IfClause cond thn els)).
    { intros _ (Hc & Ht & Wc & Wt & We) f insub s s' Y F Hsz.
      cbn [u_cmd] in Y. next_kw Y s1 E.
      apply yields_app_inv in Y. destruct Y as (mk & Yc & Y). next_kw Y s2 E2.
      apply yields_app_inv in Y. destruct Y as (m & Yt & Y).
      destruct (u_else_cons els) as (tk & tks & EU & ET & Hin). rewrite EU in Y.
      next_kw Y m1 E3. pose proof Y as Y4. next_kw Y4 s4 E4. rewrite <- ET in Y.
      assert (STK : stops_at [kw_fi; kw_elif; kw_else] insub (K tk) = true)
        by (destruct Hin as [<-|[<-|[<-|[]]]]; reflexivity).
      cbn [sz_cmd] in Hsz. destruct f as [|f]; [lia|].
      cbn [p_cmd]. rewrite E. unfold K. cbn beta iota. kwred. cbn beta iota.
      condu cond IHc Wc Hc [kw_then] f insub s1 mk kw_then s2.
      rewrite (expect_ok _ _ _ E2).
      bodyu thn IHt Wt Ht [kw_fi; kw_elif; kw_else] f insub s2 m m1 (K tk) s4.
      rewrite (IHe We f insub m1 s' Y); [reflexivity|lia]. }
    split; [exact HA|]. split; [apply B_of_A_u; [reflexivity|exact HA]|exact I].
  - (* WhileClause *)
    intros u cond (_ & IHc) bdy (IHb & _).
    assert (HA : uA (WhileClause u cond bdy)).
    { intros _ (Hc & Hb & Wc & Wb) f insub s s' Y F Hsz.
      cbn [u_cmd] in Y. next_kw Y s1 E.
      apply yields_app_inv in Y. destruct Y as (mk & Yc & Y). next_kw Y s2 E2.
      apply yields_app_inv in Y. destruct Y as (m & Yb & Y).
      next_kw Y m1 E3. next_kw Y s4 E4. apply yields_nil_inv in Y. subst s4.
      cbn [sz_cmd] in Hsz. destruct f as [|f]; [lia|].
      cbn [p_cmd]. rewrite E. unfold K.
      destruct u; cbn beta iota; kwred; cbn [orb]; cbn beta iota.
      all: condu cond IHc Wc Hc [kw_do] f insub s1 mk kw_do s2.
      all: rewrite (expect_ok _ _ _ E2).
      all: bodyu bdy IHb Wb Hb [kw_done] f insub s2 m m1 (K kw_done) s'.
      all: rewrite (expect_ok _ _ _ E4); reflexivity. }
    split; [exact HA|]. split; [apply B_of_A_u; [reflexivity|exact HA]|exact I].
  - (* Binary *)
    intros op x IHx y IHy.
    destruct IHx as (Ax & Bx & Cx & Dx & Ex). destruct IHy as (Ay & By & Cy & Dy & Ey).
    split; [intros H; discriminate|]. split; [|split; assumption].
    intros HAO (Wx & Wy & BGx & BGy & Hop) g f insub s s' Y F Hsz.
    destruct op; try discriminate.
    destruct Hop as (Nx & Ny & AOx & BIy).
    destruct x as [nx cx bx], y as [ny cy byy]. cbn [stmt_neg stmt_bg stmt_cmd] in *. subst nx ny bx byy.
    cbn [u_cmd u_stmt app] in Y. rewrite !app_nil_r in Y.
    apply yields_app_inv in Y. destruct Y as (m & Ym & Y). next_kw Y m2 E.
    cbn [sz_cmd sz_stmt] in Hsz.
    destruct Wx as (Wcx & _), Wy as (Wcy & _).
    destruct (Bx AOx Wcx (g + sz_cmd cy + 1)%nat f insub s m Ym) as (f1 & Hf1 & EQ);
      [exists TPipe, m2; auto | lia |].
    rewrite EQ. destruct f1 as [|f2]; [lia|].
    rewrite (p_pipe_loop_step f2 insub cx m m2 E).
    destruct (cmd_first_u cy Wcy) as (t & ts & Et & Hst); [destruct cy; try reflexivity; discriminate|].
    destruct (cmd_start_facts t Hst) as (_ & _ & Hnl).
    pose proof Y as Y2. rewrite Et in Y2. next_kw Y2 m3 E3.
    rewrite (skip_newl_id m2 t m3 E3 Hnl).
    rewrite (Ay BIy Wcy f2 insub m2 s' Y F); [|lia].
    exists f2. split; [lia|reflexivity].
  - (* Stmt *)
    intros n c IHc b. destruct IHc as (Ac & Bc & Rc).
    assert (HC : uC (Stmt n c false)).
    { intros _ (Wc & Hn) g f insub s s' Y F Hsz. cbn [sz_stmt] in Hsz.
      destruct (is_andor c) eqn:AO.
      - (* an && / || list: not negated *)
        destruct c as [| | | | |op x y]; try discriminate.
        assert (n = false) by (destruct n; [specialize (Hn eq_refl); discriminate|reflexivity]). subst n.
        destruct Rc as (Cx & Dy).
        destruct Wc as (Wx & Wy & BGx & BGy & Hop).
        assert (AOy : is_andor (stmt_cmd y) = false) by (destruct op; [exact Hop|exact Hop|discriminate]).
        cbn [u_stmt u_cmd app] in Y. rewrite app_nil_r in Y.
        apply yields_app_inv in Y. destruct Y as (m & Ym & Y). next_kw Y m2 E.
        cbn [sz_cmd] in Hsz.
        destruct (Cx BGx Wx (g + sz_stmt y + 1)%nat f insub s m Ym) as (f1 & Hf1 & EQ);
          [exists (t_op op), m2; split; [exact E|destruct op; try reflexivity; discriminate] | lia |].
        rewrite EQ. destruct f1 as [|f2]; [lia|].
        rewrite (p_andor_step f2 insub x m (t_op op) m2 E); [|destruct op; try reflexivity; discriminate].
        destruct (stmt_first_u y Wy) as (t & ts & Et & Hst).
        pose proof Y as Y2. rewrite Et in Y2. next_kw Y2 m3 E3.
        rewrite (skip_newl_id m2 t m3 E3 (stmt_start_not_newl t Hst)).
        rewrite (Dy BGy AOy Wy f2 insub m2 s' Y F); [|lia].
        exists f2. split; [lia|]. destruct op; try discriminate; reflexivity.
      - exists f. split; [lia|]. unfold andor_from.
        rewrite (head_ok_u n c Bc AO Wc f insub s s' Y F); [reflexivity|lia]. }
    assert (HD : uD (Stmt n c false)).
    { intros _ AO (Wc & Hn) f insub s s' Y F Hsz. cbn [stmt_cmd] in AO. cbn [sz_stmt] in Hsz.
      destruct f as [|f]; [lia|]. rewrite p_stmt_S.
      rewrite (head_ok_u n c Bc AO Wc f insub s s' Y F); [|lia].
      destruct F as (tf & sf & Ef & _).
      rewrite (p_andor_exit f insub true (Stmt n c false) s' tf sf Ef); [reflexivity|auto]. }
    split; [exact Ac|]. split; [exact Bc|].
    split; [destruct b; [intros Hb; discriminate|exact HC]|].
    split; [destruct b; [intros Hb; discriminate|exact HD]|].
    (* uE *)
    intros (Wc & Hn) f insub semi s s' Y F Hsz. cbn [stmt_bg] in *. cbn [sz_stmt] in Hsz.
    destruct f as [|f]; [lia|]. rewrite p_stmt_S.
    assert (T : u_stmt (Stmt n c b) = u_stmt (Stmt n c false) ++ (if b then [TAmp] else [])).
    { cbn [u_stmt]. rewrite app_nil_r. rewrite app_assoc. reflexivity. }
    rewrite T in Y. rewrite <- app_assoc in Y.
    apply yields_app_inv in Y. destruct Y as (m & Ym & Y).
    (* what follows the statement proper *)
    assert (FM : exists tm sm, next_token m = Some (tm, sm) /\ np insub tm = true /\ is_andor_tok tm = false /\
                 (if b then tm = TAmp /\ sm = s'
                  else if semi then tm = TSemi /\ sm = s'
                  else m = s' /\ end_tok insub tm = true)).
    { destruct b.
      - rewrite andb_false_r in Y. simpl in Y. next_kw Y sm Em. apply yields_nil_inv in Y. subst sm.
        exists TAmp, s'. repeat split; auto.
      - rewrite andb_true_r in Y. destruct semi; simpl in Y.
        + next_kw Y sm Em. apply yields_nil_inv in Y. subst sm. exists TSemi, s'. repeat split; auto.
        + apply yields_nil_inv in Y. subst m. destruct (F eq_refl) as (tm & sm & Em & Hm).
          exists tm, sm. split; [exact Em|]. destruct tm; try discriminate; cbn in Hm; subst; repeat split; auto. }
    destruct FM as (tm & sm & Em & Hnp & Hao & Hcase).
    destruct (HC eq_refl (conj Wc Hn) 0%nat f insub s m Ym) as (f' & _ & EQ);
      [exists tm, sm; auto | cbn [sz_stmt]; lia |].
    unfold andor_from in EQ.
    destruct (p_head f insub s) as [[st s3]|] eqn:PH.
    + rewrite EQ. rewrite (p_andor_exit f' insub false (Stmt n c false) m tm sm Em); [|auto].
      rewrite Em. destruct b.
      * destruct Hcase as (-> & ->). rewrite orb_true_r. reflexivity.
      * destruct semi.
        -- destruct Hcase as (-> & ->). reflexivity.
        -- destruct Hcase as (-> & He). destruct tm; try discriminate; reflexivity.
    + rewrite (p_andor_exit f' insub false (Stmt n c false) m tm sm Em) in EQ; [discriminate|auto].
  - (* SNil *)
    split.
    + intros _ f stops insub gotEnd s s' Hs Y (tstop & s2 & Es & Hst) _ Hsz.
      apply yields_nil_inv in Y. subst s'. cbn [sz_list] in Hsz. destruct f as [|f]; [lia|].
      cbn [p_stmts]. rewrite Es, Hst. reflexivity.
    + intros _ H. congruence.
  - (* SCons *)
    intros x IHx rest (IHr & _). destruct IHx as (_ & _ & _ & _ & Ex).
    assert (HL : uL (SCons x rest)).
    { intros (Wx & Wr) f stops insub gotEnd s s' Hs Y Hstop Hfin Hsz.
      cbn [u_lines] in Y. next_kw Y s1 E0. apply yields_app_inv in Y. destruct Y as (m & Ym & Y).
      cbn [sz_list] in Hsz. destruct f as [|f]; [lia|].
      destruct (stmt_first_u x Wx) as (t & ts & Et & Hst).
      pose proof Ym as Y2. rewrite Et in Y2. next_kw Y2 sx Ex2.
      cbn [p_stmts]. cbv zeta. unfold got_newl, skip_newl. rewrite E0. cbn beta iota. rewrite Ex2.
      rewrite (stmt_start_not_stop stops insub t Hs Hst). cbn [negb andb].
      rewrite (Ex Wx f insub false s1 m); [| | |lia].
      - rewrite (IHr Wr f stops insub (false || stmt_bg x) m s' Hs Y); auto; [|lia].
        intros Hne. apply Hfin. discriminate.
      - cbn [andb]. rewrite app_nil_r. exact Ym.
      - intros _. destruct rest as [|r1 rr].
        + apply yields_nil_inv in Y. subst m. apply Hfin. discriminate.
        + cbn [u_lines] in Y. apply yields_cons_inv in Y. destruct Y as (sy & Ey & _). exists TNewl, sy. auto. }
    split; [exact HL|].
    intros (Wx & Wr) _ stops f insub s1 mk kw m2 Hs Y Ek Hst Hsz. cbn [u_cond] in Y.
    destruct rest as [|r1 rr].
    + (* one statement, inline, closed by `;` or `&` *)
      cbn [sz_list] in Hsz. destruct f as [|f]; [lia|].
      destruct (stmt_first_u x Wx) as (t & ts & Et & Hstt).
      pose proof Y as Y2. rewrite Et in Y2. cbn [app] in Y2. next_kw Y2 sx Ex2.
      pose proof (stmt_start_not_newl t Hstt) as Hnl.
      split; [unfold lead_semi; rewrite Ex2; destruct t; try reflexivity; discriminate|].
      cbn [p_stmts]. rewrite (got_newl_no s1 t sx Ex2 Hnl), (skip_newl_id s1 t sx Ex2 Hnl), Ex2.
      rewrite (stmt_start_not_stop stops insub t Hs Hstt). cbn [negb andb].
      rewrite (Ex Wx f insub true s1 mk); [| | |lia].
      * destruct f as [|f]; [lia|]. cbn [p_stmts].
        rewrite (got_newl_no mk (K kw) m2 Ek (K_not_newl kw)), (skip_newl_id mk (K kw) m2 Ek (K_not_newl kw)), Ek, Hst.
        reflexivity.
      * cbn [andb]. destruct (stmt_bg x); exact Y.
      * intros H. destruct (stmt_bg x); discriminate.
    + (* several statements on their own lines *)
      apply yields_app_inv in Y. destruct Y as (m & Ym & Y). next_kw Y m1 E1. apply yields_nil_inv in Y. subst m1.
      apply (body_ok_u (SCons x (SCons r1 rr)) HL (conj Wx Wr) ltac:(discriminate) stops f insub s1 m mk (K kw) m2); auto.
  - (* NoElse *)
    intros _ f insub s s' Y Hsz. cbn [u_else tl] in Y. next_kw Y s1 E. apply yields_nil_inv in Y. subst s1.
    destruct f as [|f]; [cbn [sz_else] in Hsz; lia|]. cbn [p_else]. rewrite E. unfold K. cbn [is_rsrv]. kwred. reflexivity.
  - (* Elif *)
    intros cond (_ & IHc) thn (IHt & _) els IHe (Hc & Ht & Wc & Wt & We) f insub s s' Y Hsz.
    cbn [u_else tl] in Y. next_kw Y s1 E.
    apply yields_app_inv in Y. destruct Y as (mk & Yc & Y). next_kw Y s2 E2.
    apply yields_app_inv in Y. destruct Y as (m & Yt & Y).
    destruct (u_else_cons els) as (tk & tks & EU & ET & Hin). rewrite EU in Y.
    next_kw Y m1 E3. pose proof Y as Y4. next_kw Y4 s4 E4. rewrite <- ET in Y.
    assert (STK : stops_at [kw_fi; kw_elif; kw_else] insub (K tk) = true)
      by (destruct Hin as [<-|[<-|[<-|[]]]]; reflexivity).
    cbn [sz_else] in Hsz. destruct f as [|f]; [lia|].
    cbn [p_else]. rewrite E. unfold K. cbn [is_rsrv]. kwred.
    condu cond IHc Wc Hc [kw_then] f insub s1 mk kw_then s2.
    rewrite (expect_ok _ _ _ E2).
    bodyu thn IHt Wt Ht [kw_fi; kw_elif; kw_else] f insub s2 m m1 (K tk) s4.
    rewrite (IHe We f insub m1 s' Y); [reflexivity|lia].
  - (* Else *)
    intros thn (IHt & _) (Ht & Wt) f insub s s' Y Hsz.
    cbn [u_else tl] in Y. next_kw Y s1 E. apply yields_app_inv in Y. destruct Y as (m & Ym & Y).
    next_kw Y m1 E1. next_kw Y s2 E2. apply yields_nil_inv in Y. subst s2.
    cbn [sz_else] in Hsz. destruct f as [|f]; [lia|].
    cbn [p_else]. rewrite E. unfold K. cbn [is_rsrv]. kwred.
    bodyu thn IHt Wt Ht [kw_fi] f insub s1 m m1 (K kw_fi) s'.
    rewrite (expect_ok _ _ _ E2). reflexivity.
Qed.
