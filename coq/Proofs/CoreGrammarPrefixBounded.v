(* Proofs/CoreGrammarPrefixBounded.v — exhaustive check, on all token lists up to length 4, of the two C10 clauses on the model:
   prefixes of accepted lists parse or are Incomplete; error positions lie inside the (normalised) input. *)
From Verif Require Import Base.Str Syntax.CoreGrammar Proofs.CoreGrammarBounded.
From Coq Require Import Lia.

(* every token-boundary prefix of an accepted token list parses or fails Incomplete *)
Definition prefixes_ok (posix : bool) (ts : list token) : bool :=
  forallb (fun k => let res := parse_core posix (firstn k ts) in accepted res || incomplete res) (seq 0 (S (length ts))).

Definition prefix_upto (n : nat) (posix : bool) : bool :=
  forallb (fun k => forallb (fun ts => negb (accepted (parse_core posix ts)) || prefixes_ok posix ts) (lists_n k)) (seq 0 (S n)).

Lemma prefix_upto4_bash : prefix_upto 4 false = true.
Proof. vm_compute. reflexivity. Qed.
Lemma prefix_upto4_posix : prefix_upto 4 true = true.
Proof. vm_compute. reflexivity. Qed.

Lemma prefix_upto_sound : forall n posix, prefix_upto n posix = true ->
  forall ts, length ts <= n -> accepted (parse_core posix ts) = true ->
  forall k, k <= length ts ->
    accepted (parse_core posix (firstn k ts)) = true \/ incomplete (parse_core posix (firstn k ts)) = true.
Proof.
  intros n posix H ts L A k K. unfold prefix_upto in H. rewrite forallb_forall in H.
  assert (I : In (length ts) (seq 0 (S n))) by (apply in_seq; lia).
  specialize (H _ I). rewrite forallb_forall in H. specialize (H ts (lists_n_complete ts)).
  rewrite A in H. simpl in H. unfold prefixes_ok in H. rewrite forallb_forall in H.
  assert (I2 : In k (seq 0 (S (length ts)))) by (apply in_seq; lia).
  specialize (H _ I2). simpl in H. apply Bool.orb_true_iff in H. exact H.
Qed.

(* error positions: 1 <= pos <= number of (normalised) tokens, i.e. the error points at a token of the input *)
Definition pos_ok (posix : bool) (ts : list token) : bool :=
  match parse_core posix ts with
  | PErr _ p _ => Nat.leb 1 p && Nat.leb p (length (norm ts))
  | _ => true
  end.
Definition pos_upto (n : nat) (posix : bool) : bool :=
  forallb (fun k => forallb (pos_ok posix) (lists_n k)) (seq 0 (S n)).
Lemma pos_upto4_bash : pos_upto 4 false = true.
Proof. vm_compute. reflexivity. Qed.
Lemma pos_upto4_posix : pos_upto 4 true = true.
Proof. vm_compute. reflexivity. Qed.
Lemma pos_upto_sound : forall n posix, pos_upto n posix = true ->
  forall ts c p i, length ts <= n -> parse_core posix ts = PErr c p i -> 1 <= p <= length (norm ts).
Proof.
  intros n posix H ts c p i L E. unfold pos_upto in H. rewrite forallb_forall in H.
  assert (I : In (length ts) (seq 0 (S n))) by (apply in_seq; lia).
  specialize (H _ I). rewrite forallb_forall in H. specialize (H ts (lists_n_complete ts)).
  unfold pos_ok in H. rewrite E in H. apply Bool.andb_true_iff in H. destruct H as [H1 H2].
  apply Nat.leb_le in H1. apply Nat.leb_le in H2. lia.
Qed.

Lemma prefix4 : forall posix ts, length ts <= 4 ->
  accepted (parse_core posix ts) = true ->
  forall k, k <= length ts ->
    accepted (parse_core posix (firstn k ts)) = true \/ incomplete (parse_core posix (firstn k ts)) = true.
Proof.
  intros [|]; [exact (prefix_upto_sound 4 true prefix_upto4_posix) | exact (prefix_upto_sound 4 false prefix_upto4_bash)].
Qed.

Lemma pos4 : forall posix ts c p i, length ts <= 4 ->
  parse_core posix ts = PErr c p i -> 1 <= p <= length (norm ts).
Proof.
  intros [|]; [exact (pos_upto_sound 4 true pos_upto4_posix) | exact (pos_upto_sound 4 false pos_upto4_bash)].
Qed.

Lemma prefix_nonvacuous :
  accepted (parse_core false [TIf; TName; TNewl; TThen; TName; TNewl; TFi]) = true /\
  incomplete (parse_core false [TIf; TName; TNewl]) = true /\
  incomplete (parse_core false [TIf; TName; TNewl; TThen; TName; TNewl]) = true.
Proof. repeat split; reflexivity. Qed.
