(* Proofs/MiniRender.v — the SingleLine separator state machine of Syntax/MiniPrinter.v
   computes a compositional rendering: render_file.  (Proof device for MiniRoundtrip.v;
   the model that the code leg exercises is the state machine, this file shows both agree
   on every well-formed tree.) *)
From Verif Require Import Base.Str Syntax.Word Syntax.MiniAst Syntax.MiniPrinter.
Open Scope N_scope.

Definition lead (p : pst) : str := if is_required (wantSpace p) then s_sp else [].
Definition term (ss : stmts) : str := if last_bg ss then [] else s_semi.

Fixpoint r_words (ws : list word) : str :=
  match ws with
  | [] => []
  | w :: rest => print_word false w ++ match rest with [] => [] | _ => s_sp ++ r_words rest end
  end.

Definition single_ends_rparen (ss : stmts) : bool :=
  match ss with SCons s0 SNil => ends_rparen s0 | _ => false end.

Fixpoint r_cmd (c : cmd) : str :=
  match c with
  | Call args => r_words args
  | Block ss => s_lbrace ++ s_sp ++ r_stmts ss ++ term ss ++ s_sp ++ s_rbrace
  | Subshell ss =>
      s_lparen ++ (if first_starts_lparen ss then s_sp else []) ++ r_stmts ss ++
      (if single_ends_rparen ss then s_sp else []) ++ s_rparen
  | IfClause c t e =>
      kw_if ++ s_sp ++ r_stmts c ++ term c ++ s_sp ++ kw_then ++ s_sp ++ r_stmts t ++ term t ++ r_else e
  | WhileClause u c b =>
      (if u then kw_until else kw_while) ++ s_sp ++ r_stmts c ++ term c ++ s_sp ++ kw_do ++ s_sp ++
      r_stmts b ++ term b ++ s_sp ++ kw_done
  | Binary op x y => r_stmt x ++ s_sp ++ op_string op ++ s_sp ++ r_stmt y
  end
with r_stmt (s : stmt) : str :=
  match s with
  | Stmt n c b => (if n then s_bang ++ s_sp else []) ++ r_cmd c ++ (if b then s_sp ++ s_amp else [])
  end
with r_stmts (ss : stmts) : str :=
  match ss with
  | SNil => []
  | SCons s rest =>
      r_stmt s ++
      match rest with
      | SNil => []
      | _ => (if stmt_bg s then [] else s_semi) ++ s_sp ++ r_stmts rest
      end
  end
with r_else (e : else_) : str :=
  match e with
  | NoElse => s_sp ++ kw_fi
  | Elif c t e' =>
      s_sp ++ kw_elif ++ s_sp ++ r_stmts c ++ term c ++ s_sp ++ kw_then ++ s_sp ++ r_stmts t ++ term t ++ r_else e'
  | Else t => s_sp ++ kw_else ++ s_sp ++ r_stmts t ++ term t ++ s_sp ++ kw_fi
  end.

Definition render_file (t : file) : str := r_stmts t ++ s_nl.

(* ------------------------------------------------------------------ words *)
Lemma wordJoin_render : forall ws p, ws <> [] ->
  out (sl_wordJoin ws p) = out p ++ lead p ++ r_words ws /\
  wantSpace (sl_wordJoin ws p) = SpRequired /\
  wroteSemi (sl_wordJoin ws p) = wroteSemi p.
Proof.
  induction ws as [|w rest IH]; intros p Hne; [congruence|].
  cbn [sl_wordJoin r_words].
  destruct rest as [|w2 rest'].
  - destruct p as [o ws wn sm fl]. unfold spacePad, lead. simpl.
    destruct ws; simpl; rewrite <- ?app_assoc, ?app_nil_r; repeat split; reflexivity.
  - set (p1 := set_ws SpRequired (wr (print_word false w) (spacePad p))).
    destruct (IH p1) as (A & B & C); [discriminate|].
    rewrite A, B, C. split; [|split; [reflexivity|]].
    + subst p1. destruct p as [o ws wn sm fl]. unfold spacePad, lead. simpl.
      destruct ws; simpl; rewrite <- ?app_assoc; reflexivity.
    + subst p1. destruct p as [o ws wn sm fl]. unfold spacePad. simpl. destruct ws; reflexivity.
Qed.

(* ------------------------------------------------------------------ the machine *)
Definition sep_of (i0 : bool) (p : pst) : str :=
  if i0 then (if wroteSemi p then [] else s_semi) ++ s_sp else lead p.

Definition P_cmd (c : cmd) : Prop := forall p, wf_cmd c ->
  out (sl_command c p) = out p ++ lead p ++ r_cmd c /\ wantSpace (sl_command c p) = SpRequired.
Definition P_stmt (s : stmt) : Prop := forall p, wf_stmt s ->
  out (sl_stmt s p) = out p ++ lead p ++ r_stmt s /\ wantSpace (sl_stmt s p) = SpRequired /\
  wroteSemi (sl_stmt s p) = stmt_bg s.
Definition P_stmts (ss : stmts) : Prop := forall i0 p, wf_stmts ss -> ss <> SNil ->
  (i0 = true -> wantSpace p = SpRequired /\ wantNewline p = true) ->
  out (sl_stmtLoop ss i0 p) = out p ++ sep_of i0 p ++ r_stmts ss /\
  wantSpace (sl_stmtLoop ss i0 p) = SpRequired /\
  wroteSemi (sl_stmtLoop ss i0 p) = last_bg ss.
Definition P_else (e : else_) : Prop := forall p, wf_else e -> wantSpace p = SpRequired ->
  out (sl_else e p) = out p ++ (if wroteSemi p then [] else s_semi) ++ r_else e /\
  wantSpace (sl_else e p) = SpRequired.

(* nestedStmts changes wantNewline only *)
Lemma nested_render : forall ss p, P_stmts ss -> wf_stmts ss -> ss <> SNil ->
  out (nestedStmts_with sl_stmtLoop ss p) = out p ++ lead p ++ r_stmts ss /\
  wantSpace (nestedStmts_with sl_stmtLoop ss p) = SpRequired /\
  wroteSemi (nestedStmts_with sl_stmtLoop ss p) = last_bg ss.
Proof.
  intros ss p IH Hwf Hne. unfold nestedStmts_with, stmtList_with.
  set (p1 := if (1 <? slen ss)%nat then set_wn true p else p).
  assert (E : out p1 = out p /\ wantSpace p1 = wantSpace p /\ wroteSemi p1 = wroteSemi p).
  { subst p1. destruct (1 <? slen ss)%nat; destruct p; simpl; auto. }
  destruct E as (E1 & E2 & E3).
  destruct (IH false p1 Hwf Hne) as (A & B & C); [discriminate|].
  assert (L : lead p1 = lead p) by (unfold lead; rewrite E2; reflexivity).
  unfold sep_of in A. rewrite L, E1 in A.
  destruct ((slen ss =? 1)%nat && negb (wantNewline p1)).
  - destruct (sl_stmtLoop ss false p1) as [o ws wn sm fl]; simpl in *. auto.
  - auto.
Qed.

Lemma semiRsrv_render : forall s p, wantSpace p = SpRequired ->
  out (sl_semiRsrv s p) = out p ++ (if wroteSemi p then [] else s_semi) ++ s_sp ++ s /\
  wantSpace (sl_semiRsrv s p) = SpRequired /\ wroteSemi (sl_semiRsrv s p) = wroteSemi p.
Proof.
  intros s p H. destruct p as [o ws wn sm fl]. simpl in H. subst ws.
  unfold sl_semiRsrv, spacePad. destruct sm; simpl; rewrite <- ?app_assoc; auto.
Qed.

Lemma semiOrNewl_render : forall s p,
  out (sl_semiOrNewl s p) = out p ++ (if wroteSemi p then [] else s_semi) ++ s_sp ++ s /\
  wantSpace (sl_semiOrNewl s p) = SpRequired /\ wroteSemi (sl_semiOrNewl s p) = wroteSemi p.
Proof.
  intros s p. destruct p as [o ws wn sm fl].
  unfold sl_semiOrNewl, space. destruct sm; simpl; rewrite <- ?app_assoc; auto.
Qed.

Lemma spacedString_render : forall s p,
  out (spacedString s p) = out p ++ lead p ++ s /\ wantSpace (spacedString s p) = SpRequired /\
  wroteSemi (spacedString s p) = wroteSemi p /\ wantNewline (spacedString s p) = wantNewline p.
Proof.
  intros s p. destruct p as [o ws wn sm fl]. unfold spacedString, spacePad, lead.
  destruct ws; simpl; rewrite <- ?app_assoc; auto.
Qed.

Lemma term_eq : forall ss, (if last_bg ss then [] else s_semi) = term ss.
Proof. reflexivity. Qed.

Ltac norm_app := rewrite <- ?app_assoc; cbn [app].

Lemma lead_required : forall q, wantSpace q = SpRequired -> lead q = s_sp.
Proof. intros q H. unfold lead. rewrite H. reflexivity. Qed.

Theorem machine_renders :
  (forall c, P_cmd c) /\ (forall s, P_stmt s) /\ (forall ss, P_stmts ss) /\ (forall e, P_else e).
Proof.
  apply mini_mutind.
  - (* Call *)
    intros args p (Hw & Hf). destruct args as [|w rest]; [contradiction|].
    cbn [sl_command r_cmd].
    destruct (wordJoin_render (w :: rest) (spacePad p)) as (A & B & _); [discriminate|].
    rewrite A, B. split; [|reflexivity].
    destruct p as [o ws wn sm fl]. unfold spacePad, lead. destruct ws; simpl; norm_app; reflexivity.
  - (* Block *)
    intros ss IH p (Hne & Hwf). cbn [sl_command r_cmd].
    set (p1 := set_ws SpRequired (set_semi true (wr s_lbrace (spacePad p)))).
    destruct (nested_render ss p1 IH Hwf Hne) as (A & B & C).
    destruct (semiRsrv_render s_rbrace _ B) as (D & E & _).
    rewrite D, E, A, C. split; [|reflexivity].
    subst p1. destruct p as [o ws wn sm fl]. unfold spacePad, lead, term.
    destruct ws; simpl; norm_app; reflexivity.
  - (* Subshell *)
    intros ss IH p (Hne & Hwf). cbn [sl_command r_cmd].
    destruct ss as [|s0 rest]; [congruence|].
    set (p0 := wr s_lparen (spacePad p)).
    set (p1 := spacePad (if starts_lparen s0 then set_ws SpRequired p0 else set_ws SpNotRequired p0)).
    assert (E1 : out p1 = out p ++ lead p ++ s_lparen ++ (if starts_lparen s0 then s_sp else []) /\
                 is_required (wantSpace p1) = false).
    { subst p1 p0. destruct p as [o ws wn sm fl]. unfold spacePad, lead.
      destruct (starts_lparen s0); destruct ws; simpl; norm_app; rewrite ?app_nil_r; auto. }
    destruct E1 as (E1 & E2).
    destruct (nested_render (SCons s0 rest) p1 IH Hwf Hne) as (A & B & C).
    assert (L1 : lead p1 = []) by (unfold lead; rewrite E2; reflexivity).
    rewrite L1, E1 in A. cbn [app] in A.
    set (q := nestedStmts_with sl_stmtLoop (SCons s0 rest) p1) in *.
    unfold first_starts_lparen, single_ends_rparen.
    assert (G : forall q2, out q2 = out q ++ (match rest with SNil => if ends_rparen s0 then s_sp else [] | _ => [] end) ->
                out (set_ws SpRequired (wr s_rparen (sl_newlines q2))) =
                out p ++ lead p ++ s_lparen ++ (if starts_lparen s0 then s_sp else []) ++
                r_stmts (SCons s0 rest) ++ (match rest with SNil => if ends_rparen s0 then s_sp else [] | _ => [] end) ++ s_rparen).
    { intros q2 H2. unfold sl_newlines. destruct q2 as [o ws wn sm fl]; simpl in *.
      destruct fl; simpl; rewrite H2, A; norm_app; reflexivity. }
    split.
    + destruct rest as [|s1 rest'].
      * rewrite G.
        -- destruct (ends_rparen s0); reflexivity.
        -- destruct q as [o ws wn sm fl]. unfold spacePad. destruct (ends_rparen s0); simpl; rewrite ?app_nil_r; reflexivity.
      * rewrite G; [reflexivity|].
        destruct q as [o ws wn sm fl]. unfold spacePad. simpl. rewrite app_nil_r. reflexivity.
    + reflexivity.
  - (* IfClause *)
    intros cond IHc thn IHt els IHe p (Hc & Ht & Wc & Wt & We). cbn [sl_command r_cmd].
    destruct (spacedString_render kw_if (spacePad p)) as (A1 & B1 & _).
    set (q1 := spacedString kw_if (spacePad p)) in *.
    destruct (nested_render cond q1 IHc Wc Hc) as (A2 & B2 & C2).
    set (q2 := nestedStmts_with sl_stmtLoop cond q1) in *.
    destruct (semiOrNewl_render kw_then q2) as (A3 & B3 & C3).
    set (q3 := sl_semiOrNewl kw_then q2) in *.
    destruct (nested_render thn q3 IHt Wt Ht) as (A4 & B4 & C4).
    set (q4 := nestedStmts_with sl_stmtLoop thn q3) in *.
    destruct (IHe q4 We B4) as (A5 & B5).
    rewrite A5, B5, C4, A4, A3, C2, A2, A1. split; [|reflexivity].
    rewrite (lead_required q3 B3), (lead_required q1 B1).
    destruct p as [o ws wn sm fl]. unfold spacePad, lead, term.
    destruct ws; simpl; norm_app; reflexivity.
  - (* WhileClause *)
    intros u cond IHc body IHb p (Hc & Hb & Wc & Wb). cbn [sl_command r_cmd].
    set (kw := if u then kw_until else kw_while).
    destruct (spacedString_render kw (spacePad p)) as (A1 & B1 & _).
    set (q1 := spacedString kw (spacePad p)) in *.
    destruct (nested_render cond q1 IHc Wc Hc) as (A2 & B2 & C2).
    set (q2 := nestedStmts_with sl_stmtLoop cond q1) in *.
    destruct (semiOrNewl_render kw_do q2) as (A3 & B3 & C3).
    set (q3 := sl_semiOrNewl kw_do q2) in *.
    destruct (nested_render body q3 IHb Wb Hb) as (A4 & B4 & C4).
    set (q4 := nestedStmts_with sl_stmtLoop body q3) in *.
    destruct (semiRsrv_render kw_done q4 B4) as (A5 & B5 & _).
    rewrite A5, B5, C4, A4, A3, C2, A2, A1. split; [|reflexivity].
    rewrite (lead_required q3 B3), (lead_required q1 B1).
    destruct p as [o ws wn sm fl]. unfold spacePad, lead, term.
    destruct ws; simpl; norm_app; reflexivity.
  - (* Binary *)
    intros op x IHx y IHy p (Wx & Wy & _). cbn [sl_command r_cmd].
    destruct (IHx (spacePad p) Wx) as (A1 & B1 & _).
    set (p2 := spacedToken (op_string op) (sl_stmt x (spacePad p))).
    destruct (spacedString_render (op_string op) (sl_stmt x (spacePad p))) as (A2 & B2 & _).
    change (spacedString (op_string op) (sl_stmt x (spacePad p))) with p2 in A2, B2.
    destruct (IHy p2 Wy) as (A3 & B3 & _).
    rewrite A3, B3, A2, A1. split; [|reflexivity].
    rewrite (lead_required p2 B2), (lead_required _ B1).
    destruct p as [o ws wn sm fl]. unfold spacePad, lead.
    destruct ws; simpl; norm_app; reflexivity.
  - (* Stmt *)
    intros n c IHc b p (Wc & _). cbn [sl_stmt r_stmt stmt_bg].
    set (p1 := if n then spacedString s_bang (set_semi false p) else set_semi false p).
    assert (E : out p1 = out p ++ (if n then lead p ++ s_bang else []) /\
                lead p1 = if n then s_sp else lead p).
    { subst p1. destruct n.
      - destruct (spacedString_render s_bang (set_semi false p)) as (A & B & _).
        rewrite A, (lead_required _ B). destruct p as [o ws wn sm fl]; unfold lead; simpl. norm_app. auto.
      - destruct p; simpl. rewrite app_nil_r. auto. }
    destruct E as (E1 & E2).
    destruct (IHc p1 Wc) as (A & B).
    destruct b.
    + unfold space. destruct (sl_command c p1) as [o ws wn sm fl]; simpl in *. subst o.
      rewrite E1, E2. split; [|auto]. destruct n; norm_app; reflexivity.
    + destruct (sl_command c p1) as [o ws wn sm fl]; simpl in *. subst o.
      rewrite E1, E2. split; [|auto]. destruct n; norm_app; rewrite ?app_nil_r; reflexivity.
  - (* SNil *)
    intros i0 p _ H. congruence.
  - (* SCons *)
    intros s IHs rest IHr i0 p (Ws & Wr) _ Hi. cbn [sl_stmtLoop].
    set (p1 := sl_newlines (if i0 && wantNewline p && negb (wroteSemi p) then set_ws SpRequired (wr s_semi p) else p)).
    assert (E : out p1 ++ lead p1 = out p ++ sep_of i0 p).
    { subst p1. unfold sep_of, sl_newlines, lead. destruct i0.
      - destruct (Hi eq_refl) as (H1 & H2). destruct p as [o ws wn sm fl]; simpl in *. subst ws wn.
        destruct sm, fl; simpl; norm_app; reflexivity.
      - destruct p as [o ws wn sm fl]; simpl. destruct fl; reflexivity. }
    destruct (IHs p1 Ws) as (A & B & C).
    set (p2 := set_wn true (sl_stmt s p1)).
    assert (E2 : out p2 = out p ++ sep_of i0 p ++ r_stmt s /\ wantSpace p2 = SpRequired /\
                 wroteSemi p2 = stmt_bg s /\ wantNewline p2 = true).
    { subst p2. destruct (sl_stmt s p1) as [o ws wn sm fl]; simpl in *. subst.
      rewrite app_assoc, E, <- app_assoc. auto. }
    destruct E2 as (F1 & F2 & F3 & F4).
    destruct rest as [|s1 rest'].
    + cbn [sl_stmtLoop r_stmts last_bg]. rewrite app_nil_r. auto.
    + destruct (IHr true p2 Wr) as (G1 & G2 & G3); [discriminate|auto|].
      rewrite G1, G2, G3. split; [|split; [reflexivity|]].
      * rewrite F1. unfold sep_of at 2. rewrite F3. cbn [r_stmts]. norm_app.
        destruct (stmt_bg s); reflexivity.
      * cbn [last_bg]. reflexivity.
  - (* NoElse *)
    intros p _ H. cbn [sl_else r_else].
    destruct (semiRsrv_render kw_fi p H) as (A & B & _). rewrite A, B. auto.
  - (* Elif *)
    intros cond IHc thn IHt els IHe p (Hc & Ht & Wc & Wt & We) H. cbn [sl_else r_else].
    destruct (semiRsrv_render kw_elif p H) as (A1 & B1 & C1).
    set (q1 := sl_semiRsrv kw_elif p) in *.
    destruct (nested_render cond q1 IHc Wc Hc) as (A2 & B2 & C2).
    set (q2 := nestedStmts_with sl_stmtLoop cond q1) in *.
    destruct (semiOrNewl_render kw_then q2) as (A3 & B3 & C3).
    set (q3 := sl_semiOrNewl kw_then q2) in *.
    destruct (nested_render thn q3 IHt Wt Ht) as (A4 & B4 & C4).
    set (q4 := nestedStmts_with sl_stmtLoop thn q3) in *.
    destruct (IHe q4 We B4) as (A5 & B5).
    rewrite A5, B5, C4, A4, A3, C2, A2, A1. split; [|reflexivity].
    rewrite (lead_required q3 B3), (lead_required q1 B1). unfold term. norm_app. reflexivity.
  - (* Else *)
    intros thn IHt p (Ht & Wt) H. cbn [sl_else r_else].
    destruct (semiRsrv_render kw_else p H) as (A1 & B1 & C1).
    set (q1 := sl_semiRsrv kw_else p) in *.
    destruct (nested_render thn q1 IHt Wt Ht) as (A2 & B2 & C2).
    set (q2 := nestedStmts_with sl_stmtLoop thn q1) in *.
    destruct (semiRsrv_render kw_fi q2 B2) as (A3 & B3 & _).
    rewrite A3, B3, C2, A2, A1. split; [|reflexivity].
    rewrite (lead_required q1 B1). unfold term. norm_app. reflexivity.
Qed.

Theorem sl_print_file_render : forall t, wf_file t -> sl_print_file t = render_file t.
Proof.
  intros t Hwf. unfold sl_print_file, render_file, sl_stmtList, stmtList_with.
  destruct t as [|s rest].
  - reflexivity.
  - destruct machine_renders as (_ & _ & HS & _).
    destruct (HS (SCons s rest) false init_pst Hwf) as (A & _); [discriminate|discriminate|].
    unfold sep_of, lead in A. cbn [init_pst wantSpace is_required out app] in A.
    remember (sl_stmtLoop (SCons s rest) false init_pst) as q eqn:Eq. clear Eq.
    destruct ((slen (SCons s rest) =? 1)%nat && negb (wantNewline init_pst));
      destruct q as [o ws wn sm fl]; cbn [out] in A; subst o; reflexivity.
Qed.
