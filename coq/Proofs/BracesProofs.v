(* Proofs/BracesProofs.v — proofs about Expand/Braces.v (C16). *)
From Verif Require Import Base.Str Proofs.StrProofs Expand.Braces.
Require Import ZifyN ZifyNat ZifyBool.
Open Scope N_scope.

(* ------------------------------------------------------------------ rendering lemmas *)

Lemma render_app : forall a b, render (a ++ b) = render a ++ render b.
Proof. intros; unfold render; now rewrite map_app, concat_app. Qed.

Lemma render_cons : forall p w, render (p :: w) = render_part p ++ render w.
Proof. reflexivity. Qed.

Lemma render_nil : render [] = [].
Proof. reflexivity. Qed.

Lemma render_lit1 : forall s, render [PLit s] = s.
Proof. intros; unfold render; simpl. now rewrite app_nil_r. Qed.

Lemma render_brace : forall sq es,
  render_part (PBrace sq es) = LB :: join (sep sq) (map render es) ++ [RB].
Proof. reflexivity. Qed.

Lemma join_snoc : forall s l x,
  join s (l ++ [x]) = concat (map (fun e => e ++ s) l) ++ x.
Proof.
  induction l as [|a l IH]; intros x; simpl.
  - reflexivity.
  - destruct (l ++ [x]) eqn:E.
    + destruct l; discriminate.
    + rewrite <- E, IH. now rewrite <- !app_assoc.
Qed.

Lemma render_flat_elems : forall sp es,
  render (flat_elems sp es) = join sp (map render es).
Proof.
  induction es as [|e es IH]; simpl; [reflexivity|].
  destruct es as [|e' es'].
  - reflexivity.
  - rewrite render_app, render_cons. simpl render_part. rewrite IH. reflexivity.
Qed.

Lemma map_render_snoc : forall (l : list word) x, map render (l ++ [x]) = map render l ++ [render x].
Proof. intros; now rewrite map_app. Qed.

Lemma concat_map_sep : forall s (l : list word),
  concat (map (fun e => e ++ s) (map render l)) = concat (map (fun e => render e ++ s) l).
Proof. intros; now rewrite map_map. Qed.

(* ------------------------------------------------------------------ text of a splitter state *)

Definition frame_text (f : frame) : str :=
  LB :: concat (map (fun e => render e ++ sep (fseq f)) (fdone f)) ++ render (facc f).
Definition frames_text (fs : list frame) : str := concat (map frame_text (rev fs)).
Definition state_text (st : state) : str := render (top st) ++ frames_text (opn st).

Lemma frames_text_cons : forall f r, frames_text (f :: r) = frames_text r ++ frame_text f.
Proof.
  intros; unfold frames_text; simpl. rewrite map_app, concat_app. simpl. now rewrite app_nil_r.
Qed.

Lemma join_felems : forall f,
  join (sep (fseq f)) (map render (felems f)) = concat (map (fun e => render e ++ sep (fseq f)) (fdone f)) ++ render (facc f).
Proof.
  intros f. unfold felems. rewrite map_render_snoc, join_snoc, concat_map_sep. reflexivity.
Qed.

Lemma state_text_add_parts : forall ps st,
  state_text (add_parts ps st) = state_text st ++ render ps.
Proof.
  intros ps [tp [|f r] fd]; unfold add_parts, state_text; simpl.
  - unfold frames_text; simpl. now rewrite render_app, !app_nil_r.
  - rewrite !frames_text_cons. unfold frame_text; simpl. rewrite render_app.
    rewrite <- !app_assoc. simpl. now rewrite <- !app_assoc.
Qed.

Lemma render_lit_of : forall p, render (lit_of p) = p.
Proof. destruct p; simpl; [reflexivity|]. unfold render; simpl. now rewrite app_nil_r. Qed.

Lemma state_text_flush : forall p st, state_text (flush p st) = state_text st ++ p.
Proof. intros; unfold flush. now rewrite state_text_add_parts, render_lit_of. Qed.

Lemma frame_text_flush : forall p f, frame_text (flush_frame p f) = frame_text f ++ p.
Proof.
  intros; unfold frame_text, flush_frame; simpl. rewrite render_app, render_lit_of.
  simpl. now rewrite <- app_assoc.
Qed.

Lemma state_text_open : forall st, state_text (open_brace st) = state_text st ++ [LB].
Proof.
  intros [tp fs fd]; unfold open_brace, state_text; simpl. rewrite frames_text_cons.
  unfold frame_text; simpl. now rewrite app_assoc.
Qed.

Lemma state_text_frame : forall tp f r fd,
  state_text (mkState tp (f :: r) fd) = render tp ++ frames_text r ++ frame_text f.
Proof. intros; unfold state_text; simpl. now rewrite frames_text_cons. Qed.

Lemma state_text_comma : forall f r st,
  state_text (do_comma f r st) = render (top st) ++ frames_text r ++ frame_text f ++ [COMMA].
Proof.
  intros f r st. unfold do_comma. destruct (fseq f) eqn:Sq; rewrite state_text_frame; do 2 f_equal.
  - unfold frame_text at 1; simpl. rewrite render_flat_elems, app_nil_r.
    change [DOT; DOT] with (sep true). rewrite <- Sq, join_felems.
    unfold frame_text. simpl. now rewrite <- app_assoc.
  - unfold frame_text; simpl. rewrite Sq. unfold felems. rewrite map_app, concat_app. simpl.
    now rewrite !app_nil_r, <- app_assoc.
Qed.

Lemma state_text_dots : forall f r st,
  (fseq f = true \/ fdone f = []) ->
  state_text (do_dots f r st) = render (top st) ++ frames_text r ++ frame_text f ++ [DOT; DOT].
Proof.
  intros f r st H. unfold do_dots. rewrite state_text_frame. do 2 f_equal.
  unfold frame_text; simpl. unfold felems. rewrite map_app, concat_app. simpl.
  rewrite !app_nil_r, <- app_assoc. destruct H as [H|H].
  - now rewrite H.
  - rewrite H. reflexivity.
Qed.

Lemma close_parts_cases : forall f,
  (exists e, felems f = [e] /\ close_parts f = (PLit [LB] :: e ++ [PLit [RB]], false)) \/
  (close_parts f = ([PBrace (fseq f) (felems f)], true) /\ (fseq f = true -> seq_broken (felems f) = false)) \/
  (fseq f = true /\ close_parts f = (PLit [LB] :: flat_elems [DOT; DOT] (felems f) ++ [PLit [RB]], false)).
Proof.
  intros f. unfold close_parts. destruct (felems f) as [|e [|e' es]]; cbv zeta.
  - right. destruct (fseq f); simpl; auto.
  - left. exists e. auto.
  - right. destruct (fseq f); cbv beta iota; simpl negb; cbv iota.
    + destruct (seq_broken (e :: e' :: es)); auto.
    + left. split; [reflexivity|discriminate].
Qed.

Lemma felems_single : forall f e, felems f = [e] -> fdone f = [] /\ facc f = e.
Proof.
  intros f e H. unfold felems in H. destruct (fdone f) as [|x l].
  - simpl in H. injection H as ->. auto.
  - simpl in H. injection H as _ H. destruct l; discriminate.
Qed.

Lemma render_close_parts : forall f, render (fst (close_parts f)) = frame_text f ++ [RB].
Proof.
  intros f.
  destruct (close_parts_cases f) as [[e [E ->]]|[[-> _]|[Sq ->]]]; simpl fst.
  - apply felems_single in E. destruct E as [D A].
    rewrite render_cons, render_app, render_lit1. unfold frame_text. rewrite D, A. reflexivity.
  - rewrite render_cons, render_nil, app_nil_r, render_brace, join_felems.
    unfold frame_text. simpl. now rewrite <- app_assoc.
  - rewrite render_cons, render_app, render_flat_elems, render_lit1. change [DOT;DOT] with (sep true).
    rewrite <- Sq, join_felems. unfold frame_text. simpl. now rewrite <- !app_assoc.
Qed.

Lemma state_text_close : forall f r st,
  state_text (do_close f r st) = render (top st) ++ frames_text r ++ frame_text f ++ [RB].
Proof.
  intros f r st. unfold do_close. destruct (close_parts f) as [ps fnd] eqn:E.
  pose proof (render_close_parts f) as H. rewrite E in H. simpl in H.
  change (state_text (mkState (top (add_parts ps (mkState (top st) r (found st))))
                              (opn (add_parts ps (mkState (top st) r (found st)))) (found st || fnd)))
    with (state_text (add_parts ps (mkState (top st) r (found st)))).
  rewrite state_text_add_parts, H. unfold state_text; simpl. now rewrite <- app_assoc.
Qed.

(* the byte loop keeps: text of the state ++ pending ++ unread input *)
Lemma scan_text_n : forall n w, (length w <= n)%nat -> forall pend st st' pend',
  scan w pend st = (st', pend') ->
  state_text st' ++ pend' = state_text st ++ pend ++ w.
Proof.
  induction n as [|n IHn]; intros w Hn pend st st' pend' H.
  { destruct w; [|simpl in Hn; lia]. simpl in H. injection H as <- <-. now rewrite app_nil_r. }
  destruct w as [|c rest]; simpl in H.
  - injection H as <- <-. now rewrite app_nil_r.
  - simpl in Hn.
    assert (IH: forall w', (length w' <= length rest)%nat -> forall pend st st' pend',
              scan w' pend st = (st', pend') -> state_text st' ++ pend' = state_text st ++ pend ++ w').
    { intros w' Hw'. apply IHn. lia. }
    assert (IHr := IH rest (Nat.le_refl _)).
    assert (IHr': forall d rest', rest = d :: rest' -> forall pend st st' pend',
              scan rest' pend st = (st', pend') -> state_text st' ++ pend' = state_text st ++ pend ++ rest').
    { intros d rest' ->. apply IH. simpl. lia. }
    clear IH IHn Hn.
    destruct (c =? BS) eqn:Ebs.
    { destruct rest as [|d rest'].
      - injection H as <- <-. rewrite <- ?app_assoc; reflexivity.
      - apply (IHr' d rest' eq_refl) in H. rewrite H. rewrite <- ?app_assoc; reflexivity. }
    destruct (c =? LB) eqn:Elb.
    { apply IHr in H. rewrite H, state_text_open, state_text_flush. apply N.eqb_eq in Elb. subst c.
      rewrite <- ?app_assoc; reflexivity. }
    destruct st as [tp fs fd]. simpl opn in H. destruct fs as [|f r].
    { apply IHr in H. rewrite H. rewrite <- ?app_assoc; reflexivity. }
    assert (Hst: state_text (mkState tp (f :: r) fd) = render tp ++ frames_text r ++ frame_text f)
      by apply state_text_frame.
    destruct (c =? COMMA) eqn:Eco.
    { apply IHr in H. rewrite H, state_text_comma, frame_text_flush, Hst. apply N.eqb_eq in Eco. subst c.
      rewrite <- ?app_assoc; reflexivity. }
    destruct (c =? DOT) eqn:Edo.
    { destruct rest as [|d rest'].
      - apply IHr in H. rewrite H. rewrite <- ?app_assoc; reflexivity.
      - destruct (d =? DOT) eqn:Ed2.
        + destruct (negb (fseq f) && Nat.ltb 1 (length (felems f))) eqn:G.
          * apply IHr in H. rewrite H. rewrite <- ?app_assoc; reflexivity.
          * apply (IHr' d rest' eq_refl) in H. rewrite H, state_text_dots, frame_text_flush, Hst.
            -- apply N.eqb_eq in Edo, Ed2. subst c d. rewrite <- ?app_assoc; reflexivity.
            -- simpl. apply andb_false_iff in G. destruct G as [G|G].
               ++ left. now destruct (fseq f).
               ++ right. apply Nat.ltb_ge in G. unfold felems in G. rewrite app_length in G. simpl in G.
                  destruct (fdone f); [reflexivity|simpl in G; lia].
        + apply IHr in H. rewrite H. rewrite <- ?app_assoc; reflexivity. }
    destruct (c =? RB) eqn:Erb.
    { apply IHr in H. rewrite H, state_text_close, frame_text_flush, Hst. apply N.eqb_eq in Erb. subst c.
      rewrite <- ?app_assoc; reflexivity. }
    apply IHr in H. rewrite H. rewrite <- ?app_assoc; reflexivity.
Qed.

Lemma scan_text : forall w pend st st' pend',
  scan w pend st = (st', pend') ->
  state_text st' ++ pend' = state_text st ++ pend ++ w.
Proof. intros w. apply (scan_text_n (length w)). lia. Qed.

Lemma render_unclosed : forall fs inner tp,
  render (unclosed fs inner tp) = render tp ++ frames_text fs ++ render inner.
Proof.
  induction fs as [|f r IH]; intros inner tp; simpl.
  - now rewrite render_app.
  - rewrite IH, frames_text_cons. rewrite <- app_assoc. do 2 f_equal.
    rewrite render_cons, render_flat_elems, map_render_snoc, join_snoc, concat_map_sep, render_app.
    unfold frame_text. simpl. now rewrite <- !app_assoc.
Qed.

Theorem split_preserves_text : forall w, render (snd (split_braces w)) = w.
Proof.
  intros w. unfold split_braces.
  destruct (negb (contains_byte LB w)).
  { simpl. unfold render; simpl. now rewrite app_nil_r. }
  destruct (scan w [] (mkState [] [] false)) as [st pend] eqn:E.
  apply scan_text in E. simpl in E.
  destruct (found (flush pend st)).
  - simpl. rewrite render_unclosed, render_nil, app_nil_r.
    change (render (top (flush pend st)) ++ frames_text (opn (flush pend st))) with (state_text (flush pend st)).
    rewrite state_text_flush. exact E.
  - simpl. unfold render; simpl. now rewrite app_nil_r.
Qed.

Theorem split_preserves_text' : forall w, render (snd (split_braces w)) = render [PLit w].
Proof. intros w. now rewrite split_preserves_text, render_lit1. Qed.

(* ------------------------------------------------------------------ a generic invariant principle for the byte loop *)

Lemma scan_preserves : forall (P : state -> Prop),
  (forall p st, P st -> P (flush p st)) ->
  (forall st, P st -> P (open_brace st)) ->
  (forall p tp f r fd, P (mkState tp (f :: r) fd) -> P (do_comma (flush_frame p f) r (mkState tp (f :: r) fd))) ->
  (forall p tp f r fd, P (mkState tp (f :: r) fd) -> P (do_dots (flush_frame p f) r (mkState tp (f :: r) fd))) ->
  (forall p tp f r fd, P (mkState tp (f :: r) fd) -> P (do_close (flush_frame p f) r (mkState tp (f :: r) fd))) ->
  forall n w, (length w <= n)%nat -> forall pend st st' pend',
  P st -> scan w pend st = (st', pend') -> P st'.
Proof.
  intros P Hfl Hop Hco Hdo Hcl.
  induction n as [|n IHn]; intros w Hn pend st st' pend' HP H.
  { destruct w; [|simpl in Hn; lia]. simpl in H. now injection H as <- <-. }
  destruct w as [|c rest]; simpl in H.
  { now injection H as <- <-. }
  simpl in Hn.
  assert (IH: forall w', (length w' <= length rest)%nat -> forall pend st st' pend',
            P st -> scan w' pend st = (st', pend') -> P st').
  { intros w' Hw'. apply IHn. lia. }
  assert (IHr := IH rest (Nat.le_refl _)).
  assert (IHr': forall d rest', rest = d :: rest' -> forall pend st st' pend',
            P st -> scan rest' pend st = (st', pend') -> P st').
  { intros d rest' ->. apply IH. simpl. lia. }
  clear IH IHn Hn.
  destruct (c =? BS).
  { destruct rest as [|d rest'].
    - now injection H as <- <-.
    - eapply (IHr' d rest' eq_refl); eauto. }
  destruct (c =? LB).
  { eapply IHr; [|exact H]. auto. }
  destruct st as [tp fs fd]. simpl opn in H. destruct fs as [|f r].
  { eapply IHr; eauto. }
  destruct (c =? COMMA).
  { eapply IHr; [|exact H]. auto. }
  destruct (c =? DOT).
  { destruct rest as [|d rest'].
    - eapply IHr; eauto.
    - destruct (d =? DOT).
      + destruct (negb (fseq f) && Nat.ltb 1 (length (felems f))).
        * eapply IHr; eauto.
        * eapply (IHr' d rest' eq_refl); [|exact H]. auto.
      + eapply IHr; eauto. }
  destruct (c =? RB).
  { eapply IHr; [|exact H]. auto. }
  eapply IHr; eauto.
Qed.

(* ------------------------------------------------------------------ the returned flag *)

Definition hb_frame (f : frame) : bool := existsb has_brace (felems f).
Definition hb_state (st : state) : bool := has_brace (top st) || existsb hb_frame (opn st).

Lemma has_brace_app : forall a b, has_brace (a ++ b) = has_brace a || has_brace b.
Proof. induction a as [|[s|sq es] a IH]; intros b; simpl; auto. Qed.

Lemma has_brace_flat : forall sp es, has_brace (flat_elems sp es) = existsb has_brace es.
Proof.
  induction es as [|e es IH]; [reflexivity|].
  destruct es as [|e' es'].
  - simpl. now rewrite orb_false_r.
  - change (flat_elems sp (e :: e' :: es')) with (e ++ PLit sp :: flat_elems sp (e' :: es')).
    rewrite has_brace_app.
    change (has_brace (PLit sp :: flat_elems sp (e' :: es'))) with (has_brace (flat_elems sp (e' :: es'))).
    rewrite IH. reflexivity.
Qed.

Lemma has_brace_lit_of : forall p, has_brace (lit_of p) = false.
Proof. destruct p; reflexivity. Qed.

Lemma hb_frame_alt : forall f, hb_frame f = existsb has_brace (fdone f) || has_brace (facc f).
Proof. intros; unfold hb_frame, felems. rewrite existsb_app. simpl. now rewrite orb_false_r. Qed.

Lemma hb_add_parts : forall ps st, hb_state (add_parts ps st) = hb_state st || has_brace ps.
Proof.
  intros ps [tp [|f r] fd]; unfold add_parts, hb_state; simpl.
  - rewrite has_brace_app. now rewrite !orb_false_r.
  - rewrite !hb_frame_alt. simpl. rewrite has_brace_app.
    destruct (has_brace tp), (existsb has_brace (fdone f)), (has_brace (facc f)), (has_brace ps), (existsb hb_frame r); reflexivity.
Qed.

Lemma hb_flush_frame : forall p f, hb_frame (flush_frame p f) = hb_frame f.
Proof.
  intros. rewrite !hb_frame_alt. unfold flush_frame; simpl.
  now rewrite has_brace_app, has_brace_lit_of, orb_false_r.
Qed.

Definition flag_inv (st : state) : Prop := found st = hb_state st.

Lemma close_parts_hb : forall f, has_brace (fst (close_parts f)) = snd (close_parts f) || hb_frame f.
Proof.
  intros f. destruct (close_parts_cases f) as [[e [E ->]]|[[-> _]|[Sq ->]]]; simpl fst; simpl snd; try reflexivity.
  - unfold hb_frame. rewrite E. simpl. rewrite has_brace_app. simpl. now rewrite !orb_false_r.
  - simpl. rewrite has_brace_app, has_brace_flat. simpl. now rewrite orb_false_r.
Qed.

Lemma hb_frame_mk : forall sq d a, hb_frame (mkFrame sq d a) = existsb has_brace d || has_brace a.
Proof. intros. now rewrite hb_frame_alt. Qed.

Lemma hb_do_comma : forall f r st,
  hb_state (do_comma f r st) = has_brace (top st) || (hb_frame f || existsb hb_frame r) /\
  found (do_comma f r st) = found st.
Proof.
  intros f r st. unfold do_comma. destruct (fseq f); unfold hb_state; cbn [top opn found existsb]; split; try reflexivity;
    rewrite hb_frame_mk; cbn [existsb has_brace]; rewrite ?has_brace_flat, ?orb_false_r; reflexivity.
Qed.

Lemma hb_do_dots : forall f r st,
  hb_state (do_dots f r st) = has_brace (top st) || (hb_frame f || existsb hb_frame r) /\
  found (do_dots f r st) = found st.
Proof.
  intros f r st. unfold do_dots, hb_state; cbn [top opn found existsb]; split; try reflexivity.
  rewrite hb_frame_mk; cbn [existsb has_brace]; rewrite ?orb_false_r; reflexivity.
Qed.

Lemma hb_do_close : forall f r st,
  found st = has_brace (top st) || (hb_frame f || existsb hb_frame r) ->
  found (do_close f r st) = hb_state (do_close f r st).
Proof.
  intros f r st H. unfold do_close. pose proof (close_parts_hb f) as C.
  destruct (close_parts f) as [ps fnd]. simpl in C. cbn [found].
  change (hb_state {| top := top (add_parts ps {| top := top st; opn := r; found := found st |});
                      opn := opn (add_parts ps {| top := top st; opn := r; found := found st |}); found := found st || fnd |})
    with (hb_state (add_parts ps {| top := top st; opn := r; found := found st |})).
  rewrite hb_add_parts. rewrite H. unfold hb_state. cbn [top opn].
  destruct (has_brace (top st)), (hb_frame f), (existsb hb_frame r), fnd, (has_brace ps); simpl in *; congruence.
Qed.

Lemma flag_inv_scan : forall w pend st st' pend',
  flag_inv st -> scan w pend st = (st', pend') -> flag_inv st'.
Proof.
  intros w. apply (scan_preserves flag_inv) with (n := length w); try lia.
  - intros p st H. unfold flag_inv, flush in *. rewrite hb_add_parts, has_brace_lit_of, orb_false_r.
    rewrite <- H. destruct st as [tp [|f r] fd]; reflexivity.
  - intros [tp fs fd] H. unfold flag_inv, open_brace, hb_state in *. simpl in *. exact H.
  - intros p tp f r fd H. unfold flag_inv in *.
    destruct (hb_do_comma (flush_frame p f) r {| top := tp; opn := f :: r; found := fd |}) as [A B].
    rewrite A, B, hb_flush_frame. exact H.
  - intros p tp f r fd H. unfold flag_inv in *.
    destruct (hb_do_dots (flush_frame p f) r {| top := tp; opn := f :: r; found := fd |}) as [A B].
    rewrite A, B, hb_flush_frame. exact H.
  - intros p tp f r fd H. apply hb_do_close. rewrite hb_flush_frame. exact H.
Qed.

Lemma has_brace_unclosed : forall fs inner tp,
  has_brace (unclosed fs inner tp) = has_brace tp || existsb hb_frame fs || has_brace inner.
Proof.
  induction fs as [|f r IH]; intros inner tp; simpl.
  - now rewrite has_brace_app, orb_false_r.
  - rewrite IH. simpl has_brace at 2. rewrite has_brace_flat, existsb_app. simpl. rewrite has_brace_app.
    rewrite hb_frame_alt.
    destruct (has_brace tp), (existsb hb_frame r), (existsb has_brace (fdone f)), (has_brace (facc f)), (has_brace inner); reflexivity.
Qed.

Theorem split_flag : forall w, fst (split_braces w) = has_brace (snd (split_braces w)).
Proof.
  intros w. unfold split_braces.
  destruct (negb (contains_byte LB w)); [reflexivity|].
  destruct (scan w [] (mkState [] [] false)) as [st pend] eqn:E.
  apply flag_inv_scan in E; [|reflexivity].
  assert (F: flag_inv (flush pend st)).
  { unfold flag_inv, flush in *. rewrite hb_add_parts, has_brace_lit_of, orb_false_r, <- E.
    destruct st as [tp [|f r] fd]; reflexivity. }
  destruct (found (flush pend st)) eqn:Fd; simpl.
  - rewrite has_brace_unclosed. simpl. rewrite orb_false_r. unfold flag_inv in F. rewrite Fd in F. exact F.
  - reflexivity.
Qed.

(* "a BraceExp exists in the result", at any depth *)
Fixpoint deep_brace (w : word) : bool :=
  match w with
  | [] => false
  | PLit _ :: w' => deep_brace w'
  | PBrace _ _ :: _ => true
  end.

Theorem split_reports : forall w,
  fst (split_braces w) = true <-> exists sq es, In (PBrace sq es) (snd (split_braces w)).
Proof.
  intros w. rewrite split_flag. generalize (snd (split_braces w)) as l.
  induction l as [|[s|sq es] l IH]; simpl.
  - split; [discriminate|]. intros (sq & es & []).
  - rewrite IH. split; intros (sq & es & H); exists sq, es; [now right|].
    destruct H as [H|H]; [discriminate|exact H].
  - split; [|reflexivity]. intros _. exists sq, es. now left.
Qed.

Theorem split_false_untouched : forall w, fst (split_braces w) = false -> snd (split_braces w) = [PLit w].
Proof.
  intros w. unfold split_braces.
  destruct (negb (contains_byte LB w)); [reflexivity|].
  destruct (scan w [] (mkState [] [] false)) as [st pend].
  destruct (found (flush pend st)); simpl; [discriminate|reflexivity].
Qed.

(* ------------------------------------------------------------------ well-formed trees: what SplitBraces produces *)

Fixpoint wf_part (p : part) : bool :=
  match p with
  | PLit _ => true
  | PBrace sq es => (if sq then negb (seq_broken es) else true) && forallb (forallb wf_part) es
  end.
Definition wf_word (w : word) : bool := forallb wf_part w.
Definition wf_frame (f : frame) : bool := forallb wf_word (felems f).
Definition wf_state (st : state) : Prop := wf_word (top st) = true /\ forallb wf_frame (opn st) = true.

Lemma wf_word_app : forall a b, wf_word (a ++ b) = wf_word a && wf_word b.
Proof. intros; unfold wf_word; apply forallb_app. Qed.

Lemma wf_flat_elems : forall sp es, forallb wf_word es = true -> wf_word (flat_elems sp es) = true.
Proof.
  induction es as [|e es IH]; [reflexivity|].
  intros H. simpl in H. apply andb_prop in H. destruct H as [He Hes].
  destruct es as [|e' es'].
  - exact He.
  - change (flat_elems sp (e :: e' :: es')) with (e ++ PLit sp :: flat_elems sp (e' :: es')).
    rewrite wf_word_app, He. simpl. apply IH. exact Hes.
Qed.

Lemma wf_lit_of : forall p, wf_word (lit_of p) = true.
Proof. destruct p; reflexivity. Qed.

Lemma wf_frame_alt : forall f, wf_frame f = forallb wf_word (fdone f) && wf_word (facc f).
Proof. intros; unfold wf_frame, felems. rewrite forallb_app. simpl. now rewrite andb_true_r. Qed.

Lemma wf_add_parts : forall ps st, wf_word ps = true -> wf_state st -> wf_state (add_parts ps st).
Proof.
  intros ps [tp [|f r] fd] Hps [Ht Ho]; unfold add_parts, wf_state in *; simpl in *.
  - split; [|reflexivity]. now rewrite wf_word_app, Ht, Hps.
  - split; [exact Ht|]. apply andb_prop in Ho. destruct Ho as [Hf Hr]. rewrite Hr, andb_true_r.
    rewrite wf_frame_alt in *. simpl. apply andb_prop in Hf. destruct Hf as [Hd Ha].
    now rewrite Hd, wf_word_app, Ha, Hps.
Qed.

Lemma wf_flush_frame : forall p f, wf_frame f = true -> wf_frame (flush_frame p f) = true.
Proof.
  intros p f H. rewrite wf_frame_alt in *. unfold flush_frame; simpl.
  apply andb_prop in H. destruct H as [Hd Ha]. now rewrite Hd, wf_word_app, Ha, wf_lit_of.
Qed.

Lemma wf_close_parts : forall f, wf_frame f = true -> wf_word (fst (close_parts f)) = true.
Proof.
  intros f H. unfold wf_frame in H.
  destruct (close_parts_cases f) as [[e [E ->]]|[[-> B]|[Sq ->]]]; simpl fst.
  - rewrite E in H. simpl in H. rewrite andb_true_r in H.
    change (wf_word (PLit [LB] :: e ++ [PLit [RB]])) with (wf_word (e ++ [PLit [RB]])).
    now rewrite wf_word_app, H.
  - unfold wf_word. simpl. rewrite andb_true_r.
    change (forallb (forallb wf_part) (felems f)) with (forallb wf_word (felems f)). rewrite H, andb_true_r.
    destruct (fseq f); [|reflexivity]. now rewrite B.
  - change (wf_word (PLit [LB] :: flat_elems [DOT; DOT] (felems f) ++ [PLit [RB]]))
      with (wf_word (flat_elems [DOT; DOT] (felems f) ++ [PLit [RB]])).
    rewrite wf_word_app, wf_flat_elems; auto.
Qed.

Lemma wf_scan : forall w pend st st' pend',
  wf_state st -> scan w pend st = (st', pend') -> wf_state st'.
Proof.
  intros w. apply (scan_preserves wf_state) with (n := length w); try lia.
  - intros p st H. apply wf_add_parts; [apply wf_lit_of|exact H].
  - intros [tp fs fd] [Ht Ho]. unfold wf_state, open_brace in *; simpl in *. now rewrite Ho.
  - intros p tp f r fd [Ht Ho]. simpl in Ht, Ho. apply andb_prop in Ho. destruct Ho as [Hf Hr].
    apply (wf_flush_frame p) in Hf. unfold wf_state, do_comma.
    destruct (fseq (flush_frame p f)); simpl; (split; [exact Ht|]); rewrite Hr, andb_true_r.
    + unfold wf_frame, felems; simpl. rewrite wf_flat_elems; auto.
    + unfold wf_frame at 1, felems at 1; simpl. rewrite forallb_app. simpl. unfold wf_frame in Hf. now rewrite Hf.
  - intros p tp f r fd [Ht Ho]. simpl in Ht, Ho. apply andb_prop in Ho. destruct Ho as [Hf Hr].
    apply (wf_flush_frame p) in Hf. unfold wf_state, do_dots. simpl. split; [exact Ht|]. rewrite Hr, andb_true_r.
    unfold wf_frame at 1, felems at 1; simpl. rewrite forallb_app. simpl. unfold wf_frame in Hf. now rewrite Hf.
  - intros p tp f r fd [Ht Ho]. simpl in Ht, Ho. apply andb_prop in Ho. destruct Ho as [Hf Hr].
    apply (wf_flush_frame p) in Hf. unfold do_close.
    pose proof (wf_close_parts _ Hf) as C. destruct (close_parts (flush_frame p f)) as [ps fnd]. simpl in C.
    assert (W: wf_state (add_parts ps {| top := tp; opn := r; found := fd |})).
    { apply wf_add_parts; [exact C|]. split; assumption. }
    exact W.
Qed.

Lemma wf_unclosed : forall fs inner tp,
  wf_word tp = true -> forallb wf_frame fs = true -> wf_word inner = true -> wf_word (unclosed fs inner tp) = true.
Proof.
  induction fs as [|f r IH]; intros inner tp Ht Hf Hi; simpl.
  - now rewrite wf_word_app, Ht, Hi.
  - simpl in Hf. apply andb_prop in Hf. destruct Hf as [Hf Hr]. apply IH; auto.
    change (wf_word (PLit [LB] :: ?x)) with (wf_word x).
    apply wf_flat_elems. rewrite forallb_app. rewrite wf_frame_alt in Hf. apply andb_prop in Hf. destruct Hf as [Hd Ha].
    rewrite Hd. simpl. now rewrite wf_word_app, Ha, Hi.
Qed.

Theorem split_wf : forall w, wf_word (snd (split_braces w)) = true.
Proof.
  intros w. unfold split_braces.
  destruct (negb (contains_byte LB w)); [reflexivity|].
  destruct (scan w [] (mkState [] [] false)) as [st pend] eqn:E.
  apply wf_scan in E; [|split; reflexivity].
  assert (F: wf_state (flush pend st)) by (apply wf_add_parts; [apply wf_lit_of|exact E]).
  destruct (found (flush pend st)); simpl; [|reflexivity].
  destruct F as [Ft Fo]. apply wf_unclosed; auto.
Qed.

(* ------------------------------------------------------------------ expansion of well-formed trees: no panic, enough fuel *)

Lemma seq_values_ok : forall es, seq_broken es = false -> exists vals, seq_values es = Ok vals.
Proof.
  intros [|e0 [|e1 more]] H; try discriminate.
  unfold seq_broken in H. unfold seq_values.
  unfold seq_elem_kind, parse_ok in H.
  destruct (parse_int (word_lit e0)) as [v1 ok1], (parse_int (word_lit e1)) as [v2 ok2]. simpl snd in H.
  destruct ok1, ok2; simpl andb; cbv iota.
  - eexists; reflexivity.
  - exfalso. destruct (word_lit e1) as [|c [|? ?]]; simpl in H; try discriminate.
    destruct (ascii_letter c); simpl in H; try discriminate; destruct more as [|? [|? ?]]; simpl in H;
      try discriminate; rewrite ?orb_true_r in H; discriminate.
  - exfalso. destruct (word_lit e0) as [|c [|? ?]]; simpl in H; try discriminate.
    destruct (ascii_letter c); simpl in H; try discriminate; destruct more as [|? [|? ?]]; simpl in H;
      try discriminate; rewrite ?orb_true_r in H; discriminate.
  - destruct (word_lit e0) as [|c [|? ?]]; simpl in H; try discriminate;
    destruct (word_lit e1) as [|c' [|? ?]]; simpl in H; try discriminate;
    try (destruct (ascii_letter c); simpl in H; discriminate);
    eexists; reflexivity.
Qed.

Lemma seq_values_not_err : forall es c, seq_values es <> Err c.
Proof.
  intros [|e0 [|e1 more]] c; try discriminate. unfold seq_values.
  destruct (parse_int (word_lit e0)) as [v1 ok1], (parse_int (word_lit e1)) as [v2 ok2].
  destruct (ok1 && ok2); [discriminate|].
  destruct (word_lit e0); [discriminate|]. destruct (word_lit e1); discriminate.
Qed.

Lemma flat_res_not : forall {A B} (f : A -> res (list B)) l (bad : res (list B)),
  (forall a, bad <> Ok a) ->
  (forall x, In x l -> f x <> bad) -> flat_res f l <> bad.
Proof.
  intros A B f l bad Hb. induction l as [|x l IH]; intros H; simpl.
  - apply not_eq_sym, Hb.
  - pose proof (H x (or_introl eq_refl)) as Hx.
    assert (Hl: flat_res f l <> bad) by (apply IH; intros y Hy; apply H; now right).
    destruct (f x) eqn:Ex.
    + destruct (flat_res f l) eqn:El; [apply not_eq_sym, Hb|exact Hl|exact Hl].
    + exact Hx.
    + exact Hx.
Qed.

Lemma braces_rec_no_panic : forall fuel w, wf_word w = true -> braces_rec fuel w <> Panic.
Proof.
  induction fuel as [|fuel IH]; intros w Hw; [discriminate|].
  destruct w as [|[s|sq es] rest]; simpl.
  - discriminate.
  - simpl in Hw. specialize (IH rest Hw). destruct (braces_rec fuel rest); [discriminate|discriminate|exact IH].
  - unfold wf_word in Hw. simpl in Hw. apply andb_prop in Hw. destruct Hw as [Hp Hr].
    apply andb_prop in Hp. destruct Hp as [Hs He].
    destruct sq.
    + apply negb_true_iff in Hs. destruct (seq_values_ok es Hs) as [vals ->].
      apply flat_res_not; [discriminate|]. intros v _. apply IH. exact Hr.
    + apply flat_res_not; [discriminate|]. intros e Hin. apply IH.
      rewrite wf_word_app. rewrite forallb_forall in He. unfold wf_word at 1. rewrite (He e Hin). exact Hr.
Qed.

Lemma word_size_app : forall a b, word_size (a ++ b) = (word_size a + word_size b)%nat.
Proof. induction a as [|p a IH]; intros b; simpl; [reflexivity|]. unfold word_size in *. simpl. rewrite IH. lia. Qed.

Lemma elem_size_le : forall (es : list word) e, In e es ->
  (word_size e <= fold_right (fun e a => fold_right (fun q b => part_size q + b) 0 e + a) 0 es)%nat.
Proof.
  induction es as [|x es IH]; intros e []; simpl.
  - subst. unfold word_size. lia.
  - specialize (IH e H). lia.
Qed.

Lemma braces_rec_fuel : forall fuel w c, (word_size w < fuel)%nat -> braces_rec fuel w <> Err c.
Proof.
  induction fuel as [|fuel IH]; intros w c Hs; [lia|].
  destruct w as [|[s|sq es] rest]; simpl.
  - discriminate.
  - unfold word_size in Hs. simpl in Hs. assert (H: braces_rec fuel rest <> Err c) by (apply IH; unfold word_size; lia).
    destruct (braces_rec fuel rest); [discriminate|exact H|discriminate].
  - unfold word_size in Hs. simpl in Hs. fold (word_size rest) in Hs. destruct sq.
    + pose proof (seq_values_not_err es) as NE. destruct (seq_values es) as [vals|c'|]; [|exfalso; exact (NE c' eq_refl)|discriminate].
      apply flat_res_not; [discriminate|]. intros v _. apply IH. unfold word_size. simpl. fold (word_size rest). lia.
    + apply flat_res_not; [discriminate|]. intros e Hin. apply IH. rewrite word_size_app.
      pose proof (elem_size_le es e Hin). lia.
Qed.

Theorem expand_split_total : forall w,
  (exists l, expand (snd (split_braces w)) = Ok l /\ (length l <= limit)%nat) \/
  (expand (snd (split_braces w)) = Err E_LIMIT /\
   exists l, braces_rec (S (word_size (snd (split_braces w)))) (snd (split_braces w)) = Ok l /\ (limit < length l)%nat).
Proof.
  intros w. unfold expand. set (p := snd (split_braces w)).
  pose proof (braces_rec_no_panic (S (word_size p)) p (split_wf w)) as NP.
  pose proof (fun c => braces_rec_fuel (S (word_size p)) p c (Nat.lt_succ_diag_r _)) as NF.
  destruct (braces_rec (S (word_size p)) p) as [l|c|]; [|exfalso; now apply (NF c)|congruence].
  destruct (Nat.ltb limit (length l)) eqn:L.
  - right. split; [reflexivity|]. exists l. split; [reflexivity|]. now apply Nat.ltb_lt.
  - left. exists l. split; [reflexivity|]. now apply Nat.ltb_ge.
Qed.

Theorem expand_no_panic : forall w, expand (snd (split_braces w)) <> Panic /\ expand (snd (split_braces w)) <> Err E_FUEL.
Proof.
  intros w. destruct (expand_split_total w) as [[l [-> _]]|[-> _]]; split; discriminate.
Qed.

Theorem expand_error_iff_above_limit : forall w c,
  expand (snd (split_braces w)) = Err c <->
  c = E_LIMIT /\ exists l, braces_rec (S (word_size (snd (split_braces w)))) (snd (split_braces w)) = Ok l /\ (limit < length l)%nat.
Proof.
  intros w c. destruct (expand_split_total w) as [[l [E L]]|[E X]]; split.
  - rewrite E; discriminate.
  - intros [-> [l' [R L']]]. unfold expand in E. rewrite R in E.
    destruct (Nat.ltb limit (length l')) eqn:B; [discriminate|]. apply Nat.ltb_ge in B. lia.
  - rewrite E. intros [= <-]. auto.
  - intros [-> _]. exact E.
Qed.

(* ------------------------------------------------------------------ expansion vs Spec *)

(* (i) words without '{' : nothing to expand, for the code and for bash *)
Lemma gobble_lb_none : forall n t, (length t <= n)%nat -> forall level commas at0,
  contains_byte LB t = false -> gobble LB level commas at0 t = None.
Proof.
  induction n as [|n IH]; intros t Hn level commas at0 H.
  { destruct t; [reflexivity|simpl in Hn; lia]. }
  destruct t as [|c rest]; [reflexivity|].
  unfold contains_byte in H. cbn [index_byte] in H. simpl in Hn.
  destruct (c =? LB) eqn:Ec; [discriminate|].
  assert (Hr: contains_byte LB rest = false).
  { unfold contains_byte. destruct (index_byte LB rest); [discriminate|reflexivity]. }
  cbn [gobble]. destruct (c =? BS).
  - destruct rest as [|d rest']; [reflexivity|].
    assert (Hr': contains_byte LB rest' = false).
    { unfold contains_byte in *. cbn [index_byte] in Hr. destruct (d =? LB); [discriminate|].
      destruct (index_byte LB rest'); [discriminate|reflexivity]. }
    rewrite (IH rest'); [reflexivity|simpl in Hn; lia|exact Hr'].
  - rewrite Ec. cbn [andb]. cbv zeta. rewrite (IH rest); [reflexivity|lia|exact Hr].
Qed.

Theorem no_brace_word : forall w, contains_byte LB w = false ->
  expand_word w = Ok [w] /\ spec w = Words [w].
Proof.
  intros w H. split.
  - unfold expand_word, split_braces. rewrite H. reflexivity.
  - unfold spec, spec_fuel. simpl bexp. rewrite (gobble_lb_none (length w) w); auto.
Qed.

(* (ii) exhaustive short words: a genuinely finite domain, decided inside the kernel *)
Definition A11 : list N := [123; 125; 44; 46; 45; 92; 48; 49; 57; 97; 122].   (* { } , . - \ 0 1 9 a z *)
Definition short_words : list str :=
  all_words A11 1 ++ all_words A11 2 ++ all_words A11 3 ++ all_words A11 4 ++ all_words A11 5
  ++ all_words [123; 125; 44; 46; 49; 97] 6       (* { } , . 1 a *)
  ++ all_words [123; 125; 46; 49; 97] 7           (* { } . 1 a *)
  ++ all_words [123; 125; 44; 97] 7.              (* { } , a *)
Definition agrees (w : str) : bool := sres_eqb (to_sres (expand_word w)) (spec w).

Lemma short_words_checked : forallb (fun w => agrees w || skipped_close w) short_words = true.
Proof. vm_compute. reflexivity. Qed.

Lemma strs_eqb_true : forall a b, strs_eqb a b = true -> a = b.
Proof.
  induction a as [|x a IH]; intros [|y b] H; simpl in H; try discriminate; [reflexivity|].
  apply andb_prop in H. destruct H as [H1 H2]. apply str_eqb_true in H1. subst. f_equal. now apply IH.
Qed.

Lemma sres_eqb_true : forall a b, sres_eqb a b = true -> a = b.
Proof. intros [|x] [|y] H; simpl in H; try discriminate; [reflexivity|]. f_equal. now apply strs_eqb_true. Qed.

Theorem expand_matches_spec_short : forall w,
  In w short_words -> skipped_close w = false -> to_sres (expand_word w) = spec w.
Proof.
  intros w Hin Hk. pose proof short_words_checked as H. rewrite forallb_forall in H.
  specialize (H w Hin). rewrite Hk, orb_false_r in H. now apply sres_eqb_true.
Qed.

Lemma in_all_words : forall alpha n w, length w = n -> (forall c, In c w -> In c alpha) -> In w (all_words alpha n).
Proof.
  induction n as [|n IH]; intros w Hl Hc.
  - destruct w; [now left|discriminate].
  - destruct w as [|c w']; [discriminate|]. simpl. apply in_flat_map. exists w'. split.
    + apply IH; [simpl in Hl; lia|]. intros d Hd. apply Hc. now right.
    + apply (in_map (fun c0 => c0 :: w')). apply Hc. now left.
Qed.

(* the same, with the domain spelled out: every word of length 1..5 over { } , . - \ 0 1 9 a z *)
Theorem expand_matches_spec_len5 : forall w,
  (1 <= length w <= 5)%nat -> (forall c, In c w -> In c A11) ->
  skipped_close w = false -> to_sres (expand_word w) = spec w.
Proof.
  intros w Hl Hc. apply expand_matches_spec_short.
  assert (H: In w (all_words A11 (length w))) by (apply in_all_words; auto).
  unfold short_words. revert H. generalize (all_words A11). intros aw H.
  assert (G: forall (a1 a2 a3 a4 a5 rest : list str),
             (In w a1 \/ In w a2 \/ In w a3 \/ In w a4 \/ In w a5) -> In w (a1 ++ a2 ++ a3 ++ a4 ++ a5 ++ rest)).
  { intros. rewrite !in_app_iff. tauto. }
  apply G. clear G. revert H.
  destruct (length w) as [|[|[|[|[|[|n]]]]]] eqn:E; try lia; tauto.
Qed.

Theorem expand_matches_spec_refuted : exists w, to_sres (expand_word w) <> spec w.
Proof. exists [123;97;125;98;44;99;125]. vm_compute. discriminate. Qed.

Lemma ex_split : split_braces [97;123;98;44;99;125;100]
  = (true, [PLit [97]; PBrace false [[PLit [98]]; [PLit [99]]]; PLit [100]]).
Proof. vm_compute. reflexivity. Qed.
Lemma ex_unfound : split_braces [97;123;98] = (false, [PLit [97;123;98]]).
Proof. vm_compute. reflexivity. Qed.
Lemma ex_expand : expand_word [97;123;98;44;99;125;100] = Ok [[97;98;100]; [97;99;100]]
  /\ spec [97;123;98;44;99;125;100] = Words [[97;98;100]; [97;99;100]].
Proof. split; vm_compute; reflexivity. Qed.
Lemma ex_limit :
  expand_word [123;49;46;46;49;54;51;56;53;125] = Err E_LIMIT /\ spec [123;49;46;46;49;54;51;56;53;125] = Many
  /\ exists l, expand_word [123;49;46;46;49;54;51;56;52;125] = Ok l /\ length l = limit.
Proof.
  split; [vm_compute; reflexivity|]. split; [vm_compute; reflexivity|].
  destruct (expand_word [123;49;46;46;49;54;51;56;52;125]) as [l| |] eqn:E.
  - exists l. split; [reflexivity|].
    assert (H: match expand_word [123;49;46;46;49;54;51;56;52;125] with Ok l => Nat.eqb (length l) limit | _ => false end = true)
      by (vm_compute; reflexivity).
    rewrite E in H. now apply Nat.eqb_eq.
  - exfalso. assert (H: match expand_word [123;49;46;46;49;54;51;56;52;125] with Ok l => true | _ => false end = true)
      by (vm_compute; reflexivity). rewrite E in H. discriminate.
  - exfalso. assert (H: match expand_word [123;49;46;46;49;54;51;56;52;125] with Ok l => true | _ => false end = true)
      by (vm_compute; reflexivity). rewrite E in H. discriminate.
Qed.
Lemma ex_scope : skipped_close [123;97;44;122;125] = false /\ to_sres (expand_word [123;97;44;122;125]) = Words [[97]; [122]].
Proof. split; vm_compute; reflexivity. Qed.
Lemma ex_overflow :
  exists a b, expand_word [123;57;50;50;51;51;55;50;48;51;54;56;53;52;55;55;53;56;48;54;46;46;57;50;50;51;51;55;50;48;51;54;56;53;52;55;55;53;56;48;55;125] = Ok [a; b].
Proof. eexists. eexists. vm_compute. reflexivity. Qed.
