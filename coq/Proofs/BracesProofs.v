(* Proofs/BracesProofs.v — proofs about Expand/Braces.v (C16). *)
From Verif Require Import Base.Str Expand.Braces.
Require Import ZifyN ZifyNat ZifyBool.
Open Scope N_scope.

(* ------------------------------------------------------------------ rendering lemmas *)

Lemma render_app : forall a b, render (a ++ b) = render a ++ render b.
Proof. intros; unfold render; now rewrite map_app, concat_app. Qed.

Lemma render_cons : forall p w, render (p :: w) = render_part p ++ render w.
Proof. reflexivity. Qed.

Lemma render_nil : render [] = [].
Proof. reflexivity. Qed.

Lemma render_lit1 : forall s, render [PLit s] = s.
Proof. intros; unfold render; simpl. now rewrite app_nil_r. Qed.

Lemma render_brace : forall sq es,
  render_part (PBrace sq es) = LB :: join (sep sq) (map render es) ++ [RB].
Proof. reflexivity. Qed.

Lemma join_snoc : forall s l x,
  join s (l ++ [x]) = concat (map (fun e => e ++ s) l) ++ x.
Proof.
  induction l as [|a l IH]; intros x; simpl.
  - reflexivity.
  - destruct (l ++ [x]) eqn:E.
    + destruct l; discriminate.
    + rewrite <- E, IH. now rewrite <- !app_assoc.
Qed.

Lemma render_flat_elems : forall sp es,
  render (flat_elems sp es) = join sp (map render es).
Proof.
  induction es as [|e es IH]; simpl; [reflexivity|].
  destruct es as [|e' es'].
  - reflexivity.
  - rewrite render_app, render_cons. simpl render_part. rewrite IH. reflexivity.
Qed.

Lemma map_render_snoc : forall (l : list word) x, map render (l ++ [x]) = map render l ++ [render x].
Proof. intros; now rewrite map_app. Qed.

Lemma concat_map_sep : forall s (l : list word),
  concat (map (fun e => e ++ s) (map render l)) = concat (map (fun e => render e ++ s) l).
Proof. intros; now rewrite map_map. Qed.

(* ------------------------------------------------------------------ text of a splitter state *)

Definition frame_text (f : frame) : str :=
  LB :: concat (map (fun e => render e ++ sep (fseq f)) (fdone f)) ++ render (facc f).
Definition frames_text (fs : list frame) : str := concat (map frame_text (rev fs)).
Definition state_text (st : state) : str := render (top st) ++ frames_text (opn st).

Lemma frames_text_cons : forall f r, frames_text (f :: r) = frames_text r ++ frame_text f.
Proof.
  intros; unfold frames_text; simpl. rewrite map_app, concat_app. simpl. now rewrite app_nil_r.
Qed.

Lemma join_felems : forall f,
  join (sep (fseq f)) (map render (felems f)) = concat (map (fun e => render e ++ sep (fseq f)) (fdone f)) ++ render (facc f).
Proof.
  intros f. unfold felems. rewrite map_render_snoc, join_snoc, concat_map_sep. reflexivity.
Qed.

Lemma state_text_add_parts : forall ps st,
  state_text (add_parts ps st) = state_text st ++ render ps.
Proof.
  intros ps [tp [|f r] fd]; unfold add_parts, state_text; simpl.
  - unfold frames_text; simpl. now rewrite render_app, !app_nil_r.
  - rewrite !frames_text_cons. unfold frame_text; simpl. rewrite render_app.
    rewrite <- !app_assoc. simpl. now rewrite <- !app_assoc.
Qed.

Lemma render_lit_of : forall p, render (lit_of p) = p.
Proof. destruct p; simpl; [reflexivity|]. unfold render; simpl. now rewrite app_nil_r. Qed.

Lemma state_text_flush : forall p st, state_text (flush p st) = state_text st ++ p.
Proof. intros; unfold flush. now rewrite state_text_add_parts, render_lit_of. Qed.

Lemma frame_text_flush : forall p f, frame_text (flush_frame p f) = frame_text f ++ p.
Proof.
  intros; unfold frame_text, flush_frame; simpl. rewrite render_app, render_lit_of.
  simpl. now rewrite <- app_assoc.
Qed.

Lemma state_text_open : forall st, state_text (open_brace st) = state_text st ++ [LB].
Proof.
  intros [tp fs fd]; unfold open_brace, state_text; simpl. rewrite frames_text_cons.
  unfold frame_text; simpl. now rewrite app_assoc.
Qed.

Lemma state_text_frame : forall tp f r fd,
  state_text (mkState tp (f :: r) fd) = render tp ++ frames_text r ++ frame_text f.
Proof. intros; unfold state_text; simpl. now rewrite frames_text_cons. Qed.

Lemma state_text_comma : forall f r st,
  state_text (do_comma f r st) = render (top st) ++ frames_text r ++ frame_text f ++ [COMMA].
Proof.
  intros f r st. unfold do_comma. destruct (fseq f) eqn:Sq; rewrite state_text_frame; do 2 f_equal.
  - unfold frame_text at 1; simpl. rewrite render_flat_elems, app_nil_r.
    change [DOT; DOT] with (sep true). rewrite <- Sq, join_felems.
    unfold frame_text. simpl. now rewrite <- app_assoc.
  - unfold frame_text; simpl. rewrite Sq. unfold felems. rewrite map_app, concat_app. simpl.
    now rewrite !app_nil_r, <- app_assoc.
Qed.

Lemma state_text_dots : forall f r st,
  (fseq f = true \/ fdone f = []) ->
  state_text (do_dots f r st) = render (top st) ++ frames_text r ++ frame_text f ++ [DOT; DOT].
Proof.
  intros f r st H. unfold do_dots. rewrite state_text_frame. do 2 f_equal.
  unfold frame_text; simpl. unfold felems. rewrite map_app, concat_app. simpl.
  rewrite !app_nil_r, <- app_assoc. destruct H as [H|H].
  - now rewrite H.
  - rewrite H. reflexivity.
Qed.

Lemma close_parts_cases : forall f,
  (exists e, felems f = [e] /\ close_parts f = (PLit [LB] :: e ++ [PLit [RB]], false)) \/
  close_parts f = ([PBrace (fseq f) (felems f)], true) \/
  (fseq f = true /\ close_parts f = (PLit [LB] :: flat_elems [DOT; DOT] (felems f) ++ [PLit [RB]], false)).
Proof.
  intros f. unfold close_parts. destruct (felems f) as [|e [|e' es]]; cbv zeta.
  - right. destruct (fseq f); simpl; auto.
  - left. exists e. auto.
  - right. destruct (fseq f); cbv beta iota; simpl negb; cbv iota.
    + destruct (seq_broken (e :: e' :: es)); auto.
    + auto.
Qed.

Lemma felems_single : forall f e, felems f = [e] -> fdone f = [] /\ facc f = e.
Proof.
  intros f e H. unfold felems in H. destruct (fdone f) as [|x l].
  - simpl in H. injection H as ->. auto.
  - simpl in H. injection H as _ H. destruct l; discriminate.
Qed.

Lemma render_close_parts : forall f, render (fst (close_parts f)) = frame_text f ++ [RB].
Proof.
  intros f.
  destruct (close_parts_cases f) as [[e [E ->]]|[->|[Sq ->]]]; simpl fst.
  - apply felems_single in E. destruct E as [D A].
    rewrite render_cons, render_app, render_lit1. unfold frame_text. rewrite D, A. reflexivity.
  - rewrite render_cons, render_nil, app_nil_r, render_brace, join_felems.
    unfold frame_text. simpl. now rewrite <- app_assoc.
  - rewrite render_cons, render_app, render_flat_elems, render_lit1. change [DOT;DOT] with (sep true).
    rewrite <- Sq, join_felems. unfold frame_text. simpl. now rewrite <- !app_assoc.
Qed.

Lemma state_text_close : forall f r st,
  state_text (do_close f r st) = render (top st) ++ frames_text r ++ frame_text f ++ [RB].
Proof.
  intros f r st. unfold do_close. destruct (close_parts f) as [ps fnd] eqn:E.
  pose proof (render_close_parts f) as H. rewrite E in H. simpl in H.
  change (state_text (mkState (top (add_parts ps (mkState (top st) r (found st))))
                              (opn (add_parts ps (mkState (top st) r (found st)))) (found st || fnd)))
    with (state_text (add_parts ps (mkState (top st) r (found st)))).
  rewrite state_text_add_parts, H. unfold state_text; simpl. now rewrite <- app_assoc.
Qed.

(* the byte loop keeps: text of the state ++ pending ++ unread input *)
Lemma scan_text_n : forall n w, (length w <= n)%nat -> forall pend st st' pend',
  scan w pend st = (st', pend') ->
  state_text st' ++ pend' = state_text st ++ pend ++ w.
Proof.
  induction n as [|n IHn]; intros w Hn pend st st' pend' H.
  { destruct w; [|simpl in Hn; lia]. simpl in H. injection H as <- <-. now rewrite app_nil_r. }
  destruct w as [|c rest]; simpl in H.
  - injection H as <- <-. now rewrite app_nil_r.
  - simpl in Hn.
    assert (IH: forall w', (length w' <= length rest)%nat -> forall pend st st' pend',
              scan w' pend st = (st', pend') -> state_text st' ++ pend' = state_text st ++ pend ++ w').
    { intros w' Hw'. apply IHn. lia. }
    assert (IHr := IH rest (Nat.le_refl _)).
    assert (IHr': forall d rest', rest = d :: rest' -> forall pend st st' pend',
              scan rest' pend st = (st', pend') -> state_text st' ++ pend' = state_text st ++ pend ++ rest').
    { intros d rest' ->. apply IH. simpl. lia. }
    clear IH IHn Hn.
    destruct (c =? BS) eqn:Ebs.
    { destruct rest as [|d rest'].
      - injection H as <- <-. rewrite <- ?app_assoc; reflexivity.
      - apply (IHr' d rest' eq_refl) in H. rewrite H. rewrite <- ?app_assoc; reflexivity. }
    destruct (c =? LB) eqn:Elb.
    { apply IHr in H. rewrite H, state_text_open, state_text_flush. apply N.eqb_eq in Elb. subst c.
      rewrite <- ?app_assoc; reflexivity. }
    destruct st as [tp fs fd]. simpl opn in H. destruct fs as [|f r].
    { apply IHr in H. rewrite H. rewrite <- ?app_assoc; reflexivity. }
    assert (Hst: state_text (mkState tp (f :: r) fd) = render tp ++ frames_text r ++ frame_text f)
      by apply state_text_frame.
    destruct (c =? COMMA) eqn:Eco.
    { apply IHr in H. rewrite H, state_text_comma, frame_text_flush, Hst. apply N.eqb_eq in Eco. subst c.
      rewrite <- ?app_assoc; reflexivity. }
    destruct (c =? DOT) eqn:Edo.
    { destruct rest as [|d rest'].
      - apply IHr in H. rewrite H. rewrite <- ?app_assoc; reflexivity.
      - destruct (d =? DOT) eqn:Ed2.
        + destruct (negb (fseq f) && Nat.ltb 1 (length (felems f))) eqn:G.
          * apply IHr in H. rewrite H. rewrite <- ?app_assoc; reflexivity.
          * apply (IHr' d rest' eq_refl) in H. rewrite H, state_text_dots, frame_text_flush, Hst.
            -- apply N.eqb_eq in Edo, Ed2. subst c d. rewrite <- ?app_assoc; reflexivity.
            -- simpl. apply andb_false_iff in G. destruct G as [G|G].
               ++ left. now destruct (fseq f).
               ++ right. apply Nat.ltb_ge in G. unfold felems in G. rewrite app_length in G. simpl in G.
                  destruct (fdone f); [reflexivity|simpl in G; lia].
        + apply IHr in H. rewrite H. rewrite <- ?app_assoc; reflexivity. }
    destruct (c =? RB) eqn:Erb.
    { apply IHr in H. rewrite H, state_text_close, frame_text_flush, Hst. apply N.eqb_eq in Erb. subst c.
      rewrite <- ?app_assoc; reflexivity. }
    apply IHr in H. rewrite H. rewrite <- ?app_assoc; reflexivity.
Qed.

Lemma scan_text : forall w pend st st' pend',
  scan w pend st = (st', pend') ->
  state_text st' ++ pend' = state_text st ++ pend ++ w.
Proof. intros w. apply (scan_text_n (length w)). lia. Qed.

Lemma render_unclosed : forall fs inner tp,
  render (unclosed fs inner tp) = render tp ++ frames_text fs ++ render inner.
Proof.
  induction fs as [|f r IH]; intros inner tp; simpl.
  - now rewrite render_app.
  - rewrite IH, frames_text_cons. rewrite <- app_assoc. do 2 f_equal.
    rewrite render_cons, render_flat_elems, map_render_snoc, join_snoc, concat_map_sep, render_app.
    unfold frame_text. simpl. now rewrite <- !app_assoc.
Qed.

Theorem split_preserves_text : forall w, render (snd (split_braces w)) = w.
Proof.
  intros w. unfold split_braces.
  destruct (negb (contains_byte LB w)).
  { simpl. unfold render; simpl. now rewrite app_nil_r. }
  destruct (scan w [] (mkState [] [] false)) as [st pend] eqn:E.
  apply scan_text in E. simpl in E.
  destruct (found (flush pend st)).
  - simpl. rewrite render_unclosed, render_nil, app_nil_r.
    change (render (top (flush pend st)) ++ frames_text (opn (flush pend st))) with (state_text (flush pend st)).
    rewrite state_text_flush. exact E.
  - simpl. unfold render; simpl. now rewrite app_nil_r.
Qed.

Theorem split_preserves_text' : forall w, render (snd (split_braces w)) = render [PLit w].
Proof. intros w. now rewrite split_preserves_text, render_lit1. Qed.
