(* Proofs/ParamMatchProofs.v — the matcher theory behind ${v#p} ${v%p} ${v^p}: the backtracking
   (leftmost-first) matcher of Expand/Param.v against the declarative [pmatch] of ParamSpec.v. *)
From Verif Require Import Base.Str Expand.Param Expand.ParamSpec.
Open Scope N_scope.

Definition tok_of_atom (a : ratom) : ptok :=
  match a with RChar c => TLit c | RAny => TAny | RStar => TStar end.
Definition toks (a : list ratom) : list ptok := map tok_of_atom a.

(* ------------------------------------------------------------------ the two star loops *)

Section Stars.
  Context {A : Type}.
  Variable k : str -> option A.

  Lemma star_lazy_none : forall s,
    star_lazy k s = None <-> forall pre suf, s = pre ++ suf -> k suf = None.
  Proof.
    induction s as [|c s IH]; simpl.
    - destruct (k []) eqn:E; split; intros H; try discriminate.
      + specialize (H [] [] eq_refl). congruence.
      + intros pre suf Es. destruct pre; destruct suf; try discriminate. exact E.
      + reflexivity.
    - destruct (k (c :: s)) eqn:E.
      + split; [discriminate|]. intros H. specialize (H [] (c :: s) eq_refl). congruence.
      + rewrite IH. split.
        * intros H pre suf Es. destruct pre as [|d pre]; simpl in Es.
          -- subst suf. exact E.
          -- inversion Es; subst. apply (H pre suf eq_refl).
        * intros H pre suf Es. apply (H (c :: pre) suf). simpl. congruence.
  Qed.

  (* the first success is the leftmost one *)
  Lemma star_lazy_some : forall s r,
    star_lazy k s = Some r ->
    exists pre suf, s = pre ++ suf /\ k suf = Some r /\
      forall pre' suf', s = pre' ++ suf' -> (length pre' < length pre)%nat -> k suf' = None.
  Proof.
    induction s as [|c s IH]; simpl; intros r H.
    - destruct (k []) eqn:E; [|discriminate]. inversion H; subst.
      exists [], []. repeat split; auto. intros pre' suf' _ Hl. simpl in Hl. inversion Hl.
    - destruct (k (c :: s)) eqn:E.
      + inversion H; subst. exists [], (c :: s). repeat split; auto.
        intros pre' suf' _ Hl. simpl in Hl. inversion Hl.
      + destruct (IH r H) as (pre & suf & Es & Hk & Hmin).
        exists (c :: pre), suf. split; [simpl; congruence|]. split; [exact Hk|].
        intros pre' suf' Es' Hl. destruct pre' as [|d pre'].
        * simpl in Es'. subst suf'. exact E.
        * simpl in Es'. injection Es' as _ Es2. apply (Hmin pre' suf' Es2). simpl in Hl. apply Nat.succ_lt_mono. exact Hl.
  Qed.

  Lemma star_greedy_none : forall s,
    star_greedy k s = None <-> forall pre suf, s = pre ++ suf -> k suf = None.
  Proof.
    induction s as [|c s IH]; simpl.
    - split.
      + intros H pre suf Es. destruct pre; destruct suf; try discriminate. exact H.
      + intros H. apply (H [] [] eq_refl).
    - destruct (star_greedy k s) eqn:E.
      + split; [discriminate|]. intros H. exfalso.
        assert (Hn : Some a = None).
        { apply IH. intros pre suf Es. apply (H (c :: pre) suf). simpl. congruence. }
        discriminate.
      + destruct IH as [IH1 _]. specialize (IH1 eq_refl). split.
        * intros H pre suf Es. destruct pre as [|d pre]; simpl in Es.
          -- subst suf. exact H.
          -- inversion Es; subst. apply (IH1 pre suf eq_refl).
        * intros H. apply (H [] (c :: s) eq_refl).
  Qed.

  (* the first success is the rightmost one (longest prefix skipped) *)
  Lemma star_greedy_some : forall s r,
    star_greedy k s = Some r ->
    exists pre suf, s = pre ++ suf /\ k suf = Some r /\
      forall pre' suf', s = pre' ++ suf' -> (length pre < length pre')%nat -> k suf' = None.
  Proof.
    induction s as [|c s IH]; simpl; intros r H.
    - exists [], []. repeat split; auto. intros pre' suf' Es Hl.
      destruct pre'; [inversion Hl|discriminate].
    - destruct (star_greedy k s) eqn:E.
      + inversion H; subst. destruct (IH r eq_refl) as (pre & suf & Es & Hk & Hmax).
        exists (c :: pre), suf. split; [simpl; congruence|]. split; [exact Hk|].
        intros pre' suf' Es' Hl. destruct pre' as [|d pre']; [inversion Hl|].
        simpl in Es'. injection Es' as _ Es2. apply (Hmax pre' suf' Es2). simpl in Hl. apply Nat.succ_lt_mono. exact Hl.
      + exists [], (c :: s). repeat split; auto.
        intros pre' suf' Es' Hl. destruct pre' as [|d pre']; [inversion Hl|].
        simpl in Es'. injection Es' as _ Es2.
        apply (proj1 (star_greedy_none s) E pre' suf' Es2).
  Qed.
End Stars.

(* ------------------------------------------------------------------ rx_match vs pmatch *)

Lemma pmatch_star_app : forall p pre s, pmatch p s -> pmatch (TStar :: p) (pre ++ s).
Proof.
  intros p pre s H. induction pre as [|c pre IH]; simpl; [apply pm_star_0|apply pm_star_S]; assumption.
Qed.

Lemma pmatch_star_inv : forall p s, pmatch (TStar :: p) s -> exists pre suf, s = pre ++ suf /\ pmatch p suf.
Proof.
  intros p s H. remember (TStar :: p) as q eqn:E. induction H; try discriminate.
  - inversion E; subst. exists [], s. split; [reflexivity|assumption].
  - destruct (IHpmatch E) as (pre & suf & E' & Hm). subst s.
    exists (c :: pre), suf. split; [reflexivity|assumption].
Qed.

Lemma rx_match_sound : forall (A : Type) lz a (k : str -> option A) s r,
  rx_match lz a k s = Some r ->
  exists pre suf, s = pre ++ suf /\ pmatch (toks a) pre /\ k suf = Some r.
Proof.
  intros A lz a. induction a as [|t a IH]; intros k s r H; simpl in H.
  - exists [], s. repeat split; [constructor|exact H].
  - destruct t.
    + destruct s as [|d s]; [discriminate|]. destruct (N.eqb_spec d c); [|discriminate]. subst d.
      destruct (IH k s r H) as (pre & suf & Es & Hm & Hk).
      exists (c :: pre), suf. split; [simpl; congruence|]. split; [constructor; exact Hm|exact Hk].
    + destruct s as [|d s]; [discriminate|].
      destruct (IH k s r H) as (pre & suf & Es & Hm & Hk).
      exists (d :: pre), suf. split; [simpl; congruence|]. split; [constructor; exact Hm|exact Hk].
    + assert (Hs : exists pre1 suf1, s = pre1 ++ suf1 /\ rx_match lz a k suf1 = Some r).
      { destruct lz.
        - destruct (star_lazy_some _ _ _ H) as (p1 & s1 & E1 & H1 & _). exists p1, s1. auto.
        - destruct (star_greedy_some _ _ _ H) as (p1 & s1 & E1 & H1 & _). exists p1, s1. auto. }
      destruct Hs as (pre1 & suf1 & E1 & H1).
      destruct (IH k suf1 r H1) as (pre & suf & Es & Hm & Hk).
      exists (pre1 ++ pre), suf. split; [rewrite <- app_assoc; congruence|].
      split; [apply pmatch_star_app; exact Hm|exact Hk].
Qed.

Lemma rx_match_complete : forall (A : Type) lz a (k : str -> option A) s,
  rx_match lz a k s = None ->
  forall pre suf, s = pre ++ suf -> pmatch (toks a) pre -> k suf = None.
Proof.
  intros A lz a. induction a as [|t a IH]; intros k s H pre suf Es Hm; simpl in H, Hm.
  - inversion Hm; subst. exact H.
  - destruct t; simpl in Hm.
    + inversion Hm as [|c' p' s0 Hm' | | |]; subst. simpl in H. rewrite N.eqb_refl in H.
      apply (IH k _ H s0 suf eq_refl Hm').
    + inversion Hm as [| |c' p' s0 Hm' | |]; subst. simpl in H. apply (IH k _ H s0 suf eq_refl Hm').
    + destruct (pmatch_star_inv _ _ Hm) as (p1 & p2 & E & Hm2). subst pre.
      assert (Hn : rx_match lz a k (p2 ++ suf) = None).
      { destruct lz.
        - apply (proj1 (star_lazy_none _ s) H p1 (p2 ++ suf)). rewrite Es, app_assoc. reflexivity.
        - apply (proj1 (star_greedy_none _ s) H p1 (p2 ++ suf)). rewrite Es, app_assoc. reflexivity. }
      apply (IH k _ Hn p2 suf eq_refl Hm2).
Qed.

(* whole-string match with the end anchor *)
Lemma rx_match_at_end : forall (A : Type) lz a (v : A) s,
  (forall v', rx_match lz a (at_end v) s = Some v' -> v' = v /\ pmatch (toks a) s) /\
  (pmatch (toks a) s -> rx_match lz a (at_end v) s = Some v).
Proof.
  intros A lz a v s. split.
  - intros v' H. destruct (rx_match_sound _ _ _ _ _ _ H) as (pre & suf & Es & Hm & Hk).
    destruct suf; [|discriminate]. simpl in Hk. inversion Hk; subst. rewrite app_nil_r. split; [reflexivity|exact Hm].
  - intros Hm. destruct (rx_match lz a (at_end v) s) as [v'|] eqn:E.
    + destruct (rx_match_sound _ _ _ _ _ _ E) as (pre & suf & Es & _ & Hk).
      destruct suf; [|discriminate]. simpl in Hk. symmetry. exact Hk.
    + pose proof (rx_match_complete _ _ _ _ _ E s [] (eq_sym (app_nil_r s)) Hm) as Hk. discriminate.
Qed.

(* ------------------------------------------------------------------ ${v%p} ${v%%p}: full *)

Lemma firstn_app_len : forall (A : Type) (pre suf : list A),
  firstn (length (pre ++ suf) - length suf) (pre ++ suf) = pre.
Proof.
  intros. rewrite app_length. replace (length pre + length suf - length suf)%nat with (length pre) by lia.
  rewrite firstn_app, Nat.sub_diag, firstn_all. simpl. apply app_nil_r.
Qed.

Theorem remove_suffix_correct : forall s pat a shortest,
  pat_atoms pat = PatOk a ->
  is_suffix_removal (negb shortest) (toks a) s (remove_pattern s pat true shortest).
Proof.
  intros s pat a shortest Hp. unfold remove_pattern. rewrite Hp. cbv zeta.
  set (grp := fun s1 : str => rx_match shortest a (at_end (length s1)) s1).
  assert (Hgrp_some : forall s1 n, grp s1 = Some n -> n = length s1 /\ pmatch (toks a) s1).
  { intros s1 n H. apply (proj1 (rx_match_at_end _ shortest a (length s1) s1) n H). }
  assert (Hgrp_match : forall s1, pmatch (toks a) s1 -> grp s1 = Some (length s1)).
  { intros s1 H. apply (proj2 (rx_match_at_end _ shortest a (length s1) s1) H). }
  destruct shortest; simpl negb; cbv iota.
  - (* shortest suffix: star_lazy (star_greedy grp) *)
    change (is_suffix_removal false (toks a) s
              match star_lazy (star_greedy grp) s with Some n0 => firstn (length s - n0) s | None => s end).
    destruct (star_greedy grp s) as [n1|] eqn:EG.
    + assert (EL : star_lazy (star_greedy grp) s = Some n1) by (destruct s; cbn [star_lazy]; rewrite EG; reflexivity).
      rewrite EL.
      destruct (star_greedy_some _ _ _ EG) as (pre & suf & Es & Hk & Hmax).
      destruct (Hgrp_some _ _ Hk) as [-> Hm]. left. exists suf. subst s. rewrite firstn_app_len.
      repeat split; auto.
      intros r' suf' Es' Hm'.
      destruct (Nat.le_gt_cases (length suf) (length suf')) as [Hle|Hgt]; [exact Hle|exfalso].
      assert (Hlen : (length pre < length r')%nat).
      { apply (f_equal (@length N)) in Es'. rewrite !app_length in Es'. lia. }
      pose proof (Hmax r' suf' Es' Hlen) as Hn. rewrite (Hgrp_match _ Hm') in Hn. discriminate.
    + assert (Hall : forall pre suf, s = pre ++ suf -> grp suf = None)
        by (apply (proj1 (star_greedy_none grp s) EG)).
      assert (EL : star_lazy (star_greedy grp) s = None).
      { apply star_lazy_none. intros pre suf Es. apply star_greedy_none.
        intros p2 s2 E2. apply (Hall (pre ++ p2) s2). rewrite Es, E2, app_assoc. reflexivity. }
      rewrite EL. right. split; [reflexivity|].
      intros r' suf' Es' Hm'. pose proof (Hall r' suf' Es') as Hn. rewrite (Hgrp_match _ Hm') in Hn. discriminate.
  - (* longest suffix: star_lazy grp *)
    change (is_suffix_removal true (toks a) s
              match star_lazy grp s with Some n0 => firstn (length s - n0) s | None => s end).
    destruct (star_lazy grp s) as [n1|] eqn:EL.
    + destruct (star_lazy_some _ _ _ EL) as (pre & suf & Es & Hk & Hmin).
      destruct (Hgrp_some _ _ Hk) as [-> Hm]. left. exists suf. subst s. rewrite firstn_app_len.
      repeat split; auto.
      intros r' suf' Es' Hm'.
      destruct (Nat.le_gt_cases (length suf') (length suf)) as [Hle|Hgt]; [exact Hle|exfalso].
      assert (Hlen : (length r' < length pre)%nat).
      { apply (f_equal (@length N)) in Es'. rewrite !app_length in Es'. lia. }
      pose proof (Hmin r' suf' Es' Hlen) as Hn. rewrite (Hgrp_match _ Hm') in Hn. discriminate.
    + right. split; [reflexivity|].
      intros r' suf' Es' Hm'. pose proof (proj1 (star_lazy_none grp s) EL r' suf' Es') as Hn.
      rewrite (Hgrp_match _ Hm') in Hn. discriminate.
Qed.

(* ------------------------------------------------------------------ ${v#p} ${v##p}: partial (no optimality) *)

Theorem remove_prefix_sound : forall s pat a shortest,
  pat_atoms pat = PatOk a ->
  let r := remove_pattern s pat false shortest in
  (exists pre, s = pre ++ r /\ pmatch (toks a) pre) \/
  (r = s /\ forall pre suf, s = pre ++ suf -> ~ pmatch (toks a) pre).
Proof.
  intros s pat a shortest Hp. unfold remove_pattern. rewrite Hp. cbv zeta.
  destruct (rx_match shortest a (fun rest => Some rest) s) as [rest|] eqn:E.
  - left. destruct (rx_match_sound _ _ _ _ _ _ E) as (pre & suf & Es & Hm & Hk). inversion Hk; subst.
    exists pre. auto.
  - right. split; [reflexivity|]. intros pre suf Es Hm.
    pose proof (rx_match_complete _ _ _ _ _ E pre suf Es Hm) as Hk. discriminate.
Qed.

(* an erroneous pattern (trailing backslash) leaves the value alone *)
Lemma remove_pattern_err : forall s pat fe sh, pat_atoms pat = PatErr -> remove_pattern s pat fe sh = s.
Proof. intros. unfold remove_pattern. rewrite H. reflexivity. Qed.

(* ------------------------------------------------------------------ ${v^p} ${v^^p} ${v,p} ${v,,p} *)

Lemma match_char_spec : forall a c,
  match_char a c = true <-> (a = [] \/ pmatch (toks a) [c]).
Proof.
  intros a c. unfold match_char.
  destruct (star_lazy (fun s1 => rx_match false a (fun _ => Some tt) s1) [c]) as [u|] eqn:E.
  - split; [intros _|reflexivity].
    destruct (star_lazy_some _ _ _ E) as (pre & suf & Es & Hk & _).
    destruct (rx_match_sound _ _ _ _ _ _ Hk) as (p2 & s2 & E2 & Hm & _).
    (* [c] = pre ++ p2 ++ s2 and p2 matches: p2 is [] or [c] *)
    destruct a as [|t a]; [left; reflexivity|right].
    destruct p2 as [|d p2].
    + (* the pattern matches the empty string: all stars, so it matches [c] too *)
      destruct t; simpl in Hm; try (inversion Hm; fail).
      simpl. apply pm_star_S. exact Hm.
    + assert (d = c /\ p2 = []).
      { subst suf. destruct pre as [|e pre]; simpl in Es.
        - inversion Es; subst. destruct p2; [auto|discriminate].
        - inversion Es. destruct pre; discriminate. }
      destruct H as [-> ->]. exact Hm.
  - split; [discriminate|]. intros H. exfalso.
    pose proof (proj1 (star_lazy_none _ [c]) E) as Hall.
    destruct H as [->|Hm].
    + specialize (Hall [] [c] eq_refl). simpl in Hall. discriminate.
    + specialize (Hall [] [c] eq_refl).
      pose proof (rx_match_complete _ _ _ _ _ Hall [c] [] eq_refl Hm). discriminate.
Qed.

Theorem case_conv_correct : forall conv all arg a elems,
  pat_atoms arg = PatOk a ->
  case_conv_elems conv all arg elems = Some (map (bash_case conv all (match_char a)) elems).
Proof. intros. unfold case_conv_elems. rewrite H. reflexivity. Qed.

(* ------------------------------------------------------------------ ${v/%p/w} and ${v/#p/w}, ${v/p/w} *)

(* ${v/%p/w}: the longest suffix matching p is replaced by w; unchanged if no suffix matches *)
Theorem replace_anchored_end_correct : forall a w s,
  let r := replace_anchored a w s true in
  (exists pre suf, s = pre ++ suf /\ pmatch (toks a) suf /\ r = pre ++ w /\
     forall pre' suf', s = pre' ++ suf' -> pmatch (toks a) suf' -> (length suf' <= length suf)%nat)
  \/ (r = s /\ forall pre suf, s = pre ++ suf -> ~ pmatch (toks a) suf).
Proof.
  intros a w s. unfold replace_anchored. cbv zeta.
  set (grp := fun s1 : str => rx_match false a (at_end (length s1)) s1).
  change (match star_lazy grp s with Some n1 => firstn (length s - n1) s ++ w | None => s end) with
         (match star_lazy grp s with Some n1 => firstn (length s - n1) s ++ w | None => s end).
  assert (Hgrp_some : forall s1 n, grp s1 = Some n -> n = length s1 /\ pmatch (toks a) s1).
  { intros s1 n H. apply (proj1 (rx_match_at_end _ false a (length s1) s1) n H). }
  assert (Hgrp_match : forall s1, pmatch (toks a) s1 -> grp s1 = Some (length s1)).
  { intros s1 H. apply (proj2 (rx_match_at_end _ false a (length s1) s1) H). }
  destruct (star_lazy grp s) as [n1|] eqn:EL.
  - destruct (star_lazy_some _ _ _ EL) as (pre & suf & Es & Hk & Hmin).
    destruct (Hgrp_some _ _ Hk) as [-> Hm]. left. exists pre, suf. subst s. rewrite firstn_app_len.
    repeat split; auto.
    intros r' suf' Es' Hm'.
    destruct (Nat.le_gt_cases (length suf') (length suf)) as [Hle|Hgt]; [exact Hle|exfalso].
    assert (Hlen : (length r' < length pre)%nat).
    { apply (f_equal (@length N)) in Es'. rewrite !app_length in Es'. lia. }
    pose proof (Hmin r' suf' Es' Hlen) as Hn. rewrite (Hgrp_match _ Hm') in Hn. discriminate.
  - right. split; [reflexivity|].
    intros r' suf' Es' Hm'. pose proof (proj1 (star_lazy_none grp s) EL r' suf' Es') as Hn.
    rewrite (Hgrp_match _ Hm') in Hn. discriminate.
Qed.

(* ${v/#p/w}: a prefix matching p is replaced by w (partial: not shown to be the longest) *)
Theorem replace_anchored_begin_sound : forall a w s,
  let r := replace_anchored a w s false in
  (exists pre suf, s = pre ++ suf /\ pmatch (toks a) pre /\ r = w ++ suf)
  \/ (r = s /\ forall pre suf, s = pre ++ suf -> ~ pmatch (toks a) pre).
Proof.
  intros a w s. unfold replace_anchored. cbv zeta.
  destruct (rx_match false a (fun rest => Some rest) s) as [rest|] eqn:E.
  - left. destruct (rx_match_sound _ _ _ _ _ _ E) as (pre & suf & Es & Hm & Hk). inversion Hk; subst.
    exists pre, rest. auto.
  - right. split; [reflexivity|]. intros pre suf Es Hm.
    pose proof (rx_match_complete _ _ _ _ _ E pre suf Es Hm) as Hk. discriminate.
Qed.

(* ${v/p/w}: the replaced occurrence starts at the leftmost position where p matches
   (partial: which of the matches starting there is taken is not characterised) *)
Theorem replace_first_sound : forall a w s,
  let r := replace_first a w s in
  (exists pre mid post, s = pre ++ mid ++ post /\ pmatch (toks a) mid /\ r = pre ++ w ++ post /\
     forall pre' mid' post', s = pre' ++ mid' ++ post' -> pmatch (toks a) mid' -> (length pre <= length pre')%nat)
  \/ (r = s /\ forall pre mid post, s = pre ++ mid ++ post -> ~ pmatch (toks a) mid).
Proof.
  intros a w s. unfold replace_first, find_first. cbv zeta.
  set (k := fun s1 : str => rx_match false a (fun rest : str => Some (length s1, length rest)) s1).
  change (star_lazy (fun s1 : str => rx_match false a (fun rest : str => Some (length s1, length rest)) s1) s)
    with (star_lazy k s).
  destruct (star_lazy k s) as [[n1 n2]|] eqn:EL.
  - destruct (star_lazy_some _ _ _ EL) as (pre & suf & Es & Hk & Hmin).
    unfold k in Hk. destruct (rx_match_sound _ _ _ _ _ _ Hk) as (mid & post & E2 & Hm & Hk2).
    inversion Hk2; subst n1 n2. left. exists pre, mid, post. subst suf. split; [exact Es|]. split; [exact Hm|]. split.
    + subst s. f_equal.
      * replace (length (pre ++ mid ++ post) - length (mid ++ post))%nat with (length pre)
          by (rewrite !app_length; lia).
        rewrite firstn_app, Nat.sub_diag, firstn_all. simpl. apply app_nil_r.
      * f_equal. replace (length (pre ++ mid ++ post) - length post)%nat with (length (pre ++ mid))
          by (rewrite !app_length; lia).
        rewrite app_assoc. rewrite skipn_app, Nat.sub_diag, skipn_all. reflexivity.
    + intros pre' mid' post' Es' Hm'.
      destruct (Nat.le_gt_cases (length pre) (length pre')) as [Hle|Hgt]; [exact Hle|exfalso].
      pose proof (Hmin pre' (mid' ++ post') Es' Hgt) as Hn. unfold k in Hn.
      pose proof (rx_match_complete _ _ _ _ _ Hn mid' post' eq_refl Hm'). discriminate.
  - right. split; [reflexivity|]. intros pre mid post Es Hm.
    pose proof (proj1 (star_lazy_none k s) EL pre (mid ++ post) Es) as Hn. unfold k in Hn.
    pose proof (rx_match_complete _ _ _ _ _ Hn mid post eq_refl Hm). discriminate.
Qed.

(* ------------------------------------------------------------------ optimality of prefix matches:
   greedy backtracking = the longest matching prefix, lazy = the shortest *)

Lemma pmatch_app_intro : forall p q u w, pmatch p u -> pmatch q w -> pmatch (p ++ q) (u ++ w).
Proof.
  intros p q u w Hp Hq. induction Hp; simpl.
  - exact Hq.
  - constructor. exact IHHp.
  - constructor. exact IHHp.
  - apply pm_star_0. exact IHHp.
  - apply pm_star_S. exact IHHp.
Qed.

Lemma pmatch_app_inv : forall p q x, pmatch (p ++ q) x ->
  exists u w, x = u ++ w /\ pmatch p u /\ pmatch q w.
Proof.
  induction p as [|t p IH]; intros q x H; simpl in H.
  - exists [], x. repeat split; [constructor|exact H].
  - destruct t.
    + inversion H as [|c' p' s0 H' | | |]; subst.
      destruct (IH q s0 H') as (u & w & -> & Hu & Hw). exists (c :: u), w. repeat split; [constructor; exact Hu|exact Hw].
    + inversion H as [| |c' p' s0 H' | |]; subst.
      destruct (IH q s0 H') as (u & w & -> & Hu & Hw). exists (c' :: u), w. repeat split; [constructor; exact Hu|exact Hw].
    + destruct (pmatch_star_inv _ _ H) as (pre & suf & -> & H').
      destruct (IH q suf H') as (u & w & -> & Hu & Hw).
      exists (pre ++ u), w. split; [rewrite app_assoc; reflexivity|]. split; [apply pmatch_star_app; exact Hu|exact Hw].
Qed.

Definition star_free (a : list ratom) : bool :=
  forallb (fun t => match t with RStar => false | _ => true end) a.

Lemma star_free_len : forall a x, star_free a = true -> pmatch (toks a) x -> length x = length a.
Proof.
  induction a as [|t a IH]; intros x Hs Hm; simpl in *.
  - inversion Hm. reflexivity.
  - apply andb_true_iff in Hs. destruct Hs as [Ht Hs]. destruct t; try discriminate; simpl in Hm.
    + inversion Hm as [|c' p' s0 H' | | |]; subst. simpl. f_equal. apply IH; assumption.
    + inversion Hm as [| |c' p' s0 H' | |]; subst. simpl. f_equal. apply IH; assumption.
Qed.

Lemma last_star : forall a, star_free a = true \/ exists f g, a = f ++ RStar :: g /\ star_free g = true.
Proof.
  induction a as [|t a IH]; [left; reflexivity|].
  destruct IH as [Hs|(f & g & -> & Hg)].
  - destruct t; [left; simpl; exact Hs|left; simpl; exact Hs|right; exists [], a; split; [reflexivity|exact Hs]].
  - right. exists (t :: f), g. split; [reflexivity|exact Hg].
Qed.

Lemma first_star : forall a, star_free a = true \/ exists f g, a = f ++ RStar :: g /\ star_free f = true.
Proof.
  induction a as [|t a IH]; [left; reflexivity|].
  destruct t.
  - destruct IH as [Hs|(f & g & -> & Hf)]; [left; exact Hs|right; exists (RChar c :: f), g; split; [reflexivity|exact Hf]].
  - destruct IH as [Hs|(f & g & -> & Hf)]; [left; exact Hs|right; exists (RAny :: f), g; split; [reflexivity|exact Hf]].
  - right. exists [], a. split; reflexivity.
Qed.

Lemma toks_app : forall f g, toks (f ++ g) = toks f ++ toks g.
Proof. intros. unfold toks. apply map_app. Qed.

Lemma app_eq_split : forall (A : Type) (a b c d : list A),
  a ++ b = c ++ d -> (length a <= length c)%nat -> exists e, c = a ++ e /\ b = e ++ d.
Proof.
  induction a as [|x a IH]; intros b c d H Hl.
  - exists c. split; [reflexivity|exact H].
  - destruct c as [|y c]; [simpl in Hl; lia|]. simpl in H. inversion H; subst.
    destruct (IH b c d H2) as (e & -> & ->); [simpl in Hl; lia|]. exists e. split; reflexivity.
Qed.

Definition K_rest : str -> option str := fun rest => Some rest.

Lemma rx_some_exists : forall lz a s,
  (exists pre suf, s = pre ++ suf /\ pmatch (toks a) pre) -> exists rest, rx_match lz a K_rest s = Some rest.
Proof.
  intros lz a s (pre & suf & Es & Hm). destruct (rx_match lz a K_rest s) as [rest|] eqn:E; [exists rest; reflexivity|].
  pose proof (rx_match_complete _ _ _ _ _ E pre suf Es Hm) as Hk. discriminate.
Qed.

(* a later start reaches at least as far: if r matches q2 at the start of q2 ++ suf, and s1 is a later
   suffix of that string on which r matches at all, then r matches a prefix of s1 that leaves at most suf *)
Lemma shift_right : forall r q2 suf d s1 m rest0,
  pmatch (toks r) q2 -> q2 ++ suf = d ++ s1 ->
  s1 = m ++ rest0 -> pmatch (toks r) m ->
  exists m' rest', s1 = m' ++ rest' /\ pmatch (toks r) m' /\ (length rest' <= length suf)%nat.
Proof.
  intros r q2 suf d s1 m rest0 Hq E Es1 Hm.
  destruct (Nat.le_gt_cases (length rest0) (length suf)) as [Hle|Hgt].
  { exists m, rest0. auto. }
  destruct (last_star r) as [Hsf|(f & g & -> & Hg)].
  - (* fixed length: impossible to leave more *)
    pose proof (star_free_len _ _ Hsf Hq) as L1. pose proof (star_free_len _ _ Hsf Hm) as L2.
    apply (f_equal (@length N)) in E. subst s1. rewrite !app_length in E. lia.
  - rewrite toks_app in Hq, Hm. simpl toks in Hq, Hm.
    destruct (pmatch_app_inv _ _ _ Hq) as (u2 & x2 & -> & Hu2 & Hx2).
    destruct (pmatch_app_inv _ _ _ Hm) as (u1 & x1 & -> & Hu1 & Hx1).
    destruct (pmatch_star_inv _ _ Hx2) as (v2 & w2 & -> & Hw2).
    destruct (pmatch_star_inv _ _ Hx1) as (v1 & w1 & -> & Hw1).
    pose proof (star_free_len _ _ Hg Hw2) as L2. pose proof (star_free_len _ _ Hg Hw1) as L1.
    (* w2 ++ suf is a suffix of s1, after u1 *)
    assert (Elen : (length (d ++ u1) <= length ((u2 ++ v2)))%nat).
    { apply (f_equal (@length N)) in E. subst s1. rewrite !app_length in *. lia. }
    assert (E' : (d ++ u1) ++ ((v1 ++ w1) ++ rest0) = (u2 ++ v2) ++ (w2 ++ suf)).
    { subst s1. rewrite <- !app_assoc in *. rewrite <- E. reflexivity. }
    destruct (app_eq_split _ _ _ _ _ E' Elen) as (V & EV & EV2).
    exists (u1 ++ V ++ w2), suf. split; [|split; [|lia]].
    + subst s1. rewrite <- !app_assoc. f_equal. rewrite <- ?app_assoc in EV2. exact EV2.
    + rewrite toks_app. apply pmatch_app_intro; [exact Hu1|]. simpl. apply pmatch_star_app. exact Hw2.
Qed.

Theorem greedy_longest : forall a s rest,
  rx_match false a K_rest s = Some rest ->
  forall pre suf, s = pre ++ suf -> pmatch (toks a) pre -> (length rest <= length suf)%nat.
Proof.
  induction a as [|t a IH]; intros s rest H pre suf Es Hm.
  - simpl in H. inversion H; subst. inversion Hm; subst. simpl. lia.
  - destruct t; simpl in H, Hm.
    + inversion Hm as [|c' p' s0 H' | | |]; subst. simpl in H. rewrite N.eqb_refl in H.
      apply (IH _ _ H s0 suf eq_refl H').
    + inversion Hm as [| |c' p' s0 H' | |]; subst. simpl in H. apply (IH _ _ H s0 suf eq_refl H').
    + destruct (star_greedy_some _ _ _ H) as (p1 & s1 & Es1 & Hk & Hmax).
      destruct (pmatch_star_inv _ _ Hm) as (q1 & q2 & -> & Hq2).
      destruct (rx_match_sound _ _ _ _ _ _ Hk) as (m & rest0 & Em & Hmm & Hk0). inversion Hk0; subst rest0.
      destruct (Nat.lt_trichotomy (length q1) (length p1)) as [Hlt|[Heq|Hgt]].
      * (* the competitor starts earlier *)
        assert (E2 : q1 ++ (q2 ++ suf) = p1 ++ s1) by (rewrite <- Es1, Es, app_assoc; reflexivity).
        destruct (app_eq_split _ _ _ _ _ E2 (Nat.lt_le_incl _ _ Hlt)) as (d & -> & Ed).
        destruct (shift_right a q2 suf d s1 m rest Hq2 Ed Em Hmm) as (m' & rest' & Es' & Hm' & Hl').
        pose proof (IH _ _ Hk m' rest' Es' Hm'). lia.
      * assert (E2 : q1 ++ (q2 ++ suf) = p1 ++ s1) by (rewrite <- Es1, Es, app_assoc; reflexivity).
        destruct (app_eq_split _ _ _ _ _ E2 (Nat.eq_le_incl _ _ Heq)) as (d & -> & Ed).
        rewrite app_length in Heq. destruct d; [|simpl in Heq; lia]. simpl in Ed.
        apply (IH _ _ Hk q2 suf (eq_sym Ed) Hq2).
      * exfalso. assert (E2 : s = q1 ++ (q2 ++ suf)) by (rewrite Es, app_assoc; reflexivity).
        pose proof (Hmax q1 (q2 ++ suf) E2 Hgt) as Hn.
        pose proof (rx_match_complete _ _ _ _ _ Hn q2 suf eq_refl Hq2). discriminate.
Qed.

(* an earlier start can stop at least as early *)
Lemma shift_left : forall r q2 suf d s1 m rest0,
  pmatch (toks r) q2 -> s1 = d ++ q2 ++ suf ->
  s1 = m ++ rest0 -> pmatch (toks r) m ->
  exists m' rest', s1 = m' ++ rest' /\ pmatch (toks r) m' /\ (length suf <= length rest')%nat.
Proof.
  intros r q2 suf d s1 m rest0 Hq E Es1 Hm.
  destruct (Nat.le_gt_cases (length suf) (length rest0)) as [Hle|Hgt].
  { exists m, rest0. auto. }
  destruct (first_star r) as [Hsf|(f & g & -> & Hf)].
  - pose proof (star_free_len _ _ Hsf Hq) as L1. pose proof (star_free_len _ _ Hsf Hm) as L2.
    assert (E3 : length (d ++ q2 ++ suf) = length (m ++ rest0)) by (rewrite <- E, <- Es1; reflexivity).
    rewrite !app_length in E3. lia.
  - rewrite toks_app in Hq, Hm. simpl toks in Hq, Hm.
    destruct (pmatch_app_inv _ _ _ Hq) as (u2 & x2 & -> & Hu2 & Hx2).
    destruct (pmatch_app_inv _ _ _ Hm) as (u1 & x1 & -> & Hu1 & Hx1).
    destruct (pmatch_star_inv _ _ Hx2) as (v2 & w2 & -> & Hw2).
    pose proof (star_free_len _ _ Hf Hu2) as L2. pose proof (star_free_len _ _ Hf Hu1) as L1.
    assert (E' : u1 ++ (x1 ++ rest0) = (d ++ u2 ++ v2) ++ (w2 ++ suf)).
    { rewrite <- !app_assoc in *. rewrite <- Es1, E. reflexivity. }
    assert (Elen : (length u1 <= length (d ++ u2 ++ v2))%nat) by (rewrite !app_length; lia).
    destruct (app_eq_split _ _ _ _ _ E' Elen) as (V & EV & EV2).
    exists (u1 ++ V ++ w2), suf. split; [|split; [|lia]].
    + rewrite E. rewrite <- !app_assoc. rewrite !app_assoc. rewrite <- (app_assoc d), <- (app_assoc d).
      rewrite !app_assoc in EV. rewrite <- !app_assoc in EV. rewrite <- !app_assoc.
      transitivity ((d ++ u2 ++ v2) ++ w2 ++ suf); [rewrite <- !app_assoc; reflexivity|].
      rewrite EV. rewrite <- !app_assoc. reflexivity.
    + rewrite toks_app. apply pmatch_app_intro; [exact Hu1|]. simpl. apply pmatch_star_app. exact Hw2.
Qed.

Theorem lazy_shortest : forall a s rest,
  rx_match true a K_rest s = Some rest ->
  forall pre suf, s = pre ++ suf -> pmatch (toks a) pre -> (length suf <= length rest)%nat.
Proof.
  induction a as [|t a IH]; intros s rest H pre suf Es Hm.
  - simpl in H. inversion H; subst. inversion Hm; subst. simpl. lia.
  - destruct t; simpl in H, Hm.
    + inversion Hm as [|c' p' s0 H' | | |]; subst. simpl in H. rewrite N.eqb_refl in H.
      apply (IH _ _ H s0 suf eq_refl H').
    + inversion Hm as [| |c' p' s0 H' | |]; subst. simpl in H. apply (IH _ _ H s0 suf eq_refl H').
    + destruct (star_lazy_some _ _ _ H) as (p1 & s1 & Es1 & Hk & Hmin).
      destruct (pmatch_star_inv _ _ Hm) as (q1 & q2 & -> & Hq2).
      destruct (rx_match_sound _ _ _ _ _ _ Hk) as (m & rest0 & Em & Hmm & Hk0). inversion Hk0; subst rest0.
      destruct (Nat.lt_trichotomy (length p1) (length q1)) as [Hlt|[Heq|Hgt]].
      * (* the competitor starts later *)
        assert (E2 : p1 ++ s1 = q1 ++ (q2 ++ suf)) by (rewrite <- Es1, Es, app_assoc; reflexivity).
        destruct (app_eq_split _ _ _ _ _ E2 (Nat.lt_le_incl _ _ Hlt)) as (d & -> & Ed).
        destruct (shift_left a q2 suf d s1 m rest Hq2 Ed Em Hmm) as (m' & rest' & Es' & Hm' & Hl').
        pose proof (IH _ _ Hk m' rest' Es' Hm'). lia.
      * assert (E2 : p1 ++ s1 = q1 ++ (q2 ++ suf)) by (rewrite <- Es1, Es, app_assoc; reflexivity).
        destruct (app_eq_split _ _ _ _ _ E2 (Nat.eq_le_incl _ _ Heq)) as (d & -> & Ed).
        rewrite app_length in Heq. destruct d; [|simpl in Heq; lia]. simpl in Ed.
        apply (IH _ _ Hk q2 suf Ed Hq2).
      * exfalso. assert (E2 : s = q1 ++ (q2 ++ suf)) by (rewrite Es, app_assoc; reflexivity).
        pose proof (Hmin q1 (q2 ++ suf) E2 Hgt) as Hn.
        pose proof (rx_match_complete _ _ _ _ _ Hn q2 suf eq_refl Hq2). discriminate.
Qed.

(* ${v#p} ${v##p}: full *)
Theorem remove_prefix_correct : forall s pat a shortest,
  pat_atoms pat = PatOk a ->
  is_prefix_removal (negb shortest) (toks a) s (remove_pattern s pat false shortest).
Proof.
  intros s pat a shortest Hp. unfold remove_pattern. rewrite Hp. cbv zeta.
  change (fun rest : str => Some rest) with K_rest.
  destruct (rx_match shortest a K_rest s) as [rest|] eqn:E.
  - left. destruct (rx_match_sound _ _ _ _ _ _ E) as (pre & suf & Es & Hm & Hk). inversion Hk; subst suf.
    exists pre. split; [exact Es|]. split; [exact Hm|].
    intros pre' r' Es' Hm'.
    assert (Hlen : (length pre + length rest = length pre' + length r')%nat)
      by (rewrite <- !app_length, <- Es, <- Es'; reflexivity).
    destruct shortest; simpl negb; cbv iota.
    + pose proof (lazy_shortest _ _ _ E pre' r' Es' Hm'). lia.
    + pose proof (greedy_longest _ _ _ E pre' r' Es' Hm'). lia.
  - right. split; [reflexivity|]. intros pre suf Es Hm.
    pose proof (rx_match_complete _ _ _ _ _ E pre suf Es Hm) as Hk. discriminate.
Qed.

(* ${v/#p/w}: the LONGEST matching prefix is replaced *)
Theorem replace_anchored_begin_correct : forall a w s,
  let r := replace_anchored a w s false in
  (exists pre suf, s = pre ++ suf /\ pmatch (toks a) pre /\ r = w ++ suf /\
     forall pre' suf', s = pre' ++ suf' -> pmatch (toks a) pre' -> (length pre' <= length pre)%nat)
  \/ (r = s /\ forall pre suf, s = pre ++ suf -> ~ pmatch (toks a) pre).
Proof.
  intros a w s. unfold replace_anchored. cbv zeta. change (fun rest : str => Some rest) with K_rest.
  destruct (rx_match false a K_rest s) as [rest|] eqn:E.
  - left. destruct (rx_match_sound _ _ _ _ _ _ E) as (pre & suf & Es & Hm & Hk). inversion Hk; subst suf.
    exists pre, rest. repeat split; auto.
    intros pre' suf' Es' Hm'.
    assert (Hlen : (length pre + length rest = length pre' + length suf')%nat)
      by (rewrite <- !app_length, <- Es, <- Es'; reflexivity).
    pose proof (greedy_longest _ _ _ E pre' suf' Es' Hm'). lia.
  - right. split; [reflexivity|]. intros pre suf Es Hm.
    pose proof (rx_match_complete _ _ _ _ _ E pre suf Es Hm) as Hk. discriminate.
Qed.

(* ------------------------------------------------------------------ ${v/p/w}: leftmost, and longest at that position *)

Lemma star_greedy_map : forall (A B : Type) (g : A -> B) (k : str -> option A) s,
  star_greedy (fun x => option_map g (k x)) s = option_map g (star_greedy k s).
Proof.
  intros A B g k. induction s as [|c s IH]; simpl; [reflexivity|].
  rewrite IH. destruct (star_greedy k s); reflexivity.
Qed.

Lemma star_lazy_map : forall (A B : Type) (g : A -> B) (k : str -> option A) s,
  star_lazy (fun x => option_map g (k x)) s = option_map g (star_lazy k s).
Proof.
  intros A B g k. induction s as [|c s IH]; simpl.
  - destruct (k []); reflexivity.
  - destruct (k (c :: s)); [reflexivity|]. exact IH.
Qed.

Lemma star_greedy_ext : forall (A : Type) (k1 k2 : str -> option A) s,
  (forall x, k1 x = k2 x) -> star_greedy k1 s = star_greedy k2 s.
Proof. intros A k1 k2 s H. induction s as [|c s IH]; simpl; [apply H|]. rewrite IH, H. reflexivity. Qed.

Lemma star_lazy_ext : forall (A : Type) (k1 k2 : str -> option A) s,
  (forall x, k1 x = k2 x) -> star_lazy k1 s = star_lazy k2 s.
Proof. intros A k1 k2 s H. induction s as [|c s IH]; simpl; rewrite H; [reflexivity|]. rewrite IH. reflexivity. Qed.

Lemma rx_match_map : forall (B : Type) (g : str -> B) lz a s,
  rx_match lz a (fun rest => Some (g rest)) s = option_map g (rx_match lz a K_rest s).
Proof.
  intros B g lz a. induction a as [|t a IH]; intros s; simpl.
  - reflexivity.
  - destruct t.
    + destruct s as [|d s]; [reflexivity|]. destruct (d =? c); [apply IH|reflexivity].
    + destruct s as [|d s]; [reflexivity|]. apply IH.
    + destruct lz.
      * rewrite (star_lazy_ext _ _ (fun x => option_map g (rx_match true a K_rest x)) s IH). apply star_lazy_map.
      * rewrite (star_greedy_ext _ _ (fun x => option_map g (rx_match false a K_rest x)) s IH). apply star_greedy_map.
Qed.

Theorem replace_first_correct : forall a w s,
  let r := replace_first a w s in
  (exists pre mid post, s = pre ++ mid ++ post /\ pmatch (toks a) mid /\ r = pre ++ w ++ post /\
     (* leftmost position ... *)
     (forall pre' mid' post', s = pre' ++ mid' ++ post' -> pmatch (toks a) mid' -> (length pre <= length pre')%nat) /\
     (* ... and the longest match at that position *)
     (forall mid' post', mid ++ post = mid' ++ post' -> pmatch (toks a) mid' -> (length mid' <= length mid)%nat))
  \/ (r = s /\ forall pre mid post, s = pre ++ mid ++ post -> ~ pmatch (toks a) mid).
Proof.
  intros a w s. unfold replace_first, find_first. cbv zeta.
  set (k := fun s1 : str => rx_match false a (fun rest : str => Some (length s1, length rest)) s1).
  change (star_lazy (fun s1 : str => rx_match false a (fun rest : str => Some (length s1, length rest)) s1) s)
    with (star_lazy k s).
  destruct (star_lazy k s) as [[n1 n2]|] eqn:EL.
  - destruct (star_lazy_some _ _ _ EL) as (pre & suf & Es & Hk & Hmin).
    unfold k in Hk.
    rewrite (rx_match_map _ (fun rest => (length suf, length rest)) false a suf) in Hk.
    destruct (rx_match false a K_rest suf) as [rest|] eqn:ER; [|discriminate]. simpl in Hk. inversion Hk; subst n1 n2.
    destruct (rx_match_sound _ _ _ _ _ _ ER) as (mid & post & E2 & Hm & Hk2). inversion Hk2; subst post.
    left. exists pre, mid, rest. subst suf. split; [exact Es|]. split; [exact Hm|]. split; [|split].
    + subst s. f_equal.
      * replace (length (pre ++ mid ++ rest) - length (mid ++ rest))%nat with (length pre)
          by (rewrite !app_length; lia).
        rewrite firstn_app, Nat.sub_diag, firstn_all. simpl. apply app_nil_r.
      * f_equal. replace (length (pre ++ mid ++ rest) - length rest)%nat with (length (pre ++ mid))
          by (rewrite !app_length; lia).
        rewrite app_assoc. rewrite skipn_app, Nat.sub_diag, skipn_all. reflexivity.
    + intros pre' mid' post' Es' Hm'.
      destruct (Nat.le_gt_cases (length pre) (length pre')) as [Hle|Hgt]; [exact Hle|exfalso].
      pose proof (Hmin pre' (mid' ++ post') Es' Hgt) as Hn. unfold k in Hn.
      pose proof (rx_match_complete _ _ _ _ _ Hn mid' post' eq_refl Hm'). discriminate.
    + intros mid' post' E' Hm'.
      pose proof (greedy_longest _ _ _ ER mid' post' E' Hm') as Hl.
      apply (f_equal (@length N)) in E'. rewrite !app_length in E'. lia.
  - right. split; [reflexivity|]. intros pre mid post Es Hm.
    pose proof (proj1 (star_lazy_none k s) EL pre (mid ++ post) Es) as Hn. unfold k in Hn.
    pose proof (rx_match_complete _ _ _ _ _ Hn mid post eq_refl Hm). discriminate.
Qed.
