From Coq Require Import List Arith Bool Lia.
From Verif Require Import Syntax.Fuel.

Section P.
  Variable A : Type.
  Variable ctl : st A -> act A.
  Hypothesis disc : disciplined A ctl.

  Lemma step_decreases : forall s s', step A ctl s = Some s' -> potential A s' < potential A s.
  Proof.
    intros s s' H. unfold step in H. pose proof (disc s) as D.
    destruct (ctl s) as [k a|k a|a|a|]; unfold potential.
    - inversion H; subst; simpl. lia.
    - inversion H; subst; simpl. lia.
    - destruct (depth s) eqn:E; [discriminate|]. inversion H; subst; simpl. lia.
    - contradiction.
    - discriminate.
  Qed.

  Lemma run_bounded : forall fuel s, potential A s < fuel ->
    exists n fin, run A ctl fuel s = Done n fin /\ n <= potential A s /\ step A ctl fin = None.
  Proof.
    induction fuel as [|f IH]; intros s Hf; [lia|].
    simpl. destruct (step A ctl s) as [s'|] eqn:E.
    - pose proof (step_decreases _ _ E) as Hd.
      assert (Hp : potential A s' < f) by lia.
      destruct (IH s' Hp) as (n & fin & Hr & Hn & Hs).
      rewrite Hr. exists (S n), fin. repeat split; auto. lia.
    - exists 0, s. repeat split; auto. lia.
  Qed.

  (* the bound in the form quoted by the check: starting with the whole input unread and d0 open constructs,
     the machine halts after at most 2*len + d0 steps; fuel 2*len + d0 + 1 is always enough *)
  Theorem progress_terminates : forall len d0 a,
    exists n fin, run A ctl (2 * len + d0 + 1) (mk len d0 a) = Done n fin /\ n <= 2 * len + d0.
  Proof.
    intros.
    assert (Hp : potential A (mk len d0 a) < 2 * len + d0 + 1) by (unfold potential; simpl; lia).
    destruct (run_bounded _ _ Hp) as (n & fin & H & Hn & _).
    exists n, fin. split; [exact H | exact Hn].
  Qed.

  Theorem never_out_of_fuel : forall len d0 a fuel, 2 * len + d0 < fuel ->
    run A ctl fuel (mk len d0 a) <> OutOfFuel.
  Proof.
    intros.
    assert (Hp : potential A (mk len d0 a) < fuel) by (unfold potential; simpl; lia).
    destruct (run_bounded _ _ Hp) as (n & fin & H1 & _).
    rewrite H1. discriminate.
  Qed.

  (* consuming steps alone: at most len of them (each consumes >= 1) — the "calls of next/rune that consume" *)
  Fixpoint consumed (fuel : nat) (s : st A) : nat :=
    match fuel with
    | O => 0
    | S f => match step A ctl s with
             | None => 0
             | Some s' => (rem s - rem s') + consumed f s'
             end
    end.

  Lemma consumed_le : forall fuel s, consumed fuel s <= rem s.
  Proof.
    induction fuel as [|f IH]; intros s; simpl; [lia|].
    destruct (step A ctl s) as [s'|] eqn:E; [|lia].
    assert (rem s' <= rem s).
    { unfold step in E. destruct (ctl s); try discriminate; try (inversion E; subst; simpl; lia).
      destruct (depth s); [discriminate|]. inversion E; subst; simpl; lia. }
    specialize (IH s'). lia.
  Qed.
End P.

(* the discipline is necessary: one stalling loop and no fuel is enough *)
Lemma stalling_diverges : forall fuel, run unit stalling_ctl fuel (mk 0 0 tt) = OutOfFuel.
Proof.
  induction fuel as [|f IH]; simpl; auto.
  change (step unit stalling_ctl (mk 0 0 tt)) with (Some (mk 0 0 tt)). rewrite IH. reflexivity.
Qed.

Lemma stalling_not_disciplined : ~ disciplined unit stalling_ctl.
Proof. intro H. exact (H (mk 0 0 tt)). Qed.

Lemma demo_disciplined : disciplined unit demo_ctl.
Proof.
  intro s. unfold demo_ctl. destruct (rem s) eqn:E; auto.
  destruct (Nat.even n); simpl; discriminate.
Qed.

Example demo_run : run unit demo_ctl 100 (mk 5 0 tt) = Done 8 (mk 0 0 tt).
Proof. vm_compute. reflexivity. Qed.
