(* Proofs/TreeRegionExamples.v — C29: concrete witnesses (vm_compute): the
   mutants of Interp/TreeRegion.v DO store into the region, and a non-trivial
   operation sequence runs to completion under the theorems' hypotheses. *)
From Verif Require Import Base.Str Base.GoSliceLite Interp.TreeRegion.

Definition s_foo : str := [102;111;111]%N.
Definition s_bar : str := [98;97;114]%N.
Definition s_echo : str := [101;99;104;111]%N.
Definition s_brace : str := [112;123;97;44;98;125]%N.      (* p{a,b} *)
Definition s_a : str := [97]%N.
Definition s_decl : str := [36;118]%N.                      (* $v : not a Lit in the real tree; here an opaque part *)

(* the tree of   foo bar p{a,b}   + a DeclClause `declare $v` + a here-document word,
   and the caller's Environ (object 17) with the array a=(x y) whose backing array is object 16 *)
Definition h0 : list (list val) :=
  [ [VTag 0; VStr s_foo];                       (* 0  Lit foo *)
    [VPtr 0];                               (* 1  parts of word 2 *)
    [VTag 1; VSl (Sl 1 0 1 1)];                 (* 2  Word foo *)
    [VTag 0; VStr s_bar];                       (* 3 *)
    [VPtr 3];                               (* 4 *)
    [VTag 1; VSl (Sl 4 0 1 1)];                 (* 5  Word bar *)
    [VTag 0; VStr s_brace];                     (* 6 *)
    [VPtr 6];                               (* 7 *)
    [VTag 1; VSl (Sl 7 0 1 1)];                 (* 8  Word p{a,b} *)
    [VPtr 2; VPtr 5; VPtr 8; VNilv];(* 9  backing array of Args: len 3, cap 4 *)
    [VTag 4; VSl SNil; VSl (Sl 9 0 3 4)];       (* 10 CallExpr *)
    [VTag 9; VStr s_decl];                      (* 11 an opaque part ($v) *)
    [VPtr 11];                              (* 12 *)
    [VTag 1; VSl (Sl 12 0 1 1)];                (* 13 Word $v *)
    [VTag 3; VNilv; VPtr 13; VBool false];  (* 14 Assign without name *)
    [VPtr 14];                              (* 15 DeclClause.Args backing array *)
    [VStr [120%N]; VStr [121%N]; VNilv];            (* 16 backing array of the Environ's array a: len 2, cap 3 *)
    [VEnt s_a (mkvar true false false false KIndexed [] (Sl 16 0 2 3))];  (* 17 the caller's Environ *)
    [VTag 5; VSl (Sl 15 0 1 1)];                (* 18 DeclClause *)
    [VTag 0; VStr [9;108;49;10;9;108;50]%N];      (* 19 Lit "\tl1\n\tl2" *)
    [VPtr 19; VPtr 11];                 (* 20 *)
    [VTag 1; VSl (Sl 20 0 2 2)];                (* 21 here-document body word *)
    [VTag 6; VPtr 21] ].                (* 22 Redirect *)

Definition caller0 : loc := 17.

Definition ex_splitter (ps : list (option str)) : option (list newpart) :=
  match ps with
  | [Some v] => if contains_byte 123%N v
                then Some [NLeaf (LLit [112%N]); NBrace false [[LLit [97%N]]; [LLit [98%N]]]]
                else None
  | _ => None
  end.
Definition ex_seq (_ : list str) : list str := [].
Definition ex_expand (_ : state) (_ : loc) : list str := [[120;61;49]%N; [121%N]].   (* x=1 y *)

Definition ex_ops : list op :=
  [ OAliasDef s_foo [s_echo; s_foo] true;       (* alias foo='echo foo ' *)
    OCall 10 true;
    OFields 8;
    ODeclare 18;
    OHdoc 22;
    OSetVar [122%N] (mkvar true false true false KString [49%N] SNil);
    OPushFunc;
    OSetVar [122%N] (mkvar true false false false KString [50%N] SNil);   (* global from a function *)
    OSetVar [119%N] (mkvar true true false false KString [51%N] SNil);    (* local *)
    OSetIndex s_a 0 [81%N];                   (* a[0]=Q on the caller's array *)
    OAppendScalar s_a [82%N];                     (* a+=R *)
    OSetIndex s_a 5 [83%N];
    OPop ].

Definition ex_run := exec_ops ex_splitter ex_seq ex_expand 8 ex_ops (start h0 caller0).

Definition heap_of (r : res run_state) : list (list val) :=
  match r with Ok x => hp (rs_heap x) | _ => [] end.
Definition log_of (r : res run_state) : list (loc * nat * nat) :=
  match r with Ok x => wlog (rs_heap x) | _ => [] end.

(* it runs to completion, allocates and stores a lot, none of it below the boundary *)
Lemma ex_run_ok :
  (exists r, ex_run = Ok r) /\
  (23 < length (heap_of ex_run)) /\ (10 <= length (log_of ex_run)) /\
  firstn 23 (heap_of ex_run) = h0.
Proof. vm_compute. repeat split; try (eexists; reflexivity); repeat constructor. Qed.

(* ---- mutant 1: alias expansion with append on cm.Args ---- *)
Definition mut1 : res (state * slice) :=
  let r0 := start h0 caller0 in
  let '(s1, al) := alias_def (rs_heap r0) [] s_foo [s_echo] false in
  alias_step_append al s1 (Sl 9 0 3 4) 0.

Lemma alias_append_writes_tree :
  exists s' sl, mut1 = Ok (s', sl) /\ nth 9 (hp s') [] <> nth 9 h0 [] /\
                In (9, 0, 3) (wlog s').
Proof. vm_compute. do 2 eexists. split; [reflexivity|]. split; [discriminate | auto]. Qed.

(* ---- mutant 2: SplitBraces on the tree's word (FieldsSeq without the copy) ---- *)
Lemma split_without_copy_writes_tree :
  exists s', split_braces ex_splitter (mkst h0 []) 8 = Ok (s', true) /\
             nth 8 (hp s') [] <> nth 8 h0 [].
Proof. vm_compute. eexists. split; [reflexivity | discriminate]. Qed.

(* ---- mutant 3: name+=scalar on an array without the clone (the code before fix d35f0af) ---- *)
Lemma append_scalar_noclone_writes_env :
  let r0 := start h0 caller0 in
  exists s', append_scalar_noclone (rs_heap r0) caller0 (rs_env r0) s_a [82%N] = Ok s' /\
             nth 16 (hp s') [] <> nth 16 h0 [].
Proof. vm_compute. eexists. split; [reflexivity | discriminate]. Qed.

(* ---- the stack invariant is needed: were the outermost overlay a function scope,
        Set would reach the caller's Environ ---- *)
Lemma funcscope_bottom_writes_env :
  let r0 := start h0 caller0 in
  exists s', env_set (rs_heap r0) caller0 [(23, true)] [122%N] (mkvar true false false false KString [49%N] SNil) = Ok s' /\
             nth 17 (hp s') [] <> nth 17 h0 [].
Proof. vm_compute. eexists. split; [reflexivity | discriminate]. Qed.
