(* Proofs/MiniRoundtripML.v — level S, default (multi-line) mode: parse_file (R_file ind t) = Some t for
   every well-formed tree, hence the round trip and the idempotence of the default printer on
   canonical positions. *)
From Verif Require Import Base.Str Syntax.Word Syntax.MiniAst Syntax.MiniPrinter Syntax.MiniParser
  Syntax.MiniPos Syntax.MiniPrinterML Proofs.MiniRender Proofs.MiniLex Proofs.MiniParse Proofs.MiniRoundtrip
  Proofs.MiniRenderML Proofs.MiniLexML Proofs.MiniParseML.
Require Import ZifyN ZifyBool ZifyNat.
Open Scope N_scope.

Lemma nl_len : forall ind d, (1 <= length (nl ind d))%nat.
Proof. intros. unfold nl. rewrite app_length. cbn [length s_nl]. lia. Qed.

Lemma size_bound_ml :
  (forall c, wf_cmd c -> forall ind d, (sz_cmd c + 4 <= 8 * length (R_cmd ind d c))%nat) /\
  (forall s, wf_stmt s -> forall ind d, (sz_stmt s + 1 <= 8 * length (R_stmt ind d s))%nat) /\
  (forall ss, wf_stmts ss ->
     (forall ind k, (sz_list ss <= 8 * length (R_lines ind k ss) + 1)%nat) /\
     (ss <> SNil -> forall ind d, (sz_list ss <= 8 * length (R_cond ind d ss) + 1)%nat)) /\
  (forall e, wf_else e -> forall ind d, (sz_else e <= 8 * length (R_else ind d e))%nat).
Proof.
  apply mini_mutind.
  - intros args (Hf & Hw) ind d. cbn [sz_cmd R_cmd]. pose proof (r_words_len args Hf).
    destruct args; [contradiction|]. cbn [length] in *. lia.
  - intros ss IH (_ & W) ind d. destruct (IH W) as (IHl & _). specialize (IHl ind (S d)). pose proof (nl_len ind d).
    cbn [sz_cmd R_cmd]. rewrite !app_length. len. lia.
  - intros ss IH (_ & W) ind d. destruct (IH W) as (IHl & _). specialize (IHl ind (S d)). pose proof (nl_len ind d).
    cbn [sz_cmd R_cmd]. rewrite !app_length. len. lia.
  - intros c IHc t IHt e IHe (Hc & _ & Wc & Wt & We) ind d.
    destruct (IHc Wc) as (_ & IHcc). specialize (IHcc Hc ind d).
    destruct (IHt Wt) as (IHtl & _). specialize (IHtl ind (S d)). specialize (IHe We ind d).
    cbn [sz_cmd R_cmd]. rewrite !app_length. len. lia.
  - intros u c IHc b IHb (Hc & _ & Wc & Wb) ind d.
    destruct (IHc Wc) as (_ & IHcc). specialize (IHcc Hc ind d).
    destruct (IHb Wb) as (IHbl & _). specialize (IHbl ind (S d)). pose proof (nl_len ind d).
    cbn [sz_cmd R_cmd]. rewrite !app_length. destruct u; len; lia.
  - intros op x IHx y IHy (Wx & Wy & _) ind d. specialize (IHx Wx ind d). specialize (IHy Wy ind d).
    cbn [sz_cmd R_cmd]. rewrite !app_length. len. lia.
  - intros n c IHc b (Wc & _) ind d. specialize (IHc Wc ind d). cbn [sz_stmt R_stmt]. rewrite !app_length. lia.
  - intros _. split; [intros; simpl; lia|congruence].
  - intros s IHs rest IHr (Ws & Wr). destruct (IHr Wr) as (IHrl & _). split.
    + intros ind k. specialize (IHs Ws ind k). specialize (IHrl ind k). pose proof (nl_len ind k).
      cbn [sz_list R_lines]. rewrite !app_length. lia.
    + intros _ ind d. cbn [sz_list R_cond]. destruct rest as [|s1 r].
      * specialize (IHs Ws ind d). rewrite !app_length. len. cbn [sz_list]. lia.
      * specialize (IHs Ws ind (S d)). specialize (IHrl ind (S d)).
        pose proof (nl_len ind (S d)). pose proof (nl_len ind d). rewrite !app_length. lia.
  - intros _ ind d. pose proof (nl_len ind d). cbn [sz_else R_else]. rewrite !app_length. len. lia.
  - intros c IHc t IHt e IHe (Hc & _ & Wc & Wt & We) ind d.
    destruct (IHc Wc) as (_ & IHcc). specialize (IHcc Hc ind d).
    destruct (IHt Wt) as (IHtl & _). specialize (IHtl ind (S d)). specialize (IHe We ind d). pose proof (nl_len ind d).
    cbn [sz_else R_else]. rewrite !app_length. len. lia.
  - intros t IHt (_ & Wt) ind d. destruct (IHt Wt) as (IHtl & _). specialize (IHtl ind (S d)). pose proof (nl_len ind d).
    cbn [sz_else R_else]. rewrite !app_length. len. lia.
Qed.

Theorem parse_R_file : forall ind t, wf_file t -> parse_file (R_file ind t) = Some t.
Proof.
  intros ind t W. destruct t as [|x rest]; [reflexivity|].
  destruct W as (Wx & Wr).
  destruct lexing_ml as (_ & LXs & LXl & _). destruct parsing_ml as (_ & PS & PL & _).
  destruct size_bound_ml as (_ & SBs & SBl & _).
  destruct (LXl rest Wr) as (LXr & _). destruct (PL rest) as (PLr & _). destruct (PS x) as (_ & _ & _ & _ & PE).
  destruct (SBl rest Wr) as (SBr & _).
  cbn [R_file].
  assert (DT : delim_tail (R_lines ind 0 rest ++ s_nl)).
  { destruct rest; [simpl; auto|]. cbn [R_lines]. rewrite <- app_assoc. apply delim_tail_nl. }
  pose proof (LXs x Wx ind 0%nat _ DT) as Y1.
  pose proof (LXr ind 0%nat s_nl ltac:(simpl; auto)) as Y2.
  set (R := R_stmt ind 0 x ++ R_lines ind 0 rest ++ s_nl) in *.
  set (m := R_lines ind 0 rest ++ s_nl) in *.
  assert (FU : (1 + sz_stmt x + sz_list rest <= parse_fuel R)%nat).
  { specialize (SBs x Wx ind 0%nat). specialize (SBr ind 0%nat). unfold parse_fuel. subst R m.
    rewrite !app_length. cbn [length s_nl]. lia. }
  unfold parse_file. destruct (parse_fuel R) as [|f]; [lia|].
  destruct (stmt_first_u x Wx) as (t & ts & Et & Hst).
  pose proof Y1 as Y3. rewrite Et in Y3. apply yields_cons_inv in Y3. destruct Y3 as (sx & Ex & _).
  pose proof (stmt_start_not_newl t Hst) as Hnl.
  cbn [p_stmts]. rewrite (got_newl_no R t sx Ex Hnl), (skip_newl_id R t sx Ex Hnl), Ex.
  rewrite (stmt_start_not_stop [] false t eq_refl Hst). cbn [negb andb].
  assert (FM : follows m (end_tok false)).
  { destruct rest as [|r1 rr].
    - exists TNewl, []. split; reflexivity.
    - cbn [u_lines] in Y2. apply yields_cons_inv in Y2. destruct Y2 as (sy & Ey & _). exists TNewl, sy. auto. }
  rewrite (PE Wx f false false R m); [| |intros _; exact FM|lia].
  - rewrite (PLr Wr f [] false (false || stmt_bg x) m s_nl eq_refl Y2); [reflexivity| | |lia].
    + exists TEOF, []. split; reflexivity.
    + intros _. exists TNewl, []. split; reflexivity.
  - cbn [andb]. rewrite app_nil_r. exact Y1.
Qed.

(* ------------------------------------------------------------------ the statements of Props *)
Theorem stmt_roundtrip_default : forall ind bnl t, wf_file t ->
  parse_file (ml_print_file ind bnl t) = Some (norm_file t).
Proof.
  intros ind bnl t W. rewrite ml_print_file_render by assumption. unfold norm_file.
  destruct norm_id as (_ & _ & N & _). rewrite (N t W). apply parse_R_file. assumption.
Qed.

(* idempotence with canonical positions: print (canon (parse (print (canon t)))) = print (canon t) *)
Theorem stmt_idempotent_default : forall ind bnl t t', wf_file t ->
  parse_file (ml_print_file ind bnl t) = Some t' -> ml_print_file ind bnl t' = ml_print_file ind bnl t.
Proof.
  intros ind bnl t t' W H. rewrite (stmt_roundtrip_default ind bnl t W) in H. inversion H; subst.
  unfold norm_file. destruct norm_id as (_ & _ & N & _). rewrite (N t W). reflexivity.
Qed.

Theorem stmt_text_fixpoint_default : forall ind bnl t, wf_file t ->
  option_map (ml_print_file ind bnl) (parse_file (ml_print_file ind bnl t)) = Some (ml_print_file ind bnl t).
Proof.
  intros ind bnl t W. rewrite (stmt_roundtrip_default ind bnl t W). cbn [option_map]. f_equal.
  unfold norm_file. destruct norm_id as (_ & _ & N & _). rewrite (N t W). reflexivity.
Qed.
