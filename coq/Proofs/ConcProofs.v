(* Proofs/ConcProofs.v — C31: stop-check discipline of the flag machine and the wait-for model. *)
From Verif Require Import Base.Str Interp.Core Interp.Flags Interp.Conc.
From Coq Require Import ZifyN ZifyNat ZifyBool.

(* ---- 1. a cancelled machine only observes the context ---------------------------------- *)
Lemma stop_cancelled s : cancelled s ->
  exists s', stop s = (true, s') /\ cancelled s' /\ same_effects s s' /\ late s' = S (late s).
Proof.
  intros [Hc Hs]. unfold stop, tick. rewrite Hc. cbn. rewrite Hs.
  destruct (returning (ex s) || exiting (ex s)) eqn:E1.
  { eexists; split; [reflexivity|]. unfold cancelled, same_effects; cbn. repeat split; auto. }
  destruct ((0 <? brk s)%Z || (0 <? cnt s)%Z) eqn:E2.
  { eexists; split; [reflexivity|]. unfold cancelled, same_effects; cbn. repeat split; auto. }
  cbn. rewrite Hc. eexists; split; [reflexivity|]. unfold cancelled, same_effects; cbn. repeat split; auto.
Qed.

Lemma same_effects_refl s : same_effects s s.
Proof. unfold same_effects; repeat split. Qed.

Lemma same_effects_trans a b c : same_effects a b -> same_effects b c -> same_effects a c.
Proof.
  unfold same_effects. intros (A1&A2&A3&A4&A5&A6&A7&A8&A9&A10) (B1&B2&B3&B4&B5&B6&B7&B8&B9&B10).
  repeat split; congruence.
Qed.

(* every construct, whatever the fuel *)
Lemma run_cancelled fuel c s : cancelled s ->
  cancelled (run fuel c s) /\ same_effects s (run fuel c s) /\ late (run fuel c s) = S (late s).
Proof.
  intros H. destruct (stop_cancelled s H) as (s'&E&Hc&He&Hl).
  destruct fuel; cbn [run]; [unfold cmd_nofuel|unfold cmd_step]; rewrite E; auto.
Qed.

Lemma rstmt_cancelled cmdf t s : cancelled s ->
  cancelled (rstmt cmdf t s) /\ same_effects s (rstmt cmdf t s) /\ late (rstmt cmdf t s) = S (late s).
Proof.
  intros H. destruct (stop_cancelled s H) as (s'&E&Hc&He&Hl).
  destruct t. unfold rstmt. rewrite E. auto.
Qed.

Lemma rstmts_cancelled cmdf l : forall s, cancelled s ->
  cancelled (rstmts cmdf l s) /\ same_effects s (rstmts cmdf l s)
  /\ late (rstmts cmdf l s) = (late s + length l)%nat.
Proof.
  induction l as [|t l IH]; intros s H; cbn [rstmts length].
  - repeat split; auto using same_effects_refl. destruct H; auto. destruct H; auto.
  - destruct (rstmt_cancelled cmdf t s H) as (H1&H2&H3).
    destruct (IH _ H1) as (H4&H5&H6). split; [exact H4|split].
    + eapply same_effects_trans; eauto.
    + rewrite H6, H3. lia.
Qed.

(* loop heads: a while/until loop and a for loop leave at their next head *)
Lemma while_cancelled cmdf n u c b last s : cancelled s ->
  cancelled (while_loop cmdf n u c b last s) /\ same_effects s (while_loop cmdf n u c b last s)
  /\ late (while_loop cmdf n u c b last s) = S (late s).
Proof.
  intros H. destruct (stop_cancelled s H) as (s'&E&Hc&He&Hl).
  destruct n; cbn [while_loop]; rewrite E; auto.
Qed.

Lemma for_cancelled cmdf x items b s : cancelled s ->
  cancelled (for_loop cmdf x items b s) /\ same_effects s (for_loop cmdf x items b s)
  /\ (late (for_loop cmdf x items b s) <= S (late s))%nat.
Proof.
  intros H. destruct items as [|f items]; cbn [for_loop].
  - split; [exact H|split; [apply same_effects_refl|lia]].
  - destruct (stop_cancelled s H) as (s'&E&Hc&He&Hl). rewrite E. split; [exact Hc|split; [exact He|lia]].
Qed.

Lemma call_cancelled cmdf fields s : cancelled s ->
  cancelled (call cmdf fields s) /\ same_effects s (call cmdf fields s) /\ late (call cmdf fields s) = S (late s).
Proof.
  intros H. destruct (stop_cancelled s H) as (s'&E&Hc&He&Hl). unfold call. rewrite E. auto.
Qed.

(* the statement loop of a loop body: every remaining statement is skipped with one
   observation; the counters decide as before, no statement runs *)
Lemma loop_body_cancelled cmdf old l : forall s, cancelled s ->
  cancelled (fst (loop_body cmdf old l s)) /\ out (fst (loop_body cmdf old l s)) = out s
  /\ vars (fst (loop_body cmdf old l s)) = vars s
  /\ (late (fst (loop_body cmdf old l s)) <= late s + length l)%nat.
Proof.
  induction l as [|t l IH]; intros s H; cbn [loop_body length fst].
  - repeat split; try apply H. lia.
  - destruct (rstmt_cancelled cmdf t s H) as (H1&H2&H3).
    destruct H2 as (V&F&O&_).
    destruct (0 <? cnt (rstmt cmdf t s))%Z.
    { cbn [fst]. destruct H1 as [C1 C2].
      destruct (negb old); cbn; unfold cancelled; cbn; repeat split; auto; lia. }
    destruct (0 <? brk (rstmt cmdf t s))%Z.
    { cbn [fst]. destruct H1 as [C1 C2].
      destruct (negb old); cbn; unfold cancelled; cbn; repeat split; auto; lia. }
    destruct (IH _ H1) as (H4&H5&H6&H7). repeat split; try apply H4; try congruence. lia.
Qed.

(* ---- 2. the wait-for model --------------------------------------------------------------- *)
Lemma returns_good sy : good_sys sy ->
  forall d t, (length sy - t <= d)%nat -> returns (S d) sy t = true.
Proof.
  intros G d. induction d as [|d IH]; intros t Hd; cbn [returns].
  - destruct (nth_error sy t) as [ops|] eqn:E; [|reflexivity].
    apply nth_error_Some_lt in E || (assert (t < length sy)%nat by (apply nth_error_Some; congruence)). lia.
  - destruct (nth_error sy t) as [ops|] eqn:E; [|reflexivity].
    assert (Ht : (t < length sy)%nat) by (apply nth_error_Some; congruence).
    pose proof (G t ops E) as Gops.
    apply forallb_forall. intros op Hin. rewrite Forall_forall in Gops. specialize (Gops op Hin).
    destruct op as [ | |ts|p|b]; cbn in Gops; auto.
    + apply forallb_forall. intros u Hu. rewrite Forall_forall in Gops. specialize (Gops u Hu).
      apply IH. lia.
    + apply IH. lia.
Qed.

Theorem returns_if_good : forall sy, good_sys sy -> forall t, returns (S (length sy)) sy t = true.
Proof. intros sy G t. apply returns_good; auto. lia. Qed.

Theorem returns_refuted : forall fuel, returns fuel procsubst_never_opened_then_wait 0 = false.
Proof.
  intros [|[|fuel]]; try reflexivity.
Qed.

Lemma refuted_in_class : procsubst_fifo_never_opened_then_wait procsubst_never_opened_then_wait = true.
Proof. reflexivity. Qed.
