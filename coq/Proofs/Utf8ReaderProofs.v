(* Proofs/Utf8ReaderProofs.v — facts about utf8.DecodeRune / utf8.FullRune that the reader's
   refill loop relies on. *)
From Coq Require Import List NArith ZArith Bool Lia ZifyN ZifyNat ZifyBool.
From Verif Require Import Base.Str Base.Utf8 Syntax.Reader.
Import ListNotations.
Open Scope N_scope.
Arguments N.add : simpl never. Arguments N.mul : simpl never. Arguments N.sub : simpl never.

Ltac brk :=
  repeat match goal with
  | |- context[if ?c then _ else _] => let E := fresh "E" in destruct c eqn:E
  | H : context[if ?c then _ else _] |- _ => let E := fresh "E" in destruct c eqn:E
  end.

Lemma full_rune_len4 : forall p, (4 <= length p)%nat -> full_rune p = true.
Proof.
  intros p H. destruct p as [|s0 t]; [simpl in H; lia|]. unfold full_rune.
  set (size := if s0 <? 128 then 0%nat else if in_range 194 223 s0 then 2%nat else if in_range 224 239 s0 then 3%nat
               else if in_range 240 244 s0 then 4%nat else 1%nat).
  assert (size <= 4)%nat by (unfold size; brk; lia).
  replace (Nat.leb size (length (s0 :: t))) with true; [reflexivity|]. symmetry. apply Nat.leb_le. lia.
Qed.

Lemma decode_width : forall p, p <> [] -> (1 <= snd (decode_rune p) <= length p)%nat.
Proof.
  intros p Hp. destruct p as [|s0 t]; [congruence|]. unfold decode_rune.
  destruct t as [|s1 [|s2 [|s3 t']]]; brk; cbn [snd length]; lia.
Qed.

Lemma decode_not_eof : forall p, fst (decode_rune p) <> runeEOF.
Proof.
  intros p. unfold runeEOF. destruct p as [|s0 t]; [cbn; unfold RuneError; lia|]. unfold decode_rune.
  destruct t as [|s1 [|s2 [|s3 t']]]; brk; cbn [fst]; unfold RuneError, is_cont in *; unfold in_range in *; lia.
Qed.

(* a buffered prefix that is a full rune (or already decodes) decodes like the whole input *)
Lemma decode_prefix : forall p q, p <> [] ->
  (fst (decode_rune p) <> RuneError \/ full_rune p = true) ->
  decode_rune (p ++ q) = decode_rune p.
Proof.
  intros p q Hp H. destruct p as [|s0 t]; [congruence|]. clear Hp.
  destruct t as [|s1 [|s2 [|s3 t']]]; cbn [app] in *.
  - (* one byte buffered *)
    unfold decode_rune, full_rune in *. cbn [length fst] in *.
    destruct q as [|q1 [|q2 [|q3 q']]]; brk; try reflexivity; exfalso;
      unfold RuneError, is_cont in *; unfold in_range in *; cbn in *; destruct H; try congruence; try lia.
  - unfold decode_rune, full_rune in *. cbn [length fst] in *.
    destruct q as [|q1 [|q2 q']]; brk; try reflexivity; exfalso;
      unfold RuneError, is_cont in *; unfold in_range in *; cbn in *; destruct H; try congruence; try lia.
  - unfold decode_rune, full_rune in *. cbn [length fst] in *.
    destruct q as [|q1 q']; brk; try reflexivity; exfalso;
      unfold RuneError, is_cont in *; unfold in_range in *; cbn in *; destruct H; try congruence; try lia.
  - reflexivity.
Qed.
