(* Proofs/CoreGrammarBounded.v — exhaustive agreement of parse_core and accepts on all short token lists
   (a genuinely finite domain: forallb over the complete enumeration, evaluated by vm_compute). *)
From Verif Require Import Base.Str Syntax.CoreGrammar.
From Coq Require Import Lia.

Definition all_toks := [TWord;TLit;TName;TAssign;TAssignW;TIf;TThen;TElif;TElse;TFi;TWhile;TUntil;TDo;TDone;TFor;TIn;TCase;TEsac;TLbrace;TRbrace;TBang;TSemi;TAmp;TAndAnd;TOrOr;TPipe;TLparen;TRparen;TDSemi;TNewl;TRedir;TIoRedir].
Fixpoint lists_n (n : nat) : list (list token) :=
  match n with O => [[]] | S k => flat_map (fun l => map (fun t => t :: l) all_toks) (lists_n k) end.

Lemma all_toks_complete : forall t, In t all_toks.
Proof. destruct t; simpl; tauto. Qed.

Lemma lists_n_complete : forall ts, In ts (lists_n (length ts)).
Proof.
  induction ts as [|t ts IH]; [simpl; tauto|].
  change (lists_n (length (t :: ts))) with (flat_map (fun l => map (fun t => t :: l) all_toks) (lists_n (length ts))).
  apply in_flat_map. exists ts. split; [exact IH|].
  apply (in_map (fun t0 => t0 :: ts)). apply all_toks_complete.
Qed.

(* Known deviation classes of the Go parser from the shells, as a (deliberately
   over-approximating) decidable predicate on the token list. *)
Definition is_redir (t : token) : bool := match t with TRedir | TIoRedir => true | _ => false end.
Definition is_reserved (t : token) : bool :=
  match t with
  | TIf | TThen | TElif | TElse | TFi | TWhile | TUntil | TDo | TDone | TFor | TIn | TCase | TEsac | TLbrace | TRbrace | TBang => true
  | _ => false
  end.
Fixpoint dev_scan (prev : option token) (ts : list token) : bool :=
  match ts with
  | [] => false
  | t :: rest =>
      (* KF-C12-1: `in` where a command may start *)
      (match t with TIn => match prev with Some p => negb (is_word p) || is_reserved p | None => true end | _ => false end)
      (* KF-C12-5: io-number taken as the target of the previous redirection *)
      || (is_redir t && match rest with TIoRedir :: _ => true | _ => false end)
      (* KF-C12-4: redirection, target, reserved word *)
      || (is_redir t && match rest with w :: k :: _ => is_word w && is_reserved k | _ => false end)
      || dev_scan (Some t) rest
  end.
(* documented difference (flipConfirm): bash accepts `!` alone and `! !` *)
Fixpoint bang_scan (ts : list token) : bool :=
  match ts with
  | TBang :: rest => stop_token rest || match rest with TBang :: _ => true | _ => false end || bang_scan rest
  | _ :: rest => bang_scan rest
  | [] => false
  end.
(* KF-C12-2/3: a function declaration (its body is any statement for the parser) *)
Fixpoint func_scan (ts : list token) : bool :=
  match ts with
  | TLparen :: TRparen :: _ => true
  | _ :: rest => func_scan rest
  | [] => false
  end.
Definition go_dev (ts : list token) : bool := dev_scan None ts || bang_scan ts || func_scan ts.

Definition agree_upto (n : nat) (posix : bool) (sh : shell) : bool :=
  forallb (fun k => forallb (fun ts => go_dev ts || Bool.eqb (accepted (parse_core posix ts)) (accepts sh ts)) (lists_n k)) (seq 0 (S n)).

Lemma agree_upto4_bash : agree_upto 4 false sh_bash = true.
Proof. vm_compute. reflexivity. Qed.
Lemma agree_upto4_dash : agree_upto 4 true sh_dash = true.
Proof. vm_compute. reflexivity. Qed.

Lemma agree_upto_sound : forall n posix sh, agree_upto n posix sh = true ->
  forall ts, length ts <= n -> go_dev ts = false ->
  accepted (parse_core posix ts) = accepts sh ts.
Proof.
  intros n posix sh H ts L D. unfold agree_upto in H. rewrite forallb_forall in H.
  assert (I : In (length ts) (seq 0 (S n))) by (apply in_seq; lia).
  specialize (H _ I). rewrite forallb_forall in H. specialize (H ts (lists_n_complete ts)).
  rewrite D in H. simpl in H. apply Bool.eqb_prop in H. exact H.
Qed.


Lemma agree4_bash : forall ts, length ts <= 4 -> go_dev ts = false ->
  accepted (parse_core false ts) = accepts sh_bash ts.
Proof. exact (agree_upto_sound 4 false sh_bash agree_upto4_bash). Qed.

Lemma agree4_dash : forall ts, length ts <= 4 -> go_dev ts = false ->
  accepted (parse_core true ts) = accepts sh_dash ts.
Proof. exact (agree_upto_sound 4 true sh_dash agree_upto4_dash). Qed.

(* the known classes are real: the model reproduces each divergence *)
Lemma in_as_command_refuted : accepted (parse_core false [TIn; TName]) = true /\ accepts sh_bash [TIn; TName] = false.
Proof. split; reflexivity. Qed.
Lemma funcdecl_body_simple_refuted :
  accepted (parse_core false [TName; TLparen; TRparen; TName]) = true /\ accepts sh_bash [TName; TLparen; TRparen; TName] = false.
Proof. split; reflexivity. Qed.
Lemma funcdecl_body_negated_refuted :
  accepted (parse_core true [TName; TLparen; TRparen; TBang; TName]) = true /\ accepts sh_dash [TName; TLparen; TRparen; TBang; TName] = false.
Proof. split; reflexivity. Qed.
Lemma leading_redirect_reserved_refuted :
  accepted (parse_core false [TRedir; TName; TThen; TName]) = false /\ accepts sh_bash [TRedir; TName; TThen; TName] = true.
Proof. split; reflexivity. Qed.
Lemma io_number_target_refuted :
  accepted (parse_core false [TName; TRedir; TIoRedir; TName]) = true /\ accepts sh_bash [TName; TRedir; TIoRedir; TName] = false.
Proof. split; reflexivity. Qed.
Lemma scope_nonvacuous : go_dev [TIf; TName; TSemi; TThen] = false /\ go_dev [TName; TPipe; TName; TAmp] = false /\
  accepts sh_bash [TName; TPipe; TName; TAmp] = true.
Proof. repeat split; reflexivity. Qed.
