(* Proofs/ShellApiProofs.v — proofs about Expand/ShellApi.v. *)
From Verif Require Import Base.Str Expand.ShellApi.
Open Scope N_scope.

(* text without $ \ ` expands to itself *)
Definition plain_char (c : N) : bool := negb ((c =? 92) || (c =? 36) || (c =? 96)).

Lemma doc_loop_plain : forall env s,
  forallb plain_char s = true -> doc_loop env DText s = (s, DText).
Proof.
  intros env s. induction s as [|c s IH]; intros H; [reflexivity|].
  simpl in H. apply andb_true_iff in H. destruct H as [Hc Hs].
  unfold plain_char in Hc. rewrite negb_true_iff, !orb_false_iff in Hc. destruct Hc as [[H1 H2] H3].
  simpl. unfold dbase. rewrite H1, H2, H3. rewrite (IH Hs). reflexivity.
Qed.

Lemma expand_plain : forall env s, forallb plain_char s = true -> shell_expand env s = EOk s.
Proof. intros. unfold shell_expand. rewrite doc_loop_plain by assumption. reflexivity. Qed.

(* whether the text is valid does not depend on the environment: the lexer's mode does not *)
Lemma dstep_mode_env : forall e1 e2 m c, snd (dstep e1 m c) = snd (dstep e2 m c).
Proof.
  intros e1 e2 m c. destruct m as [| | |acc|acc|]; simpl; try reflexivity.
  - (* DName *)
    destruct (name_char c); [reflexivity|]. unfold dcons. reflexivity.
  - (* DBr *)
    destruct (c =? 125); [destruct acc; reflexivity|].
    destruct (name_char c && match acc with [] => name_start c | _ :: _ => true end); reflexivity.
Qed.

Lemma doc_loop_mode_env : forall e1 e2 s m, snd (doc_loop e1 m s) = snd (doc_loop e2 m s).
Proof.
  intros e1 e2 s. induction s as [|c s IH]; intros m; [reflexivity|].
  simpl. destruct m; try reflexivity;
    match goal with
    | |- snd (let '(o, m') := dstep e1 ?M c in _) = _ =>
        pose proof (dstep_mode_env e1 e2 M c) as Hm;
        destruct (dstep e1 M c) as [o1 m1]; destruct (dstep e2 M c) as [o2 m2];
        simpl in Hm; subst m2; unfold dcons; simpl; apply IH
    end.
Qed.

Definition is_err (r : eres) : bool := match r with EErr => true | _ => false end.
Definition is_out (r : eres) : bool := match r with EOut => true | _ => false end.

Lemma expand_error_env_independent : forall e1 e2 s,
  is_err (shell_expand e1 s) = is_err (shell_expand e2 s) /\
  is_out (shell_expand e1 s) = is_out (shell_expand e2 s).
Proof.
  intros e1 e2 s. unfold shell_expand.
  pose proof (doc_loop_mode_env e1 e2 s DText) as H.
  destruct (doc_loop e1 DText s) as [o1 m1]. destruct (doc_loop e2 DText s) as [o2 m2].
  simpl in H. subst m2. destruct m1; split; reflexivity.
Qed.

(* an error is exactly an unterminated ${ *)
Lemma expand_error_iff : forall env s,
  shell_expand env s = EErr <-> exists acc, snd (doc_loop env DText s) = DBr acc.
Proof.
  intros env s. unfold shell_expand. destruct (doc_loop env DText s) as [o m]. simpl.
  destruct m; split; intros H; try discriminate; try (destruct H as [a H]; discriminate).
  - exists acc. reflexivity.
  - reflexivity.
Qed.

(* shell.Fields: validity is decided by the lexer alone, which never sees the environment *)
Lemma fields_error_env_independent : forall e1 e2 s,
  (shell_fields e1 s = SErr <-> shell_fields e2 s = SErr) /\
  (shell_fields e1 s = SOut <-> shell_fields e2 s = SOut).
Proof.
  intros e1 e2 s. unfold shell_fields. destruct (lex_fields s); split; split; intros H; try discriminate; reflexivity.
Qed.

(* an unquoted, unset (empty) variable alone yields no field; quoted it yields one empty field *)
Lemma fields_unset_var : forall env n,
  env n = [] -> word_fields env [IVar n] = [] /\ word_fields env [IQMarkD; IQVar n] = [[]].
Proof.
  intros env n H. unfold word_fields. simpl. rewrite H. simpl. split; reflexivity.
Qed.
