(* Proofs/FlagsProofs.v — the flag machine (Interp/Flags.v) refines the structured
   semantics (Interp/Sem.v): for every core program, state and fuel, if the semantics
   does not abort, the machine reaches exactly the state that the semantic result
   describes.  Induction on fuel; inner inductions on statement lists, loop bodies,
   while rounds, for items, case items. *)
From Verif Require Import Base.Str Interp.Core Interp.Flags Interp.Sem.
From Coq Require Import ZifyN ZifyNat ZifyBool.
Open Scope N_scope.

(* ---- the correspondence ------------------------------------------------------- *)
Definition abs (s : st) : sst := mkS (vars s) (funcs s) (out s) (code (lastEx s)) (errexit s) (pipefail s).
Definition ctxof (s : st) : sctx := mkK (inLoop s) (inFunc s) (noErrExit s).

Definition ex_of (c : N) (r : outcome) : exitT :=
  match r with
  | ORet e => mkExit c true e false
  | OExit => mkExit c false true false
  | _ => mkExit c false false false
  end.
Definition brk_of (r : outcome) : Z := match r with OBrk n => n | _ => 0%Z end.
Definition cnt_of (r : outcome) : Z := match r with OCnt n => n | _ => 0%Z end.

(* the machine state described by a semantic result, reached from [s]
   (the dynamic context flags are those of [s]: every construct restores them) *)
Definition appc (s : st) (res : sres) : st :=
  let '(ss, c, r) := res in
  mkSt (svars ss) (sfuncs ss) (sout ss) (ex_of c r) (ex_of (slast ss) r) (brk_of r) (cnt_of r)
       (inLoop s) (inFunc s) (noErrExit s) (serrexit ss) (spipefail ss) None (late s) false.

(* r.lastExit = r.exit, the last action of Runner.stmt *)
Definition fin (x : st) : st := set_lastEx (ex x) x.

Definition clean (s : st) : Prop :=
  returning (ex s) = false /\ exiting (ex s) = false /\ fatalExit (ex s) = false /\
  returning (lastEx s) = false /\ exiting (lastEx s) = false /\ fatalExit (lastEx s) = false /\
  brk s = 0%Z /\ cnt s = 0%Z /\ ctx s = None /\ stuck s = false.

Definition outc (res : sres) : outcome := snd res.
Definition rcode (res : sres) : N := snd (fst res).
Definition rst (res : sres) : sst := fst (fst res).

Definition noabort (res : sres) : Prop := is_abort (outc res) = false.

(* well-formed outcomes: a break/continue only escapes towards an enclosing loop, a
   return only towards an enclosing function *)
Definition wfr (k : sctx) (r : outcome) : Prop :=
  match r with
  | OBrk n | OCnt n => (1 <= n)%Z /\ inl k = true
  | ORet _ => infn k = true
  | _ => True
  end.

(* ---- basic facts --------------------------------------------------------------- *)
Lemma stop_clean s : clean s -> stop s = (false, s).
Proof.
  intros (H1&H2&H3&H4&H5&H6&H7&H8&H9&H10). unfold stop, tick. rewrite H9. cbn.
  rewrite H10, H1, H2, H7, H8. cbn. rewrite H9. reflexivity.
Qed.

Definition stopped (s : st) : Prop :=
  ctx s = None /\ stuck s = false /\
  (returning (ex s) = true \/ exiting (ex s) = true \/ (0 < brk s)%Z \/ (0 < cnt s)%Z).

Lemma stop_stopped s : stopped s -> stop s = (true, s).
Proof.
  intros (H1&H2&H). unfold stop, tick. rewrite H1. cbn. rewrite H2.
  destruct (returning (ex s)) eqn:E1; [reflexivity|].
  destruct (exiting (ex s)) eqn:E2; [reflexivity|]. cbn.
  destruct H as [H|[H|[H|H]]]; try discriminate.
  - assert ((0 <? brk s)%Z = true) as -> by lia. reflexivity.
  - assert ((0 <? cnt s)%Z = true) as -> by lia. now rewrite orb_true_r.
Qed.

Lemma appc_stopped s ss c r :
  wfr (ctxof s) r -> r <> ONormal -> is_abort r = false -> stopped (appc s (ss, c, r)).
Proof.
  intros Hw Hn Ha. unfold stopped, appc. cbn. repeat split.
  destruct r; cbn in *; try congruence; try tauto.
  - right; right; left. lia.
  - right; right; right. lia.
Qed.

Lemma clean_appc s ss c : clean (appc s (ss, c, ONormal)).
Proof. unfold clean, appc; cbn. tauto. Qed.

Lemma abs_appc s ss c r : abs (appc s (ss, c, r)) = ss.
Proof. unfold abs, appc. destruct ss, r; reflexivity. Qed.

Lemma ctxof_appc s res : ctxof (appc s res) = ctxof s.
Proof. destruct res as [[ss c] r]. reflexivity. Qed.

Lemma appc_appc s res res' : appc (appc s res) res' = appc s res'.
Proof. destruct res as [[ss c] r], res' as [[ss' c'] r']. reflexivity. Qed.

Lemma appc_self s : clean s -> code (ex s) = 0 -> appc s (abs s, 0, ONormal) = s.
Proof.
  destruct s as [v f o [c r e fa] [c' r' e' fa'] b cn il ifn ne ee pf cx la stk].
  unfold clean, appc, abs; cbn. intros (->&->&->&->&->&->&->&->&->&->) ->. reflexivity.
Qed.

Lemma fin_appc s ss c r :
  fin (appc s (ss, c, r)) = appc s (s_set_last c ss, c, r).
Proof. reflexivity. Qed.

(* a stopped machine skips statements *)
Lemma rstmt_stopped cmdf t s : stopped s -> rstmt cmdf t s = s.
Proof. intros H. destruct t. unfold rstmt. now rewrite (stop_stopped s H). Qed.

Lemma rstmts_stopped cmdf l s : stopped s -> rstmts cmdf l s = s.
Proof.
  revert s; induction l as [|t l IH]; intros s H; cbn; [reflexivity|].
  rewrite rstmt_stopped by assumption. now apply IH.
Qed.

Lemma loop_body_stopped cmdf old l s :
  stopped s -> brk s = 0%Z -> cnt s = 0%Z -> loop_body cmdf old l s = (s, false).
Proof.
  revert s; induction l as [|t l IH]; intros s H Hb Hc; cbn [loop_body]; [reflexivity|].
  rewrite rstmt_stopped by assumption. rewrite Hb, Hc. cbn. now apply IH.
Qed.

Lemma cmd_nofuel_stopped s : stopped s -> cmd_nofuel s = s.
Proof. intros H. unfold cmd_nofuel. now rewrite (stop_stopped s H). Qed.

Lemma run_stopped fuel c s : stopped s -> run fuel c s = s.
Proof.
  intros H. destruct fuel; cbn [run]; [now apply cmd_nofuel_stopped|].
  unfold cmd_step. now rewrite (stop_stopped s H).
Qed.

(* ---- statement post-processing -------------------------------------------------- *)
Lemma fin_sync_post neg c x : fin (sync_post neg c x) = fin (sync_post neg c (fin x)).
Proof.
  destruct x as [v f o [cd r e fa] le b cn il ifn ne ee pf cx la stk].
  unfold sync_post, fin, ok, set_code, exit_clear; cbn.
  destruct neg, (is_andor c), (is_compound c), r, e, fa, (cd =? 0), ne, ee; reflexivity.
Qed.

(* a break/continue that comes out of a simple command has status 0 (it is the
   builtin itself), so errexit never fires on it *)
Definition brk_code_ok (c : cmd) (res : sres) : Prop :=
  match outc res with
  | OBrk _ | OCnt _ => is_andor c = false -> is_compound c = false -> rcode res = 0
  | _ => True
  end.

Lemma post_appc neg c s ss cd r :
  is_abort r = false -> brk_code_ok c (ss, cd, r) ->
  fin (sync_post neg c (appc s (ss, cd, r))) = appc s (stmt_post (ctxof s) neg c (ss, cd, r)).
Proof.
  intros Ha Hb. unfold brk_code_ok, outc, rcode in Hb. cbn in Hb.
  unfold sync_post, stmt_post, errexit_stmt, fin, ok, set_code, exit_clear, appc, ctxof; cbn.
  destruct r as [ |n|n|e| |w]; cbn in *; try discriminate;
    destruct neg, (is_andor c), (is_compound c); cbn;
    try (rewrite (Hb eq_refl eq_refl); cbn; reflexivity);
    destruct (cd =? 0) eqn:E; cbn; try rewrite E; cbn;
    destruct (noErrExit s), (serrexit ss); cbn; try destruct e; reflexivity.
Qed.

Lemma sync_post_fin_appc neg c s x res :
  noabort res -> brk_code_ok c res -> fin x = fin (appc s res) ->
  fin (sync_post neg c x) = appc s (stmt_post (ctxof s) neg c res).
Proof.
  intros Ha Hb Hx. destruct res as [[ss cd] r]. rewrite fin_sync_post, Hx, <- fin_sync_post.
  now apply post_appc.
Qed.

Lemma stmt_post_abort k neg c res : is_abort (outc res) = true -> is_abort (outc (stmt_post k neg c res)) = true.
Proof. destruct res as [[ss cd] r]. destruct r; cbn; try discriminate. reflexivity. Qed.

Lemma stmt_post_wfr k k1 neg c res :
  inl k1 = inl k -> infn k1 = infn k -> wfr k1 (outc res) -> wfr k (outc (stmt_post k neg c res)).
Proof.
  intros H1 H2. destruct res as [[ss cd] r]. destruct r; cbn; rewrite ?H1, ?H2; try tauto.
  destruct (errexit_stmt neg c && _ && _ && _); cbn; tauto.
Qed.

Lemma stmt_post_last k neg c res :
  noabort (stmt_post k neg c res) -> slast (rst (stmt_post k neg c res)) = rcode (stmt_post k neg c res).
Proof. destruct res as [[ss cd] r]. destruct r; cbn; try reflexivity. discriminate. Qed.

Lemma fin_set_noErrExit b x : fin (set_noErrExit b x) = set_noErrExit b (fin x).
Proof. reflexivity. Qed.

Lemma noabort_dec res : {noabort res} + {is_abort (outc res) = true}.
Proof. unfold noabort. destruct (is_abort (outc res)); [right|left]; reflexivity. Qed.

(* ---- builtins ------------------------------------------------------------------------ *)
Definition brk_zero (res : sres) : Prop :=
  match outc res with OBrk _ | OCnt _ => rcode res = 0 | _ => True end.

Ltac bleaf Ha :=
  first [ discriminate Ha
        | split; [reflexivity | split; cbn; auto; try tauto ] ].

Lemma builtin_ok name args s :
  clean s -> code (ex s) = 0 ->
  noabort (sem_builtin (ctxof s) name args (abs s)) ->
  fin (builtin name args s) = fin (appc s (sem_builtin (ctxof s) name args (abs s)))
  /\ wfr (ctxof s) (outc (sem_builtin (ctxof s) name args (abs s)))
  /\ brk_zero (sem_builtin (ctxof s) name args (abs s)).
Proof.
  destruct s as [v f o [c r e fa] [c' r' e' fa'] b cn il ifn ne ee pf cx la stk].
  unfold clean; cbn. intros (->&->&->&->&->&->&->&->&->&->) ->.
  unfold builtin, sem_builtin, noabort, brk_zero, outc, rcode, ctxof, abs, wfr. cbn [inl infn noerr inLoop inFunc noErrExit].
  intros Ha.
  destruct (str_eqb name n_colon || str_eqb name n_true); [bleaf Ha|].
  destruct (str_eqb name n_false); [bleaf Ha|].
  destruct (str_eqb name n_echo).
  { destruct args as [|a args]; [bleaf Ha|]. destruct (is_echo_opt a); bleaf Ha. }
  destruct (str_eqb name n_break) eqn:Eb.
  { cbn [orb] in *. unfold builtin_loopctl. cbn. destruct il; cbn in *; [|bleaf Ha].
    destruct args as [|a [|a2 args]]; cbn in *; [bleaf Ha; lia| |bleaf Ha].
    destruct (atoi a) as [z|]; cbn in *; [|bleaf Ha].
    destruct (z <? 1)%Z eqn:Ez; cbn in *; [bleaf Ha|]. bleaf Ha. lia. }
  destruct (str_eqb name n_continue) eqn:Ec.
  { cbn [orb] in *. unfold builtin_loopctl. cbn. destruct il; cbn in *; [|bleaf Ha].
    destruct args as [|a [|a2 args]]; cbn in *; [bleaf Ha; lia| |bleaf Ha].
    destruct (atoi a) as [z|]; cbn in *; [|bleaf Ha].
    destruct (z <? 1)%Z eqn:Ez; cbn in *; [bleaf Ha|]. bleaf Ha. lia. }
  cbn [orb] in *.
  destruct (str_eqb name n_return).
  { unfold builtin_return. cbn. destruct ifn; cbn in *; [|bleaf Ha].
    destruct args as [|a [|a2 args]]; cbn in *; [bleaf Ha| |bleaf Ha].
    destruct (atoi a) as [z|]; cbn in *; bleaf Ha. }
  destruct (str_eqb name n_exit).
  { unfold builtin_exit. cbn.
    destruct args as [|a [|a2 args]]; cbn in *; [bleaf Ha| |bleaf Ha].
    destruct (atoi a) as [z|]; cbn in *; bleaf Ha. }
  destruct (str_eqb name n_set).
  { destruct ne; cbn in *; [discriminate Ha|].
    destruct args as [|a [|a2 [|a3 args]]]; cbn in *; [bleaf Ha| | |bleaf Ha].
    - destruct (str_eqb a n_me); [bleaf Ha|]. destruct (str_eqb a n_pe); bleaf Ha.
    - destruct (str_eqb a2 n_pipefail); [|bleaf Ha].
      destruct (str_eqb a n_mo); [bleaf Ha|]. destruct (str_eqb a n_po); bleaf Ha. }
  destruct (is_other_builtin name); bleaf Ha.
Qed.


Section Step.
Variable fuel : nat.
Hypothesis IH : forall c s, clean s -> code (ex s) = 0 ->
  noabort (sem fuel (ctxof s) c (abs s)) ->
  fin (run fuel c s) = fin (appc s (sem fuel (ctxof s) c (abs s)))
  /\ wfr (ctxof s) (outc (sem fuel (ctxof s) c (abs s)))
  /\ brk_code_ok c (sem fuel (ctxof s) c (abs s)).

Notation rstmtF := (rstmt (run fuel)).
Notation rstmtsF := (rstmts (run fuel)).
Notation sem_stmtF := (sem_stmt (sem fuel)).
Notation sem_stmtsF := (sem_stmts (sem fuel)).

Lemma rstmt_ok t s :
  clean s -> noabort (sem_stmtF (ctxof s) t (abs s)) ->
  rstmtF t s = appc s (sem_stmtF (ctxof s) t (abs s))
  /\ wfr (ctxof s) (outc (sem_stmtF (ctxof s) t (abs s)))
  /\ slast (rst (sem_stmtF (ctxof s) t (abs s))) = rcode (sem_stmtF (ctxof s) t (abs s)).
Proof.
  intros Hc Ha. destruct t as [neg c]. unfold rstmt. rewrite (stop_clean s Hc).
  cbn [sem_stmt] in *.
  set (s0 := set_ex exit0 s).
  assert (Hc0 : clean s0) by (destruct Hc as (?&?&?&?&?&?&?&?&?&?); unfold clean, s0; cbn; tauto).
  assert (Habs : abs s0 = abs s) by reflexivity.
  set (k1 := if neg then mkK (inl (ctxof s)) (infn (ctxof s)) true else ctxof s) in *.
  set (s1 := if neg then set_noErrExit true s0 else s0).
  assert (Hc1 : clean s1) by (unfold s1; destruct neg; [|exact Hc0];
    destruct Hc0 as (?&?&?&?&?&?&?&?&?&?); unfold clean; cbn; tauto).
  assert (Hk1 : ctxof s1 = k1) by (unfold s1, k1; destruct neg; reflexivity).
  assert (Habs1 : abs s1 = abs s) by (unfold s1; destruct neg; reflexivity).
  assert (Hcode1 : code (ex s1) = 0) by (unfold s1; destruct neg; reflexivity).
  set (res := sem fuel k1 c (abs s)) in *.
  assert (Hna : noabort res).
  { destruct (noabort_dec res) as [H|H]; [exact H|].
    apply (stmt_post_abort (ctxof s) neg c) in H. unfold noabort in Ha. congruence. }
  pose proof (IH c s1 Hc1 Hcode1) as IHc. rewrite Hk1, Habs1 in IHc. fold res in IHc.
  destruct (IHc Hna) as (IH1&IH2&IH3). clear IHc.
  assert (HX : fin (sync_run (run fuel) neg c s0) = fin (appc s res)).
  { unfold sync_run. change (ok s0) with true. cbv iota. unfold s1 in IH1. destruct neg.
    - rewrite fin_set_noErrExit, IH1. destruct res as [[ss cd] r]. reflexivity.
    - rewrite IH1. destruct res as [[ss cd] r]. reflexivity. }
  split; [|split].
  - unfold stmt_sync. change (set_lastEx (ex ?y) ?y) with (fin y).
    now apply sync_post_fin_appc.
  - apply stmt_post_wfr with (k1 := k1); [unfold k1; destruct neg; reflexivity..|exact IH2].
  - now apply stmt_post_last.
Qed.

Lemma sem_stmts_abort_head k t l ss :
  is_abort (outc (sem_stmtF k t ss)) = true -> is_abort (outc (sem_stmtsF k (t :: l) ss)) = true.
Proof.
  cbn [sem_stmts]. destruct (sem_stmtF k t ss) as [[ss1 c1] r1]. destruct r1; cbn; try discriminate. reflexivity.
Qed.

Lemma rstmts_ok l : forall s,
  clean s -> (l = [] -> code (ex s) = 0) ->
  noabort (sem_stmtsF (ctxof s) l (abs s)) ->
  rstmtsF l s = appc s (sem_stmtsF (ctxof s) l (abs s))
  /\ wfr (ctxof s) (outc (sem_stmtsF (ctxof s) l (abs s))).
Proof.
  induction l as [|t l IHl]; intros s Hc H0 Ha.
  - cbn [rstmts sem_stmts]. rewrite appc_self; auto. split; [reflexivity|exact I].
  - destruct (noabort_dec (sem_stmtF (ctxof s) t (abs s))) as [Ht|Ht].
    2:{ apply (sem_stmts_abort_head _ _ l) in Ht. unfold noabort in Ha. congruence. }
    destruct (rstmt_ok t s Hc Ht) as (E1&W1&L1).
    cbn [rstmts sem_stmts] in *. rewrite E1.
    destruct (sem_stmtF (ctxof s) t (abs s)) as [[ss1 c1] r1] eqn:Et.
    unfold rst, rcode, outc in *. cbn [fst snd] in *.
    destruct r1 as [ |n|n|e| |w].
    + destruct l as [|t2 l2].
      * cbn. split; [reflexivity|exact I].
      * pose proof (IHl (appc s (ss1, c1, ONormal)) (clean_appc _ _ _)) as IH2.
        rewrite abs_appc, ctxof_appc in IH2.
        destruct IH2 as [E2 W2]; [discriminate|exact Ha|].
        rewrite E2. rewrite appc_appc. split; auto.
    + rewrite rstmts_stopped; [split; auto|]. apply appc_stopped; auto; discriminate.
    + rewrite rstmts_stopped; [split; auto|]. apply appc_stopped; auto; discriminate.
    + rewrite rstmts_stopped; [split; auto|]. apply appc_stopped; auto; discriminate.
    + rewrite rstmts_stopped; [split; auto|]. apply appc_stopped; auto; discriminate.
    + discriminate Ht.
Qed.

(* ---- loop bodies ---------------------------------------------------------------- *)
Definition lb_spec (old : bool) (s : st) (res : sres) : st * bool :=
  let '(ss, c, r) := res in
  match r with
  | OCnt n => let n' := level_down (negb old) n in
              (appc s (ss, c, if (0 <? n')%Z then OCnt n' else ONormal), (0 <? n')%Z)
  | OBrk n => let n' := level_down (negb old) n in
              (appc s (ss, c, if (0 <? n')%Z then OBrk n' else ONormal), true)
  | _ => (appc s res, false)
  end.

Lemma loop_body_ok old l : forall s,
  clean s -> (l = [] -> code (ex s) = 0) ->
  noabort (sem_stmtsF (ctxof s) l (abs s)) ->
  loop_body (run fuel) old l s = lb_spec old s (sem_stmtsF (ctxof s) l (abs s))
  /\ wfr (ctxof s) (outc (sem_stmtsF (ctxof s) l (abs s))).
Proof.
  induction l as [|t l IHl]; intros s Hc H0 Ha.
  - cbn [loop_body sem_stmts lb_spec]. rewrite appc_self; auto. split; [reflexivity|exact I].
  - destruct (noabort_dec (sem_stmtF (ctxof s) t (abs s))) as [Ht|Ht].
    2:{ apply (sem_stmts_abort_head _ _ l) in Ht. unfold noabort in Ha. congruence. }
    destruct (rstmt_ok t s Hc Ht) as (E1&W1&L1).
    cbn [loop_body sem_stmts] in *. rewrite E1.
    destruct (sem_stmtF (ctxof s) t (abs s)) as [[ss1 c1] r1] eqn:Et.
    unfold rst, rcode, outc in *. cbn [fst snd] in *.
    destruct r1 as [ |n|n|e| |w].
    + change (cnt (appc s (ss1, c1, ONormal))) with 0%Z.
      change (brk (appc s (ss1, c1, ONormal))) with 0%Z. cbn [Z.ltb Z.compare].
      destruct l as [|t2 l2].
      * cbn. split; [reflexivity|exact I].
      * pose proof (IHl (appc s (ss1, c1, ONormal)) (clean_appc _ _ _)) as IH2.
        rewrite abs_appc, ctxof_appc in IH2.
        destruct IH2 as [E2 W2]; [discriminate|exact Ha|].
        rewrite E2. split; auto.
    + (* OBrk *) cbn in W1. destruct W1 as [W1 W1'].
      change (cnt (appc s (ss1, c1, OBrk n))) with 0%Z.
      change (brk (appc s (ss1, c1, OBrk n))) with n. cbn [Z.ltb Z.compare].
      assert ((0 <? n)%Z = true) as -> by lia.
      split; [|cbn; auto]. unfold lb_spec, level_down.
      destruct old; cbn; [|reflexivity].
      destruct (0 <? n - 1)%Z eqn:E; [reflexivity|].
      assert (n - 1 = 0)%Z as Hn by lia. unfold appc, set_brk; cbn. rewrite Hn. reflexivity.
    + (* OCnt *) cbn in W1. destruct W1 as [W1 W1'].
      change (cnt (appc s (ss1, c1, OCnt n))) with n.
      assert ((0 <? n)%Z = true) as -> by lia.
      split; [|cbn; auto]. unfold lb_spec, level_down.
      destruct old; cbn; [|reflexivity].
      destruct (0 <? n - 1)%Z eqn:E; [reflexivity|].
      assert (n - 1 = 0)%Z as Hn by lia. unfold appc, set_cnt; cbn. rewrite Hn. reflexivity.
    + rewrite loop_body_stopped; [split; auto| |reflexivity|reflexivity]. apply appc_stopped; auto; discriminate.
    + rewrite loop_body_stopped; [split; auto| |reflexivity|reflexivity]. apply appc_stopped; auto; discriminate.
    + discriminate Ht.
Qed.

Lemma loop_broken_ok l s :
  clean s -> (l = [] -> code (ex s) = 0) ->
  noabort (sem_stmtsF (in_loop (ctxof s)) l (abs s)) ->
  loop_broken (run fuel) l s = lb_spec (inLoop s) s (sem_stmtsF (in_loop (ctxof s)) l (abs s))
  /\ wfr (in_loop (ctxof s)) (outc (sem_stmtsF (in_loop (ctxof s)) l (abs s))).
Proof.
  intros Hc H0 Ha. unfold loop_broken.
  set (s' := set_inLoop true s).
  assert (Hc' : clean s') by (destruct Hc as (?&?&?&?&?&?&?&?&?&?); unfold clean, s'; cbn; tauto).
  assert (Hk : ctxof s' = in_loop (ctxof s)) by reflexivity.
  assert (Habs : abs s' = abs s) by reflexivity.
  pose proof (loop_body_ok (inLoop s) l s' Hc' H0) as H. rewrite Hk, Habs in H.
  destruct (H Ha) as [E W]. rewrite E. split; auto.
  destruct (sem_stmtsF (in_loop (ctxof s)) l (abs s)) as [[ss c] r].
  unfold lb_spec. destruct r; reflexivity.
Qed.


Lemma loop_broken_stopped l s :
  stopped s -> brk s = 0%Z -> cnt s = 0%Z -> loop_broken (run fuel) l s = (s, false).
Proof.
  intros H Hb Hc. unfold loop_broken.
  rewrite loop_body_stopped; [destruct s; reflexivity| |exact Hb|exact Hc].
  destruct H as (?&?&?). unfold stopped; cbn. tauto.
Qed.

Lemma while_loop_stopped n u c b last s : stopped s -> while_loop (run fuel) n u c b last s = s.
Proof. intros H. destruct n; cbn [while_loop]; now rewrite (stop_stopped s H). Qed.

Lemma appc_self' s : clean s -> appc s (abs s, code (ex s), ONormal) = s.
Proof.
  destruct s as [v f o [c r e fa] [c' r' e' fa'] b cn il ifn ne ee pf cx la stk].
  unfold clean, appc, abs; cbn. intros (->&->&->&->&->&->&->&->&->&->). reflexivity.
Qed.

(* ---- while / until ---------------------------------------------------------------- *)
Lemma while_ok n : forall u c b last s,
  clean s ->
  noabort (sem_while (sem fuel) n (ctxof s) u c b last (abs s)) ->
  while_loop (run fuel) n u c b last s = appc s (sem_while (sem fuel) n (ctxof s) u c b last (abs s))
  /\ wfr (ctxof s) (outc (sem_while (sem fuel) n (ctxof s) u c b last (abs s))).
Proof.
  induction n as [|n IHn]; intros u c b last s Hc Ha; [discriminate Ha|].
  cbn [while_loop sem_while] in *. rewrite (stop_clean s Hc).
  destruct c as [|c0 cl]; [discriminate Ha|].
  set (cond := c0 :: cl) in *.
  set (sc := set_noErrExit true s).
  assert (Hcc : clean sc) by (destruct Hc as (?&?&?&?&?&?&?&?&?&?); unfold clean, sc; cbn; tauto).
  pose proof (rstmts_ok cond sc Hcc) as Hcond.
  change (ctxof sc) with (in_cond (ctxof s)) in Hcond. change (abs sc) with (abs s) in Hcond.
  destruct (sem_stmtsF (in_cond (ctxof s)) cond (abs s)) as [[ss1 c1] r1] eqn:Ec.
  destruct r1 as [ |m|m|e| |w]; try discriminate Ha.
  - (* the condition ran to completion *)
    destruct Hcond as [E1 _]; [discriminate|reflexivity|]. rewrite E1.
    change (set_noErrExit (noErrExit s) (appc sc (ss1, c1, ONormal))) with (appc s (ss1, c1, ONormal)).
    change (ok (appc s (ss1, c1, ONormal))) with (c1 =? 0).
    destruct (Bool.eqb (c1 =? 0) u) eqn:Estop.
    + cbn. split; [reflexivity|exact I].
    + change (set_ex (exit_clear (ex (appc s (ss1, c1, ONormal)))) (appc s (ss1, c1, ONormal)))
        with (appc s (ss1, 0, ONormal)).
      set (s2 := appc s (ss1, 0, ONormal)).
      assert (Hc2 : clean s2) by apply clean_appc.
      pose proof (loop_broken_ok b s2 Hc2 (fun _ => eq_refl)) as Hb.
      unfold s2 in Hb. rewrite abs_appc, ctxof_appc in Hb. fold s2 in Hb.
      destruct (sem_stmtsF (in_loop (ctxof s)) b ss1) as [[ss2 c2] r2] eqn:Eb.
      change (inLoop s2) with (inLoop s) in Hb.
      destruct r2 as [ |m|m|e| |w].
      * destruct Hb as [E2 W2]; [reflexivity|]. rewrite E2. cbn [lb_spec loop_after] in *.
        unfold s2. rewrite appc_appc.
        pose proof (IHn u cond b c2 (appc s (ss2, c2, ONormal)) (clean_appc _ _ _)) as IH2.
        rewrite abs_appc, ctxof_appc in IH2. destruct (IH2 Ha) as [E3 W3].
        change (code (ex (appc s (ss2, c2, ONormal)))) with c2. rewrite E3, appc_appc. split; auto.
      * (* OBrk *)
        destruct Hb as [E2 W2]; [reflexivity|]. rewrite E2. cbn [lb_spec loop_after] in *.
        change (negb (inl (ctxof s))) with (negb (inLoop s)) in *.
        unfold s2. rewrite appc_appc. cbn in W2. destruct W2 as [W2 _].
        destruct (0 <? level_down (negb (inLoop s)) m)%Z eqn:El; (split; [reflexivity|]); cbn; auto.
        unfold level_down in El. unfold wfr, ctxof, inl. destruct (inLoop s); cbn in *; [split; [lia|reflexivity]|discriminate].
      * (* OCnt *)
        destruct (0 <? level_down (negb (inl (ctxof s))) m)%Z eqn:El.
        -- destruct Hb as [E2 W2]; [reflexivity|]. rewrite E2. cbn [lb_spec loop_after] in *.
           change (negb (inl (ctxof s))) with (negb (inLoop s)) in *. rewrite El in *.
           unfold s2. rewrite appc_appc. split; [reflexivity|]. cbn in W2. destruct W2 as [W2 _].
           unfold level_down in El. unfold wfr, ctxof, inl. destruct (inLoop s); cbn in *; [split; [lia|reflexivity]|discriminate].
        -- cbn [loop_after] in Ha. rewrite El in Ha.
           destruct Hb as [E2 W2]; [reflexivity|]. rewrite E2. cbn [lb_spec loop_after] in *.
           change (negb (inl (ctxof s))) with (negb (inLoop s)) in *. rewrite El in *.
           unfold s2. rewrite appc_appc.
           pose proof (IHn u cond b c2 (appc s (ss2, c2, ONormal)) (clean_appc _ _ _)) as IH2.
           rewrite abs_appc, ctxof_appc in IH2. destruct (IH2 Ha) as [E3 W3].
           change (code (ex (appc s (ss2, c2, ONormal)))) with c2. rewrite E3, appc_appc. split; auto.
      * destruct Hb as [E2 W2]; [reflexivity|]. rewrite E2. cbn [lb_spec loop_after] in *.
        unfold s2. rewrite appc_appc. rewrite while_loop_stopped; [split; auto|].
        apply appc_stopped; auto; discriminate.
      * destruct Hb as [E2 W2]; [reflexivity|]. rewrite E2. cbn [lb_spec loop_after] in *.
        unfold s2. rewrite appc_appc. rewrite while_loop_stopped; [split; auto|].
        apply appc_stopped; auto; discriminate.
      * discriminate Ha.
  - (* return in the condition *)
    destruct Hcond as [E1 W1]; [discriminate|reflexivity|]. rewrite E1.
    change (set_noErrExit (noErrExit s) (appc sc (ss1, c1, ORet e))) with (appc s (ss1, c1, ORet e)).
    assert (Hst : stopped (appc s (ss1, c1, ORet e))) by (apply appc_stopped; auto; discriminate).
    change (set_ex (exit_clear (ex (appc s (ss1, c1, ORet e)))) (appc s (ss1, c1, ORet e)))
      with (appc s (ss1, c1, ORet e)).
    destruct (Bool.eqb (ok (appc s (ss1, c1, ORet e))) u); cbn [negb andb returning ex appc ex_of].
    + split; [reflexivity|exact W1].
    + rewrite loop_broken_stopped by (auto; reflexivity). rewrite while_loop_stopped by exact Hst.
      split; [reflexivity|exact W1].
  - (* exit in the condition *)
    destruct Hcond as [E1 W1]; [discriminate|reflexivity|]. rewrite E1.
    change (set_noErrExit (noErrExit s) (appc sc (ss1, c1, OExit))) with (appc s (ss1, c1, OExit)).
    assert (Hst : stopped (appc s (ss1, c1, OExit))) by (apply appc_stopped; auto; discriminate).
    change (set_ex (exit_clear (ex (appc s (ss1, c1, OExit)))) (appc s (ss1, c1, OExit)))
      with (appc s (ss1, c1, OExit)).
    destruct (Bool.eqb (ok (appc s (ss1, c1, OExit))) u); cbn [negb andb returning exiting ex appc ex_of].
    + split; [reflexivity|exact I].
    + rewrite loop_broken_stopped by (auto; reflexivity). rewrite while_loop_stopped by exact Hst.
      split; [reflexivity|exact I].
Qed.


(* ---- for ---------------------------------------------------------------------------- *)
Lemma for_ok x b items : forall last s,
  clean s -> code (ex s) = last -> (b = [] -> last = 0) ->
  noabort (sem_for (sem fuel) (ctxof s) x items b last (abs s)) ->
  for_loop (run fuel) x items b s = appc s (sem_for (sem fuel) (ctxof s) x items b last (abs s))
  /\ wfr (ctxof s) (outc (sem_for (sem fuel) (ctxof s) x items b last (abs s))).
Proof.
  induction items as [|f items IHi]; intros last s Hc Hl Hb0 Ha.
  - cbn [for_loop sem_for]. subst last. rewrite appc_self' by exact Hc. split; [reflexivity|exact I].
  - cbn [for_loop sem_for] in *. rewrite (stop_clean s Hc).
    set (s' := set_vars (update x f (vars s)) s).
    assert (Hc' : clean s') by (destruct Hc as (?&?&?&?&?&?&?&?&?&?); unfold clean, s'; cbn; tauto).
    assert (H0' : b = [] -> code (ex s') = 0) by (intros Hb; rewrite <- (Hb0 Hb), <- Hl; reflexivity).
    pose proof (loop_broken_ok b s' Hc' H0') as Hb.
    change (ctxof s') with (ctxof s) in Hb.
    change (abs s') with (s_set_vars (update x f (svars (abs s))) (abs s)) in Hb.
    change (inLoop s') with (inLoop s) in Hb.
    destruct (sem_stmtsF (in_loop (ctxof s)) b (s_set_vars (update x f (svars (abs s))) (abs s)))
      as [[ss2 c2] r2] eqn:Eb.
    assert (Hb2 : b = [] -> c2 = 0).
    { intros ->. cbn in Eb. now inversion Eb. }
    destruct r2 as [ |m|m|e| |w].
    + destruct Hb as [E2 W2]; [reflexivity|]. rewrite E2. cbn [lb_spec loop_after] in *.
      pose proof (IHi c2 (appc s' (ss2, c2, ONormal)) (clean_appc _ _ _) eq_refl Hb2) as IH2.
      rewrite abs_appc, ctxof_appc in IH2. change (ctxof s') with (ctxof s) in IH2.
      destruct (IH2 Ha) as [E3 W3]. rewrite E3, appc_appc. split; auto.
    + destruct Hb as [E2 W2]; [reflexivity|]. rewrite E2. cbn [lb_spec loop_after] in *.
      change (negb (inl (ctxof s))) with (negb (inLoop s)) in *.
      cbn in W2. destruct W2 as [W2 _].
      destruct (0 <? level_down (negb (inLoop s)) m)%Z eqn:El; (split; [reflexivity|]); cbn; auto.
      unfold level_down in El. unfold wfr, ctxof, inl. destruct (inLoop s); cbn in *; [split; [lia|reflexivity]|discriminate].
    + destruct (0 <? level_down (negb (inl (ctxof s))) m)%Z eqn:El.
      * destruct Hb as [E2 W2]; [reflexivity|]. rewrite E2. cbn [lb_spec loop_after] in *.
        change (negb (inl (ctxof s))) with (negb (inLoop s)) in *. rewrite El in *.
        split; [reflexivity|]. cbn in W2. destruct W2 as [W2 _].
        unfold level_down in El. unfold wfr, ctxof, inl. destruct (inLoop s); cbn in *; [split; [lia|reflexivity]|discriminate].
      * cbn [loop_after] in Ha. rewrite El in Ha.
        destruct Hb as [E2 W2]; [reflexivity|]. rewrite E2. cbn [lb_spec loop_after] in *.
        change (negb (inl (ctxof s))) with (negb (inLoop s)) in *. rewrite El in *.
        pose proof (IHi c2 (appc s' (ss2, c2, ONormal)) (clean_appc _ _ _) eq_refl Hb2) as IH2.
        rewrite abs_appc, ctxof_appc in IH2. change (ctxof s') with (ctxof s) in IH2.
        destruct (IH2 Ha) as [E3 W3]. rewrite E3, appc_appc. split; auto.
    + destruct Hb as [E2 W2]; [reflexivity|]. rewrite E2. cbn [lb_spec loop_after] in *.
      assert (Hst : stopped (appc s' (ss2, c2, ORet e))) by (apply appc_stopped; auto; discriminate).
      destruct items; cbn [for_loop]; [|rewrite (stop_stopped _ Hst)]; (split; [reflexivity|exact W2]).
    + destruct Hb as [E2 W2]; [reflexivity|]. rewrite E2. cbn [lb_spec loop_after] in *.
      assert (Hst : stopped (appc s' (ss2, c2, OExit))) by (apply appc_stopped; auto; discriminate).
      destruct items; cbn [for_loop]; [|rewrite (stop_stopped _ Hst)]; (split; [reflexivity|exact I]).
    + discriminate Ha.
Qed.

(* ---- case --------------------------------------------------------------------------- *)
Lemma pats_match s subj pats :
  existsb (pat_match s subj) pats = existsb (spat_match (abs s) subj) pats.
Proof. induction pats as [|p pats IHp]; cbn; [reflexivity|]. rewrite IHp. destruct p; reflexivity. Qed.

Lemma case_ok subj items : forall s,
  clean s -> code (ex s) = 0 ->
  noabort (sem_case (sem fuel) (ctxof s) subj items (abs s)) ->
  case_items (run fuel) subj items s = appc s (sem_case (sem fuel) (ctxof s) subj items (abs s))
  /\ wfr (ctxof s) (outc (sem_case (sem fuel) (ctxof s) subj items (abs s))).
Proof.
  induction items as [|[pats body] items IHi]; intros s Hc H0 Ha.
  - cbn [case_items sem_case]. rewrite appc_self; auto. split; [reflexivity|exact I].
  - cbn [case_items sem_case] in *.
    destruct (existsb pat_has_subst pats); [discriminate Ha|]. rewrite pats_match.
    destruct (existsb (spat_match (abs s) subj) pats).
    + apply rstmts_ok; auto.
    + apply IHi; auto.
Qed.

(* ---- calls ---------------------------------------------------------------------------- *)
Lemma call_ok fields s :
  clean s -> code (ex s) = 0 ->
  noabort (sem_call (sem fuel) (ctxof s) fields (abs s)) ->
  fin (call (run fuel) fields s) = fin (appc s (sem_call (sem fuel) (ctxof s) fields (abs s)))
  /\ wfr (ctxof s) (outc (sem_call (sem fuel) (ctxof s) fields (abs s)))
  /\ brk_zero (sem_call (sem fuel) (ctxof s) fields (abs s)).
Proof.
  intros Hc H0 Ha. unfold call, sem_call in *. rewrite (stop_clean s Hc).
  destruct fields as [|name args].
  - rewrite appc_self by assumption. repeat split.
  - change (sfuncs (abs s)) with (funcs s) in *.
    destruct (lookup name (funcs s)) as [body|]; [|now apply builtin_ok].
    set (s' := set_inLoop false (set_inFunc true s)).
    assert (Hc' : clean s') by (destruct Hc as (?&?&?&?&?&?&?&?&?&?); unfold clean, s'; cbn; tauto).
    pose proof (rstmt_ok body s' Hc') as Hb.
    change (ctxof s') with (mkK false true (noerr (ctxof s))) in Hb. change (abs s') with (abs s) in Hb.
    destruct (sem_stmtF (mkK false true (noerr (ctxof s))) body (abs s)) as [[ss1 c1] r1] eqn:Eb.
    destruct r1 as [ |m|m|e| |w].
    + destruct Hb as (E1&W1&L1); [reflexivity|]. rewrite E1. repeat split.
    + destruct Hb as (E1&W1&L1); [reflexivity|]. cbn in W1. destruct W1; discriminate.
    + destruct Hb as (E1&W1&L1); [reflexivity|]. cbn in W1. destruct W1; discriminate.
    + destruct Hb as (E1&W1&L1); [reflexivity|]. rewrite E1. destruct e; repeat split.
    + destruct Hb as (E1&W1&L1); [reflexivity|]. rewrite E1. repeat split.
    + discriminate Ha.
Qed.

Lemma sem_stmt_abort_and k x y ss :
  is_abort (outc (sem_stmtF (in_cond k) x ss)) = true ->
  is_abort (outc (match sem_stmtF (in_cond k) x ss with
                  | (ss1, c1, ONormal) => if c1 =? 0 then sem_stmtF k y ss1 else (ss1, c1, ONormal)
                  | res => res end)) = true.
Proof. destruct (sem_stmtF (in_cond k) x ss) as [[ss1 c1] r1]. destruct r1; cbn; try discriminate. reflexivity. Qed.

Lemma sem_stmt_abort_or k x y ss :
  is_abort (outc (sem_stmtF (in_cond k) x ss)) = true ->
  is_abort (outc (match sem_stmtF (in_cond k) x ss with
                  | (ss1, c1, ONormal) => if c1 =? 0 then (ss1, c1, ONormal) else sem_stmtF k y ss1
                  | res => res end)) = true.
Proof. destruct (sem_stmtF (in_cond k) x ss) as [[ss1 c1] r1]. destruct r1; cbn; try discriminate. reflexivity. Qed.

(* ---- expansion with command substitutions ---------------------------------------------- *)
Lemma clean_restore s : clean s -> set_stuck false (set_late (late s) (set_ctx None s)) = s.
Proof.
  destruct s as [v f o e le b cn il ifn ne ee pf cx la stk]. unfold clean; cbn.
  intros (_&_&_&_&_&_&_&_&->&->). reflexivity.
Qed.

Lemma cmdsubst_ok l s n :
  clean s ->
  match sem_subst (sem fuel) (ctxof s) l (abs s) n with
  | EAbort _ => True
  | EOk v n' => cmdsubst (run fuel) l s (exit_code n) = (v, s, exit_code n')
  end.
Proof.
  intros Hc. destruct l as [|t l]; [reflexivity|].
  unfold sem_subst, cmdsubst.
  set (child := set_out [] (subshell s)).
  assert (Hcc : clean child) by (destruct Hc as (?&?&?&?&?&?&?&?&?&?); unfold clean, child; cbn; tauto).
  pose proof (rstmts_ok (t :: l) child Hcc) as H.
  change (ctxof child) with (mkK false false (noerr (ctxof s))) in H.
  change (abs child) with (s_set_out [] (abs s)) in H.
  destruct (sem_stmtsF (mkK false false (noerr (ctxof s))) (t :: l) (s_set_out [] (abs s))) as [[ss2 c2] r2] eqn:E.
  assert (Hfin : is_abort r2 = false -> (r2 = ONormal \/ r2 = OExit) /\
            rstmtsF (t :: l) child = appc child (ss2, c2, r2)).
  { intros Hna. destruct H as [H1 W]; [discriminate|exact Hna|]. split; [|exact H1].
    destruct r2; cbn in W; try tauto; try (destruct W; discriminate); discriminate. }
  assert (Hres : is_abort r2 = false ->
            (subst_output (out (rstmtsF (t :: l) child)),
             set_stuck (stuck (rstmtsF (t :: l) child) || fatalExit (ex (rstmtsF (t :: l) child)))
               (set_late (late (rstmtsF (t :: l) child)) (set_ctx (ctx (rstmtsF (t :: l) child)) s)),
             mkExit (code (ex (rstmtsF (t :: l) child))) (returning (ex (rstmtsF (t :: l) child))) false
                    (fatalExit (ex (rstmtsF (t :: l) child))))
            = (subst_output (sout ss2), s, exit_code c2)).
  { intros Hna. destruct (Hfin Hna) as [Hr ->].
    destruct Hr as [-> | ->]; cbn; change (late child) with (late s); rewrite (clean_restore s Hc); reflexivity. }
  destruct r2 as [ |m|m|e| |w]; try exact I;
    (destruct (serrexit (abs s));
     [ destruct (sem_stmtsF (mkK false false (noerr (ctxof s))) (t :: l) (s_set_errexit false (s_set_out [] (abs s)))) as [[ss1 c1] r1];
       destruct r1; try exact I;
       (destruct (bytes_eqb (sout ss1) (sout ss2) && (c1 =? c2)); [|exact I]); apply Hres; reflexivity
     | apply Hres; reflexivity ]).
Qed.

Lemma expand_word_ok w : forall s n cur,
  clean s ->
  match sem_expand_word (sem fuel) (ctxof s) w (abs s) n cur with
  | EAbort _ => True
  | EOk (v, _) n' => expand_word (run fuel) w s (exit_code n) = (v, s, exit_code n')
  end.
Proof.
  induction w as [|p w IHw]; intros s n cur Hc; cbn [sem_expand_word expand_word]; [reflexivity|].
  destruct p as [t|x| |l].
  - cbn [part_pure]. specialize (IHw s n cur Hc).
    destruct (sem_expand_word (sem fuel) (ctxof s) w (abs s) n cur) as [[b cur2] n2|]; [|exact I].
    rewrite IHw. reflexivity.
  - cbn [part_pure]. specialize (IHw s n cur Hc).
    destruct (sem_expand_word (sem fuel) (ctxof s) w (abs s) n cur) as [[b cur2] n2|]; [|exact I].
    rewrite IHw. reflexivity.
  - destruct (cur =? slast (abs s)) eqn:Ecur; cbn [negb]; [|exact I].
    apply N.eqb_eq in Ecur. subst cur. specialize (IHw s n (slast (abs s)) Hc).
    destruct (sem_expand_word (sem fuel) (ctxof s) w (abs s) n (slast (abs s))) as [[b cur2] n2|]; [|exact I].
    cbn [part_pure]. rewrite IHw. reflexivity.
  - destruct (cur =? slast (abs s)); cbn [negb]; [|exact I].
    pose proof (cmdsubst_ok l s n Hc) as Hs.
    destruct (sem_subst (sem fuel) (ctxof s) l (abs s) n) as [a n1|]; [|exact I].
    rewrite Hs. specialize (IHw s n1 (match l with [] => cur | _ => n1 end) Hc).
    destruct (sem_expand_word (sem fuel) (ctxof s) w (abs s) n1 (match l with [] => cur | _ => n1 end)) as [[b cur2] n2|]; [|exact I].
    rewrite IHw. reflexivity.
Qed.

Lemma expand_words_ok ws : forall s n cur,
  clean s ->
  match sem_expand_words (sem fuel) (ctxof s) ws (abs s) n cur with
  | EAbort _ => True
  | EOk (l, _) n' => expand_words (run fuel) ws s (exit_code n) = (l, s, exit_code n')
  end.
Proof.
  induction ws as [|w ws IHws]; intros s n cur Hc; cbn [sem_expand_words expand_words]; [reflexivity|].
  pose proof (expand_word_ok w s n cur Hc) as Hw.
  destruct (sem_expand_word (sem fuel) (ctxof s) w (abs s) n cur) as [[a cur1] n1|]; [|exact I].
  rewrite Hw. specialize (IHws s n1 cur1 Hc).
  destruct (sem_expand_words (sem fuel) (ctxof s) ws (abs s) n1 cur1) as [[l cur2] n2|]; [|exact I].
  rewrite IHws. reflexivity.
Qed.

(* one more unit of fuel *)
Lemma step_ok c s :
  clean s -> code (ex s) = 0 ->
  noabort (sem (S fuel) (ctxof s) c (abs s)) ->
  fin (run (S fuel) c s) = fin (appc s (sem (S fuel) (ctxof s) c (abs s)))
  /\ wfr (ctxof s) (outc (sem (S fuel) (ctxof s) c (abs s)))
  /\ brk_code_ok c (sem (S fuel) (ctxof s) c (abs s)).
Proof.
  intros Hc H0 Ha. cbn [run sem] in *. unfold cmd_step. rewrite (stop_clean s Hc).
  assert (Hnoerr : forall b, clean (set_noErrExit b s))
    by (intros b; destruct Hc as (?&?&?&?&?&?&?&?&?&?); unfold clean; cbn; tauto).
  destruct c as [x w|w ws|l|l|x y|x y|x y|c t e|u c b|x items b|w items|name body]; cbn [sem_step] in *.
  - (* assignment *)
    pose proof (expand_word_ok w s 0 (slast (abs s)) Hc) as Hw.
    destruct (sem_expand_word (sem fuel) (ctxof s) w (abs s) 0 (slast (abs s))) as [[v cur] n|]; [|discriminate Ha].
    change exit0 with (exit_code 0). rewrite Hw.
    change (ok (set_vars (update x v (vars s)) s)) with (code (ex s) =? 0). rewrite H0. cbn.
    destruct s as [vv f o [cd r e fa] [cd' r' e' fa'] bk cn il ifn ne ee pf cx la stk]. cbn in *. subst cd.
    unfold clean in Hc; cbn in Hc. destruct Hc as (->&->&->&->&->&->&->&->&->&->). repeat split.
  - (* call *)
    pose proof (expand_words_ok (w :: ws) s 0 (slast (abs s)) Hc) as Hw.
    destruct (sem_expand_words (sem fuel) (ctxof s) (w :: ws) (abs s) 0 (slast (abs s))) as [[fields cur] n|]; [|discriminate Ha].
    change exit0 with (exit_code 0). rewrite Hw.
    destruct (negb (cur =? slast (abs s)) && observes_status fields (abs s)); [discriminate Ha|].
    pose proof (call_ok fields s Hc H0 Ha) as (E&W&B).
    repeat split; auto. unfold brk_code_ok. unfold brk_zero in B.
    destruct (outc (sem_call (sem fuel) (ctxof s) fields (abs s))); auto.
  - (* block *)
    destruct (rstmts_ok l s Hc (fun _ => H0) Ha) as [E W]. rewrite E. repeat split; auto.
    unfold brk_code_ok. destruct (outc _); auto; discriminate.
  - (* subshell *)
    destruct (existsb (fun t => match t with Stmt n _ => n end) l); [discriminate Ha|].
    set (s2 := subshell s).
    assert (Hc2 : clean s2) by (destruct Hc as (?&?&?&?&?&?&?&?&?&?); unfold clean, s2; cbn; tauto).
    pose proof (rstmts_ok l s2 Hc2 (fun _ => H0)) as H2.
    change (ctxof s2) with (mkK false false (noerr (ctxof s))) in H2. change (abs s2) with (abs s) in H2.
    destruct (sem_stmtsF (mkK false false (noerr (ctxof s))) l (abs s)) as [[ss1 c1] r1] eqn:El.
    destruct r1 as [ |m|m|e| |w]; try discriminate Ha;
      (destruct H2 as [E W]; [reflexivity|]); rewrite E; cbn in W; try (destruct W; discriminate); try discriminate W.
    + subst s2. clear E El Hc2 Ha Hnoerr.
      destruct s as [v f o [cd r e fa] [cd' r' e' fa'] bk cn il ifn ne ee pf cx la stk]. cbn in *. subst cd.
      unfold clean in Hc; cbn in Hc. destruct Hc as (->&->&->&->&->&->&->&->&->&->). repeat split.
    + subst s2. clear E El Hc2 Ha Hnoerr.
      destruct s as [v f o [cd r e fa] [cd' r' e' fa'] bk cn il ifn ne ee pf cx la stk]. cbn in *. subst cd.
      unfold clean in Hc; cbn in Hc. destruct Hc as (->&->&->&->&->&->&->&->&->&->). repeat split.
  - (* && *)
    set (sc := set_noErrExit true s).
    pose proof (rstmt_ok x sc (Hnoerr true)) as Hx.
    change (ctxof sc) with (in_cond (ctxof s)) in Hx. change (abs sc) with (abs s) in Hx.
    destruct (noabort_dec (sem_stmtF (in_cond (ctxof s)) x (abs s))) as [Hnx|Hnx].
    2:{ apply (sem_stmt_abort_and (ctxof s) x y (abs s)) in Hnx. unfold noabort in Ha. congruence. }
    destruct (Hx Hnx) as (E1&W1&L1). rewrite E1.
    destruct (sem_stmtF (in_cond (ctxof s)) x (abs s)) as [[ss1 c1] r1] eqn:Ex.
    unfold rst, rcode, outc in *; cbn [fst snd] in *.
    change (set_noErrExit (noErrExit s) (appc sc (ss1, c1, r1))) with (appc s (ss1, c1, r1)).
    assert (Bk : forall res, brk_code_ok (CAnd x y) res) by (intros res; unfold brk_code_ok; destruct (outc res); auto; discriminate).
    destruct r1 as [ |m|m|e| |w].
    + change (ok (appc s (ss1, c1, ONormal))) with (c1 =? 0).
      destruct (c1 =? 0) eqn:E0.
      * pose proof (rstmt_ok y (appc s (ss1, c1, ONormal)) (clean_appc _ _ _)) as Hy.
        rewrite abs_appc, ctxof_appc in Hy. destruct (Hy Ha) as (E2&W2&L2).
        rewrite E2, appc_appc. repeat split; auto.
      * repeat split; auto.
    + change (ok (appc s (ss1, c1, OBrk m))) with (c1 =? 0). destruct (c1 =? 0);
        [rewrite rstmt_stopped by (apply appc_stopped; auto; discriminate)|]; (split; [reflexivity|split; [exact W1|apply Bk]]).
    + change (ok (appc s (ss1, c1, OCnt m))) with (c1 =? 0). destruct (c1 =? 0);
        [rewrite rstmt_stopped by (apply appc_stopped; auto; discriminate)|]; (split; [reflexivity|split; [exact W1|apply Bk]]).
    + change (ok (appc s (ss1, c1, ORet e))) with (c1 =? 0). destruct (c1 =? 0);
        [rewrite rstmt_stopped by (apply appc_stopped; auto; discriminate)|]; (split; [reflexivity|split; [exact W1|apply Bk]]).
    + change (ok (appc s (ss1, c1, OExit))) with (c1 =? 0). destruct (c1 =? 0);
        [rewrite rstmt_stopped by (apply appc_stopped; auto; discriminate)|]; (split; [reflexivity|split; [exact W1|apply Bk]]).
    + discriminate Hnx.
  - (* || *)
    set (sc := set_noErrExit true s).
    pose proof (rstmt_ok x sc (Hnoerr true)) as Hx.
    change (ctxof sc) with (in_cond (ctxof s)) in Hx. change (abs sc) with (abs s) in Hx.
    destruct (noabort_dec (sem_stmtF (in_cond (ctxof s)) x (abs s))) as [Hnx|Hnx].
    2:{ apply (sem_stmt_abort_or (ctxof s) x y (abs s)) in Hnx. unfold noabort in Ha. congruence. }
    destruct (Hx Hnx) as (E1&W1&L1). rewrite E1.
    destruct (sem_stmtF (in_cond (ctxof s)) x (abs s)) as [[ss1 c1] r1] eqn:Ex.
    unfold rst, rcode, outc in *; cbn [fst snd] in *.
    change (set_noErrExit (noErrExit s) (appc sc (ss1, c1, r1))) with (appc s (ss1, c1, r1)).
    assert (Bk : forall res, brk_code_ok (COr x y) res) by (intros res; unfold brk_code_ok; destruct (outc res); auto; discriminate).
    destruct r1 as [ |m|m|e| |w].
    + change (ok (appc s (ss1, c1, ONormal))) with (c1 =? 0).
      destruct (c1 =? 0) eqn:E0; cbn [negb].
      * repeat split; auto.
      * pose proof (rstmt_ok y (appc s (ss1, c1, ONormal)) (clean_appc _ _ _)) as Hy.
        rewrite abs_appc, ctxof_appc in Hy. destruct (Hy Ha) as (E2&W2&L2).
        rewrite E2, appc_appc. repeat split; auto.
    + change (ok (appc s (ss1, c1, OBrk m))) with (c1 =? 0). destruct (c1 =? 0); cbn [negb];
        [|rewrite rstmt_stopped by (apply appc_stopped; auto; discriminate)]; (split; [reflexivity|split; [exact W1|apply Bk]]).
    + change (ok (appc s (ss1, c1, OCnt m))) with (c1 =? 0). destruct (c1 =? 0); cbn [negb];
        [|rewrite rstmt_stopped by (apply appc_stopped; auto; discriminate)]; (split; [reflexivity|split; [exact W1|apply Bk]]).
    + change (ok (appc s (ss1, c1, ORet e))) with (c1 =? 0). destruct (c1 =? 0); cbn [negb];
        [|rewrite rstmt_stopped by (apply appc_stopped; auto; discriminate)]; (split; [reflexivity|split; [exact W1|apply Bk]]).
    + change (ok (appc s (ss1, c1, OExit))) with (c1 =? 0). destruct (c1 =? 0); cbn [negb];
        [|rewrite rstmt_stopped by (apply appc_stopped; auto; discriminate)]; (split; [reflexivity|split; [exact W1|apply Bk]]).
    + discriminate Hnx.
  - (* pipeline *)
    assert (Hctx : ctx s = None) by (destruct Hc as (_&_&_&_&_&_&_&_&Hx&_); exact Hx).
    assert (Hstk : stuck s = false) by (destruct Hc as (_&_&_&_&_&_&_&_&_&Hx); exact Hx).
    rewrite Hctx.
    set (child := set_out [] (subshell s)).
    assert (Hcc : clean child) by (destruct Hc as (?&?&?&?&?&?&?&?&?&?); unfold clean, child; cbn; tauto).
    pose proof (rstmt_ok x child Hcc) as Hx.
    change (ctxof child) with (mkK false false (noerr (ctxof s))) in Hx.
    change (abs child) with (s_set_out [] (abs s)) in Hx.
    destruct (sem_stmtF (mkK false false (noerr (ctxof s))) x (s_set_out [] (abs s))) as [[ssx c1] rx] eqn:Ex.
    assert (Hrx : is_abort rx = false) by (destruct rx; try reflexivity; discriminate Ha).
    destruct (Hx Hrx) as (E1&W1&_). rewrite E1.
    assert (Hnr : rx = ONormal \/ rx = OExit).
    { destruct rx; cbn in W1; try tauto; try (destruct W1; discriminate); discriminate. }
    change (stuck (appc child (ssx, c1, rx))) with false. rewrite Hstk. cbn [orb].
    assert (Hsame : set_stuck false s = s) by (destruct s; cbn in Hstk; subst; reflexivity).
    rewrite Hsame.
    pose proof (rstmt_ok y s Hc) as Hy.
    destruct (sem_stmtF (ctxof s) y (abs s)) as [[ss2 c2] r2] eqn:Ey.
    destruct Hnr as [-> | ->];
      (destruct r2 as [ |m|m|e| |w]; try discriminate Ha;
       destruct (Hy eq_refl) as (E2&_&_); rewrite E2;
       destruct (same_shell (abs s) ss2) eqn:Hss; [|discriminate Ha];
       unfold ok; cbn; destruct (spipefail ss2 && negb (c1 =? 0) && (c2 =? 0));
       (split; [reflexivity|split; [exact I|exact I]])).
  - (* if *)
    set (sc := set_noErrExit true s).
    pose proof (rstmts_ok c sc (Hnoerr true) (fun _ => H0)) as Hcd.
    change (ctxof sc) with (in_cond (ctxof s)) in Hcd. change (abs sc) with (abs s) in Hcd.
    assert (Bk : forall res, brk_code_ok (CIf c t e) res) by (intros res; unfold brk_code_ok; destruct (outc res); auto; discriminate).
    destruct (sem_stmtsF (in_cond (ctxof s)) c (abs s)) as [[ss1 c1] r1] eqn:Ec.
    destruct r1 as [ |m|m|e1| |w]; try discriminate Ha.
    + destruct Hcd as [E1 W1]; [reflexivity|]. rewrite E1.
      change (set_noErrExit (noErrExit s) (appc sc (ss1, c1, ONormal))) with (appc s (ss1, c1, ONormal)).
      change (ok (appc s (ss1, c1, ONormal))) with (c1 =? 0).
      destruct (c1 =? 0) eqn:E0.
      * apply N.eqb_eq in E0. subst c1.
        pose proof (rstmts_ok t (appc s (ss1, 0, ONormal)) (clean_appc _ _ _) (fun _ => eq_refl)) as Ht.
        rewrite abs_appc, ctxof_appc in Ht. destruct (Ht Ha) as [E2 W2].
        rewrite E2, appc_appc. repeat split; auto.
      * change (set_ex (exit_clear (ex (appc s (ss1, c1, ONormal)))) (appc s (ss1, c1, ONormal)))
          with (appc s (ss1, 0, ONormal)).
        destruct e as [e'|].
        -- pose proof (IH e' (appc s (ss1, 0, ONormal)) (clean_appc _ _ _) eq_refl) as He.
           rewrite abs_appc, ctxof_appc in He. destruct (He Ha) as (E2&W2&_).
           rewrite E2. destruct (sem fuel (ctxof s) e' ss1) as [[ss2 c2] r2]. repeat split; auto.
        -- repeat split; auto.
    + destruct Hcd as [E1 W1]; [reflexivity|]. rewrite E1.
      change (set_noErrExit (noErrExit s) (appc sc (ss1, c1, ORet e1))) with (appc s (ss1, c1, ORet e1)).
      assert (Hst : stopped (appc s (ss1, c1, ORet e1))) by (apply appc_stopped; auto; discriminate).
      change (set_ex (exit_clear (ex (appc s (ss1, c1, ORet e1)))) (appc s (ss1, c1, ORet e1)))
        with (appc s (ss1, c1, ORet e1)).
      destruct (ok (appc s (ss1, c1, ORet e1))); [rewrite rstmts_stopped by exact Hst|
        destruct e as [e'|]; [rewrite run_stopped by exact Hst|]]; repeat split; auto.
    + destruct Hcd as [E1 W1]; [reflexivity|]. rewrite E1.
      change (set_noErrExit (noErrExit s) (appc sc (ss1, c1, OExit))) with (appc s (ss1, c1, OExit)).
      assert (Hst : stopped (appc s (ss1, c1, OExit))) by (apply appc_stopped; auto; discriminate).
      change (set_ex (exit_clear (ex (appc s (ss1, c1, OExit)))) (appc s (ss1, c1, OExit)))
        with (appc s (ss1, c1, OExit)).
      destruct (ok (appc s (ss1, c1, OExit))); [rewrite rstmts_stopped by exact Hst|
        destruct e as [e'|]; [rewrite run_stopped by exact Hst|]]; repeat split; auto.
  - (* while *)
    destruct (while_ok fuel u c b 0 s Hc Ha) as [E W]. rewrite E. repeat split; auto.
    unfold brk_code_ok. destruct (outc _); auto; discriminate.
  - (* for *)
    pose proof (expand_words_ok items s 0 (slast (abs s)) Hc) as Hw.
    destruct (sem_expand_words (sem fuel) (ctxof s) items (abs s) 0 (slast (abs s))) as [[fields cur] n|]; [|discriminate Ha].
    change exit0 with (exit_code 0). rewrite Hw.
    destruct (negb (cur =? slast (abs s))); [discriminate Ha|].
    destruct (for_ok x b fields 0 s Hc H0 (fun _ => eq_refl) Ha) as [E W].
    rewrite E. repeat split; auto. unfold brk_code_ok. destruct (outc _); auto; discriminate.
  - (* case *)
    pose proof (expand_word_ok w s 0 (slast (abs s)) Hc) as Hw.
    destruct (sem_expand_word (sem fuel) (ctxof s) w (abs s) 0 (slast (abs s))) as [[subject cur] n|]; [|discriminate Ha].
    change exit0 with (exit_code 0). rewrite Hw.
    destruct (negb (cur =? slast (abs s))); [discriminate Ha|].
    destruct (case_ok subject items s Hc H0 Ha) as [E W]. rewrite E. repeat split; auto.
    unfold brk_code_ok. destruct (outc _); auto; discriminate.
  - (* function definition *)
    destruct s as [v f o [cd r e fa] [cd' r' e' fa'] bk cn il ifn ne ee pf cx la stk]. cbn in *. subst cd.
    unfold clean in Hc; cbn in Hc. destruct Hc as (->&->&->&->&->&->&->&->&->&->). repeat split.
Qed.
End Step.

(* ---- the refinement, for every fuel ---------------------------------------------------- *)
Theorem run_sem : forall fuel c s,
  clean s -> code (ex s) = 0 ->
  noabort (sem fuel (ctxof s) c (abs s)) ->
  fin (run fuel c s) = fin (appc s (sem fuel (ctxof s) c (abs s)))
  /\ wfr (ctxof s) (outc (sem fuel (ctxof s) c (abs s)))
  /\ brk_code_ok c (sem fuel (ctxof s) c (abs s)).
Proof.
  induction fuel as [|fuel IHf]; intros c s Hc H0 Ha; [discriminate Ha|].
  now apply step_ok.
Qed.

(* ---- whole programs --------------------------------------------------------------------- *)
Theorem flags_refines_sem : forall fuel p s0,
  clean s0 -> ctxof s0 = top_ctx ->
  is_abort (outc (sem_prog fuel p (abs s0))) = false ->
  obs (run_prog fuel p s0) = sobs (sem_prog fuel p (abs s0)).
Proof.
  intros fuel p s0 Hc Hk Ha. unfold run_prog, sem_prog in *.
  set (s := set_ex exit0 s0).
  assert (Hcs : clean s) by (destruct Hc as (?&?&?&?&?&?&?&?&?&?); unfold clean, s; cbn; tauto).
  pose proof (rstmts_ok fuel (run_sem fuel) p s Hcs (fun _ => eq_refl)) as H.
  change (ctxof s) with (ctxof s0) in H. change (abs s) with (abs s0) in H. rewrite Hk in H.
  destruct (H Ha) as [E _]. rewrite E.
  destruct (sem_stmts (sem fuel) top_ctx p (abs s0)) as [[ss c] r]. destruct r; reflexivity.
Qed.

Lemma clean_init : clean init_st.
Proof. unfold clean, init_st; cbn. tauto. Qed.

Corollary flags_refines_sem_init : forall fuel p,
  is_abort (outc (sem_prog fuel p init_sst)) = false ->
  obs (run_prog fuel p init_st) = sobs (sem_prog fuel p init_sst).
Proof. intros fuel p Ha. now apply (flags_refines_sem fuel p init_st clean_init eq_refl). Qed.

Print Assumptions flags_refines_sem.
