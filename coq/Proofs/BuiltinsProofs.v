(* Proofs/BuiltinsProofs.v — proofs about Interp/Builtins.v: no builtin model reaches a
   Go index/slice panic, for all argument vectors, all library functions, all states
   satisfying inv, and inv is preserved (so: for all histories). *)
From Verif Require Import Base.Str Interp.Builtins.
From Coq Require Import Strings.String.
From Coq Require Import List ZArith NArith Lia Bool ZifyBool ZifyN ZifyNat.
Import ListNotations.
Open Scope Z_scope.

(* ------------------------------------------------------------ slices *)
Lemma zlen_nonneg : forall A (l : list A), 0 <= zlen l.
Proof. intros; unfold zlen; lia. Qed.

Lemma zlen_cons : forall A (x : A) l, zlen (x :: l) = zlen l + 1.
Proof. intros; unfold zlen; cbn [length]; lia. Qed.

Lemma zlen_nil : forall A, zlen (@nil A) = 0.
Proof. reflexivity. Qed.

Lemma zlen_app : forall A (l1 l2 : list A), zlen (l1 ++ l2) = zlen l1 + zlen l2.
Proof. intros; unfold zlen; rewrite app_length; lia. Qed.

Lemma zlen_skipn : forall A (l : list A) i, 0 <= i <= zlen l -> zlen (skipn (Z.to_nat i) l) = zlen l - i.
Proof. intros; unfold zlen in *; rewrite skipn_length; lia. Qed.

Lemma zlen_firstn : forall A (l : list A) i, 0 <= i <= zlen l -> zlen (firstn (Z.to_nat i) l) = i.
Proof. intros; unfold zlen in *; rewrite firstn_length; lia. Qed.

Lemma idx_ok : forall A (l : list A) i, 0 <= i < zlen l -> exists x, idx l i = Ok x.
Proof.
  intros A l i H; unfold idx.
  destruct (i <? 0) eqn:E; [lia|].
  destruct (nth_error l (Z.to_nat i)) eqn:N; [eauto|].
  apply nth_error_None in N; unfold zlen in H; lia.
Qed.

Lemma idx_head : forall A (x : A) l, idx (x :: l) 0 = Ok x.
Proof. reflexivity. Qed.

Lemma slice_from_ok : forall A (l : list A) i, 0 <= i <= zlen l -> slice_from l i = Ok (skipn (Z.to_nat i) l).
Proof. intros; unfold slice_from. destruct ((i <? 0) || (zlen l <? i)) eqn:E; [lia|reflexivity]. Qed.

Lemma slice_to_ok : forall A (l : list A) j, 0 <= j <= zlen l -> slice_to l j = Ok (firstn (Z.to_nat j) l).
Proof. intros; unfold slice_to. destruct ((j <? 0) || (zlen l <? j)) eqn:E; [lia|reflexivity]. Qed.

Lemma slice_ok : forall A (l : list A) i j, 0 <= i <= j -> j <= zlen l -> exists r, slice l i j = Ok r.
Proof. intros; unfold slice. destruct ((i <? 0) || (j <? i) || (zlen l <? j)) eqn:E; [lia|eauto]. Qed.

Lemma set_idx_ok : forall A (l : list A) i v, 0 <= i < zlen l ->
  exists l', set_idx l i v = Ok l' /\ zlen l' = zlen l.
Proof.
  intros; unfold set_idx. destruct ((i <? 0) || (zlen l <=? i)) eqn:E; [lia|].
  eexists; split; [reflexivity|].
  unfold zlen in *. rewrite app_length; cbn [length]. rewrite firstn_length, skipn_length. lia.
Qed.

Lemma delete_at_ok : forall A (l : list A) i, 0 <= i < zlen l -> exists l', delete_at l i = Ok l'.
Proof. intros; unfold delete_at. destruct ((i <? 0) || (zlen l <? i + 1)) eqn:E; [lia|eauto]. Qed.

Ltac use_idx l i :=
  let x := fresh "x" in let H := fresh "Hx" in
  destruct (idx_ok _ l i) as [x H]; [try (unfold zlen in *; cbn [length] in *; lia) | rewrite H; cbn [res_bind]].

Lemma index_byte_app_last : forall c pre d i, index_byte c (pre ++ [d]) = Some i -> d <> c -> (i < length pre)%nat.
Proof.
  induction pre as [|x pre IH]; intros d i H ND; cbn in H.
  - destruct (N.eqb d c) eqn:E; [apply N.eqb_eq in E; congruence|discriminate].
  - destruct (N.eqb x c); [inversion H; cbn; lia|].
    destruct (index_byte c (pre ++ [d])) eqn:E; [|discriminate]. inversion H; subst. cbn. specialize (IH d n E ND). lia.
Qed.

Lemma cut_elem_subscript_total_pre : forall vn arg, cut_elem_subscript vn arg <> Panic.
Proof.
  intros vn arg; unfold cut_elem_subscript.
  destruct (index_byte 91 arg) as [i0|] eqn:EI; [|discriminate].
  destruct (rev arg) as [|d t] eqn:ER; [rewrite andb_false_r; discriminate|].
  destruct (N.eqb d 93) eqn:ED; [|rewrite andb_false_r; discriminate].
  destruct (0 <? Z.of_nat i0) eqn:E0; [|discriminate]. cbn [andb].
  assert (EA : arg = rev t ++ [d]) by (rewrite <- (rev_involutive arg), ER; reflexivity).
  apply N.eqb_eq in ED. subst d.
  assert (LT : (i0 < length (rev t))%nat) by (apply (index_byte_app_last 91 (rev t) 93); [rewrite <- EA; exact EI|discriminate]).
  assert (LA : zlen arg = Z.of_nat (length (rev t)) + 1) by (rewrite EA, zlen_app; unfold zlen; cbn [length]; lia).
  rewrite slice_to_ok by lia. cbn [res_bind].
  destruct (vn _); [|discriminate].
  destruct (slice_ok _ arg (Z.of_nat i0 + 1) (zlen arg - 1)) as (r & ->); [lia|lia|]. discriminate.
Qed.

(* ------------------------------------------------------------ shift *)
Section WithExt.
Variable atoi : str -> Z * bool.
Variable atoi64 : str -> Z.
Variable itoa : Z -> str.
Variable runes_of : str -> list N.
Variable str_of_runes : list N -> str.
Variable index_rune : str -> N -> Z.
Variable valid_name : str -> bool.
Variable change_dir : str -> str -> option str.
Variable format : str -> str.
Variable eval_symlinks : str -> option str.

(* inv only mentions og_arg, og_rune, dirstack *)
Definition same_core (a b : state) : Prop :=
  og_arg a = og_arg b /\ og_rune a = og_rune b /\ dirstack a = dirstack b.

Lemma inv_core : forall a b, same_core a b -> inv a -> inv b.
Proof. unfold same_core, inv; intros a b0 (E1 & E2 & E3) H; rewrite <- E1, <- E2, <- E3; exact H. Qed.

Definition okinv (r : res bres) : Prop := exists v, r = Ok v /\ inv (r_st v).

Lemma ret_okinv : forall st c, inv st -> okinv (ret st c).
Proof. intros; eexists; split; [reflexivity|assumption]. Qed.
Lemma ret_out_okinv : forall st c o, inv st -> okinv (ret_out st c o).
Proof. intros; eexists; split; [reflexivity|assumption]. Qed.

Lemma shift_n_ok : forall st n, inv st -> okinv (shift_n st n).
Proof.
  intros st n I; unfold shift_n.
  destruct (n <? 0) eqn:E1; [apply ret_okinv; assumption|].
  destruct (zlen (params st) <=? n) eqn:E2; [apply ret_okinv; exact I|].
  rewrite slice_from_ok by lia. cbn [res_bind]. apply ret_okinv; exact I.
Qed.

Lemma bi_shift_ok : forall args st, inv st -> okinv (bi_shift atoi args st).
Proof.
  intros args st I; unfold bi_shift.
  destruct args as [|a [|a2 r]]; [apply shift_n_ok; assumption | | apply ret_okinv; assumption].
  rewrite idx_head; cbn [res_bind]. destruct (atoi a) as [n ok]. destruct ok; [apply shift_n_ok|apply ret_okinv]; assumption.
Qed.

(* ------------------------------------------------------------ exit / return / break *)
Lemma bi_exit_ok : forall args st, inv st -> okinv (bi_exit atoi args st).
Proof.
  intros args st I; unfold bi_exit.
  destruct args as [|a [|a2 r]]; [eexists; split; [reflexivity|exact I] | | apply ret_okinv; assumption].
  rewrite idx_head; cbn [res_bind]. destruct (atoi a) as [n ok]. destruct ok; [eexists; split; [reflexivity|exact I]|apply ret_okinv; assumption].
Qed.

Lemma bi_return_ok : forall args st, inv st -> okinv (bi_return atoi args st).
Proof.
  intros args st I; unfold bi_return.
  destruct (negb (in_func st) && negb (in_source st)); [apply ret_okinv; assumption|].
  destruct args as [|a [|a2 r]]; [eexists; split; [reflexivity|exact I] | | apply ret_okinv; assumption].
  rewrite idx_head; cbn [res_bind]. destruct (atoi a) as [n ok]. destruct ok; [eexists; split; [reflexivity|exact I]|apply ret_okinv; assumption].
Qed.

Lemma bi_break_ok : forall cont args st, inv st -> okinv (bi_break atoi cont args st).
Proof.
  intros cont args st I; unfold bi_break.
  destruct (negb (in_loop st)); [apply ret_okinv; assumption|].
  destruct args as [|a [|a2 r]]; [| | apply ret_okinv; assumption].
  - apply ret_okinv. destruct cont; exact I.
  - rewrite idx_head; cbn [res_bind]. destruct (atoi a) as [n ok]. destruct ok; [|apply ret_okinv; assumption].
    destruct (n <? 1); apply ret_okinv; [exact I|destruct cont; exact I].
Qed.

(* ------------------------------------------------------------ flagParser *)
Definition flagchar (c : N) : Prop := c = MINUS \/ c = PLUS.
Definition cur_ok (s : str) : Prop := s = [] \/ exists c d r, s = c :: d :: r /\ flagchar c.
(* what fp_more = true guarantees *)
Definition has_flag (p : fparser) : Prop :=
  fp_cur p <> [] \/ exists c a rest, fp_rem p = (c :: a) :: rest /\ flagchar c.

Definition rem_measure (rem : list str) : nat := fold_right (fun a n => (length a + 2 + n)%nat) O rem.
Definition fmeasure (p : fparser) : nat := (length (fp_cur p) + rem_measure (fp_rem p))%nat.

Lemma fp_more_ok : forall p, exists p' m, fp_more p = Ok (p', m) /\
  (cur_ok (fp_cur p) -> cur_ok (fp_cur p')) /\ (m = true -> p' = p /\ has_flag p).
Proof.
  intros p; unfold fp_more.
  destruct (fp_cur p) as [|c0 cr] eqn:EC; cbn [is_empty negb].
  2:{ exists p, true. split; [reflexivity|]. split; [rewrite EC; auto|]. intros _; split; [reflexivity|left; rewrite EC; discriminate]. }
  destruct (fp_rem p) as [|a rest] eqn:ER.
  { cbn. eexists _, false. split; [reflexivity|]. split; [cbn; auto|discriminate]. }
  rewrite zlen_cons. destruct (zlen rest + 1 =? 0) eqn:E0; [pose proof (zlen_nonneg _ rest); lia|].
  rewrite idx_head; cbn [res_bind].
  destruct (str_eqb a (b "--")).
  { rewrite slice_from_ok by (rewrite zlen_cons; pose proof (zlen_nonneg _ rest); lia). cbn [res_bind].
    eexists _, false. split; [reflexivity|]. split; [cbn; auto|discriminate]. }
  destruct a as [|c ar].
  { cbn. exists p, false. split; [reflexivity|]. split; [rewrite EC; auto|discriminate]. }
  rewrite zlen_cons. destruct (zlen ar + 1 =? 0) eqn:E1; [pose proof (zlen_nonneg _ ar); lia|].
  rewrite idx_head; cbn [res_bind].
  destruct (N.eqb c MINUS) eqn:EM; cbn [negb andb].
  { exists p, true. split; [reflexivity|]. split; [rewrite EC; auto|]. intros _; split; [reflexivity|].
    right. exists c, ar, rest. split; [exact ER|left; apply N.eqb_eq; exact EM]. }
  destruct (N.eqb c PLUS) eqn:EP; cbn [negb].
  { exists p, true. split; [reflexivity|]. split; [rewrite EC; auto|]. intros _; split; [reflexivity|].
    right. exists c, ar, rest. split; [exact ER|right; apply N.eqb_eq; exact EP]. }
  exists p, false. split; [reflexivity|]. split; [rewrite EC; auto|discriminate].
Qed.

(* the flag returned: "-" / "+" alone, or a flag character followed by one byte *)
Definition flag_shape (f : str) : Prop :=
  (exists c, f = [c] /\ flagchar c) \/ (exists c d, f = [c; d] /\ flagchar c).

Lemma split_flag : forall c (ar : str) (rem : list str) (nl : bool), flagchar c ->
  exists p' f,
    (let arg := c :: ar in
     if 2 <? zlen arg then
       a1 <- slice_to arg 1 ;; a2 <- slice_from arg 2 ;; f <- slice_to arg 2 ;;
       Ok ({| fp_cur := a1 ++ a2; fp_rem := rem; fp_nil := nl |}, f)
     else Ok ({| fp_cur := []; fp_rem := rem; fp_nil := nl |}, arg)) = Ok (p', f)
    /\ cur_ok (fp_cur p') /\ flag_shape f /\ fp_rem p' = rem /\ (length (fp_cur p') < length (c :: ar))%nat.
Proof.
  intros c ar rem nl FC. cbv zeta.
  destruct ar as [|d [|e r]].
  - cbn. eexists _, _. split; [reflexivity|]. split; [left; reflexivity|]. split; [left; eauto|split; [reflexivity|cbn; lia]].
  - cbn. eexists _, _. split; [reflexivity|]. split; [left; reflexivity|]. split; [right; eauto|split; [reflexivity|cbn; lia]].
  - destruct (2 <? zlen (c :: d :: e :: r)) eqn:E; [|unfold zlen in E; cbn [length] in E; lia].
    rewrite slice_to_ok by (unfold zlen; cbn [length]; lia).
    rewrite slice_from_ok by (unfold zlen; cbn [length]; lia).
    rewrite slice_to_ok by (unfold zlen; cbn [length]; lia).
    cbn [res_bind]. change (Z.to_nat 1) with 1%nat. change (Z.to_nat 2) with 2%nat. cbn [firstn skipn app].
    eexists _, _. split; [reflexivity|]. split; [right; cbn; eauto|]. split; [right; eauto|split; [reflexivity|cbn; lia]].
Qed.

Lemma fp_flag_ok : forall p, cur_ok (fp_cur p) -> has_flag p ->
  exists p' f, fp_flag p = Ok (p', f) /\ cur_ok (fp_cur p') /\ flag_shape f /\ (fmeasure p' < fmeasure p)%nat.
Proof.
  intros p CO HF; unfold fp_flag.
  destruct (fp_cur p) as [|c0 cr] eqn:EC; cbn [is_empty].
  - destruct HF as [HF|(c & a & rest & ER & FC)]; [congruence|].
    rewrite ER, idx_head; cbn [res_bind].
    rewrite slice_from_ok by (rewrite zlen_cons; pose proof (zlen_nonneg _ rest); lia). cbn [res_bind].
    change (Z.to_nat 1) with 1%nat; cbn [skipn fp_rem fp_nil].
    destruct (split_flag c a rest (fp_nil p) FC) as (p' & f & E & C1 & C2 & C3 & C4).
    cbv zeta in E. exists p', f. split; [exact E|]. split; [exact C1|]. split; [exact C2|].
    unfold fmeasure, rem_measure in *. rewrite C3, EC, ER. cbn [fold_right length] in *. lia.
  - cbn [res_bind].
    destruct CO as [CO|(c & d & r & E1 & FC)]; [discriminate|]. inversion E1; subst c0 cr.
    cbn [fp_rem fp_nil].
    destruct (split_flag c (d :: r) (fp_rem p) (fp_nil p) FC) as (p' & f & E & C1 & C2 & C3 & C4).
    cbv zeta in E. exists p', f. split; [exact E|]. split; [exact C1|]. split; [exact C2|].
    unfold fmeasure. rewrite C3, EC. lia.
Qed.

Lemma fp_value_ok : forall p, exists p' v, fp_value p = Ok (p', v) /\ fp_cur p' = fp_cur p
  /\ (rem_measure (fp_rem p') <= rem_measure (fp_rem p))%nat.
Proof.
  intros [cur rem nl]; unfold fp_value; cbn [fp_rem fp_cur fp_nil].
  destruct rem as [|a rest].
  - cbn. eexists _, _. split; [reflexivity|]. split; [reflexivity|cbn; lia].
  - rewrite zlen_cons. destruct (zlen rest + 1 =? 0) eqn:E0; [pose proof (zlen_nonneg _ rest); lia|].
    rewrite idx_head; cbn [res_bind].
    rewrite slice_from_ok by (rewrite zlen_cons; pose proof (zlen_nonneg _ rest); lia). cbn [res_bind].
    eexists _, _. split; [reflexivity|]. split; [reflexivity|]. cbn [fp_rem]. change (Z.to_nat 1) with 1%nat.
    unfold rem_measure; cbn [skipn fold_right]. lia.
Qed.

Lemma flagchar_single : forall c, flagchar c -> str_eqb [c] [MINUS] || str_eqb [c] [PLUS] = true.
Proof. intros c [E|E]; subst; reflexivity. Qed.

Lemma two_not_single : forall c d e, str_eqb [c; d] [e] = false.
Proof.
  intros; unfold str_eqb; cbn [cmp_str]. destruct (N.compare c e); reflexivity.
Qed.

(* set / Params: with fuel above the measure the loop ends in Ok (never Panic, never out of fuel);
   the state only changes in params and opts *)
Lemma params_loop_ok : forall fuel p st out, cur_ok (fp_cur p) -> (fmeasure p < fuel)%nat ->
  exists st' o c, params_loop fuel p st out = Ok (st', o, c) /\ same_core st st'.
Proof.
  induction fuel as [|fuel IH]; intros p st out CO FU; [lia|].
  cbn [params_loop].
  destruct (fp_more_ok p) as (p1 & m & E1 & C1 & M1). rewrite E1; cbn [res_bind].
  destruct m; cbn [negb].
  2:{ destruct (fp_nil p1); eexists _, _, _; (split; [reflexivity|]); unfold same_core; cbn; auto. }
  destruct (M1 eq_refl) as [-> HF].
  destruct (fp_flag_ok p CO HF) as (p2 & f & E2 & C2 & FS & M2). rewrite E2; cbn [res_bind].
  destruct FS as [(c & -> & FC)|(c & d & -> & FC)].
  { rewrite flagchar_single by exact FC.
    destruct (0 <? zlen (fp_rem p2)); eexists _, _, _; (split; [reflexivity|]); unfold same_core; cbn; auto. }
  rewrite !two_not_single; cbn [orb].
  change (idx [c; d] 0) with (Ok (A:=N) c). change (idx [c; d] 1) with (Ok (A:=N) d). cbn [res_bind].
  destruct (negb (N.eqb d 111)).
  { destruct (opt_by_flag d); [|eexists _, _, _; split; [reflexivity|unfold same_core; auto]].
    destruct (IH p2 (set_opts st (set_nth (opts st) n (N.eqb c MINUS))) out C2) as (st' & o & cc & H & SC); [lia|].
    eexists _, _, _; split; [exact H|exact SC]. }
  destruct (fp_value_ok p2) as (p3 & v & E3 & C3 & M3). rewrite E3; cbn [res_bind].
  assert (CO3 : cur_ok (fp_cur p3)) by (rewrite C3; exact C2).
  assert (FU3 : (fmeasure p3 < fuel)%nat) by (unfold fmeasure in *; rewrite C3; lia).
  destruct (is_empty v && N.eqb c MINUS).
  { destruct (IH p3 st (out ++ print_opts st) CO3 FU3) as (st' & o & cc & H & SC).
    eexists _, _, _; split; [exact H|exact SC]. }
  destruct (is_empty v).
  { destruct (IH p3 st (out ++ print_set_opts st) CO3 FU3) as (st' & o & cc & H & SC).
    eexists _, _, _; split; [exact H|exact SC]. }
  destruct (opt_by_name v); [|eexists _, _, _; split; [reflexivity|unfold same_core; auto]].
  destruct (IH p3 (set_opts st (set_nth (opts st) n (N.eqb c MINUS))) out CO3 FU3) as (st' & o & cc & H & SC).
  eexists _, _, _; split; [exact H|exact SC].
Qed.

Lemma bi_set_ok : forall args st, inv st -> okinv (bi_set args st).
Proof.
  intros args st I; unfold bi_set.
  destruct (params_loop_ok (params_fuel args) (fp_init args) st [] (or_introl eq_refl)) as (st' & o & c & H & SC).
  { unfold fmeasure, params_fuel, fp_init, rem_measure; cbn [fp_cur fp_rem length]. lia. }
  rewrite H; cbn [res_bind]. apply ret_out_okinv. eapply inv_core; eassumption.
Qed.

(* ------------------------------------------------------------ wait *)
Lemma wait_loop_ok : forall l st code, inv st -> okinv (wait_loop atoi64 l st code).
Proof.
  induction l as [|a r IH]; intros st code I; cbn [wait_loop]; [apply ret_okinv; assumption|].
  destruct (cut_prefix_g a) as [a' ok].
  destruct (negb ok || (atoi64 a' <=? 0) || (zlen (bg st) <? atoi64 a')) eqn:E; [apply ret_okinv; assumption|].
  use_idx (bg st) (atoi64 a' - 1). apply IH; assumption.
Qed.

Lemma bi_wait_ok : forall args st, inv st -> okinv (bi_wait atoi64 args st).
Proof.
  intros args st I; unfold bi_wait.
  destruct (fp_more_ok (fp_init args)) as (p1 & m & E1 & C1 & M1). rewrite E1; cbn [res_bind].
  destruct m.
  - destruct (M1 eq_refl) as [-> HF].
    destruct (fp_flag_ok (fp_init args) (or_introl eq_refl) HF) as (p2 & f & E2 & _). rewrite E2; cbn [res_bind].
    apply ret_okinv; assumption.
  - destruct (zlen args =? 0); [apply ret_okinv; assumption|apply wait_loop_ok; assumption].
Qed.

(* ------------------------------------------------------------ dirs / pushd / popd *)
Lemma swap_ok : forall ds, 2 <= zlen ds -> exists ds' t, swap ds = Ok (ds', t) /\ zlen ds' = zlen ds.
Proof.
  intros ds H; unfold swap.
  use_idx ds (zlen ds - 1). use_idx ds (zlen ds - 2).
  destruct (set_idx_ok _ ds (zlen ds - 1) x0) as (l1 & E1 & L1); [lia|]. rewrite E1; cbn [res_bind].
  destruct (set_idx_ok _ l1 (zlen ds - 2) x) as (l2 & E2 & L2); [lia|]. rewrite E2; cbn [res_bind].
  eexists _, _; split; [reflexivity|lia].
Qed.

Lemma do_chdir_core : forall st path st', do_chdir change_dir st path = Some st' -> same_core st st'.
Proof.
  intros st path st'; unfold do_chdir. destruct (change_dir (dir st) path); [|discriminate].
  intros E; inversion E; unfold same_core; cbn; auto.
Qed.

Lemma strip_n_ok : forall args, exists c a, strip_n args = Ok (c, a).
Proof.
  intros args; unfold strip_n. destruct args as [|a r]; [cbn; eauto|].
  rewrite zlen_cons. destruct (0 <? zlen r + 1) eqn:E; [|pose proof (zlen_nonneg _ r); lia].
  rewrite idx_head; cbn [res_bind]. destruct (str_eqb a (b "-n")); [|eauto].
  rewrite slice_from_ok by (rewrite zlen_cons; pose proof (zlen_nonneg _ r); lia). cbn [res_bind]. eauto.
Qed.

Lemma inv_set_dirstack : forall st ds, inv st -> 1 <= zlen ds -> inv (set_dirstack st ds).
Proof. unfold inv; intros st ds (A & B & C) H; cbn; auto. Qed.

Lemma bi_pushd_ok : forall args st, inv st -> okinv (bi_pushd change_dir args st).
Proof.
  intros args st I; unfold bi_pushd.
  destruct (strip_n_ok args) as (change & a & E). rewrite E; cbn [res_bind].
  assert (D : 1 <= zlen (dirstack st)) by (destruct I as (_ & _ & D); exact D).
  destruct a as [|a0 [|a1 r]]; [| |apply ret_okinv; assumption].
  - destruct change; cbn [negb]; [|apply ret_okinv; assumption].
    destruct (zlen (dirstack st) <? 2) eqn:E2; [apply ret_okinv; assumption|].
    destruct (swap_ok (dirstack st)) as (ds' & t & ES & L); [lia|]. rewrite ES; cbn [res_bind].
    assert (I1 : inv (set_dirstack st ds')) by (apply inv_set_dirstack; [assumption|lia]).
    destruct (do_chdir change_dir (set_dirstack st ds') t) eqn:EC; [|apply ret_okinv; assumption].
    apply ret_out_okinv. eapply inv_core; [eapply do_chdir_core; exact EC|exact I1].
  - rewrite idx_head; cbn [res_bind]. destruct change.
    + destruct (do_chdir change_dir st a0) eqn:EC; [|apply ret_okinv; assumption].
      apply ret_out_okinv. apply inv_set_dirstack.
      * eapply inv_core; [eapply do_chdir_core; exact EC|exact I].
      * rewrite zlen_app. pose proof (zlen_nonneg _ (dirstack s)). unfold zlen at 2; cbn [length]. lia.
    + destruct (swap_ok (dirstack st ++ [a0])) as (ds' & t & ES & L);
        [rewrite zlen_app; unfold zlen at 2; cbn [length]; lia|].
      rewrite ES; cbn [res_bind fst]. apply ret_out_okinv. apply inv_set_dirstack; [assumption|].
      rewrite L, zlen_app. unfold zlen at 2; cbn [length]; lia.
Qed.

Lemma bi_popd_ok : forall args st, inv st -> okinv (bi_popd change_dir args st).
Proof.
  intros args st I; unfold bi_popd.
  destruct (strip_n_ok args) as (change & a & E). rewrite E; cbn [res_bind].
  destruct a as [|a0 r]; [|apply ret_okinv; assumption].
  cbv zeta.
  destruct (zlen (dirstack st) <? 2) eqn:E2; [apply ret_okinv; assumption|].
  use_idx (dirstack st) (zlen (dirstack st) - 1).
  rewrite slice_to_ok by lia. cbn [res_bind].
  set (ds1 := firstn (Z.to_nat (zlen (dirstack st) - 1)) (dirstack st)).
  assert (L1 : zlen ds1 = zlen (dirstack st) - 1) by (apply zlen_firstn; lia).
  destruct change.
  - use_idx ds1 (zlen ds1 - 1).
    assert (I1 : inv (set_dirstack st ds1)) by (apply inv_set_dirstack; [assumption|lia]).
    destruct (do_chdir change_dir (set_dirstack st ds1) x0) eqn:EC; [|apply ret_okinv; assumption].
    apply ret_out_okinv. eapply inv_core; [eapply do_chdir_core; exact EC|exact I1].
  - destruct (set_idx_ok _ ds1 (zlen ds1 - 1) x) as (l2 & E3 & L2); [lia|]. rewrite E3; cbn [res_bind].
    apply ret_out_okinv. apply inv_set_dirstack; [assumption|lia].
Qed.

Lemma bi_dirs_ok : forall args st, inv st -> okinv (bi_dirs args st).
Proof. intros; unfold bi_dirs; apply ret_out_okinv; assumption. Qed.

(* ------------------------------------------------------------ getopts *)
Lemma getopts_next_ok : forall optstr args g, 0 <= g_arg g -> 0 <= g_rune g ->
  exists g' o oa d, getopts_next runes_of str_of_runes index_rune optstr args g = Ok (g', o, oa, d)
                    /\ 0 <= g_arg g' /\ 0 <= g_rune g'.
Proof.
  intros optstr args g A R; unfold getopts_next, getopts_next_gen, g_done.
  destruct ((zlen args =? 0) || (zlen args <=? g_arg g)) eqn:E0; [eauto 10|].
  use_idx args (g_arg g).
  set (arg := runes_of x).
  destruct (zlen arg <? 2) eqn:E1; [eauto 10|].
  use_idx arg 0.
  destruct (negb (N.eqb x0 MINUS)); [eauto 10|].
  use_idx arg 1.
  destruct (N.eqb x1 MINUS); [eauto 10|].
  rewrite slice_from_ok by lia. cbn [res_bind]. change (Z.to_nat 1) with 1%nat.
  set (opts := skipn 1 arg).
  assert (LO : zlen opts = zlen arg - 1) by (apply (zlen_skipn _ arg 1); lia).
  cbn [andb].
  set (g1 := if zlen opts <=? g_rune g then {| g_arg := g_arg g; g_rune := 0 |} else g).
  assert (G1 : g_arg g1 = g_arg g /\ 0 <= g_rune g1 < zlen opts).
  { unfold g1; destruct (zlen opts <=? g_rune g) eqn:EF; cbn [g_arg g_rune]; lia. }
  destruct G1 as (GA & GR).
  use_idx opts (g_rune g1).
  set (i := index_rune optstr x2).
  assert (NA : exists na, (if (0 <=? i) && (i + 1 <? zlen optstr)
                then c <- idx optstr (i + 1);; Ok (N.eqb c COLON) else Ok false) = Ok na).
  { destruct ((0 <=? i) && (i + 1 <? zlen optstr)) eqn:EI; [|eauto].
    use_idx optstr (i + 1). eauto. }
  destruct NA as (na & ->); cbn [res_bind].
  destruct na.
  - destruct (g_rune g1 + 1 <? zlen opts) eqn:E2.
    + rewrite slice_from_ok by lia. cbn [res_bind]. eexists _, _, _, _; split; [reflexivity|cbn; lia].
    + destruct (g_arg g1 + 1 <? zlen args) eqn:E3.
      * use_idx args (g_arg g1 + 1). eexists _, _, _, _; split; [reflexivity|cbn; lia].
      * eexists _, _, _, _; split; [reflexivity|cbn; lia].
  - destruct (g_rune g1 + 1 <? zlen opts) eqn:E2; destruct (i <? 0); eexists _, _, _, _; (split; [reflexivity|cbn; lia]).
Qed.

Lemma inv_set_og : forall st a r, inv st -> 0 <= a -> 0 <= r -> inv (set_og st a r).
Proof. unfold inv; intros st a r (A & B & C) HA HR; cbn; auto. Qed.

Lemma bi_getopts_ok : forall args st, inv st ->
  okinv (bi_getopts atoi itoa runes_of str_of_runes index_rune valid_name args st).
Proof.
  intros args st I; unfold bi_getopts, bi_getopts_gen.
  destruct (zlen args <? 2) eqn:E0; [apply ret_okinv; assumption|].
  cbv zeta.
  set (optind0 := fst (atoi (env_get st (b "OPTIND")))).
  set (reset := negb (optind0 - 1 =? og_arg st)).
  set (optind := if reset && (optind0 <? 1) then 1 else optind0).
  set (st1 := if reset then set_og st (optind - 1) 0 else st).
  assert (I1 : inv st1).
  { unfold st1. destruct reset; [|exact I]. apply inv_set_og; [exact I| |lia].
    unfold optind; cbn [andb]. destruct (optind0 <? 1) eqn:EO; lia. }
  use_idx args 0. use_idx args 1.
  destruct (negb (valid_name x0)); [apply ret_okinv; assumption|].
  rewrite slice_from_ok by lia. cbn [res_bind].
  set (gargs := if zlen (skipn (Z.to_nat 2) args) =? 0 then params st1 else skipn (Z.to_nat 2) args).
  destruct I1 as (A1 & R1 & D1).
  destruct (getopts_next_ok x gargs {| g_arg := og_arg st1; g_rune := og_rune st1 |} A1 R1)
    as (g' & o & oa & d & EG & GA & GR).
  unfold getopts_next in EG. rewrite EG; cbn [res_bind].
  apply ret_okinv. unfold inv; cbn. auto.
Qed.

(* ------------------------------------------------------------ the loop machine *)
Definition okst {A} (r : res (state * A)) : Prop := exists st' a, r = Ok (st', a) /\ inv st'.

Lemma inv_set_cnt : forall st v, inv st -> inv (set_cnt st v).  Proof. unfold inv; cbn; auto. Qed.
Lemma inv_set_brk : forall st v, inv st -> inv (set_brk st v).  Proof. unfold inv; cbn; auto. Qed.
Lemma inv_set_last : forall st v, inv st -> inv (set_last st v).  Proof. unfold inv; cbn; auto. Qed.
Lemma inv_set_in_loop : forall st v, inv st -> inv (set_in_loop st v).  Proof. unfold inv; cbn; auto. Qed.
Lemma inv_set_in_func : forall st v, inv st -> inv (set_in_func st v).  Proof. unfold inv; cbn; auto. Qed.
Lemma inv_set_vars : forall st v, inv st -> inv (set_vars st v).  Proof. unfold inv; cbn; auto. Qed.
Lemma inv_set_bg : forall st v, inv st -> inv (set_bg st v).  Proof. unfold inv; cbn; auto. Qed.

(* ------------------------------------------------------------ echo / pwd / unset *)
Lemma echo_opts_ok : forall fuel args nl de, (length args < fuel)%nat ->
  exists r, echo_opts fuel args nl de = Ok r.
Proof.
  induction fuel as [|fuel IH]; intros args nl de L; [lia|]. cbn [echo_opts].
  destruct args as [|a r]; [cbn; eauto|].
  rewrite zlen_cons. destruct (0 <? zlen r + 1) eqn:E; [|pose proof (zlen_nonneg _ r); lia].
  rewrite idx_head; cbn [res_bind].
  destruct (zlen a <? 2) eqn:E2; [eauto|].
  use_idx a 0.
  destruct (negb (N.eqb x MINUS)); [eauto|].
  rewrite (slice_from_ok _ a 1) by lia. cbn [res_bind].
  destruct (negb (forallb is_neE (skipn (Z.to_nat 1) a))); [eauto|].
  destruct (fold_left echo_flag (skipn (Z.to_nat 1) a) (nl, de)) as [nl' de'].
  rewrite slice_from_ok by (rewrite zlen_cons; pose proof (zlen_nonneg _ r); lia). cbn [res_bind].
  change (Z.to_nat 1) with 1%nat; cbn [skipn]. cbn [length] in L. apply IH; lia.
Qed.

Lemma bi_echo_ok : forall args st, inv st -> okinv (bi_echo format args st).
Proof.
  intros args st I; unfold bi_echo.
  destruct (echo_opts_ok (S (length args)) args true false) as ([[rest nl] de] & ->); [lia|].
  cbn [res_bind]. apply ret_out_okinv; exact I.
Qed.

Lemma pwd_opts_ok : forall fuel args ev, (length args < fuel)%nat -> exists r, pwd_opts fuel args ev = Ok r.
Proof.
  induction fuel as [|fuel IH]; intros args ev L; [lia|]. cbn [pwd_opts].
  destruct args as [|a r]; [cbn; eauto|].
  rewrite zlen_cons. destruct (0 <? zlen r + 1) eqn:E; [|pose proof (zlen_nonneg _ r); lia].
  rewrite idx_head; cbn [res_bind].
  assert (SL : slice_from (a :: r) 1 = Ok r)
    by (rewrite slice_from_ok by (rewrite zlen_cons; pose proof (zlen_nonneg _ r); lia); reflexivity).
  cbn [length] in L.
  destruct (str_eqb a (b "-L")); [rewrite SL; cbn [res_bind]; apply IH; lia|].
  destruct (str_eqb a (b "-P")); [rewrite SL; cbn [res_bind]; apply IH; lia|eauto].
Qed.

Lemma bi_pwd_ok : forall args st, inv st -> okinv (bi_pwd eval_symlinks args st).
Proof.
  intros args st I; unfold bi_pwd.
  destruct (pwd_opts_ok (S (length args)) args false) as (r & ->); [lia|]. cbn [res_bind].
  destruct r as [ev|]; [|apply ret_okinv; exact I].
  destruct ev; [|apply ret_out_okinv; exact I].
  destruct (eval_symlinks _); [apply ret_out_okinv; exact I|eexists; split; [reflexivity|exact I]].
Qed.

Lemma unset_opts_ok : forall all l i v f, 0 <= i -> i + zlen l = zlen all -> exists r, unset_opts all l i v f = Ok r.
Proof.
  intros all l; induction l as [|a r IH]; intros i v f I0 L; cbn [unset_opts]; [eauto|].
  rewrite zlen_cons in L. pose proof (zlen_nonneg _ r).
  destruct (str_eqb a (b "-v")); [apply IH; lia|].
  destruct (str_eqb a (b "-f")); [apply IH; lia|].
  rewrite slice_from_ok by lia. cbn [res_bind]. eauto.
Qed.

Lemma unset_names_ok : forall l v st, inv st -> exists st', unset_names valid_name l v st = Ok st' /\ inv st'.
Proof.
  induction l as [|a r IH]; intros v st I; cbn [unset_names]; [eauto|].
  pose proof (cut_elem_subscript_total_pre valid_name a) as NP.
  destruct (cut_elem_subscript valid_name a) as [c|e|] eqn:EC; [| |congruence].
  - cbn [res_bind]. destruct c as [[name sub]|].
    + destruct v; [|apply IH; exact I].
      destruct (var_get (vars st) name); [|apply IH; exact I].
      destruct (str_eqb sub (b "0")); apply IH; [apply inv_set_vars|]; exact I.
    + destruct v; apply IH; [apply inv_set_vars|]; exact I.
  - exfalso. unfold cut_elem_subscript in EC.
    destruct (index_byte 91 a); [|discriminate].
    destruct ((0 <? Z.of_nat n) && match rev a with [] => false | c :: _ => N.eqb c 93 end); [|discriminate].
    unfold slice_to, slice in EC.
    destruct ((Z.of_nat n <? 0) || (zlen a <? Z.of_nat n)); [discriminate|]. cbn [res_bind] in EC.
    destruct (valid_name _); [|discriminate].
    destruct ((Z.of_nat n + 1 <? 0) || (zlen a - 1 <? Z.of_nat n + 1) || (zlen a <? zlen a - 1)); discriminate.
Qed.

Lemma bi_unset_ok : forall args st, inv st -> okinv (bi_unset valid_name args st).
Proof.
  intros args st I; unfold bi_unset.
  destruct (unset_opts_ok args args 0 true true) as ([[rest v] f] & ->); [lia|lia|]. cbn [res_bind].
  destruct (unset_names_ok rest v st I) as (st' & -> & I'). cbn [res_bind]. apply ret_okinv; exact I'.
Qed.

Lemma stmts_broken_ok : forall (exec : lstmt -> state -> res (state * list (list str))) old l,
  Forall (fun s => forall st, inv st -> okst (exec s st)) l ->
  forall st, inv st -> exists st' ev bk, stmts_broken exec old l st = Ok (st', ev, bk) /\ inv st'.
Proof.
  intros exec old l F; induction F as [|s l Hs F IH]; intros st I; cbn [stmts_broken]; [eauto 10|].
  destruct (Hs st I) as (st1 & ev & E & I1). rewrite E; cbn [res_bind].
  destruct (0 <? cnt st1); [eexists _, _, _; split; [reflexivity|apply inv_set_cnt; exact I1]|].
  destruct (0 <? brk st1); [eexists _, _, _; split; [reflexivity|apply inv_set_brk; exact I1]|].
  destruct (IH st1 I1) as (st2 & ev2 & bk & E2 & I2). rewrite E2; cbn [res_bind]. eauto 10.
Qed.

Lemma for_iter_ok : forall (run_body : bool -> state -> res (state * list (list str) * bool)),
  (forall old st, inv st -> exists st' ev bk, run_body old st = Ok (st', ev, bk) /\ inv st') ->
  forall k st, inv st -> okst (for_iter run_body k st).
Proof.
  intros run_body HB; induction k as [|k IH]; intros st I; cbn [for_iter]; [eexists _, _; eauto|].
  destruct (unwinding st); [eexists _, _; eauto|].
  destruct (HB (in_loop st) (set_in_loop st true) (inv_set_in_loop _ _ I)) as (st1 & ev & bk & E & I1).
  rewrite E; cbn [res_bind].
  destruct bk; [eexists _, _; split; [reflexivity|apply inv_set_in_loop; exact I1]|].
  destruct (IH (set_in_loop st1 (in_loop st)) (inv_set_in_loop _ _ I1)) as (st2 & ev2 & E2 & I2).
  rewrite E2; cbn [res_bind]. eexists _, _; eauto.
Qed.

(* induction principle for the nested type *)
Fixpoint lstmt_ind' (P : lstmt -> Prop)
  (Ho : forall t, P (LObs t)) (Hb : forall c a, P (LBrk c a))
  (Hf : forall n body, Forall P body -> P (LFor n body)) (s : lstmt) : P s :=
  match s with
  | LObs t => Ho t
  | LBrk c a => Hb c a
  | LFor n body =>
      Hf n body ((fix go (l : list lstmt) : Forall P l :=
                    match l with
                    | [] => Forall_nil P
                    | x :: r => Forall_cons x (lstmt_ind' P Ho Hb Hf x) (go r)
                    end) body)
  end.

Lemma exec_stmt_ok : forall s st, inv st -> okst (exec_stmt atoi itoa s st).
Proof.
  induction s using lstmt_ind'; intros st I.
  - cbn [exec_stmt]. destruct (unwinding st); eexists _, _; (split; [reflexivity|]); [exact I|apply inv_set_last; exact I].
  - cbn [exec_stmt]. destruct (unwinding st); [eexists _, _; eauto|].
    destruct (bi_break_ok c a st I) as (v & E & IV). rewrite E; cbn [res_bind].
    eexists _, _; split; [reflexivity|apply inv_set_last; exact IV].
  - cbn [exec_stmt]. destruct (unwinding st); [eexists _, _; eauto|].
    apply for_iter_ok; [|exact I]. intros old st0 I0. apply stmts_broken_ok; assumption.
Qed.

(* ------------------------------------------------------------ calls and histories *)
Definition okcall (r : res (state * list (list str) * option Z)) : Prop :=
  exists st' ev ex, r = Ok (st', ev, ex) /\ inv st'.

Lemma fin_ok : forall (r : res bres), okinv r ->
  okcall (v <- r ;; Ok (set_last (r_st v) 0, [observe itoa (r_st v) (r_code v) (r_out v)], None)).
Proof.
  intros r (v & -> & I); cbn [res_bind]. eexists _, _, _; split; [reflexivity|apply inv_set_last; exact I].
Qed.

Lemma run_call_ok : forall c st, inv st ->
  okcall (run_call atoi atoi64 itoa runes_of str_of_runes index_rune valid_name change_dir format eval_symlinks c st).
Proof.
  intros c st I; destruct c; cbn [run_call].
  - apply fin_ok, bi_set_ok, I.
  - apply fin_ok, bi_shift_ok, I.
  - apply fin_ok, bi_getopts_ok, I.
  - eexists _, _, _; split; [reflexivity|apply inv_set_last, inv_set_vars, I].
  - eexists _, _, _; split; [reflexivity|apply inv_set_last, inv_set_vars, I].
  - apply fin_ok, bi_pushd_ok, I.
  - apply fin_ok, bi_popd_ok, I.
  - apply fin_ok, bi_dirs_ok, I.
  - apply fin_ok, bi_wait_ok, I.
  - eexists _, _, _; split; [reflexivity|apply inv_set_last, inv_set_bg, I].
  - apply fin_ok, bi_break_ok, I.
  - apply fin_ok, bi_return_ok, I.
  - destruct (exec_stmt_ok (loop_prog cont args) (set_last st 0) (inv_set_last _ _ I)) as (st1 & ev & E & I1).
    rewrite E; cbn [res_bind]. eexists _, _, _; split; [reflexivity|apply inv_set_last, I1].
  - destruct (bi_return_ok args (set_in_func st true) (inv_set_in_func _ _ I)) as (v & E & IV).
    rewrite E; cbn [res_bind].
    destruct (r_flow v); eexists _, _, _; (split; [reflexivity|apply inv_set_last, inv_set_in_func, IV]).
  - destruct (bi_exit_ok args st I) as (v & E & IV). rewrite E; cbn [res_bind].
    destruct (r_flow v); eexists _, _, _; (split; [reflexivity|]); try exact IV; apply inv_set_last, IV.
  - apply fin_ok, bi_echo_ok, I.
  - destruct (bi_pwd_ok args st I) as (v & E & IV). rewrite E; cbn [res_bind].
    destruct (r_flow v); eexists _, _, _; (split; [reflexivity|]); try exact IV; apply inv_set_last, IV.
  - apply fin_ok, bi_unset_ok, I.
Qed.

(* every history of calls from every state satisfying inv *)
Lemma run_calls_ok : forall cs st, inv st ->
  exists st' ev code,
    run_calls atoi atoi64 itoa runes_of str_of_runes index_rune valid_name change_dir format eval_symlinks cs st = Ok (st', ev, code) /\ inv st'.
Proof.
  induction cs as [|c cs IH]; intros st I; cbn [run_calls]; [eauto 10|].
  destruct (run_call_ok c st I) as (st1 & ev & ex & E & I1). rewrite E; cbn [res_bind].
  destruct ex; [eauto 10|].
  destruct (IH st1 I1) as (st2 & ev2 & code & E2 & I2). rewrite E2; cbn [res_bind]. eauto 10.
Qed.

End WithExt.

Lemma init_inv : forall d, inv (init_state d).
Proof. intros; unfold inv, init_state, zlen; cbn; lia. Qed.

Lemma okinv_not_panic : forall r, okinv r -> r <> Panic.
Proof. intros r (v & -> & _); discriminate. Qed.

(* ------------------------------------------------------------ positional parameters *)
Lemma positional_total : forall c st, positional c st <> Panic.
Proof.
  intros c st; unfold positional.
  destruct ((49 <=? Z.of_N c) && (Z.of_N c <=? 57)) eqn:E; [|discriminate].
  destruct (Z.of_N c - 49 <? zlen (params st)) eqn:E2; [|discriminate].
  use_idx (params st) (Z.of_N c - 49). discriminate.
Qed.

(* ------------------------------------------------------------ unset 'a[i]' *)
Lemma cut_elem_subscript_total : forall vn arg, cut_elem_subscript vn arg <> Panic.
Proof. exact cut_elem_subscript_total_pre. Qed.

Lemma lower_bound_range : forall l k, 0 <= lower_bound l k <= zlen l.
Proof.
  induction l as [|x l IH]; intros k; cbn [lower_bound]; [unfold zlen; cbn; lia|].
  rewrite zlen_cons. destruct (x <? k); [specialize (IH k); lia|pose proof (zlen_nonneg _ l); lia].
Qed.

Lemma delete_indexed_elem_total : forall l ix k, var_wf l ix -> delete_indexed_elem l ix k <> Panic.
Proof.
  intros l ix k WF; unfold delete_indexed_elem.
  assert (SP : forall ix', length ix' = length l ->
     (let pos := lower_bound ix' k in
      found <- (if pos <? zlen ix' then e <- idx ix' pos;; Ok (e =? k) else Ok false);;
      (if negb found then Ok (l, ix')
       else l' <- delete_at l pos;; ix'0 <- delete_at ix' pos;; Ok (l', canonical_indexes ix'0))) <> Panic).
  { intros ix' EL; cbv zeta. pose proof (lower_bound_range ix' k) as LB.
    assert (ZL : zlen ix' = zlen l) by (unfold zlen; rewrite EL; reflexivity).
    destruct (lower_bound ix' k <? zlen ix') eqn:E1; cbn [res_bind negb]; [|discriminate].
    use_idx ix' (lower_bound ix' k).
    destruct (x =? k); cbn [negb]; [|discriminate].
    destruct (delete_at_ok _ l (lower_bound ix' k)) as (l' & ->); [lia|]. cbn [res_bind].
    destruct (delete_at_ok _ ix' (lower_bound ix' k)) as (i' & ->); [lia|]. cbn [res_bind]. discriminate. }
  destruct ix as [|i0 ix]; cbn [is_empty].
  - destruct ((k <? 0) || (zlen l <=? k)) eqn:E; [discriminate|].
    destruct (k =? zlen l - 1) eqn:E2.
    + rewrite slice_to_ok by lia. cbn [res_bind]. discriminate.
    + apply SP. rewrite map_length, seq_length. reflexivity.
  - apply SP. destruct WF as [WF|WF]; [discriminate|exact WF].
Qed.

Lemma unset_indexed_total : forall l ix k, var_wf l ix -> unset_indexed l ix k <> Panic.
Proof.
  intros l ix k WF; unfold unset_indexed.
  destruct (k <? 0).
  - unfold indexed_max. destruct (0 <? zlen ix) eqn:E.
    + use_idx ix (zlen ix - 1). destruct (k + x + 1 <? 0); [discriminate|].
      pose proof (delete_indexed_elem_total l ix (k + x + 1) WF).
      destruct (delete_indexed_elem l ix (k + x + 1)); cbn [res_bind]; congruence.
    + cbn [res_bind]. destruct (k + (zlen l - 1) + 1 <? 0); [discriminate|].
      pose proof (delete_indexed_elem_total l ix (k + (zlen l - 1) + 1) WF).
      destruct (delete_indexed_elem l ix (k + (zlen l - 1) + 1)); cbn [res_bind]; congruence.
  - pose proof (delete_indexed_elem_total l ix k WF).
    destruct (delete_indexed_elem l ix k); cbn [res_bind]; congruence.
Qed.

(* ------------------------------------------------------------ ${v:o:l}, ${@:o:l}, ${a[@]:o:l} *)
Lemma slice_pos_range : forall len n, 0 <= len -> 0 <= slice_pos len n <= len.
Proof.
  intros len n H; unfold slice_pos.
  destruct (n <? 0) eqn:E1; [destruct (len + n <? 0) eqn:E2; lia|destruct (len <? n) eqn:E3; lia].
Qed.

Lemma slice_str_total : forall rs set off len, slice_str rs set off len <> Panic.
Proof.
  intros rs set off len; unfold slice_str. cbv zeta.
  assert (H1 : exists rs1, match off with Some o => slice_from rs (slice_pos (zlen rs) o) | None => Ok rs end = Ok rs1).
  { destruct off as [o|]; [|eauto]. rewrite slice_from_ok; [eauto|]. apply slice_pos_range, zlen_nonneg. }
  destruct H1 as (rs1 & ->); cbn [res_bind].
  destruct len as [l|]; [|discriminate].
  match goal with |- (if ?c then _ else _) <> _ => destruct c end; [discriminate|].
  rewrite slice_to_ok; [discriminate|]. apply slice_pos_range, zlen_nonneg.
Qed.

Lemma slice_elems_total : forall arg0 elems ix positional off len,
  ix = [] \/ (positional = false /\ length ix = length elems) ->
  slice_elems arg0 elems ix positional off len <> Panic.
Proof.
  intros arg0 elems ix positional off len WF; unfold slice_elems.
  set (el := if positional then arg0 :: elems else elems).
  assert (FIN : forall e1 : list str,
     match len with Some l => slice_to e1 (slice_pos (zlen e1) l) | None => Ok e1 end <> Panic).
  { intros e1. destruct len as [l|]; [|discriminate].
    rewrite slice_to_ok; [discriminate|]. apply slice_pos_range, zlen_nonneg. }
  destruct off as [o|]; [|cbn [res_bind]; apply FIN].
  destruct (0 <? zlen ix) eqn:E.
  - destruct WF as [->|(-> & EL)]; [unfold zlen in E; cbn in E; lia|].
    use_idx ix (zlen ix - 1). cbv zeta.
    match goal with |- context [lower_bound ix ?k] => pose proof (lower_bound_range ix k) as LB end.
    assert (ZL : zlen ix = zlen el) by (unfold el, zlen; rewrite EL; reflexivity).
    rewrite slice_from_ok by lia. cbn [res_bind]. apply FIN.
  - rewrite slice_from_ok by (apply slice_pos_range, zlen_nonneg). cbn [res_bind]. apply FIN.
Qed.

(* ------------------------------------------------------------ refutations of the pre-fix code *)
Definition st_ab : state := set_params (init_state (b "/T")) [b "a"; b "b"].

Lemma shift_prefix_refuted : bi_shift_prefix atoi_c [b "-1"] st_ab = Panic.
Proof. vm_compute. reflexivity. Qed.

(* set -- -ab; getopts ab x; set -- -a; getopts ab x *)
Definition getopts_hist (fixed : bool) : res bres :=
  let go := bi_getopts_gen atoi_c itoa_c runes_of_c str_of_runes_c index_rune_c valid_name_c fixed [b "ab"; b "x"] in
  r1 <- go (set_params (init_state (b "/T")) [b "-ab"]) ;;
  go (set_params (r_st r1) [b "-a"]).

Lemma getopts_prefix_refuted : getopts_hist false = Panic.
Proof. vm_compute. reflexivity. Qed.

Lemma getopts_fixed_witness : exists v, getopts_hist true = Ok v /\ var_get (vars (r_st v)) (b "x") = Some (b "a").
Proof. vm_compute. eexists; split; reflexivity. Qed.

(* ------------------------------------------------------------ the statements of Props/C28.v *)
(* Lemmas proved inside the section are generalised over all eight library functions (lia reverts the
   context); where the statement does not mention one of them, any function can be supplied. *)
Ltac dummies :=
  first [ exact (fun _ : str => (0, false)) | exact (fun _ : str => 0) | exact (fun _ : Z => @nil N)
        | exact (fun _ : str => @nil N) | exact (fun _ : list N => @nil N) | exact (fun (_ : str) (_ : N) => 0)
        | exact (fun _ : str => false) | exact (fun (_ _ : str) => @None str) | exact (fun _ : str => @None str) ].
Ltac via L := apply okinv_not_panic; unshelve eapply L; try assumption; dummies.

Lemma shift_prefix_refuted_ex : exists args st, inv st /\ bi_shift_prefix atoi_c args st = Panic.
Proof. exists [b "-1"], st_ab. split; [apply init_inv|exact shift_prefix_refuted]. Qed.

Lemma shift_total : forall atoi args st, inv st -> bi_shift atoi args st <> Panic.
Proof. intros atoi args st I. via bi_shift_ok. Qed.

Lemma getopts_total : forall atoi itoa runes_of str_of_runes index_rune valid_name args st, inv st ->
  bi_getopts atoi itoa runes_of str_of_runes index_rune valid_name args st <> Panic.
Proof. intros atoi itoa ro sr ir vn args st I. via bi_getopts_ok. Qed.

Lemma getopts_next_total : forall runes_of str_of_runes index_rune optstr args g,
  0 <= g_arg g -> 0 <= g_rune g ->
  getopts_next runes_of str_of_runes index_rune optstr args g <> Panic.
Proof.
  intros r s i o a g A R.
  assert (H : exists g' x y d, getopts_next r s i o a g = Ok (g', x, y, d) /\ 0 <= g_arg g' /\ 0 <= g_rune g')
    by (unshelve eapply getopts_next_ok; try assumption; dummies).
  destruct H as (g' & x & y & d & E & _). rewrite E; discriminate.
Qed.

Lemma set_total : forall args st, inv st -> exists v, bi_set args st = Ok v.
Proof.
  intros args st I. assert (H : okinv (bi_set args st)) by (unshelve eapply bi_set_ok; try assumption; dummies).
  destruct H as (v & E & _). eauto.
Qed.

Lemma break_continue_total : forall atoi cont args st, inv st -> bi_break atoi cont args st <> Panic.
Proof. intros atoi cont args st I. via bi_break_ok. Qed.
Lemma exit_total : forall atoi args st, inv st -> bi_exit atoi args st <> Panic.
Proof. intros atoi args st I. via bi_exit_ok. Qed.
Lemma return_total : forall atoi args st, inv st -> bi_return atoi args st <> Panic.
Proof. intros atoi args st I. via bi_return_ok. Qed.
Lemma wait_total : forall atoi64 args st, inv st -> bi_wait atoi64 args st <> Panic.
Proof. intros atoi64 args st I. via bi_wait_ok. Qed.
Lemma pushd_total : forall change_dir args st, inv st -> bi_pushd change_dir args st <> Panic.
Proof. intros cd args st I. via bi_pushd_ok. Qed.
Lemma popd_total : forall change_dir args st, inv st -> bi_popd change_dir args st <> Panic.
Proof. intros cd args st I. via bi_popd_ok. Qed.
Lemma dirs_total : forall args st, inv st -> bi_dirs args st <> Panic.
Proof. intros args st I. apply okinv_not_panic. apply bi_dirs_ok; assumption. Qed.

Lemma echo_total : forall format args st, inv st -> bi_echo format args st <> Panic.
Proof. intros fm args st I. via bi_echo_ok. Qed.
Lemma pwd_total : forall eval_symlinks args st, inv st -> bi_pwd eval_symlinks args st <> Panic.
Proof. intros es args st I. via bi_pwd_ok. Qed.
Lemma unset_total : forall valid_name args st, inv st -> bi_unset valid_name args st <> Panic.
Proof. intros vn args st I. via bi_unset_ok. Qed.

(* without the invariant pushd -n DIR does panic: the invariant is needed, not decoration *)
Lemma pushd_needs_inv : exists change_dir args st, bi_pushd change_dir args st = Panic.
Proof.
  exists (fun _ _ => None), [b "-n"; b "x"], (set_dirstack (init_state (b "/T")) []).
  vm_compute. reflexivity.
Qed.

Lemma history_total :
  forall atoi atoi64 itoa runes_of str_of_runes index_rune valid_name change_dir format eval_symlinks cs st, inv st ->
  exists st' ev code,
    run_calls atoi atoi64 itoa runes_of str_of_runes index_rune valid_name change_dir format eval_symlinks cs st = Ok (st', ev, code)
    /\ inv st'.
Proof. intros. apply run_calls_ok; assumption. Qed.

Definition hist_witness : list call :=
  [CSet [b "--"; b "-ab"]; CGetopts [b "ab"; b "x"]; CSet [b "--"; b "-a"]; CGetopts [b "ab"; b "x"]; CShift [b "-1"]].

Lemma history_nonvacuous :
  exists st' ev, run_calls_c [b "/T"] hist_witness (init_state (b "/T")) = Ok (st', ev, 0) /\ params st' = [b "-a"].
Proof. vm_compute. eexists _, _; split; reflexivity. Qed.
