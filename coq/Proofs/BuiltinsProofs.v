(* Proofs/BuiltinsProofs.v — proofs about Interp/Builtins.v *)
From Verif Require Import Base.Str Interp.Builtins.
From Coq Require Import List ZArith NArith Lia Bool ZifyBool ZifyN ZifyNat.
Import ListNotations.
Open Scope Z_scope.

Lemma placeholder : True. Proof. exact I. Qed.
