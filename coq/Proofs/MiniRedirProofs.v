(* Proofs/MiniRedirProofs.v — level S+ (one simple command with assignments and redirections):
   the printer state machine x_command (assigns, wordJoin, stmtRedirs; SpaceRedirects) writes the
   items name=value, word, [n]op[ ]word separated by single blanks.  The parser half
   (parse_xfile (x_print_file sr x) = Some x) is NOT proved: code leg only. *)
From Verif Require Import Base.Str Syntax.Word Syntax.MiniAst Syntax.MiniPrinter Syntax.MiniParser Syntax.MiniRedir
  Proofs.MiniRender.
Open Scope N_scope.

Definition r_assign (a : assign) : str := a_name a ++ [61] ++ print_word false (a_value a).
Definition r_redir (sr : bool) (r : redir) : str :=
  r_n r ++ rop_string (r_op r) ++ (if sr && negb (is_dpl (r_op r)) then s_sp else []) ++ print_word false (r_word r).

Definition x_items (sr : bool) (x : xcall) : list str :=
  map r_assign (x_assigns x) ++ map (print_word false) (x_args x) ++ map (r_redir sr) (x_redirs x).

Fixpoint join_sp (l : list str) : str :=
  match l with
  | [] => []
  | b :: rest => b ++ match rest with [] => [] | _ => s_sp ++ join_sp rest end
  end.

Definition x_render_file (sr : bool) (x : xcall) : str := join_sp (x_items sr x) ++ s_nl.

(* one item: a blank if one is due, the bytes, wantSpace := required *)
Definition emit (b : str) (p : pst) : pst :=
  mkP (out p ++ lead p ++ b) SpRequired (wantNewline p) (wroteSemi p) (firstLine p).
Definition emits (bs : list str) (p : pst) : pst := fold_left (fun p b => emit b p) bs p.

Lemma assigns_emits : forall l p, x_assigns_p l p = emits (map r_assign l) p.
Proof.
  induction l as [|a rest IH]; intros p; [reflexivity|]. cbn [x_assigns_p map]. rewrite IH.
  change (emits (r_assign a :: map r_assign rest) p) with (emits (map r_assign rest) (emit (r_assign a) p)). f_equal.
  destruct p as [o ws wn sm fl]. unfold r_assign. destruct (a_value a) as [|pt v];
    destruct ws; unfold emit, r_assign, spacePad, lead, set_ws, wr; simpl; rewrite <- ?app_assoc, ?app_nil_r; reflexivity.
Qed.

Lemma words_emits : forall l p, sl_wordJoin l p = emits (map (print_word false) l) p.
Proof.
  induction l as [|w rest IH]; intros p; [reflexivity|]. cbn [sl_wordJoin map]. rewrite IH.
  change (emits (print_word false w :: map (print_word false) rest) p) with (emits (map (print_word false) rest) (emit (print_word false w) p)). f_equal.
  destruct p as [o ws wn sm fl]. destruct ws; unfold emit, spacePad, lead, set_ws, wr; simpl; rewrite <- ?app_assoc; reflexivity.
Qed.

Lemma redirs_emits : forall sr l p, x_redirs_p sr l p = emits (map (r_redir sr) l) p.
Proof.
  induction l as [|r rest IH]; intros p; [reflexivity|]. cbn [x_redirs_p map]. rewrite IH.
  change (emits (r_redir sr r :: map (r_redir sr) rest) p) with (emits (map (r_redir sr) rest) (emit (r_redir sr r) p)). f_equal.
  destruct p as [o ws wn sm fl]. unfold r_redir.
  destruct (sr && negb (is_dpl (r_op r))); destruct ws; unfold emit, spacePad, space, lead, set_ws, wr; simpl; rewrite <- ?app_assoc; reflexivity.
Qed.

Lemma emits_app : forall a b p, emits (a ++ b) p = emits b (emits a p).
Proof. intros. unfold emits. apply fold_left_app. Qed.

Lemma emits_out : forall bs p, bs <> [] ->
  out (emits bs p) = out p ++ lead p ++ join_sp bs /\ wantSpace (emits bs p) = SpRequired.
Proof.
  induction bs as [|b rest IH]; intros p Hne; [congruence|]. cbn [emits fold_left join_sp].
  destruct rest as [|b2 r].
  - simpl. rewrite app_nil_r. auto.
  - change (fold_left (fun p0 b0 => emit b0 p0) (b2 :: r) (emit b p)) with (emits (b2 :: r) (emit b p)).
    destruct (IH (emit b p)) as (A & B); [discriminate|]. rewrite A, B. split; [|reflexivity].
    unfold emit, lead. simpl. rewrite <- !app_assoc. reflexivity.
Qed.

Lemma emit_pad : forall b p, emit b (spacePad p) = emit b p.
Proof.
  intros b p. destruct p as [o ws wn sm fl].
  destruct ws; unfold emit, spacePad, lead, set_ws, wr; simpl; rewrite <- ?app_assoc, ?app_nil_r; reflexivity.
Qed.

Theorem x_command_render : forall sr x p, x_items sr x <> [] ->
  out (x_command sr x p) = out p ++ lead p ++ join_sp (x_items sr x) /\ wantSpace (x_command sr x p) = SpRequired.
Proof.
  intros sr x p Hne. unfold x_command. rewrite assigns_emits, words_emits, redirs_emits.
  rewrite <- !emits_app. fold (x_items sr x).
  destruct (x_items sr x) as [|b rest] eqn:E; [congruence|].
  cbn [emits fold_left]. rewrite emit_pad.
  change (fold_left (fun p0 b0 => emit b0 p0) rest (emit b p)) with (emits rest (emit b p)).
  change (emits rest (emit b p)) with (emits (b :: rest) p). apply emits_out. discriminate.
Qed.

Theorem x_print_file_render : forall sr x, x_items sr x <> [] -> x_print_file sr x = x_render_file sr x.
Proof.
  intros sr x Hne. unfold x_print_file, x_render_file.
  destruct (x_command_render sr x (set_first false init_pst) Hne) as (A & _).
  destruct (x_command sr x (set_first false init_pst)) as [o ws wn sm fl]. simpl in *. subst o. reflexivity.
Qed.

(* non-vacuity: x=1 y= cmd 'a b' 2>&1 >>log <in  under both SpaceRedirects settings, and back *)
Definition ex_x : xcall :=
  mkX [mkA [120] [Lit [49]]; mkA [121] []]
      [[Lit [99;109;100]]; [Sgl false [97;32;98]]]
      [mkR [50] DplOut [Lit [49]]; mkR [] AppOut [Lit [108;111;103]]; mkR [] RdrIn [Lit [105;110]]].

Example ex_x_roundtrip :
  parse_xfile (x_print_file false ex_x) = Some ex_x /\ parse_xfile (x_print_file true ex_x) = Some ex_x /\
  x_print_file true ex_x =
    [120;61;49;32;121;61;32;99;109;100;32;39;97;32;98;39;32;50;62;38;49;32;62;62;32;108;111;103;32;60;32;105;110;10].
Proof. vm_compute. repeat split; reflexivity. Qed.
