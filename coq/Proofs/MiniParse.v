(* Proofs/MiniParse.v — parsing layer of the level-S round trip: on an input whose tokens
   (as read by next_token) are the token list of a well-formed tree, the fuelled parser of
   Syntax/MiniParser.v returns that tree, for every fuel above a size of the tree. *)
From Verif Require Import Base.Str Syntax.Word Syntax.MiniAst Syntax.MiniPrinter Syntax.MiniParser
  Proofs.MiniRender Proofs.MiniLex.
Require Import ZifyN ZifyBool ZifyNat.
Open Scope N_scope.

(* ------------------------------------------------------------------ yields inversion *)
Lemma yields_cons_inv : forall s t ts s', yields s (t :: ts) s' ->
  exists s1, next_token s = Some (t, s1) /\ yields s1 ts s'.
Proof. intros s t ts s' H. inversion H; subst. eauto. Qed.

Lemma yields_nil_inv : forall s s', yields s [] s' -> s' = s.
Proof. intros s s' H. inversion H; reflexivity. Qed.

Lemma yields_app_inv : forall a b s s', yields s (a ++ b) s' ->
  exists m, yields s a m /\ yields m b s'.
Proof.
  induction a as [|t a IH]; intros b s s' H.
  - exists s. split; [constructor|exact H].
  - cbn [app] in H. apply yields_cons_inv in H. destruct H as (s1 & E & H).
    destruct (IH _ _ _ H) as (m & H1 & H2). exists m. split; [econstructor; eauto|exact H2].
Qed.

(* ------------------------------------------------------------------ sizes (fuel needs) *)
Fixpoint sz_cmd (c : cmd) : nat :=
  match c with
  | Call args => 2 + length args
  | Block ss => 2 + sz_list ss
  | Subshell ss => 2 + sz_list ss
  | IfClause c t e => 2 + sz_list c + sz_list t + sz_else e
  | WhileClause _ c b => 2 + sz_list c + sz_list b
  | Binary _ x y => 2 + sz_stmt x + sz_stmt y
  end
with sz_stmt (s : stmt) : nat :=
  match s with Stmt _ c _ => 3 + sz_cmd c end
with sz_list (ss : stmts) : nat :=
  match ss with SNil => 1 | SCons s r => 1 + sz_stmt s + sz_list r end
with sz_else (e : else_) : nat :=
  match e with
  | NoElse => 1
  | Elif c t e' => 1 + sz_list c + sz_list t + sz_else e'
  | Else t => 1 + sz_list t
  end.

(* ------------------------------------------------------------------ token classes *)
Definition term_tok (insub : bool) (t : tok) : bool :=
  match t with
  | TEOF | TNewl | TSemi | TAmp | TPipe | TAndAnd | TOrOr => true
  | TRparen => insub
  | _ => false
  end.
Definition is_pipe (t : tok) : bool := match t with TPipe => true | _ => false end.
Definition is_andor_tok (t : tok) : bool := match t with TAndAnd | TOrOr => true | _ => false end.
Definition end_tok (insub : bool) (t : tok) : bool :=
  match t with TEOF | TNewl => true | TRparen => insub | _ => false end.

Definition follows (s : str) (P : tok -> bool) : Prop :=
  exists t s1, next_token s = Some (t, s1) /\ P t = true.

Definition openers : list str := [kw_bang; kw_lbrace; kw_if; kw_while; kw_until].
Definition stops_ok (stops : list str) : bool :=
  forallb (fun v => is_reserved v && negb (existsb (bytes_eqb v) openers)) stops.

(* first token of a command that is not an && / || list *)
Definition cmd_start (t : tok) : bool :=
  match t with
  | TLparen => true
  | TWord [Lit v] => negb (is_reserved v) || existsb (bytes_eqb v) [kw_lbrace; kw_if; kw_while; kw_until]
  | TWord _ => true
  | _ => false
  end.
Definition stmt_start (t : tok) : bool := cmd_start t || is_rsrv t kw_bang.

Lemma bytes_eqb_eq : forall a b, bytes_eqb a b = true -> a = b.
Proof.
  induction a as [|x a IH]; intros [|y b] H; try discriminate; [reflexivity|].
  simpl in H. apply andb_prop in H. destruct H as (H1 & H2).
  f_equal; [lia|auto].
Qed.
Lemma bytes_eqb_refl : forall a, bytes_eqb a a = true.
Proof. induction a; simpl; [reflexivity|]. rewrite IHa. rewrite N.eqb_refl. reflexivity. Qed.

Lemma existsb_eqb_in : forall v l, existsb (bytes_eqb v) l = true -> In v l.
Proof.
  intros v l H. apply existsb_exists in H. destruct H as (x & Hi & He).
  apply bytes_eqb_eq in He. subst. exact Hi.
Qed.

Lemma stmt_start_not_stop : forall stops insub t, stops_ok stops = true -> stmt_start t = true ->
  stops_at stops insub t = false.
Proof.
  intros stops insub t Hs Ht. unfold stmt_start in Ht.
  destruct t as [| | | | | | | | |w]; try discriminate; try reflexivity.
  destruct w as [|[v| | |] [|p w]]; try reflexivity.
  cbn [stops_at]. destruct (existsb (bytes_eqb v) stops) eqn:E; [|reflexivity]. exfalso.
  apply existsb_eqb_in in E. unfold stops_ok in Hs. rewrite forallb_forall in Hs.
  specialize (Hs v E). apply andb_prop in Hs. destruct Hs as (R & O).
  cbn [cmd_start is_rsrv] in Ht. rewrite R in Ht. cbn [negb orb] in Ht.
  unfold openers in O. cbn [existsb] in O, Ht.
  destruct (bytes_eqb v kw_bang), (bytes_eqb v kw_lbrace), (bytes_eqb v kw_if), (bytes_eqb v kw_while),
    (bytes_eqb v kw_until); discriminate.
Qed.

Lemma skip_newl_id : forall s t s1, next_token s = Some (t, s1) -> t <> TNewl -> skip_newl s = s.
Proof. intros s t s1 H Hn. unfold skip_newl. rewrite H. destruct t; congruence. Qed.
Lemma got_newl_no : forall s t s1, next_token s = Some (t, s1) -> t <> TNewl -> got_newl s = false.
Proof. intros s t s1 H Hn. unfold got_newl. rewrite H. destruct t; congruence. Qed.

Lemma stmt_start_not_newl : forall t, stmt_start t = true -> t <> TNewl.
Proof. intros t H E. subst. discriminate. Qed.

(* ------------------------------------------------------------------ first tokens *)
Lemma first_tokens :
  (forall c, wf_cmd c -> exists t ts, t_cmd c = t :: ts /\
     (if is_andor c then stmt_start t else cmd_start t) = true) /\
  (forall x, wf_stmt x -> exists t ts, t_stmt x = t :: ts /\
     (if stmt_neg x then is_rsrv t kw_bang
      else if is_andor (stmt_cmd x) then stmt_start t else cmd_start t) = true) /\
  (forall ss : stmts, True) /\ (forall e : else_, True).
Proof.
  apply mini_mutind; try (intros; exact I).
  - intros [|w r] (Hf & Hw); [contradiction|]. exists (TWord w), (map TWord r). split; [reflexivity|].
    cbn [is_andor cmd_start]. unfold first_word_ok in Hw.
    destruct w as [|[v| | |] [|p w]]; try reflexivity.
    apply andb_prop in Hw. destruct Hw as (Hw & _). rewrite Hw. reflexivity.
  - intros. eexists _, _. split; reflexivity.
  - intros. eexists _, _. split; reflexivity.
  - intros. eexists _, _. split; reflexivity.
  - intros u. intros. eexists _, _. split; [reflexivity|]. destruct u; reflexivity.
  - intros op x IHx y IHy (Wx & Wy & Bx & By & Hop).
    destruct (IHx Wx) as (t & ts & E & H). cbn [t_cmd]. rewrite E. cbn [app].
    exists t, (ts ++ t_op op :: t_stmt y). split; [reflexivity|].
    unfold stmt_start in *.
    destruct op; cbn [is_andor].
    + destruct (stmt_neg x); [rewrite H; apply orb_true_r|].
      destruct (is_andor (stmt_cmd x)); [exact H|rewrite H; reflexivity].
    + destruct (stmt_neg x); [rewrite H; apply orb_true_r|].
      destruct (is_andor (stmt_cmd x)); [exact H|rewrite H; reflexivity].
    + destruct Hop as (Nx & _ & Ax & _). rewrite Nx, Ax in H. exact H.
  - intros n c IHc b (Wc & Hn). destruct (IHc Wc) as (t & ts & E & H).
    cbn [t_stmt stmt_neg stmt_cmd]. destruct n.
    + eexists _, _. split; [reflexivity|]. reflexivity.
    + cbn [app]. rewrite E. cbn [app]. eexists _, _. split; [reflexivity|]. exact H.
Qed.

Lemma stmt_first : forall x, wf_stmt x -> exists t ts, t_stmt x = t :: ts /\ stmt_start t = true.
Proof.
  intros x W. destruct first_tokens as (_ & F & _). destruct (F x W) as (t & ts & E & H).
  exists t, ts. split; [exact E|]. unfold stmt_start in *.
  destruct (stmt_neg x); [rewrite H; apply orb_true_r|].
  destruct (is_andor (stmt_cmd x)); [exact H|rewrite H; reflexivity].
Qed.

Lemma cmd_first : forall c, wf_cmd c -> is_andor c = false ->
  exists t ts, t_cmd c = t :: ts /\ cmd_start t = true.
Proof.
  intros c W A. destruct first_tokens as (F & _). destruct (F c W) as (t & ts & E & H).
  rewrite A in H. eauto.
Qed.

Lemma cmd_start_facts : forall t, cmd_start t = true ->
  stop_token t = false /\ is_rsrv t kw_bang = false /\ t <> TNewl.
Proof.
  intros t H. destruct t as [| | | | | | | | |w]; try discriminate; [repeat split; try reflexivity; discriminate|].
  repeat split; try reflexivity; try discriminate.
  destruct w as [|[v| | |] [|p w]]; try reflexivity.
  cbn [cmd_start] in H. cbn [is_rsrv].
  destruct (bytes_eqb v kw_bang) eqn:E; [|reflexivity].
  apply bytes_eqb_eq in E. subst. discriminate.
Qed.

(* ------------------------------------------------------------------ unfolding equations *)
Definition p_head (fuel : nat) (insub : bool) (s : str) : option (stmt * str) :=
  match next_token s with
  | None => None
  | Some (t, s1) =>
      let neg := is_rsrv t kw_bang in
      let s2 := if neg then s1 else s in
      match next_token s2 with
      | None => None
      | Some (t2, _) =>
          if neg && (stop_token t2 || is_rsrv t2 kw_bang) then None
          else p_pipe fuel insub neg s2
      end
  end.

Lemma p_stmt_S : forall f insub readEnd binCmd s,
  p_stmt (S f) insub readEnd binCmd s =
  match p_head f insub s with
  | Some (st, s3) =>
      match p_andor f insub binCmd st s3 with
      | Some (st', s4) =>
          if readEnd then
            match next_token s4 with
            | Some (TSemi, s5) => Some (st', true, s5)
            | Some (TAmp, s5) => Some (set_bg st', true, s5)
            | Some (_, _) => Some (st', false, s4)
            | None => None
            end
          else Some (st', false, s4)
      | None => None
      end
  | None => None
  end.
Proof.
  intros. unfold p_head. cbn [p_stmt].
  destruct (next_token s) as [[t s1]|]; [|reflexivity].
  cbv zeta.
  destruct (next_token (if is_rsrv t kw_bang then s1 else s)) as [[t2 s2']|]; [|reflexivity].
  destruct (is_rsrv t kw_bang && (stop_token t2 || is_rsrv t2 kw_bang)); reflexivity.
Qed.

Lemma p_andor_exit : forall f insub binCmd acc s t s1,
  next_token s = Some (t, s1) -> (is_andor_tok t = false \/ binCmd = true) ->
  p_andor f insub binCmd acc s = Some (acc, s).
Proof.
  intros f insub binCmd acc s t s1 H Hc.
  destruct f; cbn [p_andor]; rewrite H; destruct t; try reflexivity;
    destruct Hc as [Hc|Hc]; try discriminate; subst; reflexivity.
Qed.

Lemma p_andor_step : forall f insub acc s t s1, next_token s = Some (t, s1) -> is_andor_tok t = true ->
  p_andor (S f) insub false acc s =
  match p_stmt f insub false true (skip_newl s1) with
  | Some (y, _, s2) =>
      p_andor f insub false
        (Stmt false (Binary (match t with TAndAnd => AndStmt | _ => OrStmt end) acc y) false) s2
  | None => None
  end.
Proof.
  intros f insub acc s t s1 H Ht. cbn [p_andor]. rewrite H.
  destruct t; try discriminate; reflexivity.
Qed.

Lemma p_pipe_loop_exit : forall f insub acc s t s1,
  next_token s = Some (t, s1) -> is_pipe t = false -> p_pipe_loop f insub acc s = Some (acc, s).
Proof.
  intros f insub acc s t s1 H Hp. destruct f; cbn [p_pipe_loop]; rewrite H; destruct t; try reflexivity; discriminate.
Qed.

Lemma p_pipe_loop_step : forall f insub acc s s1, next_token s = Some (TPipe, s1) ->
  p_pipe_loop (S f) insub acc s =
  match p_cmd f insub (skip_newl s1) with
  | Some (y, s2) => p_pipe_loop f insub (Binary Pipe (Stmt false acc false) (Stmt false y false)) s2
  | None => None
  end.
Proof. intros f insub acc s s1 H. cbn [p_pipe_loop]. rewrite H. reflexivity. Qed.

Lemma p_pipe_S : forall f insub neg s,
  p_pipe (S f) insub neg s =
  match p_cmd f insub s with
  | Some (c, s1) =>
      match p_pipe_loop f insub c s1 with
      | Some (c', s2) => Some (Stmt neg c' false, s2)
      | None => None
      end
  | None => None
  end.
Proof. reflexivity. Qed.

Definition pipe_from (f : nat) (insub : bool) (s : str) : option (cmd * str) :=
  match p_cmd f insub s with Some (c0, s1) => p_pipe_loop f insub c0 s1 | None => None end.

Lemma p_pipe_S' : forall f insub neg s,
  p_pipe (S f) insub neg s =
  match pipe_from f insub s with Some (c', s2) => Some (Stmt neg c' false, s2) | None => None end.
Proof. intros. rewrite p_pipe_S. unfold pipe_from. destruct (p_cmd f insub s) as [[c s1]|]; reflexivity. Qed.

Definition andor_from (f : nat) (insub : bool) (s : str) : option (stmt * str) :=
  match p_head f insub s with Some (st, s3) => p_andor f insub false st s3 | None => None end.

(* ------------------------------------------------------------------ token lists of lists *)
Definition want_semi (fin : bool) (rest : stmts) : bool :=
  match rest with SNil => fin | _ => true end.

Fixpoint t_list (fin : bool) (ss : stmts) : list tok :=
  match ss with
  | SNil => []
  | SCons s rest =>
      (t_stmt s ++ (if want_semi fin rest && negb (stmt_bg s) then [TSemi] else [])) ++ t_list fin rest
  end.

Lemma t_list_false : forall ss, t_stmts ss = t_list false ss.
Proof.
  induction ss as [|s rest IH]; [reflexivity|]. cbn [t_stmts t_list].
  destruct rest as [|s1 r].
  - cbn. rewrite !app_nil_r. reflexivity.
  - rewrite <- IH. cbn [want_semi andb]. rewrite <- app_assoc. destruct (stmt_bg s); reflexivity.
Qed.

Lemma t_list_true : forall ss, ss <> SNil -> t_stmts ss ++ t_term ss = t_list true ss.
Proof.
  induction ss as [|s rest IH]; intros H; [congruence|]. cbn [t_stmts t_list].
  destruct rest as [|s1 r].
  - cbn. unfold t_term. cbn [last_bg]. rewrite !app_nil_r. destruct (stmt_bg s); reflexivity.
  - rewrite <- IH by discriminate. cbn [want_semi andb]. unfold t_term. cbn [last_bg].
    rewrite <- !app_assoc. destruct (stmt_bg s); reflexivity.
Qed.

(* ------------------------------------------------------------------ the claims *)
Definition np (insub : bool) (t : tok) : bool := term_tok insub t && negb (is_pipe t).

Definition claimA (c : cmd) : Prop := is_binary c = false -> wf_cmd c ->
  forall f insub s s', yields s (t_cmd c) s' -> follows s' (term_tok insub) -> (sz_cmd c <= f)%nat ->
  p_cmd f insub s = Some (c, s').

Definition claimB (c : cmd) : Prop := is_andor c = false -> wf_cmd c ->
  forall g f insub s s', yields s (t_cmd c) s' -> follows s' (term_tok insub) -> (sz_cmd c + g <= f)%nat ->
  exists f', (g <= f')%nat /\ pipe_from f insub s = p_pipe_loop f' insub c s'.

Definition claimC (x : stmt) : Prop := stmt_bg x = false -> wf_stmt x ->
  forall g f insub s s', yields s (t_stmt x) s' -> follows s' (np insub) -> (sz_stmt x + g <= S f)%nat ->
  exists f', (g <= f')%nat /\ andor_from f insub s = p_andor f' insub false x s'.

Definition claimD (y : stmt) : Prop := stmt_bg y = false -> is_andor (stmt_cmd y) = false -> wf_stmt y ->
  forall f insub s s', yields s (t_stmt y) s' -> follows s' (np insub) -> (sz_stmt y <= f)%nat ->
  p_stmt f insub false true s = Some (y, false, s').

Definition claimE (x : stmt) : Prop := wf_stmt x ->
  forall f insub semi s s',
  yields s (t_stmt x ++ (if semi && negb (stmt_bg x) then [TSemi] else [])) s' ->
  (semi || stmt_bg x = false -> follows s' (end_tok insub)) -> (sz_stmt x <= f)%nat ->
  p_stmt f insub true false s = Some (x, semi || stmt_bg x, s').

Definition claimL (ss : stmts) : Prop := wf_stmts ss ->
  forall f stops insub fin gotEnd s s', stops_ok stops = true ->
  yields s (t_list fin ss) s' -> (ss <> SNil -> gotEnd = true) ->
  (exists tstop s2, next_token (skip_newl s') = Some (tstop, s2) /\ stops_at stops insub tstop = true) ->
  (fin = false -> follows s' (end_tok insub)) -> (sz_list ss <= f)%nat ->
  p_stmts f stops insub gotEnd s = Some (ss, skip_newl s').

Definition claimEl (e : else_) : Prop := wf_else e ->
  forall f insub s s', yields s (t_else e) s' -> (sz_else e <= f)%nat ->
  p_else f insub s = Some (e, s').

Lemma follows_weaken : forall s (P Q : tok -> bool), (forall t, P t = true -> Q t = true) ->
  follows s P -> follows s Q.
Proof. intros s P Q H (t & s1 & E & Ht). exists t, s1. auto. Qed.

Lemma np_term : forall insub t, np insub t = true -> term_tok insub t = true.
Proof. intros insub t H. unfold np in H. apply andb_prop in H. tauto. Qed.

(* p_head on a pipeline-level statement *)
Lemma head_ok : forall n c, claimB c -> is_andor c = false -> wf_cmd c ->
  forall f insub s s', yields s (t_stmt (Stmt n c false)) s' -> follows s' (np insub) ->
  (sz_cmd c + 2 <= f)%nat -> p_head f insub s = Some (Stmt n c false, s').
Proof.
  intros n c HB HA W f insub s s' Y F Hf.
  destruct (cmd_first c W HA) as (t & ts & E & Hs).
  destruct (cmd_start_facts t Hs) as (S1 & S2 & S3).
  cbn [t_stmt] in Y. rewrite app_nil_r in Y.
  assert (PP : forall s0, yields s0 (t_cmd c) s' -> p_pipe f insub n s0 = Some (Stmt n c false, s')).
  { intros s0 Y0. destruct f as [|f0]; [lia|]. rewrite p_pipe_S'.
    destruct (HB HA W 0%nat f0 insub s0 s' Y0) as (f' & _ & EQ);
      [eapply follows_weaken; [apply np_term|exact F] | lia |].
    rewrite EQ. destruct F as (tf & sf & Ef & Hf2). unfold np in Hf2. apply andb_prop in Hf2.
    destruct Hf2 as (_ & Hp). rewrite (p_pipe_loop_exit f' insub c s' tf sf Ef); [reflexivity|].
    destruct (is_pipe tf); [discriminate|reflexivity]. }
  unfold p_head. destruct n.
  - cbn [app] in Y. apply yields_cons_inv in Y. destruct Y as (s1 & E1 & Y).
    rewrite E1. change (is_rsrv (K kw_bang) kw_bang) with true. cbv zeta. cbn [andb].
    pose proof Y as Y2. rewrite E in Y2. apply yields_cons_inv in Y2. destruct Y2 as (s2 & E2 & _).
    rewrite E2, S1, S2. cbn [orb]. apply PP. exact Y.
  - cbn [app] in Y. pose proof Y as Y2. rewrite E in Y2. apply yields_cons_inv in Y2.
    destruct Y2 as (s2 & E2 & _). rewrite E2, S2. cbv zeta. rewrite E2. cbn [andb]. apply PP. exact Y.
Qed.

Lemma body_ok : forall ss, claimL ss -> wf_stmts ss -> ss <> SNil ->
  forall stops f insub fin s1 m tstop m2, stops_ok stops = true ->
  yields s1 (t_list fin ss) m -> next_token m = Some (tstop, m2) -> tstop <> TNewl ->
  stops_at stops insub tstop = true -> (fin = false -> end_tok insub tstop = true) ->
  (sz_list ss <= f)%nat ->
  lead_semi s1 = false /\ nonempty (p_stmts f stops insub true s1) = Some (ss, m).
Proof.
  intros ss HL W Hne stops f insub fin s1 m tstop m2 Hs Y E Hn Hst Hend Hf.
  assert (SK : skip_newl m = m) by (eapply skip_newl_id; eauto).
  assert (LS : lead_semi s1 = false).
  { destruct ss as [|x rest]; [congruence|]. destruct W as (Wx & _).
    destruct (stmt_first x Wx) as (t & ts & Et & Hst2). cbn [t_list] in Y. rewrite Et in Y.
    rewrite <- !app_assoc in Y. cbn [app] in Y. apply yields_cons_inv in Y. destruct Y as (sx & Ex & _).
    unfold lead_semi. rewrite Ex. destruct t; try reflexivity; discriminate. }
  split; [exact LS|].
  rewrite (HL W f stops insub fin true s1 m Hs Y); auto.
  - rewrite SK. destruct ss; [congruence|reflexivity].
  - rewrite SK. eauto.
  - intros Hfin. exists tstop, m2. auto.
Qed.

Lemma expect_ok : forall v m s', next_token m = Some (K v, s') -> expect_rsrv v m = Some s'.
Proof. intros v m s' H. unfold expect_rsrv. rewrite H. unfold K. cbn [is_rsrv]. rewrite bytes_eqb_refl. reflexivity. Qed.

Lemma K_not_newl : forall v, K v <> TNewl.
Proof. discriminate. Qed.

(* ------------------------------------------------------------------ the parsing theorem *)
Definition Q_cmd (c : cmd) : Prop :=
  claimA c /\ claimB c /\ match c with Binary _ x y => claimC x /\ claimD y | _ => True end.
Definition Q_stmt (x : stmt) : Prop :=
  claimA (stmt_cmd x) /\ claimB (stmt_cmd x) /\ claimC x /\ claimD x /\ claimE x.

Lemma B_of_A : forall c, is_binary c = false -> claimA c -> claimB c.
Proof.
  intros c Hb HA _ W g f insub s s' Y F Hf. exists f. split; [lia|].
  unfold pipe_from. rewrite (HA Hb W f insub s s' Y F); [reflexivity|lia].
Qed.

Lemma args_ok : forall insub rest f s1 s', yields s1 (map TWord rest) s' -> follows s' (term_tok insub) ->
  (length rest + 1 <= f)%nat -> p_args f insub s1 = Some (rest, s').
Proof.
  induction rest as [|w rest IH]; intros f s1 s' Y F Hf.
  - apply yields_nil_inv in Y. subst s'. destruct f as [|f]; [simpl in Hf; lia|].
    destruct F as (t & s2 & E & Ht). cbn [p_args]. rewrite E.
    destruct t; try discriminate; try reflexivity. cbn [term_tok] in Ht. rewrite Ht. reflexivity.
  - cbn [map] in Y. apply yields_cons_inv in Y. destruct Y as (s2 & E & Y).
    destruct f as [|f]; [simpl in Hf; lia|]. cbn [p_args]. rewrite E.
    rewrite (IH f s2 s' Y F); [reflexivity|simpl in Hf; lia].
Qed.

Lemma not_reserved_kw : forall v, is_reserved v = false ->
  bytes_eqb v kw_lbrace = false /\ bytes_eqb v kw_if = false /\ bytes_eqb v kw_while = false /\
  bytes_eqb v kw_until = false.
Proof.
  intros v H. repeat split.
  all: match goal with |- bytes_eqb ?v0 ?k = false =>
         destruct (bytes_eqb v0 k) eqn:E; [apply bytes_eqb_eq in E; subst; discriminate|reflexivity] end.
Qed.

Ltac kwred :=
  repeat match goal with
  | |- context [bytes_eqb ?a ?b] =>
      let r := eval vm_compute in (bytes_eqb a b) in
      match r with true => idtac | false => idtac end;
      change (bytes_eqb a b) with r
  end;
  repeat match goal with
  | |- context [is_reserved ?a] =>
      let r := eval vm_compute in (is_reserved a) in
      match r with true => idtac | false => idtac end;
      change (is_reserved a) with r
  end.

Ltac split_body Y ss Hne m Ym :=
  rewrite (app_assoc (t_stmts ss)) in Y; rewrite (t_list_true ss Hne) in Y;
  apply yields_app_inv in Y; destruct Y as (m & Ym & Y).

Ltac body ss IH W Hne stops f insub fin s1 m tstop s2 :=
  let BO := fresh "BO" in
  assert (BO : lead_semi s1 = false /\ nonempty (p_stmts f stops insub true s1) = Some (ss, m));
  [ apply (body_ok ss IH W Hne stops f insub fin s1 m tstop s2);
    try reflexivity; try assumption; try discriminate; try lia
  | let LS := fresh "LS" in let NE := fresh "NE" in destruct BO as (LS & NE); rewrite LS, NE ].

Ltac next_kw Y s2 E :=
  apply yields_cons_inv in Y; destruct Y as (s2 & E & Y).

Theorem parsing :
  (forall c, Q_cmd c) /\ (forall x, Q_stmt x) /\ (forall ss, claimL ss) /\ (forall e, claimEl e).
Proof.
  apply mini_mutind.
  - (* Call *)
    intros args.
    assert (HA : claimA (Call args)).
    { intros _ (Hf & Hw) f insub s s' Y F Hsz. destruct args as [|w rest]; [contradiction|].
      cbn [t_cmd map] in Y. next_kw Y s1 E.
      cbn [sz_cmd length] in Hsz. destruct f as [|f]; [lia|].
      pose proof (args_ok insub rest f s1 s' Y F) as PA.
      cbn [p_cmd]. rewrite E. unfold first_word_ok in Hw.
      destruct w as [|[v|d v|d ps|sh nm] [|p2 w2]]; cbn [word_assign];
        try (rewrite PA by lia; reflexivity).
      + apply andb_prop in Hw. destruct Hw as (H1 & H2).
        destruct (is_reserved v) eqn:R; [discriminate|].
        destruct (assign_prefix v) eqn:AP; [discriminate|].
        destruct (not_reserved_kw v R) as (K1 & K2 & K3 & K4).
        rewrite K1, K2, K3, K4. cbn [orb]. rewrite PA by lia. reflexivity.
      + destruct (assign_prefix v); [discriminate|]. rewrite PA by lia. reflexivity. }
    split; [exact HA|]. split; [apply B_of_A; [reflexivity|exact HA]|exact I].
  - (* Block *)
    intros ss IH.
    assert (HA : claimA (Block ss)).
    { intros _ (Hne & W) f insub s s' Y F Hsz.
      cbn [t_cmd] in Y. next_kw Y s1 E. split_body Y ss Hne m Ym. next_kw Y s2 E2.
      apply yields_nil_inv in Y. subst s2.
      cbn [sz_cmd] in Hsz. destruct f as [|f]; [lia|].
      cbn [p_cmd]. rewrite E. unfold K. cbn beta iota. kwred. cbn beta iota.
      body ss IH W Hne [kw_rbrace] f insub true s1 m (K kw_rbrace) s'.
      rewrite (expect_ok _ _ _ E2). reflexivity. }
    split; [exact HA|]. split; [apply B_of_A; [reflexivity|exact HA]|exact I].
  - (* Subshell *)
    intros ss IH.
    assert (HA : claimA (Subshell ss)).
    { intros _ (Hne & W) f insub s s' Y F Hsz.
      cbn [t_cmd] in Y. next_kw Y s1 E. rewrite t_list_false in Y.
      apply yields_app_inv in Y. destruct Y as (m & Ym & Y). next_kw Y s2 E2.
      apply yields_nil_inv in Y. subst s2.
      cbn [sz_cmd] in Hsz. destruct f as [|f]; [lia|].
      cbn [p_cmd]. rewrite E.
      cbn beta iota. body ss IH W Hne (@nil str) f true false s1 m TRparen s'.
      rewrite E2. reflexivity. }
    split; [exact HA|]. split; [apply B_of_A; [reflexivity|exact HA]|exact I].
  - (* IfClause *)
    intros cond IHc thn IHt els IHe.
    assert (HA : claimA (IfClause cond thn els)).
    { intros _ (Hc & Ht & Wc & Wt & We) f insub s s' Y F Hsz.
      cbn [t_cmd] in Y. next_kw Y s1 E. split_body Y cond Hc m Ym. next_kw Y s2 E2.
      split_body Y thn Ht m2 Ym2.
      cbn [sz_cmd] in Hsz. destruct f as [|f]; [lia|].
      assert (EL : exists tk ts, t_else els = K tk :: ts /\ In tk [kw_fi; kw_elif; kw_else]).
      { destruct els; cbn [t_else]; eexists _, _; (split; [reflexivity|]); simpl; auto. }
      destruct EL as (tk & tks & Etk & Hin). pose proof Y as Y3. rewrite Etk in Y3. next_kw Y3 s3 E3.
      assert (STK : stops_at [kw_fi; kw_elif; kw_else] insub (K tk) = true)
        by (destruct Hin as [<-|[<-|[<-|[]]]]; reflexivity).
      cbn [p_cmd]. rewrite E. unfold K. cbn beta iota. kwred. cbn beta iota.
      body cond IHc Wc Hc [kw_then] f insub true s1 m (K kw_then) s2.
      rewrite (expect_ok _ _ _ E2).
      body thn IHt Wt Ht [kw_fi; kw_elif; kw_else] f insub true s2 m2 (K tk) s3.
        rewrite (IHe We f insub m2 s' Y); [reflexivity|lia]. }
    split; [exact HA|]. split; [apply B_of_A; [reflexivity|exact HA]|exact I].
  - (* WhileClause *)
    intros u cond IHc bdy IHb.
    assert (HA : claimA (WhileClause u cond bdy)).
    { intros _ (Hc & Hb & Wc & Wb) f insub s s' Y F Hsz.
      cbn [t_cmd] in Y. next_kw Y s1 E. split_body Y cond Hc m Ym. next_kw Y s2 E2.
      split_body Y bdy Hb m2 Ym2. next_kw Y s3 E3. apply yields_nil_inv in Y. subst s3.
      cbn [sz_cmd] in Hsz. destruct f as [|f]; [lia|].
      cbn [p_cmd]. rewrite E. unfold K.
      destruct u; cbn beta iota; kwred; cbn [orb]; cbn beta iota.
      all: body cond IHc Wc Hc [kw_do] f insub true s1 m (K kw_do) s2.
      all: rewrite (expect_ok _ _ _ E2).
      all: body bdy IHb Wb Hb [kw_done] f insub true s2 m2 (K kw_done) s'.
      all: rewrite (expect_ok _ _ _ E3); reflexivity. }
    split; [exact HA|]. split; [apply B_of_A; [reflexivity|exact HA]|exact I].
  - (* Binary *)
    intros op x IHx y IHy.
    destruct IHx as (Ax & Bx & Cx & Dx & Ex). destruct IHy as (Ay & By & Cy & Dy & Ey).
    split; [intros H; discriminate|]. split; [|split; assumption].
    intros HAO (Wx & Wy & BGx & BGy & Hop) g f insub s s' Y F Hsz.
    destruct op; try discriminate.
    destruct Hop as (Nx & Ny & AOx & BIy).
    destruct x as [nx cx bx], y as [ny cy byy]. cbn [stmt_neg stmt_bg stmt_cmd] in *. subst nx ny bx byy.
    cbn [t_cmd t_stmt app] in Y. rewrite !app_nil_r in Y.
    apply yields_app_inv in Y. destruct Y as (m & Ym & Y). next_kw Y m2 E.
    cbn [sz_cmd sz_stmt] in Hsz.
    destruct Wx as (Wcx & _), Wy as (Wcy & _).
    destruct (Bx AOx Wcx (g + sz_cmd cy + 1)%nat f insub s m Ym) as (f1 & Hf1 & EQ);
      [exists TPipe, m2; auto | lia |].
    rewrite EQ. destruct f1 as [|f2]; [lia|].
    rewrite (p_pipe_loop_step f2 insub cx m m2 E).
    destruct (cmd_first cy Wcy) as (t & ts & Et & Hst); [destruct cy; try reflexivity; discriminate|].
    destruct (cmd_start_facts t Hst) as (_ & _ & Hnl).
    pose proof Y as Y2. rewrite Et in Y2. next_kw Y2 m3 E3.
    rewrite (skip_newl_id m2 t m3 E3 Hnl).
    rewrite (Ay BIy Wcy f2 insub m2 s' Y F); [|lia].
    exists f2. split; [lia|reflexivity].
  - (* Stmt *)
    intros n c IHc b. destruct IHc as (Ac & Bc & Rc).
    assert (HC : claimC (Stmt n c false)).
    { intros _ (Wc & Hn) g f insub s s' Y F Hsz. cbn [sz_stmt] in Hsz.
      destruct (is_andor c) eqn:AO.
      - (* an && / || list: not negated *)
        destruct c as [| | | | |op x y]; try discriminate.
        assert (n = false) by (destruct n; [specialize (Hn eq_refl); discriminate|reflexivity]). subst n.
        destruct Rc as (Cx & Dy).
        destruct Wc as (Wx & Wy & BGx & BGy & Hop).
        assert (AOy : is_andor (stmt_cmd y) = false) by (destruct op; [exact Hop|exact Hop|discriminate]).
        cbn [t_stmt t_cmd app] in Y. rewrite app_nil_r in Y.
        apply yields_app_inv in Y. destruct Y as (m & Ym & Y). next_kw Y m2 E.
        cbn [sz_cmd] in Hsz.
        destruct (Cx BGx Wx (g + sz_stmt y + 1)%nat f insub s m Ym) as (f1 & Hf1 & EQ);
          [exists (t_op op), m2; split; [exact E|destruct op; try reflexivity; discriminate] | lia |].
        rewrite EQ. destruct f1 as [|f2]; [lia|].
        rewrite (p_andor_step f2 insub x m (t_op op) m2 E); [|destruct op; try reflexivity; discriminate].
        destruct (stmt_first y Wy) as (t & ts & Et & Hst).
        pose proof Y as Y2. rewrite Et in Y2. next_kw Y2 m3 E3.
        rewrite (skip_newl_id m2 t m3 E3 (stmt_start_not_newl t Hst)).
        rewrite (Dy BGy AOy Wy f2 insub m2 s' Y F); [|lia].
        exists f2. split; [lia|]. destruct op; try discriminate; reflexivity.
      - exists f. split; [lia|]. unfold andor_from.
        rewrite (head_ok n c Bc AO Wc f insub s s' Y F); [reflexivity|lia]. }
    assert (HD : claimD (Stmt n c false)).
    { intros _ AO (Wc & Hn) f insub s s' Y F Hsz. cbn [stmt_cmd] in AO. cbn [sz_stmt] in Hsz.
      destruct f as [|f]; [lia|]. rewrite p_stmt_S.
      rewrite (head_ok n c Bc AO Wc f insub s s' Y F); [|lia].
      destruct F as (tf & sf & Ef & _).
      rewrite (p_andor_exit f insub true (Stmt n c false) s' tf sf Ef); [reflexivity|auto]. }
    split; [exact Ac|]. split; [exact Bc|].
    split; [destruct b; [intros Hb; discriminate|exact HC]|].
    split; [destruct b; [intros Hb; discriminate|exact HD]|].
    (* claimE *)
    intros (Wc & Hn) f insub semi s s' Y F Hsz. cbn [stmt_bg] in *. cbn [sz_stmt] in Hsz.
    destruct f as [|f]; [lia|]. rewrite p_stmt_S.
    assert (T : t_stmt (Stmt n c b) = t_stmt (Stmt n c false) ++ (if b then [TAmp] else [])).
    { cbn [t_stmt]. rewrite app_nil_r. rewrite app_assoc. reflexivity. }
    rewrite T in Y. rewrite <- app_assoc in Y.
    apply yields_app_inv in Y. destruct Y as (m & Ym & Y).
    (* what follows the statement proper *)
    assert (FM : exists tm sm, next_token m = Some (tm, sm) /\ np insub tm = true /\ is_andor_tok tm = false /\
                 (if b then tm = TAmp /\ sm = s'
                  else if semi then tm = TSemi /\ sm = s'
                  else m = s' /\ end_tok insub tm = true)).
    { destruct b.
      - rewrite andb_false_r in Y. simpl in Y. next_kw Y sm Em. apply yields_nil_inv in Y. subst sm.
        exists TAmp, s'. repeat split; auto.
      - rewrite andb_true_r in Y. destruct semi; simpl in Y.
        + next_kw Y sm Em. apply yields_nil_inv in Y. subst sm. exists TSemi, s'. repeat split; auto.
        + apply yields_nil_inv in Y. subst m. destruct (F eq_refl) as (tm & sm & Em & Hm).
          exists tm, sm. split; [exact Em|]. destruct tm; try discriminate; cbn in Hm; subst; repeat split; auto. }
    destruct FM as (tm & sm & Em & Hnp & Hao & Hcase).
    destruct (HC eq_refl (conj Wc Hn) 0%nat f insub s m Ym) as (f' & _ & EQ);
      [exists tm, sm; auto | cbn [sz_stmt]; lia |].
    unfold andor_from in EQ.
    destruct (p_head f insub s) as [[st s3]|] eqn:PH.
    + rewrite EQ. rewrite (p_andor_exit f' insub false (Stmt n c false) m tm sm Em); [|auto].
      rewrite Em. destruct b.
      * destruct Hcase as (-> & ->). rewrite orb_true_r. reflexivity.
      * destruct semi.
        -- destruct Hcase as (-> & ->). reflexivity.
        -- destruct Hcase as (-> & He). destruct tm; try discriminate; reflexivity.
    + rewrite (p_andor_exit f' insub false (Stmt n c false) m tm sm Em) in EQ; [discriminate|auto].
  - (* SNil *)
    intros _ f stops insub fin gotEnd s s' Hs Y _ (tstop & s2 & Es & Hst) _ Hsz.
    apply yields_nil_inv in Y. subst s'. cbn [sz_list] in Hsz. destruct f as [|f]; [lia|].
    cbn [p_stmts]. rewrite Es, Hst. reflexivity.
  - (* SCons *)
    intros x IHx rest IHr (Wx & Wr) f stops insub fin gotEnd s s' Hs Y Hge Hstop Hfin Hsz.
    destruct IHx as (_ & _ & _ & _ & Ex).
    cbn [t_list] in Y. apply yields_app_inv in Y. destruct Y as (m & Ym & Y).
    cbn [sz_list] in Hsz. destruct f as [|f]; [lia|].
    destruct (stmt_first x Wx) as (t & ts & Et & Hst).
    pose proof Ym as Y2. rewrite Et in Y2. cbn [app] in Y2. next_kw Y2 sx Ex2.
    pose proof (stmt_start_not_newl t Hst) as Hnl.
    cbn [p_stmts]. rewrite (got_newl_no s t sx Ex2 Hnl), (skip_newl_id s t sx Ex2 Hnl), Ex2.
    rewrite (stmt_start_not_stop stops insub t Hs Hst).
    rewrite (Hge ltac:(discriminate)). cbn [negb andb].
    rewrite (Ex Wx f insub (want_semi fin rest) s m Ym); [| |lia].
    + rewrite (IHr Wr f stops insub fin (want_semi fin rest || stmt_bg x) m s' Hs Y); auto; [|lia].
      intros Hne. destruct rest; [congruence|reflexivity].
    + intros Hno. apply orb_false_elim in Hno. destruct Hno as (Hw & _).
      destruct rest as [|r1 rr]; [|discriminate]. cbn [want_semi] in Hw. subst fin.
      cbn [t_list] in Y. apply yields_nil_inv in Y. subst m. apply Hfin. reflexivity.
  - (* NoElse *)
    intros _ f insub s s' Y Hsz. cbn [t_else] in Y. next_kw Y s1 E. apply yields_nil_inv in Y. subst s1.
    destruct f as [|f]; [cbn [sz_else] in Hsz; lia|]. cbn [p_else]. rewrite E. unfold K. cbn [is_rsrv]. kwred. reflexivity.
  - (* Elif *)
    intros cond IHc thn IHt els IHe (Hc & Ht & Wc & Wt & We) f insub s s' Y Hsz.
    cbn [t_else] in Y. next_kw Y s1 E. split_body Y cond Hc m Ym. next_kw Y s2 E2.
    split_body Y thn Ht m2 Ym2.
    cbn [sz_else] in Hsz. destruct f as [|f]; [lia|].
    assert (EL : exists tk ts, t_else els = K tk :: ts /\ In tk [kw_fi; kw_elif; kw_else]).
    { destruct els; cbn [t_else]; eexists _, _; (split; [reflexivity|]); simpl; auto. }
    destruct EL as (tk & tks & Etk & Hin). pose proof Y as Y3. rewrite Etk in Y3. next_kw Y3 s3 E3.
    assert (STK : stops_at [kw_fi; kw_elif; kw_else] insub (K tk) = true)
      by (destruct Hin as [<-|[<-|[<-|[]]]]; reflexivity).
    cbn [p_else]. rewrite E. unfold K. cbn [is_rsrv]. kwred.
    body cond IHc Wc Hc [kw_then] f insub true s1 m (K kw_then) s2.
    rewrite (expect_ok _ _ _ E2).
    body thn IHt Wt Ht [kw_fi; kw_elif; kw_else] f insub true s2 m2 (K tk) s3.
    rewrite (IHe We f insub m2 s' Y); [reflexivity|lia].
  - (* Else *)
    intros thn IHt (Ht & Wt) f insub s s' Y Hsz.
    cbn [t_else] in Y. next_kw Y s1 E. split_body Y thn Ht m Ym. next_kw Y s2 E2.
    apply yields_nil_inv in Y. subst s2.
    cbn [sz_else] in Hsz. destruct f as [|f]; [lia|].
    cbn [p_else]. rewrite E. unfold K. cbn [is_rsrv]. kwred.
    body thn IHt Wt Ht [kw_fi] f insub true s1 m (K kw_fi) s'.
    rewrite (expect_ok _ _ _ E2). reflexivity.
Qed.
