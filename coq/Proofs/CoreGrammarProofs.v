(* Proofs/CoreGrammarProofs.v — lemmas about Syntax/CoreGrammar.v *)
From Verif Require Import Base.Str Syntax.CoreGrammar.
From Coq Require Import Lia.

(* posErr marks an error Incomplete exactly when it is raised with the input
   exhausted inside an open statement *)
Lemma perr_incomplete_iff : forall (A : Type) o cur c p,
  incomplete (@perr A o cur c p) = true <-> cur = [] /\ 0 < o.
Proof.
  intros A o cur c p. unfold perr, incomplete. destruct cur as [|t r].
  - rewrite Nat.ltb_lt. split; [intro H; split; [reflexivity|exact H] | intros [_ H]; exact H].
  - split; [discriminate | intros [H _]; discriminate].
Qed.
