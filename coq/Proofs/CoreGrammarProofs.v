(* Proofs/CoreGrammarProofs.v — lemmas about Syntax/CoreGrammar.v *)
From Verif Require Import Base.Str Syntax.CoreGrammar.
From Coq Require Import Lia.

(* posErr marks an error Incomplete exactly when it is raised with the input
   exhausted inside an open statement *)
Lemma perr_incomplete_iff : forall (A : Type) o cur c p,
  incomplete (@perr A o cur c p) = true <-> cur = [] /\ 0 < o.
Proof.
  intros A o cur c p. unfold perr, incomplete. destruct cur as [|t r].
  - rewrite Nat.ltb_lt. split; [intro H; split; [reflexivity|exact H] | intros [_ H]; exact H].
  - split; [discriminate | intros [H _]; discriminate].
Qed.

(* ---------------------------------------------------------------------- *)
(* What a parsing function may return once the input is exhausted inside an
   open statement: success having consumed everything, an Incomplete error,
   or out of fuel.  [endp] says "consumed everything" for the value type. *)
Definition eof_ok {A} (endp : A -> Prop) (x : pres A) : Prop :=
  match x with POk v => endp v | PErr _ _ i => i = true | PFuel => True end.

Definition end_l (v : list token) : Prop := v = [].
Definition end_lb (v : list token * bool) : Prop := fst v = [].
(* option results: None = nothing found, legitimate only if the input was empty *)
Definition end_o (ts : list token) (v : option (list token)) : Prop :=
  match v with Some x => x = [] | None => ts = [] end.
Definition end_ob (ts : list token) (v : option (list token * bool)) : Prop :=
  match v with Some (x, _) => x = [] | None => ts = [] end.

Lemma eof_bind : forall A B (ea : A -> Prop) (eb : B -> Prop) (x : pres A) (k : A -> pres B),
  eof_ok ea x -> (forall a, ea a -> eof_ok eb (k a)) -> eof_ok eb (bind x k).
Proof. intros A B ea eb x k H K. destruct x; simpl in *; auto. Qed.

Lemma eof_all : forall px fuel,
  (forall o q stops ge any, eof_ok end_lb (stmts px fuel o q stops ge any [])) /\
  (forall o q re bc, eof_ok (end_ob []) (get_stmt px fuel (S o) q re bc [])) /\
  (forall o q re bc, eof_ok (end_ob []) (and_or px fuel (S o) q re bc [])) /\
  (forall o q ng bc sp, eof_ok (end_o []) (stmt_pipe px fuel (S o) q ng bc sp [])) /\
  (forall o q bc, eof_ok (end_o []) (pipe_loop px fuel (S o) q bc [])) /\
  (forall o q lpos stops, eof_ok end_l (follow_stmts px fuel (S o) q lpos stops [])) /\
  (forall o q t, eof_ok end_l (block px fuel (S o) q [t])) /\
  (forall o t, eof_ok end_l (subshell px fuel (S o) [t])) /\
  (forall o q t, eof_ok end_l (if_clause px fuel (S o) q [t])) /\
  (forall o q ipos, eof_ok end_l (elif_loop px fuel (S o) q ipos [])) /\
  (forall o q t, eof_ok end_l (while_clause px fuel (S o) q [t])) /\
  (forall o q t, eof_ok end_l (for_clause px fuel (S o) q [t])) /\
  (forall o q t, eof_ok end_l (case_clause px fuel (S o) q [t])) /\
  (forall o prev, eof_ok end_l (case_items px fuel (S o) prev [])) /\
  (forall o q npos, eof_ok end_l (func_decl px fuel (S o) q npos [])).
Proof.
  intros px fuel. induction fuel as [|f IH].
  - repeat apply conj; intros; exact I.
  - destruct IH as (Istmts & Iget & Iandor & Ipipe & Iploop & Ifollow & Iblock & Isub & Iif & Ielif & Iwhile & Ifor & Icase & Iitems & Ifunc).
    repeat apply conj; intros.
    + (* stmts *) simpl. reflexivity.
    + (* get_stmt *) simpl. eapply eof_bind; [apply Ipipe|].
      intros [x|] E; simpl in E; subst; [apply Iandor | reflexivity].
    + (* and_or *) simpl. destruct re; reflexivity.
    + (* stmt_pipe *) simpl. destruct f; simpl; auto.
    + (* pipe_loop *) simpl. reflexivity.
    + (* follow_stmts *) simpl. eapply eof_bind; [apply Istmts|].
      intros [x any] E. unfold end_lb in E. simpl in E. subst. destruct any; simpl; reflexivity.
    + (* block *) simpl. eapply eof_bind; [apply Ifollow|]. intros a E. unfold end_l in E. subst. reflexivity.
    + (* subshell *) simpl. eapply eof_bind; [apply Ifollow|]. intros a E. unfold end_l in E. subst. reflexivity.
    + (* if *) simpl. eapply eof_bind; [apply Ifollow|]. intros a E. unfold end_l in E. subst. reflexivity.
    + (* elif_loop *) simpl. reflexivity.
    + (* while *) simpl. eapply eof_bind; [apply Ifollow|]. intros a E. unfold end_l in E. subst. reflexivity.
    + (* for *) simpl. reflexivity.
    + (* case *) simpl. reflexivity.
    + (* case_items *) simpl. reflexivity.
    + (* func_decl *) simpl. eapply eof_bind; [apply Iget|].
      intros [[x b]|] E; simpl in E; subst; reflexivity.
Qed.

(* ---------------------------------------------------------------------- *)
(* Prefix lemmas: the run on ts ++ r versus the run on ts *)
Arguments do_redirect : simpl never.
Section Prefix.
  Variable r : list token.   (* what follows the cut *)

  (* relation between the result on [ts ++ r] (full) and on [ts] (pre):
     when the full run succeeds, the prefix run either went in lockstep and
     stopped at the same place strictly inside ts ([lock]), or it reached the end
     of ts: success with everything consumed, Incomplete error, or out of fuel *)
  Definition pre_g {A} (endp : A -> Prop) (lock : A -> A -> Prop) (full pre : pres A) : Prop :=
    match full with
    | POk v => (exists v', pre = POk v' /\ lock v v') \/ eof_ok endp pre
    | _ => True
    end.

  Definition lock_l (v v' : list token) : Prop := v' <> [] /\ v = v' ++ r.
  Definition lock_lb (v v' : list token * bool) : Prop :=
    fst v' <> [] /\ fst v = fst v' ++ r /\ snd v = snd v'.
  Definition lock_o (v v' : option (list token)) : Prop :=
    match v, v' with
    | None, None => True
    | Some x, Some x' => lock_l x x'
    | _, _ => False
    end.
  Definition lock_ob (v v' : option (list token * bool)) : Prop :=
    match v, v' with
    | None, None => True
    | Some x, Some x' => lock_lb x x'
    | _, _ => False
    end.

  Lemma pre_g_eof : forall A (e : A -> Prop) l full pre, eof_ok e pre -> pre_g e l full pre.
  Proof. intros. destruct full; simpl; auto. Qed.

  Lemma pre_g_bind : forall A B (ea : A -> Prop) la (eb : B -> Prop) lb (full pre : pres A) (kf kp : A -> pres B),
    pre_g ea la full pre ->
    (forall v v', la v v' -> pre_g eb lb (kf v) (kp v')) ->
    (forall a, ea a -> eof_ok eb (kp a)) ->
    pre_g eb lb (bind full kf) (bind pre kp).
  Proof.
    intros A B ea la eb lb full pre kf kp H K E.
    destruct full as [v| |]; simpl in *; auto.
    destruct H as [(v' & -> & L)|H].
    - simpl. apply K; assumption.
    - apply pre_g_eof. eapply eof_bind; eauto.
  Qed.

  Lemma get_word_app : forall t ts, get_word ((t :: ts) ++ r) =
    match get_word (t :: ts) with Some x => Some (x ++ r) | None => None end.
  Proof. intros t ts. simpl. destruct (is_litword t); [reflexivity|]. destruct t; reflexivity. Qed.

  Lemma get_lit_app : forall t ts, get_lit ((t :: ts) ++ r) =
    match get_lit (t :: ts) with Some x => Some (x ++ r) | None => None end.
  Proof. intros t ts. simpl. destruct (is_litword t); [reflexivity|]. destruct t; reflexivity. Qed.

  Notation pre_l := (pre_g end_l lock_l).

  Lemma lock_l_cons : forall t ts, lock_l ((t :: ts) ++ r) (t :: ts).
  Proof. intros. split; [discriminate|reflexivity]. Qed.

  Lemma pre_l_same : forall t ts, pre_l (POk ((t :: ts) ++ r)) (POk (t :: ts)).
  Proof. intros. left. eexists. split; [reflexivity|apply lock_l_cons]. Qed.

  (* a result that is the same suffix-extended list, possibly empty *)
  Lemma pre_l_any : forall x, pre_l (POk (x ++ r)) (POk x).
  Proof. intros [|t x]; [right; reflexivity | apply pre_l_same]. Qed.

  Lemma pre_do_redirect : forall o t ts,
    pre_l (do_redirect (S o) ((t :: ts) ++ r)) (do_redirect (S o) (t :: ts)).
  Proof.
    intros o t ts. unfold do_redirect. simpl app. destruct ts as [|t2 ts].
    - apply pre_g_eof. reflexivity.
    - change (t2 :: ts ++ r) with ((t2 :: ts) ++ r). rewrite get_word_app.
      destruct (get_word (t2 :: ts)) as [x|]; [apply pre_l_any | exact I].
  Qed.

  Lemma redirs_S : forall f o ts, redirs (S f) o ts =
    if peek_redir ts then bind (do_redirect o ts) (fun x => redirs f o x) else POk ts.
  Proof. reflexivity. Qed.

  Lemma redirs_nil : forall f o, eof_ok end_l (redirs f o []).
  Proof. intros [|f] o; simpl; [exact I | reflexivity]. Qed.

  Lemma pre_redirs : forall fuel o ts,
    pre_l (redirs fuel (S o) (ts ++ r)) (redirs fuel (S o) ts).
  Proof.
    induction fuel as [|f IH]; intros o ts; [exact I|].
    destruct ts as [|t ts]; [apply pre_g_eof; reflexivity|].
    rewrite !redirs_S. change (peek_redir ((t :: ts) ++ r)) with (peek_redir (t :: ts)).
    destruct (peek_redir (t :: ts)); [|apply pre_l_same].
    eapply pre_g_bind; [apply pre_do_redirect | |].
    - intros v v' [Hne ->]. apply IH.
    - intros a ->. apply redirs_nil.
  Qed.

  Lemma unexpected_is_err : forall A px o first ts, exists c p i, @unexpected_in_call A px o first ts = PErr c p i.
  Proof.
    intros. unfold unexpected_in_call, lerr, perr. destruct first as [a|]; [destruct (px && is_compound_kw a)|]; eauto.
  Qed.

  Lemma call_loop_nil : forall px f o q first, eof_ok end_l (call_loop px f o q first []).
  Proof. intros px [|f] o q first; simpl; [exact I | reflexivity]. Qed.

  Lemma pre_call_loop : forall px fuel o q first ts,
    pre_l (call_loop px fuel (S o) q first (ts ++ r)) (call_loop px fuel (S o) q first ts).
  Proof.
    induction fuel as [|f IH]; intros o q first ts; [exact I|].
    destruct ts as [|t ts]; [apply pre_g_eof; reflexivity|].
    simpl app. simpl call_loop.
    destruct (is_litword t); [apply IH|].
    assert (U : forall x, pre_l (@unexpected_in_call (list token) px (S o) first x) (unexpected_in_call px (S o) first (t :: ts))).
    { intro x. destruct (unexpected_is_err (list token) px (S o) first x) as (c & p & i & ->). exact I. }
    assert (R : forall t0, pre_l (bind (do_redirect (S o) ((t0 :: ts) ++ r)) (fun r' => call_loop px f (S o) q first r'))
                                 (bind (do_redirect (S o) (t0 :: ts)) (fun r' => call_loop px f (S o) q first r'))).
    { intro t0. eapply pre_g_bind; [apply (pre_do_redirect o t0 ts) | |].
      - intros v v' [Hne ->]. apply IH.
      - intros a ->. apply call_loop_nil. }
    destruct t; try apply IH; try apply (pre_l_same _ ts); try apply U; try apply R.
    destruct q; try apply (pre_l_same _ ts); apply U.
  Qed.

  Lemma pre_got_newl : forall y, pre_l (POk (got_newl (y ++ r))) (POk (got_newl y)).
  Proof.
    intros [|t x]; [right; reflexivity|].
    destruct t; try apply (pre_l_same _ x). simpl. apply pre_l_any.
  Qed.

  Lemma word_list_S : forall f o ts, word_list (S f) o ts =
    if stop_token ts then POk ts
    else match get_word ts with Some x => word_list f o x | None => perr o ts EWordList (length ts) end.
  Proof. reflexivity. Qed.

  Lemma pre_word_list : forall fuel o ts,
    pre_l (word_list fuel (S o) (ts ++ r)) (word_list fuel (S o) ts).
  Proof.
    induction fuel as [|f IH]; intros o ts; [exact I|].
    destruct ts as [|t ts]; [apply pre_g_eof; reflexivity|].
    rewrite !word_list_S. change (stop_token ((t :: ts) ++ r)) with (stop_token (t :: ts)).
    destruct (stop_token (t :: ts)); [apply pre_l_same|].
    rewrite get_word_app. destruct (get_word (t :: ts)) as [x|]; [apply IH | exact I].
  Qed.

  Lemma pats_loop_S : forall f o prev ts, pats_loop (S f) o prev ts =
    match ts with
    | [] => POk []
    | _ => match get_word ts with
           | None => perr o ts ECasePatWords (cur_pos prev ts)
           | Some x => match x with
                       | TRparen :: _ => POk x
                       | TPipe :: r2 => pats_loop f o (length x) r2
                       | _ => perr o x ECasePatSep (cur_pos (length ts) x)
                       end
           end
    end.
  Proof. reflexivity. Qed.

  Lemma pre_pats_loop : forall fuel o prev prev' ts,
    pre_l (pats_loop fuel (S o) prev (ts ++ r)) (pats_loop fuel (S o) prev' ts).
  Proof.
    induction fuel as [|f IH]; intros o prev prev' ts; [exact I|].
    destruct ts as [|t ts]; [apply pre_g_eof; reflexivity|].
    rewrite !pats_loop_S. simpl app at 1.
    change (t :: ts ++ r) with ((t :: ts) ++ r). rewrite get_word_app.
    destruct (get_word (t :: ts)) as [x|]; [|exact I].
    destruct x as [|t1 x]; [apply pre_g_eof; reflexivity|].
    simpl app. destruct t1; try exact I.
    - apply IH.
    - apply (pre_l_same TRparen x).
  Qed.

  Lemma word_list_nil : forall f o, eof_ok end_l (word_list f o []).
  Proof. intros [|f] o; simpl; [exact I|reflexivity]. Qed.

  Lemma pre_word_iter : forall fuel o fpos fpos' ts,
    pre_l (word_iter fuel (S o) fpos (ts ++ r)) (word_iter fuel (S o) fpos' ts).
  Proof.
    intros fuel o fpos fpos' ts. unfold word_iter.
    destruct ts as [|t ts]; [apply pre_g_eof; reflexivity|].
    rewrite get_lit_app. destruct (get_lit (t :: ts)) as [x|]; [|exact I].
    assert (W : forall y, pre_l
      (bind (word_list fuel (S o) (y ++ r)) (fun r4 => let r5 := match r4 with TSemi :: x => x | _ => r4 end in POk (got_newl r5)))
      (bind (word_list fuel (S o) y) (fun r4 => let r5 := match r4 with TSemi :: x => x | _ => r4 end in POk (got_newl r5)))).
    { intro y. eapply pre_g_bind; [apply pre_word_list| |].
      - intros v v' [Hne ->]. destruct v' as [|t1 v']; [congruence|]. cbv zeta.
        destruct t1; try apply (pre_got_newl (_ :: v')). simpl app. apply pre_got_newl.
      - intros a ->. reflexivity. }
    destruct x as [|t1 x]; [apply pre_g_eof; reflexivity|].
    simpl app.
    destruct t1; try exact I.
    - (* TDo *) apply (pre_l_same TDo x).
    - (* TIn *) apply W.
    - (* TSemi *) apply pre_got_newl.
    - (* TNewl *) simpl got_newl. destruct x as [|t2 x]; [apply pre_g_eof; reflexivity|].
      simpl app. destruct t2; try exact I.
      + apply (pre_l_same TDo x).
      + apply W.
  Qed.
End Prefix.

(* ---------------------------------------------------------------------- *)
(* Prefix lemma for the statement loop (one unfolding step, given the lemma for getStmt) *)
Arguments redirs : simpl never.
Arguments call_loop : simpl never.
Arguments word_iter : simpl never.
Arguments pats_loop : simpl never.
Arguments bind : simpl never.
Arguments perr : simpl never.
Arguments lerr : simpl never.

Section Prefix2.
  Variable r : list token.
  Notation pre_l := (pre_g end_l (lock_l r)).
  Notation pre_lb := (pre_g end_lb (lock_lb r)).
  Notation pre_o ts := (pre_g (end_o ts) (lock_o r)).
  Notation pre_ob ts := (pre_g (end_ob ts) (lock_ob r)).

  Lemma pre_perr : forall A e l o x c p pre, pre_g e l (@perr A o x c p) pre.
  Proof. intros. unfold perr. exact I. Qed.
  Lemma pre_lerr : forall A e l c p pre, pre_g e l (@lerr A c p) pre.
  Proof. intros. unfold lerr. exact I. Qed.
  Lemma eof_perr : forall A e o c p, eof_ok e (@perr A (S o) [] c p).
  Proof. intros. unfold perr. reflexivity. Qed.

  (* stmts *)
  Definition stmts_tail px f o q stops (ge any nl : bool) (ts1 : list token) : pres (list token * bool) :=
    match (match ts1 with
           | t :: _ =>
               if is_litword t then
                 if in_stops stops t then Some (POk (ts1, any))
                 else match t with TRbrace => Some (perr o ts1 ERbraceClose (length ts1)) | _ => None end
               else match t with
                    | TRparen => if is_quote_sub q then Some (POk (ts1, any)) else None
                    | TDSemi => if is_quote_case q then Some (POk (ts1, any)) else Some (perr o ts1 EDSemiCase (length ts1))
                    | _ => None
                    end
           | [] => None
           end) with
    | Some y => y
    | None =>
        if negb nl && negb ge then perr o ts1 ESep (length ts1)
        else match ts1 with
             | [] => POk ([], any)
             | t :: _ => bind (get_stmt px f (S o) q true false ts1) (fun v =>
                         match v with
                         | None => perr o ts1 (invalid_start_code t) (length ts1)
                         | Some (r0, semi) => stmts px f o q stops semi true r0
                         end)
             end
    end.

  Lemma stmts_S : forall px f o q stops ge any t ts,
    stmts px (S f) o q stops ge any (t :: ts) =
    stmts_tail px f o q stops ge any (match t with TNewl => true | _ => false end) (got_newl (t :: ts)).
  Proof. intros. destruct t; reflexivity. Qed.

  Lemma pre_stmts_tail : forall px f,
    (forall o q re bc ts, pre_ob ts (get_stmt px f (S o) q re bc (ts ++ r)) (get_stmt px f (S o) q re bc ts)) ->
    (forall o q stops ge any ts, pre_lb (stmts px f o q stops ge any (ts ++ r)) (stmts px f o q stops ge any ts)) ->
    forall o q stops ge any nl t1 x,
      pre_lb (stmts_tail px f o q stops ge any nl ((t1 :: x) ++ r)) (stmts_tail px f o q stops ge any nl (t1 :: x)).
  Proof.
    intros px f Iget Istmts o q stops ge any nl t1 x.
    unfold stmts_tail. simpl.
    assert (LK : pre_lb (POk (t1 :: x ++ r, any)) (POk (t1 :: x, any))).
    { left. eexists. split; [reflexivity|]. repeat split. discriminate. }
    set (G1 := if negb nl && negb ge then _ else _).
    set (G2 := if negb nl && negb ge then _ else _).
    assert (G : pre_lb G1 G2).
    { subst G1 G2. destruct (negb nl && negb ge); [apply pre_perr|].
      eapply pre_g_bind; [apply (Iget o q true false (t1 :: x))| |].
      - intros v v' L. destruct v as [[a b]|], v' as [[a' b']|]; simpl in L; try contradiction.
        + destruct L as (Hne & E1 & E2). simpl in *. subst. apply Istmts.
        + apply pre_perr.
      - intros [[a b]|] E; simpl in E; [subst | discriminate].
        apply (proj1 (eof_all px f)). }
    clearbody G1 G2.
    destruct (is_litword t1).
    - destruct (in_stops stops t1); [exact LK|]. destruct t1; try exact G; apply pre_perr.
    - destruct t1; try exact G.
      + destruct (is_quote_sub q); [exact LK | exact G].
      + destruct (is_quote_case q); [exact LK | apply pre_perr].
  Qed.

  Lemma pre_stmts_step : forall px f,
    (forall o q re bc ts, pre_ob ts (get_stmt px f (S o) q re bc (ts ++ r)) (get_stmt px f (S o) q re bc ts)) ->
    (forall o q stops ge any ts, pre_lb (stmts px f o q stops ge any (ts ++ r)) (stmts px f o q stops ge any ts)) ->
    forall o q stops ge any ts, pre_lb (stmts px (S f) o q stops ge any (ts ++ r)) (stmts px (S f) o q stops ge any ts).
  Proof.
    intros px f Iget Istmts o q stops ge any ts.
    destruct ts as [|t ts]; [apply pre_g_eof; reflexivity|].
    simpl app. rewrite !stmts_S.
    destruct (token_eq_dec t TNewl) as [->|N].
    - simpl got_newl. destruct ts as [|t2 ts]; [apply pre_g_eof; reflexivity|].
      apply (pre_stmts_tail px f Iget Istmts).
    - assert (E1 : forall y, got_newl (t :: y) = t :: y) by (intro y; destruct t; try reflexivity; congruence).
      rewrite !E1. apply (pre_stmts_tail px f Iget Istmts o q stops ge any _ t ts).
  Qed.
End Prefix2.

(* ---------------------------------------------------------------------- *)
(* Inductive steps of the mutual prefix lemma: P<fn> (S f) from the P's at f.
   stmts (above), follow_stmts, block, subshell, while, elif, if, func_decl, and_or, pipe_loop, get_stmt here;
   for_clause, case_items, case_clause, stmt_pipe (gotStmtPipe) and the assembly in Section P4 below. *)
Section P3.
  Variable r : list token.
  Variable px : bool.
  Notation pre_l := (pre_g end_l (lock_l r)).
  Notation pre_lb := (pre_g end_lb (lock_lb r)).
  Notation pre_o ts := (pre_g (end_o ts) (lock_o r)).
  Notation pre_ob ts := (pre_g (end_ob ts) (lock_ob r)).

  Definition Pstmts f := forall o q stops ge any ts, pre_lb (stmts px f o q stops ge any (ts ++ r)) (stmts px f o q stops ge any ts).
  Definition Pget f := forall o q re bc ts, pre_ob ts (get_stmt px f (S o) q re bc (ts ++ r)) (get_stmt px f (S o) q re bc ts).
  Definition Pandor f := forall o q re bc ts, pre_ob ts (and_or px f (S o) q re bc (ts ++ r)) (and_or px f (S o) q re bc ts).
  Definition Ppipe f := forall o q ng bc sp sp' ts, pre_o ts (stmt_pipe px f (S o) q ng bc sp (ts ++ r)) (stmt_pipe px f (S o) q ng bc sp' ts).
  Definition Pploop f := forall o q bc ts, pre_o ts (pipe_loop px f (S o) q bc (ts ++ r)) (pipe_loop px f (S o) q bc ts).
  Definition Pfollow f := forall o q lpos lpos' stops ts, pre_l (follow_stmts px f (S o) q lpos stops (ts ++ r)) (follow_stmts px f (S o) q lpos' stops ts).
  Definition Pblock f := forall o q t ts, pre_l (block px f (S o) q ((t :: ts) ++ r)) (block px f (S o) q (t :: ts)).
  Definition Psub f := forall o t ts, pre_l (subshell px f (S o) ((t :: ts) ++ r)) (subshell px f (S o) (t :: ts)).
  Definition Pif f := forall o q t ts, pre_l (if_clause px f (S o) q ((t :: ts) ++ r)) (if_clause px f (S o) q (t :: ts)).
  Definition Pelif f := forall o q ipos ipos' ts, pre_l (elif_loop px f (S o) q ipos (ts ++ r)) (elif_loop px f (S o) q ipos' ts).
  Definition Pwhile f := forall o q t ts, pre_l (while_clause px f (S o) q ((t :: ts) ++ r)) (while_clause px f (S o) q (t :: ts)).
  Definition Pfor f := forall o q t ts, pre_l (for_clause px f (S o) q ((t :: ts) ++ r)) (for_clause px f (S o) q (t :: ts)).
  Definition Pcase f := forall o q t ts, pre_l (case_clause px f (S o) q ((t :: ts) ++ r)) (case_clause px f (S o) q (t :: ts)).
  Definition Pitems f := forall o prev prev' ts, pre_l (case_items px f (S o) prev (ts ++ r)) (case_items px f (S o) prev' ts).
  Definition Pfunc f := forall o q npos npos' ts, pre_l (func_decl px f (S o) q npos (ts ++ r)) (func_decl px f (S o) q npos' ts).

  Lemma bind_POk : forall A B (a : A) (k : A -> pres B), bind (POk a) k = k a.
  Proof. reflexivity. Qed.

  Lemma bind_perr : forall A B o x c p (k : A -> pres B), bind (perr o x c p) k = perr o x c p.
  Proof. reflexivity. Qed.

  Ltac eofr := cbv [eof_ok end_l end_lb end_o end_ob fst]; try reflexivity.

  Lemma pre_l_lock : forall t x, pre_l (POk ((t :: x) ++ r)) (POk (t :: x)).
  Proof. intros. left. eexists. split; [reflexivity|]. split; [discriminate|reflexivity]. Qed.

  (* closing-token continuation: match r1 with T :: r2 => POk r2 | _ => perr *)
  Lemma follow_S : forall f o q lpos stops ts, follow_stmts px (S f) o q lpos stops ts =
    match ts with
    | TSemi :: r0 => perr o r0 EFollowStmts lpos
    | _ => bind (stmts px f o q stops true false ts) (fun v => let '(r0, any) := v in if any then POk r0 else perr o r0 EFollowStmts lpos)
    end.
  Proof. reflexivity. Qed.

  Lemma step_follow : forall f, Pstmts f -> Pfollow (S f).
  Proof.
    intros f Is o q lpos lpos' stops ts.
    destruct ts as [|t ts]; [apply pre_g_eof; apply (proj1 (proj2 (proj2 (proj2 (proj2 (proj2 (eof_all px (S f)))))))) |].
    rewrite !follow_S. simpl app.
    assert (G : pre_l
      (bind (stmts px f (S o) q stops true false ((t :: ts) ++ r)) (fun v => let '(r0, any) := v in if any then POk r0 else perr (S o) r0 EFollowStmts lpos))
      (bind (stmts px f (S o) q stops true false (t :: ts)) (fun v => let '(r0, any) := v in if any then POk r0 else perr (S o) r0 EFollowStmts lpos'))).
    { eapply pre_g_bind; [apply Is| |].
      - intros [a b] [a' b'] (Hne & E1 & E2). simpl in *. subst. destruct b'; [|apply pre_perr].
        destruct a' as [|t1 a']; [congruence|]. apply pre_l_lock.
      - intros [a b] E. unfold end_lb in E. simpl in E. subst. destruct b; eofr. }
    destruct t; try exact G. apply pre_perr.
  Qed.

  Lemma block_S : forall f o q ts, block px (S f) o q ts =
    bind (follow_stmts px f o q (length ts) [TRbrace] (tl ts)) (fun r1 =>
      match r1 with TRbrace :: r2 => POk r2 | _ => perr o r1 EMatch (length ts) end).
  Proof. reflexivity. Qed.

  Lemma step_block : forall f, Pfollow f -> Pblock (S f).
  Proof.
    intros f If o q t ts. rewrite !block_S. simpl tl.
    eapply pre_g_bind; [apply If| |].
    - intros v v' [Hne ->]. destruct v' as [|t1 y]; [congruence|]. simpl app.
      destruct t1; try apply pre_perr. apply pre_l_any.
    - intros a ->. apply eof_perr.
  Qed.

  Lemma subshell_S : forall f o ts, subshell px (S f) o ts =
    bind (follow_stmts px f o QSub (length ts) [] (tl ts)) (fun r1 =>
      match r1 with TRparen :: r2 => POk r2 | _ => perr o r1 EMatch (length ts) end).
  Proof. reflexivity. Qed.

  Lemma step_sub : forall f, Pfollow f -> Psub (S f).
  Proof.
    intros f If o t ts. rewrite !subshell_S. simpl tl.
    eapply pre_g_bind; [apply If| |].
    - intros v v' [Hne ->]. destruct v' as [|t1 y]; [congruence|]. simpl app.
      destruct t1; try apply pre_perr. apply pre_l_any.
    - intros a ->. apply eof_perr.
  Qed.

  Lemma while_S : forall f o q ts, while_clause px (S f) o q ts =
    bind (follow_stmts px f o q (length ts) [TDo] (tl ts)) (fun r1 =>
      match r1 with
      | TDo :: r2 => bind (follow_stmts px f o q (length r1) [TDone] r2) (fun r3 =>
                       match r3 with TDone :: r4 => POk r4 | _ => perr o r3 EStmtEnd (length ts) end)
      | _ => perr o r1 EFollowRsrv (length ts)
      end).
  Proof. reflexivity. Qed.

  Lemma eof_follow : forall f o q lpos stops, eof_ok end_l (follow_stmts px f (S o) q lpos stops []).
  Proof. intros. apply (proj1 (proj2 (proj2 (proj2 (proj2 (proj2 (eof_all px f))))))). Qed.

  Lemma step_while : forall f, Pfollow f -> Pwhile (S f).
  Proof.
    intros f If o q t ts. rewrite !while_S. simpl tl.
    eapply pre_g_bind; [apply If| |].
    - intros v v' [Hne ->]. destruct v' as [|t1 y]; [congruence|]. simpl app.
      destruct t1; try apply pre_perr.
      eapply pre_g_bind; [apply If| |].
      + intros v v' [Hne2 ->]. destruct v' as [|t2 z]; [congruence|]. simpl app.
        destruct t2; try apply pre_perr. apply pre_l_any.
      + intros a ->. apply eof_perr.
    - intros a ->. apply eof_perr.
  Qed.

  Lemma elif_S : forall f o q ipos ts, elif_loop px (S f) o q ipos ts =
    match ts with
    | TElif :: r0 =>
        bind (follow_stmts px f o q (length ts) [TThen] r0) (fun r1 =>
        match r1 with
        | TThen :: r2 => bind (follow_stmts px f o q (length r1) [TFi; TElif; TElse] r2) (fun r3 => elif_loop px f o q ipos r3)
        | _ => perr o r1 EFollowRsrv (length ts)
        end)
    | _ =>
        bind (match ts with TElse :: r0 => follow_stmts px f o q (length ts) [TFi] r0 | _ => POk ts end) (fun r5 =>
        match r5 with TFi :: r6 => POk r6 | _ => perr o r5 EStmtEnd ipos end)
    end.
  Proof. intros. destruct ts as [|[] ?]; reflexivity. Qed.

  Lemma eof_elif : forall f o q ipos, eof_ok end_l (elif_loop px f (S o) q ipos []).
  Proof. intros. apply (proj1 (proj2 (proj2 (proj2 (proj2 (proj2 (proj2 (proj2 (proj2 (proj2 (eof_all px f))))))))))). Qed.

  Lemma step_elif : forall f, Pfollow f -> Pelif f -> Pelif (S f).
  Proof.
    intros f If Ie o q ipos ipos' ts.
    destruct ts as [|t ts]; [apply pre_g_eof; apply eof_elif|].
    rewrite !elif_S. simpl app.
    assert (FI : forall y, pre_l
       (match y ++ r with TFi :: r6 => POk r6 | _ => perr (S o) (y ++ r) EStmtEnd ipos end)
       (match y with TFi :: r6 => POk r6 | _ => perr (S o) y EStmtEnd ipos' end) \/ y = []).
    { intros [|t1 y]; [right; reflexivity|left]. simpl app. destruct t1; try apply pre_perr. apply pre_l_any. }
    destruct t; simpl.
    all: try exact I.
    all: try (rewrite !bind_POk; destruct (FI (_ :: ts)) as [H|H]; [exact H|discriminate]).
    - (* TElif *)
      eapply pre_g_bind; [apply If| |].
      + intros v v' [Hne ->]. destruct v' as [|t1 y]; [congruence|]. simpl app.
        destruct t1; try apply pre_perr.
        eapply pre_g_bind; [apply If| |].
        * intros v v' [Hne2 ->]. apply Ie.
        * intros a ->. apply eof_elif.
      + intros a ->. apply eof_perr.
    - (* TElse *)
      eapply pre_g_bind; [apply If| |].
      + intros v v' [Hne ->]. destruct (FI v') as [H|H]; [exact H|congruence].
      + intros a ->. apply eof_perr.
    - rewrite bind_POk. destruct ts as [|t1 y]; [right; reflexivity|]. left. eexists. split; [reflexivity|]. split; [discriminate|reflexivity].
  Qed.

  Lemma if_S : forall f o q ts, if_clause px (S f) o q ts =
    bind (follow_stmts px f o q (length ts) [TThen] (tl ts)) (fun r1 =>
      match r1 with
      | TThen :: r2 => bind (follow_stmts px f o q (length r1) [TFi; TElif; TElse] r2) (fun r3 => elif_loop px f o q (length ts) r3)
      | _ => perr o r1 EFollowRsrv (length ts)
      end).
  Proof. reflexivity. Qed.

  Lemma step_if : forall f, Pfollow f -> Pelif f -> Pif (S f).
  Proof.
    intros f If Ie o q t ts. rewrite !if_S. simpl tl.
    eapply pre_g_bind; [apply If| |].
    - intros v v' [Hne ->]. destruct v' as [|t1 y]; [congruence|]. simpl app.
      destruct t1; try apply pre_perr.
      eapply pre_g_bind; [apply If| |].
      + intros v v' [Hne2 ->]. apply Ie.
      + intros a ->. apply eof_elif.
    - intros a ->. apply eof_perr.
  Qed.

  Lemma func_S : forall f o q npos ts, func_decl px (S f) o q npos ts =
    bind (get_stmt px f o q false false (got_newl ts)) (fun v =>
      match v with None => perr o (got_newl ts) EFuncBody npos | Some (r2, _) => POk r2 end).
  Proof. reflexivity. Qed.

  Lemma eof_func : forall f o q npos, eof_ok end_l (func_decl px f (S o) q npos []).
  Proof. intros. apply (proj2 (proj2 (proj2 (proj2 (proj2 (proj2 (proj2 (proj2 (proj2 (proj2 (proj2 (proj2 (proj2 (proj2 (eof_all px f))))))))))))))). Qed.

  Lemma step_func : forall f, Pget f -> Pfunc (S f).
  Proof.
    intros f Ig o q npos npos' ts.
    destruct ts as [|t ts]; [apply pre_g_eof; apply eof_func|].
    rewrite !func_S.
    assert (G : forall y, pre_l
      (bind (get_stmt px f (S o) q false false (y ++ r)) (fun v => match v with None => perr (S o) (y ++ r) EFuncBody npos | Some (r2, _) => POk r2 end))
      (bind (get_stmt px f (S o) q false false y) (fun v => match v with None => perr (S o) y EFuncBody npos' | Some (r2, _) => POk r2 end))).
    { intro y. eapply pre_g_bind; [apply Ig| |].
      - intros [[a b]|] [[a' b']|] L; simpl in L; try contradiction; [|apply pre_perr].
        destruct L as (Hne & E1 & E2). simpl in *. subst. destruct a' as [|t1 a']; [congruence|]. apply pre_l_lock.
      - intros [[a b]|] E; simpl in E; subst; [eofr | apply eof_perr]. }
    destruct (token_eq_dec t TNewl) as [->|N].
    - simpl got_newl. destruct ts as [|t2 ts].
      + apply pre_g_eof. eapply eof_bind; [apply (proj1 (proj2 (eof_all px f)))|]. intros [[a b]|] E; simpl in E; subst; [eofr | apply eof_perr].
      + apply G.
    - assert (E1 : forall y, got_newl (t :: y) = t :: y) by (intro y; destruct t; try reflexivity; congruence).
      simpl app. rewrite !E1. apply (G (t :: ts)).
  Qed.

  (* ---------- option-valued functions ---------- *)
  Lemma pre_ob_any : forall ts y b, pre_ob ts (POk (Some (y ++ r, b))) (POk (Some (y, b))).
  Proof.
    intros ts [|t y] b; [right; reflexivity|]. left. eexists. split; [reflexivity|]. simpl. repeat split. discriminate.
  Qed.
  Lemma pre_o_any : forall ts y, pre_o ts (POk (Some (y ++ r))) (POk (Some y)).
  Proof.
    intros ts [|t y]; [right; reflexivity|]. left. eexists. split; [reflexivity|]. simpl. split; [discriminate|reflexivity].
  Qed.

  Lemma and_or_some : forall f o q re bc ts, and_or px f o q re bc ts <> POk None.
  Proof.
    induction f as [|f IH]; intros o q re bc ts; [discriminate|].
    simpl. destruct ts as [|t x]; [destruct re; discriminate|].
    assert (D : (if re then match t :: x with (TSemi | TAmp) :: r0 => POk (Some (r0, true)) | _ => POk (Some (t :: x, false)) end
                 else POk (Some (t :: x, false))) <> POk None).
    { destruct re; [destruct t|]; discriminate. }
    destruct t; try exact D; destruct bc; try discriminate;
      (unfold bind; destruct (get_stmt px f o q false true (got_newl x)) as [[[a b]|]| |]; try (unfold perr; discriminate); try apply IH).
  Qed.

  Lemma pipe_loop_some : forall f o q bc ts, pipe_loop px f o q bc ts <> POk None.
  Proof.
    induction f as [|f IH]; intros o q bc ts; [discriminate|].
    simpl. destruct ts as [|t x]; [discriminate|].
    destruct t; try discriminate. destruct bc; [discriminate|].
    unfold bind. destruct (stmt_pipe px f o q false true (length (got_newl x)) (got_newl x)) as [[a|]| |]; try (unfold perr; discriminate); try apply IH.
  Qed.

  (* end_ob / end_o do not depend on the input when the value is not None *)
  Lemma eof_ob_some : forall ts ts' (x : pres (option (list token * bool))), x <> POk None -> eof_ok (end_ob ts) x -> eof_ok (end_ob ts') x.
  Proof. intros ts ts' [[v|]| |] N H; simpl in *; auto. congruence. Qed.
  Lemma eof_o_some : forall ts ts' (x : pres (option (list token))), x <> POk None -> eof_ok (end_o ts) x -> eof_ok (end_o ts') x.
  Proof. intros ts ts' [[v|]| |] N H; simpl in *; auto. congruence. Qed.
  Lemma pre_ob_some : forall ts ts' full pre, pre <> POk None -> pre_ob ts full pre -> pre_ob ts' full pre.
  Proof. intros ts ts' [v| |] pre N H; simpl in *; auto. destruct H as [H|H]; [left; exact H|right; eapply eof_ob_some; eauto]. Qed.
  Lemma pre_o_some : forall ts ts' full pre, pre <> POk None -> pre_o ts full pre -> pre_o ts' full pre.
  Proof. intros ts ts' [v| |] pre N H; simpl in *; auto. destruct H as [H|H]; [left; exact H|right; eapply eof_o_some; eauto]. Qed.

  Lemma eof_andor : forall f o q re bc ts', eof_ok (end_ob ts') (and_or px f (S o) q re bc []).
  Proof. intros. eapply eof_ob_some; [apply and_or_some|]. apply (proj1 (proj2 (proj2 (eof_all px f)))). Qed.
  Lemma eof_ploop : forall f o q bc ts', eof_ok (end_o ts') (pipe_loop px f (S o) q bc []).
  Proof. intros. eapply eof_o_some; [apply pipe_loop_some|]. apply (proj1 (proj2 (proj2 (proj2 (proj2 (eof_all px f)))))). Qed.
  Lemma eof_get : forall f o q re bc, eof_ok (end_ob []) (get_stmt px f (S o) q re bc []).
  Proof. intros. apply (proj1 (proj2 (eof_all px f))). Qed.
  Lemma eof_pipe : forall f o q ng bc sp, eof_ok (end_o []) (stmt_pipe px f (S o) q ng bc sp []).
  Proof. intros. apply (proj1 (proj2 (proj2 (proj2 (eof_all px f))))). Qed.

  Lemma and_or_S : forall f o q re bc ts, and_or px (S f) o q re bc ts =
    match ts with
    | (TAndAnd | TOrOr) :: r0 =>
        if bc then POk (Some (ts, false))
        else bind (get_stmt px f o q false true (got_newl r0)) (fun v =>
             match v with None => perr o (got_newl r0) EAfterOp (length ts) | Some (r2, _) => and_or px f o q re bc r2 end)
    | _ => if re then match ts with (TSemi | TAmp) :: r0 => POk (Some (r0, true)) | _ => POk (Some (ts, false)) end
           else POk (Some (ts, false))
    end.
  Proof. intros. destruct ts as [|[] ?]; reflexivity. Qed.

  Lemma got_newl_cases : forall x, (got_newl x = [] /\ (x = [] \/ x = [TNewl])) \/
                                   (exists t y, got_newl x = t :: y /\ got_newl (x ++ r) = (t :: y) ++ r).
  Proof.
    intros [|t x]; [left; split; [reflexivity|left; reflexivity]|].
    destruct (token_eq_dec t TNewl) as [->|N].
    - simpl. destruct x as [|t2 y]; [left; split; [reflexivity|right; reflexivity]|]. right. exists t2, y. split; reflexivity.
    - right. exists t, x. assert (E1 : forall y, got_newl (t :: y) = t :: y) by (intro y; destruct t; try reflexivity; congruence).
      simpl app. rewrite !E1. split; reflexivity.
  Qed.

  Lemma step_andor : forall f, Pget f -> Pandor f -> Pandor (S f).
  Proof.
    intros f Ig Ia o q re bc ts.
    destruct ts as [|t x]; [apply pre_g_eof; apply (proj1 (proj2 (proj2 (eof_all px (S f)))))|].
    rewrite !and_or_S. simpl app.
    assert (LK : pre_ob (t :: x) (POk (Some (t :: x ++ r, false))) (POk (Some (t :: x, false)))).
    { apply (pre_ob_any (t :: x) (t :: x) false). }
    assert (OP : forall n n', pre_ob (t :: x)
       (bind (get_stmt px f (S o) q false true (got_newl (x ++ r))) (fun v =>
             match v with None => perr (S o) (got_newl (x ++ r)) EAfterOp n | Some (r2, _) => and_or px f (S o) q re bc r2 end))
       (bind (get_stmt px f (S o) q false true (got_newl x)) (fun v =>
             match v with None => perr (S o) (got_newl x) EAfterOp n' | Some (r2, _) => and_or px f (S o) q re bc r2 end))).
    { intros n n'. destruct (got_newl_cases x) as [[E _]|(t1 & y & E1 & E2)].
      - rewrite E. apply pre_g_eof. eapply eof_bind; [apply eof_get|].
        intros [[a b]|] H; simpl in H; subst; [apply eof_andor | apply eof_perr].
      - rewrite E1, E2. eapply pre_g_bind; [apply Ig| |].
        + intros [[a b]|] [[a' b']|] L; simpl in L; try contradiction; [|apply pre_perr].
          destruct L as (Hne & H1 & H2). simpl in *. subst. eapply pre_ob_some; [apply and_or_some | apply Ia].
        + intros [[a b]|] H; simpl in H; [subst; apply eof_andor | discriminate]. }
    destruct t; try (destruct re; exact LK).
    - (* TSemi *) destruct re; [apply pre_ob_any | exact LK].
    - (* TAmp *) destruct re; [apply pre_ob_any | exact LK].
    - (* TAndAnd *) destruct bc; [exact LK | apply OP].
    - (* TOrOr *) destruct bc; [exact LK | apply OP].
  Qed.

  Lemma pipe_loop_S : forall f o q bc ts, pipe_loop px (S f) o q bc ts =
    match ts with
    | TPipe :: r0 =>
        if bc then POk (Some ts)
        else bind (stmt_pipe px f o q false true (length (got_newl r0)) (got_newl r0)) (fun v =>
             match v with None => perr o (got_newl r0) EAfterOp (length ts) | Some r2 => pipe_loop px f o q bc r2 end)
    | _ => POk (Some ts)
    end.
  Proof. intros. destruct ts as [|[] ?]; reflexivity. Qed.

  Lemma step_ploop : forall f, Ppipe f -> Pploop f -> Pploop (S f).
  Proof.
    intros f Ip Il o q bc ts.
    destruct ts as [|t x]; [apply pre_g_eof; apply (proj1 (proj2 (proj2 (proj2 (proj2 (eof_all px (S f)))))))|].
    rewrite !pipe_loop_S. simpl app.
    assert (LK : pre_o (t :: x) (POk (Some (t :: x ++ r))) (POk (Some (t :: x)))).
    { apply (pre_o_any (t :: x) (t :: x)). }
    destruct t; try exact LK.
    destruct bc; [exact LK|].
    destruct (got_newl_cases x) as [[E _]|(t1 & y & E1 & E2)].
    - rewrite E. apply pre_g_eof. eapply eof_bind; [apply eof_pipe|].
      intros [a|] H; simpl in H; subst; [apply eof_ploop | apply eof_perr].
    - rewrite E1, E2. eapply pre_g_bind; [apply Ip| |].
      + intros [a|] [a'|] L; simpl in L; try contradiction; [|apply pre_perr].
        destruct L as (Hne & ->). eapply pre_o_some; [apply pipe_loop_some | apply Il].
      + intros [a|] H; simpl in H; [subst; apply eof_ploop | discriminate].
  Qed.

  Lemma get_stmt_S : forall f o q re bc ts, get_stmt px (S f) o q re bc ts =
    bind (match ts with
          | TBang :: r0 =>
              if stop_token r0 then perr o r0 EBangAlone (length ts)
              else match r0 with TBang :: r2 => perr o r2 EBangMulti (length ts) | _ => POk (true, r0) end
          | _ => POk (false, ts)
          end) (fun nr =>
    let '(negated, ts1) := nr in
    bind (stmt_pipe px f o q negated false (length ts) ts1) (fun sp =>
      match sp with None => POk None | Some r0 => and_or px f o q re bc r0 end)).
  Proof. reflexivity. Qed.

  Lemma step_get : forall f, Ppipe f -> Pandor f -> Pget (S f).
  Proof.
    intros f Ip Ia o q re bc ts.
    destruct ts as [|t x]; [apply pre_g_eof; apply eof_get|].
    rewrite !get_stmt_S.
    (* the part after the negation has been read, on a non-empty remaining input *)
    assert (K : forall ng n n' t1 y, pre_ob (t :: x)
      (bind (stmt_pipe px f (S o) q ng false n ((t1 :: y) ++ r)) (fun sp => match sp with None => POk None | Some r0 => and_or px f (S o) q re bc r0 end))
      (bind (stmt_pipe px f (S o) q ng false n' (t1 :: y)) (fun sp => match sp with None => POk None | Some r0 => and_or px f (S o) q re bc r0 end))).
    { intros ng n n' t1 y. eapply pre_g_bind; [apply Ip| |].
      - intros [a|] [a'|] L; simpl in L; try contradiction.
        + destruct L as (Hne & ->). eapply pre_ob_some; [apply and_or_some | apply Ia].
        + left. exists None. split; [reflexivity|exact I].
      - intros [a|] H; simpl in H; [subst; apply eof_andor | discriminate]. }
    destruct (token_eq_dec t TBang) as [->|N].
    - simpl app. destruct x as [|t2 y].
      + apply pre_g_eof. unfold bind, perr. simpl. reflexivity.
      + simpl app. change (stop_token (t2 :: y ++ r)) with (stop_token (t2 :: y)).
        destruct (stop_token (t2 :: y)); [rewrite bind_perr; exact I|].
        destruct t2; try (rewrite !bind_POk; apply K).
        rewrite bind_perr. exact I.
    - assert (E : forall z, match t :: z with
          | TBang :: r0 => if stop_token r0 then perr (S o) r0 EBangAlone (length (t :: z))
                           else match r0 with TBang :: r2 => perr (S o) r2 EBangMulti (length (t :: z)) | _ => POk (true, r0) end
          | _ => POk (false, t :: z) end = POk (false, t :: z)) by (intro z; destruct t; try reflexivity; congruence).
      simpl app. rewrite !E, !bind_POk. apply K.
  Qed.
End P3.

(* ---------------------------------------------------------------------- *)
Section P4.
  Variable r : list token.
  Variable px : bool.
  Notation pre_l := (pre_g end_l (lock_l r)).
  Notation pre_lb := (pre_g end_lb (lock_lb r)).
  Notation pre_o ts := (pre_g (end_o ts) (lock_o r)).
  Notation pre_ob ts := (pre_g (end_ob ts) (lock_ob r)).
  Ltac eofr := cbv [eof_ok end_l end_lb end_o end_ob fst]; try reflexivity.

  Lemma bind_lerr : forall A B c p (k : A -> pres B), bind (lerr c p) k = lerr c p.
  Proof. reflexivity. Qed.

  Lemma for_S : forall f o q ts, for_clause px (S f) o q ts =
    bind (match tl ts with
          | TLparen :: _ => if px then lerr ELangCStyleFor (length (tl ts)) else POk tt
          | _ => POk tt
          end) (fun _ =>
    bind (word_iter (S f) o (length ts) (tl ts)) (fun r1 =>
      match r1 with
      | TLbrace :: r2 =>
          if px then lerr ELangForBrace (length r1)
          else bind (follow_stmts px f o q (length r1) [TRbrace] r2) (fun r3 =>
               match r3 with TRbrace :: r4 => POk r4 | _ => perr o r3 EStmtEnd (length ts) end)
      | TDo :: r2 =>
          bind (follow_stmts px f o q (length r1) [TDone] r2) (fun r3 =>
          match r3 with TDone :: r4 => POk r4 | _ => perr o r3 EStmtEnd (length ts) end)
      | _ => perr o r1 EFollowRsrv (length ts)
      end)).
  Proof. reflexivity. Qed.

  Lemma step_for : forall f, Pfollow r px f -> Pfor r px (S f).
  Proof.
    intros f If o q t ts. rewrite !for_S. simpl tl.
    assert (W : forall n n', pre_l
      (bind (word_iter (S f) (S o) n (ts ++ r)) (fun r1 =>
        match r1 with
        | TLbrace :: r2 => if px then lerr ELangForBrace (length r1)
            else bind (follow_stmts px f (S o) q (length r1) [TRbrace] r2) (fun r3 => match r3 with TRbrace :: r4 => POk r4 | _ => perr (S o) r3 EStmtEnd n end)
        | TDo :: r2 => bind (follow_stmts px f (S o) q (length r1) [TDone] r2) (fun r3 => match r3 with TDone :: r4 => POk r4 | _ => perr (S o) r3 EStmtEnd n end)
        | _ => perr (S o) r1 EFollowRsrv n end))
      (bind (word_iter (S f) (S o) n' ts) (fun r1 =>
        match r1 with
        | TLbrace :: r2 => if px then lerr ELangForBrace (length r1)
            else bind (follow_stmts px f (S o) q (length r1) [TRbrace] r2) (fun r3 => match r3 with TRbrace :: r4 => POk r4 | _ => perr (S o) r3 EStmtEnd n' end)
        | TDo :: r2 => bind (follow_stmts px f (S o) q (length r1) [TDone] r2) (fun r3 => match r3 with TDone :: r4 => POk r4 | _ => perr (S o) r3 EStmtEnd n' end)
        | _ => perr (S o) r1 EFollowRsrv n' end))).
    { intros n n'. eapply pre_g_bind; [apply pre_word_iter| |].
      - intros v v' [Hne ->]. destruct v' as [|t1 y]; [congruence|]. simpl app.
        destruct t1; try apply pre_perr.
        + (* TDo *) eapply pre_g_bind; [apply If| |].
          * intros v v' [Hne2 ->]. destruct v' as [|t2 z]; [congruence|]. simpl app.
            destruct t2; try apply pre_perr. apply pre_l_any.
          * intros a ->. apply eof_perr.
        + (* TLbrace *) destruct px; [apply pre_lerr|].
          eapply pre_g_bind; [apply If| |].
          * intros v v' [Hne2 ->]. destruct v' as [|t2 z]; [congruence|]. simpl app.
            destruct t2; try apply pre_perr. apply pre_l_any.
          * intros a ->. apply eof_perr.
      - intros a ->. apply eof_perr. }
    destruct ts as [|t1 y].
    - (* nothing after `for`: the prefix run fails Incomplete *)
      apply pre_g_eof. unfold bind, word_iter, perr. simpl. reflexivity.
    - simpl app. destruct t1; try (rewrite !bind_POk; apply W).
      destruct px; [rewrite bind_lerr; apply pre_lerr | rewrite !bind_POk; apply W].
  Qed.

  Lemma eof_items : forall f o prev, eof_ok end_l (case_items px f (S o) prev []).
  Proof. intros. apply (proj1 (proj2 (proj2 (proj2 (proj2 (proj2 (proj2 (proj2 (proj2 (proj2 (proj2 (proj2 (proj2 (proj2 (eof_all px f))))))))))))))). Qed.

  Lemma items_S : forall f o prev ts, case_items px (S f) o prev ts =
    match ts with
    | [] => POk ts
    | TEsac :: _ => POk ts
    | _ =>
        bind (match (match ts with TLparen :: r0 => r0 | _ => ts end) with
              | [] => perr o [] ECasePatWords (match ts with TLparen :: _ => length ts | _ => prev end)
              | _ => pats_loop (S f) o (match ts with TLparen :: _ => length ts | _ => prev end)
                        (match ts with TLparen :: r0 => r0 | _ => ts end)
              end) (fun r0 =>
        bind (stmts px f o QCase [TEsac] true false (tl r0)) (fun v =>
          match fst v with
          | TDSemi :: r3 => case_items px f o (length (fst v)) (got_newl r3)
          | _ => POk (fst v)
          end))
    end.
  Proof. intros. destruct ts as [|[] [|? ?]]; reflexivity. Qed.

  Lemma step_items : forall f, Pstmts r px f -> Pitems r px f -> Pitems r px (S f).
  Proof.
    intros f Is Ii o prev prev' ts.
    destruct ts as [|t x]; [apply pre_g_eof; apply eof_items|].
    rewrite !items_S.
    (* continuation after the patterns *)
    assert (K : forall n n' t0 z, pre_l
      (bind (pats_loop (S f) (S o) n ((t0 :: z) ++ r)) (fun r0 =>
        bind (stmts px f (S o) QCase [TEsac] true false (tl r0)) (fun v =>
          match fst v with TDSemi :: r3 => case_items px f (S o) (length (fst v)) (got_newl r3) | _ => POk (fst v) end)))
      (bind (pats_loop (S f) (S o) n' (t0 :: z)) (fun r0 =>
        bind (stmts px f (S o) QCase [TEsac] true false (tl r0)) (fun v =>
          match fst v with TDSemi :: r3 => case_items px f (S o) (length (fst v)) (got_newl r3) | _ => POk (fst v) end)))).
    { intros n n' t0 z.
      assert (K2 : forall w, pre_l
        (bind (stmts px f (S o) QCase [TEsac] true false (w ++ r)) (fun v =>
          match fst v with TDSemi :: r3 => case_items px f (S o) (length (fst v)) (got_newl r3) | _ => POk (fst v) end))
        (bind (stmts px f (S o) QCase [TEsac] true false w) (fun v =>
          match fst v with TDSemi :: r3 => case_items px f (S o) (length (fst v)) (got_newl r3) | _ => POk (fst v) end))).
      { intro w. eapply pre_g_bind; [apply Is| |].
        - intros [a b] [a' b'] (Hne & E1 & E2). simpl in *. subst.
          destruct a' as [|t2 u]; [congruence|]. simpl app.
          destruct t2; try apply (pre_l_lock r _ u).
          destruct (got_newl_cases r u) as [[E _]|(t3 & u' & E1 & E2)].
          + rewrite E. apply pre_g_eof. apply eof_items.
          + rewrite E1, E2. apply Ii.
        - intros [a b] E. unfold end_lb in E. simpl in E. subst. simpl. eofr. }
      eapply pre_g_bind; [apply pre_pats_loop| |].
      - intros v v' [Hne ->]. destruct v' as [|t1 y]; [congruence|]. simpl tl. apply K2.
      - intros a ->. simpl tl. eapply eof_bind; [apply (proj1 (eof_all px f))|].
        intros [a b] E. unfold end_lb in E. simpl in E. subst. simpl. eofr. }
    destruct t; try apply (K prev prev' _ x).
    - (* TEsac *) apply (pre_l_lock r TEsac x).
    - (* TLparen *) destruct x as [|t1 x].
      + (* the prefix ends right after '(' *) apply pre_g_eof. unfold bind, perr. simpl. reflexivity.
      + simpl app. apply K.
  Qed.

  Lemma case_S : forall f o q ts, case_clause px (S f) o q ts =
    match get_word (tl ts) with
    | None => perr o (tl ts) ECaseWord (length ts)
    | Some r0 =>
        match got_newl r0 with
        | TLbrace :: _ => lerr ELangCaseBrace (length ts)
        | TIn :: r2 =>
            bind (case_items px f o (length (got_newl r0)) (got_newl r2)) (fun r3 =>
            match r3 with TEsac :: r4 => POk r4 | _ => perr o r3 EStmtEnd (length ts) end)
        | _ => perr o (got_newl r0) EFollowRsrv (length ts)
        end
    end.
  Proof. reflexivity. Qed.

  Lemma step_case : forall f, Pitems r px f -> Pcase r px (S f).
  Proof.
    intros f Ii o q t ts. rewrite !case_S. simpl tl.
    destruct ts as [|t1 y]; [apply pre_g_eof; unfold perr; simpl; reflexivity|].
    rewrite get_word_app. destruct (get_word (t1 :: y)) as [z|]; [|apply pre_perr].
    destruct (got_newl_cases r z) as [[E _]|(t2 & w & E1 & E2)].
    - rewrite E. apply pre_g_eof. apply eof_perr.
    - rewrite E1, E2. simpl app. destruct t2; try apply pre_perr; [|apply pre_lerr].
      (* TIn *)
      destruct (got_newl_cases r w) as [[E _]|(t3 & w' & E3 & E4)].
      + rewrite E. apply pre_g_eof. eapply eof_bind; [apply eof_items|]. intros a ->. apply eof_perr.
      + rewrite E3, E4. eapply pre_g_bind; [apply Ii| |].
        * intros v v' [Hne ->]. destruct v' as [|t4 u]; [congruence|]. simpl app.
          destruct t4; try apply pre_perr. apply pre_l_any.
        * intros a ->. apply eof_perr.
  Qed.

  (* ---------- gotStmtPipe ---------- *)
  Definition sp_tail f o q bc (had : bool) (spos : nat) (ts1 : list token) (c : option (list token * bool)) : pres (option (list token)) :=
    match c with
    | None => if had then pipe_loop px f o q bc ts1 else POk None
    | Some (r0, compound) =>
        if had && compound then lerr ELangRedirCompound spos
        else bind (redirs (S f) o r0) (fun r' => pipe_loop px f o q bc r')
    end.

  Definition mk (c : bool) (x : list token) : pres (option (list token * bool)) := POk (Some (x, c)).

  Definition sp_asname f o q (t : token) (n : nat) (r0 : list token) : pres (option (list token * bool)) :=
    match r0 with
    | TLparen :: r2 =>
        match r2 with
        | TRparen :: r3 =>
            if px && negb (valid_func_name t) then perr o r3 EInvalidFunc n
            else bind (func_decl px f o q n r3) (mk true)
        | _ => perr o r2 EFooParen n
        end
    | _ => bind (call_loop px (S f) o q (Some t) r0) (mk false)
    end.

  Definition sp_cmd f o q (ng : bool) (ts1 : list token) : pres (option (list token * bool)) :=
    match ts1 with
    | t :: r0 =>
        match t with
        | TLbrace => bind (block px f o q ts1) (mk true)
        | TIf => bind (if_clause px f o q ts1) (mk true)
        | TWhile | TUntil => bind (while_clause px f o q ts1) (mk true)
        | TFor => bind (for_clause px f o q ts1) (mk true)
        | TCase => bind (case_clause px f o q ts1) (mk true)
        | TRbrace => perr o ts1 ERbraceClose (length ts1)
        | TThen | TElif | TElse => perr o ts1 EThenIf (length ts1)
        | TFi => perr o ts1 EFi (length ts1)
        | TDo => perr o ts1 EDo (length ts1)
        | TDone => perr o ts1 EDone (length ts1)
        | TEsac => perr o ts1 EEsac (length ts1)
        | TBang => if ng then sp_asname f o q t (length ts1) r0 else perr o ts1 EBangFull (length ts1)
        | TAssign | TAssignW => bind (call_loop px (S f) o q None r0) (mk false)
        | TLit | TName | TIn => sp_asname f o q t (length ts1) r0
        | TWord =>
            match r0 with
            | TLparen :: r2 => perr o r2 EInvalidFunc (length ts1)
            | _ => bind (call_loop px (S f) o q (Some TWord) r0) (mk false)
            end
        | TLparen => bind (subshell px f o ts1) (mk true)
        | _ => POk None
        end
    | [] => POk None
    end.

  Lemma stmt_pipe_S : forall f o q ng bc spos ts, stmt_pipe px (S f) o q ng bc spos ts =
    bind (redirs (S f) o ts) (fun ts1 =>
    bind (sp_cmd f o q ng ts1) (sp_tail f o q bc (Nat.ltb (length ts1) (length ts)) spos ts1)).
  Proof. reflexivity. Qed.

  Lemma ltb_app : forall (a b0 : list token), Nat.ltb (length (a ++ r)) (length (b0 ++ r)) = Nat.ltb (length a) (length b0).
  Proof.
    intros. rewrite !app_length. destruct (Nat.ltb_spec (length a) (length b0)); [apply Nat.ltb_lt|apply Nat.ltb_ge]; lia.
  Qed.

  Lemma step_pipe : forall f,
    Pploop r px f -> Pblock r px f -> Psub r px f -> Pif r px f -> Pwhile r px f -> Pfor r px f -> Pcase r px f -> Pfunc r px f ->
    Ppipe r px (S f).
  Proof.
    intros f Il Iblock Isub Iif Iwhile Ifor Icase Ifunc o q ng bc sp sp' ts.
    destruct ts as [|t x]; [apply pre_g_eof; apply (eof_pipe px (S f))|].
    rewrite !stmt_pipe_S.
    set (TS := t :: x).
    eapply pre_g_bind; [apply pre_redirs| |].
    2:{ (* the prefix ends inside the leading redirections *)
        intros a ->. simpl. rewrite bind_POk. simpl. apply eof_ploop. }
    intros v v' [Hne ->]. destruct v' as [|t1 y]; [congruence|]. clear Hne.
    rewrite ltb_app. set (b := Nat.ltb (length (t1 :: y)) (length TS)).
    (* the tail after the command, in lockstep *)
    assert (TL : forall c c', lock_ob r c c' ->
      pre_o TS (sp_tail f (S o) q bc b sp ((t1 :: y) ++ r) c) (sp_tail f (S o) q bc b sp' (t1 :: y) c')).
    { intros [[a k]|] [[a' k']|] L; simpl in L; try contradiction.
      - destruct L as (Hne & E1 & E2). simpl in *. subst. unfold sp_tail.
        destruct (b && k'); [apply pre_lerr|].
        eapply pre_g_bind; [apply pre_redirs| |].
        + intros v v' [Hne2 ->]. eapply pre_o_some; [apply pipe_loop_some | apply Il].
        + intros z ->. apply eof_ploop.
      - unfold sp_tail. destruct b.
        + eapply pre_o_some; [apply pipe_loop_some | apply Il].
        + left. exists None. split; [reflexivity|exact I]. }
    (* the tail when the command used up the prefix *)
    assert (TE : forall k, b && k = false -> eof_ok (end_o TS) (sp_tail f (S o) q bc b sp' (t1 :: y) (Some ([], k)))).
    { intros k E. unfold sp_tail. rewrite E. eapply eof_bind; [apply redirs_nil|]. intros z ->. apply eof_ploop. }
    (* a command whose value carries the flag k, built from a list-valued parser X *)
    assert (CK : forall k (Xf Xp : pres (list token)), pre_l Xf Xp ->
      pre_o TS (bind (bind Xf (mk k)) (sp_tail f (S o) q bc b sp ((t1 :: y) ++ r)))
               (bind (bind Xp (mk k)) (sp_tail f (S o) q bc b sp' (t1 :: y)))).
    { intros k Xf Xp H. destruct (b && k) eqn:BK.
      - (* leading redirections and a compound command: the full run is a LangError *)
        destruct Xf as [a| |]; try exact I. unfold mk. rewrite !bind_POk. unfold sp_tail at 1. rewrite BK. apply pre_lerr.
      - eapply pre_g_bind with (ea := fun c => c = Some ([], k)) (la := lock_ob r).
        + eapply pre_g_bind; [exact H| |].
          * intros v v' [Hne ->]. left. eexists. split; [reflexivity|]. simpl. repeat split. exact Hne.
          * intros a ->. reflexivity.
        + exact TL.
        + intros c ->. apply TE. exact BK. }
    (* simple command: call_loop with flag false *)
    assert (CALL : forall first z, pre_o TS
      (bind (bind (call_loop px (S f) (S o) q first (z ++ r)) (mk false)) (sp_tail f (S o) q bc b sp ((t1 :: y) ++ r)))
      (bind (bind (call_loop px (S f) (S o) q first z) (mk false)) (sp_tail f (S o) q bc b sp' (t1 :: y)))).
    { intros first z. apply CK. apply pre_call_loop. }
    (* name followed by ( ) : function declaration, otherwise a call *)
    assert (ASN : forall tn n n', pre_o TS
      (bind (sp_asname f (S o) q tn n (y ++ r)) (sp_tail f (S o) q bc b sp ((t1 :: y) ++ r)))
      (bind (sp_asname f (S o) q tn n' y) (sp_tail f (S o) q bc b sp' (t1 :: y)))).
    { intros tn n n'. unfold sp_asname.
      destruct y as [|t2 z].
      - (* the prefix ends right after the name *)
        apply pre_g_eof. simpl. eapply eof_bind with (ea := fun c => c = Some ([], false)).
        + eapply eof_bind; [apply call_loop_nil|]. intros a ->. reflexivity.
        + intros c ->. apply TE. apply Bool.andb_false_r.
      - simpl app. destruct t2; try apply (CALL (Some tn) (_ :: z)).
        (* TLparen *)
        destruct z as [|t3 w].
        + apply pre_g_eof. unfold bind, perr. simpl. reflexivity.
        + simpl app. destruct t3; try (rewrite bind_perr; apply pre_perr).
          destruct (px && negb (valid_func_name tn)); [rewrite bind_perr; apply pre_perr|].
          apply CK. apply Ifunc. }
    unfold sp_cmd. simpl app.
    destruct t1.
    all: try (rewrite !bind_perr; apply pre_perr).
    all: try (rewrite !bind_POk; apply TL; exact I).
    - (* TWord *) destruct y as [|t2 z].
      + apply pre_g_eof. simpl. eapply eof_bind with (ea := fun c => c = Some ([], false)).
        * eapply eof_bind; [apply call_loop_nil|]. intros a ->. reflexivity.
        * intros c ->. apply TE. apply Bool.andb_false_r.
      + simpl app. destruct t2; try apply (CALL (Some TWord) (_ :: z)). rewrite bind_perr. apply pre_perr.
    - (* TLit *) apply ASN.
    - (* TName *) apply ASN.
    - (* TAssign *) apply CALL.
    - (* TAssignW *) apply CALL.
    - (* TIf *) apply CK. apply (Iif o q TIf y).
    - (* TWhile *) apply CK. apply (Iwhile o q TWhile y).
    - (* TUntil *) apply CK. apply (Iwhile o q TUntil y).
    - (* TFor *) apply CK. apply (Ifor o q TFor y).
    - (* TIn *) apply ASN.
    - (* TCase *) apply CK. apply (Icase o q TCase y).
    - (* TLbrace *) apply CK. apply (Iblock o q TLbrace y).
    - (* TBang *) destruct ng; [apply ASN | rewrite !bind_perr; apply pre_perr].
    - (* TLparen *) apply CK. apply (Isub o TLparen y).
  Qed.

  (* ---------- assembly ---------- *)
  Definition Pall f : Prop :=
    Pstmts r px f /\ Pget r px f /\ Pandor r px f /\ Ppipe r px f /\ Pploop r px f /\ Pfollow r px f /\
    Pblock r px f /\ Psub r px f /\ Pif r px f /\ Pelif r px f /\ Pwhile r px f /\ Pfor r px f /\
    Pcase r px f /\ Pitems r px f /\ Pfunc r px f.

  Lemma pre_all : forall f, Pall f.
  Proof.
    induction f as [|f IH].
    - unfold Pall, Pstmts, Pget, Pandor, Ppipe, Pploop, Pfollow, Pblock, Psub, Pif, Pelif, Pwhile, Pfor, Pcase, Pitems, Pfunc.
      repeat apply conj; intros; exact I.
    - destruct IH as (Is & Ig & Ia & Ip & Il & Ifo & Ib & Isu & Ii & Ie & Iw & Ifr & Ic & Iit & Ifu).
      unfold Pall. repeat apply conj.
      + unfold Pstmts. apply pre_stmts_step; assumption.
      + apply step_get; assumption.
      + apply step_andor; assumption.
      + apply step_pipe; assumption.
      + apply step_ploop; assumption.
      + apply step_follow; assumption.
      + apply step_block; assumption.
      + apply step_sub; assumption.
      + apply step_if; assumption.
      + apply step_elif; assumption.
      + apply step_while; assumption.
      + apply step_for; assumption.
      + apply step_case; assumption.
      + apply step_items; assumption.
      + apply step_func; assumption.
  Qed.
End P4.

(* The prefix theorem on the model: if the parser accepts q ++ r with some fuel, then with the same fuel it
   accepts q, or fails on q with an error marked Incomplete, or runs out of fuel. *)
Theorem prefix_ok_or_incomplete : forall px fuel q r,
  accepted (stmts px fuel 0 QNone [] true false (q ++ r)) = true ->
  let res := stmts px fuel 0 QNone [] true false q in
  accepted res = true \/ incomplete res = true \/ out_of_fuel res = true.
Proof.
  intros px fuel q r A res. subst res.
  pose proof (proj1 (pre_all r px fuel) 0 QNone [] true false q) as H.
  destruct (stmts px fuel 0 QNone [] true false (q ++ r)) as [v| |]; try discriminate.
  unfold pre_g in H. destruct H as [(v' & -> & _)|H].
  - left. reflexivity.
  - destruct (stmts px fuel 0 QNone [] true false q) as [v'|c p i|]; simpl in *.
    + left. reflexivity.
    + right. left. exact H.
    + right. right. reflexivity.
Qed.
