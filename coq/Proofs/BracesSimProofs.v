(* Proofs/BracesSimProofs.v — C16: an unbounded theorem relating the Go algorithm's model to the bash Spec.
   Scope: "regular" words = unparse of a tree of plain runs and comma groups with at least two alternatives,
   nested to any depth (no '.', no backslash, every brace closed). For these words the stack splitter
   + bracesSeqRec and bash's gobbler-based recursion compute the same list. *)
From Verif Require Import Base.Str Proofs.StrProofs Expand.Braces Proofs.BracesProofs Proofs.BracesSeqProofs Proofs.BracesSeqTermProofs.
Require Import ZifyN ZifyNat ZifyBool.
Open Scope N_scope.

(* ------------------------------------------------------------------ the scope *)

Inductive wt : Type :=
| WEnd (p : str)                                            (* plain text *)
| WGroup (p : str) (a : wt) (more : alts) (rest : wt)       (* p { a , more... } rest : at least two alternatives *)
| WSeq (p : str) (d : sq) (rest : wt)                       (* p { x..y[..n] } rest : a clean sequence *)
with alts : Type :=
| AOne (t : wt)
| ACons (t : wt) (more : alts).

Scheme wt_mind := Induction for wt Sort Prop
  with alts_mind := Induction for alts Sort Prop.
Combined Scheme wt_alts_ind from wt_mind, alts_mind.

Definition is_meta (c : N) : bool := (c =? LB) || (c =? RB) || (c =? COMMA) || (c =? DOT) || (c =? BS).
Definition plain (p : str) : bool := forallb (fun c => negb (is_meta c)) p.

Fixpoint ok_wt (t : wt) : bool :=
  match t with
  | WEnd p => plain p
  | WGroup p a more rest => plain p && ok_wt a && ok_alts more && ok_wt rest
  | WSeq p d rest => plain p && sq_okb d && ok_wt rest
  end
with ok_alts (m : alts) : bool :=
  match m with
  | AOne t => ok_wt t
  | ACons t more => ok_wt t && ok_alts more
  end.

(* the word a tree stands for *)
Fixpoint U (t : wt) : str :=
  match t with
  | WEnd p => p
  | WGroup p a more rest => p ++ LB :: U a ++ COMMA :: UA more ++ RB :: U rest
  | WSeq p d rest => p ++ LB :: sq_text d ++ RB :: U rest
  end
with UA (m : alts) : str :=
  match m with
  | AOne t => U t
  | ACons t more => U t ++ COMMA :: UA more
  end.

(* the expansion, declaratively: preamble x alternatives x postscript *)
Definition prod (X Y : list str) : list str := flat_map (fun x => map (fun y => x ++ y) Y) X.
Fixpoint T (t : wt) : list str :=
  match t with
  | WEnd p => [p]
  | WGroup p a more rest => prod (prod [p] (T a ++ TA more)) (T rest)
  | WSeq p d rest => prod (prod [p] (sq_vals d)) (T rest)
  end
with TA (m : alts) : list str :=
  match m with
  | AOne t => T t
  | ACons t more => T t ++ TA more
  end.

(* ------------------------------------------------------------------ small facts *)

Lemma plain_cons : forall c p, plain (c :: p) = true ->
  c <> LB /\ c <> RB /\ c <> COMMA /\ c <> DOT /\ c <> BS /\ plain p = true.
Proof.
  intros c p H. unfold plain in H. simpl in H. apply andb_prop in H. destruct H as [Hc Hp].
  unfold is_meta in Hc. apply negb_true_iff in Hc.
  repeat (apply orb_false_iff in Hc; destruct Hc as [Hc ?]).
  repeat split; try (apply N.eqb_neq; assumption). exact Hp.
Qed.

Lemma pre_opt_pre_opt : forall a b o, pre_opt a (pre_opt b o) = pre_opt (a ++ b) o.
Proof. intros a b [[x y]|]; simpl; [now rewrite app_assoc|reflexivity]. Qed.

Lemma pre_opt_nil : forall o, pre_opt [] o = o.
Proof. intros [[x y]|]; reflexivity. Qed.

(* ------------------------------------------------------------------ bash: the gobbler over regular text *)

Lemma gobble_plain : forall p, plain p = true -> forall sat level commas at0 rest,
  is_meta sat = true ->
  gobble sat level commas at0 (p ++ rest)
  = pre_opt p (gobble sat level commas (match p with [] => at0 | _ => false end) rest).
Proof.
  induction p as [|c p IH]; intros Hp sat level commas at0 rest Hs.
  - simpl. now rewrite pre_opt_nil.
  - destruct (plain_cons _ _ Hp) as (H1 & H2 & H3 & H4 & H5 & Hp').
    assert (Hcs: (c =? sat) = false).
    { apply N.eqb_neq. intros ->. unfold plain in Hp. simpl in Hp. rewrite Hs in Hp. discriminate. }
    apply N.eqb_neq in H1, H2, H3, H4, H5.
    change ((c :: p) ++ rest) with (c :: (p ++ rest)). cbn [gobble].
    rewrite H5, Hcs. cbn [andb]. rewrite H1, H2, H3. cbn [andb].
    assert (Hd: starts_dotdot (c :: p ++ rest) = false).
    { unfold starts_dotdot. destruct (p ++ rest); [reflexivity|]. now rewrite H4. }
    rewrite Hd, !andb_false_r. cbn [andb fst snd].
    rewrite (IH Hp' sat level commas false rest Hs), pre_opt_pre_opt. simpl.
    destruct p; reflexivity.
Qed.

Lemma gobble_lb_step : forall sat level commas rest, sat = RB \/ sat = COMMA ->
  gobble sat level commas false (LB :: rest) = pre_opt [LB] (gobble sat (S level) commas false rest).
Proof. intros sat level commas rest [-> | ->]; reflexivity. Qed.

Lemma gobble_comma_in : forall sat level commas rest, sat = RB \/ sat = COMMA ->
  gobble sat (S level) commas false (COMMA :: rest) = pre_opt [COMMA] (gobble sat (S level) commas false rest).
Proof.
  intros sat level commas rest [-> | ->]; cbn [gobble]; simpl; reflexivity.
Qed.

Lemma gobble_rb_in : forall sat level commas rest, sat = RB \/ sat = COMMA ->
  gobble sat (S level) commas false (RB :: rest) = pre_opt [RB] (gobble sat level commas false rest).
Proof.
  intros sat level commas rest [-> | ->]; cbn [gobble]; simpl; reflexivity.
Qed.

Lemma meta_rb_comma : forall sat, sat = RB \/ sat = COMMA -> is_meta sat = true.
Proof. intros sat [-> | ->]; reflexivity. Qed.

Lemma gobble_plain_f : forall p, plain p = true -> forall sat level commas rest, is_meta sat = true ->
  gobble sat level commas false (p ++ rest) = pre_opt p (gobble sat level commas false rest).
Proof. intros. rewrite gobble_plain by auto. destruct p; reflexivity. Qed.

Lemma gobble_dot_in : forall sat level commas rest, sat = RB \/ sat = COMMA ->
  gobble sat (S level) commas false (DOT :: rest) = pre_opt [DOT] (gobble sat (S level) commas false rest).
Proof. intros sat level commas rest [-> | ->]; cbn [gobble]; simpl; reflexivity. Qed.

Lemma alnum_plain : forall s, alnum s = true -> plain s = true.
Proof.
  induction s as [|c s IH]; intros H; [reflexivity|]. simpl in H. apply andb_prop in H. destruct H as [Hc Hs].
  unfold plain in *. simpl. rewrite (IH Hs), andb_true_r. unfold is_meta.
  unfold is_digit, ascii_letter, MINUS, LB, RB, COMMA, DOT, BS in *. lia.
Qed.

(* what [sq_okb] gives about the text of a sequence *)
Lemma sq_plain : forall d, sq_okb d = true ->
  plain (sx d) = true /\ plain (sy d) = true /\ sx d <> [] /\ sy d <> []
  /\ match sn d with Some n => plain n = true /\ n <> [] | None => True end.
Proof.
  intros d H. destruct (sq_agree d H) as (_ & _ & _ & _ & _ & Ax & Ay & Nx & Ny & Hn).
  repeat split; auto using alnum_plain. destruct (sn d); [|exact I]. destruct Hn. split; auto using alnum_plain.
Qed.

Lemma gobble_sqtext : forall d, sq_okb d = true -> forall sat level commas rest, sat = RB \/ sat = COMMA ->
  gobble sat (S level) commas false (sq_text d ++ rest) = pre_opt (sq_text d) (gobble sat (S level) commas false rest).
Proof.
  intros d H sat level commas rest Hs. destruct (sq_plain d H) as (Px & Py & _ & _ & Hn).
  pose proof (meta_rb_comma sat Hs) as Hm.
  unfold sq_text, sq_tail. rewrite <- !app_assoc. rewrite gobble_plain_f by auto. simpl app.
  rewrite !gobble_dot_in by exact Hs. rewrite <- !app_assoc. rewrite gobble_plain_f by auto.
  destruct (sn d) as [n|].
  - destruct Hn as [Pn _]. simpl app. rewrite !gobble_dot_in by exact Hs. rewrite gobble_plain_f by auto.
    rewrite !pre_opt_pre_opt. f_equal. rewrite <- !app_assoc. reflexivity.
  - simpl app. rewrite !pre_opt_pre_opt. f_equal. rewrite <- !app_assoc, ?app_nil_r. reflexivity.
Qed.

(* regular text is transparent for a search for '}' or ',' *)
Lemma gobble_U :
  (forall t, ok_wt t = true -> forall sat level commas rest, sat = RB \/ sat = COMMA ->
     gobble sat level commas false (U t ++ rest) = pre_opt (U t) (gobble sat level commas false rest))
  /\
  (forall m, ok_alts m = true -> forall sat level commas rest, sat = RB \/ sat = COMMA ->
     gobble sat (S level) commas false (UA m ++ rest) = pre_opt (UA m) (gobble sat (S level) commas false rest)).
Proof.
  apply wt_alts_ind.
  - intros p Hp sat level commas rest Hs. simpl in *.
    rewrite gobble_plain by (auto using meta_rb_comma). destruct p; reflexivity.
  - intros p a IHa more IHm rest0 IHr Hok sat level commas rest Hs. simpl in Hok.
    apply andb_prop in Hok. destruct Hok as [Hok Hr]. apply andb_prop in Hok. destruct Hok as [Hok Hm].
    apply andb_prop in Hok. destruct Hok as [Hp Ha].
    simpl U. rewrite <- !app_assoc. rewrite gobble_plain by (auto using meta_rb_comma).
    assert (E0: gobble sat level commas (match p with [] => false | _ => false end)
                  ((LB :: U a ++ COMMA :: UA more ++ RB :: U rest0) ++ rest)
                = pre_opt (LB :: U a ++ COMMA :: UA more ++ RB :: U rest0) (gobble sat level commas false rest)).
    { replace (match p with [] => false | _ => false end) with false by (destruct p; reflexivity).
      simpl app. rewrite gobble_lb_step by exact Hs.
      rewrite <- !app_assoc. rewrite (IHa Ha sat (S level) commas _ Hs).
      simpl app. rewrite gobble_comma_in by exact Hs.
      rewrite <- !app_assoc. rewrite (IHm Hm sat level commas _ Hs).
      simpl app. rewrite gobble_rb_in by exact Hs.
      rewrite (IHr Hr sat level commas rest Hs).
      rewrite !pre_opt_pre_opt. f_equal. rewrite <- !app_assoc. reflexivity. }
    rewrite E0, pre_opt_pre_opt. reflexivity.
  - intros p d rest0 IHr Hok sat level commas rest Hs. simpl in Hok.
    apply andb_prop in Hok. destruct Hok as [Hok Hr]. apply andb_prop in Hok. destruct Hok as [Hp Hd].
    simpl U. rewrite <- !app_assoc. rewrite gobble_plain_f by (auto using meta_rb_comma).
    simpl app. rewrite gobble_lb_step by exact Hs.
    rewrite <- !app_assoc. rewrite (gobble_sqtext d Hd sat level commas _ Hs).
    simpl app. rewrite gobble_rb_in by exact Hs. rewrite (IHr Hr sat level commas rest Hs).
    rewrite !pre_opt_pre_opt. f_equal. rewrite <- !app_assoc. reflexivity.
  - intros t IHt Hok sat level commas rest Hs. simpl in *. now apply IHt.
  - intros t IHt more IHm Hok sat level commas rest Hs. simpl in Hok. apply andb_prop in Hok. destruct Hok as [Ht Hm].
    simpl UA. rewrite <- !app_assoc. rewrite (IHt Ht sat (S level) commas _ Hs).
    simpl app. rewrite gobble_comma_in by exact Hs. rewrite (IHm Hm sat level commas rest Hs).
    rewrite !pre_opt_pre_opt. f_equal. now rewrite <- app_assoc.
Qed.

Definition gobble_U_wt := proj1 gobble_U.
Definition gobble_U_alts := proj2 gobble_U.

(* the head of a regular text is never '}' *)
Lemma U_head : forall t x, ok_wt t = true ->
  match U t ++ COMMA :: x with [] => true | d :: _ => d =? RB end = false.
Proof.
  intros t x H.
  assert (HP: forall p y, plain p = true -> match (p ++ LB :: y) ++ COMMA :: x with [] => true | d :: _ => d =? RB end = false).
  { intros p y Hp. destruct p as [|c p]; [reflexivity|]. destruct (plain_cons _ _ Hp) as (_ & H2 & _). simpl. now apply N.eqb_neq. }
  destruct t as [p|p a more rest|p d rest]; simpl in H.
  - simpl. destruct p as [|c p]; [reflexivity|]. destruct (plain_cons _ _ H) as (_ & H2 & _). simpl. now apply N.eqb_neq.
  - apply andb_prop in H. destruct H as [H _]. apply andb_prop in H. destruct H as [H _].
    apply andb_prop in H. destruct H as [H _]. simpl U. now apply HP.
  - apply andb_prop in H. destruct H as [H _]. apply andb_prop in H. destruct H as [H _]. simpl U. now apply HP.
Qed.

(* looking for '{' : plain text is skipped, the first '{' is found *)
Lemma gobble_lb_here : forall at0 r,
  (at0 = false \/ match r with [] => true | d :: _ => d =? RB end = false) ->
  gobble LB 0 1 at0 (LB :: r) = Some ([], r).
Proof.
  intros at0 r H. cbn [gobble]. simpl. destruct H as [-> | H]; [reflexivity|]. rewrite H. now rewrite andb_false_r.
Qed.

Lemma gobble_lb_plain : forall p, plain p = true -> forall at0 r,
  (p <> [] \/ at0 = false \/ match r with [] => true | d :: _ => d =? RB end = false) ->
  gobble LB 0 1 at0 (p ++ LB :: r) = Some (p, r).
Proof.
  intros p Hp at0 r Hc. rewrite gobble_plain by auto. rewrite gobble_lb_here.
  - simpl. now rewrite app_nil_r.
  - destruct p; [|now left]. destruct Hc as [Hc|[Hc|Hc]]; [congruence|now left|now right].
Qed.

(* the alternatives of a group, searched for the closing brace once a comma has been seen *)
Lemma gobble_rb_comma0 : forall commas rest,
  gobble RB 0 commas false (COMMA :: rest) = pre_opt [COMMA] (gobble RB 0 (S commas) false rest).
Proof. intros. cbn [gobble]. simpl. reflexivity. Qed.

Lemma gobble_rb_close : forall commas rest,
  gobble RB 0 (S commas) false (RB :: rest) = Some ([], rest).
Proof. intros. cbn [gobble]. simpl. reflexivity. Qed.

Lemma find_close_alts : forall m, ok_alts m = true -> forall commas rest,
  gobble RB 0 (S commas) false (UA m ++ RB :: rest) = Some (UA m, rest).
Proof.
  induction m as [t|t more IH]; intros Hok commas rest; simpl in Hok.
  - simpl UA. rewrite (gobble_U_wt t Hok RB 0 (S commas) _ (or_introl eq_refl)), gobble_rb_close.
    simpl. now rewrite app_nil_r.
  - apply andb_prop in Hok. destruct Hok as [Ht Hm]. simpl UA. rewrite <- app_assoc.
    rewrite (gobble_U_wt t Ht RB 0 (S commas) _ (or_introl eq_refl)). simpl app.
    rewrite gobble_rb_comma0, (IH Hm). simpl. rewrite <- ?app_assoc. reflexivity.
Qed.

Lemma find_close_group : forall a more rest, ok_wt a = true -> ok_alts more = true ->
  find_close (U a ++ COMMA :: UA more ++ RB :: rest) = Some (U a ++ COMMA :: UA more, rest).
Proof.
  intros a more rest Ha Hm. unfold find_close.
  rewrite (gobble_U_wt a Ha RB 0 0 _ (or_introl eq_refl)), gobble_rb_comma0, (find_close_alts more Hm).
  simpl. rewrite <- ?app_assoc. reflexivity.
Qed.

Lemma find_brace_group : forall n p a more rest,
  plain p = true -> ok_wt a = true -> ok_alts more = true ->
  find_brace (S n) true [] (U (WGroup p a more rest)) = Some (p, U a ++ COMMA :: UA more, U rest).
Proof.
  intros n p a more rest Hp Ha Hm. simpl U. cbn [find_brace].
  rewrite gobble_lb_plain; [|exact Hp|].
  - rewrite find_close_group by assumption. reflexivity.
  - right. right. apply (U_head a _ Ha).
Qed.

(* a sequence group: the ".." make its '}' acceptable *)
Ltac evalc := repeat match goal with
  | |- context [N.eqb ?a ?b] =>
      tryif is_var a then fail else (let v := eval vm_compute in (N.eqb a b) in progress change (N.eqb a b) with v)
  end.

Lemma gobble_rb_dotdot : forall commas y0 r, is_meta y0 = false ->
  gobble RB 0 commas false (DOT :: DOT :: y0 :: r) = pre_opt [DOT; DOT] (gobble RB 0 (S commas) false (y0 :: r)).
Proof.
  intros commas y0 r H. unfold is_meta in H.
  repeat (apply orb_false_iff in H; destruct H as [H ?]).
  assert (E1: (y0 =? RB) = false) by assumption. assert (E2: (y0 =? DOT) = false) by assumption.
  cbn [gobble starts_dotdot third_is]. evalc. cbn [andb orb negb fst snd Nat.eqb Nat.ltb Nat.leb]. rewrite E1.
  cbn [andb orb negb fst snd]. rewrite E2. cbn [andb orb negb fst snd]. rewrite pre_opt_pre_opt. reflexivity.
Qed.

Lemma plain_head_meta : forall s r, plain s = true -> s <> [] -> exists y0 y', s ++ r = y0 :: y' /\ is_meta y0 = false.
Proof.
  intros [|c s] r H N; [congruence|]. exists c, (s ++ r). split; [reflexivity|].
  unfold plain in H. simpl in H. apply andb_prop in H. destruct H as [H _]. now apply negb_true_iff.
Qed.

Lemma gobble_rb_dotdot_plain : forall commas s r, plain s = true -> s <> [] ->
  gobble RB 0 commas false (DOT :: DOT :: s ++ r) = pre_opt (DOT :: DOT :: s) (gobble RB 0 (S commas) false r).
Proof.
  intros commas [|c s] r H N; [congruence|].
  assert (M: is_meta c = false).
  { unfold plain in H. simpl in H. apply andb_prop in H. destruct H as [H _]. now apply negb_true_iff. }
  change ((c :: s) ++ r) with (c :: (s ++ r)). rewrite gobble_rb_dotdot by exact M.
  change (c :: (s ++ r)) with ((c :: s) ++ r). rewrite gobble_plain_f by auto. now rewrite pre_opt_pre_opt.
Qed.

Lemma find_close_seq : forall d rest, sq_okb d = true -> find_close (sq_text d ++ RB :: rest) = Some (sq_text d, rest).
Proof.
  intros d rest H. destruct (sq_plain d H) as (Px & Py & Nx & Ny & Hn).
  unfold find_close, sq_text, sq_tail. rewrite <- !app_assoc. rewrite gobble_plain_f by auto. simpl app.
  rewrite <- !app_assoc. rewrite gobble_rb_dotdot_plain by assumption.
  destruct (sn d) as [n|].
  - destruct Hn as [Pn Nn]. simpl app. rewrite gobble_rb_dotdot_plain by assumption.
    rewrite gobble_rb_close. simpl. rewrite <- ?app_assoc. simpl. rewrite ?app_nil_r. reflexivity.
  - simpl app. rewrite gobble_rb_close. simpl. rewrite <- ?app_assoc, ?app_nil_r. simpl. rewrite ?app_nil_r. reflexivity.
Qed.

Lemma sq_text_head : forall d x, sq_okb d = true ->
  match sq_text d ++ x with [] => true | c :: _ => c =? RB end = false.
Proof.
  intros d x H. destruct (sq_plain d H) as (Px & _ & Nx & _). unfold sq_text.
  destruct (sx d) as [|c s]; [congruence|]. destruct (plain_cons _ _ Px) as (_ & H2 & _). simpl. now apply N.eqb_neq.
Qed.

Lemma find_brace_seq : forall n p d rest, plain p = true -> sq_okb d = true ->
  find_brace (S n) true [] (U (WSeq p d rest)) = Some (p, sq_text d, U rest).
Proof.
  intros n p d rest Hp Hd. simpl U. cbn [find_brace].
  rewrite gobble_lb_plain; [|exact Hp|].
  - rewrite find_close_seq by assumption. reflexivity.
  - right. right. now apply sq_text_head.
Qed.

(* the level-unaware comma test *)
Lemma plain_no_bs : forall p, plain p = true -> Forall (fun c => c <> BS) p.
Proof.
  induction p as [|c p IH]; intros H; [constructor|]. destruct (plain_cons _ _ H) as (_ & _ & _ & _ & H5 & Hp').
  constructor; auto.
Qed.

Lemma sq_text_no_bs : forall d, sq_okb d = true -> Forall (fun c => c <> BS) (sq_text d).
Proof.
  intros d H. destruct (sq_plain d H) as (Px & Py & _ & _ & Hn). unfold sq_text, sq_tail.
  apply Forall_app. split; [now apply plain_no_bs|]. constructor; [discriminate|]. constructor; [discriminate|].
  apply Forall_app. split; [now apply plain_no_bs|]. destruct (sn d); [|constructor].
  destruct Hn as [Pn _]. constructor; [discriminate|]. constructor; [discriminate|]. now apply plain_no_bs.
Qed.

Lemma no_bs_U :
  (forall t, ok_wt t = true -> Forall (fun c => c <> BS) (U t)) /\
  (forall m, ok_alts m = true -> Forall (fun c => c <> BS) (UA m)).
Proof.
  assert (HP: forall p, plain p = true -> Forall (fun c => c <> BS) p).
  { induction p as [|c p IH]; intros H; [constructor|]. destruct (plain_cons _ _ H) as (_ & _ & _ & _ & H5 & Hp').
    constructor; auto. }
  apply wt_alts_ind.
  - intros p H. now apply HP.
  - intros p a IHa more IHm rest IHr Hok. simpl in Hok.
    apply andb_prop in Hok. destruct Hok as [Hok Hr]. apply andb_prop in Hok. destruct Hok as [Hok Hm].
    apply andb_prop in Hok. destruct Hok as [Hp Ha]. simpl.
    apply Forall_app. split; [now apply HP|]. constructor; [discriminate|].
    apply Forall_app. split; [now apply IHa|]. constructor; [discriminate|].
    apply Forall_app. split; [now apply IHm|]. constructor; [discriminate|]. now apply IHr.
  - intros p d rest IHr Hok. simpl in Hok.
    apply andb_prop in Hok. destruct Hok as [Hok Hr]. apply andb_prop in Hok. destruct Hok as [Hp Hd]. simpl.
    apply Forall_app. split; [now apply HP|]. constructor; [discriminate|].
    apply Forall_app. split; [now apply sq_text_no_bs|]. constructor; [discriminate|]. now apply IHr.
  - intros t IHt H. now apply IHt.
  - intros t IHt more IHm Hok. simpl in Hok. apply andb_prop in Hok. destruct Hok as [Ht Hm]. simpl.
    apply Forall_app. split; [now apply IHt|]. constructor; [discriminate|]. now apply IHm.
Qed.

Lemma flat_comma_found : forall t1 t2, Forall (fun c => c <> BS) t1 -> flat_comma (t1 ++ COMMA :: t2) = true.
Proof.
  induction t1 as [|c t1 IH]; intros t2 H; [reflexivity|].
  inversion H as [|? ? Hc Ht]; subst. simpl. apply N.eqb_neq in Hc. rewrite Hc.
  destruct (c =? COMMA); [reflexivity|]. now apply IH.
Qed.

(* expand_amble on the alternatives *)
Lemma amb_cons : forall f t rest, ok_wt t = true ->
  amb (S f) (U t ++ COMMA :: rest) = sapp (bexp f (U t)) (amb f rest).
Proof.
  intros f t rest Ht. cbn [amb].
  rewrite (gobble_U_wt t Ht COMMA 0 1 _ (or_intror eq_refl)).
  cbn [gobble]. simpl. now rewrite app_nil_r.
Qed.

Lemma amb_one : forall f t, ok_wt t = true -> amb (S f) (U t) = bexp f (U t).
Proof.
  intros f t Ht. cbn [amb].
  rewrite <- (app_nil_r (U t)) at 1. rewrite (gobble_U_wt t Ht COMMA 0 1 [] (or_intror eq_refl)). reflexivity.
Qed.

(* bash's result on a regular word, as a function of the tree *)
Fixpoint E (t : wt) : sres :=
  match t with
  | WEnd p => Words [p]
  | WGroup p a more rest =>
      let r := sprod (Words [p]) (sapp (E a) (EA more)) in
      match U rest with [] => r | _ => sprod r (E rest) end
  | WSeq p d rest =>
      let r := sprod (Words [p]) (lim (sq_vals d)) in
      match U rest with [] => r | _ => sprod r (E rest) end
  end
with EA (m : alts) : sres :=
  match m with
  | AOne t => E t
  | ACons t more => sapp (E t) (EA more)
  end.

Fixpoint need (t : wt) : nat :=
  match t with
  | WEnd _ => 1
  | WGroup _ a more rest => S (Nat.max (S (Nat.max (need a) (needA more))) (need rest))
  | WSeq _ _ rest => S (need rest)
  end
with needA (m : alts) : nat :=
  match m with
  | AOne t => S (need t)
  | ACons t more => S (Nat.max (need t) (needA more))
  end.

Lemma plain_no_lb : forall p, plain p = true -> contains_byte LB p = false.
Proof.
  induction p as [|c p IH]; intros H; [reflexivity|].
  destruct (plain_cons _ _ H) as (H1 & _ & _ & _ & _ & Hp').
  unfold contains_byte in *. cbn [index_byte]. apply N.eqb_neq in H1. rewrite H1.
  specialize (IH Hp'). destruct (index_byte LB p); [discriminate|reflexivity].
Qed.

Lemma bexp_S : forall f t, bexp (S f) t =
  match find_brace (S (length t)) true [] t with
  | None => Words [t]
  | Some (pre, amble, post) =>
      let tack :=
        if flat_comma amble then amb f amble
        else match seq_term amble with
             | SeqList l => Words l
             | SeqMany => Many
             | NotSeq | SeqGuard => Words [LB :: amble ++ [RB]]
             end in
      let r := sprod (Words [pre]) tack in
      match post with
      | [] => r
      | _ => sprod r (bexp f post)
      end
  end.
Proof. reflexivity. Qed.

Lemma bexp_E :
  (forall t, ok_wt t = true -> forall fuel, (need t <= fuel)%nat -> bexp fuel (U t) = E t) /\
  (forall m, ok_alts m = true -> forall fuel, (needA m <= fuel)%nat -> amb fuel (UA m) = EA m).
Proof.
  apply wt_alts_ind.
  - intros p Hp fuel Hf. cbn [need needA] in Hf. destruct fuel as [|f]; [lia|]. simpl U. cbn [bexp find_brace].
    rewrite (gobble_lb_none (length p) p); auto using plain_no_lb.
  - intros p a IHa more IHm rest IHr Hok fuel Hf. simpl in Hok.
    apply andb_prop in Hok. destruct Hok as [Hok Hr]. apply andb_prop in Hok. destruct Hok as [Hok Hm].
    apply andb_prop in Hok. destruct Hok as [Hp Ha].
    cbn [need needA] in Hf. destruct fuel as [|f]; [lia|]. destruct f as [|f]; [lia|].
    rewrite bexp_S, find_brace_group by assumption. cbv zeta.
    rewrite flat_comma_found by (apply (proj1 no_bs_U); exact Ha).
    rewrite amb_cons by exact Ha.
    rewrite (IHa Ha f) by lia. rewrite (IHm Hm f) by lia.
    assert (Er: bexp (S f) (U rest) = E rest) by (apply (IHr Hr); lia).
    cbn [E]. destruct (U rest) eqn:EU; [reflexivity|]. rewrite Er. reflexivity.
  - intros p d rest IHr Hok fuel Hf. simpl in Hok.
    apply andb_prop in Hok. destruct Hok as [Hok Hr]. apply andb_prop in Hok. destruct Hok as [Hp Hd].
    cbn [need needA] in Hf. destruct fuel as [|f]; [lia|].
    rewrite bexp_S, find_brace_seq by assumption. cbv zeta.
    destruct (sq_agree d Hd) as (_ & _ & _ & Htack & Hfc & _). rewrite Hfc.
    change (match seq_term (sq_text d) with
            | SeqList l => Words l | SeqMany => Many | _ => Words [LB :: sq_text d ++ [RB]] end)
      with (tack_of (sq_text d)). rewrite Htack.
    assert (Er: bexp f (U rest) = E rest) by (apply (IHr Hr); lia).
    cbn [E]. destruct (U rest) eqn:EU; [reflexivity|]. rewrite Er. reflexivity.
  - intros t IHt Hok fuel Hf. cbn [need needA] in Hf. simpl in Hok. simpl UA. cbn [EA]. destruct fuel as [|f]; [lia|].
    rewrite amb_one by exact Hok. apply IHt; [exact Hok|lia].
  - intros t IHt more IHm Hok fuel Hf. simpl in Hok. apply andb_prop in Hok. destruct Hok as [Ht Hm].
    cbn [need needA] in Hf. destruct fuel as [|f]; [lia|]. simpl UA.
    rewrite amb_cons by exact Ht. rewrite (IHt Ht f) by lia. rewrite (IHm Hm f) by lia. reflexivity.
Qed.

Lemma need_le :
  (forall t, (need t <= 2 * length (U t) + 1)%nat) /\ (forall m, (needA m <= 2 * length (UA m) + 2)%nat).
Proof.
  apply wt_alts_ind; intros; cbn [need needA U UA]; repeat (rewrite ?app_length; cbn [length]); lia.
Qed.

Theorem spec_regular : forall t, ok_wt t = true -> spec (U t) = E t.
Proof.
  intros t H. unfold spec, spec_fuel. apply (proj1 bexp_E t H).
  pose proof (proj1 need_le t). lia.
Qed.

(* ------------------------------------------------------------------ E = the full product, cut at the limit *)

Lemma prod_length : forall X Y, length (prod X Y) = (length X * length Y)%nat.
Proof.
  induction X as [|x X IH]; intros Y; [reflexivity|]. unfold prod in *. simpl.
  now rewrite app_length, map_length, IH.
Qed.

Lemma sprod_lim : forall X Y, X <> [] -> Y <> [] -> sprod (lim X) (lim Y) = lim (prod X Y).
Proof.
  intros X Y HX HY. unfold lim. rewrite prod_length.
  assert (1 <= length X)%nat by (destruct X; [congruence|simpl; lia]).
  assert (1 <= length Y)%nat by (destruct Y; [congruence|simpl; lia]).
  destruct (Nat.ltb limit (length X)) eqn:EX.
  - apply Nat.ltb_lt in EX. simpl. assert (L: (limit < length X * length Y)%nat) by nia.
    apply Nat.ltb_lt in L. now rewrite L.
  - destruct (Nat.ltb limit (length Y)) eqn:EY.
    + apply Nat.ltb_lt in EY. simpl. assert (L: (limit < length X * length Y)%nat) by nia.
      apply Nat.ltb_lt in L. now rewrite L.
    + simpl. unfold product. reflexivity.
Qed.

Lemma sapp_lim : forall X Y, sapp (lim X) (lim Y) = lim (X ++ Y).
Proof.
  intros X Y. unfold lim. rewrite app_length.
  destruct (Nat.ltb limit (length X)) eqn:EX.
  - apply Nat.ltb_lt in EX. simpl. assert (L: (limit < length X + length Y)%nat) by lia.
    apply Nat.ltb_lt in L. now rewrite L.
  - destruct (Nat.ltb limit (length Y)) eqn:EY.
    + apply Nat.ltb_lt in EY. simpl. assert (L: (limit < length X + length Y)%nat) by lia.
      apply Nat.ltb_lt in L. now rewrite L.
    + simpl. reflexivity.
Qed.

Lemma prod_nonempty : forall X Y, X <> [] -> Y <> [] -> prod X Y <> [].
Proof.
  intros [|x X] [|y Y] HX HY; try congruence. unfold prod. simpl. discriminate.
Qed.

Lemma T_nonempty : (forall t, ok_wt t = true -> T t <> []) /\ (forall m, ok_alts m = true -> TA m <> []).
Proof.
  apply wt_alts_ind; cbn [T TA].
  - discriminate.
  - intros p a IHa more IHm rest IHr Hok. simpl in Hok.
    apply andb_prop in Hok. destruct Hok as [Hok Hr]. apply andb_prop in Hok. destruct Hok as [Hok Hm].
    apply andb_prop in Hok. destruct Hok as [Hp Ha].
    apply prod_nonempty; [apply prod_nonempty; [discriminate|]|auto].
    intros E0. apply app_eq_nil in E0. destruct E0 as [E0 _]. now apply IHa.
  - intros p d rest IHr Hok. simpl in Hok.
    apply andb_prop in Hok. destruct Hok as [Hok Hr]. apply andb_prop in Hok. destruct Hok as [Hp Hd].
    destruct (sq_agree d Hd) as (_ & NE & _).
    apply prod_nonempty; [apply prod_nonempty; [discriminate|exact NE]|auto].
  - intros t IHt H. now apply IHt.
  - intros t IHt more IHm Hok. simpl in Hok. apply andb_prop in Hok. destruct Hok as [Ht Hm].
    intros E0. apply app_eq_nil in E0. destruct E0 as [E0 _]. now apply IHt.
Qed.

Lemma prod_unit_r : forall X, prod X [[]] = X.
Proof.
  induction X as [|x X IH]; [reflexivity|].
  change (prod (x :: X) [[]]) with ((x ++ []) :: prod X [[]]). now rewrite IH, app_nil_r.
Qed.

Lemma lim_single : forall p, Words [p] = lim [p].
Proof. reflexivity. Qed.

Lemma U_nil_T : forall t, ok_wt t = true -> U t = [] -> T t = [[]].
Proof.
  intros [p|p a more rest|p d rest] _ H; simpl in *.
  - now subst.
  - exfalso. destruct p; discriminate.
  - exfalso. destruct p; discriminate.
Qed.

Lemma E_lim : (forall t, ok_wt t = true -> E t = lim (T t)) /\ (forall m, ok_alts m = true -> EA m = lim (TA m)).
Proof.
  apply wt_alts_ind.
  - intros p _. reflexivity.
  - intros p a IHa more IHm rest IHr Hok. pose proof Hok as Hok0. simpl in Hok.
    apply andb_prop in Hok. destruct Hok as [Hok Hr]. apply andb_prop in Hok. destruct Hok as [Hok Hm].
    apply andb_prop in Hok. destruct Hok as [Hp Ha].
    cbn [E T]. rewrite (IHa Ha), (IHm Hm), (IHr Hr), sapp_lim, lim_single.
    assert (N1: T a ++ TA more <> []).
    { intros E0. apply app_eq_nil in E0. destruct E0 as [E0 _]. now apply (proj1 T_nonempty a). }
    rewrite sprod_lim by (auto; discriminate).
    destruct (U rest) eqn:EU.
    + rewrite (U_nil_T rest Hr EU), prod_unit_r. reflexivity.
    + rewrite sprod_lim; auto.
      * apply prod_nonempty; auto; discriminate.
      * now apply (proj1 T_nonempty).
  - intros p d rest IHr Hok. simpl in Hok.
    apply andb_prop in Hok. destruct Hok as [Hok Hr]. apply andb_prop in Hok. destruct Hok as [Hp Hd].
    destruct (sq_agree d Hd) as (_ & NE & _).
    cbn [E T]. rewrite (IHr Hr), lim_single. rewrite sprod_lim by (auto; discriminate).
    destruct (U rest) eqn:EU.
    + rewrite (U_nil_T rest Hr EU), prod_unit_r. reflexivity.
    + rewrite sprod_lim; auto.
      * apply prod_nonempty; auto; discriminate.
      * now apply (proj1 T_nonempty).
  - intros t IHt H. now apply IHt.
  - intros t IHt more IHm Hok. simpl in Hok. apply andb_prop in Hok. destruct Hok as [Ht Hm].
    cbn [EA TA]. now rewrite (IHt Ht), (IHm Hm), sapp_lim.
Qed.

(* ------------------------------------------------------------------ Go: the stack splitter over regular text *)

Fixpoint parts_of (t : wt) : word * str :=      (* parts appended to the current element, pending literal *)
  match t with
  | WEnd p => ([], p)
  | WGroup p a more rest =>
      (lit_of p ++ PBrace false ((fst (parts_of a) ++ lit_of (snd (parts_of a))) :: elemsA more) :: fst (parts_of rest),
       snd (parts_of rest))
  | WSeq p d rest =>
      (lit_of p ++ PBrace true (sq_es d) :: fst (parts_of rest), snd (parts_of rest))
  end
with elemsA (m : alts) : list word :=
  match m with
  | AOne t => [fst (parts_of t) ++ lit_of (snd (parts_of t))]
  | ACons t more => (fst (parts_of t) ++ lit_of (snd (parts_of t))) :: elemsA more
  end.
Definition elem (t : wt) : word := fst (parts_of t) ++ lit_of (snd (parts_of t)).

Definition with_found (b : bool) (st : state) : state := mkState (top st) (opn st) b.
Definition fnd (t : wt) (b : bool) : bool := match t with WEnd _ => b | _ => true end.

Lemma add_parts_nil : forall st, add_parts [] st = st.
Proof. intros [tp [|[sq d a] r] fd]; unfold add_parts; simpl; now rewrite app_nil_r. Qed.

Lemma with_found_id : forall st, with_found (found st) st = st.
Proof. now intros [tp fs fd]. Qed.

Lemma add_parts_add_parts : forall a b st, add_parts b (add_parts a st) = add_parts (a ++ b) st.
Proof. intros a b [tp [|[sq d c] r] fd]; unfold add_parts; simpl; now rewrite app_assoc. Qed.

Lemma add_parts_with_found : forall ps b st, add_parts ps (with_found b st) = with_found b (add_parts ps st).
Proof. intros ps b [tp [|f r] fd]; reflexivity. Qed.

Lemma with_found_twice : forall b c st, with_found b (with_found c st) = with_found b st.
Proof. reflexivity. Qed.

Lemma with_found_mk : forall b st x, with_found b (mkState (top st) (opn st) x) = with_found b st.
Proof. reflexivity. Qed.

Lemma with_found_add_indep : forall x ps tp r b b',
  with_found x (add_parts ps (mkState tp r b)) = with_found x (add_parts ps (mkState tp r b')).
Proof. intros x ps tp [|f r] b b'; reflexivity. Qed.

Lemma scan_plain : forall p, plain p = true -> forall x pend st, scan (p ++ x) pend st = scan x (pend ++ p) st.
Proof.
  induction p as [|c p IH]; intros Hp x pend st.
  - simpl. now rewrite app_nil_r.
  - destruct (plain_cons _ _ Hp) as (H1 & H2 & H3 & H4 & H5 & Hp').
    apply N.eqb_neq in H1, H2, H3, H4, H5.
    change ((c :: p) ++ x) with (c :: (p ++ x)). cbn [scan]. rewrite H5, H1.
    assert (E0: scan (p ++ x) (pend ++ [c]) st = scan x (pend ++ c :: p) st).
    { rewrite (IH Hp'). now rewrite <- app_assoc. }
    destruct (opn st) as [|f r]; [exact E0|]. rewrite H3, H4, H2. exact E0.
Qed.

Lemma scan_lb : forall x pend st, scan (LB :: x) pend st = scan x [] (open_brace (flush pend st)).
Proof. reflexivity. Qed.

Lemma scan_comma : forall x pend tp f r fd,
  scan (COMMA :: x) pend (mkState tp (f :: r) fd) = scan x [] (do_comma (flush_frame pend f) r (mkState tp (f :: r) fd)).
Proof. reflexivity. Qed.

Lemma scan_rb : forall x pend tp f r fd,
  scan (RB :: x) pend (mkState tp (f :: r) fd) = scan x [] (do_close (flush_frame pend f) r (mkState tp (f :: r) fd)).
Proof. reflexivity. Qed.

Lemma scan_dots : forall x pend tp f r fd,
  negb (fseq f) && Nat.ltb 1 (length (felems f)) = false ->
  scan (DOT :: DOT :: x) pend (mkState tp (f :: r) fd)
  = scan x [] (do_dots (flush_frame pend f) r (mkState tp (f :: r) fd)).
Proof. intros x pend tp f r fd H. cbn [scan opn]. evalc. cbv iota. rewrite H. reflexivity. Qed.

Lemma close_parts_seq : forall f, fseq f = true -> (2 <= length (felems f))%nat -> seq_broken (felems f) = false ->
  close_parts f = ([PBrace true (felems f)], true).
Proof.
  intros f Sq L B. unfold close_parts. destruct (felems f) as [|e [|e' es]]; simpl in L; try lia.
  cbv zeta. rewrite Sq. cbn [negb]. now rewrite B.
Qed.

Lemma lit_of_ne : forall s, s <> [] -> lit_of s = [PLit s].
Proof. intros [|c s] H; [congruence|reflexivity]. Qed.

(* the splitter over the text of a clean sequence, from a fresh frame: one sequence BraceExp *)
Lemma scan_seq : forall d, sq_okb d = true -> forall x tp r fd,
  scan (sq_text d ++ RB :: x) [] (mkState tp (mkFrame false [] [] :: r) fd)
  = scan x [] (with_found true (add_parts [PBrace true (sq_es d)] (mkState tp r fd))).
Proof.
  intros d H x tp r fd. destruct (sq_plain d H) as (Px & Py & Nx & Ny & Hn).
  destruct (sq_agree d H) as (_ & _ & Hb & _).
  unfold sq_text, sq_tail. rewrite <- !app_assoc. rewrite scan_plain by exact Px. simpl app.
  rewrite scan_dots by reflexivity.
  assert (E1: do_dots (flush_frame (sx d) (mkFrame false [] [])) r (mkState tp (mkFrame false [] [] :: r) fd)
              = mkState tp (mkFrame true [[PLit (sx d)]] [] :: r) fd).
  { unfold do_dots, flush_frame, felems. cbn [fdone facc top found app]. now rewrite (lit_of_ne _ Nx). }
  rewrite E1. rewrite <- !app_assoc. rewrite scan_plain by exact Py. simpl app.
  unfold sq_es, sq_more in *.
  destruct (sn d) as [n|].
  - destruct Hn as [Pn Nn]. simpl app. rewrite scan_dots by reflexivity.
    assert (E2: do_dots (flush_frame (sy d) (mkFrame true [[PLit (sx d)]] [])) r (mkState tp (mkFrame true [[PLit (sx d)]] [] :: r) fd)
                = mkState tp (mkFrame true [[PLit (sx d)]; [PLit (sy d)]] [] :: r) fd).
    { unfold do_dots, flush_frame, felems. cbn [fdone facc top found app]. now rewrite (lit_of_ne _ Ny). }
    rewrite E2. rewrite scan_plain by exact Pn. simpl app. rewrite scan_rb. f_equal.
    unfold do_close. rewrite close_parts_seq.
    + cbn [found top]. rewrite orb_true_r. unfold flush_frame, felems. cbn [fdone facc fseq app].
      rewrite (lit_of_ne _ Nn). destruct r as [|g r']; reflexivity.
    + reflexivity.
    + unfold flush_frame, felems. cbn [fdone facc app]. rewrite (lit_of_ne _ Nn). simpl. lia.
    + unfold flush_frame, felems. cbn [fdone facc app]. rewrite (lit_of_ne _ Nn). exact Hb.
  - simpl app. rewrite scan_rb. f_equal.
    unfold do_close. rewrite close_parts_seq.
    + cbn [found top]. rewrite orb_true_r. unfold flush_frame, felems. cbn [fdone facc fseq app].
      rewrite (lit_of_ne _ Ny). destruct r as [|g r']; reflexivity.
    + reflexivity.
    + unfold flush_frame, felems. cbn [fdone facc app]. rewrite (lit_of_ne _ Ny). simpl. lia.
    + unfold flush_frame, felems. cbn [fdone facc app]. rewrite (lit_of_ne _ Ny). exact Hb.
Qed.

Lemma close_parts_list : forall f, fseq f = false -> (2 <= length (felems f))%nat ->
  close_parts f = ([PBrace false (felems f)], true).
Proof.
  intros f Sq L. unfold close_parts. destruct (felems f) as [|e [|e' es]]; simpl in L; try lia.
  cbv zeta. now rewrite Sq.
Qed.

Lemma fnd_true : forall t, fnd t true = true.
Proof. now destruct t. Qed.

Lemma scan_U :
  (forall t, ok_wt t = true -> forall x st,
     scan (U t ++ x) [] st
     = scan x (snd (parts_of t)) (with_found (fnd t (found st)) (add_parts (fst (parts_of t)) st)))
  /\
  (forall m, ok_alts m = true -> forall x d tp r fd, d <> [] ->
     scan (UA m ++ RB :: x) [] (mkState tp (mkFrame false d [] :: r) fd)
     = scan x [] (with_found true (add_parts [PBrace false (d ++ elemsA m)] (mkState tp r fd)))).
Proof.
  apply wt_alts_ind.
  - (* plain text *)
    intros p Hp x st. simpl in Hp. cbn [U parts_of fst snd fnd].
    rewrite scan_plain by exact Hp. now rewrite add_parts_nil, with_found_id.
  - (* a group *)
    intros p a IHa more IHm rest IHr Hok x st. simpl in Hok.
    apply andb_prop in Hok. destruct Hok as [Hok Hr]. apply andb_prop in Hok. destruct Hok as [Hok Hm].
    apply andb_prop in Hok. destruct Hok as [Hp Ha].
    cbn [U]. rewrite <- app_assoc. rewrite scan_plain by exact Hp. simpl app.
    rewrite scan_lb. rewrite <- app_assoc. rewrite (IHa Ha). simpl app.
    (* the state after the first alternative: its parts are in the new frame *)
    destruct st as [tp fs fd].
    set (S1 := flush p {| top := tp; opn := fs; found := fd |}).
    assert (ES: with_found (fnd a (found (open_brace S1))) (add_parts (fst (parts_of a)) (open_brace S1))
                = mkState (top S1) (mkFrame false [] (fst (parts_of a)) :: opn S1) (fnd a (found S1))).
    { reflexivity. }
    rewrite ES. rewrite scan_comma.
    assert (EC: do_comma (flush_frame (snd (parts_of a)) (mkFrame false [] (fst (parts_of a)))) (opn S1)
                  (mkState (top S1) (mkFrame false [] (fst (parts_of a)) :: opn S1) (fnd a (found S1)))
                = mkState (top S1) (mkFrame false [elem a] [] :: opn S1) (fnd a (found S1))).
    { reflexivity. }
    rewrite EC. rewrite <- app_assoc. simpl app.
    rewrite (IHm Hm) by discriminate.
    rewrite (IHr Hr). cbn [parts_of fst snd fnd found with_found]. f_equal.
    rewrite fnd_true. rewrite add_parts_with_found, with_found_twice.
    rewrite add_parts_add_parts.
    rewrite (with_found_add_indep true _ (top S1) (opn S1) _ (found S1)).
    assert (E1: mkState (top S1) (opn S1) (found S1) = S1) by (destruct S1; reflexivity).
    rewrite E1. unfold S1, flush. rewrite !add_parts_add_parts. unfold elem. reflexivity.
  - (* a sequence *)
    intros p d rest IHr Hok x st. simpl in Hok.
    apply andb_prop in Hok. destruct Hok as [Hok Hr]. apply andb_prop in Hok. destruct Hok as [Hp Hd].
    cbn [U]. rewrite <- app_assoc. rewrite scan_plain by exact Hp. simpl app.
    rewrite scan_lb. rewrite <- app_assoc. simpl app.
    destruct st as [tp fs fd].
    set (S1 := flush p {| top := tp; opn := fs; found := fd |}).
    assert (ES: open_brace S1 = mkState (top S1) (mkFrame false [] [] :: opn S1) (found S1)) by reflexivity.
    rewrite ES, (scan_seq d Hd).
    rewrite (IHr Hr). cbn [parts_of fst snd fnd found with_found]. f_equal.
    rewrite fnd_true. rewrite add_parts_with_found, with_found_twice.
    rewrite add_parts_add_parts.
    assert (E1: mkState (top S1) (opn S1) (found S1) = S1) by (destruct S1; reflexivity).
    rewrite E1. unfold S1, flush. rewrite !add_parts_add_parts. reflexivity.
  - (* the last alternative, then '}' *)
    intros t IHt Hok x d tp r fd Hd. simpl in Hok. cbn [UA elemsA].
    rewrite (IHt Hok).
    assert (ES: with_found (fnd t (found (mkState tp (mkFrame false d [] :: r) fd)))
                  (add_parts (fst (parts_of t)) (mkState tp (mkFrame false d [] :: r) fd))
                = mkState tp (mkFrame false d (fst (parts_of t)) :: r) (fnd t fd)) by reflexivity.
    rewrite ES, scan_rb. f_equal. unfold do_close.
    rewrite close_parts_list.
    + cbn [found top]. rewrite orb_true_r. destruct r as [|g r']; reflexivity.
    + reflexivity.
    + unfold felems, flush_frame. cbn [fdone facc]. rewrite app_length. simpl. destruct d; [congruence|simpl; lia].
  - (* an alternative followed by ',' *)
    intros t IHt more IHm Hok x d tp r fd Hd. simpl in Hok. apply andb_prop in Hok. destruct Hok as [Ht Hm].
    cbn [UA elemsA]. rewrite <- app_assoc. rewrite (IHt Ht). simpl app.
    assert (ES: with_found (fnd t (found (mkState tp (mkFrame false d [] :: r) fd)))
                  (add_parts (fst (parts_of t)) (mkState tp (mkFrame false d [] :: r) fd))
                = mkState tp (mkFrame false d (fst (parts_of t)) :: r) (fnd t fd)) by reflexivity.
    rewrite ES, scan_comma.
    assert (EC: do_comma (flush_frame (snd (parts_of t)) (mkFrame false d (fst (parts_of t)))) r
                  (mkState tp (mkFrame false d (fst (parts_of t)) :: r) (fnd t fd))
                = mkState tp (mkFrame false (d ++ [elem t]) [] :: r) (fnd t fd)) by reflexivity.
    rewrite EC. rewrite (IHm Hm) by (destruct d; discriminate).
    rewrite (with_found_add_indep true _ tp r (fnd t fd) fd).
    unfold elem. rewrite <- app_assoc. reflexivity.
Qed.

Lemma contains_lb_app : forall p x, contains_byte LB (p ++ LB :: x) = true.
Proof.
  intros p x. unfold contains_byte. induction p as [|c p IH]; cbn [app index_byte].
  - reflexivity.
  - destruct (c =? LB); [reflexivity|]. destruct (index_byte LB (p ++ LB :: x)); [reflexivity|discriminate].
Qed.

Lemma U_has_lb : forall t, fnd t false = true -> contains_byte LB (U t) = true.
Proof.
  intros [p|p a more rest|p d rest] H; [discriminate| |]; cbn [U]; apply contains_lb_app.
Qed.

Theorem split_regular_brace : forall t, ok_wt t = true -> fnd t false = true ->
  split_braces (U t) = (true, elem t).
Proof.
  intros t Hok Hf. unfold split_braces. rewrite (U_has_lb t Hf). cbn [negb].
  rewrite <- (app_nil_r (U t)). rewrite (proj1 scan_U _ Hok). cbn [scan].
  assert (F: fnd t (found {| top := []; opn := []; found := false |}) = true) by exact Hf.
  rewrite F. unfold flush, elem. cbn [found add_parts opn top with_found]. cbn [unclosed]. rewrite app_nil_r. reflexivity.
Qed.

(* ------------------------------------------------------------------ Go: bracesSeqRec on the resulting trees *)

Fixpoint tp_sem (q : part) : list str :=
  match q with
  | PLit s => [s]
  | PBrace sq es =>
      if sq then match seq_values es with Ok v => v | _ => [] end
      else flat_map (fun e => fold_right (fun x acc => prod (tp_sem x) acc) [[]] e) es
  end.
Definition TW (w : word) : list str := fold_right (fun x acc => prod (tp_sem x) acc) [[]] w.

Lemma prod_cons_l : forall x X Y, prod (x :: X) Y = map (fun y => x ++ y) Y ++ prod X Y.
Proof. reflexivity. Qed.

Lemma prod_app_l : forall A B Z, prod (A ++ B) Z = prod A Z ++ prod B Z.
Proof. intros; unfold prod. now rewrite flat_map_app. Qed.

Lemma prod_map_l : forall x Y Z, prod (map (fun y => x ++ y) Y) Z = map (fun y => x ++ y) (prod Y Z).
Proof.
  intros x Y Z. induction Y as [|y Y IH]; [reflexivity|].
  cbn [map]. rewrite !prod_cons_l, map_app, IH. f_equal.
  rewrite map_map. apply map_ext. intros z. now rewrite app_assoc.
Qed.

Lemma prod_assoc : forall X Y Z, prod (prod X Y) Z = prod X (prod Y Z).
Proof.
  induction X as [|x X IH]; intros Y Z; [reflexivity|].
  rewrite !prod_cons_l, prod_app_l, IH, prod_map_l. reflexivity.
Qed.

Lemma prod_unit_l : forall Y, prod [[]] Y = Y.
Proof. intros Y. unfold prod. simpl. rewrite app_nil_r. now rewrite map_id. Qed.

Lemma prod_flat_map_l : forall {A} (g : A -> list str) l Z,
  prod (flat_map g l) Z = flat_map (fun e => prod (g e) Z) l.
Proof.
  intros A g l Z. induction l as [|e l IH]; [reflexivity|]. simpl. now rewrite prod_app_l, IH.
Qed.

Lemma prod_singletons : forall vals Z, flat_map (fun v => prod [v] Z) vals = prod vals Z.
Proof.
  intros vals Z. unfold prod. apply flat_map_ext. intros v. simpl. now rewrite app_nil_r.
Qed.

Lemma TW_cons : forall q w, TW (q :: w) = prod (tp_sem q) (TW w).
Proof. reflexivity. Qed.

Lemma TW_app : forall a b, TW (a ++ b) = prod (TW a) (TW b).
Proof.
  induction a as [|q a IH]; intros b.
  - change (TW ([] ++ b)) with (TW b). change (TW []) with [@nil N]. now rewrite prod_unit_l.
  - change ((q :: a) ++ b) with (q :: (a ++ b)). rewrite !TW_cons, IH, prod_assoc. reflexivity.
Qed.

Lemma tp_sem_list : forall es, tp_sem (PBrace false es) = flat_map TW es.
Proof. reflexivity. Qed.

Lemma tp_sem_seq : forall es, tp_sem (PBrace true es) = match seq_values es with Ok v => v | _ => [] end.
Proof. reflexivity. Qed.

Lemma flat_res_sem : forall {A} (f : A -> res (list (list str))) (g : A -> list str) es l,
  (forall e l', In e es -> f e = Ok l' -> map (@concat N) l' = g e) ->
  flat_res f es = Ok l -> map (@concat N) l = flat_map g es.
Proof.
  intros A f g. induction es as [|e es IH]; intros l H R; simpl in R.
  - injection R as <-. reflexivity.
  - destruct (f e) as [le| |] eqn:Fe; try discriminate.
    destruct (flat_res f es) as [lr| |] eqn:Fr; try discriminate.
    injection R as <-. rewrite map_app. simpl. f_equal.
    + apply (H e le); [now left|exact Fe].
    + apply IH; [|reflexivity]. intros e' l' Hin. apply H. now right.
Qed.

Lemma braces_rec_sem : forall fuel w l, braces_rec fuel w = Ok l -> map (@concat N) l = TW w.
Proof.
  induction fuel as [|fuel IH]; intros w l R; [discriminate|].
  destruct w as [|[s|sq es] rest]; simpl in R.
  - injection R as <-. reflexivity.
  - destruct (braces_rec fuel rest) as [l0| |] eqn:R0; try discriminate.
    injection R as <-. rewrite TW_cons. cbn [tp_sem]. rewrite prod_cons_l. cbn [prod flat_map]. rewrite app_nil_r.
    rewrite <- (IH rest l0 R0). rewrite !map_map. reflexivity.
  - destruct sq.
    + rewrite TW_cons, tp_sem_seq. destruct (seq_values es) as [vals| |]; try discriminate.
      rewrite <- prod_singletons.
      apply (flat_res_sem (fun v => braces_rec fuel (PLit v :: rest)) (fun v => prod [v] (TW rest)) vals l); [|exact R].
      intros v l' _ Rv. change (prod [v] (TW rest)) with (TW (PLit v :: rest)). now apply IH.
    + rewrite TW_cons, tp_sem_list, prod_flat_map_l.
      apply (flat_res_sem (fun e => braces_rec fuel (e ++ rest)) (fun e => prod (TW e) (TW rest)) es l); [|exact R].
      intros e l' Hin Re. rewrite <- TW_app. now apply IH.
Qed.

(* the tree the splitter builds denotes the declarative product *)
Lemma TW_lit_of : forall p, TW (lit_of p) = [p].
Proof. destruct p; [reflexivity|]. unfold TW, prod. simpl. now rewrite app_nil_r. Qed.

Lemma elem_group : forall p a more rest,
  elem (WGroup p a more rest) = lit_of p ++ PBrace false (elem a :: elemsA more) :: elem rest.
Proof. intros. unfold elem. cbn [parts_of fst snd]. now rewrite <- app_assoc. Qed.

Lemma elem_seq : forall p d rest,
  elem (WSeq p d rest) = lit_of p ++ PBrace true (sq_es d) :: elem rest.
Proof. intros. unfold elem. cbn [parts_of fst snd]. now rewrite <- app_assoc. Qed.

Lemma elem_sem :
  (forall t, TW (elem t) = T t) /\ (forall m, flat_map TW (elemsA m) = TA m).
Proof.
  apply wt_alts_ind.
  - intros p. unfold elem. cbn [parts_of fst snd app T]. apply TW_lit_of.
  - intros p a Ta more Tm rest Tr. rewrite elem_group.
    rewrite TW_app, TW_cons, TW_lit_of, tp_sem_list. cbn [flat_map]. rewrite Ta, Tm, Tr. cbn [T].
    now rewrite prod_assoc.
  - intros p d rest Tr. rewrite elem_seq.
    rewrite TW_app, TW_cons, TW_lit_of, tp_sem_seq, Tr. cbn [T]. fold (sq_vals d). now rewrite prod_assoc.
  - intros t Tt. cbn [elemsA flat_map TA]. fold (elem t). now rewrite Tt, app_nil_r.
  - intros t Tt more Tm. cbn [elemsA flat_map TA]. fold (elem t). now rewrite Tt, Tm.
Qed.

(* ------------------------------------------------------------------ the theorem *)

Theorem expand_matches_spec_regular : forall t, ok_wt t = true -> to_sres (expand_word (U t)) = spec (U t).
Proof.
  intros t Hok. rewrite (spec_regular t Hok), (proj1 E_lim t Hok).
  destruct (fnd t false) eqn:Hf.
  - pose proof (split_regular_brace t Hok Hf) as HS.
    pose proof (split_wf (U t)) as W. rewrite HS in W. cbn [snd] in W.
    unfold expand_word. rewrite HS. set (q := elem t) in *.
    pose proof (proj1 elem_sem t) as Tq. fold q in Tq.
    unfold expand.
    pose proof (braces_rec_no_panic (S (word_size q)) q W) as NP.
    pose proof (fun c => braces_rec_fuel (S (word_size q)) q c (Nat.lt_succ_diag_r _)) as NF.
    destruct (braces_rec (S (word_size q)) q) as [l|c|] eqn:R; [|exfalso; now apply (NF c)|congruence].
    pose proof (braces_rec_sem _ _ _ R) as Sem. rewrite Tq in Sem.
    unfold lim. rewrite <- Sem, map_length. unfold str in *.
    destruct (Nat.ltb limit (length l)); reflexivity.
  - destruct t as [p|p a more rest|p d rest]; try discriminate.
    simpl in Hok. cbn [U T]. destruct (no_brace_word p (plain_no_lb p Hok)) as [-> _]. reflexivity.
Qed.

(* ------------------------------------------------------------------ a decidable recogniser of the scope *)

Fixpoint span_plain (s : str) : str * str :=
  match s with
  | c :: s' => if is_meta c then ([], s) else let '(p, r) := span_plain s' in (c :: p, r)
  | [] => ([], [])
  end.

(* "x..y}" or "x..y..n}" right after a '{' *)
Definition parse_seq (s : str) : option (sq * str) :=
  let '(x, r2) := span_plain s in
  match r2 with
  | c1 :: c2 :: r3 =>
      if (c1 =? DOT) && (c2 =? DOT) then
        let '(y, r4) := span_plain r3 in
        match r4 with
        | c3 :: r5 =>
            if c3 =? RB then Some (mkSq x y None, r5)
            else match r5 with
                 | c4 :: r6 =>
                     if (c3 =? DOT) && (c4 =? DOT) then
                       let '(n, r7) := span_plain r6 in
                       match r7 with
                       | c5 :: r8 => if c5 =? RB then Some (mkSq x y (Some n), r8) else None
                       | [] => None
                       end
                     else None
                 | [] => None
                 end
        | [] => None
        end
      else None
  | _ => None
  end.

Fixpoint parse_wt (fuel : nat) (s : str) : option (wt * str) :=
  match fuel with
  | O => None
  | S f =>
      let '(p, r) := span_plain s in
      match r with
      | c :: r1 =>
          if c =? LB then
            match (match parse_seq r1 with Some (d, r5) => if sq_okb d then Some (d, r5) else None | None => None end) with
            | Some (d, r5) =>
                match parse_wt f r5 with
                | Some (rest, r6) => Some (WSeq p d rest, r6)
                | None => None
                end
            | None =>
            match parse_wt f r1 with
            | Some (a, c2 :: r2) =>
                if c2 =? COMMA then
                  match parse_alts f r2 with
                  | Some (more, c3 :: r3) =>
                      if c3 =? RB then
                        match parse_wt f r3 with
                        | Some (rest, r4) => Some (WGroup p a more rest, r4)
                        | None => None
                        end
                      else None
                  | _ => None
                  end
                else None
            | _ => None
            end
            end
          else Some (WEnd p, r)
      | [] => Some (WEnd p, r)
      end
  end
with parse_alts (fuel : nat) (s : str) : option (alts * str) :=
  match fuel with
  | O => None
  | S f =>
      match parse_wt f s with
      | Some (t, c :: r) =>
          if c =? COMMA then
            match parse_alts f r with
            | Some (more, r') => Some (ACons t more, r')
            | None => None
            end
          else Some (AOne t, c :: r)
      | Some (t, []) => Some (AOne t, [])
      | None => None
      end
  end.

(* w is regular: plain runs (no { } , . \) and comma groups with at least two alternatives, properly nested *)
Definition regular (w : str) : bool :=
  match parse_wt (S (length w)) w with
  | Some (_, []) => true
  | _ => false
  end.

Lemma span_plain_ok : forall s p r, span_plain s = (p, r) -> s = p ++ r /\ plain p = true.
Proof.
  induction s as [|c s IH]; intros p r H; simpl in H.
  - injection H as <- <-. auto.
  - destruct (is_meta c) eqn:M.
    + injection H as <- <-. auto.
    + destruct (span_plain s) as [p' r'] eqn:E. injection H as <- <-.
      destruct (IH p' r' eq_refl) as [-> Hp]. split; [reflexivity|]. unfold plain in *. simpl. now rewrite M.
Qed.

Lemma parse_seq_sound : forall s d r, parse_seq s = Some (d, r) -> s = sq_text d ++ RB :: r.
Proof.
  intros s d r H. unfold parse_seq in H.
  destruct (span_plain s) as [x r2] eqn:Sx. destruct (span_plain_ok _ _ _ Sx) as [-> _].
  destruct r2 as [|c1 [|c2 r3]]; try discriminate.
  destruct ((c1 =? DOT) && (c2 =? DOT)) eqn:E1; [|discriminate].
  apply andb_prop in E1. destruct E1 as [E1 E2]. apply N.eqb_eq in E1, E2. subst c1 c2.
  destruct (span_plain r3) as [y r4] eqn:Sy. destruct (span_plain_ok _ _ _ Sy) as [-> _].
  destruct r4 as [|c3 r5]; [discriminate|].
  destruct (c3 =? RB) eqn:E3.
  - apply N.eqb_eq in E3. subst c3. injection H as <- <-. unfold sq_text, sq_tail. simpl.
    rewrite <- !app_assoc. simpl. rewrite ?app_nil_r. reflexivity.
  - destruct r5 as [|c4 r6]; [discriminate|].
    destruct ((c3 =? DOT) && (c4 =? DOT)) eqn:E4; [|discriminate].
    apply andb_prop in E4. destruct E4 as [E4 E5]. apply N.eqb_eq in E4, E5. subst c3 c4.
    destruct (span_plain r6) as [n r7] eqn:Sn. destruct (span_plain_ok _ _ _ Sn) as [-> _].
    destruct r7 as [|c5 r8]; [discriminate|].
    destruct (c5 =? RB) eqn:E6; [|discriminate]. apply N.eqb_eq in E6. subst c5. injection H as <- <-.
    unfold sq_text, sq_tail. simpl. rewrite <- !app_assoc. simpl. rewrite <- !app_assoc. reflexivity.
Qed.

Lemma parse_sound : forall fuel,
  (forall s t r, parse_wt fuel s = Some (t, r) -> s = U t ++ r /\ ok_wt t = true) /\
  (forall s m r, parse_alts fuel s = Some (m, r) -> s = UA m ++ r /\ ok_alts m = true).
Proof.
  induction fuel as [|f [IHw IHa]]; [split; discriminate|]. split.
  - intros s t r H. cbn [parse_wt] in H.
    destruct (span_plain s) as [p r0] eqn:Sp. destruct (span_plain_ok _ _ _ Sp) as [-> Hp].
    destruct r0 as [|c r1]; [injection H as <- <-; auto|].
    destruct (c =? LB) eqn:Ec; [|injection H as <- <-; auto].
    apply N.eqb_eq in Ec. subst c.
    destruct (match parse_seq r1 with Some (d, r5) => if sq_okb d then Some (d, r5) else None | None => None end)
      as [[d r5]|] eqn:Ps.
    { destruct (parse_seq r1) as [[d' r5']|] eqn:Ps'; [|discriminate].
      destruct (sq_okb d') eqn:Okd; [|discriminate]. injection Ps as <- <-.
      destruct (parse_wt f r5') as [[rest r6]|] eqn:Pr; [|discriminate]. injection H as <- <-.
      rewrite (parse_seq_sound _ _ _ Ps'). destruct (IHw _ _ _ Pr) as [-> Or]. split.
      - cbn [U]. rewrite <- !app_assoc. simpl. rewrite <- !app_assoc. reflexivity.
      - simpl. now rewrite Hp, Okd, Or. }
    destruct (parse_wt f r1) as [[a [|c2 r2]]|] eqn:Pa; try discriminate.
    destruct (c2 =? COMMA) eqn:Ec2; [|discriminate]. apply N.eqb_eq in Ec2. subst c2.
    destruct (parse_alts f r2) as [[more [|c3 r3]]|] eqn:Pm; try discriminate.
    destruct (c3 =? RB) eqn:Ec3; [|discriminate]. apply N.eqb_eq in Ec3. subst c3.
    destruct (parse_wt f r3) as [[rest r4]|] eqn:Pr; [|discriminate].
    injection H as <- <-.
    destruct (IHw _ _ _ Pa) as [-> Oa]. destruct (IHa _ _ _ Pm) as [-> Om]. destruct (IHw _ _ _ Pr) as [-> Or].
    split.
    + cbn [U]. rewrite <- !app_assoc. simpl. rewrite <- !app_assoc. simpl. rewrite <- !app_assoc. reflexivity.
    + simpl. now rewrite Hp, Oa, Om, Or.
  - intros s m r H. cbn [parse_alts] in H.
    destruct (parse_wt f s) as [[t [|c r1]]|] eqn:Pt; try discriminate.
    + injection H as <- <-. destruct (IHw _ _ _ Pt) as [-> Ot]. auto.
    + destruct (c =? COMMA) eqn:Ec.
      * apply N.eqb_eq in Ec. subst c.
        destruct (parse_alts f r1) as [[more r']|] eqn:Pm; [|discriminate]. injection H as <- <-.
        destruct (IHw _ _ _ Pt) as [-> Ot]. destruct (IHa _ _ _ Pm) as [-> Om]. split.
        -- cbn [UA]. rewrite <- !app_assoc. reflexivity.
        -- simpl. now rewrite Ot, Om.
      * injection H as <- <-. destruct (IHw _ _ _ Pt) as [-> Ot]. auto.
Qed.

Theorem regular_sound : forall w, regular w = true -> exists t, ok_wt t = true /\ U t = w.
Proof.
  intros w H. unfold regular in H.
  destruct (parse_wt (S (length w)) w) as [[t [|c r]]|] eqn:P; try discriminate.
  destruct (proj1 (parse_sound _) _ _ _ P) as [E0 Ok0]. exists t. split; [exact Ok0|]. now rewrite E0, app_nil_r.
Qed.

Theorem expand_matches_spec_regular_word : forall w, regular w = true -> to_sres (expand_word w) = spec w.
Proof.
  intros w H. destruct (regular_sound w H) as [t [Hok <-]]. now apply expand_matches_spec_regular.
Qed.

(* the regular words avoid all four listed classes by construction; non-vacuity: a nested example *)
Lemma ex_regular_seq :   (* a{{1..3},{x..z..2}b}{08..10} : sequences inside a group, a step, zero padding *)
  let w := [97;123;123;49;46;46;51;125;44;123;120;46;46;122;46;46;50;125;98;125;123;48;56;46;46;49;48;125] in
  regular w = true /\ known_class w = false
  /\ spec w = Words [[97;49;48;56]; [97;49;48;57]; [97;49;49;48]; [97;50;48;56]; [97;50;48;57]; [97;50;49;48];
                     [97;51;48;56]; [97;51;48;57]; [97;51;49;48]; [97;120;98;48;56]; [97;120;98;48;57]; [97;120;98;49;48];
                     [97;122;98;48;56]; [97;122;98;48;57]; [97;122;98;49;48]].
Proof. vm_compute. auto. Qed.

(* a range that exceeds the limit is regular too: both sides say "too many" *)
Lemma ex_regular_many :   (* x{1..20000} *)
  let w := [120;123;49;46;46;50;48;48;48;48;125] in
  regular w = true /\ spec w = Many /\ expand_word w = Err E_LIMIT.
Proof. vm_compute. auto. Qed.

Lemma ex_regular :   (* a{b,{c,d}e,}f{x,y} *)
  let w := [97;123;98;44;123;99;44;100;125;101;44;125;102;123;120;44;121;125] in
  regular w = true /\ known_class w = false
  /\ spec w = Words [[97;98;102;120]; [97;98;102;121]; [97;99;101;102;120]; [97;99;101;102;121];
                     [97;100;101;102;120]; [97;100;101;102;121]; [97;102;120]; [97;102;121]].
Proof. vm_compute. auto. Qed.
