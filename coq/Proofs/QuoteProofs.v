(* Proofs/QuoteProofs.v — proofs about Syntax/Quote.v *)
From Verif Require Import Base.Str Base.Utf8 Syntax.Quote.
Open Scope N_scope.

Lemma quote_empty : forall ip l, quote ip [] l = Ok [39; 39].
Proof. reflexivity. Qed.
