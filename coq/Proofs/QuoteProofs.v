(* Proofs/QuoteProofs.v — proofs about Syntax/Quote.v (C13). *)
From Verif Require Import Base.Str Base.Utf8 Syntax.Quote Proofs.Utf8Proofs.
From Coq Require Import ZifyN ZifyNat ZifyBool.
Open Scope N_scope.

(* ------------------------------------------------------------------ *)
(* multi-step view of the unquote transducer *)

Fixpoint usteps (l : lang) (st : ustate) (q : str) : option (ustate * str) :=
  match q with
  | [] => Some (st, [])
  | c :: t =>
      match step l st c with
      | None => None
      | Some (st', o) =>
          match usteps l st' t with
          | Some (st'', o') => Some (st'', o ++ o')
          | None => None
          end
      end
  end.

Lemma usteps_app : forall l a b st st1 o1 st2 o2,
  usteps l st a = Some (st1, o1) -> usteps l st1 b = Some (st2, o2) ->
  usteps l st (a ++ b) = Some (st2, o1 ++ o2).
Proof.
  induction a as [|c a IH]; intros b st st1 o1 st2 o2 Ha Hb; cbn [usteps app] in *.
  - inversion Ha; subst. rewrite Hb. reflexivity.
  - destruct (step l st c) as [[st' o]|]; [|discriminate].
    destruct (usteps l st' a) as [[st'' o']|] eqn:E; [|discriminate].
    inversion Ha; subst. rewrite (IH b st' st1 o' st2 o2 E Hb). rewrite app_assoc. reflexivity.
Qed.

Lemma urun_app : forall l a b st st1 o1,
  usteps l st a = Some (st1, o1) ->
  urun l st (a ++ b) = match urun l st1 b with Some r => Some (o1 ++ r) | None => None end.
Proof.
  induction a as [|c a IH]; intros b st st1 o1 Ha; cbn [usteps app urun] in *.
  - inversion Ha; subst. destruct (urun l st1 b); reflexivity.
  - destruct (step l st c) as [[st' o]|]; [|discriminate].
    destruct (usteps l st' a) as [[st'' o']|] eqn:E; [|discriminate].
    inversion Ha; subst. rewrite (IH b st' st1 o' E).
    destruct (urun l st1 b); [rewrite app_assoc|]; reflexivity.
Qed.

(* a run of bytes that the state passes through unchanged *)
Lemma usteps_plain : forall l st (P : N -> Prop),
  (forall c, P c -> step l st c = Some (st, [c])) ->
  forall bs, Forall P bs -> usteps l st bs = Some (st, bs).
Proof.
  intros l st P HP. induction bs as [|c bs IH]; intros HF; cbn [usteps]; [reflexivity|].
  inversion HF; subst. rewrite (HP c) by assumption. rewrite IH by assumption. reflexivity.
Qed.

(* ------------------------------------------------------------------ *)
(* bytes of one rune entry *)

Lemma ws_high : forall b, 128 <= b -> word_special b = false.
Proof. intros b H. unfold word_special, mem_N; cbn [existsb]. lia. Qed.

Lemma word_special_shell_char : forall c, word_special c = shell_char c.
Proof. reflexivity. Qed.

Lemma firstn_len : forall (bs : str), firstn (length bs) bs = bs.
Proof. intros. apply firstn_all. Qed.

(* a valid entry: its bytes are the encoding of its rune, one ASCII byte or all >= 0x80 *)
Lemma entry_valid : forall r bs, entry_ok (r, bs) -> invalid_rune r bs = false ->
  encode_rune r = bs /\ ((r < 128 /\ bs = [r]) \/ (128 <= r /\ Forall (fun b => 128 <= b) bs)).
Proof.
  intros r bs [Hne D] Hinv; cbn [fst snd] in *. unfold invalid_rune in Hinv.
  split.
  - transitivity (firstn (length bs) bs); [|apply firstn_len]. apply (encode_decode bs r (length bs) D Hne).
    intros [H1 H2]. rewrite H1, H2 in Hinv. cbn in Hinv. discriminate.
  - destruct (length bs) as [|[|n]] eqn:L.
    + destruct bs; [congruence | discriminate].
    + destruct (decode_size1 bs r D) as (b & t & -> & Hc). cbn in L.
      assert (t = []) by (destruct t; [reflexivity | discriminate]); subst t.
      destruct Hc as [[-> Hb] | [-> Hb]].
      * left; split; [assumption | reflexivity].
      * cbn in Hinv. discriminate.
    + right. destruct (decode_high bs r _ D ltac:(lia)) as [H1 H2].
      rewrite <- L, firstn_len in H2. split; assumption.
Qed.

(* any entry: a byte below 0x80 in it is the rune itself *)
Lemma entry_bytes : forall r bs, entry_ok (r, bs) ->
  (r < 128 /\ bs = [r]) \/ (128 <= r /\ Forall (fun b => 128 <= b) bs).
Proof.
  intros r bs [Hne D]; cbn [fst snd] in *.
  destruct (length bs) as [|[|n]] eqn:L.
  - destruct bs; [congruence | discriminate].
  - destruct (decode_size1 bs r D) as (b & t & -> & Hc). cbn in L.
    assert (t = []) by (destruct t; [reflexivity | discriminate]); subst t.
    destruct Hc as [[-> Hb] | [-> Hb]].
    + left; split; [assumption | reflexivity].
    + right. split; [unfold RuneError; lia | repeat constructor; assumption].
  - right. destruct (decode_high bs r _ D ltac:(lia)) as [H1 H2].
    rewrite <- L, firstn_len in H2. split; assumption.
Qed.

(* ------------------------------------------------------------------ *)
(* the first loop *)

Section WithPrint.
  Variable ip : N -> bool.

  Definition has0 (rs : list (N * str)) : bool := existsb (fun e => fst e =? 0) rs.
  Definition hasnp (rs : list (N * str)) : bool := existsb (fun e => non_print ip (fst e) (snd e)) rs.
  Definition hassc (rs : list (N * str)) : bool := existsb (fun e => shell_char (fst e)) rs.

  Lemma scan_ok : forall l rs offs sc np sc' np',
    scan ip l rs offs sc np = Ok (sc', np') ->
    has0 rs = false /\ sc' = sc || hassc rs /\ np' = np || hasnp rs /\
    (is_posix l = true -> hasnp rs = false).
  Proof.
    induction rs as [|[r bs] rs IH]; intros offs sc np sc' np' H; cbn [scan has0 hasnp hassc existsb fst snd] in *.
    - inversion H; subst. rewrite !orb_false_r. auto.
    - destruct (r =? 0) eqn:E0; [discriminate|].
      destruct (non_print ip r bs) eqn:Enp.
      + destruct (is_posix l) eqn:Ep; [discriminate|].
        apply IH in H. destruct H as (H0 & Hsc & Hnp & Hp). fold (has0 rs) (hasnp rs) (hassc rs).
        rewrite H0, Hsc, Hnp. repeat split; try reflexivity.
        * rewrite orb_assoc. reflexivity.
        * cbn. rewrite orb_true_r. reflexivity.
        * discriminate.
      + apply IH in H. destruct H as (H0 & Hsc & Hnp & Hp). fold (has0 rs) (hasnp rs) (hassc rs).
        rewrite H0, Hsc, Hnp. repeat split; try reflexivity.
        * rewrite orb_assoc. reflexivity.
        * assumption.
  Qed.

  Lemma scan_not_panic : forall l rs offs sc np, scan ip l rs offs sc np <> Panic.
  Proof.
    induction rs as [|[r bs] rs IH]; intros; cbn [scan]; [discriminate|].
    destruct (r =? 0); [discriminate|]. destruct (non_print ip r bs); [destruct (is_posix l); [discriminate|]|]; apply IH.
  Qed.

  Lemma scan_err_iff : forall l rs offs sc np,
    (exists c, scan ip l rs offs sc np = Err c) <->
    (has0 rs = true \/ (is_posix l = true /\ hasnp rs = true)).
  Proof.
    induction rs as [|[r bs] rs IH]; intros offs sc np; cbn [scan has0 hasnp existsb fst snd].
    - split; [intros [c H]; discriminate | intros [H | [_ H]]; discriminate].
    - fold (has0 rs) (hasnp rs).
      destruct (r =? 0) eqn:E0.
      + split; [intros _; left; reflexivity | intros _; eexists; reflexivity].
      + destruct (non_print ip r bs) eqn:Enp.
        * destruct (is_posix l) eqn:Ep.
          -- split; [intros _; right; split; reflexivity | intros _; eexists; reflexivity].
          -- rewrite IH. cbn [orb]. split; intros [H | [H _]]; try discriminate; left; exact H.
        * rewrite IH. cbn [orb]. reflexivity.
  Qed.
End WithPrint.

(* ------------------------------------------------------------------ *)
(* strategy 1: unquoted *)

Lemma top_plain : forall l s, Forall (fun c => word_special c = false) s -> usteps l UTop s = Some (UTop, s).
Proof.
  intros l. apply usteps_plain. intros c Hc. cbn [step]. rewrite Hc.
  unfold word_special, mem_N in Hc; cbn [existsb] in Hc.
  destruct (c =? 39) eqn:E1; [lia|]. destruct (c =? 34) eqn:E2; [lia|]. destruct (c =? 36) eqn:E3; [lia|].
  reflexivity.
Qed.

Lemma entries_not_special : forall rs, Forall entry_ok rs -> hassc rs = false ->
  Forall (fun c => word_special c = false) (concat (map snd rs)).
Proof.
  induction rs as [|[r bs] rs IH]; intros Hok Hsc; cbn [map concat snd]; [constructor|].
  inversion Hok; subst. cbn [hassc existsb fst] in Hsc. apply orb_false_iff in Hsc. destruct Hsc as [Hr Hrs].
  apply Forall_app. split; [|apply IH; assumption].
  destruct (entry_bytes r bs H1) as [[_ ->] | [_ Hh]].
  - constructor; [|constructor]. rewrite word_special_shell_char. exact Hr.
  - eapply Forall_impl; [|exact Hh]. intros b Hb. apply ws_high. exact Hb.
Qed.

(* ------------------------------------------------------------------ *)
(* strategy 2: single quotes *)

Lemma contains_byte_false : forall c s, contains_byte c s = false -> Forall (fun b => (b =? c) = false) s.
Proof.
  intros c. unfold contains_byte. induction s as [|x s IH]; intros H; [constructor|].
  cbn [index_byte] in H. destruct (x =? c) eqn:E; [discriminate|].
  constructor; [exact E|]. apply IH. destruct (index_byte c s); [discriminate | reflexivity].
Qed.

Lemma sgl_plain : forall l s, Forall (fun b => (b =? 39) = false) s -> usteps l USgl s = Some (USgl, s).
Proof.
  intros l. apply usteps_plain. intros c Hc. cbn [step]. rewrite Hc. reflexivity.
Qed.

Lemma unquote_single : forall l s, contains_byte 39 s = false -> unquote l ([39] ++ s ++ [39]) = Some s.
Proof.
  intros l s H. unfold unquote. cbn [app urun step]. cbn [N.eqb Pos.eqb].
  rewrite (urun_app l s [39] USgl USgl s (sgl_plain l s (contains_byte_false 39 s H))).
  cbn. rewrite app_nil_r. reflexivity.
Qed.

(* ------------------------------------------------------------------ *)
(* strategy 3: double quotes *)

Definition dq_safe (c : N) : Prop := c <> 34 /\ c <> 92 /\ c <> 36 /\ c <> 96.

Lemma dbl_plain : forall l bs, Forall dq_safe bs -> usteps l UDbl bs = Some (UDbl, bs).
Proof.
  intros l. apply usteps_plain. intros c (H1 & H2 & H3 & H4). cbn [step].
  destruct (c =? 34) eqn:E1; [lia|]. destruct (c =? 92) eqn:E2; [lia|].
  destruct ((c =? 36) || (c =? 96)) eqn:E3; [lia|]. reflexivity.
Qed.

Lemma dq_entry : forall l r bs, entry_ok (r, bs) -> invalid_rune r bs = false ->
  usteps l UDbl ((if mem_N r [34; 92; 96; 36] then [92] else []) ++ encode_rune r) = Some (UDbl, bs).
Proof.
  intros l r bs Hok Hinv. destruct (entry_valid r bs Hok Hinv) as [He Hc]. rewrite He.
  destruct (mem_N r [34; 92; 96; 36]) eqn:Em.
  - unfold mem_N in Em; cbn [existsb] in Em.
    destruct Hc as [[_ ->] | [Hr _]]; [|lia].
    cbn [app usteps step]. 
    assert (r = 34 \/ r = 92 \/ r = 96 \/ r = 36) as [-> | [-> | [-> | ->]]] by lia; reflexivity.
  - cbn [app]. apply dbl_plain. unfold mem_N in Em; cbn [existsb] in Em.
    destruct Hc as [[_ ->] | [_ Hh]].
    + constructor; [|constructor]. unfold dq_safe. lia.
    + eapply Forall_impl; [|exact Hh]. intros b Hb. cbv beta in Hb. unfold dq_safe. lia.
Qed.

Section WithPrint2.
  Variable ip : N -> bool.

  Lemma dq_run : forall l rs, Forall entry_ok rs -> hasnp ip rs = false ->
    usteps l UDbl (dq rs) = Some (UDbl, concat (map snd rs)).
  Proof.
    induction rs as [|[r bs] rs IH]; intros Hok Hnp; cbn [dq map concat snd]; [reflexivity|].
    inversion Hok; subst. cbn [hasnp existsb fst snd] in Hnp. apply orb_false_iff in Hnp. destruct Hnp as [Hr Hrs].
    unfold non_print in Hr. apply orb_false_iff in Hr. destruct Hr as [Hinv _].
    rewrite app_assoc. eapply usteps_app; [apply dq_entry; assumption | apply IH; assumption].
  Qed.

  Lemma unquote_double : forall l s, hasnp ip (runes s) = false ->
    unquote l ([34] ++ dq (runes s) ++ [34]) = Some s.
  Proof.
    intros l s H. unfold unquote. cbn [app urun step]. cbn [N.eqb Pos.eqb].
    rewrite (urun_app l _ [34] UDbl UDbl _ (dq_run l (runes s) (runes_ok s) H)).
    cbn. rewrite app_nil_r, runes_concat. reflexivity.
  Qed.
End WithPrint2.

(* ------------------------------------------------------------------ *)
(* strategy 4: $'...' *)

Lemma hexval_hexd : forall d, d < 16 -> hexval (hexd d) = Some d.
Proof.
  intros d H. unfold hexd, hexval, in_range.
  destruct (d <? 10) eqn:E.
  - destruct ((48 <=? 48 + d) && (48 + d <=? 57)) eqn:E1; [f_equal; lia | lia].
  - destruct ((48 <=? 87 + d) && (87 + d <=? 57)) eqn:E1; [lia|].
    destruct ((97 <=? 87 + d) && (87 + d <=? 102)) eqn:E2; [f_equal; lia | lia].
Qed.

Lemma is_hex_hexval : forall c, is_hex c = false -> hexval c = None.
Proof.
  intros c H. unfold is_hex in H. unfold hexval.
  destruct (in_range 48 57 c); [discriminate|]. destruct (in_range 97 102 c); [discriminate|].
  destruct (in_range 65 70 c); [discriminate|]. reflexivity.
Qed.

Definition hexkind (k : ukind) : Prop := k = KX \/ k = KU \/ k = KBigU.

Lemma pow16_succ : forall w, 16 ^ N.of_nat (S w) = 16 * 16 ^ N.of_nat w.
Proof. intros. rewrite Nat2N.inj_succ, N.pow_succ_r'. reflexivity. Qed.

Lemma mod_pow16_succ : forall v w,
  v mod (16 * 16 ^ N.of_nat w) = ((v / 16 ^ N.of_nat w) mod 16) * 16 ^ N.of_nat w + v mod 16 ^ N.of_nat w.
Proof.
  intros v w. set (p := 16 ^ N.of_nat w). assert (p <> 0) by (apply N.pow_nonzero; discriminate).
  rewrite (N.mul_comm 16 p). rewrite N.mod_mul_r by (try assumption; discriminate). lia.
Qed.

(* reading exactly w hex digits, the last one triggers emit *)
Lemma hex_run : forall l k o v w acc nd, hexkind k ->
  emit k (acc * 16 ^ N.of_nat (S w) + v mod 16 ^ N.of_nat (S w)) = Some o ->
  usteps l (UAnsiNum k (S w) acc nd) (hex_fixed (S w) v) = Some (after_emit l k, o).
Proof.
  intros l k o v. induction w as [|w IH]; intros acc nd Hk He.
  - cbn [hex_fixed usteps step]. 
    assert (Hd : digit_of k (hexd ((v / 16 ^ N.of_nat 0) mod 16)) = Some ((v / 16 ^ N.of_nat 0) mod 16)).
    { destruct Hk as [-> | [-> | ->]]; cbn [digit_of]; apply hexval_hexd; apply N.mod_lt; discriminate. }
    rewrite Hd.
    assert (Hb : base_of k = 16) by (destruct Hk as [-> | [-> | ->]]; reflexivity). rewrite Hb.
    replace (16 * acc + (v / 16 ^ N.of_nat 0) mod 16) with (acc * 16 ^ N.of_nat 1 + v mod 16 ^ N.of_nat 1)
      by (cbn [N.of_nat Pos.of_succ_nat]; change (16 ^ 0) with 1; change (16 ^ 1) with 16; rewrite N.div_1_r; lia).
    rewrite He. rewrite app_nil_r. reflexivity.
  - change (hex_fixed (S (S w)) v) with (hexd ((v / 16 ^ N.of_nat (S w)) mod 16) :: hex_fixed (S w) v).
    cbn [usteps step].
    assert (Hd : digit_of k (hexd ((v / 16 ^ N.of_nat (S w)) mod 16)) = Some ((v / 16 ^ N.of_nat (S w)) mod 16)).
    { destruct Hk as [-> | [-> | ->]]; cbn [digit_of]; apply hexval_hexd; apply N.mod_lt; discriminate. }
    rewrite Hd.
    assert (Hb : base_of k = 16) by (destruct Hk as [-> | [-> | ->]]; reflexivity). rewrite Hb.
    rewrite (IH (16 * acc + (v / 16 ^ N.of_nat (S w)) mod 16) (S nd) Hk); [reflexivity|].
    rewrite <- He. f_equal.
    rewrite (pow16_succ (S w)). rewrite (mod_pow16_succ v (S w)). 
    set (p := 16 ^ N.of_nat (S w)). lia.
Qed.

Definition st_of (last : bool) : ustate := if last then UAnsiXDone else UAnsi.
Definition ansi_safe (c : N) : Prop := c <> 39 /\ c <> 92.

Lemma ansi_plain_safe : forall c, ansi_safe c -> ansi_plain c = Some (UAnsi, [c]).
Proof.
  intros c [H1 H2]. unfold ansi_plain.
  destruct (c =? 39) eqn:E1; [lia|]. destruct (c =? 92) eqn:E2; [lia|]. reflexivity.
Qed.

Lemma ansi_plain_run : forall l bs, Forall ansi_safe bs -> usteps l UAnsi bs = Some (UAnsi, bs).
Proof.
  intros l. apply usteps_plain. intros c Hc. cbn [step]. apply ansi_plain_safe. exact Hc.
Qed.

Lemma xdone_run : forall l b rest, is_hex b = false -> Forall ansi_safe (b :: rest) ->
  usteps l UAnsiXDone (b :: rest) = Some (UAnsi, b :: rest).
Proof.
  intros l b rest Hh HF. inversion HF; subst. cbn [usteps step]. rewrite Hh.
  rewrite (ansi_plain_safe b) by assumption. rewrite (ansi_plain_run l rest) by assumption. reflexivity.
Qed.

Lemma is_hex_small : forall c, is_hex c = true -> c < 128.
Proof. intros c H. unfold is_hex, in_range in H. lia. Qed.

Lemma is_hex_high : forall c, 128 <= c -> is_hex c = false.
Proof. intros c H. unfold is_hex, in_range. lia. Qed.

Lemma st_of_backslash : forall l last, step l (st_of last) 92 = Some (UAnsiBs, []).
Proof. intros l [|]; reflexivity. Qed.

Section WithPrint3.
  Variable ip : N -> bool.

  Lemma ansi_entry : forall l r bs last out next,
    entry_ok (r, bs) -> r <> 0 -> Forall (fun b => b < 256) bs -> (last = true -> is_mksh l = true) ->
    ansi_rune ip l r bs last = Ok (out, next) ->
    usteps l (st_of last) out = Some (st_of next, bs) /\ (next = true -> is_mksh l = true).
  Proof.
    intros l r bs last out next Hok Hr0 Hb Hlast H. unfold ansi_rune in H.
    destruct ((r =? 39) || (r =? 92)) eqn:Eq.
    { (* \' and \\ *)
      inversion H; subst; clear H. split; [|discriminate].
      destruct (entry_bytes r bs Hok) as [[_ ->] | [Hh _]]; [|lia].
      assert (r = 39 \/ r = 92) as [-> | ->] by lia; destruct last; reflexivity. }
    destruct (ip r && negb (invalid_rune r bs)) eqn:Epr.
    { (* printable *)
      inversion H; subst; clear H. split; [|discriminate].
      apply andb_true_iff in Epr. destruct Epr as [_ Hinv]. apply negb_true_iff in Hinv.
      destruct (entry_valid r bs Hok Hinv) as [He Hc]. rewrite He.
      assert (Hsafe : Forall ansi_safe bs).
      { destruct Hc as [[_ ->] | [_ Hh]].
        - constructor; [|constructor]. unfold ansi_safe. lia.
        - eapply Forall_impl; [|exact Hh]. intros b Hb'. cbv beta in Hb'. unfold ansi_safe. lia. }
      destruct (last && is_hex r) eqn:Erq.
      - apply andb_true_iff in Erq. destruct Erq as [-> Hhex].
        assert (Hm := Hlast eq_refl). destruct l; try discriminate.
        destruct Hc as [[_ ->] | [Hh _]]; [|apply is_hex_small in Hhex; lia].
        cbn [st_of].
        apply (usteps_app LMksh [39; 36; 39] [r] UAnsiXDone UAnsi [] UAnsi [r]); [reflexivity|].
        apply ansi_plain_run. assumption.
      - cbn [app]. destruct last; cbn [st_of]; [|apply ansi_plain_run; assumption].
        cbn [andb] in Erq.
        destruct Hc as [[_ ->] | [_ Hh]].
        + apply xdone_run; assumption.
        + destruct bs as [|b0 rest]; [destruct Hok as [Hne _]; cbn in Hne; congruence|].
          apply xdone_run; [|assumption]. inversion Hh; subst. apply is_hex_high. assumption. }
    assert (Hctl : forall c x, r = c -> c < 128 -> (forall la, usteps l (st_of la) [92; x] = Some (st_of false, [c])) ->
                   Ok ([92; x], false) = Ok (out, next) ->
                   usteps l (st_of last) out = Some (st_of next, bs) /\ (next = true -> is_mksh l = true)).
    { intros c x -> Hc Hrun Heq. inversion Heq; subst. split; [|discriminate].
      destruct (entry_bytes c bs Hok) as [[_ ->] | [Hh _]]; [|lia]. apply Hrun. }
    destruct (r =? 7) eqn:E7; [apply (Hctl 7 97); [lia | lia | intros [|]; reflexivity | exact H]|].
    destruct (r =? 8) eqn:E8; [apply (Hctl 8 98); [lia | lia | intros [|]; reflexivity | exact H]|].
    destruct (r =? 12) eqn:E12; [apply (Hctl 12 102); [lia | lia | intros [|]; reflexivity | exact H]|].
    destruct (r =? 10) eqn:E10; [apply (Hctl 10 110); [lia | lia | intros [|]; reflexivity | exact H]|].
    destruct (r =? 13) eqn:E13; [apply (Hctl 13 114); [lia | lia | intros [|]; reflexivity | exact H]|].
    destruct (r =? 9) eqn:E9; [apply (Hctl 9 116); [lia | lia | intros [|]; reflexivity | exact H]|].
    destruct (r =? 11) eqn:E11; [apply (Hctl 11 118); [lia | lia | intros [|]; reflexivity | exact H]|].
    clear Hctl.
    destruct ((r <? RuneSelf) || invalid_rune r bs) eqn:Ex.
    { (* \xHH *)
      inversion H; subst; clear H.
      assert (Hb0 : exists b0, bs = [b0] /\ b0 <> 0 /\ b0 < 256).
      { destruct (invalid_rune r bs) eqn:Einv.
        - unfold invalid_rune in Einv. apply andb_true_iff in Einv. destruct Einv as [E1 E2].
          apply Nat.eqb_eq in E2. destruct Hok as [_ D]; cbn [fst snd] in D. rewrite E2 in D.
          destruct (decode_size1 bs r D) as (b & t & -> & Hc). cbn in E2.
          assert (t = []) by (destruct t; [reflexivity | discriminate]); subst t.
          exists b. inversion Hb; subst. split; [reflexivity|]. split; [|assumption].
          destruct Hc as [[-> _] | [_ Hh]]; lia.
        - destruct (entry_bytes r bs Hok) as [[Hs ->] | [Hh _]]; [|unfold RuneSelf in Ex; lia].
          exists r. inversion Hb; subst. auto. }
      destruct Hb0 as (b0 & -> & Hnz & Hlt). cbn [hd].
      split; [|intros E; exact E].
      replace (st_of (is_mksh l)) with (after_emit l KX) by (unfold after_emit, st_of; destruct (is_mksh l); reflexivity).
      apply (usteps_app l [92; 120] (hex_fixed 2 b0) (st_of last) (UAnsiNum KX 2 0 0) [] (after_emit l KX) [b0]).
      - destruct last; reflexivity.
      - apply hex_run; [left; reflexivity|].
        change (16 ^ N.of_nat 2) with 256. rewrite N.mod_small by assumption.
        unfold emit. destruct (0 * 256 + b0 =? 0) eqn:E0; [lia|]. f_equal. f_equal.
        rewrite N.mod_small; lia. }
    destruct (MaxRune <? r) eqn:Emax; [discriminate|].
    destruct (is_mksh l && (65533 <? r)) eqn:Emk; [discriminate|].
    apply orb_false_iff in Ex. destruct Ex as [Hge Hinv].
    destruct (entry_valid r bs Hok Hinv) as [He _].
    assert (Hsv : (MaxRune <? r) || in_range 55296 57343 r = false).
    { destruct Hok as [_ D]; cbn [fst snd] in D. destruct (decode_range bs r _ D) as [A B].
      unfold in_range, MaxRune in *. lia. }
    destruct (r <? 65536) eqn:Eu.
    - (* \uHHHH *)
      injection H as <- <-. split; [|discriminate].
      apply (usteps_app l [92; 117] (hex_fixed 4 r) (st_of last) (UAnsiNum KU 4 0 0) [] (after_emit l KU) bs).
      + destruct last; reflexivity.
      + apply hex_run; [right; left; reflexivity|].
        change (16 ^ N.of_nat 4) with 65536. rewrite N.mod_small by lia.
        unfold emit. destruct (0 * 65536 + r =? 0) eqn:E0; [lia|].
        change (0 * 65536 + r) with r. rewrite Hsv, <- He. reflexivity.
    - (* \UHHHHHHHH *)
      injection H as <- <-. split; [|discriminate].
      apply (usteps_app l [92; 85] (hex_fixed 8 r) (st_of last) (UAnsiNum KBigU 8 0 0) [] (after_emit l KBigU) bs).
      + destruct last; reflexivity.
      + apply hex_run; [right; right; reflexivity|].
        change (16 ^ N.of_nat 8) with 4294967296. unfold MaxRune in Emax. rewrite N.mod_small by lia.
        unfold emit. destruct (0 * 4294967296 + r =? 0) eqn:E0; [lia|].
        change (0 * 4294967296 + r) with r. rewrite Hsv, <- He. reflexivity.
  Qed.
End WithPrint3.

Lemma Forall_concat_inv : forall (P : N -> Prop) (ls : list str),
  Forall P (concat ls) -> Forall (Forall P) ls.
Proof.
  induction ls as [|x ls IH]; intros H; [constructor|].
  cbn [concat] in H. apply Forall_app in H. destruct H. constructor; [assumption | apply IH; assumption].
Qed.

Lemma st_of_close : forall l last, usteps l (st_of last) [39] = Some (UTop, []).
Proof. intros l [|]; reflexivity. Qed.

Section Main.
  Variable ip : N -> bool.

  Lemma ansi_run : forall l rs offs last body,
    Forall entry_ok rs -> has0 rs = false -> Forall (fun e => Forall (fun b => b < 256) (snd e)) rs ->
    (last = true -> is_mksh l = true) ->
    ansi ip l rs offs last = Ok body ->
    exists last', usteps l (st_of last) body = Some (st_of last', concat (map snd rs)).
  Proof.
    induction rs as [|[r bs] rs IH]; intros offs last body Hok H0 Hb Hl H; cbn [ansi map concat snd] in *.
    - injection H as <-. exists last. reflexivity.
    - inversion Hok as [|? ? H2 H3]; subst. inversion Hb as [|? ? H4 H5]; subst. cbn [snd] in *.
      cbn [has0 existsb fst] in H0. apply orb_false_iff in H0. destruct H0 as [Hr0 H0].
      destruct (ansi_rune ip l r bs last) as [[out next]| |] eqn:Er; try discriminate.
      destruct (ansi ip l rs (offs + N.of_nat (length bs)) next) as [t| |] eqn:Et; try discriminate.
      injection H as <-.
      destruct (ansi_entry ip l r bs last out next H2 ltac:(lia) H4 Hl Er) as [Hs Hn].
      destruct (IH _ next t H3 H0 H5 Hn Et) as [last' Hs'].
      exists last'. eapply usteps_app; eassumption.
  Qed.

  Lemma urun_whole : forall l st q o, usteps l st q = Some (UTop, o) -> urun l st q = Some o.
  Proof.
    intros l st q o H. rewrite <- (app_nil_r q). rewrite (urun_app l q [] st UTop o H). cbn. rewrite app_nil_r. reflexivity.
  Qed.

  Theorem quote_roundtrip : forall s l q, bytes_ok s -> quote ip s l = Ok q -> unquote l q = Some s.
  Proof.
    intros s l q Hb H. destruct s as [|b0 t].
    { cbn in H. injection H as <-. reflexivity. }
    remember (b0 :: t) as s eqn:Hs. unfold quote in H. rewrite Hs in H at 1. cbv iota beta in H.
    destruct (scan ip l (runes s) 0 false false) as [[sc np]| |] eqn:Esc; try discriminate.
    apply scan_ok in Esc. destruct Esc as (H0 & Hsc & Hnp & Hpos). cbn [orb] in Hsc, Hnp.
    destruct (negb sc && negb np && negb (is_keyword s)) eqn:E1.
    { (* unquoted *)
      injection H as <-. apply andb_true_iff in E1. destruct E1 as [E1 _]. apply andb_true_iff in E1. destruct E1 as [E1 _].
      apply negb_true_iff in E1. rewrite Hsc in E1.
      unfold unquote. apply urun_whole. apply top_plain.
      rewrite <- (runes_concat s). apply entries_not_special; [apply runes_ok | exact E1]. }
    destruct np.
    { (* $'...' *)
      destruct (ansi ip l (runes s) 0 false) as [body| |] eqn:Ea; try discriminate.
      injection H as <-.
      assert (Hp : is_posix l = false).
      { destruct (is_posix l); [|reflexivity]. rewrite (Hpos eq_refl) in Hnp. discriminate. }
      assert (HB : Forall (fun e => Forall (fun b => b < 256) (snd e)) (runes s)).
      { apply Forall_map with (f := snd) (P := Forall (fun b => b < 256)). apply Forall_concat_inv. rewrite runes_concat. exact Hb. }
      destruct (ansi_run l (runes s) 0 false body (runes_ok s) H0 HB ltac:(discriminate) Ea) as [last' Hrun].
      unfold unquote. apply urun_whole.
      apply (usteps_app l [36; 39] (body ++ [39]) UTop UAnsi [] UTop s).
      - cbn [usteps step]. cbn. rewrite Hp. reflexivity.
      - assert (Hfin : usteps l UAnsi (body ++ [39]) = Some (UTop, concat (map snd (runes s)) ++ [])).
        { eapply usteps_app; [exact Hrun | apply st_of_close]. }
        rewrite app_nil_r, runes_concat in Hfin. exact Hfin. }
    destruct (negb (contains_byte 39 s)) eqn:E39.
    { injection H as <-. apply unquote_single. apply negb_true_iff. exact E39. }
    injection H as <-. apply (unquote_double ip). symmetry. exact Hnp.
  Qed.

  (* ---------------- error characterisation ---------------- *)

  Lemma ansi_rune_not_panic : forall l r bs last, ansi_rune ip l r bs last <> Panic.
  Proof.
    intros. unfold ansi_rune.
    repeat match goal with |- context [if ?c then _ else _] => destruct c end; discriminate.
  Qed.

  Lemma ansi_not_panic : forall l rs offs last, ansi ip l rs offs last <> Panic.
  Proof.
    induction rs as [|[r bs] rs IH]; intros; cbn [ansi]; [discriminate|].
    destruct (ansi_rune ip l r bs last) as [[out next]| |] eqn:E.
    - specialize (IH (offs + N.of_nat (length bs)) next). destruct (ansi ip l rs _ next); [discriminate | discriminate | congruence].
    - discriminate.
    - exfalso. exact (ansi_rune_not_panic _ _ _ _ E).
  Qed.

  Lemma ansi_rune_err_iff : forall l r bs last, entry_ok (r, bs) ->
    ((exists c, ansi_rune ip l r bs last = Err c) <-> (is_mksh l = true /\ 65533 < r /\ ip r = false)).
  Proof.
    intros l r bs last Hok. destruct Hok as [Hne D]; cbn [fst snd] in *.
    destruct (decode_range bs r _ D) as [Hmax _]. unfold MaxRune in Hmax.
    unfold ansi_rune, RuneSelf, MaxRune, invalid_rune, RuneError. split.
    - intros [c H].
      repeat match type of H with context [if ?c then _ else _] => destruct c eqn:? end; try discriminate; try lia.
    - intros (Hm & Hr & Hp). rewrite Hm, Hp.
      repeat match goal with |- context [if ?c then _ else _] => destruct c eqn:? end; try lia; eexists; reflexivity.
  Qed.

  Definition hasbig (rs : list (N * str)) : bool := existsb (fun e => (65533 <? fst e) && negb (ip (fst e))) rs.

  Lemma ansi_err_iff : forall l rs offs last, Forall entry_ok rs ->
    ((exists c, ansi ip l rs offs last = Err c) <-> (is_mksh l = true /\ hasbig rs = true)).
  Proof.
    induction rs as [|[r bs] rs IH]; intros offs last Hok; cbn [ansi hasbig existsb fst].
    - split; [intros [c H]; discriminate | intros [_ H]; discriminate].
    - inversion Hok as [|? ? H1 H2]; subst. fold (hasbig rs).
      assert (Hr := ansi_rune_err_iff l r bs last H1).
      destruct (ansi_rune ip l r bs last) as [[out next]| |] eqn:E.
      + assert (Hno : ~ (is_mksh l = true /\ 65533 < r /\ ip r = false)).
        { intros Hc. apply Hr in Hc. destruct Hc; discriminate. }
        specialize (IH (offs + N.of_nat (length bs)) next H2).
        destruct (ansi ip l rs (offs + N.of_nat (length bs)) next) as [t| |] eqn:Et.
        * split; [intros [c H]; discriminate|]. intros [Hm Hbig]. apply orb_true_iff in Hbig. destruct Hbig as [Hbig | Hbig].
          -- exfalso. apply Hno. split; [assumption|]. apply andb_true_iff in Hbig. destruct Hbig as [A B]. apply negb_true_iff in B. split; [lia | assumption].
          -- destruct IH as [_ IH]. destruct (IH (conj Hm Hbig)); discriminate.
        * split; [|intros _; eexists; reflexivity]. intros _. destruct IH as [IH _]. destruct (IH (ex_intro _ code eq_refl)) as [Hm Hb]. split; [assumption|]. rewrite Hb. apply orb_true_r.
        * exfalso. exact (ansi_not_panic _ _ _ _ Et).
      + split; [|intros _; eexists; reflexivity]. intros _. destruct Hr as [Hr _]. destruct (Hr (ex_intro _ code eq_refl)) as (Hm & A & B).
        split; [assumption|]. apply orb_true_iff. left. rewrite B. cbn. lia.
      + exfalso. exact (ansi_rune_not_panic _ _ _ _ E).
  Qed.

  Lemma hasbig_hasnp : forall rs, hasbig rs = true -> hasnp ip rs = true.
  Proof.
    induction rs as [|[r bs] rs IH]; cbn [hasbig hasnp existsb fst snd]; [discriminate|].
    intros H. apply orb_true_iff in H. apply orb_true_iff. destruct H as [H | H]; [left | right; apply IH; exact H].
    apply andb_true_iff in H. destruct H as [_ B]. unfold non_print. rewrite B. apply orb_true_r.
  Qed.

  Lemma quote_not_panic : forall s l, quote ip s l <> Panic.
  Proof.
    intros s l. unfold quote. destruct s as [|b0 t]; [discriminate|].
    destruct (scan ip l (runes (b0 :: t)) 0 false false) as [[sc np]| |] eqn:E; [|discriminate|exact (fun _ => scan_not_panic _ _ _ _ _ _ E)].
    destruct (negb sc && negb np && negb (is_keyword (b0 :: t))); [discriminate|].
    destruct np.
    - destruct (ansi ip l (runes (b0 :: t)) 0 false) eqn:Ea; [discriminate | discriminate | exact (fun _ => ansi_not_panic _ _ _ _ Ea)].
    - destruct (negb (contains_byte 39 (b0 :: t))); discriminate.
  Qed.

  Lemma quote_err_bool : forall s l,
    (exists c, quote ip s l = Err c) <->
    (has0 (runes s) = true \/ (is_posix l = true /\ hasnp ip (runes s) = true)
     \/ (is_mksh l = true /\ hasbig (runes s) = true)).
  Proof.
    intros s l. destruct s as [|b0 t].
    { cbn. split; [intros [c H]; discriminate | intros [H | [[_ H] | [_ H]]]; discriminate]. }
    unfold quote. cbv iota beta. set (s := b0 :: t).
    assert (Hse := scan_err_iff ip l (runes s) 0 false false).
    destruct (scan ip l (runes s) 0 false false) as [[sc np]| |] eqn:Esc.
    - assert (Hno : ~ (has0 (runes s) = true \/ is_posix l = true /\ hasnp ip (runes s) = true)).
      { intros Hc. apply Hse in Hc. destruct Hc; discriminate. }
      apply scan_ok in Esc. destruct Esc as (H0 & Hsc & Hnp & Hpos). cbn [orb] in Hsc, Hnp.
      assert (Hae := ansi_err_iff l (runes s) 0 false (runes_ok s)).
      cbv iota beta. split.
      + intros [c H]. right. right.
        destruct (negb sc && negb np && negb (is_keyword s)); [discriminate|].
        destruct np; [|destruct (negb (contains_byte 39 s)); discriminate].
        apply Hae. destruct (ansi ip l (runes s) 0 false); try discriminate. eexists; reflexivity.
      + intros [H | [H | [Hm Hbig]]]; [exfalso; apply Hno; left; exact H | exfalso; apply Hno; right; exact H |].
        assert (Ht : hasnp ip (runes s) = true) by (apply hasbig_hasnp; exact Hbig).
        rewrite Hnp, Ht. cbn [negb]. rewrite andb_false_r. cbn [andb].
        destruct Hae as [_ Hae]. destruct (Hae (conj Hm Hbig)) as [c Hc]. rewrite Hc. eexists; reflexivity.
    - split; [|intros _; eexists; reflexivity]. intros _.
      destruct Hse as [Hse _]. destruct (Hse (ex_intro _ code eq_refl)) as [H | H]; [left | right; left]; exact H.
    - exfalso. exact (scan_not_panic _ _ _ _ _ _ Esc).
  Qed.

  Lemma has0_iff : forall s, has0 (runes s) = true <-> In 0 s.
  Proof.
    intros s. rewrite <- (runes_concat s) at 2. assert (Hok := runes_ok s).
    induction (runes s) as [|[r bs] rs IH]; cbn [has0 existsb map concat fst snd].
    - split; [discriminate | intros []].
    - inversion Hok as [|? ? H1 H2]; subst. fold (has0 rs). rewrite orb_true_iff, in_app_iff, (IH H2).
      assert (Hr : (r =? 0) = true <-> In 0 bs).
      { destruct (entry_bytes r bs H1) as [[Hs ->] | [Hh HF]].
        - cbn [In]. split; [intros E; left; lia | intros [E | []]; lia].
        - split; [intros E; lia|]. intros Hin. rewrite Forall_forall in HF. specialize (HF 0 Hin). cbv beta in HF. lia. }
      rewrite Hr. reflexivity.
  Qed.

  Theorem quote_err_iff : forall s l,
    (exists c, quote ip s l = Err c) <->
    (In 0 s
     \/ (is_posix l = true /\ exists e, In e (runes s) /\ non_print ip (fst e) (snd e) = true)
     \/ (is_mksh l = true /\ exists r, In r (rune_values s) /\ 65533 < r /\ ip r = false)).
  Proof.
    intros s l. rewrite quote_err_bool, has0_iff. unfold hasnp, hasbig, rune_values.
    rewrite !existsb_exists.
    assert (Hb : (exists x, In x (runes s) /\ (65533 <? fst x) && negb (ip (fst x)) = true) <->
                 (exists r, In r (map fst (runes s)) /\ 65533 < r /\ ip r = false)).
    { split.
      - intros [x [Hin Hx]]. exists (fst x). split; [apply in_map; exact Hin|].
        apply andb_true_iff in Hx. destruct Hx as [A B]. apply negb_true_iff in B. split; [lia | assumption].
      - intros [r [Hin [A B]]]. apply in_map_iff in Hin. destruct Hin as [x [<- Hin]]. exists x. split; [assumption|].
        rewrite B. cbn. lia. }
    rewrite Hb. reflexivity.
  Qed.

  (* ---------------- shape of the result ---------------- *)

  Theorem quote_shape : forall s l q, quote ip s l = Ok q ->
    (q = s /\ s <> [] /\ Forall (fun c => word_special c = false) s /\ is_keyword s = false)
    \/ (exists body, q = [39] ++ body ++ [39] \/ q = [34] ++ body ++ [34] \/ q = [36; 39] ++ body ++ [39]).
  Proof.
    intros s l q H. destruct s as [|b0 t].
    { cbn in H. injection H as <-. right. exists []. left. reflexivity. }
    remember (b0 :: t) as s eqn:Hs. unfold quote in H. rewrite Hs in H at 1. cbv iota beta in H.
    destruct (scan ip l (runes s) 0 false false) as [[sc np]| |] eqn:Esc; try discriminate.
    apply scan_ok in Esc. destruct Esc as (H0 & Hsc & Hnp & Hpos). cbn [orb] in Hsc, Hnp.
    destruct (negb sc && negb np && negb (is_keyword s)) eqn:E1.
    { injection H as <-. left. apply andb_true_iff in E1. destruct E1 as [E1 Ek]. apply andb_true_iff in E1. destruct E1 as [E1 _].
      apply negb_true_iff in E1, Ek. rewrite Hsc in E1. split; [reflexivity|]. split; [rewrite Hs; discriminate|]. split; [|exact Ek].
      rewrite <- (runes_concat s). apply entries_not_special; [apply runes_ok | exact E1]. }
    right. destruct np.
    - destruct (ansi ip l (runes s) 0 false) as [body| |]; try discriminate. injection H as <-. exists body. right. right. reflexivity.
    - destruct (negb (contains_byte 39 s)); injection H as <-; eexists; [left | right; left]; reflexivity.
  Qed.
End Main.

(* ------------------------------------------------------------------ *)
(* non-vacuity: concrete evaluations with a simple printable predicate *)
Definition ex_print (r : N) : bool := in_range 32 126 r || in_range 161 55295 r || in_range 57344 65533 r.

Lemma ex_unquoted : quote ex_print [97; 46; 98] LBash = Ok [97; 46; 98].
Proof. vm_compute. reflexivity. Qed.
Lemma ex_keyword : quote ex_print [105; 102] LPosix = Ok [39; 105; 102; 39].            (* if -> 'if' *)
Proof. vm_compute. reflexivity. Qed.
Lemma ex_single : quote ex_print [97; 32; 36; 98] LPosix = Ok [39; 97; 32; 36; 98; 39].  (* a $b -> 'a $b' *)
Proof. vm_compute. reflexivity. Qed.
Lemma ex_double : quote ex_print [97; 39; 36; 195; 169] LPosix = Ok [34; 97; 39; 92; 36; 195; 169; 34]. (* a'$e-acute *)
Proof. vm_compute. reflexivity. Qed.
Lemma ex_ansi : quote ex_print [97; 10; 255; 39] LBash = Ok [36; 39; 97; 92; 110; 92; 120; 102; 102; 92; 39; 39]. (* $'a\n\xff\'' *)
Proof. vm_compute. reflexivity. Qed.
Lemma ex_mksh_requote : quote ex_print [27; 97] LMksh = Ok [36; 39; 92; 120; 49; 98; 39; 36; 39; 97; 39].   (* $'\x1b'$'a' *)
Proof. vm_compute. reflexivity. Qed.
Lemma ex_unicode : quote ex_print [194; 128; 240; 144; 128; 128] LZsh
  = Ok [36; 39; 92; 117; 48; 48; 56; 48; 92; 85; 48; 48; 48; 49; 48; 48; 48; 48; 39].  (* $' \U00010000' *)
Proof. vm_compute. reflexivity. Qed.
Lemma ex_roundtrip_ansi : unquote LMksh [36; 39; 92; 120; 49; 98; 39; 36; 39; 97; 39] = Some [27; 97].
Proof. vm_compute. reflexivity. Qed.
Lemma ex_unquote_rejects_mksh_hex : unquote LMksh [36; 39; 92; 120; 49; 98; 97; 39] = None   (* $'\x1ba' *)
  /\ unquote LBash [36; 39; 92; 120; 49; 98; 97; 39] = Some [27; 97].
Proof. vm_compute. split; reflexivity. Qed.
Lemma ex_err_null : quote ex_print [97; 0] LBash = Err (8 * 1 + E_NULL).
Proof. vm_compute. reflexivity. Qed.
Lemma ex_err_posix : quote ex_print [97; 98; 10] LPosix = Err (8 * 2 + E_POSIX).
Proof. vm_compute. reflexivity. Qed.
Lemma ex_err_mksh : quote ex_print [97; 240; 144; 128; 128] LMksh = Err (8 * 1 + E_MKSH).
Proof. vm_compute. reflexivity. Qed.
Lemma ex_ufffd_posix : quote ex_print [239; 191; 189] LPosix = Ok [239; 191; 189].   (* valid U+FFFD is printable here *)
Proof. vm_compute. reflexivity. Qed.
