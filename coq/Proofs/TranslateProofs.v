(* Proofs/TranslateProofs.v — pattern.Regexp (model) is sound and complete w.r.t. bash's rule
   (GlobSpec) on flat patterns in EntireString mode; QuoteMeta / HasMeta laws. *)
From Verif Require Import Base.Str Pattern.Regex Pattern.Translate Pattern.GlobSpec Pattern.Fragment Proofs.RegexProofs.
From Coq Require Import ZifyN ZifyNat ZifyBool.
Open Scope N_scope.

Notation M := (matches orbit_id).

(* ---------- facts about the denotation ---------- *)
Lemma m_cat_iff : forall a b s, M (RCat a b) s <-> exists s1 s2, s = s1 ++ s2 /\ M a s1 /\ M b s2.
Proof.
  split.
  - intros H. inversion H; subst. eauto.
  - intros (s1 & s2 & -> & H1 & H2). constructor; auto.
Qed.
Lemma m_any_iff : forall s, M RAny s <-> exists x, s = [x].
Proof. split; [intros H; inversion H; eauto | intros [x ->]; constructor]. Qed.
Lemma m_char_iff : forall c s, M (RChar c) s <-> s = [c].
Proof.
  split.
  - intros H. inversion H as [|? x Hc| | | | | | | | | | |]; subst. unfold chr_ok, orbit_id in Hc. simpl in Hc.
    rewrite orb_false_r in Hc. apply N.eqb_eq in Hc. subst. reflexivity.
  - intros ->. constructor. unfold chr_ok, orbit_id. simpl. rewrite N.eqb_refl. reflexivity.
Qed.
Lemma m_star_any : forall s, M (RStar RAny) s.
Proof.
  induction s as [|x s IH]; [constructor|].
  change (x :: s) with ([x] ++ s). apply MStarS; auto. constructor.
Qed.
Lemma m_eps_iff : forall s, M REps s <-> s = [].
Proof. split; [intros H; inversion H; auto | intros ->; constructor]. Qed.

(* ---------- the AST of a flat pattern denotes its direct language ---------- *)
Lemma flat_re_sem : forall n p, (length p <= n)%nat -> flat p = true ->
  forall acc s, M (flat_re acc p) s <-> exists s1 s2, s = s1 ++ s2 /\ M acc s1 /\ gflat p s2.
Proof.
  induction n as [|n IH]; intros p Hn Hf acc s.
  - destruct p; [|simpl in Hn; lia]. simpl. split.
    + intros H. exists s, []. rewrite app_nil_r. auto.
    + intros (s1 & s2 & -> & H1 & ->). rewrite app_nil_r. auto.
  - destruct p as [|c p'].
    { simpl. split.
      + intros H. exists s, []. rewrite app_nil_r. auto.
      + intros (s1 & s2 & -> & H1 & ->). rewrite app_nil_r. auto. }
    simpl in Hn. simpl in Hf. simpl.
    destruct (c =? 0) eqn:E0; [discriminate|].
    destruct (c =? cLBRK) eqn:EL; [discriminate|].
    destruct (c =? cSTAR) eqn:ES.
    { assert (Hf' : flat p' = true).
      { destruct (c =? cBSL) eqn:EB; auto. apply N.eqb_eq in ES, EB. unfold cSTAR, cBSL in *. lia. }
      rewrite IH by (auto; lia). split.
      - intros (s1 & s2 & -> & H1 & H2). apply m_cat_iff in H1 as (t1 & t2 & -> & Ha & _).
        exists t1, (t2 ++ s2). rewrite app_assoc. split; auto. split; auto. exists t2, s2. auto.
      - intros (s1 & s2 & -> & H1 & (u1 & u2 & -> & H2)).
        exists (s1 ++ u1), u2. rewrite app_assoc. split; auto. split; auto.
        apply m_cat_iff. exists s1, u1. split; auto. split; auto. apply m_star_any. }
    destruct (c =? cQUEST) eqn:EQ.
    { assert (Hf' : flat p' = true).
      { destruct (c =? cBSL) eqn:EB; auto. apply N.eqb_eq in EQ, EB. unfold cQUEST, cBSL in *. lia. }
      rewrite IH by (auto; lia). split.
      - intros (s1 & s2 & -> & H1 & H2). apply m_cat_iff in H1 as (t1 & t2 & -> & Ha & Hb).
        apply m_any_iff in Hb as [x ->].
        exists t1, (x :: s2). rewrite <- app_assoc. split; auto. split; auto. exists x, s2. auto.
      - intros (s1 & s2 & -> & H1 & (x & s' & -> & H2)).
        exists (s1 ++ [x]), s'. rewrite <- app_assoc. split; auto. split; auto.
        apply m_cat_iff. exists s1, [x]. split; auto. split; auto. constructor. }
    destruct (c =? cBSL) eqn:EB.
    { destruct p' as [|e p'']; [discriminate|].
      apply andb_true_iff in Hf as [_ Hf']. simpl in Hn.
      rewrite IH by (auto; lia). split.
      - intros (s1 & s2 & -> & H1 & H2). apply m_cat_iff in H1 as (t1 & t2 & -> & Ha & Hb).
        apply m_char_iff in Hb as ->.
        exists t1, (e :: s2). rewrite <- app_assoc. split; auto. split; auto. exists s2. auto.
      - intros (s1 & s2 & -> & H1 & (s' & -> & H2)).
        exists (s1 ++ [e]), s'. rewrite <- app_assoc. split; auto. split; auto.
        apply m_cat_iff. exists s1, [e]. split; auto. split; auto. apply m_char_iff. auto. }
    rewrite IH by (auto; lia). split.
    + intros (s1 & s2 & -> & H1 & H2). apply m_cat_iff in H1 as (t1 & t2 & -> & Ha & Hb).
      apply m_char_iff in Hb as ->.
      exists t1, (c :: s2). rewrite <- app_assoc. split; auto. split; auto. exists s2. auto.
    + intros (s1 & s2 & -> & H1 & (s' & -> & H2)).
      exists (s1 ++ [c]), s'. rewrite <- app_assoc. split; auto. split; auto.
      apply m_cat_iff. exists s1, [c]. split; auto. split; auto. apply m_char_iff. auto.
Qed.

(* ---------- the model builds that AST ---------- *)
Lemma regexp_next_noext : forall k m l, m_ext m = false ->
  regexp_next (S k) m l = plain_next m (fst (lnext l)) (snd (lnext l)).
Proof.
  intros k m l H. cbn [regexp_next]. destruct (lnext l) as [c l']. rewrite H. reflexivity.
Qed.

Lemma top_loop_flat : forall m, m_ext m = false -> m_filenames m = false ->
  forall fuel rest prev txt acc, flat rest = true -> (length rest < fuel)%nat ->
  exists txt', top_loop fuel m {| lprev := prev; lrest := rest |} txt (OOk acc) [] =
               TOk txt' (m_entire m) (m_entire m) (OOk (flat_re acc rest)).
Proof.
  intros m Hx Hfn. induction fuel as [|fuel IH]; intros rest prev txt acc Hf Hl; [lia|].
  cbn [top_loop]. rewrite regexp_next_noext by auto.
  destruct rest as [|c r].
  - cbn. eexists. reflexivity.
  - cbn [lnext lrest lprev fst snd]. simpl in Hf. simpl in Hl.
    destruct (c =? 0) eqn:E0; [discriminate|].
    destruct (c =? cLBRK) eqn:EL; [discriminate|].
    unfold plain_next. rewrite E0, Hfn. cbn [negb].
    destruct (c =? cSTAR) eqn:ES.
    { assert (Hf' : flat r = true).
      { destruct (c =? cBSL) eqn:EB; auto. apply N.eqb_eq in ES, EB. unfold cSTAR, cBSL in *. lia. }
      cbn [flat_re]. rewrite ES. cbn [ocat]. apply IH; auto; lia. }
    destruct (c =? cQUEST) eqn:EQ.
    { assert (Hf' : flat r = true).
      { destruct (c =? cBSL) eqn:EB; auto. apply N.eqb_eq in EQ, EB. unfold cQUEST, cBSL in *. lia. }
      cbn [flat_re]. rewrite ES, EQ. cbn [ocat]. apply IH; auto; lia. }
    destruct (c =? cBSL) eqn:EB.
    { destruct r as [|e r']; [discriminate|]. apply andb_true_iff in Hf as [He Hf'].
      cbn [lnext lrest lprev]. apply negb_true_iff in He. rewrite He.
      cbn [flat_re]. rewrite ES, EQ, EB. cbn [ocat]. simpl in Hl. apply IH; auto; lia. }
    rewrite EL. cbn [flat_re]. rewrite ES, EQ, EB. cbn [ocat]. apply IH; auto; lia.
Qed.

Lemma translate_flat : forall m p, m_ext m = false -> m_filenames m = false -> m_entire m = true -> flat p = true ->
  exists txt, translate m p = TOk txt true true (OOk (flat_re REps p)).
Proof.
  intros m p Hx Hfn He Hf. unfold translate. rewrite He. cbn [negb andb].
  destruct (top_loop_flat m Hx Hfn (S (length p)) p [] (header m) REps Hf) as [t Ht]; [lia|].
  rewrite He in Ht. eauto.
Qed.

(* ---------- bash's rule on flat patterns ---------- *)
Lemma star_loop_iff : forall (k : list N -> bool -> bool) (P : list N -> Prop) (aft : N -> bool),
  (forall y, aft y = false) -> (forall s b, k s b = true <-> P s) ->
  forall s b, star_loop k aft s b = true <-> exists s1 s2, s = s1 ++ s2 /\ P s2.
Proof.
  intros k P aft Ha Hk. induction s as [|y s IH]; intros b; simpl.
  - rewrite orb_false_r, Hk. split.
    + intros H. exists [], []. auto.
    + intros (s1 & s2 & E & H). symmetry in E. apply app_eq_nil in E as [-> ->]. auto.
  - rewrite Ha. cbn [negb andb]. rewrite orb_true_iff, Hk, IH. split.
    + intros [H | (s1 & s2 & -> & H)].
      * exists [], (y :: s). auto.
      * exists (y :: s1), s2. auto.
    + intros (s1 & s2 & E & H). destruct s1 as [|z s1].
      * simpl in E. subst. auto.
      * simpl in E. injection E as -> ->. right. eauto.
Qed.

Lemma flat_no_lone_backslash : forall p, flat p = true -> star_then_lone_backslash p = false.
Proof.
  induction p as [|c p IH]; intros Hf; [reflexivity|].
  simpl in Hf. cbn [star_then_lone_backslash].
  destruct (c =? 0) eqn:E0; [discriminate|]. destruct (c =? cLBRK) eqn:EL; [discriminate|].
  destruct p as [|d p'].
  - destruct (c =? cBSL); [discriminate | reflexivity].
  - destruct (c =? cBSL) eqn:EB.
    + assert (c =? cSTAR = false) by (apply N.eqb_eq in EB; apply N.eqb_neq; unfold cSTAR, cBSL in *; lia).
      assert (c =? cQUEST = false) by (apply N.eqb_eq in EB; apply N.eqb_neq; unfold cQUEST, cBSL in *; lia).
      rewrite H, H0. reflexivity.
    + rewrite IH by auto. apply andb_false_r.
Qed.

Lemma gmatch_flat : forall wc fuel p s bos, flat p = true -> (length p < fuel)%nat ->
  (gmatch wc fuel f_plain p s bos = true <-> gflat p s).
Proof.
  intros wc. induction fuel as [|fuel IH]; intros p s bos Hf Hl; [lia|].
  destruct p as [|c p'].
  - cbn. destruct s; split; intros H; auto; discriminate.
  - simpl in Hf. simpl in Hl.
    destruct (c =? 0) eqn:E0; [discriminate|]. destruct (c =? cLBRK) eqn:EL; [discriminate|].
    cbn [gmatch f_plain g_ext g_nocase g_pathname g_period andb gflat].
    destruct (c =? cQUEST) eqn:EQ.
    { assert (ES : c =? cSTAR = false) by (apply N.eqb_eq in EQ; apply N.eqb_neq; unfold cSTAR, cQUEST in *; lia).
      assert (Hf' : flat p' = true).
      { destruct (c =? cBSL) eqn:EB; auto. apply N.eqb_eq in EQ, EB. unfold cQUEST, cBSL in *. lia. }
      rewrite ES. destruct s as [|x s'].
      - split; [discriminate|]. intros (x & s' & E & _). discriminate.
      - cbn [negb andb]. rewrite IH by (auto; lia). split.
        + intros H. exists x, s'. auto.
        + intros (x' & s'' & E & H). injection E as -> ->. auto. }
    destruct (c =? cSTAR) eqn:ES.
    { assert (Hf' : flat p' = true).
      { destruct (c =? cBSL) eqn:EB; auto. apply N.eqb_eq in ES, EB. unfold cSTAR, cBSL in *. lia. }
      rewrite flat_no_lone_backslash by auto. cbn [andb].
      destruct s as [|x s'].
      - rewrite IH by (auto; lia). split.
        + intros H. exists [], []. auto.
        + intros (s1 & s2 & E & H). symmetry in E. apply app_eq_nil in E as [-> ->]. auto.
      - apply star_loop_iff; [reflexivity|]. intros s0 b. apply IH; auto; lia. }
    destruct (c =? cBSL) eqn:EB.
    { destruct p' as [|e p'']; [discriminate|]. apply andb_true_iff in Hf as [He Hf']. simpl in Hl.
      destruct s as [|x s'].
      - split; [discriminate|]. intros (s' & E & _). discriminate.
      - unfold fold1. cbn [andb]. rewrite andb_true_iff, N.eqb_eq, IH by (auto; lia). split.
        + intros [-> H]. eauto.
        + intros (s'' & E & H). injection E as -> ->. auto. }
    rewrite EL. destruct s as [|x s'].
    + split; [discriminate|]. intros (s' & E & _). discriminate.
    + unfold fold1. cbn [andb]. rewrite andb_true_iff, N.eqb_eq, IH by (auto; lia). split.
      * intros [-> H]. eauto.
      * intros (s'' & E & H). injection E as -> ->. auto.
Qed.

Lemma glob_spec_flat : forall wc p s, flat p = true -> (glob_spec wc f_plain p s = true <-> gflat p s).
Proof.
  intros wc p s Hf. unfold glob_spec. apply gmatch_flat; auto. unfold spec_fuel. nia.
Qed.

(* ---------- C17 on the flat fragment ---------- *)
Theorem sound_complete_flat : forall wc m p txt bol eol body,
  m_entire m = true -> m_filenames m = false -> m_ext m = false -> m_nocase m = false ->
  flat p = true -> translate m p = TOk txt bol eol body ->
  exists r, body = OOk r /\ bol = true /\ eol = true /\
            forall s, M r s <-> glob_spec wc f_plain p s = true.
Proof.
  intros wc m p txt bol eol body He Hfn Hx _ Hf Ht.
  destruct (translate_flat m p Hx Hfn He Hf) as [t Ht']. rewrite Ht' in Ht. injection Ht as <- <- <- <-.
  exists (flat_re REps p). repeat split; auto.
  - intros H. apply glob_spec_flat; auto. apply (flat_re_sem (length p) p) in H; auto.
    destruct H as (s1 & s2 & -> & H1 & H2). apply m_eps_iff in H1 as ->. auto.
  - intros H. apply glob_spec_flat in H; auto. apply (flat_re_sem (length p) p); auto.
    exists [], s. split; auto. split; auto. constructor.
Qed.

Theorem flat_never_errors : forall m p, m_entire m = true -> m_filenames m = false -> m_ext m = false ->
  flat p = true -> exists txt body, translate m p = TOk txt true true body.
Proof. intros m p He Hfn Hx Hf. destruct (translate_flat m p Hx Hfn He Hf) as [t Ht]. eauto. Qed.

(* the whole-expression matcher with both anchors is the body's language *)
Lemma rx_anchored : forall orbit r s,
  rx_matches orbit {| rx_bol := true; rx_eol := true; rx_body := r |} s <-> matches orbit r s.
Proof.
  intros. unfold rx_matches. simpl. split.
  - intros (pre & mid & post & -> & H & Hp & Hq). rewrite Hp, Hq by auto. rewrite app_nil_r. auto.
  - intros H. exists [], s, []. rewrite app_nil_r. auto.
Qed.

(* expected refutation: the lone trailing backslash *)
Lemma trailing_backslash_refuted :
  exists p s, translate mode_es p = TErr EBackslash /\ glob_spec no_wide f_plain p s = true.
Proof. exists [92], [92]. split; vm_compute; reflexivity. Qed.
