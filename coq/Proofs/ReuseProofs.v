From Coq Require Import List Arith Bool String.
From Verif Require Import Syntax.Reuse.
Import ListNotations.

Section P.
  Variable V I R : Type.
  Variable table : list frow.
  Variable init : nat -> V.
  Variable run : state V -> I -> R.

  Lemma covered_cls : fields_covered table = true -> forall f, cls table f <> Uncovered.
  Proof.
    intros Hc f. unfold cls. destruct (nth_error table f) as [r|] eqn:E; [|discriminate].
    unfold fields_covered in Hc. rewrite forallb_forall in Hc.
    specialize (Hc r (nth_error_In _ _ E)). intro Hu. rewrite Hu in Hc. discriminate.
  Qed.

  Theorem reset_covers :
    fields_covered table = true ->
    write_first_frame V I R table run ->
    forall s s0 i, same_config V table s s0 ->
    api V I R table init run s i = api V I R table init run s0 i.
  Proof.
    intros Hc Hframe s s0 i Hcfg. unfold api. apply Hframe. intros f Hf.
    unfold reset. destruct (cls table f) eqn:E.
    - apply Hcfg. exact E.
    - reflexivity.
    - congruence.
    - exfalso. exact (covered_cls Hc f E).
  Qed.

  (* any earlier history: whatever state s the instance was left in, as long as the configuration is the one under test *)
  Corollary reuse_equals_fresh :
    fields_covered table = true ->
    write_first_frame V I R table run ->
    forall (fresh used : state V) i, same_config V table used fresh ->
    api V I R table init run used i = api V I R table init run fresh i.
  Proof. intros. apply reset_covers; auto. Qed.
End P.

(* an uncovered field breaks it: a two-field machine whose second field is neither reset nor configuration and is read *)
Definition bad_table : list frow :=
  [mkF "T" "a" true false false false; mkF "T" "leak" false false false true].

Example uncovered_breaks_reuse :
  fields_covered bad_table = false /\
  exists (s s0 : state nat), same_config nat bad_table s s0 /\
    api nat unit nat bad_table (fun _ => 0) (fun st _ => st 1) s tt <> api nat unit nat bad_table (fun _ => 0) (fun st _ => st 1) s0 tt.
Proof.
  split; [reflexivity|]. exists (fun _ => 1), (fun _ => 2). split.
  - intros f Hf. unfold cls in Hf. destruct f as [|[|f]]; simpl in Hf; try discriminate.
    destruct f; discriminate.
  - vm_compute. discriminate.
Qed.
