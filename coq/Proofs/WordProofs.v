(* Proofs/WordProofs.v — round trip of the level-W word model (Syntax/Word.v). *)
From Verif Require Import Base.Str Syntax.Word.
From Coq Require Import ZifyN ZifyNat ZifyBool.
Open Scope N_scope.

(* ------------------------------------------------------------ small facts *)

Lemma eqb_false_ne : forall a b : N, (a =? b) = false <-> a <> b.
Proof. intros; apply N.eqb_neq. Qed.

Lemma word_delim_break : forall d, word_delim d = true -> word_break d = true.
Proof. intros d H. unfold word_delim, word_break in *. lia. Qed.

Lemma word_delim_stop : forall d, word_delim d = true -> lit_stop d = true.
Proof. intros d H. unfold lit_stop. rewrite (word_delim_break d H). reflexivity. Qed.

Lemma word_delim_not_name : forall d, word_delim d = true -> name_char d = false.
Proof.
  intros d H. unfold word_delim, name_char, name_start, is_lower, is_upper, is_digit in *. lia.
Qed.

Lemma lit_stop_false : forall c, lit_stop c = false ->
  word_break c = false /\ (c =? DQ) = false /\ (c =? SQ) = false /\ (c =? DOL) = false /\ (c =? BQ) = false.
Proof.
  intros c H. unfold lit_stop in H.
  destruct (word_break c); simpl in H; [discriminate|].
  destruct (c =? DQ); simpl in H; [discriminate|].
  destruct (c =? SQ); simpl in H; [discriminate|].
  destruct (c =? DOL); simpl in H; [discriminate|].
  destruct (c =? BQ); simpl in H; [discriminate|].
  repeat split; reflexivity.
Qed.

Lemma name_char_facts : forall c, name_char c = true ->
  (c =? SQ) = false /\ (c =? DQ) = false /\ (c =? LBRACE) = false /\ (c =? RBRACE) = false.
Proof.
  intros c H. unfold name_char, name_start, is_lower, is_upper, is_digit, SQ, DQ, LBRACE, RBRACE in *. lia.
Qed.

Lemma single_param_facts : forall c, single_param c = true ->
  (c =? SQ) = false /\ (c =? DQ) = false /\ (c =? LBRACE) = false.
Proof.
  intros c H. unfold single_param, special_param, is_digit, SQ, DQ, LBRACE in *. lia.
Qed.

Lemma name_start_char : forall c, name_start c = true -> name_char c = true.
Proof. intros c H. unfold name_char. rewrite H. reflexivity. Qed.

Lemma name_start_not_single : forall c, name_start c = true -> single_param c = false.
Proof.
  intros c H. unfold name_start, single_param, special_param, is_lower, is_upper, is_digit in *. lia.
Qed.

(* ------------------------------------------------------------ trailing backslashes *)

(* forward parity of the trailing backslash run *)
Fixpoint par (v : str) (acc : bool) : bool :=
  match v with
  | [] => acc
  | c :: t => if c =? BS then par t (negb acc) else par t false
  end.

Lemma par_snoc : forall v acc c,
  par (v ++ [c]) acc = if c =? BS then negb (par v acc) else false.
Proof.
  induction v as [|x v IH]; intros acc c; simpl.
  - destruct (c =? BS); reflexivity.
  - destruct (x =? BS); apply IH.
Qed.

Lemma odd_snoc : forall v c,
  odd_trailing_bs (v ++ [c]) = if c =? BS then negb (odd_trailing_bs v) else false.
Proof.
  intros v c. unfold odd_trailing_bs. rewrite rev_app_distr. simpl.
  destruct (c =? BS).
  - rewrite Nat.odd_succ. rewrite <- Nat.negb_odd. reflexivity.
  - reflexivity.
Qed.

Lemma odd_is_par : forall v, odd_trailing_bs v = par v false.
Proof.
  induction v as [|c v IH] using rev_ind.
  - reflexivity.
  - rewrite odd_snoc, par_snoc, IH. reflexivity.
Qed.

Lemma par_lit_body : forall v, wf_lit_body v -> par v false = false.
Proof.
  induction 1 as [|c v Hs Hc Hv IH|d v Hd Hv IH]; simpl.
  - reflexivity.
  - apply eqb_false_ne in Hc. rewrite Hc. exact IH.
  - change (BS =? BS) with true. simpl. destruct (d =? BS); exact IH.
Qed.

Lemma par_qlit : forall v, wf_qlit v -> par v false = false.
Proof.
  induction 1 as [|c v H1 H2 H3 Hc Hv IH|d v Hd Hv IH]; simpl.
  - reflexivity.
  - apply eqb_false_ne in Hc. rewrite Hc. exact IH.
  - change (BS =? BS) with true. simpl. destruct (d =? BS); exact IH.
Qed.

Lemma print_lit_body : forall v, wf_lit_body v -> print_lit v = v.
Proof. intros v H. unfold print_lit. rewrite odd_is_par, (par_lit_body v H). reflexivity. Qed.

Lemma print_qlit : forall v, wf_qlit v -> print_lit v = v.
Proof. intros v H. unfold print_lit. rewrite odd_is_par, (par_qlit v H). reflexivity. Qed.

Lemma print_lit_lone : forall v, wf_lit_body v -> print_lit (v ++ [BS]) = v ++ [BS; BS].
Proof.
  intros v H. unfold print_lit. rewrite odd_is_par, par_snoc, (par_lit_body v H).
  change (BS =? BS) with true. simpl. rewrite <- app_assoc. reflexivity.
Qed.

Lemma wf_lit_body_app : forall a b, wf_lit_body a -> wf_lit_body b -> wf_lit_body (a ++ b).
Proof.
  induction 1; intros Hb; simpl; try assumption.
  - apply wfl_plain; auto.
  - apply wfl_esc; auto.
Qed.

Lemma wf_bsbs : wf_lit_body [BS; BS].
Proof. apply wfl_esc. - unfold BS, NL. lia. - constructor. Qed.

(* ------------------------------------------------------------ helper lexers *)

Lemma lex_sgl_app : forall v, no_sq v -> forall rest acc,
  lex_sgl (v ++ SQ :: rest) acc = Some (rev acc ++ v, rest).
Proof.
  unfold no_sq. induction v as [|c v IH]; intros H rest acc; simpl.
  - change (SQ =? SQ) with true. simpl. rewrite app_nil_r. reflexivity.
  - simpl in H. apply andb_true_iff in H. destruct H as [Hc Hv].
    apply negb_true_iff in Hc. rewrite Hc. rewrite IH by assumption. simpl.
    rewrite <- app_assoc. reflexivity.
Qed.

Lemma lex_dsgl_app : forall v, wf_dsgl v -> forall rest acc,
  lex_dsgl (v ++ SQ :: rest) acc = Some (rev acc ++ v, rest).
Proof.
  induction 1 as [|c v H1 H2 Hv IH|d v Hv IH]; intros rest acc; simpl.
  - change (SQ =? SQ) with true. simpl. rewrite app_nil_r. reflexivity.
  - apply eqb_false_ne in H1, H2. rewrite H1, H2. rewrite IH. simpl.
    rewrite <- app_assoc. reflexivity.
  - change (BS =? SQ) with false. change (BS =? BS) with true. simpl.
    rewrite IH. simpl. rewrite <- !app_assoc. reflexivity.
Qed.

Definition starts_stop (tail : str) : Prop :=
  match tail with c :: _ => lit_stop c = true | [] => True end.

Lemma lit_stop_not_bs : forall c, lit_stop c = true -> (c =? BS) = false.
Proof.
  intros c H. unfold lit_stop, word_break, DQ, SQ, DOL, BQ, BS in *. lia.
Qed.

Lemma lex_lit_app : forall v, wf_lit_body v -> forall tail acc, starts_stop tail ->
  lex_lit (v ++ tail) acc = (rev acc ++ v, tail).
Proof.
  induction 1 as [|c v Hs Hc Hv IH|d v Hd Hv IH]; intros tail acc Ht; simpl.
  - rewrite app_nil_r. destruct tail as [|c t]; simpl; [reflexivity|].
    simpl in Ht. rewrite (lit_stop_not_bs c Ht), Ht. reflexivity.
  - apply eqb_false_ne in Hc. rewrite Hc, Hs. rewrite IH by assumption. simpl.
    rewrite <- app_assoc. reflexivity.
  - change (BS =? BS) with true. simpl. apply eqb_false_ne in Hd. rewrite Hd.
    rewrite IH by assumption. simpl. rewrite <- !app_assoc. reflexivity.
Qed.

Definition starts_qstop (tail : str) : Prop :=
  match tail with c :: _ => (c =? DQ) || (c =? DOL) || (c =? BQ) = true | [] => True end.

Lemma lex_qlit_app : forall v, wf_qlit v -> forall tail acc, starts_qstop tail ->
  lex_qlit (v ++ tail) acc = (rev acc ++ v, tail).
Proof.
  induction 1 as [|c v H1 H2 H3 Hc Hv IH|d v Hd Hv IH]; intros tail acc Ht; simpl.
  - rewrite app_nil_r. destruct tail as [|c t]; simpl; [reflexivity|].
    simpl in Ht. assert ((c =? BS) = false) as -> by (unfold DQ, DOL, BQ, BS in *; lia).
    rewrite Ht. reflexivity.
  - apply eqb_false_ne in H1, H2, H3, Hc. rewrite Hc, H1, H2, H3. simpl.
    rewrite IH by assumption. simpl. rewrite <- app_assoc. reflexivity.
  - change (BS =? BS) with true. simpl. apply eqb_false_ne in Hd. rewrite Hd.
    rewrite IH by assumption. simpl. rewrite <- !app_assoc. reflexivity.
Qed.

Definition no_name_start (tail : str) : Prop :=
  match tail with c :: _ => name_char c = false | [] => True end.

Lemma lex_name_app : forall n, forallb name_char n = true -> forall tail acc, no_name_start tail ->
  lex_name (n ++ tail) acc = (rev acc ++ n, tail).
Proof.
  induction n as [|c n IH]; intros H tail acc Ht; simpl.
  - rewrite app_nil_r. destruct tail as [|c t]; simpl; [reflexivity|].
    simpl in Ht. rewrite Ht. reflexivity.
  - simpl in H. apply andb_true_iff in H. destruct H as [Hc Hn]. rewrite Hc.
    rewrite IH by assumption. simpl. rewrite <- app_assoc. reflexivity.
Qed.

Lemma lex_until_rbrace_app : forall n, forallb (fun c => negb (c =? RBRACE)) n = true ->
  forall rest acc, lex_until_rbrace (n ++ RBRACE :: rest) acc = Some (rev acc ++ n, rest).
Proof.
  induction n as [|c n IH]; intros H rest acc; simpl.
  - change (RBRACE =? RBRACE) with true. simpl. rewrite app_nil_r. reflexivity.
  - simpl in H. apply andb_true_iff in H. destruct H as [Hc Hn].
    apply negb_true_iff in Hc. rewrite Hc. rewrite IH by assumption. simpl.
    rewrite <- app_assoc. reflexivity.
Qed.

(* ------------------------------------------------------------ parameters *)

Lemma valid_name_snoc : forall n c, valid_name n = true -> name_char c = true ->
  valid_name (n ++ [c]) = true.
Proof.
  intros [|x n] c H Hc; simpl in *; [discriminate|].
  apply andb_true_iff in H. destruct H as [Hx Hn]. rewrite Hx. simpl.
  rewrite forallb_app, Hn. simpl. rewrite Hc. reflexivity.
Qed.

(* the condition under which "$name" followed by [tail] lexes back to name *)
Definition tail_ok (n tail : str) : Prop := valid_name n = true -> no_name_start tail.

(* short form: name is a valid name, or a single special/digit byte *)
Lemma lex_short : forall n tail, short_name_ok n = true -> tail_ok n tail ->
  lex_dollar_param (n ++ tail) = Some (true, n, tail).
Proof.
  intros n tail H Ht. unfold short_name_ok in H. apply orb_true_iff in H. destruct H as [H|H].
  - (* valid name *)
    destruct n as [|c n]; [discriminate|]. simpl in H. apply andb_true_iff in H. destruct H as [Hc Hn].
    unfold lex_dollar_param. cbn [app].
    destruct (name_char_facts c (name_start_char c Hc)) as (_ & _ & HL & _). rewrite HL.
    rewrite (name_start_not_single c Hc), Hc.
    change (c :: n ++ tail) with ((c :: n) ++ tail).
    rewrite lex_name_app; [reflexivity| |].
    + simpl. rewrite (name_start_char c Hc), Hn. reflexivity.
    + apply Ht. simpl. rewrite Hc, Hn. reflexivity.
  - destruct n as [|c [|? ?]]; try discriminate.
    unfold lex_dollar_param. cbn [app].
    destruct (single_param_facts c H) as (_ & _ & HL). rewrite HL, H. reflexivity.
Qed.

Lemma lex_long : forall n rest, long_name_ok n = true ->
  forallb (fun c => negb (c =? RBRACE)) n = true ->
  lex_dollar_param (LBRACE :: n ++ RBRACE :: rest) = Some (false, n, rest).
Proof.
  intros n rest H Hb. unfold lex_dollar_param. change (LBRACE =? LBRACE) with true. cbn iota.
  rewrite lex_until_rbrace_app by assumption. simpl. rewrite H. reflexivity.
Qed.

(* a long name that Minify shortens is fine in short form *)
Lemma shortened_short_ok : forall n c, long_name_ok n = true -> minify_shortens n c = true ->
  short_name_ok n = true.
Proof.
  intros n c H Hm. unfold long_name_ok in H. unfold short_name_ok.
  apply orb_true_iff in H. destruct H as [H|H].
  - apply orb_true_iff in H. destruct H as [H|H].
    + rewrite H. reflexivity.
    + (* all digits *)
      unfold minify_shortens in Hm.
      destruct n as [|d [|e n]]; try discriminate.
      * simpl in H. rewrite andb_true_r in H. unfold single_param. rewrite H, orb_true_r, orb_true_r. reflexivity.
      * (* two or more digits: not a valid name, so it is kept long *)
        assert (valid_name (d :: e :: n) = false) as Hv.
        { simpl in H. apply andb_true_iff in H. destruct H as [Hd _]. simpl.
          unfold name_start, is_lower, is_upper, is_digit in *.
          destruct ((97 <=? d) && (d <=? 122) || (65 <=? d) && (d <=? 90) || (d =? 95)) eqn:E; [lia|reflexivity]. }
        rewrite Hv in Hm. simpl in Hm. discriminate.
  - destruct n as [|x [|? ?]]; try discriminate. unfold single_param. rewrite H.
    rewrite orb_true_r. reflexivity.
Qed.

Lemma shortened_tail : forall n c, minify_shortens n c = true -> valid_name n = true -> name_char c = false.
Proof.
  intros n c Hm Hv. unfold minify_shortens in Hm. rewrite Hv in Hm. rewrite andb_false_r in Hm.
  destruct (name_char c) eqn:E; [|reflexivity].
  rewrite (valid_name_snoc n c Hv E) in Hm. discriminate.
Qed.

(* the general statement about one printed parameter *)
Lemma lex_param_printed : forall m short n c tail,
  wf_param short n ->
  (* c is the printer's litCont; tail is what follows in the output *)
  (short = true -> tail_ok n tail) ->
  (valid_name n = true -> name_char c = false -> no_name_start tail) ->
  exists t, print_param (eff_short m short n c) n ++ tail = DOL :: t /\
            lex_dollar_param t = Some (eff_short m short n c, n, tail) /\
            (match t with d :: _ => (d =? SQ) = false /\ (d =? DQ) = false | [] => False end).
Proof.
  intros m short n c tail Hwf Hs Hc.
  unfold eff_short. destruct short.
  - (* already short *)
    simpl in Hwf. unfold print_param. exists (n ++ tail). split; [reflexivity|]. split.
    + apply lex_short; auto.
    + destruct n as [|x n]; [discriminate|]. simpl.
      unfold short_name_ok in Hwf. apply orb_true_iff in Hwf. destruct Hwf as [H|H].
      * simpl in H. apply andb_true_iff in H. destruct H as [Hx _].
        destruct (name_char_facts x (name_start_char x Hx)) as (A & B & _). auto.
      * destruct n; try discriminate. destruct (single_param_facts x H) as (A & B & _). auto.
  - destruct Hwf as [Hl Hb].
    destruct (if m then minify_shortens n c else false) eqn:E.
    + (* shortened by Minify *)
      destruct m; [|discriminate].
      pose proof (shortened_short_ok n c Hl E) as Hso.
      unfold print_param. exists (n ++ tail). split; [reflexivity|]. split.
      * apply lex_short; auto. intros Hv. apply Hc; auto. eapply shortened_tail; eauto.
      * destruct n as [|x n]; [discriminate|]. simpl.
        unfold short_name_ok in Hso. apply orb_true_iff in Hso. destruct Hso as [H|H].
        -- simpl in H. apply andb_true_iff in H. destruct H as [Hx _].
           destruct (name_char_facts x (name_start_char x Hx)) as (A & B & _). auto.
        -- destruct n; try discriminate. destruct (single_param_facts x H) as (A & B & _). auto.
    + (* long form kept *)
      assert ((if m then minify_shortens n c else false) = false) as E' by exact E.
      unfold print_param. exists (LBRACE :: n ++ RBRACE :: tail). split.
      * simpl. rewrite <- app_assoc. reflexivity.
      * split; [apply lex_long; auto|]. split; reflexivity.
Qed.

(* ------------------------------------------------------------ inside double quotes *)

Lemma qparts_starts : forall m ps rest, wf_qparts ps ->
  (match ps with QLit _ :: _ => False | _ => True end) ->
  starts_qstop (print_qparts m ps ++ DQ :: rest).
Proof.
  intros m ps rest H Hn. destruct ps as [|[v|s n] ps]; simpl.
  - reflexivity.
  - contradiction.
  - unfold print_param. destruct (eff_short m s n (qlit_cont ps)); simpl; reflexivity.
Qed.

Lemma qparts_no_name_start : forall m ps rest s n, wf_qparts ps -> qnext_ok s n ps ->
  s = true -> valid_name n = true ->
  no_name_start (print_qparts m ps ++ DQ :: rest).
Proof.
  intros m ps rest s n H Hq Hs Hv. destruct ps as [|[v|s' n'] ps]; simpl.
  - reflexivity.
  - inversion H; subst. rewrite print_qlit by assumption.
    destruct v as [|c v]; [congruence|]. simpl. simpl in Hq. auto.
  - unfold print_param. destruct (eff_short m s' n' (qlit_cont ps)); simpl; reflexivity.
Qed.

Lemma qparts_litcont_tail : forall m ps rest n, wf_qparts ps ->
  valid_name n = true -> name_char (qlit_cont ps) = false ->
  no_name_start (print_qparts m ps ++ DQ :: rest).
Proof.
  intros m ps rest n H Hv Hc. destruct ps as [|[v|s' n'] ps]; simpl.
  - reflexivity.
  - inversion H; subst. rewrite print_qlit by assumption.
    destruct v as [|c v]; [congruence|]. simpl. simpl in Hc. exact Hc.
  - unfold print_param. destruct (eff_short m s' n' (qlit_cont ps)); simpl; reflexivity.
Qed.

Lemma lex_dq_printed : forall m ps, wf_qparts ps -> forall fuel rest,
  (length (print_qparts m ps) < fuel)%nat ->
  lex_dq fuel (print_qparts m ps ++ DQ :: rest) = Some (norm_qparts m ps, rest).
Proof.
  induction 1 as [|v ps Hne Hv Hnl Hps IH|s n ps Hp Hq Hps IH]; intros fuel rest Hf.
  - destruct fuel; [simpl in Hf; lia|]. simpl. change (DQ =? DQ) with true. reflexivity.
  - destruct fuel; [simpl in Hf; lia|].
    cbn [print_qparts norm_qparts]. unfold norm_lit. rewrite print_qlit by assumption.
    rewrite <- app_assoc.
    destruct v as [|c v]; [congruence|].
    cbn [lex_dq app].
    assert ((c =? DQ) = false /\ (c =? DOL) = false /\ (c =? BQ) = false) as (E1 & E2 & E3).
    { inversion Hv; subst.
      - repeat split; apply eqb_false_ne; assumption.
      - repeat split; reflexivity. }
    rewrite E1, E2, E3.
    change (c :: v ++ print_qparts m ps ++ DQ :: rest) with ((c :: v) ++ (print_qparts m ps ++ DQ :: rest)).
    rewrite lex_qlit_app; [|assumption|apply qparts_starts; assumption].
    cbn [rev app].
    rewrite IH.
    + reflexivity.
    + simpl in Hf. rewrite print_qlit in Hf by assumption. rewrite app_length in Hf. simpl in Hf. lia.
  - destruct fuel; [simpl in Hf; lia|].
    cbn [print_qparts norm_qparts].
    destruct (lex_param_printed m s n (qlit_cont ps) (print_qparts m ps ++ DQ :: rest) Hp) as (t & Ht & Hl & _).
    + intros Hs Hv. eapply qparts_no_name_start; eauto.
    + intros Hv Hc. eapply qparts_litcont_tail; eauto.
    + rewrite <- app_assoc. rewrite Ht. cbn [lex_dq].
      change (DOL =? DQ) with false. change (DOL =? DOL) with true. cbn iota.
      rewrite Hl. rewrite IH.
      * reflexivity.
      * simpl in Hf. rewrite app_length in Hf.
        assert (1 <= length (print_param (eff_short m s n (qlit_cont ps)) n))%nat.
        { unfold print_param. destruct (eff_short m s n (qlit_cont ps)); simpl; lia. }
        lia.
Qed.

(* ------------------------------------------------------------ words *)

Lemma word_starts_stop : forall m w d rest, wf_word w -> word_delim d = true ->
  (match w with Lit _ :: _ => False | _ => True end) ->
  starts_stop (print_word m w ++ d :: rest).
Proof.
  intros m w d rest H Hd Hn. destruct w as [|[v|b v|b ps|s n] w]; simpl.
  - apply word_delim_stop; assumption.
  - contradiction.
  - destruct b; reflexivity.
  - destruct b; reflexivity.
  - unfold print_param. destruct (eff_short m s n (lit_cont w)); reflexivity.
Qed.

Lemma word_no_name_start : forall m w d rest s n, wf_word w -> word_delim d = true ->
  next_ok s n w -> s = true -> valid_name n = true ->
  no_name_start (print_word m w ++ d :: rest).
Proof.
  intros m w d rest s n H Hd Hq Hs Hv. destruct w as [|[v|b v|b ps|s' n'] w]; simpl.
  - apply word_delim_not_name; assumption.
  - inversion H; subst.
    + rewrite print_lit_body by assumption. destruct v as [|c v]; [congruence|]. simpl. simpl in Hq. auto.
    + match goal with Hb : wf_lit_body ?v0 |- _ => rewrite (print_lit_lone v0 Hb) end.
      match goal with Hb : wf_lit_body ?v0 |- _ => destruct v0 as [|c v0] end; simpl.
      * reflexivity.
      * simpl in Hq. auto.
  - destruct b; reflexivity.
  - destruct b; reflexivity.
  - unfold print_param. destruct (eff_short m s' n' (lit_cont w)); reflexivity.
Qed.

Lemma word_litcont_tail : forall m w d rest, wf_word w -> word_delim d = true ->
  name_char (lit_cont w) = false ->
  no_name_start (print_word m w ++ d :: rest).
Proof.
  intros m w d rest H Hd Hc. destruct w as [|[v|b v|b ps|s' n'] w]; simpl.
  - apply word_delim_not_name; assumption.
  - inversion H; subst.
    + rewrite print_lit_body by assumption. destruct v as [|c v]; [congruence|]. simpl. simpl in Hc. exact Hc.
    + match goal with Hb : wf_lit_body ?v0 |- _ => rewrite (print_lit_lone v0 Hb) end.
      match goal with Hb : wf_lit_body ?v0 |- _ => destruct v0 as [|c v0] end; simpl.
      * reflexivity.
      * simpl in Hc. exact Hc.
  - destruct b; reflexivity.
  - destruct b; reflexivity.
  - unfold print_param. destruct (eff_short m s' n' (lit_cont w)); reflexivity.
Qed.

(* the first byte of a non-empty well-formed literal body dispatches to the literal branch *)
Lemma lit_first_dispatch : forall c v, wf_lit_body (c :: v) ->
  word_break c = false /\ (c =? SQ) = false /\ (c =? DQ) = false /\ (c =? DOL) = false /\ (c =? BQ) = false.
Proof.
  intros c v H. inversion H; subst.
  - destruct (lit_stop_false c) as (A & B & C & D & E); auto.
  - repeat split; reflexivity.
Qed.

Lemma lex_parts_lit : forall fuel v tail ps r,
  v <> [] -> wf_lit_body v -> starts_stop tail ->
  lex_parts fuel tail = Some (ps, r) ->
  lex_parts (S fuel) (v ++ tail) = Some (Lit v :: ps, r).
Proof.
  intros fuel v tail ps r Hne Hv Ht Hrest.
  destruct v as [|c v]; [congruence|].
  destruct (lit_first_dispatch c v Hv) as (A & B & C & D & E).
  cbn [lex_parts app]. rewrite A, B, C, D, E.
  change (c :: v ++ tail) with ((c :: v) ++ tail).
  rewrite lex_lit_app by assumption. cbn [rev app]. rewrite Hrest. reflexivity.
Qed.

Lemma lex_parts_printed : forall m w, wf_word w -> forall fuel d rest,
  word_delim d = true ->
  (length (print_word m w) < fuel)%nat ->
  lex_parts fuel (print_word m w ++ d :: rest) = Some (norm_word m w, d :: rest).
Proof.
  induction 1 as [|v w Hne Hv Hnl Hw IH|v Hv|v w Hv Hh Hw IH|v w Hv Hh Hw IH|b ps w Hps Hh Hw IH|s n w Hp Hq Hh Hw IH];
    intros fuel d rest Hd Hf.
  - (* end of word *)
    destruct fuel; [simpl in Hf; lia|]. simpl. rewrite (word_delim_break d Hd). reflexivity.
  - (* Lit *)
    destruct fuel; [simpl in Hf; lia|].
    cbn [print_word norm_word]. unfold norm_lit. rewrite print_lit_body by assumption.
    rewrite <- app_assoc.
    apply lex_parts_lit; auto.
    + apply word_starts_stop; assumption.
    + apply IH; [assumption|]. simpl in Hf. rewrite print_lit_body in Hf by assumption.
      rewrite app_length in Hf. destruct v; [congruence|]. simpl in Hf. lia.
  - (* Lit ending in a lone backslash, last part *)
    destruct fuel; [simpl in Hf; lia|].
    cbn [print_word norm_word]. unfold norm_lit. rewrite (print_lit_lone v Hv).
    rewrite app_nil_r.
    apply lex_parts_lit.
    + destruct v; discriminate.
    + apply wf_lit_body_app; [assumption|apply wf_bsbs].
    + simpl. apply word_delim_stop; assumption.
    + destruct fuel.
      * simpl in Hf. rewrite (print_lit_lone v Hv), app_nil_r, app_length in Hf. simpl in Hf. lia.
      * simpl. rewrite (word_delim_break d Hd). reflexivity.
  - (* '...' *)
    destruct fuel; [simpl in Hf; lia|].
    cbn [print_word norm_word app]. cbn [lex_parts].
    change (word_break SQ) with false. change (SQ =? SQ) with true. cbn iota.
    change (v ++ SQ :: print_word m w) with (v ++ [SQ] ++ print_word m w).
    rewrite <- !app_assoc. cbn [app].
    rewrite lex_sgl_app by assumption. cbn [rev app].
    rewrite IH; [reflexivity|assumption|].
    simpl in Hf. rewrite app_length in Hf. simpl in Hf. lia.
  - (* $'...' *)
    destruct fuel; [simpl in Hf; lia|].
    cbn [print_word norm_word app]. cbn [lex_parts].
    change (word_break DOL) with false. change (DOL =? SQ) with false.
    change (DOL =? DQ) with false. change (DOL =? DOL) with true. cbn iota.
    change (SQ =? SQ) with true. cbn iota.
    rewrite <- !app_assoc. cbn [app].
    rewrite lex_dsgl_app by assumption. cbn [rev app].
    rewrite IH; [reflexivity|assumption|].
    simpl in Hf. rewrite app_length in Hf. simpl in Hf. lia.
  - (* "..." and $"..." *)
    destruct fuel; [simpl in Hf; lia|].
    cbn [print_word norm_word].
    destruct b; cbn [app lex_parts].
    + change (word_break DOL) with false. change (DOL =? SQ) with false.
      change (DOL =? DQ) with false. change (DOL =? DOL) with true. cbn iota.
      change (DQ =? SQ) with false. change (DQ =? DQ) with true. cbn iota.
      rewrite <- !app_assoc. cbn [app].
      rewrite lex_dq_printed; [|assumption|rewrite !app_length; simpl; lia].
      rewrite IH; [reflexivity|assumption|].
      simpl in Hf. rewrite !app_length in Hf. simpl in Hf. lia.
    + change (word_break DQ) with false. change (DQ =? SQ) with false.
      change (DQ =? DQ) with true. cbn iota.
      rewrite <- !app_assoc. cbn [app].
      rewrite lex_dq_printed; [|assumption|rewrite !app_length; simpl; lia].
      rewrite IH; [reflexivity|assumption|].
      simpl in Hf. rewrite !app_length in Hf. simpl in Hf. lia.
  - (* $x / ${x} *)
    destruct fuel; [simpl in Hf; lia|].
    cbn [print_word norm_word].
    destruct (lex_param_printed m s n (lit_cont w) (print_word m w ++ d :: rest) Hp) as (t & Ht & Hl & Hfirst).
    + intros Hs Hv. eapply word_no_name_start; eauto.
    + intros Hv Hc. eapply word_litcont_tail; eauto.
    + rewrite <- app_assoc. rewrite Ht. cbn [lex_parts].
      change (word_break DOL) with false. change (DOL =? SQ) with false.
      change (DOL =? DQ) with false. change (DOL =? DOL) with true. cbn iota.
      destruct t as [|x t]; [contradiction|]. destruct Hfirst as [F1 F2]. rewrite F1, F2.
      rewrite Hl. rewrite IH; [reflexivity|assumption|].
      simpl in Hf. rewrite app_length in Hf.
      assert (1 <= length (print_param (eff_short m s n (lit_cont w)) n))%nat.
      { unfold print_param. destruct (eff_short m s n (lit_cont w)); simpl; lia. }
      lia.
Qed.

Lemma print_first_not_hash : forall m w tail c t, wf_word w -> not_comment_start w ->
  print_word m w ++ tail = c :: t -> w <> [] -> c <> 35.
Proof.
  intros m w tail c t Hw Hn He Hne. destruct w as [|[v|b v|b ps|s n] w]; [congruence| | | |].
  - inversion Hw; subst.
    + cbn [print_word] in He. rewrite print_lit_body in He by assumption.
      destruct v as [|x v]; [congruence|]. simpl in He. inversion He; subst. simpl in Hn. exact Hn.
    + cbn [print_word] in He.
      match goal with Hb : wf_lit_body ?v0 |- _ => rewrite (print_lit_lone v0 Hb) in He; destruct v0 as [|x v0] end.
      * simpl in He. inversion He; subst. unfold BS. lia.
      * simpl in He. inversion He; subst. simpl in Hn. exact Hn.
  - simpl in He. destruct b; simpl in He; inversion He; subst; unfold DOL, SQ; lia.
  - simpl in He. destruct b; simpl in He; inversion He; subst; unfold DOL, DQ; lia.
  - cbn [print_word] in He. unfold print_param in He.
    destruct (eff_short m s n (lit_cont w)); simpl in He; inversion He; subst; unfold DOL; lia.
Qed.

Theorem word_roundtrip : forall m w d rest,
  wf_word w -> not_comment_start w -> word_delim d = true ->
  lex_word (print_word m w ++ d :: rest) = Some (norm_word m w, d :: rest).
Proof.
  intros m w d rest Hw Hn Hd. unfold lex_word.
  destruct (print_word m w ++ d :: rest) as [|c t] eqn:E.
  - destruct (print_word m w); discriminate.
  - assert ((c =? 35) = false) as ->.
    { apply eqb_false_ne. destruct w as [|p w].
      - simpl in E. inversion E; subst. unfold word_delim in Hd. lia.
      - eapply print_first_not_hash; eauto. discriminate. }
    rewrite <- E. apply lex_parts_printed; auto.
    rewrite app_length. simpl. lia.
Qed.

(* norm is idempotent on well-formed words whose printed form is re-lexed: the lexed
   word prints to the same bytes (word-level C02) *)

Lemma print_lit_first : forall v c t, v = c :: t -> exists t', print_lit v = c :: t'.
Proof. intros v c t ->. unfold print_lit. destruct (odd_trailing_bs (c :: t)); simpl; eauto. Qed.

Lemma lit_cont_norm : forall m w, wf_word w -> lit_cont (norm_word m w) = lit_cont w.
Proof.
  intros m w H. destruct w as [|[v|b v|b ps|s n] w]; try reflexivity.
  cbn [norm_word lit_cont]. unfold norm_lit.
  inversion H; subst.
  - destruct v as [|c t]; [congruence|]. destruct (print_lit_first (c :: t) c t eq_refl) as [t' ->]. reflexivity.
  - match goal with Hb : wf_lit_body ?v0 |- _ => rewrite (print_lit_lone v0 Hb); destruct v0 end; reflexivity.
Qed.

Lemma qlit_cont_norm : forall m ps, wf_qparts ps -> qlit_cont (norm_qparts m ps) = qlit_cont ps.
Proof.
  intros m ps H. destruct ps as [|[v|s n] ps]; try reflexivity.
  cbn [norm_qparts qlit_cont]. unfold norm_lit. inversion H; subst.
  rewrite print_qlit by assumption. reflexivity.
Qed.

Lemma eff_short_idem : forall m s n c, eff_short m (eff_short m s n c) n c = eff_short m s n c.
Proof.
  intros m s n c. unfold eff_short. destruct s; [reflexivity|].
  destruct m; [|reflexivity]. destruct (minify_shortens n c); reflexivity.
Qed.

Lemma print_lit_idem_body : forall v, wf_lit_body v -> print_lit (print_lit v) = print_lit v.
Proof. intros v H. rewrite (print_lit_body v H). apply (print_lit_body v H). Qed.

Lemma print_qparts_norm : forall m ps, wf_qparts ps ->
  print_qparts m (norm_qparts m ps) = print_qparts m ps.
Proof.
  induction 1 as [|v ps Hne Hv Hnl Hps IH|s n ps Hp Hq Hps IH]; [reflexivity| |].
  - cbn [norm_qparts print_qparts]. unfold norm_lit. rewrite (print_qlit v Hv). rewrite (print_qlit v Hv). rewrite IH. reflexivity.
  - cbn [norm_qparts print_qparts]. rewrite qlit_cont_norm by assumption.
    rewrite eff_short_idem, IH. reflexivity.
Qed.

(* re-printing the re-lexed (= normalised) word gives the same bytes *)
Lemma print_word_norm : forall m w, wf_word w -> print_word m (norm_word m w) = print_word m w.
Proof.
  induction 1 as [|v w Hne Hv Hnl Hw IH|v Hv|v w Hv Hh Hw IH|v w Hv Hh Hw IH|b ps w Hps Hh Hw IH|s n w Hp Hq Hh Hw IH];
    try reflexivity.
  - cbn [norm_word print_word]. unfold norm_lit. rewrite print_lit_idem_body by assumption. rewrite IH. reflexivity.
  - cbn [norm_word print_word]. unfold norm_lit. rewrite (print_lit_lone v Hv).
    rewrite print_lit_body; [reflexivity|]. apply wf_lit_body_app; [assumption|apply wf_bsbs].
  - cbn [norm_word print_word]. rewrite IH. reflexivity.
  - cbn [norm_word print_word]. rewrite IH. reflexivity.
  - cbn [norm_word print_word]. rewrite print_qparts_norm by assumption. rewrite IH. reflexivity.
  - cbn [norm_word print_word]. rewrite lit_cont_norm by assumption. rewrite eff_short_idem, IH. reflexivity.
Qed.

(* fmt(fmt(w)) = fmt(w) on words: lexing the printed word and printing again is a fixed point *)
Theorem word_print_fixpoint : forall m w d rest w' r',
  wf_word w -> not_comment_start w -> word_delim d = true ->
  lex_word (print_word m w ++ d :: rest) = Some (w', r') ->
  print_word m w' ++ r' = print_word m w ++ d :: rest.
Proof.
  intros m w d rest w' r' Hw Hn Hd H. rewrite word_roundtrip in H by assumption.
  inversion H; subst. rewrite print_word_norm by assumption. reflexivity.
Qed.

(* ------------------------------------------------------------ non-vacuity witnesses *)
Example wf_example :
  wf_word [Lit [97]; Param false [120]; Lit [121]; Dbl false [QParam false [120]; QLit [45; 92; 34]];
           Sgl true [92; 39]; Param false [49]; Lit [48; 92]].
Proof.
  apply wfw_lit; [discriminate| |exact I|].
  { apply wfl_plain; [reflexivity|unfold BS; lia|constructor]. }
  apply wfw_param; [split; reflexivity|simpl; intros; discriminate|simpl; lia|].
  apply wfw_lit; [discriminate| |exact I|].
  { apply wfl_plain; [reflexivity|unfold BS; lia|constructor]. }
  apply wfw_dbl; [|exact I|].
  { apply wfqs_param; [split; reflexivity|simpl; intros; discriminate|].
    apply wfqs_lit; [discriminate| |exact I|constructor].
    apply wfq_plain; try (unfold DQ, DOL, BQ, BS; lia).
    apply wfq_esc; [unfold NL; lia|constructor]. }
  apply wfw_dsgl; [apply wfd_esc; constructor|exact I|].
  apply wfw_param; [split; reflexivity|simpl; intros; discriminate|simpl; lia|].
  change [Lit [48; 92]] with [Lit ([48] ++ [BS])].
  apply wfw_lit_lone. apply wfl_plain; [reflexivity|unfold BS; lia|constructor].
Qed.
