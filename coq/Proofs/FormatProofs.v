(* Proofs/FormatProofs.v — proofs about Expand/Format.v *)
From Verif Require Import Base.Str Expand.Format.
Open Scope N_scope.

Lemma emit_not_fuel : forall bs r, emit bs r = OutOfFuel -> r = OutOfFuel.
Proof. intros bs r; destruct r; simpl; congruence. Qed.
