(* Proofs/FormatProofs.v — proofs about Expand/Format.v *)
From Verif Require Import Base.Str Expand.Format.
From Coq Require Import ZifyN ZifyNat ZifyBool.
Open Scope N_scope.

(* ------------------------------------------------------------------ fuel and panics *)
Lemma emit_not_fuel : forall bs r, emit bs r = OutOfFuel -> r = OutOfFuel.
Proof. intros bs r; destruct r; simpl; congruence. Qed.
Lemma emit_not_panic : forall bs r, emit bs r = GoPanic -> r = GoPanic.
Proof. intros bs r; destruct r; simpl; congruence. Qed.

Lemma emit_ne_fuel : forall bs r, r <> OutOfFuel -> emit bs r <> OutOfFuel.
Proof. intros bs r H E; apply emit_not_fuel in E; auto. Qed.
Lemma emit_ne_panic : forall bs r, r <> GoPanic -> emit bs r <> GoPanic.
Proof. intros bs r H E; apply emit_not_panic in E; auto. Qed.

Lemma read_digits_len : forall m h s d r, read_digits m h s = (d, r) -> (length r <= length s)%nat.
Proof.
  induction m; intros h s d r H; simpl in H.
  - inversion H; subst; lia.
  - destruct s as [|c t]; [inversion H; subst; simpl; lia|].
    destruct (rd_ok h c).
    + destruct (read_digits m h t) as [d' r'] eqn:E. inversion H; subst.
      apply IHm in E. simpl; lia.
    + inversion H; subst; lia.
Qed.

Lemma take_arg_some : forall a, take_arg a <> None.
Proof.
  intros [l|]; unfold take_arg; simpl.
  - destruct l; simpl; discriminate.
  - discriminate.
Qed.

Section LoopFacts.
  Variable brec : str -> outcome.

  Lemma loop_no_oof :
    (forall a, brec a <> OutOfFuel) ->
    forall fuel pb format fmts args, (length format < fuel)%nat ->
    loop brec fuel pb format fmts args <> OutOfFuel.
  Proof.
    intros Hb. induction fuel; intros pb format fmts args Hl; [lia|].
    destruct format as [|c rest]; cbn [loop].
    - destruct (nonempty fmts); discriminate.
    - simpl length in Hl.
      repeat match goal with
      | |- emit _ _ <> OutOfFuel => apply emit_ne_fuel
      | |- loop _ _ _ _ _ _ <> OutOfFuel => apply IHfuel; simpl length in *; lia
      | E : read_digits _ _ _ = (_, _) |- loop _ _ _ _ _ _ <> OutOfFuel =>
          apply read_digits_len in E; apply IHfuel; simpl length in *; lia
      | |- Fail _ <> _ => discriminate
      | |- GoPanic <> _ => discriminate
      | |- Unmodelled <> _ => discriminate
      | |- (if ?b then _ else _) <> _ => destruct b
      | |- (let '(_, _) := ?x in _) <> _ => destruct x eqn:?
      | |- match ?x with _ => _ end <> _ => destruct x eqn:?
      end.
      all: try (match goal with E : brec _ = OutOfFuel |- _ => exfalso; exact (Hb _ E) end).
  Qed.

  Lemma loop_no_panic :
    (forall a, brec a <> GoPanic) ->
    forall fuel pb format fmts args, loop brec fuel pb format fmts args <> GoPanic.
  Proof.
    intros Hb. induction fuel; intros pb format fmts args; [discriminate|].
    destruct format as [|c rest]; cbn [loop].
    - destruct (nonempty fmts); discriminate.
    - repeat match goal with
      | |- emit _ _ <> GoPanic => apply emit_ne_panic
      | |- loop _ _ _ _ _ _ <> GoPanic => apply IHfuel
      | |- Fail _ <> _ => discriminate
      | |- OutOfFuel <> _ => discriminate
      | |- Unmodelled <> _ => discriminate
      | |- (if ?b then _ else _) <> _ => destruct b
      | |- (let '(_, _) := ?x in _) <> _ => destruct x eqn:?
      | |- match ?x with _ => _ end <> _ => destruct x eqn:?
      end.
      all: try (match goal with E : brec _ = GoPanic |- _ => exfalso; exact (Hb _ E) end).
      all: try (match goal with E : take_arg _ = None |- _ => exfalso; exact (take_arg_some _ E) end).
  Qed.
End LoopFacts.

Lemma format_b_no_oof : forall a, format_b a <> OutOfFuel.
Proof. intro a; unfold format_b; apply loop_no_oof; [discriminate | lia]. Qed.
Lemma format_b_no_panic : forall a, format_b a <> GoPanic.
Proof. intro a; unfold format_b; apply loop_no_panic; discriminate. Qed.
Lemma format_into_no_oof : forall f a, format_into f a <> OutOfFuel.
Proof. intros; unfold format_into; apply loop_no_oof; [apply format_b_no_oof | lia]. Qed.
Lemma format_into_no_panic : forall f a, format_into f a <> GoPanic.
Proof. intros; unfold format_into; apply loop_no_panic; apply format_b_no_panic. Qed.

Lemma format_no_oof : forall f a, format f a <> FOutOfFuel.
Proof. intros f a; unfold format; pose proof (format_into_no_oof f a); destruct (format_into f a); congruence. Qed.
Lemma format_no_panic : forall f a, format f a <> FPanic.
Proof. intros f a; unfold format; pose proof (format_into_no_panic f a); destruct (format_into f a); congruence. Qed.
Lemma format_consumed_le : forall f a s n, format f (Some a) = FOk s n -> (n <= length a)%nat.
Proof. intros f a s n; unfold format; destruct (format_into f (Some a)); intro H; inversion H; subst; simpl; lia. Qed.

Lemma bemit_ne_fuel : forall bs r, r <> BOutOfFuel -> bemit bs r <> BOutOfFuel.
Proof. intros bs r H; destruct r; simpl; congruence. Qed.
Lemma bemit_ne_panic : forall bs r, r <> BPanic -> bemit bs r <> BPanic.
Proof. intros bs r H; destruct r; simpl; congruence. Qed.

(* the reuse loop: every continuing round consumed >= 1 argument, so |args|+1 rounds suffice *)
Lemma printf_rounds_terminates : forall fuel fmt args, (length args < fuel)%nat ->
  printf_rounds fuel fmt args <> BOutOfFuel.
Proof.
  induction fuel; intros fmt args Hl; [lia|]. cbn [printf_rounds].
  pose proof (format_no_oof fmt (Some args)) as Hf.
  destruct (format fmt (Some args)) as [s n| | | |] eqn:E; try discriminate; try congruence.
  apply format_consumed_le in E.
  destruct (length args <? n)%nat eqn:L; [discriminate|].
  destruct (n =? 0)%nat eqn:N0; simpl; [discriminate|].
  destruct (nonempty (skipn n args)) eqn:NE; simpl; [|discriminate].
  apply bemit_ne_fuel, IHfuel. rewrite skipn_length. apply Nat.eqb_neq in N0. lia.
Qed.

Lemma printf_rounds_no_panic : forall fuel fmt args, printf_rounds fuel fmt args <> BPanic.
Proof.
  induction fuel; intros fmt args; [discriminate|]. cbn [printf_rounds].
  pose proof (format_no_panic fmt (Some args)) as Hf.
  destruct (format fmt (Some args)) as [s n| | | |] eqn:E; try discriminate; try congruence.
  apply format_consumed_le in E.
  destruct (length args <? n)%nat eqn:L; [apply Nat.ltb_lt in L; lia|].
  destruct ((n =? 0)%nat || negb (nonempty (skipn n args))); [discriminate|].
  apply bemit_ne_panic, IHfuel.
Qed.

Theorem printf_builtin_terminates : forall argv, printf_builtin argv <> BOutOfFuel.
Proof. intros [|f a]; unfold printf_builtin; [discriminate|]. apply printf_rounds_terminates; lia. Qed.
Theorem printf_builtin_no_panic : forall argv, printf_builtin argv <> BPanic.
Proof. intros [|f a]; unfold printf_builtin; [discriminate|]. apply printf_rounds_no_panic. Qed.

Lemma echo_expand_ok : forall a, echo_expand a <> BPanic /\ echo_expand a <> BOutOfFuel.
Proof.
  intro a; unfold echo_expand.
  pose proof (format_no_panic [PCT; 98] (Some [a])); pose proof (format_no_oof [PCT; 98] (Some [a])).
  destruct (format [PCT; 98] (Some [a])); split; congruence.
Qed.
Lemma echo_args_ok : forall args first doexp nl,
  echo_args first doexp args nl <> BPanic /\ echo_args first doexp args nl <> BOutOfFuel.
Proof.
  induction args as [|a t IH]; intros first doexp nl; cbn [echo_args]; [split; discriminate|].
  destruct (echo_expand_ok a) as [P F].
  destruct doexp.
  - destruct (echo_expand a); try congruence; try (split; discriminate).
    destruct (IH false true nl). split; [apply bemit_ne_panic | apply bemit_ne_fuel]; auto.
  - destruct (IH false false nl). split; [apply bemit_ne_panic | apply bemit_ne_fuel]; auto.
Qed.
Theorem echo_builtin_ok : forall args, echo_builtin args <> BPanic /\ echo_builtin args <> BOutOfFuel.
Proof.
  intro args; unfold echo_builtin. destruct (echo_opts args true false) as [[r nl] ex]. apply echo_args_ok.
Qed.


(* ------------------------------------------------------------------ refuted: one witness per known class.
   [bash_*] = what real bash 5.2 writes (re-confirmed on every run by the harness' pinned witnesses). *)
(* printf '%.2s' 'abcdef'  -> bash: 'ab' status 0 *)
Definition w_precision_rejected : list str := [[37;46;50;115]; [97;98;99;100;101;102]].
Lemma refuted_precision_rejected : printf_builtin w_precision_rejected <> BOut [97;98] 0 /\ (fun a => spec_printf (hd [] a) (tl a)) w_precision_rejected = None.
Proof. split; [vm_compute; discriminate | vm_compute; reflexivity]. Qed.
(* printf '%d' 'abc'  -> bash: '0' status 1 *)
Definition w_invalid_number_argument : list str := [[37;100]; [97;98;99]].
Lemma refuted_invalid_number_argument : printf_builtin w_invalid_number_argument <> BOut [48] 1 /\ (fun a => spec_printf (hd [] a) (tl a)) w_invalid_number_argument = None.
Proof. split; [vm_compute; discriminate | vm_compute; reflexivity]. Qed.
(* printf '%d' "'a"  -> bash: '97' status 0 *)
Definition w_char_constant_argument : list str := [[37;100]; [39;97]].
Lemma refuted_char_constant_argument : printf_builtin w_char_constant_argument <> BOut [57;55] 0 /\ (fun a => spec_printf (hd [] a) (tl a)) w_char_constant_argument = None.
Proof. split; [vm_compute; discriminate | vm_compute; reflexivity]. Qed.
(* printf '%05s|' 'ab'  -> bash: '   ab|' status 0 *)
Definition w_zero_flag_on_string : list str := [[37;48;53;115;124]; [97;98]].
Lemma refuted_zero_flag_on_string : printf_builtin w_zero_flag_on_string <> BOut [32;32;32;97;98;124] 0 /\ (fun a => spec_printf (hd [] a) (tl a)) w_zero_flag_on_string = None.
Proof. split; [vm_compute; discriminate | vm_compute; reflexivity]. Qed.
(* printf '%5b|' 'x'  -> bash: '    x|' status 0 *)
Definition w_b_width_ignored : list str := [[37;53;98;124]; [120]].
Lemma refuted_b_width_ignored : printf_builtin w_b_width_ignored <> BOut [32;32;32;32;120;124] 0 /\ (fun a => spec_printf (hd [] a) (tl a)) w_b_width_ignored = None.
Proof. split; [vm_compute; discriminate | vm_compute; reflexivity]. Qed.
(* printf '%+x' '255'  -> bash: 'ff' status 0 *)
Definition w_sign_flag_on_unsigned : list str := [[37;43;120]; [50;53;53]].
Lemma refuted_sign_flag_on_unsigned : printf_builtin w_sign_flag_on_unsigned <> BOut [102;102] 0 /\ (fun a => spec_printf (hd [] a) (tl a)) w_sign_flag_on_unsigned = None.
Proof. split; [vm_compute; discriminate | vm_compute; reflexivity]. Qed.
(* printf '%+ d' '5'  -> bash: '+5' status 0 *)
Definition w_multiple_flags_rejected : list str := [[37;43;32;100]; [53]].
Lemma refuted_multiple_flags_rejected : printf_builtin w_multiple_flags_rejected <> BOut [43;53] 0 /\ (fun a => spec_printf (hd [] a) (tl a)) w_multiple_flags_rejected = None.
Proof. split; [vm_compute; discriminate | vm_compute; reflexivity]. Qed.
(* printf 'abc%'  -> bash: 'abc' status 1 *)
Definition w_incomplete_directive_output : list str := [[97;98;99;37]].
Lemma refuted_incomplete_directive_output : printf_builtin w_incomplete_directive_output <> BOut [97;98;99] 1 /\ (fun a => spec_printf (hd [] a) (tl a)) w_incomplete_directive_output = None.
Proof. split; [vm_compute; discriminate | vm_compute; reflexivity]. Qed.
(* printf '%5%|'  -> bash: '' status 1 *)
Definition w_percent_with_flags_or_width : list str := [[37;53;37;124]].
Lemma refuted_percent_with_flags_or_width : printf_builtin w_percent_with_flags_or_width <> BOut [] 1 /\ (fun a => spec_printf (hd [] a) (tl a)) w_percent_with_flags_or_width = None.
Proof. split; [vm_compute; discriminate | vm_compute; reflexivity]. Qed.
(* printf '%u' '18446744073709551615'  -> bash: '18446744073709551615' status 0 *)
Definition w_unsigned_beyond_int64 : list str := [[37;117]; [49;56;52;52;54;55;52;52;48;55;51;55;48;57;53;53;49;54;49;53]].
Lemma refuted_unsigned_beyond_int64 : printf_builtin w_unsigned_beyond_int64 <> BOut [49;56;52;52;54;55;52;52;48;55;51;55;48;57;53;53;49;54;49;53] 0 /\ (fun a => spec_printf (hd [] a) (tl a)) w_unsigned_beyond_int64 = None.
Proof. split; [vm_compute; discriminate | vm_compute; reflexivity]. Qed.
(* printf '%b' 'a\\cb' 'x'  -> bash: 'a' status 0 *)
Definition w_b_backslash_c : list str := [[37;98]; [97;92;99;98]; [120]].
Lemma refuted_b_backslash_c : printf_builtin w_b_backslash_c <> BOut [97] 0 /\ (fun a => spec_printf (hd [] a) (tl a)) w_b_backslash_c = None.
Proof. split; [vm_compute; discriminate | vm_compute; reflexivity]. Qed.
(* printf '%b' "\\'"  -> bash: "\\'" status 0 *)
Definition w_b_quote_escape : list str := [[37;98]; [92;39]].
Lemma refuted_b_quote_escape : printf_builtin w_b_quote_escape <> BOut [92;39] 0 /\ (fun a => spec_printf (hd [] a) (tl a)) w_b_quote_escape = None.
Proof. split; [vm_compute; discriminate | vm_compute; reflexivity]. Qed.
(* printf '%5s|' 'é'  -> bash: '   é|' status 0 *)
Definition w_width_counts_runes : list str := [[37;53;115;124]; [195;169]].
Lemma refuted_width_counts_runes : printf_builtin w_width_counts_runes <> BOut [32;32;32;195;169;124] 0 /\ (fun a => spec_printf (hd [] a) (tl a)) w_width_counts_runes = None.
Proof. split; [vm_compute; discriminate | vm_compute; reflexivity]. Qed.
(* printf '\\ud800'  -> bash: b'\xed\xa0\x80' status 0 *)
Definition w_unicode_escape_nonscalar : list str := [[92;117;100;56;48;48]].
Lemma refuted_unicode_escape_nonscalar : printf_builtin w_unicode_escape_nonscalar <> BOut [237;160;128] 0 /\ (fun a => spec_printf (hd [] a) (tl a)) w_unicode_escape_nonscalar = None.
Proof. split; [vm_compute; discriminate | vm_compute; reflexivity]. Qed.
(* printf '\\%d|' '7'  -> bash: '\\7|' status 0 *)
Definition w_backslash_percent : list str := [[92;37;100;124]; [55]].
Lemma refuted_backslash_percent : printf_builtin w_backslash_percent <> BOut [92;55;124] 0 /\ (fun a => spec_printf (hd [] a) (tl a)) w_backslash_percent = None.
Proof. split; [vm_compute; discriminate | vm_compute; reflexivity]. Qed.
(* echo '-ne' 'a\\n'  -> bash: 'a\n' status 0 *)
Definition w_echo_combined_options : list str := [[45;110;101]; [97;92;110]].
Lemma refuted_echo_combined_options : echo_builtin w_echo_combined_options <> BOut [97;10] 0 /\ spec_echo w_echo_combined_options = None.
Proof. split; [vm_compute; discriminate | vm_compute; reflexivity]. Qed.
(* echo '-e' '\\101'  -> bash: '\\101\n' status 0 *)
Definition w_echo_bare_octal : list str := [[45;101]; [92;49;48;49]].
Lemma refuted_echo_bare_octal : echo_builtin w_echo_bare_octal <> BOut [92;49;48;49;10] 0 /\ spec_echo w_echo_bare_octal = None.
Proof. split; [vm_compute; discriminate | vm_compute; reflexivity]. Qed.
