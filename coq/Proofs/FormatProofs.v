(* Proofs/FormatProofs.v — proofs about Expand/Format.v *)
From Verif Require Import Base.Str Expand.Format.
From Coq Require Import ZifyN ZifyNat ZifyBool.
Open Scope N_scope.

(* ------------------------------------------------------------------ fuel and panics *)
Lemma emit_not_fuel : forall bs r, emit bs r = OutOfFuel -> r = OutOfFuel.
Proof. intros bs r; destruct r; simpl; congruence. Qed.
Lemma emit_not_panic : forall bs r, emit bs r = GoPanic -> r = GoPanic.
Proof. intros bs r; destruct r; simpl; congruence. Qed.

Lemma emit_ne_fuel : forall bs r, r <> OutOfFuel -> emit bs r <> OutOfFuel.
Proof. intros bs r H E; apply emit_not_fuel in E; auto. Qed.
Lemma emit_ne_panic : forall bs r, r <> GoPanic -> emit bs r <> GoPanic.
Proof. intros bs r H E; apply emit_not_panic in E; auto. Qed.

Lemma read_digits_len : forall m h s d r, read_digits m h s = (d, r) -> (length r <= length s)%nat.
Proof.
  induction m; intros h s d r H; simpl in H.
  - inversion H; subst; lia.
  - destruct s as [|c t]; [inversion H; subst; simpl; lia|].
    destruct (rd_ok h c).
    + destruct (read_digits m h t) as [d' r'] eqn:E. inversion H; subst.
      apply IHm in E. simpl; lia.
    + inversion H; subst; lia.
Qed.

Lemma take_arg_some : forall a, take_arg a <> None.
Proof.
  intros [l|]; unfold take_arg; simpl.
  - destruct l; simpl; discriminate.
  - discriminate.
Qed.

Section LoopFacts.
  Variable brec : str -> outcome.

  Lemma loop_no_oof :
    (forall a, brec a <> OutOfFuel) ->
    forall fuel pb format fmts args, (length format < fuel)%nat ->
    loop brec fuel pb format fmts args <> OutOfFuel.
  Proof.
    intros Hb. induction fuel; intros pb format fmts args Hl; [lia|].
    destruct format as [|c rest]; cbn [loop].
    - destruct (nonempty fmts); discriminate.
    - simpl length in Hl.
      repeat match goal with
      | |- emit _ _ <> OutOfFuel => apply emit_ne_fuel
      | |- loop _ _ _ _ _ _ <> OutOfFuel => apply IHfuel; simpl length in *; lia
      | E : read_digits _ _ _ = (_, _) |- loop _ _ _ _ _ _ <> OutOfFuel =>
          apply read_digits_len in E; apply IHfuel; simpl length in *; lia
      | |- Fail _ <> _ => discriminate
      | |- GoPanic <> _ => discriminate
      | |- Unmodelled <> _ => discriminate
      | |- (if ?b then _ else _) <> _ => destruct b
      | |- (let '(_, _) := ?x in _) <> _ => destruct x eqn:?
      | |- match ?x with _ => _ end <> _ => destruct x eqn:?
      end.
      all: try (match goal with E : brec _ = OutOfFuel |- _ => exfalso; exact (Hb _ E) end).
  Qed.

  Lemma loop_no_panic :
    (forall a, brec a <> GoPanic) ->
    forall fuel pb format fmts args, loop brec fuel pb format fmts args <> GoPanic.
  Proof.
    intros Hb. induction fuel; intros pb format fmts args; [discriminate|].
    destruct format as [|c rest]; cbn [loop].
    - destruct (nonempty fmts); discriminate.
    - repeat match goal with
      | |- emit _ _ <> GoPanic => apply emit_ne_panic
      | |- loop _ _ _ _ _ _ <> GoPanic => apply IHfuel
      | |- Fail _ <> _ => discriminate
      | |- OutOfFuel <> _ => discriminate
      | |- Unmodelled <> _ => discriminate
      | |- (if ?b then _ else _) <> _ => destruct b
      | |- (let '(_, _) := ?x in _) <> _ => destruct x eqn:?
      | |- match ?x with _ => _ end <> _ => destruct x eqn:?
      end.
      all: try (match goal with E : brec _ = GoPanic |- _ => exfalso; exact (Hb _ E) end).
      all: try (match goal with E : take_arg _ = None |- _ => exfalso; exact (take_arg_some _ E) end).
  Qed.
End LoopFacts.

Lemma format_b_no_oof : forall a, format_b a <> OutOfFuel.
Proof. intro a; unfold format_b; apply loop_no_oof; [discriminate | lia]. Qed.
Lemma format_b_no_panic : forall a, format_b a <> GoPanic.
Proof. intro a; unfold format_b; apply loop_no_panic; discriminate. Qed.
Lemma format_into_no_oof : forall f a, format_into f a <> OutOfFuel.
Proof. intros; unfold format_into; apply loop_no_oof; [apply format_b_no_oof | lia]. Qed.
Lemma format_into_no_panic : forall f a, format_into f a <> GoPanic.
Proof. intros; unfold format_into; apply loop_no_panic; apply format_b_no_panic. Qed.

Lemma format_no_oof : forall f a, format f a <> FOutOfFuel.
Proof. intros f a; unfold format; pose proof (format_into_no_oof f a); destruct (format_into f a); congruence. Qed.
Lemma format_no_panic : forall f a, format f a <> FPanic.
Proof. intros f a; unfold format; pose proof (format_into_no_panic f a); destruct (format_into f a); congruence. Qed.
Lemma format_consumed_le : forall f a s n, format f (Some a) = FOk s n -> (n <= length a)%nat.
Proof. intros f a s n; unfold format; destruct (format_into f (Some a)); intro H; inversion H; subst; simpl; lia. Qed.

Lemma bemit_ne_fuel : forall bs r, r <> BOutOfFuel -> bemit bs r <> BOutOfFuel.
Proof. intros bs r H; destruct r; simpl; congruence. Qed.
Lemma bemit_ne_panic : forall bs r, r <> BPanic -> bemit bs r <> BPanic.
Proof. intros bs r H; destruct r; simpl; congruence. Qed.

(* the reuse loop: every continuing round consumed >= 1 argument, so |args|+1 rounds suffice *)
Lemma printf_rounds_terminates : forall fuel fmt args, (length args < fuel)%nat ->
  printf_rounds fuel fmt args <> BOutOfFuel.
Proof.
  induction fuel; intros fmt args Hl; [lia|]. cbn [printf_rounds].
  pose proof (format_no_oof fmt (Some args)) as Hf.
  destruct (format fmt (Some args)) as [s n| | | |] eqn:E; try discriminate; try congruence.
  apply format_consumed_le in E.
  destruct (length args <? n)%nat eqn:L; [discriminate|].
  destruct (n =? 0)%nat eqn:N0; simpl; [discriminate|].
  destruct (nonempty (skipn n args)) eqn:NE; simpl; [|discriminate].
  apply bemit_ne_fuel, IHfuel. rewrite skipn_length. apply Nat.eqb_neq in N0. lia.
Qed.

Lemma printf_rounds_no_panic : forall fuel fmt args, printf_rounds fuel fmt args <> BPanic.
Proof.
  induction fuel; intros fmt args; [discriminate|]. cbn [printf_rounds].
  pose proof (format_no_panic fmt (Some args)) as Hf.
  destruct (format fmt (Some args)) as [s n| | | |] eqn:E; try discriminate; try congruence.
  apply format_consumed_le in E.
  destruct (length args <? n)%nat eqn:L; [apply Nat.ltb_lt in L; lia|].
  destruct ((n =? 0)%nat || negb (nonempty (skipn n args))); [discriminate|].
  apply bemit_ne_panic, IHfuel.
Qed.

Theorem printf_builtin_terminates : forall argv, printf_builtin argv <> BOutOfFuel.
Proof. intros [|f a]; unfold printf_builtin; [discriminate|]. apply printf_rounds_terminates; lia. Qed.
Theorem printf_builtin_no_panic : forall argv, printf_builtin argv <> BPanic.
Proof. intros [|f a]; unfold printf_builtin; [discriminate|]. apply printf_rounds_no_panic. Qed.

Lemma echo_expand_ok : forall a, echo_expand a <> BPanic /\ echo_expand a <> BOutOfFuel.
Proof.
  intro a; unfold echo_expand.
  pose proof (format_no_panic [PCT; 98] (Some [a])); pose proof (format_no_oof [PCT; 98] (Some [a])).
  destruct (format [PCT; 98] (Some [a])); split; congruence.
Qed.
Lemma echo_args_ok : forall args first doexp nl,
  echo_args first doexp args nl <> BPanic /\ echo_args first doexp args nl <> BOutOfFuel.
Proof.
  induction args as [|a t IH]; intros first doexp nl; cbn [echo_args]; [split; discriminate|].
  destruct (echo_expand_ok a) as [P F].
  destruct doexp.
  - destruct (echo_expand a); try congruence; try (split; discriminate).
    destruct (IH false true nl). split; [apply bemit_ne_panic | apply bemit_ne_fuel]; auto.
  - destruct (IH false false nl). split; [apply bemit_ne_panic | apply bemit_ne_fuel]; auto.
Qed.
Theorem echo_builtin_ok : forall args, echo_builtin args <> BPanic /\ echo_builtin args <> BOutOfFuel.
Proof.
  intro args; unfold echo_builtin. destruct (echo_opts args true false) as [[r nl] ex]. apply echo_args_ok.
Qed.


(* ------------------------------------------------------------------ refuted: one witness per known class.
   [bash_*] = what real bash 5.2 writes (re-confirmed on every run by the harness' pinned witnesses). *)
(* printf '%.2s' 'abcdef'  -> bash: 'ab' status 0 *)
Definition w_precision_rejected : list str := [[37;46;50;115]; [97;98;99;100;101;102]].
Lemma refuted_precision_rejected : printf_builtin w_precision_rejected <> BOut [97;98] 0 /\ (fun a => spec_printf (hd [] a) (tl a)) w_precision_rejected = None.
Proof. split; [vm_compute; discriminate | vm_compute; reflexivity]. Qed.
(* printf '%d' 'abc'  -> bash: '0' status 1 *)
Definition w_invalid_number_argument : list str := [[37;100]; [97;98;99]].
Lemma refuted_invalid_number_argument : printf_builtin w_invalid_number_argument <> BOut [48] 1 /\ (fun a => spec_printf (hd [] a) (tl a)) w_invalid_number_argument = None.
Proof. split; [vm_compute; discriminate | vm_compute; reflexivity]. Qed.
(* printf '%d' DQUOTE'aDQUOTE  -> bash: '97' status 0 *)
Definition w_char_constant_argument : list str := [[37;100]; [39;97]].
Lemma refuted_char_constant_argument : printf_builtin w_char_constant_argument <> BOut [57;55] 0 /\ (fun a => spec_printf (hd [] a) (tl a)) w_char_constant_argument = None.
Proof. split; [vm_compute; discriminate | vm_compute; reflexivity]. Qed.
(* printf '%05s|' 'ab'  -> bash: '   ab|' status 0 *)
Definition w_zero_flag_on_string : list str := [[37;48;53;115;124]; [97;98]].
Lemma refuted_zero_flag_on_string : printf_builtin w_zero_flag_on_string <> BOut [32;32;32;97;98;124] 0 /\ (fun a => spec_printf (hd [] a) (tl a)) w_zero_flag_on_string = None.
Proof. split; [vm_compute; discriminate | vm_compute; reflexivity]. Qed.
(* printf '%+x' '255'  -> bash: 'ff' status 0 *)
Definition w_sign_flag_on_unsigned : list str := [[37;43;120]; [50;53;53]].
Lemma refuted_sign_flag_on_unsigned : printf_builtin w_sign_flag_on_unsigned <> BOut [102;102] 0 /\ (fun a => spec_printf (hd [] a) (tl a)) w_sign_flag_on_unsigned = None.
Proof. split; [vm_compute; discriminate | vm_compute; reflexivity]. Qed.
(* printf '%+ d' '5'  -> bash: '+5' status 0 *)
Definition w_multiple_flags_rejected : list str := [[37;43;32;100]; [53]].
Lemma refuted_multiple_flags_rejected : printf_builtin w_multiple_flags_rejected <> BOut [43;53] 0 /\ (fun a => spec_printf (hd [] a) (tl a)) w_multiple_flags_rejected = None.
Proof. split; [vm_compute; discriminate | vm_compute; reflexivity]. Qed.
(* printf 'abc%'  -> bash: 'abc' status 1 *)
Definition w_incomplete_directive_output : list str := [[97;98;99;37]].
Lemma refuted_incomplete_directive_output : printf_builtin w_incomplete_directive_output <> BOut [97;98;99] 1 /\ (fun a => spec_printf (hd [] a) (tl a)) w_incomplete_directive_output = None.
Proof. split; [vm_compute; discriminate | vm_compute; reflexivity]. Qed.
(* printf '%5%|'  -> bash: '' status 1 *)
Definition w_percent_with_flags_or_width : list str := [[37;53;37;124]].
Lemma refuted_percent_with_flags_or_width : printf_builtin w_percent_with_flags_or_width <> BOut [] 1 /\ (fun a => spec_printf (hd [] a) (tl a)) w_percent_with_flags_or_width = None.
Proof. split; [vm_compute; discriminate | vm_compute; reflexivity]. Qed.
(* printf '%u' '18446744073709551615'  -> bash: '18446744073709551615' status 0 *)
Definition w_unsigned_beyond_int64 : list str := [[37;117]; [49;56;52;52;54;55;52;52;48;55;51;55;48;57;53;53;49;54;49;53]].
Lemma refuted_unsigned_beyond_int64 : printf_builtin w_unsigned_beyond_int64 <> BOut [49;56;52;52;54;55;52;52;48;55;51;55;48;57;53;53;49;54;49;53] 0 /\ (fun a => spec_printf (hd [] a) (tl a)) w_unsigned_beyond_int64 = None.
Proof. split; [vm_compute; discriminate | vm_compute; reflexivity]. Qed.
(* printf '%b' 'a\\cb' 'x'  -> bash: 'a' status 0 *)
Definition w_b_backslash_c : list str := [[37;98]; [97;92;99;98]; [120]].
Lemma refuted_b_backslash_c : printf_builtin w_b_backslash_c <> BOut [97] 0 /\ (fun a => spec_printf (hd [] a) (tl a)) w_b_backslash_c = None.
Proof. split; [vm_compute; discriminate | vm_compute; reflexivity]. Qed.
(* printf '%b' DQUOTE\\'DQUOTE  -> bash: DQUOTE\\'DQUOTE status 0 *)
Definition w_b_quote_escape : list str := [[37;98]; [92;39]].
Lemma refuted_b_quote_escape : printf_builtin w_b_quote_escape <> BOut [92;39] 0 /\ (fun a => spec_printf (hd [] a) (tl a)) w_b_quote_escape = None.
Proof. split; [vm_compute; discriminate | vm_compute; reflexivity]. Qed.
(* printf '%5s|' 'é'  -> bash: '   é|' status 0 *)
Definition w_width_counts_runes : list str := [[37;53;115;124]; [195;169]].
Lemma refuted_width_counts_runes : printf_builtin w_width_counts_runes <> BOut [32;32;32;195;169;124] 0 /\ (fun a => spec_printf (hd [] a) (tl a)) w_width_counts_runes = None.
Proof. split; [vm_compute; discriminate | vm_compute; reflexivity]. Qed.
(* printf '\\ud800'  -> bash: b'\xed\xa0\x80' status 0 *)
Definition w_unicode_escape_nonscalar : list str := [[92;117;100;56;48;48]].
Lemma refuted_unicode_escape_nonscalar : printf_builtin w_unicode_escape_nonscalar <> BOut [237;160;128] 0 /\ (fun a => spec_printf (hd [] a) (tl a)) w_unicode_escape_nonscalar = None.
Proof. split; [vm_compute; discriminate | vm_compute; reflexivity]. Qed.
(* echo '-e' '\\101'  -> bash: '\\101\n' status 0 *)
Definition w_echo_bare_octal : list str := [[45;101]; [92;49;48;49]].
Lemma refuted_echo_bare_octal : echo_builtin w_echo_bare_octal <> BOut [92;49;48;49;10] 0 /\ spec_echo w_echo_bare_octal = None.
Proof. split; [vm_compute; discriminate | vm_compute; reflexivity]. Qed.
(* ------------------------------------------------------------------ escapes: code = Spec *)
Lemma bounded_forall : forall (P : N -> bool) (n : nat),
  forallb P (map N.of_nat (seq 0 n)) = true -> forall c, c < N.of_nat n -> P c = true.
Proof.
  intros P n H c Hc. rewrite forallb_forall in H. apply H.
  apply in_map_iff. exists (N.to_nat c). split; [lia|]. apply in_seq. lia.
Qed.

Lemma rd_oct : forall c, rd_ok false c = is_oct c.
Proof. intro c; unfold rd_ok, is_oct; simpl; rewrite !orb_false_r; reflexivity. Qed.
Lemma rd_hex : forall c, rd_ok true c = is_hexd c.
Proof. intro c; unfold rd_ok, is_hexd, in_rng; simpl. lia. Qed.

Lemma read_span : forall p h, (forall c, rd_ok h c = p c) -> forall m s, read_digits m h s = span_max m p s.
Proof.
  intros p h Hp; induction m; intro s; simpl; [reflexivity|].
  destruct s as [|c t]; [reflexivity|]. rewrite Hp. destruct (p c); [|reflexivity].
  rewrite IHm. reflexivity.
Qed.

Lemma span_max_spec : forall p k s a b, span_max k p s = (a, b) ->
  s = a ++ b /\ forallb p a = true /\ (length a <= k)%nat.
Proof.
  intros p; induction k; intros s a b H; simpl in H.
  - inversion H; subst; simpl; repeat split; auto.
  - destruct s as [|c t]; [inversion H; subst; simpl; repeat split; auto; lia|].
    destruct (p c) eqn:Pc.
    + destruct (span_max k p t) as [a' b'] eqn:E. inversion H; subst.
      apply IHk in E. destruct E as (E1 & E2 & E3). subst t. simpl. rewrite Pc, E2. repeat split; auto. lia.
    + inversion H; subst; simpl; repeat split; auto; lia.
Qed.

Lemma span_max_maximal : forall p k s a b, span_max k p s = (a, b) -> (length s <= k)%nat ->
  match b with [] => True | c :: _ => p c = false end.
Proof.
  intros p; induction k; intros s a b H L; simpl in H.
  - destruct s; [inversion H; subst; exact I | simpl in L; lia].
  - destruct s as [|c t]; [inversion H; subst; exact I|].
    destruct (p c) eqn:Pc.
    + destruct (span_max k p t) as [a' b'] eqn:E. inversion H; subst.
      eapply IHk; eauto. simpl in L; lia.
    + inversion H; subst. exact Pc.
Qed.

Lemma parse_base_lead0 : forall b d, parse_base b (48 :: d) = parse_base b d.
Proof. intros; unfold parse_base; simpl. reflexivity. Qed.

Lemma digit_val_hex_lt : forall c, is_hexd c = true -> digit_val c < 16.
Proof.
  intros c H.
  assert (Hc : c < 128) by (unfold is_hexd, in_rng in H; lia).
  revert H. generalize (bounded_forall (fun c => implb (is_hexd c) (digit_val c <? 16)) 128 eq_refl c Hc).
  destruct (is_hexd c); simpl; intros; [lia|discriminate].
Qed.

Lemma hex2_lt_256 : forall d, forallb is_hexd d = true -> (length d <= 2)%nat -> parse_base 16 d < 256.
Proof.
  intros d H L. destruct d as [|a [|b [|]]]; simpl in L; try lia; unfold parse_base; simpl in *.
  - lia.
  - rewrite andb_true_r in H. apply digit_val_hex_lt in H. lia.
  - apply andb_prop in H; destruct H as [Ha H]. rewrite andb_true_r in H.
    apply digit_val_hex_lt in Ha, H. lia.
Qed.

Definition mode_pb (m : escmode) : bool := match m with MFormat => false | _ => true end.

Lemma is_oct_split : forall c, (c =? 48) = false -> is_oct c = in_rng 49 55 c.
Proof. intros c H; unfold is_oct, in_rng; lia. Qed.

Lemma read_digits_cons : forall m h c t, rd_ok h c = true ->
  read_digits (S m) h (c :: t) = let '(d, r) := read_digits m h t in (c :: d, r).
Proof. intros; simpl; rewrite H; reflexivity. Qed.

Ltac atom k :=
  match goal with
  | |- context [?c =? k] =>
      let E := fresh "E" in destruct (c =? k) eqn:E;
      [ apply N.eqb_eq in E; subst c | ]
  end.

Section EscStep.
  Variable brec : str -> outcome.

  Lemma esc_step : forall m t o r, spec_escape m t = Some (o, r) ->
    forall fuel fmts args,
    loop brec (S fuel) (mode_pb m) (BSL :: t) fmts args = emit o (loop brec fuel (mode_pb m) r fmts args).
  Proof.
    intros m t o r H fuel fmts args. cbn [loop]. change (BSL =? BSL) with true. cbv iota.
    destruct t as [|c t']; [simpl in H; inversion H; subst; reflexivity|].
    revert H. unfold spec_escape.
    atom 97; [intro H; inversion H; subst; reflexivity|].
    atom 98; [intro H; inversion H; subst; reflexivity|].
    atom 101; [intro H; inversion H; subst; reflexivity|].
    atom 69; [intro H; inversion H; subst; reflexivity|].
    atom 102; [intro H; inversion H; subst; reflexivity|].
    atom 110; [intro H; inversion H; subst; reflexivity|].
    atom 114; [intro H; inversion H; subst; reflexivity|].
    atom 116; [intro H; inversion H; subst; reflexivity|].
    atom 118; [intro H; inversion H; subst; reflexivity|].
    atom 92; [intro H; inversion H; subst; reflexivity|].
    cbn [orb].
    atom 39; [destruct m; intro H; inversion H; subst; reflexivity|].
    atom 34; [destruct m; intro H; inversion H; subst; reflexivity|].
    atom 63; [destruct m; intro H; inversion H; subst; reflexivity|].
    cbn [orb].
    atom 48.
    { change (is_oct 48) with true. cbv iota.
      destruct m; cbn [mode_pb andb]; change (48 =? 48) with true; cbv iota;
        rewrite read_digits_cons by reflexivity; rewrite (read_span is_oct false rd_oct);
        [destruct (span_max 2 is_oct t') as [d r3] | destruct (span_max 3 is_oct t') as [d r3]
         | destruct (span_max 3 is_oct t') as [d r3]];
        intro H; inversion H; subst; rewrite parse_base_lead0; reflexivity. }
    rewrite (is_oct_split c E12).
    destruct (in_rng 49 55 c) eqn:O.
    { rewrite andb_false_r. cbv iota.
      assert (RD : rd_ok false c = true) by (rewrite rd_oct, (is_oct_split c E12); exact O).
      rewrite read_digits_cons by assumption. rewrite (read_span is_oct false rd_oct).
      destruct m; destruct (span_max 2 is_oct t') as [d r3]; intro H; inversion H; subst; reflexivity. }
    destruct (c =? 120) eqn:E14; [apply N.eqb_eq in E14; subst c|].
    { cbn [orb]. change (120 =? 117) with false. change (120 =? 85) with false. cbv iota.
      rewrite (read_span is_hexd true rd_hex).
      destruct (span_max 2 is_hexd t') as [d r3] eqn:S. destruct d as [|d0 d'].
      - intro H; inversion H; subst. reflexivity.
      - cbn [nonempty]. cbv iota. change (120 =? 120) with true. cbv iota.
        apply span_max_spec in S. destruct S as (_ & S2 & S3).
        rewrite (N.mod_small _ _ (hex2_lt_256 _ S2 S3)).
        intro H; inversion H; subst. reflexivity. }
    cbn [orb].
    destruct ((c =? 117) || (c =? 85)) eqn:U.
    { rewrite (read_span is_hexd true rd_hex).
      assert (M : (if c =? 117 then 4%nat else if c =? 85 then 8%nat else 2%nat) = (if c =? 117 then 4%nat else 8%nat)).
      { destruct (c =? 117); [reflexivity|]. simpl in U. rewrite U. reflexivity. }
      rewrite M.
      destruct (span_max (if c =? 117 then 4%nat else 8%nat) is_hexd t') as [d r3] eqn:S. destruct d as [|d0 d'].
      - intro H; inversion H; subst. reflexivity.
      - cbn [nonempty]. cbv iota.
        destruct (is_scalar (parse_base 16 (d0 :: d'))); intro H; inversion H; subst. reflexivity. }
    cbv iota.
    atom 99; [destruct m; intro H; inversion H; subst; reflexivity|].
    atom PCT; [intro H; inversion H; subst; reflexivity|].
    intro H; inversion H; subst; reflexivity.
  Qed.
End EscStep.

(* ------------------------------------------------------------------ %b arguments and echo -e *)
Section BSim.
  Variable brec : str -> outcome.

  Lemma bexpand_sim : forall sf m s o, mode_pb m = true -> spec_bexpand sf m s = Some o ->
    forall fuel, loop brec fuel true s [] None = OutOfFuel \/ loop brec fuel true s [] None = Done o None.
  Proof.
    induction sf; intros m s o Hm H fuel; simpl in H; [discriminate|].
    destruct fuel; [left; reflexivity|].
    destruct s as [|c t].
    - inversion H; subst. right. reflexivity.
    - destruct (c =? BSL) eqn:E.
      + apply N.eqb_eq in E; subst c.
        destruct (spec_escape m t) as [[eo r]|] eqn:SE; [|discriminate].
        destruct (spec_bexpand sf m r) as [o'|] eqn:SB; [|discriminate].
        inversion H; subst.
        pose proof (esc_step brec m t eo r SE fuel [] None) as ST. rewrite Hm in ST. rewrite ST.
        destruct (IHsf m r o' Hm SB fuel) as [L|R]; rewrite ?L, ?R; [left|right]; reflexivity.
      + destruct (spec_bexpand sf m t) as [o'|] eqn:SB; [|discriminate].
        inversion H; subst.
        cbn [loop]. rewrite E. cbn [nonempty andb]. cbv iota.
        destruct (IHsf m t o' Hm SB fuel) as [L|R]; rewrite ?L, ?R; [left|right]; reflexivity.
  Qed.
End BSim.

Lemma format_b_spec : forall m arg o, mode_pb m = true -> spec_b m arg = Some o -> format_b arg = Done o None.
Proof.
  intros m arg o Hm H. unfold spec_b in H. unfold format_b.
  destruct (bexpand_sim (fun _ => Unmodelled) _ m arg o Hm H (S (S (length arg)))) as [L|R]; [|exact R].
  exfalso. revert L. apply loop_no_oof; [discriminate | lia].
Qed.

(* Format(DQUOTE%bDQUOTE, [arg]) *)
Lemma format_pct_b : forall arg o, format_b arg = Done o None -> format [PCT; 98] (Some [arg]) = FOk o 1.
Proof.
  intros arg o H. unfold format, format_into. simpl length.
  cbn [loop]. change (PCT =? BSL) with false. cbv iota. cbn [nonempty andb]. change (PCT =? PCT) with true. cbv iota.
  change (98 =? BSL) with false. cbv iota. cbn [nonempty]. cbv iota.
  change (98 =? PCT) with false. change (98 =? 99) with false. cbv iota.
  change ((98 =? 43) || (98 =? 45) || (98 =? 32)) with false. change (is_dec 98) with false. cbv iota.
  change ((98 =? 115) || (98 =? 98) || (98 =? 100) || (98 =? 105) || (98 =? 117) || (98 =? 111) || (98 =? 120)) with true.
  cbv iota. unfold take_arg. simpl. change (98 =? 98) with true. cbv iota. rewrite H. simpl. rewrite !app_nil_r. reflexivity.
Qed.

Lemma optword_same : forall a, echo_optword a = spec_optword a.
Proof. reflexivity. Qed.

Lemma optchars_spec : forall cs nl ex,
  echo_optchars cs nl ex = (nl && negb (existsb (fun c => c =? 110) cs), spec_last_eE cs ex).
Proof.
  unfold spec_last_eE. induction cs as [|c t IH]; intros nl ex; simpl.
  - rewrite andb_true_r. reflexivity.
  - destruct (c =? 110) eqn:E1.
    + apply N.eqb_eq in E1; subst c. rewrite IH. simpl. rewrite andb_false_r. reflexivity.
    + destruct (c =? 101) eqn:E2; [rewrite IH; reflexivity|].
      destruct (c =? 69) eqn:E3; rewrite IH; reflexivity.
Qed.

Lemma echo_opts_spec : forall args nl ex rest nl' ex', spec_echo_opts args nl ex = Some (rest, nl', ex') ->
  echo_opts args nl ex = (rest, nl', ex').
Proof.
  induction args as [|a t IH]; intros nl ex rest nl' ex' H; simpl in *.
  - inversion H; reflexivity.
  - rewrite optword_same. destruct (spec_optword a).
    + rewrite optchars_spec. apply IH. exact H.
    + inversion H; reflexivity.
Qed.

Lemma echo_join_spec : forall ex args o nl, spec_echo_join ex args = Some o -> forall first,
  echo_args first ex args nl = BOut ((if first then [] else match args with [] => [] | _ => [32] end) ++ o ++ (if nl then [10] else [])) 0.
Proof.
  induction args as [|a t IH]; intros o nl H first; simpl in H.
  - inversion H; subst. simpl. destruct first; reflexivity.
  - destruct (if ex then spec_b MEcho a else Some a) as [oa|] eqn:EA; [|discriminate].
    destruct (spec_echo_join ex t) as [ot|] eqn:ET; [|discriminate].
    inversion H; subst. clear H.
    cbn [echo_args].
    assert (X : (if ex then echo_expand a else BOut a 0) = BOut oa 0).
    { destruct ex.
      - unfold echo_expand. rewrite (format_pct_b a oa); [reflexivity|].
        apply (format_b_spec MEcho); [reflexivity | exact EA].
      - inversion EA; reflexivity. }
    rewrite X. rewrite (IH ot nl eq_refl false). simpl.
    destruct t as [|b t']; [simpl in ET; inversion ET; subst|];
      destruct first; simpl; rewrite <- ?app_assoc; simpl; rewrite ?app_nil_r; reflexivity.
Qed.

Theorem echo_matches : forall args out st, spec_echo args = Some (out, st) -> echo_builtin args = BOut out st.
Proof.
  intros args out st H. unfold spec_echo in H. unfold echo_builtin.
  destruct (spec_echo_opts args true false) as [[[rest nl] ex]|] eqn:EO; [|discriminate].
  rewrite (echo_opts_spec _ _ _ _ _ _ EO).
  destruct (spec_echo_join ex rest) as [o|] eqn:EJ; [|discriminate].
  inversion H; subst. rewrite (echo_join_spec ex rest o nl EJ true). reflexivity.
Qed.

(* ------------------------------------------------------------------ directives *)
Lemma dec_facts : forall c, is_dec c = true ->
  (c =? BSL) = false /\ (c =? PCT) = false /\ (c =? 99) = false /\ ((c =? 43) || (c =? 45) || (c =? 32)) = false.
Proof. intros c H; unfold is_dec, in_rng, BSL, PCT in *; lia. Qed.

Lemma nonempty_app_r : forall (A : Type) (l : list A) x, nonempty (l ++ [x]) = true.
Proof. intros A l x; destruct l; reflexivity. Qed.

Definition mkf (m p s z : bool) : gflags := {| g_minus := m; g_plus := p; g_space := s; g_zero := z |}.

Lemma go_flags_zeros : forall zs ws m p s z, forallb (fun c => c =? 48) zs = true ->
  go_flags (zs ++ ws) (mkf m p s z) = go_flags ws (mkf m p s (z || nonempty zs)).
Proof.
  induction zs as [|c zs IH]; intros ws m p s z H; simpl in *.
  - rewrite orb_false_r. reflexivity.
  - apply andb_prop in H as [Hc H]. rewrite Hc. unfold mkf in *. cbn [g_minus g_plus g_space g_zero].
    rewrite (IH ws m p s true H). rewrite orb_true_r. reflexivity.
Qed.

Lemma go_flags_stop : forall ws f, match ws with [] => True | c :: _ => is_dec c = true /\ (c =? 48) = false end ->
  go_flags ws f = (f, ws).
Proof.
  intros [|c t] f H; [reflexivity|]. destruct H as [D Z]. simpl. rewrite Z.
  assert ((c =? 43) = false /\ (c =? 45) = false /\ (c =? 32) = false) as (A & B & C)
    by (unfold is_dec, in_rng in D; lia).
  rewrite A, B, C. reflexivity.
Qed.

Fixpoint grow (k : nat) (B : N) : N := match k with O => B | S k => grow k (B * 10) end.
Lemma grow_ge : forall k B, B <= grow k B.
Proof. induction k; intro B; simpl; [lia|]. specialize (IHk (B * 10)). lia. Qed.

Lemma parsenum_ok : forall ws num b B, forallb is_dec ws = true -> num < B -> grow (length ws) B <= 10000000 ->
  go_parsenum ws num b = Some (fold_left (fun n c => n * 10 + digit_val c) ws num, b || nonempty ws, []).
Proof.
  induction ws as [|c ws IH]; intros num b B H L G; simpl in *.
  - rewrite orb_false_r. reflexivity.
  - apply andb_prop in H as [Hc H]. rewrite Hc.
    pose proof (grow_ge (length ws) (B * 10)).
    assert (E : (1000000 <? num) = false) by lia. rewrite E.
    assert (DV : digit_val c = c - 48) by (unfold digit_val; unfold is_dec in Hc; rewrite Hc; reflexivity).
    rewrite DV. rewrite (IH (num * 10 + (c - 48)) true (B * 10) H); [rewrite orb_true_r; reflexivity| |exact G].
    unfold is_dec, in_rng in Hc. lia.
Qed.

Lemma parsenum_width : forall ws, forallb is_dec ws = true -> (length ws <= 7)%nat ->
  go_parsenum ws 0 false = Some (parse_base 10 ws, nonempty ws, []).
Proof.
  intros ws H L. unfold parse_base. rewrite (parsenum_ok ws 0 false 1 H); [reflexivity | lia |].
  remember (length ws) as k. clear - L.
  do 8 (destruct k as [|k]; [vm_compute; discriminate|]). lia.
Qed.

Lemma rep_0 : forall b, rep b 0 = [].
Proof. reflexivity. Qed.

Lemma rune_count_ascii : forall s, is_ascii s = true -> rune_count s = len s.
Proof.
  unfold rune_count, len. induction s as [|c t IH]; intro H; [reflexivity|].
  simpl in H. apply andb_prop in H as [Hc H].
  cbn [rune_count_aux]. unfold rune_size.
  assert (E : (c <? 194) = true) by lia. rewrite E. simpl Nat.pred. rewrite (IH H).
  cbn [length]. lia.
Qed.

Lemma rune_count_1 : forall b, rune_count [b] = 1.
Proof.
  intro b. unfold rune_count. cbn [rune_count_aux]. unfold rune_size.
  repeat match goal with |- context [if ?c then _ else _] => destruct c end; reflexivity.
Qed.

Lemma pad_eq : forall minus zero W widp s count, (widp = false -> W = 0) ->
  (zero && negb minus && (0 <? W)) = false -> ((0 <? W) = true -> count = len s) ->
  go_pad minus zero W widp s count = spec_pad minus W s.
Proof.
  intros minus zero W widp s count HW HZ HR. unfold go_pad, spec_pad.
  destruct (negb widp || (W =? 0)) eqn:E.
  - assert (W = 0) by (destruct widp; [simpl in E; lia | auto]). subst W. simpl. rewrite !rep_0.
    destruct minus; [rewrite app_nil_r|]; reflexivity.
  - assert (P : (zero && negb minus) = false) by (destruct zero, minus; simpl in *; try reflexivity; lia).
    rewrite P. rewrite HR by lia. destruct minus; reflexivity.
Qed.

Definition flags_of (d : dirv) : gflags := mkf (d_minus d) (d_plus d) (d_space d) (d_zero d).

(* what spec_directive accepts, decomposed *)
Lemma spec_directive_shape : forall t d r, spec_directive t = Some (IDir d, r) ->
  exists fl zs ws cv,
    t = fl ++ zs ++ ws ++ cv :: r /\
    (fl = [] \/ (exists f, fl = [f] /\ ((f =? 43) || (f =? 45) || (f =? 32)) = true)) /\
    forallb (fun c => c =? 48) zs = true /\ forallb is_dec ws = true /\ (length ws <= 7)%nat /\
    match ws with [] => True | c :: _ => (c =? 48) = false end /\
    conv_of cv = Some (d_conv d) /\
    go_flags (fl ++ zs ++ ws) g0 = (flags_of d, ws) /\
    d_width d = parse_base 10 ws.
Proof.
  intros t d r H. unfold spec_directive in H. destruct t as [|c t0]; [discriminate|].
  destruct (c =? PCT) eqn:EP; [inversion H|].
  destruct ((c =? 43) || (c =? 45) || (c =? 32)) eqn:EF.
  - destruct (span_max (length t0) (fun c => c =? 48) t0) as [zs s2] eqn:SZ.
    destruct (span_max (length s2) is_dec s2) as [ws s3] eqn:SW.
    destruct (7 <? length ws)%nat eqn:L7; [discriminate|].
    destruct s3 as [|cv r']; [discriminate|].
    destruct (conv_of cv) as [k|] eqn:CK; [|discriminate]. inversion H; subst; clear H.
    pose proof (span_max_maximal _ _ _ _ _ SZ (le_n _)) as MZ.
    apply span_max_spec in SZ as (Z1 & Z2 & _). apply span_max_spec in SW as (W1 & W2 & _).
    subst t0 s2. exists [c], zs, ws, cv. cbn [d_conv d_width].
    assert (HW : match ws with [] => True | c0 :: _ => (c0 =? 48) = false end).
    { destruct ws; [exact I|]. simpl in MZ. exact MZ. }
    repeat split; auto.
    + right. exists c. split; auto.
    + apply Nat.ltb_ge in L7. exact L7.
    + simpl app. unfold g0. fold (mkf false false false false).
      assert (G1 : go_flags (c :: zs ++ ws) (mkf false false false false)
                   = go_flags (zs ++ ws) (mkf (c =? 45) (c =? 43) (c =? 32) false)).
      { simpl. assert ((c =? 48) = false) by lia. rewrite H.
        destruct (c =? 43) eqn:A; [assert ((c =? 45) = false) by lia; assert ((c =? 32) = false) by lia; rewrite H0, H1; reflexivity|].
        destruct (c =? 45) eqn:B; [assert ((c =? 32) = false) by lia; rewrite H0; reflexivity|].
        destruct (c =? 32) eqn:C; [reflexivity|]. simpl in EF. discriminate. }
      rewrite G1, (go_flags_zeros zs ws _ _ _ _ Z2). simpl orb.
      rewrite go_flags_stop; [reflexivity|]. destruct ws; [exact I|]. simpl in W2. apply andb_prop in W2 as [W2 _]. split; auto.
  - destruct (span_max (length (c :: t0)) (fun c => c =? 48) (c :: t0)) as [zs s2] eqn:SZ.
    destruct (span_max (length s2) is_dec s2) as [ws s3] eqn:SW.
    destruct (7 <? length ws)%nat eqn:L7; [discriminate|].
    destruct s3 as [|cv r']; [discriminate|].
    destruct (conv_of cv) as [k|] eqn:CK; [|discriminate]. inversion H; subst; clear H.
    pose proof (span_max_maximal _ _ _ _ _ SZ (le_n _)) as MZ.
    apply span_max_spec in SZ as (Z1 & Z2 & _). apply span_max_spec in SW as (W1 & W2 & _).
    subst s2. exists [], zs, ws, cv. cbn [d_conv d_width]. simpl app.
    assert (HW : match ws with [] => True | c0 :: _ => (c0 =? 48) = false end).
    { destruct ws; [exact I|]. simpl in MZ. exact MZ. }
    repeat split; auto.
    + apply Nat.ltb_ge in L7. exact L7.
    + unfold g0. fold (mkf false false false false). rewrite (go_flags_zeros zs ws _ _ _ _ Z2). simpl orb.
      rewrite go_flags_stop; [unfold flags_of; cbn; repeat rewrite N.eqb_refl; reflexivity|].
      destruct ws; [exact I|]. simpl in W2. apply andb_prop in W2 as [W2 _]. split; auto.
Qed.

Lemma spec_directive_lit : forall t bs r, spec_directive t = Some (ILit bs, r) -> t = PCT :: r /\ bs = [PCT].
Proof.
  intros t bs r H. unfold spec_directive in H. destruct t as [|c t0]; [discriminate|].
  destruct (c =? PCT) eqn:EP.
  - apply N.eqb_eq in EP. inversion H; subst. split; reflexivity.
  - exfalso.
    destruct ((c =? 43) || (c =? 45) || (c =? 32));
    match type of H with context [span_max ?k ?p ?s] => destruct (span_max k p s) as [zs s2] end;
    destruct (span_max (length s2) is_dec s2) as [ws s3];
    destruct (7 <? length ws)%nat; try discriminate;
    destruct s3 as [|cv r']; try discriminate;
    destruct (conv_of cv); discriminate.
Qed.

Lemma take_arg_spec : forall args,
  take_arg (Some args) = Some (match args with a :: t => (a, Some t) | [] => ([], Some []) end).
Proof. intros [|a t]; reflexivity. Qed.

Section DirSim.
  Variable brec : str -> outcome.

  Lemma digits_step : forall ds pb tail fmts args fuel, nonempty fmts = true -> forallb is_dec ds = true ->
    exists fuel', loop brec fuel pb (ds ++ tail) fmts args = OutOfFuel \/
                  loop brec fuel pb (ds ++ tail) fmts args = loop brec fuel' pb tail (fmts ++ ds) args.
  Proof.
    induction ds as [|c ds IH]; intros pb tail fmts args fuel NF H.
    - exists fuel. right. rewrite app_nil_r. reflexivity.
    - destruct fuel; [exists 0%nat; left; reflexivity|].
      simpl in H. apply andb_prop in H as [Hc Hds]. destruct (dec_facts c Hc) as (A & B & C & D).
      simpl app. cbn [loop]. rewrite A, NF, B, C, D, Hc.
      destruct (IH pb tail (fmts ++ [c]) args fuel (nonempty_app_r _ _ _) Hds) as [f' X].
      exists f'. rewrite <- app_assoc in X. exact X.
  Qed.

  Lemma pct_start : forall fuel t args,
    loop brec (S fuel) false (PCT :: t) [] (Some args) = loop brec fuel false t [PCT] (Some args).
  Proof.
    intros. cbn [loop]. change (PCT =? BSL) with false. cbv iota. cbn [nonempty andb]. cbv iota.
    change (PCT =? PCT) with true. reflexivity.
  Qed.

  Lemma flag_step : forall fuel f t args, ((f =? 43) || (f =? 45) || (f =? 32)) = true ->
    loop brec (S fuel) false (f :: t) [PCT] args = loop brec fuel false t [PCT; f] args.
  Proof.
    intros fuel f t args H. cbn [loop].
    assert ((f =? BSL) = false /\ (f =? PCT) = false /\ (f =? 99) = false) as (A & B & C) by (unfold BSL, PCT; lia).
    rewrite A. cbn [nonempty]. cbv iota. rewrite B, C, H. reflexivity.
  Qed.

  (* from '%' to the conversion character *)
  Lemma dir_prefix : forall fl zs ws tail args,
    (fl = [] \/ (exists f, fl = [f] /\ ((f =? 43) || (f =? 45) || (f =? 32)) = true)) ->
    forallb (fun c => c =? 48) zs = true -> forallb is_dec ws = true ->
    forall fuel, exists fuel',
      loop brec fuel false (PCT :: fl ++ zs ++ ws ++ tail) [] (Some args) = OutOfFuel \/
      loop brec fuel false (PCT :: fl ++ zs ++ ws ++ tail) [] (Some args)
        = loop brec fuel' false tail (PCT :: fl ++ zs ++ ws) (Some args).
  Proof.
    intros fl zs ws tail args HF HZ HW fuel.
    assert (HD : forallb is_dec (zs ++ ws) = true).
    { rewrite forallb_app, HW, andb_true_r. rewrite forallb_forall in *. intros x Hx. apply HZ in Hx.
      apply N.eqb_eq in Hx; subst; reflexivity. }
    destruct fuel; [exists 0%nat; left; reflexivity|]. rewrite pct_start.
    destruct HF as [->|[f [-> Hf]]]; simpl app.
    - destruct (digits_step (zs ++ ws) false tail [PCT] (Some args) fuel eq_refl HD) as [f' X].
      exists f'. rewrite <- app_assoc in X. exact X.
    - destruct fuel; [exists 0%nat; left; reflexivity|]. rewrite (flag_step _ _ _ _ Hf).
      destruct (digits_step (zs ++ ws) false tail [PCT; f] (Some args) fuel eq_refl HD) as [f' X].
      exists f'. rewrite <- app_assoc in X. exact X.
  Qed.

  Lemma conv_step_s : forall fuel r fmts args, nonempty fmts = true ->
    loop brec (S fuel) false (115 :: r) fmts args =
    match take_arg args with
    | None => GoPanic
    | Some (arg, args') =>
        match go_fprintf (tl fmts) 115 (VStr arg) with
        | None => Unmodelled
        | Some o => emit o (loop brec fuel false r [] args')
        end
    end.
  Proof.
    intros fuel r fmts args NF. cbn [loop]. change (115 =? BSL) with false. cbv iota. rewrite NF.
    change (115 =? PCT) with false. change (115 =? 99) with false. cbv iota.
    change ((115 =? 43) || (115 =? 45) || (115 =? 32)) with false. change (is_dec 115) with false. cbv iota.
    change ((115 =? 115) || (115 =? 98) || (115 =? 100) || (115 =? 105) || (115 =? 117) || (115 =? 111) || (115 =? 120)) with true.
    cbv iota. destruct (take_arg args) as [[arg args']|]; [|reflexivity].
    change (115 =? 98) with false. cbv iota. change (115 =? 115) with true. cbv iota. reflexivity.
  Qed.

  Lemma conv_step_c : forall fuel r fmts args, nonempty fmts = true ->
    loop brec (S fuel) false (99 :: r) fmts args =
    match take_arg args with
    | None => GoPanic
    | Some (arg, args') =>
        match go_fprintf (tl fmts) 115 (VStr [match arg with [] => 0 | b :: _ => b end]) with
        | None => Unmodelled
        | Some o => emit o (loop brec fuel false r [] args')
        end
    end.
  Proof.
    intros fuel r fmts args NF. cbn [loop]. change (99 =? BSL) with false. cbv iota. rewrite NF.
    change (99 =? PCT) with false. change (99 =? 99) with true. cbv iota. reflexivity.
  Qed.

  Lemma conv_step_b : forall fuel r fmts args, nonempty fmts = true ->
    loop brec (S fuel) false (98 :: r) fmts args =
    match take_arg args with
    | None => GoPanic
    | Some (arg, args') =>
        match brec arg with
        | Done e _ =>
            match go_fprintf (tl fmts) 115 (VStr e) with
            | None => Unmodelled
            | Some o => emit o (loop brec fuel false r [] args')
            end
        | e => e
        end
    end.
  Proof.
    intros fuel r fmts args NF. cbn [loop]. change (98 =? BSL) with false. cbv iota. rewrite NF.
    change (98 =? PCT) with false. change (98 =? 99) with false. cbv iota.
    change ((98 =? 43) || (98 =? 45) || (98 =? 32)) with false. change (is_dec 98) with false. cbv iota.
    change ((98 =? 115) || (98 =? 98) || (98 =? 100) || (98 =? 105) || (98 =? 117) || (98 =? 111) || (98 =? 120)) with true.
    cbv iota. destruct (take_arg args) as [[arg args']|]; [|reflexivity].
    change (98 =? 98) with true. cbv iota. reflexivity.
  Qed.
End DirSim.

Definition nonnum (d : dirv) : bool := match d_conv d with CvS | CvB | CvC => true | _ => false end.
Definition nonnum_items (items : list item) : bool :=
  forallb (fun i => match i with IDir d => nonnum d | ILit _ => true end) items.

(* Fprintf for %s with the directive's flags and width = C's padding *)
Lemma fprintf_s : forall fl zs ws d s,
  go_flags (fl ++ zs ++ ws) g0 = (flags_of d, ws) -> forallb is_dec ws = true -> (length ws <= 7)%nat ->
  d_width d = parse_base 10 ws ->
  (d_zero d && negb (d_minus d) && (0 <? d_width d)) = false ->
  ((0 <? d_width d) = true -> rune_count s = len s) ->
  go_fprintf (fl ++ zs ++ ws) 115 (VStr s) = Some (spec_pad (d_minus d) (d_width d) s).
Proof.
  intros fl zs ws d s GF HW L7 WD HZ HR. unfold go_fprintf. rewrite GF, (parsenum_width ws HW L7).
  cbn [nonempty]. cbv iota. change (115 =? 115) with true. cbv iota. f_equal.
  unfold flags_of, mkf. cbn [g_minus g_zero]. rewrite <- WD.
  apply pad_eq; auto. intro E. destruct ws; [rewrite WD; reflexivity | discriminate].
Qed.


(* ------------------------------------------------------------------ numeric arguments: strtoimax = ParseInt on the Spec's domain *)
Definition pu_digit (c : N) : option N :=
  if is_dec c then Some (c - 48) else if in_rng 97 122 (lower c) then Some (lower c - 97 + 10) else None.
Definition opt_is (o : option N) (v : N) : bool := match o with Some x => x =? v | None => false end.

Lemma pu_step : forall base c t n us d, (c =? 95) = false -> pu_digit c = Some d -> (base <=? d) = false ->
  (MAXU64 / base + 1 <=? n) = false -> (MAXU64 <? n * base + d) = false ->
  pu_loop base (c :: t) n us = pu_loop base t (n * base + d) us.
Proof.
  intros base c t n us d H95 HD HB H1 H2. cbn [pu_loop]. rewrite H95. fold (pu_digit c). rewrite HD, HB, H1.
  cbv zeta. rewrite H2. reflexivity.
Qed.

Definition digit_fact (p : N -> bool) (base c : N) : bool :=
  implb (p c) (negb (c =? 95) && opt_is (pu_digit c) (digit_val c) && (digit_val c <? base)).

Lemma digit_facts : forall p base, (forall c, p c = true -> c < 128) ->
  forallb (digit_fact p base) (map N.of_nat (seq 0 128)) = true ->
  forall c, p c = true -> (c =? 95) = false /\ pu_digit c = Some (digit_val c) /\ (base <=? digit_val c) = false.
Proof.
  intros p base Hb H c Hp. pose proof (bounded_forall _ 128 H c (Hb c Hp)) as F.
  unfold digit_fact in F. rewrite Hp in F. simpl in F.
  apply andb_prop in F as [F F3]. apply andb_prop in F as [F1 F2].
  repeat split.
  - destruct (c =? 95); [discriminate|reflexivity].
  - unfold opt_is in F2. destruct (pu_digit c) as [x|]; [|discriminate]. apply N.eqb_eq in F2. congruence.
  - lia.
Qed.

Lemma oct_facts : forall c, is_oct c = true -> (c =? 95) = false /\ pu_digit c = Some (digit_val c) /\ (8 <=? digit_val c) = false.
Proof. apply digit_facts; [intros c H; unfold is_oct, in_rng in H; lia | vm_compute; reflexivity]. Qed.
Lemma dec_dfacts : forall c, is_dec c = true -> (c =? 95) = false /\ pu_digit c = Some (digit_val c) /\ (10 <=? digit_val c) = false.
Proof. apply digit_facts; [intros c H; unfold is_dec, in_rng in H; lia | vm_compute; reflexivity]. Qed.
Lemma hex_facts : forall c, is_hexd c = true -> (c =? 95) = false /\ pu_digit c = Some (digit_val c) /\ (16 <=? digit_val c) = false.
Proof. apply digit_facts; [intros c H; unfold is_hexd, in_rng in H; lia | vm_compute; reflexivity]. Qed.

Definition dstep (base : N) (n c : N) : N := n * base + digit_val c.
Lemma fold_ge : forall base s n, 1 <= base -> n <= fold_left (dstep base) s n.
Proof.
  intros base; induction s as [|c t IH]; intros n Hb; simpl; [lia|].
  specialize (IH (dstep base n c) Hb). unfold dstep in *. nia.
Qed.

Lemma pu_loop_ok : forall p base,
  (forall c, p c = true -> (c =? 95) = false /\ pu_digit c = Some (digit_val c) /\ (base <=? digit_val c) = false) ->
  1 <= base ->
  forall s n, forallb p s = true -> fold_left (dstep base) s n <= MAXU64 ->
  pu_loop base s n false = inl (fold_left (dstep base) s n, false).
Proof.
  intros p base HP Hb. induction s as [|c t IH]; intros n Hs Hm; [reflexivity|].
  simpl in Hs. apply andb_prop in Hs as [Hc Hs]. destruct (HP c Hc) as (A & B & C).
  simpl fold_left in *.
  pose proof (fold_ge base t (dstep base n c) Hb) as G. unfold dstep in G at 1.
  rewrite (pu_step base c t n false (digit_val c) A B C).
  - apply IH; assumption.
  - assert (n <= MAXU64 / base) by (apply N.div_le_lower_bound; nia). lia.
  - lia.
Qed.

Lemma parse_base_fold : forall base s, parse_base base s = fold_left (dstep base) s 0.
Proof. reflexivity. Qed.

Lemma lower_oct : forall c, is_oct c = true -> (lower c =? 98) = false /\ (lower c =? 111) = false /\ (lower c =? 120) = false /\ (c =? 120) = false /\ (c =? 88) = false.
Proof.
  intros c H. assert (Hc : c < 128) by (unfold is_oct, in_rng in H; lia).
  pose proof (bounded_forall (fun c => implb (is_oct c)
     (negb (lower c =? 98) && negb (lower c =? 111) && negb (lower c =? 120) && negb (c =? 120) && negb (c =? 88))) 128 eq_refl c Hc) as F.
  cbv beta in F. rewrite H in F. simpl in F.
  destruct (lower c =? 98), (lower c =? 111), (lower c =? 120), (c =? 120), (c =? 88); try discriminate; auto.
Qed.

(* ParseUint(body, 0, 64) on the bodies the Spec accepts *)
Lemma parse_uint0_ok : forall body m, spec_magnitude body = Some m -> m <= MAXU64 -> parse_uint0 body = (m, None).
Proof.
  intros body m H Hm. unfold spec_magnitude in H. destruct body as [|c0 t0]; [discriminate|].
  unfold parse_uint0.
  destruct (c0 =? 48) eqn:E0.
  - apply N.eqb_eq in E0; subst c0. destruct t0 as [|c1 t1].
    + inversion H; subst. reflexivity.
    + destruct ((c1 =? 120) || (c1 =? 88)) eqn:EX.
      * destruct (nonempty t1 && all_b is_hexd t1) eqn:EH; [|discriminate]. inversion H; subst m. clear H.
        apply andb_prop in EH as [NE AH].
        assert (L : lower c1 = 120).
        { destruct (c1 =? 120) eqn:A; [apply N.eqb_eq in A; subst; reflexivity|].
          simpl in EX. apply N.eqb_eq in EX; subst; reflexivity. }
        rewrite L, NE. change (120 =? 98) with false. change (120 =? 111) with false. change (120 =? 120) with true.
        cbn [andb]. cbv iota.
        rewrite (pu_loop_ok is_hexd 16 hex_facts ltac:(lia) t1 0 AH); [reflexivity|]. rewrite <- parse_base_fold. exact Hm.
      * destruct (all_b is_oct (c1 :: t1)) eqn:AO; [|discriminate]. inversion H; subst m. clear H.
        assert (O1 : is_oct c1 = true) by (simpl in AO; apply andb_prop in AO as [X _]; exact X).
        destruct (lower_oct c1 O1) as (L1 & L2 & L3 & _).
        rewrite L1, L2, L3, !andb_false_r. cbv iota.
        rewrite (pu_loop_ok is_oct 8 oct_facts ltac:(lia) (c1 :: t1) 0 AO); [reflexivity|]. rewrite <- parse_base_fold. exact Hm.
  - destruct (all_b is_dec (c0 :: t0)) eqn:AD; [|discriminate]. inversion H; subst m. clear H.
    rewrite (pu_loop_ok is_dec 10 dec_dfacts ltac:(lia) (c0 :: t0) 0 AD); [reflexivity|]. rewrite <- parse_base_fold. exact Hm.
Qed.

Theorem parse_int0_spec : forall arg v, spec_int arg = Some v -> parse_int0 arg = v.
Proof.
  intros arg v H. unfold spec_int in H. destruct arg as [|c t]; [inversion H; reflexivity|].
  unfold parse_int0.
  destruct (c =? 45) eqn:E1.
  - cbn [orb] in *. rewrite orb_true_r.
    destruct (spec_magnitude t) as [m|] eqn:SM; [|discriminate].
    destruct (m <=? TWO63) eqn:R; [|discriminate]. inversion H; subst v.
    rewrite (parse_uint0_ok t m SM); [|unfold TWO63, MAXU64 in *; lia].
    cbn [negb andb]. assert ((TWO63 <? m) = false) by lia. rewrite H0. reflexivity.
  - cbn [orb] in *. rewrite orb_false_r.
    destruct (c =? 43) eqn:E2.
    + destruct (spec_magnitude t) as [m|] eqn:SM; [|discriminate].
      destruct (m <? TWO63) eqn:R; [|discriminate]. inversion H; subst v.
      rewrite (parse_uint0_ok t m SM); [|unfold TWO63, MAXU64 in *; lia].
      cbn [negb andb]. assert ((TWO63 <=? m) = false) by lia. rewrite H0. reflexivity.
    + destruct (spec_magnitude (c :: t)) as [m|] eqn:SM; [|discriminate].
      destruct (m <? TWO63) eqn:R; [|discriminate]. inversion H; subst v.
      rewrite (parse_uint0_ok (c :: t) m SM); [|unfold TWO63, MAXU64 in *; lia].
      cbn [negb andb]. assert ((TWO63 <=? m) = false) by lia. rewrite H0. reflexivity.
Qed.

(* ------------------------------------------------------------------ fmtInteger = C's sign / zero / space padding *)
Lemma len_app : forall a b, len (a ++ b) = len a + len b.
Proof. intros; unfold len; rewrite app_length; lia. Qed.
Lemma len_rep : forall b n, len (rep b n) = n.
Proof. intros; unfold len, rep; rewrite repeat_length; lia. Qed.
Lemma len_cons : forall a l, len (a :: l) = 1 + len l.
Proof. intros; unfold len; cbn [length]; lia. Qed.
Lemma len_nil : len [] = 0.
Proof. reflexivity. Qed.
Lemma rep_zero : forall b n, n = 0 -> rep b n = [].
Proof. intros; subst; reflexivity. Qed.

Definition c_sign (neg plus space : bool) : str :=
  if neg then [45] else if plus then [43] else if space then [32] else [].

Lemma fmt_int_eq : forall minus plus space zero W widp neg u base, (widp = false -> W = 0) ->
  go_fmt_integer (mkf minus plus space zero) W widp neg u base =
    (if zero && negb minus
     then c_sign neg plus space ++ rep 48 (W - len (c_sign neg plus space) - len (digits_of base u)) ++ digits_of base u
     else spec_pad minus W (c_sign neg plus space ++ digits_of base u)).
Proof.
  intros minus plus space zero W widp neg u base HW.
  unfold go_fmt_integer, mkf. cbn [g_minus g_plus g_space g_zero].
  set (ds := digits_of base u).
  assert (SG : forall l, (if neg then 45 :: l else if plus then 43 :: l else if space then 32 :: l else l)
                         = c_sign neg plus space ++ l)
    by (intro l; unfold c_sign; destruct neg, plus, space; reflexivity).
  rewrite SG.
  assert (LS : len (c_sign neg plus space) = if neg || plus || space then 1 else 0)
    by (unfold c_sign; destruct neg, plus, space; reflexivity).
  destruct (zero && negb minus) eqn:ZM.
  - destruct widp.
    + cbn [andb]. unfold go_pad. cbn [negb orb andb].
      assert (PE : (if neg || plus || space then W - 1 else W) - len ds = W - len (c_sign neg plus space) - len ds)
        by (rewrite LS; destruct (neg || plus || space); lia).
      rewrite PE.
      destruct (W =? 0) eqn:W0; [reflexivity|].
      assert (MN : minus = false) by (destruct minus; [destruct zero; discriminate | reflexivity]). subst minus.
      cbn [negb]. rewrite rep_zero; [reflexivity|].
      rewrite !len_app, len_rep. lia.
    + rewrite (HW eq_refl). rewrite andb_false_r. unfold go_pad. cbn [negb orb].
      rewrite !rep_zero by lia. reflexivity.
  - cbn [andb]. cbv iota. rewrite (rep_zero 48 (0 - len ds)) by lia. cbn [app].
    unfold go_pad, spec_pad. rewrite andb_false_l.
    destruct (negb widp || (W =? 0)) eqn:E.
    + assert (W = 0) by (destruct widp; [simpl in E; lia | auto]). subst W.
      rewrite !rep_zero by lia. destruct minus; [rewrite app_nil_r|]; reflexivity.
    + destruct minus; reflexivity.
Qed.

Lemma fprintf_int : forall fl zs ws d verb opnd neg u base,
  go_flags (fl ++ zs ++ ws) g0 = (flags_of d, ws) -> forallb is_dec ws = true -> (length ws <= 7)%nat ->
  d_width d = parse_base 10 ws ->
  (match opnd with
   | VInt z => verb = 100 /\ neg = (z <? 0)%Z /\ u = Z.abs_N z /\ base = 10
   | VUint x => neg = false /\ u = x /\ ((verb = 100 /\ base = 10) \/ (verb = 111 /\ base = 8) \/ (verb = 120 /\ base = 16))
   | VStr _ => False end) ->
  go_fprintf (fl ++ zs ++ ws) verb opnd = Some (go_fmt_integer (flags_of d) (d_width d) (nonempty ws) neg u base).
Proof.
  intros fl zs ws d verb opnd neg u base GF HW L7 WD HO. unfold go_fprintf.
  rewrite GF, (parsenum_width ws HW L7). cbn [nonempty]. cbv iota. rewrite <- WD.
  destruct opnd as [s|z|x]; [contradiction| |].
  - destruct HO as (-> & -> & -> & ->). reflexivity.
  - destruct HO as (-> & -> & [[-> ->]|[[-> ->]|[-> ->]]]); reflexivity.
Qed.

Section NumStep.
  Variable brec : str -> outcome.
  Definition num_result (cv : N) (fuel : nat) (r fmts : str) (args : option (list str)) : outcome :=
    match take_arg args with
    | None => GoPanic
    | Some (arg, args') =>
        let n := parse_int0 arg in
        let '(verb, opnd) :=
          if (cv =? 105) || (cv =? 100) then (100, VInt n)
          else ((if cv =? 117 then 100 else cv), VUint (to_uint64 n)) in
        match go_fprintf (tl fmts) verb opnd with
        | None => Unmodelled
        | Some o => emit o (loop brec fuel false r [] args')
        end
    end.

  Lemma conv_step_num : forall cv, (cv = 100 \/ cv = 105 \/ cv = 117 \/ cv = 111 \/ cv = 120) ->
    forall fuel r fmts args, nonempty fmts = true ->
    loop brec (S fuel) false (cv :: r) fmts args = num_result cv fuel r fmts args.
  Proof.
    intros cv H fuel r fmts args NF. unfold num_result.
    destruct H as [->|[->|[->|[->| ->]]]]; cbn [loop];
      match goal with |- context [?k =? BSL] =>
        change (k =? BSL) with false; cbv iota; rewrite NF;
        change (k =? PCT) with false; change (k =? 99) with false; cbv iota;
        change ((k =? 43) || (k =? 45) || (k =? 32)) with false; change (is_dec k) with false; cbv iota;
        change ((k =? 115) || (k =? 98) || (k =? 100) || (k =? 105) || (k =? 117) || (k =? 111) || (k =? 120)) with true;
        cbv iota; destruct (take_arg args) as [[arg args']|]; [|reflexivity];
        change (k =? 98) with false; cbv iota; change (k =? 115) with false; cbv iota; reflexivity
      end.
  Qed.
End NumStep.

(* numeric conversions: Fprintf of the parsed operand = C's conversion of strtoimax's value *)
Lemma num_conv_signed : forall fl zs ws d arg o1,
  go_flags (fl ++ zs ++ ws) g0 = (flags_of d, ws) -> forallb is_dec ws = true -> (length ws <= 7)%nat ->
  d_width d = parse_base 10 ws -> d_conv d = CvD -> spec_conv d arg = Some o1 ->
  go_fprintf (fl ++ zs ++ ws) 100 (VInt (parse_int0 arg)) = Some o1.
Proof.
  intros fl zs ws d arg o1 GF HW L7 WD K SC. unfold spec_conv in SC. rewrite K in SC. cbv zeta beta iota in SC.
  destruct (spec_int arg) as [v|] eqn:SI; [|discriminate]. rewrite (parse_int0_spec arg v SI).
  rewrite (fprintf_int fl zs ws d 100 (VInt v) (v <? 0)%Z (Z.abs_N v) 10 GF HW L7 WD); [|repeat split; reflexivity].
  unfold flags_of. rewrite fmt_int_eq; [|intro E; destruct ws; [rewrite WD; reflexivity | discriminate]].
  unfold c_sign. destruct (d_zero d && negb (d_minus d)); inversion SC; reflexivity.
Qed.

Lemma num_conv_unsigned : forall fl zs ws d arg o1 verb base,
  go_flags (fl ++ zs ++ ws) g0 = (flags_of d, ws) -> forallb is_dec ws = true -> (length ws <= 7)%nat ->
  d_width d = parse_base 10 ws ->
  ((d_conv d = CvU /\ verb = 100 /\ base = 10) \/ (d_conv d = CvO /\ verb = 111 /\ base = 8) \/
   (d_conv d = CvX /\ verb = 120 /\ base = 16)) ->
  spec_conv d arg = Some o1 ->
  go_fprintf (fl ++ zs ++ ws) verb (VUint (to_uint64 (parse_int0 arg))) = Some o1.
Proof.
  intros fl zs ws d arg o1 verb base GF HW L7 WD K SC. unfold spec_conv in SC.
  assert (SC' : (if d_plus d || d_space d then None else
                 match spec_int arg with
                 | None => None
                 | Some v => let ds := digits_of base (to_uint64 v) in
                             if d_zero d && negb (d_minus d) then Some (rep 48 (d_width d - len ds) ++ ds)
                             else Some (spec_pad (d_minus d) (d_width d) ds) end) = Some o1).
  { destruct K as [(K & _ & ->)|[(K & _ & ->)|(K & _ & ->)]]; rewrite K in SC; exact SC. }
  clear SC. destruct (d_plus d || d_space d) eqn:PS; [discriminate|].
  apply orb_false_elim in PS as [P S].
  destruct (spec_int arg) as [v|] eqn:SI; [|discriminate]. rewrite (parse_int0_spec arg v SI).
  rewrite (fprintf_int fl zs ws d verb (VUint (to_uint64 v)) false (to_uint64 v) base GF HW L7 WD).
  - unfold flags_of. rewrite fmt_int_eq; [|intro E; destruct ws; [rewrite WD; reflexivity | discriminate]].
    rewrite P, S. unfold c_sign. cbn [app]. rewrite len_nil, N.sub_0_r. cbv zeta in SC'.
    destruct (d_zero d && negb (d_minus d)); inversion SC'; reflexivity.
  - repeat split. destruct K as [(_ & -> & ->)|[(_ & -> & ->)|(_ & -> & ->)]]; auto.
Qed.

(* one directive, every conversion *)
Lemma dir_sim : forall t d r, spec_directive t = Some (IDir d, r) ->
  forall args arg args' o1, take_arg (Some args) = Some (arg, Some args') -> spec_conv d arg = Some o1 ->
  forall fuel, exists fuel',
    loop format_b fuel false (PCT :: t) [] (Some args) = OutOfFuel \/
    loop format_b fuel false (PCT :: t) [] (Some args) = emit o1 (loop format_b fuel' false r [] (Some args')).
Proof.
  intros t d r SD args arg args' o1 TA SC fuel.
  destruct (spec_directive_shape t d r SD) as (fl & zs & ws & cv & T & HF & HZ & HW & L7 & W0 & CK & GF & WD).
  subst t.
  destruct (dir_prefix format_b fl zs ws (cv :: r) args HF HZ HW fuel) as [f1 [X|X]]; [exists 0%nat; left; exact X|].
  rewrite X. clear X.
  destruct f1; [exists 0%nat; left; reflexivity|]. exists f1. right.
  pose proof SC as SC0. unfold conv_of in CK. unfold spec_conv in SC. cbv zeta in SC.
  destruct (cv =? 115) eqn:E1.
  { apply N.eqb_eq in E1; subst cv. inversion CK as [K]. rewrite conv_step_s by reflexivity.
    rewrite TA. cbn [tl]. rewrite <- K in SC. cbv beta iota in SC. revert SC.
    destruct (d_zero d && negb (d_minus d) && (0 <? d_width d)) eqn:Z; [intro SC; discriminate|].
    destruct ((0 <? d_width d) && negb (is_ascii arg)) eqn:A; [intro SC; discriminate|]. intro SC. inversion SC; subst o1.
    rewrite (fprintf_s fl zs ws d arg GF HW L7 WD Z); [reflexivity|]. intro P. rewrite P in A. simpl in A.
    apply rune_count_ascii. destruct (is_ascii arg); [reflexivity|discriminate]. }
  destruct (cv =? 98) eqn:E2.
  { apply N.eqb_eq in E2; subst cv. inversion CK as [K]. rewrite conv_step_b by reflexivity.
    rewrite TA. cbn [tl]. rewrite <- K in SC. cbv beta iota in SC. revert SC.
    destruct (spec_b MPercentB arg) as [e|] eqn:SB; [|intro SC; discriminate].
    destruct (d_zero d && negb (d_minus d) && (0 <? d_width d)) eqn:Z; [intro SC; discriminate|].
    destruct ((0 <? d_width d) && negb (is_ascii e)) eqn:A; [intro SC; discriminate|]. intro SC. inversion SC; subst o1.
    rewrite (format_b_spec MPercentB arg e eq_refl SB).
    rewrite (fprintf_s fl zs ws d e GF HW L7 WD Z); [reflexivity|]. intro P. rewrite P in A. simpl in A.
    apply rune_count_ascii. destruct (is_ascii e); [reflexivity|discriminate]. }
  destruct (cv =? 99) eqn:E3.
  { apply N.eqb_eq in E3; subst cv. inversion CK as [K]. rewrite conv_step_c by reflexivity.
    rewrite TA. cbn [tl]. rewrite <- K in SC. cbv beta iota in SC. revert SC.
    destruct (d_zero d && negb (d_minus d) && (0 <? d_width d)) eqn:Z; [intro SC; discriminate|]. intro SC. inversion SC; subst o1.
    rewrite (fprintf_s fl zs ws d _ GF HW L7 WD Z); [reflexivity|]. intros _. apply rune_count_1. }
  clear SC. rename SC0 into SC.
  assert (NUM : forall verb opnd o, go_fprintf (fl ++ zs ++ ws) verb opnd = Some o ->
     (let '(verb', opnd') := (verb, opnd) in
      match go_fprintf (tl (PCT :: fl ++ zs ++ ws)) verb' opnd' with
      | Some o0 => emit o0 (loop format_b f1 false r [] (Some args'))
      | None => Unmodelled end) = emit o (loop format_b f1 false r [] (Some args'))).
  { intros verb opnd o E. cbn [tl]. rewrite E. reflexivity. }
  destruct (cv =? 100) eqn:E4.
  { apply N.eqb_eq in E4; subst cv. cbn [orb] in CK. inversion CK as [K].
    rewrite (conv_step_num format_b 100) by (auto; reflexivity). unfold num_result. rewrite TA. cbv zeta.
    change ((100 =? 105) || (100 =? 100)) with true. cbv iota.
    apply NUM. apply (num_conv_signed fl zs ws d arg o1 GF HW L7 WD); auto. }
  destruct (cv =? 105) eqn:E5.
  { apply N.eqb_eq in E5; subst cv. cbn [orb] in CK. inversion CK as [K].
    rewrite (conv_step_num format_b 105) by (auto; reflexivity). unfold num_result. rewrite TA. cbv zeta.
    change ((105 =? 105) || (105 =? 100)) with true. cbv iota.
    apply NUM. apply (num_conv_signed fl zs ws d arg o1 GF HW L7 WD); auto. }
  cbn [orb] in CK.
  destruct (cv =? 117) eqn:E6.
  { apply N.eqb_eq in E6; subst cv. inversion CK as [K].
    rewrite (conv_step_num format_b 117) by (auto 6; reflexivity). unfold num_result. rewrite TA. cbv zeta.
    change ((117 =? 105) || (117 =? 100)) with false. cbv iota. change (117 =? 117) with true. cbv iota.
    apply NUM. apply (num_conv_unsigned fl zs ws d arg o1 100 10 GF HW L7 WD); auto. }
  destruct (cv =? 111) eqn:E7.
  { apply N.eqb_eq in E7; subst cv. inversion CK as [K].
    rewrite (conv_step_num format_b 111) by (auto 6; reflexivity). unfold num_result. rewrite TA. cbv zeta.
    change ((111 =? 105) || (111 =? 100)) with false. cbv iota. change (111 =? 117) with false. cbv iota.
    apply NUM. apply (num_conv_unsigned fl zs ws d arg o1 111 8 GF HW L7 WD); auto 6. }
  destruct (cv =? 120) eqn:E8; [|discriminate].
  { apply N.eqb_eq in E8; subst cv. inversion CK as [K].
    rewrite (conv_step_num format_b 120) by (auto 6; reflexivity). unfold num_result. rewrite TA. cbv zeta.
    change ((120 =? 105) || (120 =? 100)) with false. cbv iota. change (120 =? 117) with false. cbv iota.
    apply NUM. apply (num_conv_unsigned fl zs ws d arg o1 120 16 GF HW L7 WD); auto 6. }
Qed.
(* ------------------------------------------------------------------ one pass over the format *)
Lemma round_sim : forall sf fmt items, spec_parse sf fmt = Some items ->
  forall args o rest, spec_round items args = Some (o, rest) ->
  forall fuel, loop format_b fuel false fmt [] (Some args) = OutOfFuel \/
               loop format_b fuel false fmt [] (Some args) = Done o (Some rest).
Proof.
  induction sf; intros fmt items SP args o rest SR fuel; simpl in SP; [discriminate|].
  destruct fuel; [left; reflexivity|].
  destruct fmt as [|c t].
  - inversion SP; subst. simpl in SR. inversion SR; subst. right. reflexivity.
  - destruct (c =? BSL) eqn:EB.
    + apply N.eqb_eq in EB; subst c.
      destruct (spec_escape MFormat t) as [[eo r]|] eqn:SE; [|discriminate].
      destruct (spec_parse sf r) as [l|] eqn:SP'; [|discriminate]. inversion SP; subst items. clear SP.
      simpl in SR. destruct (spec_round l args) as [[o' a']|] eqn:SR'; [|discriminate].
      inversion SR; subst. clear SR.
      pose proof (esc_step format_b MFormat t eo r SE fuel [] (Some args)) as ST. cbn [mode_pb] in ST. rewrite ST.
      destruct (IHsf r l SP' args o' rest SR' fuel) as [L|R]; rewrite ?L, ?R; [left|right]; reflexivity.
    + destruct (c =? PCT) eqn:EP.
      * apply N.eqb_eq in EP; subst c.
        destruct (spec_directive t) as [[it r]|] eqn:SD; [|discriminate].
        destruct (spec_parse sf r) as [l|] eqn:SP'; [|discriminate]. inversion SP; subst items. clear SP.
        destruct it as [bs|d].
        -- apply spec_directive_lit in SD as [-> ->].
           simpl in SR. destruct (spec_round l args) as [[o' a']|] eqn:SR'; [|discriminate].
           inversion SR; subst. clear SR.
           rewrite pct_start. destruct fuel; [left; reflexivity|].
           cbn [loop]. change (PCT =? BSL) with false. cbv iota. cbn [nonempty]. cbv iota.
           change (PCT =? PCT) with true. cbv iota.
           destruct (IHsf r l SP' args o' rest SR' fuel) as [L|R]; rewrite ?L, ?R; [left|right]; reflexivity.
        -- cbn [spec_round] in SR.
           destruct args as [|a ta].
           ++ destruct (spec_conv d []) as [o1|] eqn:SC; [|discriminate].
              destruct (spec_round l []) as [[o' a']|] eqn:SR'; [|discriminate]. inversion SR; subst. clear SR.
              destruct (dir_sim t d r SD [] [] [] o1 eq_refl SC (S fuel)) as [f' [X|X]]; [left; exact X|].
              rewrite X. destruct (IHsf r l SP' [] o' rest SR' f') as [L|R]; rewrite ?L, ?R; [left|right]; reflexivity.
           ++ destruct (spec_conv d a) as [o1|] eqn:SC; [|discriminate].
              destruct (spec_round l ta) as [[o' a']|] eqn:SR'; [|discriminate]. inversion SR; subst. clear SR.
              destruct (dir_sim t d r SD (a :: ta) a ta o1 eq_refl SC (S fuel)) as [f' [X|X]]; [left; exact X|].
              rewrite X. destruct (IHsf r l SP' ta o' rest SR' f') as [L|R]; rewrite ?L, ?R; [left|right]; reflexivity.
      * destruct (spec_parse sf t) as [l|] eqn:SP'; [|discriminate]. inversion SP; subst items. clear SP.
        simpl in SR. destruct (spec_round l args) as [[o' a']|] eqn:SR'; [|discriminate].
        inversion SR; subst. clear SR.
        cbn [loop]. rewrite EB. cbn [nonempty andb]. cbv iota. rewrite EP. cbv iota.
        destruct (IHsf t l SP' args o' rest SR' fuel) as [L|R]; rewrite ?L, ?R; [left|right]; reflexivity.
Qed.

Lemma spec_round_suffix : forall items args o rest, spec_round items args = Some (o, rest) ->
  exists used, args = used ++ rest /\ (has_dir items = false -> used = []) /\
               (has_dir items = true -> args <> [] -> used <> []).
Proof.
  induction items as [|it l IH]; intros args o rest H; simpl in H.
  - inversion H; subst. exists []. repeat split; auto. discriminate.
  - destruct it as [bs|d].
    + destruct (spec_round l args) as [[o' a']|] eqn:E; [|discriminate]. inversion H; subst.
      destruct (IH _ _ _ E) as (u & A & B & C). exists u. simpl. auto.
    + destruct args as [|a t].
      * destruct (spec_conv d []); [|discriminate].
        destruct (spec_round l []) as [[o' a']|] eqn:E; [|discriminate]. inversion H; subst.
        destruct (IH _ _ _ E) as (u & A & B & C). exists u. split; [exact A|]. split.
        -- simpl. discriminate.
        -- intros _ X. exfalso. apply X. reflexivity.
      * destruct (spec_conv d a); [|discriminate].
        destruct (spec_round l t) as [[o' a']|] eqn:E; [|discriminate]. inversion H; subst.
        destruct (IH _ _ _ E) as (u & A & B & C). exists (a :: u). subst t. split; [reflexivity|]. split.
        -- simpl. discriminate.
        -- intros _ _. discriminate.
Qed.

Lemma format_of_round : forall fmt items, spec_parse (S (length fmt)) fmt = Some items ->
  forall args o rest, spec_round items args = Some (o, rest) ->
  format fmt (Some args) = FOk o (length args - length rest).
Proof.
  intros fmt items SP args o rest SR. unfold format, format_into.
  destruct (round_sim _ fmt items SP args o rest SR (S (S (length fmt)))) as [L|R].
  - exfalso. revert L. apply loop_no_oof; [apply format_b_no_oof | lia].
  - rewrite R. reflexivity.
Qed.

Lemma rounds_sim : forall fmt items, spec_parse (S (length fmt)) fmt = Some items ->
  forall fuel args o, spec_rounds fuel items args = Some o -> printf_rounds fuel fmt args = BOut o 0.
Proof.
  intros fmt items SP. induction fuel; intros args o H; simpl in H; [discriminate|].
  destruct (spec_round items args) as [[o1 rest]|] eqn:SR; [|discriminate].
  cbn [printf_rounds]. rewrite (format_of_round fmt items SP args o1 rest SR).
  destruct (spec_round_suffix _ _ _ _ SR) as (used & A & B & C).
  assert (N : (length args - length rest = length used)%nat) by (subst args; rewrite app_length; lia).
  rewrite N.
  assert (LT : (length args <? length used)%nat = false) by (apply Nat.ltb_ge; subst args; rewrite app_length; lia).
  rewrite LT.
  assert (SK : skipn (length used) args = rest).
  { subst args. rewrite skipn_app, skipn_all, Nat.sub_diag. reflexivity. }
  rewrite SK.
  assert (ST : ((length used =? 0)%nat || negb (nonempty rest)) = (negb (has_dir items) || negb (nonempty rest))).
  { destruct rest as [|r0 rest']; [simpl; rewrite !orb_true_r; reflexivity|]. simpl. rewrite !orb_false_r.
    destruct (has_dir items) eqn:HD; simpl.
    - assert (used <> []) by (apply C; auto; subst args; destruct used; discriminate).
      destruct used; [congruence|reflexivity].
    - rewrite (B eq_refl). reflexivity. }
  rewrite ST.
  destruct (negb (has_dir items) || negb (nonempty rest)).
  - inversion H; subst. reflexivity.
  - destruct (spec_rounds fuel items rest) as [o'|] eqn:E; [|discriminate]. inversion H; subst.
    rewrite (IHfuel rest o' E). reflexivity.
Qed.

Theorem printf_matches : forall fmt args out st,
  spec_printf fmt args = Some (out, st) -> printf_builtin (fmt :: args) = BOut out st.
Proof.
  intros fmt args out st H. unfold spec_printf in H.
  destruct (match fmt with c :: _ => c =? 45 | [] => false end); [discriminate|].
  destruct (spec_parse (S (length fmt)) fmt) as [items|] eqn:SP; [|discriminate].
  destruct (spec_rounds (S (length args)) items args) as [o|] eqn:E; [|discriminate]. inversion H; subst.
  unfold printf_builtin. apply (rounds_sim fmt items SP _ _ _ E).
Qed.

(* non-vacuity: printf '%-5s|%c\101%b%%%+05d %x %o %3u\n' ab xyz 'q\0101' -42 0xff 010 7 r
   is inside the scope: every conversion, flags, zero padding, hex/octal arguments, escapes, reuse *)
Definition ex_fmt : str := [37;45;53;115;124;37;99;92;49;48;49;37;98;37;37;37;43;48;53;100;32;37;120;32;37;111;32;37;51;117;92;110].
Definition ex_args : list str := [[97;98]; [120;121;122]; [113;92;48;49;48;49]; [45;52;50]; [48;120;102;102]; [48;49;48]; [55]; [114]].
Example printf_matches_nonvacuous :
  exists out, spec_printf ex_fmt ex_args = Some (out, 0) /\ printf_builtin (ex_fmt :: ex_args) = BOut out 0 /\ (40 < len out).
Proof. eexists. vm_compute. repeat split; reflexivity. Qed.
