(* Proofs/FormatProofs.v — proofs about Expand/Format.v *)
From Verif Require Import Base.Str Expand.Format.
From Coq Require Import ZifyN ZifyNat ZifyBool.
Open Scope N_scope.

(* ------------------------------------------------------------------ fuel and panics *)
Lemma emit_not_fuel : forall bs r, emit bs r = OutOfFuel -> r = OutOfFuel.
Proof. intros bs r; destruct r; simpl; congruence. Qed.
Lemma emit_not_panic : forall bs r, emit bs r = GoPanic -> r = GoPanic.
Proof. intros bs r; destruct r; simpl; congruence. Qed.

Lemma emit_ne_fuel : forall bs r, r <> OutOfFuel -> emit bs r <> OutOfFuel.
Proof. intros bs r H E; apply emit_not_fuel in E; auto. Qed.
Lemma emit_ne_panic : forall bs r, r <> GoPanic -> emit bs r <> GoPanic.
Proof. intros bs r H E; apply emit_not_panic in E; auto. Qed.

Lemma read_digits_len : forall m h s d r, read_digits m h s = (d, r) -> (length r <= length s)%nat.
Proof.
  induction m; intros h s d r H; simpl in H.
  - inversion H; subst; lia.
  - destruct s as [|c t]; [inversion H; subst; simpl; lia|].
    destruct (rd_ok h c).
    + destruct (read_digits m h t) as [d' r'] eqn:E. inversion H; subst.
      apply IHm in E. simpl; lia.
    + inversion H; subst; lia.
Qed.

Lemma take_arg_some : forall a, take_arg a <> None.
Proof.
  intros [l|]; unfold take_arg; simpl.
  - destruct l; simpl; discriminate.
  - discriminate.
Qed.

Section LoopFacts.
  Variable brec : str -> outcome.

  Lemma loop_no_oof :
    (forall a, brec a <> OutOfFuel) ->
    forall fuel pb format fmts args, (length format < fuel)%nat ->
    loop brec fuel pb format fmts args <> OutOfFuel.
  Proof.
    intros Hb. induction fuel; intros pb format fmts args Hl; [lia|].
    destruct format as [|c rest]; cbn [loop].
    - destruct (nonempty fmts); discriminate.
    - simpl length in Hl.
      repeat match goal with
      | |- emit _ _ <> OutOfFuel => apply emit_ne_fuel
      | |- loop _ _ _ _ _ _ <> OutOfFuel => apply IHfuel; simpl length in *; lia
      | E : read_digits _ _ _ = (_, _) |- loop _ _ _ _ _ _ <> OutOfFuel =>
          apply read_digits_len in E; apply IHfuel; simpl length in *; lia
      | |- Fail _ <> _ => discriminate
      | |- GoPanic <> _ => discriminate
      | |- Unmodelled <> _ => discriminate
      | |- (if ?b then _ else _) <> _ => destruct b
      | |- (let '(_, _) := ?x in _) <> _ => destruct x eqn:?
      | |- match ?x with _ => _ end <> _ => destruct x eqn:?
      end.
      all: try (match goal with E : brec _ = OutOfFuel |- _ => exfalso; exact (Hb _ E) end).
  Qed.

  Lemma loop_no_panic :
    (forall a, brec a <> GoPanic) ->
    forall fuel pb format fmts args, loop brec fuel pb format fmts args <> GoPanic.
  Proof.
    intros Hb. induction fuel; intros pb format fmts args; [discriminate|].
    destruct format as [|c rest]; cbn [loop].
    - destruct (nonempty fmts); discriminate.
    - repeat match goal with
      | |- emit _ _ <> GoPanic => apply emit_ne_panic
      | |- loop _ _ _ _ _ _ <> GoPanic => apply IHfuel
      | |- Fail _ <> _ => discriminate
      | |- OutOfFuel <> _ => discriminate
      | |- Unmodelled <> _ => discriminate
      | |- (if ?b then _ else _) <> _ => destruct b
      | |- (let '(_, _) := ?x in _) <> _ => destruct x eqn:?
      | |- match ?x with _ => _ end <> _ => destruct x eqn:?
      end.
      all: try (match goal with E : brec _ = GoPanic |- _ => exfalso; exact (Hb _ E) end).
      all: try (match goal with E : take_arg _ = None |- _ => exfalso; exact (take_arg_some _ E) end).
  Qed.
End LoopFacts.

Lemma format_b_no_oof : forall a, format_b a <> OutOfFuel.
Proof. intro a; unfold format_b; apply loop_no_oof; [discriminate | lia]. Qed.
Lemma format_b_no_panic : forall a, format_b a <> GoPanic.
Proof. intro a; unfold format_b; apply loop_no_panic; discriminate. Qed.
Lemma format_into_no_oof : forall f a, format_into f a <> OutOfFuel.
Proof. intros; unfold format_into; apply loop_no_oof; [apply format_b_no_oof | lia]. Qed.
Lemma format_into_no_panic : forall f a, format_into f a <> GoPanic.
Proof. intros; unfold format_into; apply loop_no_panic; apply format_b_no_panic. Qed.

Lemma format_no_oof : forall f a, format f a <> FOutOfFuel.
Proof. intros f a; unfold format; pose proof (format_into_no_oof f a); destruct (format_into f a); congruence. Qed.
Lemma format_no_panic : forall f a, format f a <> FPanic.
Proof. intros f a; unfold format; pose proof (format_into_no_panic f a); destruct (format_into f a); congruence. Qed.
Lemma format_consumed_le : forall f a s n, format f (Some a) = FOk s n -> (n <= length a)%nat.
Proof. intros f a s n; unfold format; destruct (format_into f (Some a)); intro H; inversion H; subst; simpl; lia. Qed.

Lemma bemit_ne_fuel : forall bs r, r <> BOutOfFuel -> bemit bs r <> BOutOfFuel.
Proof. intros bs r H; destruct r; simpl; congruence. Qed.
Lemma bemit_ne_panic : forall bs r, r <> BPanic -> bemit bs r <> BPanic.
Proof. intros bs r H; destruct r; simpl; congruence. Qed.

(* the reuse loop: every continuing round consumed >= 1 argument, so |args|+1 rounds suffice *)
Lemma printf_rounds_terminates : forall fuel fmt args, (length args < fuel)%nat ->
  printf_rounds fuel fmt args <> BOutOfFuel.
Proof.
  induction fuel; intros fmt args Hl; [lia|]. cbn [printf_rounds].
  pose proof (format_no_oof fmt (Some args)) as Hf.
  destruct (format fmt (Some args)) as [s n| | | |] eqn:E; try discriminate; try congruence.
  apply format_consumed_le in E.
  destruct (length args <? n)%nat eqn:L; [discriminate|].
  destruct (n =? 0)%nat eqn:N0; simpl; [discriminate|].
  destruct (nonempty (skipn n args)) eqn:NE; simpl; [|discriminate].
  apply bemit_ne_fuel, IHfuel. rewrite skipn_length. apply Nat.eqb_neq in N0. lia.
Qed.

Lemma printf_rounds_no_panic : forall fuel fmt args, printf_rounds fuel fmt args <> BPanic.
Proof.
  induction fuel; intros fmt args; [discriminate|]. cbn [printf_rounds].
  pose proof (format_no_panic fmt (Some args)) as Hf.
  destruct (format fmt (Some args)) as [s n| | | |] eqn:E; try discriminate; try congruence.
  apply format_consumed_le in E.
  destruct (length args <? n)%nat eqn:L; [apply Nat.ltb_lt in L; lia|].
  destruct ((n =? 0)%nat || negb (nonempty (skipn n args))); [discriminate|].
  apply bemit_ne_panic, IHfuel.
Qed.

Theorem printf_builtin_terminates : forall argv, printf_builtin argv <> BOutOfFuel.
Proof. intros [|f a]; unfold printf_builtin; [discriminate|]. apply printf_rounds_terminates; lia. Qed.
Theorem printf_builtin_no_panic : forall argv, printf_builtin argv <> BPanic.
Proof. intros [|f a]; unfold printf_builtin; [discriminate|]. apply printf_rounds_no_panic. Qed.

Lemma echo_expand_ok : forall a, echo_expand a <> BPanic /\ echo_expand a <> BOutOfFuel.
Proof.
  intro a; unfold echo_expand.
  pose proof (format_no_panic [PCT; 98] (Some [a])); pose proof (format_no_oof [PCT; 98] (Some [a])).
  destruct (format [PCT; 98] (Some [a])); split; congruence.
Qed.
Lemma echo_args_ok : forall args first doexp nl,
  echo_args first doexp args nl <> BPanic /\ echo_args first doexp args nl <> BOutOfFuel.
Proof.
  induction args as [|a t IH]; intros first doexp nl; cbn [echo_args]; [split; discriminate|].
  destruct (echo_expand_ok a) as [P F].
  destruct doexp.
  - destruct (echo_expand a); try congruence; try (split; discriminate).
    destruct (IH false true nl). split; [apply bemit_ne_panic | apply bemit_ne_fuel]; auto.
  - destruct (IH false false nl). split; [apply bemit_ne_panic | apply bemit_ne_fuel]; auto.
Qed.
Theorem echo_builtin_ok : forall args, echo_builtin args <> BPanic /\ echo_builtin args <> BOutOfFuel.
Proof.
  intro args; unfold echo_builtin. destruct (echo_opts args true false) as [[r nl] ex]. apply echo_args_ok.
Qed.


(* ------------------------------------------------------------------ refuted: one witness per known class.
   [bash_*] = what real bash 5.2 writes (re-confirmed on every run by the harness' pinned witnesses). *)
(* printf '%.2s' 'abcdef'  -> bash: 'ab' status 0 *)
Definition w_precision_rejected : list str := [[37;46;50;115]; [97;98;99;100;101;102]].
Lemma refuted_precision_rejected : printf_builtin w_precision_rejected <> BOut [97;98] 0 /\ (fun a => spec_printf (hd [] a) (tl a)) w_precision_rejected = None.
Proof. split; [vm_compute; discriminate | vm_compute; reflexivity]. Qed.
(* printf '%d' 'abc'  -> bash: '0' status 1 *)
Definition w_invalid_number_argument : list str := [[37;100]; [97;98;99]].
Lemma refuted_invalid_number_argument : printf_builtin w_invalid_number_argument <> BOut [48] 1 /\ (fun a => spec_printf (hd [] a) (tl a)) w_invalid_number_argument = None.
Proof. split; [vm_compute; discriminate | vm_compute; reflexivity]. Qed.
(* printf '%d' "'a"  -> bash: '97' status 0 *)
Definition w_char_constant_argument : list str := [[37;100]; [39;97]].
Lemma refuted_char_constant_argument : printf_builtin w_char_constant_argument <> BOut [57;55] 0 /\ (fun a => spec_printf (hd [] a) (tl a)) w_char_constant_argument = None.
Proof. split; [vm_compute; discriminate | vm_compute; reflexivity]. Qed.
(* printf '%05s|' 'ab'  -> bash: '   ab|' status 0 *)
Definition w_zero_flag_on_string : list str := [[37;48;53;115;124]; [97;98]].
Lemma refuted_zero_flag_on_string : printf_builtin w_zero_flag_on_string <> BOut [32;32;32;97;98;124] 0 /\ (fun a => spec_printf (hd [] a) (tl a)) w_zero_flag_on_string = None.
Proof. split; [vm_compute; discriminate | vm_compute; reflexivity]. Qed.
(* printf '%5b|' 'x'  -> bash: '    x|' status 0 *)
Definition w_b_width_ignored : list str := [[37;53;98;124]; [120]].
Lemma refuted_b_width_ignored : printf_builtin w_b_width_ignored <> BOut [32;32;32;32;120;124] 0 /\ (fun a => spec_printf (hd [] a) (tl a)) w_b_width_ignored = None.
Proof. split; [vm_compute; discriminate | vm_compute; reflexivity]. Qed.
(* printf '%+x' '255'  -> bash: 'ff' status 0 *)
Definition w_sign_flag_on_unsigned : list str := [[37;43;120]; [50;53;53]].
Lemma refuted_sign_flag_on_unsigned : printf_builtin w_sign_flag_on_unsigned <> BOut [102;102] 0 /\ (fun a => spec_printf (hd [] a) (tl a)) w_sign_flag_on_unsigned = None.
Proof. split; [vm_compute; discriminate | vm_compute; reflexivity]. Qed.
(* printf '%+ d' '5'  -> bash: '+5' status 0 *)
Definition w_multiple_flags_rejected : list str := [[37;43;32;100]; [53]].
Lemma refuted_multiple_flags_rejected : printf_builtin w_multiple_flags_rejected <> BOut [43;53] 0 /\ (fun a => spec_printf (hd [] a) (tl a)) w_multiple_flags_rejected = None.
Proof. split; [vm_compute; discriminate | vm_compute; reflexivity]. Qed.
(* printf 'abc%'  -> bash: 'abc' status 1 *)
Definition w_incomplete_directive_output : list str := [[97;98;99;37]].
Lemma refuted_incomplete_directive_output : printf_builtin w_incomplete_directive_output <> BOut [97;98;99] 1 /\ (fun a => spec_printf (hd [] a) (tl a)) w_incomplete_directive_output = None.
Proof. split; [vm_compute; discriminate | vm_compute; reflexivity]. Qed.
(* printf '%5%|'  -> bash: '' status 1 *)
Definition w_percent_with_flags_or_width : list str := [[37;53;37;124]].
Lemma refuted_percent_with_flags_or_width : printf_builtin w_percent_with_flags_or_width <> BOut [] 1 /\ (fun a => spec_printf (hd [] a) (tl a)) w_percent_with_flags_or_width = None.
Proof. split; [vm_compute; discriminate | vm_compute; reflexivity]. Qed.
(* printf '%u' '18446744073709551615'  -> bash: '18446744073709551615' status 0 *)
Definition w_unsigned_beyond_int64 : list str := [[37;117]; [49;56;52;52;54;55;52;52;48;55;51;55;48;57;53;53;49;54;49;53]].
Lemma refuted_unsigned_beyond_int64 : printf_builtin w_unsigned_beyond_int64 <> BOut [49;56;52;52;54;55;52;52;48;55;51;55;48;57;53;53;49;54;49;53] 0 /\ (fun a => spec_printf (hd [] a) (tl a)) w_unsigned_beyond_int64 = None.
Proof. split; [vm_compute; discriminate | vm_compute; reflexivity]. Qed.
(* printf '%b' 'a\\cb' 'x'  -> bash: 'a' status 0 *)
Definition w_b_backslash_c : list str := [[37;98]; [97;92;99;98]; [120]].
Lemma refuted_b_backslash_c : printf_builtin w_b_backslash_c <> BOut [97] 0 /\ (fun a => spec_printf (hd [] a) (tl a)) w_b_backslash_c = None.
Proof. split; [vm_compute; discriminate | vm_compute; reflexivity]. Qed.
(* printf '%b' "\\'"  -> bash: "\\'" status 0 *)
Definition w_b_quote_escape : list str := [[37;98]; [92;39]].
Lemma refuted_b_quote_escape : printf_builtin w_b_quote_escape <> BOut [92;39] 0 /\ (fun a => spec_printf (hd [] a) (tl a)) w_b_quote_escape = None.
Proof. split; [vm_compute; discriminate | vm_compute; reflexivity]. Qed.
(* printf '%5s|' 'é'  -> bash: '   é|' status 0 *)
Definition w_width_counts_runes : list str := [[37;53;115;124]; [195;169]].
Lemma refuted_width_counts_runes : printf_builtin w_width_counts_runes <> BOut [32;32;32;195;169;124] 0 /\ (fun a => spec_printf (hd [] a) (tl a)) w_width_counts_runes = None.
Proof. split; [vm_compute; discriminate | vm_compute; reflexivity]. Qed.
(* printf '\\ud800'  -> bash: b'\xed\xa0\x80' status 0 *)
Definition w_unicode_escape_nonscalar : list str := [[92;117;100;56;48;48]].
Lemma refuted_unicode_escape_nonscalar : printf_builtin w_unicode_escape_nonscalar <> BOut [237;160;128] 0 /\ (fun a => spec_printf (hd [] a) (tl a)) w_unicode_escape_nonscalar = None.
Proof. split; [vm_compute; discriminate | vm_compute; reflexivity]. Qed.
(* printf '\\%d|' '7'  -> bash: '\\7|' status 0 *)
Definition w_backslash_percent : list str := [[92;37;100;124]; [55]].
Lemma refuted_backslash_percent : printf_builtin w_backslash_percent <> BOut [92;55;124] 0 /\ (fun a => spec_printf (hd [] a) (tl a)) w_backslash_percent = None.
Proof. split; [vm_compute; discriminate | vm_compute; reflexivity]. Qed.
(* echo '-ne' 'a\\n'  -> bash: 'a\n' status 0 *)
Definition w_echo_combined_options : list str := [[45;110;101]; [97;92;110]].
Lemma refuted_echo_combined_options : echo_builtin w_echo_combined_options <> BOut [97;10] 0 /\ spec_echo w_echo_combined_options = None.
Proof. split; [vm_compute; discriminate | vm_compute; reflexivity]. Qed.
(* echo '-e' '\\101'  -> bash: '\\101\n' status 0 *)
Definition w_echo_bare_octal : list str := [[45;101]; [92;49;48;49]].
Lemma refuted_echo_bare_octal : echo_builtin w_echo_bare_octal <> BOut [92;49;48;49;10] 0 /\ spec_echo w_echo_bare_octal = None.
Proof. split; [vm_compute; discriminate | vm_compute; reflexivity]. Qed.
(* ------------------------------------------------------------------ escapes: code = Spec *)
Lemma bounded_forall : forall (P : N -> bool) (n : nat),
  forallb P (map N.of_nat (seq 0 n)) = true -> forall c, c < N.of_nat n -> P c = true.
Proof.
  intros P n H c Hc. rewrite forallb_forall in H. apply H.
  apply in_map_iff. exists (N.to_nat c). split; [lia|]. apply in_seq. lia.
Qed.

Lemma rd_oct : forall c, rd_ok false c = is_oct c.
Proof. intro c; unfold rd_ok, is_oct; simpl; rewrite !orb_false_r; reflexivity. Qed.
Lemma rd_hex : forall c, rd_ok true c = is_hexd c.
Proof. intro c; unfold rd_ok, is_hexd, in_rng; simpl. lia. Qed.

Lemma read_span : forall p h, (forall c, rd_ok h c = p c) -> forall m s, read_digits m h s = span_max m p s.
Proof.
  intros p h Hp; induction m; intro s; simpl; [reflexivity|].
  destruct s as [|c t]; [reflexivity|]. rewrite Hp. destruct (p c); [|reflexivity].
  rewrite IHm. reflexivity.
Qed.

Lemma span_max_spec : forall p k s a b, span_max k p s = (a, b) ->
  s = a ++ b /\ forallb p a = true /\ (length a <= k)%nat.
Proof.
  intros p; induction k; intros s a b H; simpl in H.
  - inversion H; subst; simpl; repeat split; auto.
  - destruct s as [|c t]; [inversion H; subst; simpl; repeat split; auto; lia|].
    destruct (p c) eqn:Pc.
    + destruct (span_max k p t) as [a' b'] eqn:E. inversion H; subst.
      apply IHk in E. destruct E as (E1 & E2 & E3). subst t. simpl. rewrite Pc, E2. repeat split; auto. lia.
    + inversion H; subst; simpl; repeat split; auto; lia.
Qed.

Lemma span_max_maximal : forall p k s a b, span_max k p s = (a, b) -> (length s <= k)%nat ->
  match b with [] => True | c :: _ => p c = false end.
Proof.
  intros p; induction k; intros s a b H L; simpl in H.
  - destruct s; [inversion H; subst; exact I | simpl in L; lia].
  - destruct s as [|c t]; [inversion H; subst; exact I|].
    destruct (p c) eqn:Pc.
    + destruct (span_max k p t) as [a' b'] eqn:E. inversion H; subst.
      eapply IHk; eauto. simpl in L; lia.
    + inversion H; subst. exact Pc.
Qed.

Lemma parse_base_lead0 : forall b d, parse_base b (48 :: d) = parse_base b d.
Proof. intros; unfold parse_base; simpl. reflexivity. Qed.

Lemma digit_val_hex_lt : forall c, is_hexd c = true -> digit_val c < 16.
Proof.
  intros c H.
  assert (Hc : c < 128) by (unfold is_hexd, in_rng in H; lia).
  revert H. generalize (bounded_forall (fun c => implb (is_hexd c) (digit_val c <? 16)) 128 eq_refl c Hc).
  destruct (is_hexd c); simpl; intros; [lia|discriminate].
Qed.

Lemma hex2_lt_256 : forall d, forallb is_hexd d = true -> (length d <= 2)%nat -> parse_base 16 d < 256.
Proof.
  intros d H L. destruct d as [|a [|b [|]]]; simpl in L; try lia; unfold parse_base; simpl in *.
  - lia.
  - rewrite andb_true_r in H. apply digit_val_hex_lt in H. lia.
  - apply andb_prop in H; destruct H as [Ha H]. rewrite andb_true_r in H.
    apply digit_val_hex_lt in Ha, H. lia.
Qed.

Definition mode_pb (m : escmode) : bool := match m with MFormat => false | _ => true end.

Lemma is_oct_split : forall c, (c =? 48) = false -> is_oct c = in_rng 49 55 c.
Proof. intros c H; unfold is_oct, in_rng; lia. Qed.

Lemma read_digits_cons : forall m h c t, rd_ok h c = true ->
  read_digits (S m) h (c :: t) = let '(d, r) := read_digits m h t in (c :: d, r).
Proof. intros; simpl; rewrite H; reflexivity. Qed.

Ltac atom k :=
  match goal with
  | |- context [?c =? k] =>
      let E := fresh "E" in destruct (c =? k) eqn:E;
      [ apply N.eqb_eq in E; subst c | ]
  end.

Section EscStep.
  Variable brec : str -> outcome.

  Lemma esc_step : forall m t o r, spec_escape m t = Some (o, r) ->
    forall fuel fmts args,
    loop brec (S fuel) (mode_pb m) (BSL :: t) fmts args = emit o (loop brec fuel (mode_pb m) r fmts args).
  Proof.
    intros m t o r H fuel fmts args. cbn [loop]. change (BSL =? BSL) with true. cbv iota.
    destruct t as [|c t']; [simpl in H; inversion H; subst; reflexivity|].
    revert H. unfold spec_escape.
    atom 97; [intro H; inversion H; subst; reflexivity|].
    atom 98; [intro H; inversion H; subst; reflexivity|].
    atom 101; [intro H; inversion H; subst; reflexivity|].
    atom 69; [intro H; inversion H; subst; reflexivity|].
    atom 102; [intro H; inversion H; subst; reflexivity|].
    atom 110; [intro H; inversion H; subst; reflexivity|].
    atom 114; [intro H; inversion H; subst; reflexivity|].
    atom 116; [intro H; inversion H; subst; reflexivity|].
    atom 118; [intro H; inversion H; subst; reflexivity|].
    atom 92; [intro H; inversion H; subst; reflexivity|].
    cbn [orb].
    atom 39; [destruct m; intro H; inversion H; subst; reflexivity|].
    atom 34; [destruct m; intro H; inversion H; subst; reflexivity|].
    atom 63; [destruct m; intro H; inversion H; subst; reflexivity|].
    cbn [orb].
    atom 48.
    { change (is_oct 48) with true. cbv iota.
      destruct m; cbn [mode_pb andb]; change (48 =? 48) with true; cbv iota;
        rewrite read_digits_cons by reflexivity; rewrite (read_span is_oct false rd_oct);
        [destruct (span_max 2 is_oct t') as [d r3] | destruct (span_max 3 is_oct t') as [d r3]
         | destruct (span_max 3 is_oct t') as [d r3]];
        intro H; inversion H; subst; rewrite parse_base_lead0; reflexivity. }
    rewrite (is_oct_split c E12).
    destruct (in_rng 49 55 c) eqn:O.
    { rewrite andb_false_r. cbv iota.
      assert (RD : rd_ok false c = true) by (rewrite rd_oct, (is_oct_split c E12); exact O).
      rewrite read_digits_cons by assumption. rewrite (read_span is_oct false rd_oct).
      destruct m; destruct (span_max 2 is_oct t') as [d r3]; intro H; inversion H; subst; reflexivity. }
    destruct (c =? 120) eqn:E14; [apply N.eqb_eq in E14; subst c|].
    { cbn [orb]. change (120 =? 117) with false. change (120 =? 85) with false. cbv iota.
      rewrite (read_span is_hexd true rd_hex).
      destruct (span_max 2 is_hexd t') as [d r3] eqn:S. destruct d as [|d0 d'].
      - intro H; inversion H; subst. reflexivity.
      - cbn [nonempty]. cbv iota. change (120 =? 120) with true. cbv iota.
        apply span_max_spec in S. destruct S as (_ & S2 & S3).
        rewrite (N.mod_small _ _ (hex2_lt_256 _ S2 S3)).
        intro H; inversion H; subst. reflexivity. }
    cbn [orb].
    destruct ((c =? 117) || (c =? 85)) eqn:U.
    { rewrite (read_span is_hexd true rd_hex).
      assert (M : (if c =? 117 then 4%nat else if c =? 85 then 8%nat else 2%nat) = (if c =? 117 then 4%nat else 8%nat)).
      { destruct (c =? 117); [reflexivity|]. simpl in U. rewrite U. reflexivity. }
      rewrite M.
      destruct (span_max (if c =? 117 then 4%nat else 8%nat) is_hexd t') as [d r3] eqn:S. destruct d as [|d0 d'].
      - intro H; inversion H; subst. reflexivity.
      - cbn [nonempty]. cbv iota.
        destruct (is_scalar (parse_base 16 (d0 :: d'))); intro H; inversion H; subst. reflexivity. }
    cbv iota.
    atom 99; [destruct m; intro H; inversion H; subst; reflexivity|].
    atom PCT; [destruct m; intro H; inversion H; subst; reflexivity|].
    intro H; inversion H; subst; reflexivity.
  Qed.
End EscStep.

(* ------------------------------------------------------------------ %b arguments and echo -e *)
Section BSim.
  Variable brec : str -> outcome.

  Lemma bexpand_sim : forall sf m s o, mode_pb m = true -> spec_bexpand sf m s = Some o ->
    forall fuel, loop brec fuel true s [] None = OutOfFuel \/ loop brec fuel true s [] None = Done o None.
  Proof.
    induction sf; intros m s o Hm H fuel; simpl in H; [discriminate|].
    destruct fuel; [left; reflexivity|].
    destruct s as [|c t].
    - inversion H; subst. right. reflexivity.
    - destruct (c =? BSL) eqn:E.
      + apply N.eqb_eq in E; subst c.
        destruct (spec_escape m t) as [[eo r]|] eqn:SE; [|discriminate].
        destruct (spec_bexpand sf m r) as [o'|] eqn:SB; [|discriminate].
        inversion H; subst.
        pose proof (esc_step brec m t eo r SE fuel [] None) as ST. rewrite Hm in ST. rewrite ST.
        destruct (IHsf m r o' Hm SB fuel) as [L|R]; rewrite ?L, ?R; [left|right]; reflexivity.
      + destruct (spec_bexpand sf m t) as [o'|] eqn:SB; [|discriminate].
        inversion H; subst.
        cbn [loop]. rewrite E. cbn [nonempty andb]. cbv iota.
        destruct (IHsf m t o' Hm SB fuel) as [L|R]; rewrite ?L, ?R; [left|right]; reflexivity.
  Qed.
End BSim.

Lemma format_b_spec : forall m arg o, mode_pb m = true -> spec_b m arg = Some o -> format_b arg = Done o None.
Proof.
  intros m arg o Hm H. unfold spec_b in H. unfold format_b.
  destruct (bexpand_sim (fun _ => Unmodelled) _ m arg o Hm H (S (S (length arg)))) as [L|R]; [|exact R].
  exfalso. revert L. apply loop_no_oof; [discriminate | lia].
Qed.

(* Format("%b", [arg]) *)
Lemma format_pct_b : forall arg o, format_b arg = Done o None -> format [PCT; 98] (Some [arg]) = FOk o 1.
Proof.
  intros arg o H. unfold format, format_into. simpl length.
  cbn [loop]. change (PCT =? BSL) with false. cbv iota. cbn [nonempty andb]. change (PCT =? PCT) with true. cbv iota.
  change (98 =? BSL) with false. cbv iota. cbn [nonempty]. cbv iota.
  change (98 =? PCT) with false. change (98 =? 99) with false. cbv iota.
  change ((98 =? 43) || (98 =? 45) || (98 =? 32)) with false. change (is_dec 98) with false. cbv iota.
  change ((98 =? 115) || (98 =? 98) || (98 =? 100) || (98 =? 105) || (98 =? 117) || (98 =? 111) || (98 =? 120)) with true.
  cbv iota. unfold take_arg. simpl. change (98 =? 98) with true. cbv iota. rewrite H. simpl. rewrite app_nil_r. reflexivity.
Qed.

Lemma echo_opts_spec : forall args nl ex rest nl' ex', spec_echo_opts args nl ex = Some (rest, nl', ex') ->
  echo_opts args nl ex = (rest, nl', ex').
Proof.
  induction args as [|a t IH]; intros nl ex rest nl' ex' H; simpl in *.
  - inversion H; reflexivity.
  - destruct (str_eqb a s_n); [apply IH; exact H|].
    destruct (str_eqb a s_e); [apply IH; exact H|].
    destruct (str_eqb a s_E); [apply IH; exact H|].
    destruct (looks_like_opts a); [discriminate|]. inversion H; reflexivity.
Qed.

Lemma echo_join_spec : forall ex args o nl, spec_echo_join ex args = Some o -> forall first,
  echo_args first ex args nl = BOut ((if first then [] else match args with [] => [] | _ => [32] end) ++ o ++ (if nl then [10] else [])) 0.
Proof.
  induction args as [|a t IH]; intros o nl H first; simpl in H.
  - inversion H; subst. simpl. destruct first; reflexivity.
  - destruct (if ex then spec_b MEcho a else Some a) as [oa|] eqn:EA; [|discriminate].
    destruct (spec_echo_join ex t) as [ot|] eqn:ET; [|discriminate].
    inversion H; subst. clear H.
    cbn [echo_args].
    assert (X : (if ex then echo_expand a else BOut a 0) = BOut oa 0).
    { destruct ex.
      - unfold echo_expand. rewrite (format_pct_b a oa); [reflexivity|].
        apply (format_b_spec MEcho); [reflexivity | exact EA].
      - inversion EA; reflexivity. }
    rewrite X. rewrite (IH ot nl eq_refl false). simpl.
    destruct t as [|b t']; [simpl in ET; inversion ET; subst|];
      destruct first; simpl; rewrite <- ?app_assoc; simpl; rewrite ?app_nil_r; reflexivity.
Qed.

Theorem echo_matches : forall args out st, spec_echo args = Some (out, st) -> echo_builtin args = BOut out st.
Proof.
  intros args out st H. unfold spec_echo in H. unfold echo_builtin.
  destruct (spec_echo_opts args true false) as [[[rest nl] ex]|] eqn:EO; [|discriminate].
  rewrite (echo_opts_spec _ _ _ _ _ _ EO).
  destruct (spec_echo_join ex rest) as [o|] eqn:EJ; [|discriminate].
  inversion H; subst. rewrite (echo_join_spec ex rest o nl EJ true). reflexivity.
Qed.
