(* Proofs/WalkTableOk.v — the finite checks on the GENERATED tables (coq/Gen), re-run by the
   kernel whenever the harness regenerates them from the running code. *)
From Verif Require Import Base.Str Syntax.Schema Syntax.Walk Gen.Schema Gen.WalkTable.

Lemma gen_walk_table_ok : table_ok gen_schema gen_walk_table = true.
Proof. vm_compute. reflexivity. Qed.

(* "BraceExp": the only node kind Walk has no case for (it panics; the parser never produces it) *)
Lemma gen_walk_panic_kinds :
  panic_kinds gen_schema gen_walk_table = [[66; 114; 97; 99; 101; 69; 120; 112]%N].
Proof. vm_compute. reflexivity. Qed.
