From Coq Require Import List Arith Bool String Lia.
From Verif Require Import Syntax.LangGate.
Import ListNotations.

Lemma mem_In : forall v s, mem v s = true <-> In v s.
Proof.
  intros v s. unfold mem. rewrite existsb_exists. split.
  - intros (x & Hin & He). apply Nat.eqb_eq in He. subst. exact Hin.
  - intro H. exists v. split; auto. apply Nat.eqb_refl.
Qed.

Section ProcP.
  Variable R : Type.
  Variable rejected : R.

  (* two oracles that agree on every gate the run consults produce the same run *)
  Lemma exec_agree : forall (p : proc R) o1 o2 budget,
    (forall g, In g (consulted o1 budget p) -> o1 g = o2 g) ->
    exec rejected o1 budget p = exec rejected o2 budget p.
  Proof.
    induction p as [r | g k IH | k IH]; intros o1 o2 budget H; simpl in *.
    - reflexivity.
    - assert (E : o1 g = o2 g) by (apply H; left; reflexivity).
      rewrite <- E. apply IH. intros g' Hg'. apply H. right. exact Hg'.
    - destruct budget; [reflexivity|]. apply IH. exact H.
  Qed.

  Lemma consulted_agree : forall (p : proc R) o1 o2 budget,
    (forall g, In g (consulted o1 budget p) -> o1 g = o2 g) ->
    consulted o2 budget p = consulted o1 budget p.
  Proof.
    induction p as [r | g k IH | k IH]; intros o1 o2 budget H; simpl in *.
    - reflexivity.
    - assert (E : o1 g = o2 g) by (apply H; left; reflexivity).
      rewrite <- E. f_equal. apply IH. intros g' Hg'. apply H. right. exact Hg'.
    - destruct budget; [reflexivity|]. apply IH. exact H.
  Qed.

  (* recovery: a run that never reaches recoverError() is independent of the budget *)
  Lemma exec_budget_irrelevant : forall (p : proc R) o b1 b2,
    asks_recover o b1 p = false -> exec rejected o b1 p = exec rejected o b2 p.
  Proof.
    induction p as [r | g k IH | k IH]; intros o b1 b2 H; simpl in *.
    - reflexivity.
    - apply IH. exact H.
    - discriminate.
  Qed.

  (* with budget 0 reaching recoverError() means rejection; so an accepted run never reached it *)
  Lemma accepted_no_recover : forall (p : proc R) o r,
    exec rejected o 0 p = r -> r <> rejected -> asks_recover o 0 p = false.
  Proof.
    induction p as [r0 | g k IH | k IH]; intros o r H Hr; simpl in *.
    - reflexivity.
    - eapply IH; eauto.
    - congruence.
  Qed.

  Theorem recover_transparent : forall (p : proc R) o r n,
    exec rejected o 0 p = r -> r <> rejected -> exec rejected o n p = r.
  Proof.
    intros p o r n H Hr. rewrite <- H. symmetry.
    apply exec_budget_irrelevant. eapply accepted_no_recover; eauto.
  Qed.
End ProcP.

(* ---- bash / bats *)
Lemma extra_idx_from_spec : forall sets i g,
  In g (extra_idx_from i sets) <->
  (i <= g /\ mem bats (nth (g - i) sets []) = true /\ mem bash (nth (g - i) sets []) = false /\ g - i < List.length sets).
Proof.
  induction sets as [|s rest IH]; intros i g; simpl.
  - split; [tauto|]. intros (_ & _ & _ & H). lia.
  - destruct (mem bats s && negb (mem bash s)) eqn:E.
    + simpl. rewrite IH. split.
      * intros [->|(Hle & Hb & Hn & Hl)].
        -- rewrite Nat.sub_diag. apply andb_true_iff in E as [E1 E2]. apply negb_true_iff in E2. repeat split; auto. lia.
        -- replace (g - i) with (S (g - S i)) by lia. repeat split; auto; lia.
      * intros (Hle & Hb & Hn & Hl). destruct (Nat.eq_dec i g) as [->|Hne]; [left; reflexivity|right].
        replace (g - i) with (S (g - S i)) in * by lia. repeat split; auto; lia.
    + rewrite IH. split.
      * intros (Hle & Hb & Hn & Hl). replace (g - i) with (S (g - S i)) by lia. repeat split; auto; lia.
      * intros (Hle & Hb & Hn & Hl). destruct (Nat.eq_dec i g) as [->|Hne].
        -- rewrite Nat.sub_diag in *. rewrite Hb, Hn in E. discriminate.
        -- replace (g - i) with (S (g - S i)) in * by lia. repeat split; auto; lia.
Qed.

Lemma nth_forallb : forall (A : Type) (f : A -> bool) (l : list A) (d : A) n,
  forallb f l = true -> f d = true -> f (nth n l d) = true.
Proof.
  intros A f l d n Hall Hd. destruct (Nat.lt_ge_cases n (List.length l)) as [Hlt|Hge].
  - rewrite forallb_forall in Hall. apply Hall. apply nth_In. exact Hlt.
  - rewrite nth_overflow by exact Hge. exact Hd.
Qed.

(* gates outside extra_idx answer the same for bash and bats, provided bash-in-set implies bats-in-set everywhere *)
Lemma oracle_bash_bats_agree : forall sets g,
  subset_b sets = true -> ~ In g (extra_idx sets) ->
  oracle_of sets bash g = oracle_of sets bats g.
Proof.
  intros sets g Hsub Hnot. unfold oracle_of.
  assert (Himp : implb (mem bash (nth g sets [])) (mem bats (nth g sets [])) = true).
  { apply (nth_forallb _ (fun s => implb (mem bash s) (mem bats s))); auto. }
  destruct (mem bash (nth g sets [])) eqn:Eb; destruct (mem bats (nth g sets [])) eqn:Et; auto; try discriminate.
  exfalso. apply Hnot. unfold extra_idx. apply extra_idx_from_spec. rewrite Nat.sub_0_r.
  repeat split; auto; try lia.
  destruct (Nat.lt_ge_cases g (List.length sets)); auto. rewrite nth_overflow in Et by auto. discriminate.
Qed.

Theorem bash_bats_same_run : forall (R : Type) (rejected : R) (sets : list (list nat)) (p : proc R) budget,
  subset_b sets = true ->
  (forall g, In g (consulted (oracle_of sets bash) budget p) -> ~ In g (extra_idx sets)) ->
  exec rejected (oracle_of sets bats) budget p = exec rejected (oracle_of sets bash) budget p.
Proof.
  intros R rejected sets p budget Hsub Hcl. symmetry. apply exec_agree.
  intros g Hg. apply oracle_bash_bats_agree; auto.
Qed.

(* the known class is necessary: a process that consults a bats-only gate can differ *)
Example bash_bats_differ_on_extra :
  let sets := [[bash; bats]; [bats]] in
  let p := Ask 1 (fun b => if b then Ret 1 else Ret 2) in
  exec 0 (oracle_of sets bats) 0 p <> exec 0 (oracle_of sets bash) 0 p /\ subset_b sets = true /\ extra_idx sets = [1].
Proof. vm_compute. repeat split; congruence. Qed.

(* ---- POSIX checker soundness *)
Lemma posix_only_kids : forall forbidden flags kids,
  posix_only forbidden (G flags kids) = true ->
  forallb (flag_ok forbidden) flags = true /\ forall k, In k kids -> posix_only forbidden k = true.
Proof.
  intros forbidden flags kids H. simpl in H. apply andb_true_iff in H as [H1 H2]. split; auto.
  induction kids as [|k r IH]; intros k' Hin; [inversion Hin|].
  apply andb_true_iff in H2 as [Hk Hr]. destruct Hin as [->|Hin]; auto.
Qed.

Theorem posix_checker_sound : forall forbidden t,
  posix_only forbidden t = true ->
  forall n, occurs n t -> forall f, In f (node_flags n) -> ~ In f forbidden.
Proof.
  intros forbidden t H n Hocc. revert H.
  induction Hocc as [t | n flags kids k Hin Hocc IH]; intros H f Hf.
  - destruct t as [flags kids]. apply posix_only_kids in H as [H1 _]. simpl in Hf.
    rewrite forallb_forall in H1. specialize (H1 f Hf). unfold flag_ok in H1.
    apply negb_true_iff in H1. intro Hbad. apply mem_In in Hbad. congruence.
  - apply posix_only_kids in H as [_ H2]. apply IH; auto.
Qed.

