(* Proofs/RunnerReuseTable.v — C30: the coverage condition on the table regenerated
   from the running code (coq/Gen/RunnerFields.v), re-checked at every build,
   and the reuse theorem instantiated with it. *)
From Verif Require Import Base.Str Interp.Reuse Proofs.RunnerReuseProofs Gen.RunnerFields.

Lemma runner_fields_covered : fields_covered runner_fields = true.
Proof. vm_compute. reflexivity. Qed.

Lemma runner_fields_nontrivial :
  (30 <= length runner_fields)%nat /\
  existsb (fun r => f_written r && negb (f_carried r)) runner_fields = true /\
  existsb (fun r => f_carried r && negb (f_written r)) runner_fields = true /\
  existsb (fun r => negb (match f_reads r with [] => true | _ => false end)) runner_fields = true.
Proof. vm_compute. repeat split; repeat constructor. Qed.

Theorem runner_reset_fresh :
  forall (val : Type) (dflt : val) (prog obs : Type)
         (reset_fn : nat -> list val -> val) (step : prog -> list val -> list val * obs) s hist p,
    run val dflt prog obs runner_fields step p
        (reset val dflt runner_fields reset_fn (runs val dflt prog obs runner_fields step hist (reset val dflt runner_fields reset_fn s)))
    = run val dflt prog obs runner_fields step p (reset val dflt runner_fields reset_fn s).
Proof. intros. apply reset_fresh. exact runner_fields_covered. Qed.
