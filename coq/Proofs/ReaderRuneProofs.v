From Coq Require Import List NArith ZArith Bool Lia ZifyN ZifyNat ZifyBool.
From Verif Require Import Base.Str Base.Utf8 Syntax.Pos Syntax.Reader Proofs.ReaderProofs Proofs.Utf8ReaderProofs.
Import ListNotations.
Open Scope N_scope.
Arguments N.add : simpl never. Arguments N.mul : simpl never. Arguments N.sub : simpl never.
Arguments Z.add : simpl never. Arguments Z.sub : simpl never.

(* ---- rune -------------------------------------------------------------------- *)
Definition ascii (l : str) : Prop := Forall (fun b => b < 128) l.

Lemma Inv_init : forall bufsz rdr, Inv bufsz (init rdr).
Proof. intros. unfold Inv, init; cbn. repeat split; try lia; try discriminate. Qed.

Lemma skipn_add : forall (A : Type) a b (l : list A), skipn (a + b) l = skipn b (skipn a l).
Proof. induction a; intros b l; [reflexivity|]. destruct l; [rewrite !skipn_nil; reflexivity|]. simpl. apply IHa. Qed.

(* the state after consuming k more buffered bytes *)
Lemma adv_facts : forall bufsz s k, Inv bufsz s -> r s <> runeEOF -> (bsp s + k <= length (bs s))%nat ->
  Inv bufsz (set_bsp s (bsp s + k)) /\ rem (set_bsp s (bsp s + k)) = skipn k (rem s).
Proof.
  intros bufsz s k (I0 & I1 & I2 & I3 & I4) Hr Hk. split.
  - repeat split; cbn; auto.
  - unfold rem; cbn. rewrite skipn_add.
    rewrite skipn_app. replace (k - length (skipn (bsp s) (bs s)))%nat with 0%nat by (rewrite skipn_length; lia).
    reflexivity.
Qed.

Ltac inv_set := unfold Inv in *; cbn [bs bsp bad r readErr readEOF rd set_col set_line set_rw set_bsp set_readEOF] in *; intuition (try discriminate; try lia).

Lemma Inv_set_col : forall bufsz s x, Inv bufsz s -> Inv bufsz (set_col s x).
Proof. intros bufsz s x H. exact H. Qed.

Lemma Inv_set_rw_ne : forall bufsz s r' w', Inv bufsz s -> r s <> runeEOF -> Inv bufsz (set_rw s r' w').
Proof.
  intros bufsz s r' w' (I0 & I1 & I2 & I3 & I4) Hr. specialize (I2 Hr).
  repeat split; cbn [bs bsp bad r readErr readEOF rd set_rw]; auto.
Qed.

Lemma Inv_eof : forall bufsz s k, Inv bufsz s -> Inv bufsz (set_rw (set_bsp s k) runeEOF 1%Z).
Proof.
  intros bufsz s k (I0 & I1 & I2 & I3 & I4).
  repeat split; cbn [bs bsp bad r readErr readEOF rd set_rw set_bsp]; auto. intro X; exfalso; apply X; reflexivity.
Qed.

Lemma bs_tail_spec : forall bufsz obq obqd bq s s' again, Inv bufsz s -> r s <> runeEOF -> (0 < bufsz)%nat ->
  bs_tail bufsz obq obqd bq s = (s', again) ->
  Inv bufsz s' /\ rem s' = rem s /\ (offs s' + Z.of_nat (bsp s') = offs s + Z.of_nat (bsp s))%Z /\
  line s' = line s /\ r s' = r s /\ w s' = w s /\ perr s' = perr s /\
  col s' = (if again then col s + 1 else col s)%Z /\
  again = (Nat.ltb 0 obq && ((Nat.ltb bq obq && bquoteEscaped (ahd (rem s))) || (Nat.ltb bq obqd && (ahd (rem s) =? 34)))).
Proof.
  intros bufsz obq obqd bq s s' again HI Hr Hb H. unfold bs_tail in H.
  assert (HI0 : Inv bufsz (set_readEOF s false)) by inv_set.
  destruct (Nat.ltb 0 obq) eqn:Eo.
  - destruct (peek bufsz (set_readEOF s false)) as [s1 nx] eqn:Ep.
    destruct (peek_spec _ _ _ _ HI0 Hr Hb Ep) as (J1 & (A1 & A2 & A3 & A4 & A5 & A6 & A7) & J3 & _).
    change (rem (set_readEOF s false)) with (rem s) in *. cbn [set_readEOF offs bsp line col r w perr] in *.
    rewrite <- J3. cbn [andb].
    destruct ((Nat.ltb bq obq && bquoteEscaped nx) || (Nat.ltb bq obqd && (nx =? 34))) eqn:Ec;
      inversion H; subst s' again; clear H.
    + split; [inv_set|]. cbn [set_col offs bsp line col r w perr]. change (rem (set_col s1 (col s1 + 1))) with (rem s1).
      repeat split; auto; try congruence; try lia.
    + split; [assumption|]. repeat split; auto; try congruence; try lia.
  - inversion H; subst s' again; clear H. cbn [andb]. split; [assumption|]. repeat split.
Qed.

Lemma ahd_cons : forall b t, ahd (b :: t) = b. Proof. reflexivity. Qed.

(* the head of the retry loop: refill if the buffer is used up *)
Lemma head_spec : forall bufsz s s1 at_eof, Inv bufsz s -> r s <> runeEOF -> (0 < bufsz)%nat ->
  (if Nat.leb (length (bs s)) (bsp s)
   then let '(s1, n) := fill bufsz s in (s1, Nat.eqb n 0) else (s, false)) = (s1, at_eof) ->
  Inv bufsz s1 /\ same_abs s s1 /\
  (at_eof = true -> rem s = [] /\ bsp s1 = length (bs s1)) /\
  (at_eof = false -> exists b t, rem s = b :: t /\ nth_error (bs s1) (bsp s1) = Some b).
Proof.
  intros bufsz s s1 at_eof HI Hr Hb H.
  assert (Hle : (bsp s <= length (bs s))%nat) by (apply HI; assumption).
  destruct (Nat.leb (length (bs s)) (bsp s)) eqn:E.
  - destruct (fill bufsz s) as [s2 n] eqn:Ef. inversion H; subst s2 at_eof; clear H.
    assert (Hl : (left s < bufsz)%nat) by (unfold left; lia).
    destruct (fill_spec _ _ _ _ HI Hr Hl Ef) as (J1 & J2 & J3 & J4 & J5).
    split; [assumption|]. split; [assumption|].
    assert (Hrem : rem s1 = rem s) by apply J2.
    assert (Hr1 : r s1 <> runeEOF) by (rewrite (same_abs_r _ _ J2); assumption).
    assert (Hle1 : (bsp s1 <= length (bs s1))%nat) by (apply J1; assumption).
    split.
    + intro En. apply Nat.eqb_eq in En. destruct (J3 En) as [K1 K2].
      unfold rem in Hrem |- *. rewrite K1, K2, !app_nil_r in *.
      assert (X : skipn (bsp s) (bs s) = []) by (apply skipn_all2; lia). rewrite X in *. split; [reflexivity|].
      apply (f_equal (@length _)) in Hrem. rewrite skipn_length in Hrem. simpl in Hrem. lia.
    + intro En. apply Nat.eqb_neq in En. destruct (J4 En) as [K1 K2]. unfold left in K1.
      assert (X : (bsp s1 + 0 < length (bs s1))%nat) by lia.
      pose proof (rem_nth_in s1 0 X) as Y. rewrite Nat.add_0_r, Hrem in Y.
      destruct (rem s) as [|b t]; [simpl in Y; symmetry in Y; apply nth_error_None in Y; lia|].
      exists b, t. split; [reflexivity|]. simpl in Y. congruence.
  - inversion H; subst s1 at_eof; clear H. split; [assumption|]. split; [apply same_abs_refl|].
    split; [discriminate|]. intros _.
    assert (X : (bsp s + 0 < length (bs s))%nat) by lia.
    pose proof (rem_nth_in s 0 X) as Y. rewrite Nat.add_0_r in Y.
    destruct (rem s) as [|b t]; [simpl in Y; symmetry in Y; apply nth_error_None in Y; lia|].
    exists b, t. split; [reflexivity|]. simpl in Y. congruence.
Qed.

(* ---- the non-ASCII branch: decodeRune with its refill ------------------------------ *)
Definition adecode (rem : str) (off line col : Z) : ast :=
  let '(rr, wd) := decode_rune rem in
  if (rr =? RuneError) && Nat.eqb wd 1 then mkast [] 0 line col runeEOF 1%Z (Some (off, line, col))
  else mkast (skipn wd rem) (off + Z.of_nat wd) line col rr (Z.of_nat wd) None.

Lemma decode_loop_eq : forall fuel bufsz s, decode_loop fuel bufsz s =
  let rest := skipn (bsp s) (bs s) in
  let '(rr, wd) := decode_rune rest in
  let s := set_rw s rr (w s) in
  let again :=
    if (rr =? RuneError) && negb (full_rune rest) then
      let '(s1, n) := fill bufsz s in (s1, negb (Nat.eqb n 0))
    else (s, false) in
  let '(s1, retry) := again in
  if retry then
    match fuel with
    | O => set_bad s1 OutOfFuel
    | S f => decode_loop f bufsz s1
    end
  else
    let s2 := set_rw (set_bsp s1 (bsp s1 + wd)) (r s1) (Z.of_nat wd) in
    if (rr =? RuneError) && Nat.eqb wd 1 then err_pass s2 (raw_pos s2) else s2.
Proof. destruct fuel; reflexivity. Qed.

(* the end of the branch: consume wd bytes, report invalid UTF-8 *)
Lemma decode_finish : forall bufsz s1 rr wd, Inv bufsz s1 -> r s1 = rr -> rr <> runeEOF -> perr s1 = None ->
  (1 <= wd)%nat -> (bsp s1 + wd <= length (bs s1))%nat ->
  let s2 := set_rw (set_bsp s1 (bsp s1 + wd)) (r s1) (Z.of_nat wd) in
  let s' := if (rr =? RuneError) && Nat.eqb wd 1 then err_pass s2 (raw_pos s2) else s2 in
  Inv bufsz s' /\
  abs s' = if (rr =? RuneError) && Nat.eqb wd 1
           then mkast [] 0 (line s1) (col s1) runeEOF 1%Z (Some ((offs s1 + Z.of_nat (bsp s1))%Z, line s1, col s1))
           else mkast (skipn wd (rem s1)) (offs s1 + Z.of_nat (bsp s1) + Z.of_nat wd) (line s1) (col s1) rr (Z.of_nat wd) None.
Proof.
  intros bufsz s1 rr wd HI Hr Hne Hp Hw Hk. cbv zeta.
  assert (Hr1 : r s1 <> runeEOF) by congruence.
  destruct (adv_facts bufsz s1 wd HI Hr1 Hk) as [Q1 Q2].
  destruct ((rr =? RuneError) && Nat.eqb wd 1) eqn:E.
  - apply andb_true_iff in E. destruct E as [_ E]. apply Nat.eqb_eq in E. subst wd.
    unfold err_pass. cbn [perr set_rw set_bsp]. rewrite Hp. split.
    + destruct HI as (I0 & I1 & I2 & I3 & I4).
      repeat split; cbn [bs bsp bad r readErr readEOF rd set_rw set_bsp set_perr]; auto. intro X; exfalso; apply X; reflexivity.
    + unfold abs, raw_pos. cbn [perr r w offs bsp line col bs set_rw set_bsp set_perr].
      replace (offs s1 + Z.of_nat (bsp s1 + 1) - Z.of_nat 1)%Z with (offs s1 + Z.of_nat (bsp s1))%Z by lia. reflexivity.
  - split.
    + apply Inv_set_rw_ne; assumption.
    + unfold abs. cbn [perr r w offs bsp line col bs set_rw set_bsp]. rewrite Hp, Hr.
      replace (rr =? runeEOF) with false by lia. f_equal; [exact Q2 | lia].
Qed.

Lemma decode_loop_spec : forall fuel bufsz s, (4 <= bufsz)%nat -> Inv bufsz s -> r s <> runeEOF -> perr s = None ->
  (bsp s < length (bs s))%nat -> (5 <= left s + fuel)%nat ->
  Inv bufsz (decode_loop fuel bufsz s) /\
  abs (decode_loop fuel bufsz s) = adecode (rem s) (offs s + Z.of_nat (bsp s)) (line s) (col s).
Proof.
  induction fuel as [|f IH]; intros bufsz s Hb HI Hr Hp Hlt Hf.
  - (* fuel 0: at least 5 bytes are buffered, so the prefix is a full rune *)
    rewrite decode_loop_eq. cbv zeta.
    set (rest := skipn (bsp s) (bs s)).
    assert (Hlen : length rest = left s) by (unfold rest, left; rewrite skipn_length; reflexivity).
    assert (Hne : rest <> []) by (intro X; rewrite X in Hlen; simpl in Hlen; unfold left in *; lia).
    assert (Hfull : full_rune rest = true) by (apply full_rune_len4; lia).
    destruct (decode_rune rest) as [rr wd] eqn:Ed. rewrite Hfull, andb_false_r.
    pose proof (decode_width rest Hne) as Hw. rewrite Ed in Hw. cbn [snd] in Hw.
    pose proof (decode_not_eof rest) as Hn. rewrite Ed in Hn. cbn [fst] in Hn.
    assert (Hpre : decode_rune (rem s) = (rr, wd)).
    { unfold rem. fold rest. rewrite decode_prefix; auto. }
    assert (HI0 : Inv bufsz (set_rw s rr (w s))) by (apply Inv_set_rw_ne; assumption).
    destruct (decode_finish bufsz (set_rw s rr (w s)) rr wd HI0 eq_refl Hn Hp ltac:(lia) ltac:(cbn; unfold left in *; lia)) as [F1 F2].
    cbv zeta in F1, F2. split; [exact F1|]. rewrite F2. unfold adecode. rewrite Hpre.
    destruct ((rr =? RuneError) && Nat.eqb wd 1); reflexivity.
  - rewrite decode_loop_eq. cbv zeta.
    set (rest := skipn (bsp s) (bs s)).
    assert (Hlen : length rest = left s) by (unfold rest, left; rewrite skipn_length; reflexivity).
    assert (Hne : rest <> []) by (intro X; rewrite X in Hlen; simpl in Hlen; unfold left in *; lia).
    destruct (decode_rune rest) as [rr wd] eqn:Ed.
    pose proof (decode_width rest Hne) as Hw. rewrite Ed in Hw. cbn [snd] in Hw.
    pose proof (decode_not_eof rest) as Hn. rewrite Ed in Hn. cbn [fst] in Hn.
    set (s0 := set_rw s rr (w s)).
    assert (HI0 : Inv bufsz s0) by (apply Inv_set_rw_ne; assumption).
    assert (Hr0 : r s0 <> runeEOF) by exact Hn.
    destruct ((rr =? RuneError) && negb (full_rune rest)) eqn:Ec.
    + (* need more bytes *)
      apply andb_true_iff in Ec. destruct Ec as [Ee Enf]. apply negb_true_iff in Enf.
      assert (Hl3 : (left s < 4)%nat).
      { destruct (Nat.ltb (left s) 4) eqn:X; [apply Nat.ltb_lt in X; exact X|]. apply Nat.ltb_ge in X.
        rewrite full_rune_len4 in Enf by lia. discriminate. }
      destruct (fill bufsz s0) as [s1 n] eqn:Ef.
      assert (Hl0 : (left s0 < bufsz)%nat) by (change (left s0) with (left s); lia).
      destruct (fill_spec _ _ _ _ HI0 Hr0 Hl0 Ef) as (J1 & (B1 & B2 & B3 & B4 & B5 & B6 & B7) & J3 & J4 & J5).
      destruct (Nat.eqb n 0) eqn:En; cbn [negb].
      * (* EOF inside the rune: decode what is there *)
        apply Nat.eqb_eq in En. destruct (J3 En) as [K1 K2].
        assert (Hrem : rem s = rest) by (unfold rem; change (rd s) with (rd s0); rewrite K2, app_nil_r; reflexivity).
        assert (Hrem1 : skipn (bsp s1) (bs s1) = rest).
        { change (rem s0) with (rem s) in B1. rewrite Hrem in B1. unfold rem in B1. rewrite K1, app_nil_r in B1. exact B1. }
        assert (Hk : (bsp s1 + wd <= length (bs s1))%nat).
        { apply (f_equal (@length _)) in Hrem1. rewrite skipn_length in Hrem1. lia. }
        destruct (decode_finish bufsz s1 rr wd J1 B5 Hn ltac:(rewrite B7; exact Hp) ltac:(lia) Hk) as [F1 F2].
        cbv zeta in F1, F2. split; [exact F1|]. rewrite F2. unfold adecode. rewrite Hrem, Ed.
        change (rem s0) with (rem s) in B1. rewrite B1, Hrem, B3, B4, B2.
        destruct ((rr =? RuneError) && Nat.eqb wd 1); reflexivity.
      * apply Nat.eqb_neq in En. destruct (J4 En) as [K1 K2].
        assert (Hr1 : r s1 <> runeEOF) by (rewrite B5; exact Hn).
        destruct (IH bufsz s1 Hb J1 Hr1 ltac:(rewrite B7; exact Hp) ltac:(unfold left in K1; lia)
                     ltac:(change (left s0) with (left s) in K1; lia)) as [M1 M2].
        split; [exact M1|]. rewrite M2. change (rem s0) with (rem s) in B1. rewrite B1, B2, B3, B4. reflexivity.
    + (* the buffered bytes decide *)
      assert (Hpre : decode_rune (rem s) = (rr, wd)).
      { unfold rem. fold rest. rewrite decode_prefix; auto.
        apply andb_false_iff in Ec. destruct Ec as [X | X].
        - left. rewrite Ed. cbn [fst]. lia.
        - right. apply negb_false_iff in X. exact X. }
      destruct (decode_finish bufsz s0 rr wd HI0 eq_refl Hn Hp ltac:(lia) ltac:(cbn; unfold left in *; lia)) as [F1 F2].
      cbv zeta in F1, F2. split; [exact F1|]. rewrite F2. unfold adecode. rewrite Hpre.
      destruct ((rr =? RuneError) && Nat.eqb wd 1); reflexivity.
Qed.

Lemma ascii_tl : forall b t, ascii (b :: t) -> b < 128 /\ ascii t.
Proof. intros b t H. inversion H; subst. split; assumption. Qed.

Lemma S_add1 : forall n, S n = (n + 1)%nat. Proof. intros; lia. Qed.

Ltac fin Hp :=
  unfold abs, aret; cbn [perr r w offs bsp line col set_col set_rw set_bsp set_line bs];
  rewrite ?Hp; cbn [perr r w offs bsp line col set_col set_rw set_bsp set_line bs];
  repeat match goal with |- context[?x =? runeEOF] => first [replace (x =? runeEOF) with false by lia | replace (x =? runeEOF) with true by reflexivity] end;
  f_equal; try congruence; try lia.

Lemma rune_loop_spec : forall fuel bufsz obq obqd bq s A, (4 <= bufsz)%nat ->
  Inv bufsz s -> r s <> runeEOF -> perr s = None ->
  (length (rem s) < fuel)%nat ->
  a_line A = line s -> a_r A = r s -> a_err A = None ->
  Inv bufsz (rune_loop fuel bufsz obq obqd bq s) /\
  abs (rune_loop fuel bufsz obq obqd bq s) = aloop obq obqd bq (rem s) (offs s + Z.of_nat (bsp s)) (col s) A.
Proof.
  induction fuel as [|f IH]; intros bufsz obq obqd bq s A Hb HI Hr Hp Hf AL AR AE; [lia|].
  cbn [rune_loop].
  destruct (if Nat.leb (length (bs s)) (bsp s) then let '(s1, n) := fill bufsz s in (s1, Nat.eqb n 0) else (s, false))
    as [s1 at_eof] eqn:Eh.
  destruct (head_spec bufsz s s1 at_eof HI Hr ltac:(lia) Eh) as (J1 & (B1 & B2 & B3 & B4 & B5 & B6 & B7) & J3 & J4).
  assert (Hr1 : r s1 <> runeEOF) by congruence.
  assert (Hp1 : perr s1 = None) by congruence.
  destruct at_eof.
  - destruct (J3 eq_refl) as [K1 K2]. rewrite K1. cbn [aloop]. split; [apply Inv_eof; assumption|].
    unfold abs, aret; cbn [perr r w offs bsp line col set_col set_rw set_bsp set_line bs]. rewrite Hp1.
    cbn. f_equal; try congruence. lia.
  - destruct (J4 eq_refl) as (b & t & K1 & K2). rewrite K2. rewrite K1 in *.
    cbn [aloop].
    destruct (b <? 128) eqn:Eb128.
    2:{ (* non-ASCII: decodeRune *)
      assert (Hlt1 : (bsp s1 < length (bs s1))%nat).
      { assert (X : nth_error (bs s1) (bsp s1) <> None) by congruence. apply nth_error_Some in X. exact X. }
      destruct (decode_loop_spec 4 bufsz s1 Hb J1 Hr1 Hp1 Hlt1 ltac:(unfold left; lia)) as [M1 M2].
      split; [exact M1|]. rewrite M2. unfold adecode. rewrite B1, B2, B3, B4, AE.
      destruct (decode_rune (b :: t)) as [rr wd].
      destruct ((rr =? RuneError) && Nat.eqb wd 1); unfold aret; rewrite ?AL, ?AE; reflexivity. }
    assert (Hk : (bsp s1 + 1 <= length (bs s1))%nat).
    { assert (nth_error (bs s1) (bsp s1) <> None) by congruence. apply nth_error_Some in H. lia. }
    destruct (adv_facts bufsz s1 1 J1 Hr1 Hk) as [L1 L2]. rewrite <- S_add1 in L1, L2.
    rewrite B1 in L2. cbn [skipn] in L2.
    set (s2 := set_bsp s1 (S (bsp s1))) in *.
    assert (Hr2 : r s2 <> runeEOF) by exact Hr1.
    assert (O2 : (offs s2 + Z.of_nat (bsp s2) = offs s + Z.of_nat (bsp s) + 1)%Z) by (unfold s2; cbn; lia).
    assert (C2 : col s2 = col s) by (unfold s2; cbn; congruence).
    assert (P2 : perr s2 = None) by exact Hp1.
    assert (LN2 : line s2 = line s) by (unfold s2; cbn; congruence).
    assert (R2 : r s2 = r s) by (unfold s2; cbn; congruence).
    destruct (b =? 0) eqn:E0.
    { (* NUL *)
      destruct (IH bufsz obq obqd bq (set_col s2 (col s2 + 1)) A Hb ltac:(apply Inv_set_col; exact L1) Hr2 P2) as [M1 M2];
        try (change (rem (set_col s2 (col s2 + 1))) with (rem s2); rewrite L2); auto; try (simpl in Hf; lia);
        try (cbn; congruence).
      split; [exact M1|]. rewrite M2. cbn [set_col offs bsp col]. rewrite C2. f_equal; try lia; exact L2. }
    cbn [andb].
    destruct (b =? 13) eqn:E13.
    { (* CR *)
      cbn [andb]. destruct (peek bufsz s2) as [s3 p1] eqn:Ep.
      destruct (peek_spec _ _ _ _ L1 Hr2 ltac:(lia) Ep) as (N1 & (C1 & C3 & C4 & C5 & C6 & C7 & C8) & N3 & _).
      rewrite L2 in N3. rewrite <- N3.
      destruct (p1 =? 10) eqn:E10.
      - destruct (IH bufsz obq obqd bq (set_col s3 (col s3 + 1)) A Hb ltac:(apply Inv_set_col; exact N1) ltac:(cbn; congruence) ltac:(cbn; congruence)) as [M1 M2];
          try (change (rem (set_col s3 (col s3 + 1))) with (rem s3); rewrite C1, L2); auto; try (simpl in Hf; lia);
          try (cbn; congruence).
        split; [exact M1|]. rewrite M2. cbn [set_col offs bsp col]. f_equal; try lia; change (rem s3 = t); rewrite C1; exact L2.
      - replace (b =? 92) with false by lia. cbn [andb].
        split; [apply Inv_set_rw_ne; [exact N1 | congruence]|]. assert (b = 13) by lia. subst b.
        assert (P3 : perr s3 = None) by congruence.
        unfold abs, aret; cbn [perr r w offs bsp line col set_rw]. rewrite P3. cbn.
        f_equal; try congruence; try lia. change (rem s3 = t). rewrite C1. exact L2. }
    destruct (b =? 92) eqn:E92.
    2:{ (* plain byte *)
      cbn [andb]. split; [apply Inv_set_rw_ne; [exact L1 | exact Hr2]|].
      unfold abs, aret; cbn [perr r w offs bsp line col set_rw]. rewrite P2.
      replace (b =? runeEOF) with false by (unfold runeEOF; lia).
      f_equal; try congruence; try lia. exact L2. }
    (* backslash *)
    cbn [andb]. rewrite AR. rewrite R2.
    destruct (r s =? 92) eqn:Er92.
    { cbn [negb andb].
      destruct (bs_tail bufsz obq obqd bq s2) as [s3 again] eqn:Et.
      destruct (bs_tail_spec _ _ _ _ _ _ _ L1 Hr2 ltac:(lia) Et) as (T0 & T1 & T2 & T3 & T4 & T5 & T6 & T7 & T8).
      rewrite L2 in T8. rewrite <- T8.
      destruct again.
      - destruct (IH bufsz obq obqd (S bq) s3 A Hb T0 ltac:(congruence) ltac:(congruence)) as [M1 M2];
          try (rewrite T1, L2); auto; try (simpl in Hf; lia); try congruence.
        split; [exact M1|]. rewrite M2. f_equal; try lia; rewrite T1; exact L2.
      - split; [apply Inv_set_rw_ne; [exact T0 | congruence]|]. assert (b = 92) by lia. subst b.
        assert (P3 : perr s3 = None) by congruence.
        unfold abs, aret; cbn [perr r w offs bsp line col set_rw]. rewrite P3. cbn.
        f_equal; try congruence; try lia. change (rem s3 = t). rewrite T1. exact L2. }
    cbn [negb andb].
    destruct (peek bufsz s2) as [s3 p1] eqn:Ep.
    destruct (peek_spec _ _ _ _ L1 Hr2 ltac:(lia) Ep) as (N1 & (C1 & C3 & C4 & C5 & C6 & C7 & C8) & N3 & N4).
    rewrite L2 in N3, N4. rewrite <- N3.
    assert (Hr3 : r s3 <> runeEOF) by congruence.
    assert (P3 : perr s3 = None) by congruence.
    destruct (p1 =? 10) eqn:E10.
    { (* backslash newline *)
      destruct t as [|t0 t']; [cbn in N3; subst p1; discriminate|].
      specialize (N4 ltac:(discriminate)).
      destruct (adv_facts bufsz s3 1 N1 Hr3 ltac:(lia)) as [Q1 Q2]. rewrite <- S_add1 in Q1, Q2.
      rewrite C1, L2 in Q2. cbn [skipn] in Q2.
      split; [apply Inv_set_rw_ne; [exact Q1 | exact Hr3]|].
      unfold abs, aret; cbn [perr r w offs bsp line col set_rw set_bsp]. rewrite P3. cbn [tl].
      replace (escNewl =? runeEOF) with false by reflexivity.
      f_equal; try congruence; try lia; exact Q2. }
    destruct (peekTwo bufsz s3) as [[s4 q1] q2] eqn:Eq.
    destruct (peekTwo_spec _ _ _ _ _ N1 Hr3 ltac:(lia) Eq) as (U1 & (D1 & D2 & D3 & D4 & D5 & D6 & D7) & U3).
    rewrite C1, L2 in U3.
    assert (Hr4 : r s4 <> runeEOF) by congruence.
    assert (P4 : perr s4 = None) by congruence.
    assert (Hq : ((q1 =? 13) && (q2 =? 10)) = ((ahd t =? 13) && (ahd (tl t) =? 10))).
    { destruct t as [|x [|y t']]; inversion U3; subst; cbn; reflexivity. }
    rewrite <- N3 in Hq. assert (p1 = ahd t) by exact N3.
    rewrite <- Hq. replace (ahd t =? 13) with (q1 =? 13).
    2:{ destruct t as [|x [|y t']]; inversion U3; subst; reflexivity. }
    destruct ((q1 =? 13) && (q2 =? 10)) eqn:Ecr.
    { (* backslash CR LF *)
      apply andb_true_iff in Ecr. destruct Ecr as [Eq1 Eq2].
      destruct t as [|x [|y t']]; inversion U3; subst; try discriminate.
      assert (G : (bsp s4 + 2 <= length (bs s4))%nat).
      { destruct (Nat.ltb (bsp s4 + 1) (length (bs s4))) eqn:EE; [lia|]. exfalso.
        assert (rem s4 = x :: y :: t') by (rewrite D1, C1; exact L2).
        unfold rem in H0.
        (* at least two bytes must be buffered: peekTwo returned them from the buffer *)
        unfold peekTwo in Eq. destruct (ensure 2 bufsz 1 s3) as [s5 ok] eqn:Ee.
        destruct (ensure_spec 2 bufsz 1 s3 s5 ok N1 Hr3 ltac:(lia) ltac:(unfold left; pose proof (proj1 (proj2 (proj2 N1)) Hr3); lia) Ee) as (V1 & V2 & V3 & V4).
        destruct ok.
        - specialize (V3 eq_refl).
          destruct (nth_error (bs s5) (bsp s5)); [destruct (nth_error (bs s5) (bsp s5 + 1))|]; inversion Eq; subst; lia.
        - destruct (V4 eq_refl) as [W1 W2].
          assert (nth_error (bs s5) (bsp s5 + 1) = None) by (apply nth_error_None; lia).
          rewrite H1 in Eq.
          destruct (nth_error (bs s5) (bsp s5)); inversion Eq; subst; discriminate. }
      destruct (adv_facts bufsz s4 2 U1 Hr4 G) as [Q1 Q2].
      rewrite D1, C1, L2 in Q2. cbn [skipn] in Q2.
      split; [apply Inv_set_rw_ne; [exact Q1 | exact Hr4]|].
      unfold abs, aret; cbn [perr r w offs bsp line col set_rw set_bsp]. rewrite P4. cbn [tl].
      replace (escNewl =? runeEOF) with false by reflexivity.
      f_equal; try congruence; try lia; exact Q2. }
    (* plain backslash: bs_tail *)
    destruct (bs_tail bufsz obq obqd bq s4) as [s5 again] eqn:Et.
    destruct (bs_tail_spec _ _ _ _ _ _ _ U1 Hr4 ltac:(lia) Et) as (T0 & T1 & T2 & T3 & T4 & T5 & T6 & T7 & T8).
    rewrite D1, C1, L2 in T8. rewrite <- N3 in T8. cbn [negb andb]. rewrite <- T8.
    clear Hq U3 T8 Ecr.
    assert (X1 : r s5 <> runeEOF) by (rewrite T4; exact Hr4).
    assert (X2 : perr s5 = None) by (rewrite T6; exact P4).
    assert (X3 : rem s5 = t) by (rewrite T1, D1, C1; exact L2).
    assert (X4 : a_line A = line s5) by (rewrite T3, D3, C4, LN2; exact AL).
    assert (X5 : a_r A = r s5) by (rewrite T4, D5, C6, R2; exact AR).
    assert (X6 : (offs s5 + Z.of_nat (bsp s5) = offs s + Z.of_nat (bsp s) + 1)%Z) by lia.
    destruct again.
    + destruct (IH bufsz obq obqd (S bq) s5 A Hb T0 X1 X2) as [M1 M2]; try assumption.
      * rewrite X3. simpl in Hf. lia.
      * split; [exact M1|]. rewrite M2. rewrite X3. f_equal; lia.
    + split; [apply Inv_set_rw_ne; [exact T0 | exact X1]|]. assert (b = 92) by lia. subst b.
      unfold abs, aret; cbn [perr r w offs bsp line col set_rw]. rewrite X2.
      replace (92 =? runeEOF) with false by reflexivity.
      f_equal; try assumption; try lia; try (symmetry; assumption).
Qed.

(* the parser stops at the first error: an error is always accompanied by r = runeEOF *)
Lemma aloop_err : forall obq obqd rem bq off c A, a_err A = None ->
  a_err (aloop obq obqd bq rem off c A) = None \/ a_r (aloop obq obqd bq rem off c A) = runeEOF.
Proof.
  induction rem as [|b t IH]; intros bq off c A He.
  - cbn. left. exact He.
  - cbn [aloop]. destruct (b <? 128).
    + repeat match goal with
      | |- context[if ?c then _ else _] => destruct c
      end; try (apply IH; exact He); cbn; left; exact He.
    + destruct (decode_rune (b :: t)) as [rr wd]. rewrite He.
      destruct ((rr =? RuneError) && Nat.eqb wd 1); cbn; [right; reflexivity | left; exact He].
Qed.

Lemma arune_err : forall obq obqd a, a_err a = None ->
  a_err (arune obq obqd a) = None \/ a_r (arune obq obqd a) = runeEOF.
Proof.
  intros obq obqd a He. unfold arune. destruct (a_r a =? runeEOF); [left; exact He|].
  destruct ((a_r a =? 10) || (a_r a =? escNewl)); apply aloop_err; reflexivity || exact He.
Qed.

Lemma observe_abs : forall s, observe s = aobserve (abs s).
Proof. intro s. unfold observe, aobserve, abs, raw_pos. destruct (perr s); reflexivity. Qed.

Lemma r_abs : forall s, a_r (abs s) = r s.
Proof. intro s. unfold abs. destruct (perr s); reflexivity. Qed.

Lemma err_abs : forall s, a_err (abs s) = perr s.
Proof. intro s. unfold abs. destruct (perr s); reflexivity. Qed.

(* one rune() call of the buffered reader = one step of the Spec reader, for every byte input *)
Lemma rune_spec : forall bufsz obq obqd s, (4 <= bufsz)%nat -> Inv bufsz s -> perr s = None ->
  Inv bufsz (rune bufsz obq obqd s) /\ abs (rune bufsz obq obqd s) = arune obq obqd (abs s).
Proof.
  intros bufsz obq obqd s Hb HI Hp. unfold rune, arune. rewrite r_abs.
  destruct (r s =? runeEOF) eqn:Er; [split; [assumption | reflexivity]|].
  assert (Hr : r s <> runeEOF) by lia.
  assert (Eabs : abs s = mkast (rem s) (offs s + Z.of_nat (bsp s)) (line s) (col s) (r s) (w s) None).
  { unfold abs. rewrite Hp. replace (r s =? runeEOF) with false by lia. reflexivity. }
  rewrite Eabs. cbn [a_r a_line a_col a_w a_rem a_off a_err].
  destruct ((r s =? 10) || (r s =? escNewl)) eqn:Enl.
  - set (s0 := set_col (set_line s (line s + 1)) 1).
    assert (I0 : Inv bufsz s0) by exact HI.
    destruct (rune_loop_spec (length (rd_src (rd s0)) + length (bs s0) + 2) bufsz obq obqd 0 s0
                (mkast (rem s) (offs s + Z.of_nat (bsp s)) (line s + 1) 1 (r s) (w s) None) Hb I0 Hr Hp) as [M1 M2];
      try reflexivity.
    { unfold rem. rewrite app_length, skipn_length. cbn. lia. }
    split; [exact M1 | exact M2].
  - set (s0 := set_col s (col s + w s)).
    assert (I0 : Inv bufsz s0) by exact HI.
    destruct (rune_loop_spec (length (rd_src (rd s0)) + length (bs s0) + 2) bufsz obq obqd 0 s0
                (mkast (rem s) (offs s + Z.of_nat (bsp s)) (line s) (col s + w s) (r s) (w s) None) Hb I0 Hr Hp) as [M1 M2];
      try reflexivity.
    { unfold rem. rewrite app_length, skipn_length. cbn. lia. }
    split; [exact M1 | exact M2].
Qed.

Lemma rune_stream_spec : forall fuel bufsz obq obqd s, (4 <= bufsz)%nat -> Inv bufsz s -> perr s = None ->
  rune_stream fuel bufsz obq obqd s = arune_stream fuel obq obqd (abs s).
Proof.
  induction fuel as [|f IH]; intros bufsz obq obqd s Hb HI Hp; [reflexivity|].
  cbn [rune_stream arune_stream].
  destruct (rune_spec bufsz obq obqd s Hb HI Hp) as [M1 M2].
  rewrite <- M2, r_abs, <- observe_abs.
  destruct (r (rune bufsz obq obqd s) =? runeEOF) eqn:E; [reflexivity|].
  f_equal. apply IH; try assumption.
  destruct (arune_err obq obqd (abs s)) as [N | N].
  - rewrite err_abs. exact Hp.
  - rewrite <- M2, err_abs in N. exact N.
  - rewrite <- M2, r_abs in N. rewrite N in E. discriminate.
Qed.

(* C07_rune_stream: for EVERY input, schedule, EOF style and buffer size >= 4 the buffered reader
   produces the rune stream of the Spec reader *)
Theorem rune_stream_all : forall bufsz obq obqd input sched eager, (4 <= bufsz)%nat ->
  trace bufsz obq obqd input sched eager = atrace obq obqd input.
Proof.
  intros bufsz obq obqd input sched eager Hb. unfold trace, atrace.
  rewrite rune_stream_spec; try assumption; try reflexivity. apply Inv_init.
Qed.

Corollary rune_stream_schedule_free : forall bufsz obq obqd input sched eager sched' eager', (4 <= bufsz)%nat ->
  trace bufsz obq obqd input sched eager = trace bufsz obq obqd input sched' eager'.
Proof. intros. rewrite !rune_stream_all by assumption. reflexivity. Qed.
