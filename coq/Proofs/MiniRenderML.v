(* Proofs/MiniRenderML.v — the default-mode state machine of Syntax/MiniPrinterML.v, run on the
   canonical positions of a well-formed tree, computes a compositional multi-line rendering
   (R_file): every body statement on its own line at the depth of its newline-started
   nesting, closing words on their own lines, a single-statement condition inline. *)
From Verif Require Import Base.Str Syntax.Word Syntax.MiniAst Syntax.MiniPrinter Syntax.MiniPos
  Syntax.MiniPrinterML Proofs.MiniRender.
Require Import ZifyNat ZifyBool.
Open Scope N_scope.

Definition nl (ind d : nat) : str := s_nl ++ indent_bytes ind d.

Fixpoint R_cmd (ind d : nat) (c : cmd) : str :=
  match c with
  | Call args => r_words args
  | Block ss => s_lbrace ++ R_lines ind (S d) ss ++ nl ind d ++ s_rbrace
  | Subshell ss => s_lparen ++ R_lines ind (S d) ss ++ nl ind d ++ s_rparen
  | IfClause c t e => kw_if ++ R_cond ind d c ++ kw_then ++ R_lines ind (S d) t ++ R_else ind d e
  | WhileClause u c b =>
      (if u then kw_until else kw_while) ++ R_cond ind d c ++ kw_do ++ R_lines ind (S d) b ++ nl ind d ++ kw_done
  | Binary op x y => R_stmt ind d x ++ s_sp ++ op_string op ++ s_sp ++ R_stmt ind d y
  end
with R_stmt (ind d : nat) (s : stmt) : str :=
  match s with
  | Stmt n c b => (if n then s_bang ++ s_sp else []) ++ R_cmd ind d c ++ (if b then s_sp ++ s_amp else [])
  end
(* statements at depth k, each after a newline and its indentation *)
with R_lines (ind k : nat) (ss : stmts) : str :=
  match ss with
  | SNil => []
  | SCons s rest => nl ind k ++ R_stmt ind k s ++ R_lines ind k rest
  end
(* between if / elif / while and then / do *)
with R_cond (ind d : nat) (ss : stmts) : str :=
  match ss with
  | SNil => []
  | SCons s rest =>
      match rest with
      | SNil => s_sp ++ R_stmt ind d s ++ (if stmt_bg s then [] else s_semi) ++ s_sp
      | _ => nl ind (S d) ++ R_stmt ind (S d) s ++ R_lines ind (S d) rest ++ nl ind d
      end
  end
with R_else (ind d : nat) (e : else_) : str :=
  match e with
  | NoElse => nl ind d ++ kw_fi
  | Elif c t e' => nl ind d ++ kw_elif ++ R_cond ind d c ++ kw_then ++ R_lines ind (S d) t ++ R_else ind d e'
  | Else t => nl ind d ++ kw_else ++ R_lines ind (S d) t ++ nl ind d ++ kw_fi
  end.

Definition R_file (ind : nat) (t : file) : str :=
  match t with
  | SNil => s_nl
  | SCons s rest => R_stmt ind 0 s ++ R_lines ind 0 rest ++ s_nl
  end.

(* ------------------------------------------------------------------ facts about canon *)
Lemma canon_facts :
  (forall c l pc e, canon_cmd l c = (pc, e) -> pcmd_line pc = l /\ (l <= e)%nat /\ erase_cmd pc = c) /\
  (forall s l ps e, canon_stmt l s = (ps, e) ->
     pstmt_line ps = l /\ pstmt_end ps = e /\ (l <= e)%nat /\ erase_stmt ps = s) /\
  (forall ss, (forall l prev pss e, canon_lines l ss prev = (pss, e) ->
     erase_stmts pss = ss /\ pslen pss = slen ss /\
     (ss <> SNil -> pfirst_line pss = l /\ plast_end pss = e /\ (l <= e)%nat)) /\
     (forall l pss e, canon_cond l ss = (pss, e) -> erase_stmts pss = ss /\ pslen pss = slen ss /\ (l <= e)%nat)) /\
  (forall el l pe fil, canon_else l el = (pe, fil) -> (l <= fil)%nat /\ erase_else pe = el /\ pelse_line pe = l).
Proof.
  apply mini_mutind.
  - intros args l pc e H. cbn in H. inversion H; subst. cbn. auto.
  - intros ss (IH & _) l pc e H. cbn [canon_cmd] in H.
    destruct (canon_lines (S l) ss l) as [pss e1] eqn:E. inversion H; subst.
    destruct (IH _ _ _ _ E) as (A & B & C). cbn. rewrite A. split; [reflexivity|]. split; [|reflexivity].
    destruct ss; [cbn in E; inversion E; lia|]. destruct C as (_ & _ & C); [discriminate|lia].
  - intros ss (IH & _) l pc e H. cbn [canon_cmd] in H.
    destruct (canon_lines (S l) ss l) as [pss e1] eqn:E. inversion H; subst.
    destruct (IH _ _ _ _ E) as (A & B & C). cbn. rewrite A. split; [reflexivity|]. split; [|reflexivity].
    destruct ss; [cbn in E; inversion E; lia|]. destruct C as (_ & _ & C); [discriminate|lia].
  - intros c (_ & IHc) t (IHt & _) el IHe l pc e H. cbn [canon_cmd] in H.
    destruct (canon_cond l c) as [pcd thenl] eqn:E1.
    destruct (canon_lines (S thenl) t thenl) as [pt et] eqn:E2.
    destruct (canon_else (S et) el) as [pe fil] eqn:E3. inversion H; subst.
    destruct (IHc _ _ _ E1) as (A1 & _ & C1). destruct (IHt _ _ _ _ E2) as (A2 & _ & C2).
    destruct (IHe _ _ _ E3) as (A3 & B3 & _). cbn. rewrite A1, A2, B3. split; [reflexivity|]. split; [|reflexivity].
    destruct t; [cbn in E2; inversion E2; lia|]. destruct C2 as (_ & _ & C2); [discriminate|lia].
  - intros u c (_ & IHc) b (IHb & _) l pc e H. cbn [canon_cmd] in H.
    destruct (canon_cond l c) as [pcd dol] eqn:E1.
    destruct (canon_lines (S dol) b dol) as [pb eb] eqn:E2. inversion H; subst.
    destruct (IHc _ _ _ E1) as (A1 & _ & C1). destruct (IHb _ _ _ _ E2) as (A2 & _ & C2).
    cbn. rewrite A1, A2. split; [reflexivity|]. split; [|reflexivity].
    destruct b; [cbn in E2; inversion E2; lia|]. destruct C2 as (_ & _ & C2); [discriminate|lia].
  - intros op x IHx y IHy l pc e H. cbn [canon_cmd] in H.
    destruct (canon_stmt l x) as [px ex] eqn:E1. destruct (canon_stmt ex y) as [py ey] eqn:E2. inversion H; subst.
    destruct (IHx _ _ _ E1) as (A1 & B1 & C1 & D1). destruct (IHy _ _ _ E2) as (A2 & B2 & C2 & D2).
    cbn. rewrite D1, D2. split; [assumption|]. split; [lia|reflexivity].
  - intros n c IHc b l ps e H. cbn [canon_stmt] in H. destruct (canon_cmd l c) as [pc e1] eqn:E. inversion H; subst.
    destruct (IHc _ _ _ E) as (A & B & C). cbn. rewrite C. auto.
  - split.
    + intros l prev pss e H. cbn in H. inversion H; subst. cbn. split; [reflexivity|]. split; [reflexivity|]. congruence.
    + intros l pss e H. cbn in H. inversion H; subst. cbn. split; [reflexivity|]. split; [reflexivity|]. lia.
  - intros s IHs rest (IHr & _). split.
    + intros l prev pss e H. cbn [canon_lines] in H.
      destruct (canon_stmt l s) as [ps e1] eqn:E1. destruct (canon_lines (S e1) rest e1) as [pr e2] eqn:E2.
      inversion H; subst. destruct (IHs _ _ _ E1) as (A1 & B1 & C1 & D1). destruct (IHr _ _ _ _ E2) as (A2 & B2 & C2).
      cbn [erase_stmts pslen slen pfirst_line]. rewrite D1, A2, B2. split; [reflexivity|]. split; [reflexivity|].
      intros _. split; [assumption|].
      destruct rest as [|s1 r].
      * cbn in E2. inversion E2; subst. cbn. auto.
      * destruct C2 as (F1 & F2 & F3); [discriminate|].
        destruct pr as [|p1 pr']; [cbn in B2; discriminate|]. cbn [plast_end] in *. split; [exact F2|lia].
    + intros l pss e H. cbn [canon_cond] in H. destruct rest as [|s1 r].
      * destruct (canon_stmt l s) as [ps e1] eqn:E1. inversion H; subst.
        destruct (IHs _ _ _ E1) as (A1 & B1 & C1 & D1). cbn. rewrite D1. auto.
      * destruct (canon_stmt (S l) s) as [ps e1] eqn:E1.
        destruct (canon_lines (S e1) (SCons s1 r) e1) as [pr e2] eqn:E2. inversion H; subst.
        destruct (IHs _ _ _ E1) as (A1 & B1 & C1 & D1). destruct (IHr _ _ _ _ E2) as (A2 & B2 & C2).
        destruct C2 as (F1 & F2 & F3); [discriminate|].
        cbn [erase_stmts pslen slen]. rewrite D1, A2, B2. split; [reflexivity|]. split; [reflexivity|]. lia.
  - intros l pe fil H. cbn in H. inversion H; subst. cbn. auto.
  - intros c (_ & IHc) t (IHt & _) el IHe l pe fil H. cbn [canon_else] in H.
    destruct (canon_cond l c) as [pcd thenl] eqn:E1.
    destruct (canon_lines (S thenl) t thenl) as [pt et] eqn:E2.
    destruct (canon_else (S et) el) as [pe1 fil1] eqn:E3. inversion H; subst.
    destruct (IHc _ _ _ E1) as (A1 & _ & C1). destruct (IHt _ _ _ _ E2) as (A2 & _ & C2).
    destruct (IHe _ _ _ E3) as (A3 & B3 & _). cbn. rewrite A1, A2, B3. split; [|auto].
    destruct t; [cbn in E2; inversion E2; lia|]. destruct C2 as (_ & _ & C2); [discriminate|lia].
  - intros t (IHt & _) l pe fil H. cbn [canon_else] in H.
    destruct (canon_lines (S l) t l) as [pt et] eqn:E2. inversion H; subst.
    destruct (IHt _ _ _ _ E2) as (A2 & _ & C2). cbn. rewrite A2. split; [|auto].
    destruct t; [cbn in E2; inversion E2; lia|]. destruct C2 as (_ & _ & C2); [discriminate|lia].
Qed.

(* ------------------------------------------------------------------ primitive steps *)
Local Arguments Nat.eqb : simpl never.
Local Arguments Nat.leb : simpl never.
Local Arguments Nat.ltb : simpl never.
Local Arguments Nat.max : simpl never.
Local Arguments Nat.mul : simpl never.

Definition mlead (p : mst) : str := if is_required (m_ws p) then s_sp else [].
Definition post_incs (p : mst) : list bool :=
  if Nat.eqb (m_level p) (m_last p) then m_incs p else false :: tl (m_incs p).
Definition lv_ok (d : nat) (p : mst) : Prop :=
  m_last p = d /\ (m_level p = d \/ (m_level p = S d /\ exists t, m_incs p = true :: t)).
Definition Pre (d l : nat) (p : mst) : Prop :=
  lv_ok d p /\ m_line p = l /\ m_wn p = false /\ m_first p = false /\ m_nb p = false.

Lemma leb_Sn_n : forall n, Nat.leb (S n) n = false.
Proof. intros. apply Nat.leb_gt. lia. Qed.
Lemma eqb_Sn_n : forall n, Nat.eqb (S n) n = false.
Proof. intros. apply Nat.eqb_neq. lia. Qed.
Lemma ltb_n_Sn : forall n, Nat.ltb n (S n) = true.
Proof. intros. apply Nat.ltb_lt. lia. Qed.
Lemma ltb_Sn_Sn : forall n, Nat.ltb (S n) (S n) = false.
Proof. intros. apply Nat.ltb_irrefl. Qed.
Lemma max_n_Sn : forall n, Nat.max n (S n) = S n.
Proof. intros. lia. Qed.

Ltac mred := cbv beta iota delta [mwr mset_ws mset_wn mset_semi mset_first mset_line mset_levels mset_nb
  m_out m_ws m_wn m_semi m_first m_line m_level m_last m_incs m_nb].

Ltac natb := rewrite ?Nat.leb_refl, ?Nat.eqb_refl, ?leb_Sn_n, ?eqb_Sn_n, ?ltb_n_Sn, ?ltb_Sn_Sn, ?Nat.ltb_irrefl,
  ?max_n_Sn, ?Nat.max_id.

Lemma incLevel_ok : forall d p, lv_ok d p -> incLevel p = mset_levels (S d) d (true :: post_incs p) p.
Proof.
  intros d p (HL & [HA | (HB & t & Ht)]); destruct p as [o ws wn sm fl ln lv la incs nb]; simpl in *; subst.
  - unfold incLevel, post_incs. mred. natb. reflexivity.
  - unfold incLevel, post_incs. mred. natb. reflexivity.
Qed.

Lemma mnewlines_nl : forall ind posl p, m_first p = false -> posl = S (m_line p) ->
  mnewlines ind posl p =
  mkM (m_out p ++ nl ind (m_level p)) SpWritten false (m_semi p) false posl (m_level p) (m_level p) (m_incs p) (m_nb p).
Proof.
  intros ind posl p Hf ->. destruct p as [o ws wn sm fl ln lv la incs nb]; simpl in *; subst.
  unfold mnewlines, wantsNewline, advanceLine, mindent, nl. mred. natb. rewrite orb_true_r. cbn [negb]. mred. natb.
  rewrite <- app_assoc. reflexivity.
Qed.

Lemma mnewlines_id : forall ind posl p, m_first p = false -> m_wn p = false -> (posl <= m_line p)%nat ->
  mnewlines ind posl p = p.
Proof.
  intros ind posl p Hf Hw Hl. destruct p as [o ws wn sm fl ln lv la incs nb]; simpl in *; subst.
  unfold mnewlines, wantsNewline. mred. replace (Nat.ltb ln posl) with false; [reflexivity|].
  symmetry. apply Nat.ltb_ge. assumption.
Qed.

Lemma msemiRsrv_nl : forall ind s posl p, m_first p = false -> posl = S (m_line p) ->
  msemiRsrv ind s posl p =
  mkM (m_out p ++ nl ind (m_level p) ++ s) SpRequired false (m_semi p) false posl (m_level p) (m_level p) (m_incs p) (m_nb p).
Proof.
  intros ind s posl p Hf Hp. unfold msemiRsrv.
  replace (wantsNewline posl p) with true.
  - rewrite (mnewlines_nl ind posl p Hf Hp). mred. rewrite <- app_assoc. reflexivity.
  - subst posl. unfold wantsNewline. natb. rewrite orb_true_r. reflexivity.
Qed.

Lemma msemiOrNewl_nl : forall ind s posl p, m_wn p = true -> posl = S (m_line p) ->
  msemiOrNewl ind s posl p =
  mkM (m_out p ++ nl ind (m_level p) ++ s) SpRequired false (m_semi p) (m_first p) posl (m_level p) (m_level p) (m_incs p) (m_nb p).
Proof.
  intros ind s posl p Hw ->. destruct p as [o ws wn sm fl ln lv la incs nb]; simpl in *; subst.
  unfold msemiOrNewl, wantsNewline, mnewline, advanceLine, mindent, nl. mred. cbn [orb]. mred. natb.
  rewrite <- !app_assoc. reflexivity.
Qed.

Lemma msemiOrNewl_semi : forall ind s posl p, m_wn p = false -> (m_line p <= posl)%nat ->
  msemiOrNewl ind s posl p =
  mkM (m_out p ++ (if m_semi p then [] else s_semi) ++ s_sp ++ s) SpRequired false (m_semi p) (m_first p) posl
      (m_level p) (m_last p) (m_incs p) (m_nb p).
Proof.
  intros ind s posl p Hw Hl. destruct p as [o ws wn sm fl ln lv la incs nb]; simpl in *; subst.
  unfold msemiOrNewl, wantsNewline, advanceLine, mspace. mred. rewrite Nat.ltb_irrefl || idtac.
  replace (Nat.ltb ln 0) with false by (symmetry; apply Nat.ltb_ge; lia). cbn [orb].
  destruct sm; mred; replace (Nat.max ln posl) with posl by lia; rewrite <- ?app_assoc; reflexivity.
Qed.

Lemma mspacedString_eq : forall s p,
  mspacedString s p =
  mkM (m_out p ++ mlead p ++ s) SpRequired (m_wn p) (m_semi p) (m_first p) (m_line p) (m_level p) (m_last p) (m_incs p) (m_nb p).
Proof.
  intros s p. destruct p as [o ws wn sm fl ln lv la incs nb].
  unfold mspacedString, mspacePad, mlead. destruct ws; mred; cbn [is_required]; mred; rewrite <- ?app_assoc, ?app_nil_l; reflexivity.
Qed.

Lemma mwordJoin_eq : forall ws p, ws <> [] ->
  mwordJoin ws p =
  mkM (m_out p ++ mlead p ++ r_words ws) SpRequired (m_wn p) (m_semi p) (m_first p) (m_line p) (m_level p) (m_last p) (m_incs p) (m_nb p).
Proof.
  induction ws as [|w rest IH]; intros p Hne; [congruence|]. cbn [mwordJoin r_words].
  destruct rest as [|w2 r].
  - destruct p as [o ws wn sm fl ln lv la incs nb]. unfold mspacePad, mlead. cbn [mwordJoin].
    destruct ws; mred; cbn [is_required]; mred; rewrite <- ?app_assoc, ?app_nil_r, ?app_nil_l; reflexivity.
  - rewrite IH by discriminate. destruct p as [o ws wn sm fl ln lv la incs nb]. unfold mspacePad, mlead.
    destruct ws; mred; cbn [is_required]; mred; rewrite <- ?app_assoc, ?app_nil_l; reflexivity.
Qed.

(* ------------------------------------------------------------------ the machine on canonical positions *)
(* after a command the level is either back at d, or (a simple command in a condition) still
   carries the increment of the enclosing nestedStmts, which stmt's own incLevel takes over *)
Definition norm_lv (d lv' : nat) (incs' I : list bool) : Prop :=
  (lv' = d /\ incs' = I) \/ (lv' = S d /\ exists t, incs' = true :: t /\ I = false :: t).

Definition MC_cmd (c : cmd) : Prop := forall ind bnl l d p pc e,
  canon_cmd l c = (pc, e) -> wf_cmd c -> Pre d l p ->
  exists sm lv' incs', ml_command ind bnl pc p =
    mkM (m_out p ++ mlead p ++ R_cmd ind d c) SpRequired false sm false e lv' d incs' false
  /\ norm_lv d lv' incs' (post_incs p).
Definition MC_stmt (s : stmt) : Prop := forall ind bnl l d p ps e,
  canon_stmt l s = (ps, e) -> wf_stmt s -> Pre d l p ->
  ml_stmt ind bnl ps p =
    mkM (m_out p ++ mlead p ++ R_stmt ind d s) SpRequired false (stmt_bg s) false e d d (post_incs p) false.
Definition MC_lines (ss : stmts) : Prop := forall ind bnl l p pss e,
  canon_lines l ss (m_line p) = (pss, e) -> l = S (m_line p) -> wf_stmts ss -> ss <> SNil ->
  m_first p = false -> m_nb p = false ->
  ml_stmtLoop ind bnl pss p =
    mkM (m_out p ++ R_lines ind (m_level p) ss) SpRequired true (last_bg ss) false e (m_level p) (m_level p) (m_incs p) false.
Definition MC_cond (ss : stmts) : Prop := forall ind bnl l d p pss thenl kw,
  canon_cond l ss = (pss, thenl) -> wf_stmts ss -> ss <> SNil -> Pre d l p -> m_ws p = SpRequired ->
  exists sm, msemiOrNewl ind kw thenl (mnestedStmts_with (ml_stmtLoop ind bnl) pss 0 p) =
    mkM (m_out p ++ R_cond ind d ss ++ kw) SpRequired false sm false thenl d d (post_incs p) false.
Definition MC_else (e : else_) : Prop := forall ind bnl l d p pe fil,
  canon_else l e = (pe, fil) -> wf_else e -> l = S (m_line p) -> m_level p = d -> m_first p = false -> m_nb p = false ->
  exists sm, ml_else ind bnl pe p =
    mkM (m_out p ++ R_else ind d e) SpRequired false sm false fil d d (m_incs p) false.

Lemma entry_pad : forall l p, m_line p = l -> exists ws',
  mspacePad (advanceLine l p) =
    mkM (m_out p ++ mlead p) ws' (m_wn p) (m_semi p) (m_first p) l (m_level p) (m_last p) (m_incs p) (m_nb p)
  /\ is_required ws' = false.
Proof.
  intros l p <-. destruct p as [o ws wn sm fl ln lv la incs nb]. unfold mspacePad, advanceLine, mlead. mred. natb.
  destruct ws; cbn [is_required]; mred; eexists; (split; [rewrite ?app_nil_r; reflexivity|reflexivity]).
Qed.

Lemma mlead_nr : forall o ws wn sm fl ln lv la incs nb, is_required ws = false ->
  mlead (mkM o ws wn sm fl ln lv la incs nb) = [].
Proof. intros. unfold mlead. cbn [m_ws]. rewrite H. reflexivity. Qed.

Lemma body_ml : forall ss, MC_lines ss -> forall ind bnl d p pss e,
  canon_lines (S (m_line p)) ss (m_line p) = (pss, e) -> wf_stmts ss -> ss <> SNil -> lv_ok d p ->
  m_first p = false -> m_nb p = false ->
  mnestedStmts_with (ml_stmtLoop ind bnl) pss (S e) p =
  mkM (m_out p ++ R_lines ind (S d) ss) SpRequired true (last_bg ss) false e d (S d) (post_incs p) false.
Proof.
  intros ss IH ind bnl d p pss e EC W Hne LV Hf Hnb.
  destruct canon_facts as (_ & _ & CF & _). destruct (CF ss) as (CL & _).
  destruct (CL _ _ _ _ EC) as (_ & LEN & F). destruct (F Hne) as (F1 & F2 & F3).
  unfold mnestedStmts_with. rewrite (incLevel_ok d p LV).
  destruct p as [o ws wn sm fl ln lv la incs nb]. cbn [m_line m_first m_nb] in *. subst fl nb.
  set (I := post_incs _). mred.
  assert (WN : (if Nat.ltb 1 (pslen pss) then mkM o ws true sm false ln (S d) d (true :: I) false
                else if Nat.ltb ln (S e) && Nat.ltb 0 (pslen pss) && Nat.ltb (plast_end pss) (S e)
                     then mkM o ws true sm false ln (S d) d (true :: I) false
                     else mkM o ws wn sm false ln (S d) d (true :: I) false)
               = mkM o ws true sm false ln (S d) d (true :: I) false).
  { destruct (Nat.ltb 1 (pslen pss)); [reflexivity|].
    replace (Nat.ltb ln (S e)) with true by (symmetry; apply Nat.ltb_lt; lia).
    replace (Nat.ltb 0 (pslen pss)) with true by (symmetry; apply Nat.ltb_lt; destruct ss; [congruence|simpl in LEN; lia]).
    rewrite F2. natb. reflexivity. }
  rewrite WN. unfold mstmtList_with. mred. cbn [orb negb]. rewrite andb_false_r.
  rewrite (IH ind bnl (S ln) _ pss e); cbn [m_line m_first m_nb]; auto.
Qed.

Definition bg_tail (b : bool) (p : mst) : mst :=
  if b then mset_ws SpRequired (mset_semi true (mwr s_amp (mspace p))) else p.

Lemma stmt_tail : forall (d lv' : nat) (incs' J : list bool) (o : str) (sm : bool) (e : nat) (b : bool),
  norm_lv d lv' incs' J ->
  decLevel (bg_tail b (mset_semi false (incLevel (mkM o SpRequired false sm false e lv' d incs' false)))) =
  mkM (o ++ (if b then s_sp ++ s_amp else [])) SpRequired false b false e d d J false.
Proof.
  intros d lv' incs' J o sm e b [(-> & ->) | (-> & t & -> & ->)].
  - unfold incLevel, decLevel, bg_tail, mspace. mred. natb. cbn [orb]. destruct b; mred; rewrite <- ?app_assoc, ?app_nil_r; reflexivity.
  - unfold incLevel, decLevel, bg_tail, mspace. mred. natb. cbn [orb]. destruct b; mred; rewrite <- ?app_assoc, ?app_nil_r; reflexivity.
Qed.

Lemma subshell_open : forall (q : mst) ps0 pr l, Nat.eqb l (pstmt_line ps0) = false ->
  mspacePad (if pstarts_lparen ps0
             then (if negb (Nat.eqb l (pstmt_line ps0)) || Nat.ltb 1 (pslen (PCons ps0 pr))
                   then mset_ws SpNotRequired q else mset_ws SpRequired q)
             else mset_ws SpNotRequired q) = mset_ws SpNotRequired q.
Proof.
  intros q ps0 pr l H. rewrite H. cbn [negb orb]. destruct (pstarts_lparen ps0); destruct q; reflexivity.
Qed.

Lemma subshell_close : forall (q : mst) ps0 pr l rp, Nat.eqb l rp = false ->
  mspacePad (match PCons ps0 pr with
             | PCons s0 PNil => if pends_rparen s0 && Nat.eqb l rp
                                then mset_ws SpRequired (mset_ws SpNotRequired q) else mset_ws SpNotRequired q
             | _ => mset_ws SpNotRequired q
             end) = mset_ws SpNotRequired q.
Proof.
  intros q ps0 pr l rp H. rewrite H, andb_false_r. destruct pr; destruct q; reflexivity.
Qed.

Theorem machine_ml :
  (forall c, MC_cmd c) /\ (forall s, MC_stmt s) /\ (forall ss, MC_lines ss /\ MC_cond ss) /\ (forall e, MC_else e).
Proof.
  destruct canon_facts as (CFc & CFs & CFl & CFe).
  apply mini_mutind.
  - (* Call *)
    intros args ind bnl l d p pc e EC (Hf & Hw) PRE. cbn in EC. inversion EC; subst pc e.
    cbn [ml_command pcmd_line].
    destruct PRE as (LV & HL & HW & HF & HN).
    destruct (entry_pad l p HL) as (ws' & EP & NR). rewrite EP.
    rewrite mwordJoin_eq by (destruct args; [contradiction|discriminate]).
    destruct p as [o ws wn sm0 fl ln lv la incs nb]. cbn [m_line m_wn m_first m_nb m_out m_ws m_semi m_level m_last m_incs] in *.
    subst. rewrite (mlead_nr _ ws') by assumption. cbn [R_cmd app].
    destruct LV as (LA & LVV). cbn [m_last m_level m_incs] in LA, LVV. subst la.
    exists sm0, lv, incs. split; [rewrite <- app_assoc; reflexivity|].
    unfold norm_lv, post_incs. cbn [m_level m_last m_incs].
    destruct LVV as [-> | (-> & t & ->)]; natb; [left; auto|right; split; [reflexivity|exists t; auto]].
  - (* Block *)
    intros ss (IHL & _) ind bnl l d p pc e EC (Hne & W) PRE. cbn [canon_cmd] in EC.
    destruct (canon_lines (S l) ss l) as [pss e1] eqn:E1. inversion EC; subst pc e.
    cbn [ml_command pcmd_line].
    destruct PRE as (LV & HL & HW & HF & HN).
    destruct (entry_pad l p HL) as (ws' & EP & NR). rewrite EP.
    destruct p as [o ws wn sm0 fl ln lv la incs nb]. cbn [m_line m_wn m_first m_nb m_out m_ws m_semi m_level m_last m_incs] in *.
    subst ln wn fl nb. mred.
    rewrite (body_ml ss IHL ind bnl d _ pss e1); cbn [m_line m_first m_nb]; auto.
    rewrite msemiRsrv_nl; cbn [m_line m_first]; auto. mred.
    exists (last_bg ss), d, (post_incs (mkM o ws false sm0 false l lv la incs false)). split.
    + cbn [R_cmd]. rewrite <- !app_assoc. reflexivity.
    + left. split; reflexivity.
  - (* Subshell *)
    intros ss (IHL & _) ind bnl l d p pc e EC (Hne & W) PRE. cbn [canon_cmd] in EC.
    destruct (canon_lines (S l) ss l) as [pss e1] eqn:E1. inversion EC; subst pc e.
    destruct (CFl ss) as (CL & _). destruct (CL _ _ _ _ E1) as (_ & LEN & F). destruct (F Hne) as (F1 & F2 & F3).
    cbn [ml_command pcmd_line].
    destruct PRE as (LV & HL & HW & HF & HN).
    destruct (entry_pad l p HL) as (ws' & EP & NR). rewrite EP.
    destruct p as [o ws wn sm0 fl ln lv la incs nb]. cbn [m_line m_wn m_first m_nb m_out m_ws m_semi m_level m_last m_incs] in *.
    subst ln wn fl nb. destruct pss as [|ps0 pr]; [destruct ss; [congruence|simpl in LEN; discriminate]|].
    cbn [pfirst_line] in F1.
    rewrite subshell_open by (apply Nat.eqb_neq; lia).
    rewrite (body_ml ss IHL ind bnl d _ (PCons ps0 pr) e1); [|exact E1|exact W|exact Hne|exact LV|reflexivity|reflexivity].
    rewrite subshell_close by (apply Nat.eqb_neq; lia).
    rewrite mnewlines_nl; [|reflexivity|reflexivity]. mred.
    eexists _, d, _. split; [|left; split; reflexivity].
    cbn [R_cmd]. rewrite <- !app_assoc. reflexivity.
  - (* IfClause *)
    intros c (_ & IHc) t (IHt & _) el IHe ind bnl l d p pc e EC (Hc & Ht & Wc & Wt & We) PRE. cbn [canon_cmd] in EC.
    destruct (canon_cond l c) as [pcd thenl] eqn:E1.
    destruct (canon_lines (S thenl) t thenl) as [pt et] eqn:E2.
    destruct (canon_else (S et) el) as [pe fil] eqn:E3. inversion EC; subst pc e.
    destruct (CFe _ _ _ _ E3) as (_ & _ & PL).
    cbn [ml_command pcmd_line]. rewrite PL.
    destruct PRE as (LV & HL & HW & HF & HN).
    destruct (entry_pad l p HL) as (ws' & EP & NR). rewrite EP. rewrite mspacedString_eq.
    destruct p as [o ws wn sm0 fl ln lv la incs nb]. cbn [m_line m_wn m_first m_nb m_out m_ws m_semi m_level m_last m_incs] in *.
    subst ln wn fl nb. rewrite (mlead_nr _ ws') by assumption. mred.
    match goal with |- context [mnestedStmts_with _ pcd 0 ?q] =>
      destruct (IHc ind bnl l d q pcd thenl kw_then E1 Wc Hc) as (sm1 & EQ1);
        [split; [exact LV|repeat split; reflexivity] | reflexivity | rewrite EQ1] end.
    rewrite (body_ml t IHt ind bnl d _ pt et); cbn [m_line m_first m_nb]; auto;
      [| split; [reflexivity|left; reflexivity] ].
    match goal with |- context [ml_else ind bnl pe ?q] =>
      destruct (IHe ind bnl (S et) d q pe fil E3 We) as (sm2 & EQ2); try reflexivity; rewrite EQ2 end.
    mred. eexists _, d, _. split; [|left; split; [reflexivity|]].
    + cbn [R_cmd]. rewrite <- !app_assoc. cbn [app]. reflexivity.
    + unfold post_incs. mred. natb. reflexivity.
  - (* WhileClause *)
    intros u c (_ & IHc) b (IHb & _) ind bnl l d p pc e EC (Hc & Hb & Wc & Wb) PRE. cbn [canon_cmd] in EC.
    destruct (canon_cond l c) as [pcd dol] eqn:E1.
    destruct (canon_lines (S dol) b dol) as [pb eb] eqn:E2. inversion EC; subst pc e.
    cbn [ml_command pcmd_line].
    destruct PRE as (LV & HL & HW & HF & HN).
    destruct (entry_pad l p HL) as (ws' & EP & NR). rewrite EP. rewrite mspacedString_eq.
    destruct p as [o ws wn sm0 fl ln lv la incs nb]. cbn [m_line m_wn m_first m_nb m_out m_ws m_semi m_level m_last m_incs] in *.
    subst ln wn fl nb. rewrite (mlead_nr _ ws') by assumption. mred.
    match goal with |- context [mnestedStmts_with _ pcd 0 ?q] =>
      destruct (IHc ind bnl l d q pcd dol kw_do E1 Wc Hc) as (sm1 & EQ1);
        [split; [exact LV|repeat split; reflexivity] | reflexivity | rewrite EQ1] end.
    rewrite (body_ml b IHb ind bnl d _ pb eb); cbn [m_line m_first m_nb]; auto;
      [| split; [reflexivity|left; reflexivity] ].
    rewrite msemiRsrv_nl; cbn [m_line m_first]; auto. mred.
    eexists _, d, _. split; [|left; split; [reflexivity|]].
    + cbn [R_cmd]. rewrite <- !app_assoc. cbn [app]. reflexivity.
    + unfold post_incs. mred. natb. reflexivity.
  - (* Binary *)
    intros op x IHx y IHy ind bnl l d p pc e EC (Wx & Wy & _) PRE. cbn [canon_cmd] in EC.
    destruct (canon_stmt l x) as [px ex] eqn:E1. destruct (canon_stmt ex y) as [py ey] eqn:E2. inversion EC; subst pc e.
    destruct (CFs _ _ _ _ E1) as (LX & _). destruct (CFs _ _ _ _ E2) as (LY & _).
    cbn [ml_command pcmd_line]. rewrite LX, LY.
    destruct PRE as (LV & HL & HW & HF & HN).
    destruct (entry_pad l p HL) as (ws' & EP & NR). rewrite EP.
    destruct p as [o ws wn sm0 fl ln lv la incs nb]. cbn [m_line m_wn m_first m_nb m_out m_ws m_semi m_level m_last m_incs] in *.
    subst ln wn fl nb.
    rewrite (IHx ind bnl l d _ px ex E1 Wx); [|split; [exact LV|repeat split; reflexivity]].
    mred. natb. rewrite mspacedString_eq. unfold advanceLine. mred. natb.
    rewrite (IHy ind bnl ex d _ py ey E2 Wy); [|split; [split; [reflexivity|left; reflexivity]|repeat split; reflexivity]].
    rewrite (mlead_nr _ ws') by assumption. unfold mlead. mred. cbn [is_required].
    eexists _, d, _. split; [|left; split; [reflexivity|]].
    + cbn [R_cmd]. rewrite <- !app_assoc. cbn [app]. reflexivity.
    + unfold post_incs. mred. natb. reflexivity.
  - (* Stmt *)
    intros n c IHc b ind bnl l d p ps e EC (Wc & _) PRE. cbn [canon_stmt] in EC.
    destruct (canon_cmd l c) as [pc e1] eqn:E1. inversion EC; subst ps e.
    cbn [ml_stmt].
    set (p1 := if n then mspacedString s_bang (mset_semi false p) else mset_semi false p).
    assert (P1 : Pre d l p1 /\ m_out p1 ++ mlead p1 = m_out p ++ mlead p ++ (if n then s_bang ++ s_sp else []) /\
                 post_incs p1 = post_incs p).
    { subst p1. destruct PRE as (LV & HL & HW & HF & HN). destruct n.
      - rewrite mspacedString_eq. destruct p as [o ws wn sm0 fl ln lv la incs nb]. split; [|split].
        + split; [exact LV|]. cbn in *. auto.
        + unfold mlead. mred. cbn [is_required]. rewrite <- !app_assoc. reflexivity.
        + reflexivity.
      - destruct p as [o ws wn sm0 fl ln lv la incs nb]. split; [|split].
        + split; [exact LV|]. cbn in *. auto.
        + unfold mlead. mred. rewrite app_nil_r. reflexivity.
        + reflexivity. }
    destruct P1 as (PRE1 & OUT1 & PI1).
    destruct (IHc ind bnl l d p1 pc e1 E1 Wc PRE1) as (sm1 & lv' & incs' & EQ & NL).
    rewrite EQ. rewrite PI1 in NL.
    pose proof (stmt_tail d lv' incs' (post_incs p) (m_out p1 ++ mlead p1 ++ R_cmd ind d c) sm1 e1 b NL) as ST.
    unfold bg_tail in ST.
    match goal with |- ?L = _ => match type of ST with ?L' = _ => change L with L' end end.
    rewrite ST. cbn [R_stmt stmt_bg]. f_equal.
    rewrite app_assoc, OUT1. rewrite <- !app_assoc. reflexivity.
  - (* SNil *)
    split.
    + intros ind bnl l p pss e _ _ _ H. congruence.
    + intros ind bnl l d p pss thenl kw _ _ H. congruence.
  - (* SCons *)
    intros s IHs rest (IHL & _). split.
    + intros ind bnl l p pss e EC -> (Ws & Wr) _ HF HN. cbn [canon_lines] in EC.
      destruct (canon_stmt (S (m_line p)) s) as [ps e1] eqn:E1.
      destruct (canon_lines (S e1) rest e1) as [pr e2] eqn:E2. inversion EC; subst pss e.
      destruct (CFs _ _ _ _ E1) as (LS & _).
      cbn [ml_stmtLoop]. rewrite LS.
      rewrite mnewlines_nl by auto.
      destruct p as [o ws wn sm0 fl ln lv la incs nb]. cbn [m_line m_wn m_first m_nb m_out m_ws m_semi m_level m_last m_incs] in *.
      subst fl nb. unfold advanceLine. mred. natb.
      rewrite (IHs ind bnl (S ln) lv _ ps e1 E1 Ws);
        [|split; [split; [reflexivity|left; reflexivity]|repeat split; reflexivity]].
      unfold mlead, post_incs. mred. cbn [is_required]. natb.
      destruct rest as [|s1 r].
      * cbn in E2. inversion E2; subst pr e2. cbn [ml_stmtLoop R_lines last_bg]. mred.
        rewrite <- !app_assoc. rewrite app_nil_r. reflexivity.
      * rewrite (IHL ind bnl (S e1) _ pr e2); cbn [m_line m_first m_nb]; auto; [|discriminate].
        mred. cbn [R_lines last_bg]. rewrite <- !app_assoc. reflexivity.
    + intros ind bnl l d p pss thenl kw EC (Ws & Wr) _ PRE HWS. cbn [canon_cond] in EC.
      destruct rest as [|s1 r].
      * (* one statement: inline *)
        destruct (canon_stmt l s) as [ps e1] eqn:E1. inversion EC; subst pss thenl.
        destruct (CFs _ _ _ _ E1) as (LS & _ & LE & _).
        destruct PRE as (LV & HL & HW & HF & HN).
        unfold mnestedStmts_with. rewrite (incLevel_ok d p LV).
        destruct p as [o ws wn sm0 fl ln lv la incs nb]. cbn [m_line m_wn m_first m_nb m_out m_ws m_semi m_level m_last m_incs] in *.
        subst ln wn fl nb. subst ws. set (I := post_incs _). mred. cbn [pslen]. natb.
        replace (Nat.ltb 1 1) with false by reflexivity.
        replace (Nat.ltb l 0) with false by (symmetry; apply Nat.ltb_ge; lia). cbn [andb].
        unfold mstmtList_with. mred. cbn [pfirst_line ml_stmtLoop pslen]. rewrite LS. natb. cbn [orb negb andb].
        rewrite mnewlines_id; cbn [m_first m_wn m_line]; auto.
        unfold advanceLine. mred. natb.
        rewrite (IHs ind bnl l d _ ps e1 E1 Ws);
          [|split; [split; [reflexivity|right; split; [reflexivity|eexists; reflexivity]]|repeat split; reflexivity]].
        unfold mlead, post_incs. mred. cbn [is_required]. natb. cbn [tl]. unfold decLevel. mred.
        rewrite msemiOrNewl_semi; cbn [m_wn m_line]; auto. mred.
        eexists. cbn [R_cond]. rewrite <- !app_assoc. reflexivity.
      * (* several statements: on their own lines *)
        destruct (canon_stmt (S l) s) as [ps e1] eqn:E1.
        destruct (canon_lines (S e1) (SCons s1 r) e1) as [pr e2] eqn:E2. inversion EC; subst pss thenl.
        destruct (CFs _ _ _ _ E1) as (LS & _ & LE & _).
        destruct (CFl (SCons s1 r)) as (CL & _). destruct (CL _ _ _ _ E2) as (_ & LEN & _).
        destruct PRE as (LV & HL & HW & HF & HN).
        unfold mnestedStmts_with. rewrite (incLevel_ok d p LV).
        destruct p as [o ws wn sm0 fl ln lv la incs nb]. cbn [m_line m_wn m_first m_nb m_out m_ws m_semi m_level m_last m_incs] in *.
        subst ln wn fl nb. set (I := post_incs _). mred. cbn [pslen]. rewrite LEN. cbn [slen].
        replace (Nat.ltb 1 (S (S (slen r)))) with true by (symmetry; apply Nat.ltb_lt; lia).
        unfold mstmtList_with. mred. cbn [orb negb]. rewrite andb_false_r.
        cbn [ml_stmtLoop]. rewrite LS.
        rewrite mnewlines_nl; cbn [m_first m_line]; auto. unfold advanceLine. mred. natb.
        rewrite (IHs ind bnl (S l) (S d) _ ps e1 E1 Ws);
          [|split; [split; [reflexivity|left; reflexivity]|repeat split; reflexivity]].
        unfold mlead, post_incs. mred. cbn [is_required]. natb.
        rewrite (IHL ind bnl (S e1) _ pr e2); cbn [m_line m_first m_nb]; auto; [|discriminate].
        mred. unfold decLevel. mred.
        rewrite msemiOrNewl_nl; cbn [m_wn m_line]; auto. mred.
        eexists. cbn [R_cond R_lines]. rewrite <- !app_assoc. reflexivity.
  - (* NoElse *)
    intros ind bnl l d p pe fil EC _ -> <- HF HN. cbn in EC. inversion EC; subst pe fil.
    cbn [ml_else]. rewrite msemiRsrv_nl by auto.
    destruct p as [o ws wn sm0 fl ln lv la incs nb]. cbn in *. subst. eexists. reflexivity.
  - (* Elif *)
    intros c (_ & IHc) t (IHt & _) el IHe ind bnl l d p pe fil EC (Hc & Ht & Wc & Wt & We) -> <- HF HN.
    cbn [canon_else] in EC.
    destruct (canon_cond (S (m_line p)) c) as [pcd thenl] eqn:E1.
    destruct (canon_lines (S thenl) t thenl) as [pt et] eqn:E2.
    destruct (canon_else (S et) el) as [pe1 fil1] eqn:E3. inversion EC; subst pe fil.
    destruct (CFe _ _ _ _ E3) as (_ & _ & PL).
    cbn [ml_else]. rewrite PL. rewrite msemiRsrv_nl by auto.
    destruct p as [o ws wn sm0 fl ln lv la incs nb]. cbn [m_line m_wn m_first m_nb m_out m_ws m_semi m_level m_last m_incs] in *.
    subst fl nb.
    match goal with |- context [mnestedStmts_with _ pcd 0 ?q] =>
      destruct (IHc ind bnl (S ln) lv q pcd thenl kw_then E1 Wc Hc) as (sm1 & EQ1);
        [split; [split; [reflexivity|left; reflexivity]|repeat split; reflexivity] | reflexivity | rewrite EQ1] end.
    mred.
    rewrite (body_ml t IHt ind bnl lv _ pt et); cbn [m_line m_first m_nb]; auto;
      [| split; [reflexivity|left; reflexivity] ].
    match goal with |- context [ml_else ind bnl pe1 ?q] =>
      destruct (IHe ind bnl (S et) lv q pe1 fil1 E3 We) as (sm2 & EQ2); try reflexivity; rewrite EQ2 end.
    mred. unfold post_incs. mred. natb. eexists. cbn [R_else]. rewrite <- !app_assoc. cbn [app]. reflexivity.
  - (* Else *)
    intros t (IHt & _) ind bnl l d p pe fil EC (Ht & Wt) -> <- HF HN. cbn [canon_else] in EC.
    destruct (canon_lines (S (S (m_line p))) t (S (m_line p))) as [pt et] eqn:E2. inversion EC; subst pe fil.
    cbn [ml_else]. rewrite (msemiRsrv_nl ind kw_else) by auto.
    destruct p as [o ws wn sm0 fl ln lv la incs nb]. cbn [m_line m_wn m_first m_nb m_out m_ws m_semi m_level m_last m_incs] in *.
    subst fl nb.
    rewrite (body_ml t IHt ind bnl lv _ pt et); cbn [m_line m_first m_nb]; auto;
      [| split; [reflexivity|left; reflexivity] ].
    rewrite msemiRsrv_nl; cbn [m_line m_first]; auto. mred.
    unfold post_incs. mred. natb. eexists. cbn [R_else]. rewrite <- !app_assoc. reflexivity.
Qed.

(* ------------------------------------------------------------------ files *)
Theorem ml_print_file_render : forall ind bnl t, wf_file t -> ml_print_file ind bnl t = R_file ind t.
Proof.
  intros ind bnl t W. destruct t as [|s rest]; [reflexivity|].
  destruct machine_ml as (_ & MS & ML & _). destruct canon_facts as (_ & CFs & _).
  unfold ml_print_file, ml_print_pfile, canon_file. cbn [canon_lines].
  destruct (canon_stmt 1 s) as [ps e1] eqn:E1. destruct (canon_lines (S e1) rest e1) as [pr e2] eqn:E2.
  cbn [fst]. destruct (CFs _ _ _ _ E1) as (LS & _). destruct W as (Ws & Wr).
  unfold mstmtList_with, init_mst. mred. cbn [pfirst_line ml_stmtLoop pslen]. rewrite LS.
  replace (Nat.ltb 0 1) with true by reflexivity. cbn [orb negb]. rewrite andb_false_r.
  unfold mnewlines. mred. unfold advanceLine. mred. replace (Nat.max 0 1) with 1%nat by reflexivity.
  rewrite (MS s ind bnl 1%nat 0%nat _ ps e1 E1 Ws);
    [|split; [split; [reflexivity|left; reflexivity]|repeat split; reflexivity]].
  unfold mlead, post_incs. mred. cbn [is_required app]. natb.
  destruct rest as [|s1 r].
  - cbn in E2. inversion E2; subst pr e2. cbn [ml_stmtLoop R_file R_lines]. unfold mnewline, advanceLine. mred.
    rewrite app_nil_l. reflexivity.
  - destruct (ML (SCons s1 r)) as (MLL & _).
    rewrite (MLL ind bnl (S e1) _ pr e2); cbn [m_line m_first m_nb]; auto; [|discriminate].
    unfold mnewline, advanceLine. mred. cbn [R_file]. rewrite <- !app_assoc. reflexivity.
Qed.

(* BinaryNextLine does not change the canonical layout (no list spans several lines there) *)
Corollary ml_print_file_bnl : forall ind t, wf_file t -> ml_print_file ind true t = ml_print_file ind false t.
Proof. intros. rewrite !ml_print_file_render by assumption. reflexivity. Qed.
