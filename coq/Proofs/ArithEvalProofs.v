(* Proofs/ArithEvalProofs.v — the whole-expression theorem: inside the scope (parser-producible tree without
   a[i], valid constants, variables holding integer-literal texts, bash's evaluation defined) expand.Arithm's
   model gives bash's value, final environment and error.  Ingredients: the lexer and parser turn an integer
   text into its constant (with sign), FormatInt output is such a text, environment get/set, names read as 0,
   then induction over the tree with the operator lemmas of ArithProofs. *)
From Verif Require Import Base.Str Expand.ArithSyntax Expand.Arith Proofs.ArithSyntaxProofs Proofs.ArithProofs Proofs.ArithAtoiProofs.
From Coq Require Import ZifyN ZifyNat ZifyBool.
Open Scope Z_scope.


(* ---------------- the lexer on  blanks sign constant blanks *)
Lemma option_map_id (A : Type) (x : option A) : option_map (fun k => k) x = x.
Proof. destruct x; reflexivity. Qed.

Lemma blank_chars c : blank c = true -> word_char c = false /\ is_space c = true.
Proof. unfold blank, word_char, word_start, ascii_letter, ascii_digit, is_space. lia. Qed.

Lemma lex_blanks : forall ws s f, forallb blank ws = true ->
  lex_go (length ws + f) [] (ws ++ s) = lex_go f [] s.
Proof.
  induction ws as [|c r IH]; intros s f H; [reflexivity|].
  simpl in H. apply andb_prop in H. destruct H as [Hc Hr]. destruct (blank_chars c Hc) as [Hw Hs].
  simpl. rewrite Hw, Hs. rewrite IH by exact Hr. apply option_map_id.
Qed.

Lemma lex_word : forall w s f cur, Forall (fun c => word_char c = true) w -> cur <> [] ->
  lex_go (length w + f) cur (w ++ s) = lex_go f (rev w ++ cur) s.
Proof.
  induction w as [|c r IH]; intros s f cur H Hc; [reflexivity|].
  inversion H; subst. simpl. rewrite H2. destruct cur as [|x cur']; [congruence|].
  rewrite IH by (try assumption; discriminate). rewrite <- app_assoc. reflexivity.
Qed.

Lemma lex_end_blanks : forall ws f cur, forallb blank ws = true -> cur <> [] ->
  lex_go (length ws + S f) cur ws = Some [TLit (rev cur)].
Proof.
  intros ws f cur H Hc. destruct cur as [|x cur']; [congruence|].
  destruct ws as [|c r]; [reflexivity|].
  simpl in H. apply andb_prop in H. destruct H as [Hb Hr]. destruct (blank_chars c Hb) as [Hw Hs].
  simpl. rewrite Hw, Hs.
  pose proof (lex_blanks r [] (S f) Hr) as E. rewrite app_nil_r in E. rewrite E. reflexivity.
Qed.

Definition sign_toks (s : sign) : list token :=
  match s with SNone => [] | SPlus => [TOp Add] | SMinus => [TOp Sub] end.

Lemma lex_constant : forall c r ws2 f, ascii_digit c = true -> Forall (fun c => word_char c = true) r ->
  forallb blank ws2 = true ->
  lex_go (S (length r + (length ws2 + S f))) [] (c :: r ++ ws2) = Some [TLit (c :: r)].
Proof.
  intros c r ws2 f Hc Hr Hb.
  assert (Hw : word_char c = true /\ word_start c = true) by (unfold word_char, word_start, ascii_letter, ascii_digit in *; lia).
  cbn [lex_go]. destruct Hw as [Hw1 Hw2]. rewrite Hw1, Hw2.
  rewrite lex_word by (try assumption; discriminate).
  rewrite lex_end_blanks by (try assumption; destruct (rev r); discriminate).
  rewrite rev_app_distr. simpl. rewrite rev_involutive. reflexivity.
Qed.

Lemma digit_cases c : ascii_digit c = true ->
  (c = 48 \/ c = 49 \/ c = 50 \/ c = 51 \/ c = 52 \/ c = 53 \/ c = 54 \/ c = 55 \/ c = 56 \/ c = 57)%N.
Proof. unfold ascii_digit. lia. Qed.

Lemma op_sign_digit c c3 : ascii_digit c = true ->
  op_token 43 (Some c) c3 = Some (TOp Add, 0%nat) /\ op_token 45 (Some c) c3 = Some (TOp Sub, 0%nat).
Proof.
  intros H. apply digit_cases in H.
  repeat (destruct H as [H|H]; [subst; split; reflexivity|]). subst; split; reflexivity.
Qed.

Lemma lex_sign : forall sc t c rest f,
  (sc = 43%N /\ t = TOp Add \/ sc = 45%N /\ t = TOp Sub) -> ascii_digit c = true ->
  lex_go (S f) [] (sc :: c :: rest) = option_map (cons t) (lex_go f [] (c :: rest)).
Proof.
  intros sc t c rest f H Hc. destruct H as [[-> ->]|[-> ->]]; cbn [lex_go].
  - change (word_char 43%N) with false. change (is_space 43%N) with false. cbv iota.
    simpl nth_error. rewrite (proj1 (op_sign_digit c _ Hc)). reflexivity.
  - change (word_char 45%N) with false. change (is_space 45%N) with false. cbv iota.
    simpl nth_error. rewrite (proj2 (op_sign_digit c _ Hc)). reflexivity.
Qed.

Theorem lex_int_text : forall v sg w, int_text v sg w -> wordish w -> lex v = Some (sign_toks sg ++ [TLit w]).
Proof.
  intros v sg w (ws1 & ws2 & -> & Hb1 & Hb2) [(c & r & -> & Hc) Hall].
  inversion Hall; subst. unfold lex.
  assert (Hd : (c <> 43 /\ c <> 61 /\ c <> 45)%N) by (unfold ascii_digit in Hc; lia).
  destruct sg; simpl sign_text; simpl sign_toks.
  - replace (S (length (ws1 ++ [] ++ (c :: r) ++ ws2))) with (length ws1 + S (length r + (length ws2 + 1)))%nat
      by (rewrite !app_length; simpl; rewrite ?app_length; lia).
    rewrite lex_blanks by exact Hb1. simpl app. apply lex_constant; assumption.
  - replace (S (length (ws1 ++ [43%N] ++ (c :: r) ++ ws2))) with (length ws1 + S (S (length r + (length ws2 + 1))))%nat
      by (rewrite !app_length; simpl; rewrite ?app_length; lia).
    rewrite lex_blanks by exact Hb1. simpl app.
    rewrite (lex_sign 43%N (TOp Add)) by (auto; left; auto).
    rewrite lex_constant by assumption. reflexivity.
  - replace (S (length (ws1 ++ [45%N] ++ (c :: r) ++ ws2))) with (length ws1 + S (S (length r + (length ws2 + 1))))%nat
      by (rewrite !app_length; simpl; rewrite ?app_length; lia).
    rewrite lex_blanks by exact Hb1. simpl app.
    rewrite (lex_sign 45%N (TOp Sub)) by (auto; right; auto).
    rewrite lex_constant by assumption. reflexivity.
Qed.



(* ---------------- what "the variable holds an integer literal" gives on both sides *)
Definition sign_expr (sg : sign) (w : str) : expr :=
  match sg with SNone => Word w | SPlus => Un Plus false (Word w) | SMinus => Un Minus false (Word w) end.

Lemma parse_int_text v sg w : int_text v sg w -> wordish w ->
  parse_text v = TTree (Some (sign_expr sg w)) [].
Proof.
  intros Hi Hw. unfold parse_text. rewrite (lex_int_text v sg w Hi Hw).
  replace (sign_toks sg ++ [TLit w]) with (print (sign_expr sg w)) by (destruct sg; reflexivity).
  rewrite parse_print_wp by (destruct sg; reflexivity). reflexivity.
Qed.

Lemma digit_not_name c r : ascii_digit c = true -> valid_name (c :: r) = false.
Proof. unfold valid_name, ascii_digit, ascii_letter. intros H. destruct (valid_name_rest r); lia. Qed.

Lemma chk_small n : 0 <= n < two63 -> chk n = BV n /\ chk (- n) = BV (- n).
Proof. unfold chk, in64, two63. intros H. split; (destruct (_ && _) eqn:E; [reflexivity|lia]). Qed.

Lemma chk_big n : two63 <= n -> chk n = BU.
Proof. unfold chk, in64, two63. intros H. destruct (_ && _) eqn:E; [lia|reflexivity]. Qed.

(* a text is fine when it is empty, or no name and evaluates (in bash's rule) to what atoi reads,
   or to a platform-defined value *)
Definition text_ok (v : str) : Prop :=
  v = [] \/
  (valid_name v = false /\ exists e', parse_text v = TTree (Some e') [] /\
     forall var en, bash_step var e' en = (en, BV (atoi v)) \/ bash_step var e' en = (en, BU)).

Lemma int_text_not_name v sg c r : int_text v sg (c :: r) -> ascii_digit c = true -> valid_name v = false.
Proof.
  intros (ws1 & ws2 & -> & Hb1 & Hb2) Hc.
  destruct ws1 as [|b ws1'].
  - destruct sg; simpl; try reflexivity. apply digit_not_name. exact Hc.
  - simpl in Hb1. apply andb_prop in Hb1. destruct Hb1 as [Hb _].
    unfold valid_name. simpl. unfold blank, ascii_letter in *. destruct (valid_name_rest _); lia.
Qed.

Theorem text_ok_int v sg w n : int_text v sg w -> lit_value w = Some n -> text_ok v.
Proof.
  intros Hi Hl. right. pose proof (lit_wordish w n Hl) as Hw.
  destruct Hw as [(c & r & -> & Hc) Hall].
  split; [eapply int_text_not_name; eauto|].
  exists (sign_expr sg (c :: r)). split; [apply parse_int_text; [exact Hi|split; [eauto|exact Hall]]|].
  intros var en.
  assert (H0 : 0 <= n).
  { destruct (Z_lt_dec n 0) as [Hneg|]; [|lia]. exfalso.
    pose proof (atoi_body_lit (c :: r) n false Hl ltac:(unfold two63; lia)). clear H.
    unfold lit_value in Hl. (* every branch is a digits_val from 0 *)
    assert (Hge : forall dv b s, (forall c d, dv c = Some d -> 0 <= d) -> 1 <= b -> digits_val dv b s 0 = Some n -> 0 <= n)
      by (intros dv b s Hd Hb Hs; apply (digits_mono dv Hd b s 0 n); [lia|lia|exact Hs]).
    destruct (c =? 48)%N.
    - destruct r as [|c2 r2]; [inversion Hl; lia|].
      destruct ((c2 =? 120)%N || (c2 =? 88)%N).
      + destruct (nonempty r2); [|discriminate].
        apply (Hge small_digit 16 r2) in Hl; [lia|intros a d Ha; apply small_hyp in Ha; tauto|lia].
      + apply (Hge dec_digit 8 (c2 :: r2)) in Hl; [lia|intros a d Ha; apply dec_hyp in Ha; tauto|lia].
    - destruct (cut_byte 35 (c :: r)) as [[bs ds]|].
      + destruct (digits_val dec_digit 10 bs 0) as [b|] eqn:Eb; [|discriminate].
        destruct (nonempty bs && (2 <=? b) && (b <=? 64) && nonempty ds) eqn:Ec; [|discriminate].
        assert (2 <= b) by lia.
        destruct (b <=? 36).
        * apply (Hge small_digit b ds) in Hl; [lia|intros a d Ha; apply small_hyp in Ha; tauto|lia].
        * apply (Hge large_digit b ds) in Hl; [lia|intros a d Ha; apply large_digit_some in Ha; tauto|lia].
      + apply (Hge dec_digit 10 (c :: r)) in Hl; [lia|intros a d Ha; apply dec_hyp in Ha; tauto|lia]. }
  assert (Hnn : valid_name (c :: r) = false) by (apply digit_not_name; exact Hc).
  destruct (Z_lt_dec n two63) as [Hlt|Hge].
  - left. rewrite (atoi_int_text v sg (c :: r) n Hi Hl Hlt).
    destruct (chk_small n ltac:(lia)) as [C1 C2].
    destruct sg; cbn [sign_expr bash_step sign_val]; rewrite Hnn, Hl, ?C1; cbn [sign_val]; rewrite ?C2; reflexivity.
  - right. pose proof (chk_big n ltac:(lia)) as C.
    destruct sg; cbn [sign_expr bash_step]; rewrite Hnn, Hl, C; reflexivity.
Qed.

(* ---------------- FormatInt produces such a text *)
Lemma to_N_digit n : 0 <= n -> dec_digit (Z.to_N (48 + n mod 10)) = Some (n mod 10).
Proof.
  intros Hn. pose proof (Z.mod_pos_bound n 10 ltac:(lia)). unfold dec_digit, nz.
  destruct ((48 <=? Z.to_N (48 + n mod 10))%N && (Z.to_N (48 + n mod 10) <=? 57)%N) eqn:E; [f_equal; lia|lia].
Qed.

Lemma dv_cons n acc a : 0 <= n ->
  digits_val dec_digit 10 (Z.to_N (48 + n mod 10) :: acc) a = digits_val dec_digit 10 acc (a * 10 + n mod 10).
Proof.
  intros Hn. cbn [digits_val]. rewrite to_N_digit by exact Hn.
  pose proof (Z.mod_pos_bound n 10 ltac:(lia)). assert (E : (n mod 10 <? 10) = true) by lia. rewrite E. reflexivity.
Qed.

Lemma digits_fuel_val : forall f n acc, 0 <= n -> Z.log2 n <= Z.of_nat f ->
  digits_val dec_digit 10 (digits_fuel f n acc) 0 = digits_val dec_digit 10 acc n.
Proof.
  induction f as [|f IH]; intros n acc Hn Hlog.
  - assert (n < 2). { destruct (Z_lt_dec n 2); [assumption|]. pose proof (Z.log2_le_mono 2 n ltac:(lia)). simpl in H. lia. }
    cbn [digits_fuel]. rewrite dv_cons by lia. rewrite Z.mod_small by lia. f_equal.
  - cbn [digits_fuel]. destruct (n <? 10) eqn:E.
    + rewrite dv_cons by lia. rewrite Z.mod_small by lia. f_equal.
    + rewrite IH.
      * rewrite dv_cons by lia. f_equal. pose proof (Z.div_mod n 10 ltac:(lia)). lia.
      * apply Z.div_pos; lia.
      * assert (1 <= n / 10) by (apply Z.div_le_lower_bound; lia).
        assert (2 * (n / 10) <= n) by (pose proof (Z.div_mod n 10 ltac:(lia)); pose proof (Z.mod_pos_bound n 10 ltac:(lia)); lia).
        pose proof (Z.log2_le_mono _ _ H0). rewrite Z.log2_double in H1 by lia. lia.
Qed.

Lemma digits_fuel_head : forall f n acc, 1 <= n -> Z.log2 n <= Z.of_nat f ->
  exists c r, digits_fuel f n acc = c :: r /\ c <> 48%N.
Proof.
  induction f as [|f IH]; intros n acc Hn Hlog.
  - assert (n < 2). { destruct (Z_lt_dec n 2); [assumption|]. pose proof (Z.log2_le_mono 2 n ltac:(lia)). simpl in H. lia. }
    cbn [digits_fuel]. eexists _, _. split; [reflexivity|]. rewrite Z.mod_small by lia. lia.
  - cbn [digits_fuel]. destruct (n <? 10) eqn:E.
    + eexists _, _. split; [reflexivity|]. rewrite Z.mod_small by lia. lia.
    + apply IH.
      * apply Z.div_le_lower_bound; lia.
      * assert (1 <= n / 10) by (apply Z.div_le_lower_bound; lia).
        assert (2 * (n / 10) <= n) by (pose proof (Z.div_mod n 10 ltac:(lia)); pose proof (Z.mod_pos_bound n 10 ltac:(lia)); lia).
        pose proof (Z.log2_le_mono _ _ H0). rewrite Z.log2_double in H1 by lia. lia.
Qed.

Lemma cut_none : forall s, Forall (fun c => c <> 35%N) s -> cut_byte 35 s = None.
Proof.
  induction s as [|c r IH]; intros H; [reflexivity|]. inversion H; subst. simpl.
  assert (E : (c =? 35)%N = false) by lia. rewrite E, IH by assumption. reflexivity.
Qed.

Lemma lit_fmt_nat n : 0 <= n -> lit_value (fmt_nat n) = Some n.
Proof.
  intros Hn. destruct (Z.eq_dec n 0) as [->|Hne]; [reflexivity|].
  unfold fmt_nat.
  pose proof (digits_fuel_val (Z.to_nat (Z.log2 n)) n [] Hn ltac:(pose proof (Z.log2_nonneg n); lia)) as Hv.
  simpl in Hv.
  destruct (digits_fuel_head (Z.to_nat (Z.log2 n)) n [] ltac:(lia) ltac:(pose proof (Z.log2_nonneg n); lia)) as (c & r & Hd & Hc).
  rewrite Hd in *. unfold lit_value. assert (E : (c =? 48)%N = false) by lia. rewrite E.
  rewrite cut_none; [exact Hv|].
  pose proof (digits_forall dec_digit 10 (c :: r) 0 n Hv) as F.
  eapply Forall_impl; [|exact F]. intros a Ha. apply dec_word in Ha. tauto.
Qed.

Theorem text_ok_fmt z : text_ok (fmt_int z).
Proof.
  unfold fmt_int. destruct (z <? 0) eqn:E.
  - apply (text_ok_int _ SMinus (fmt_nat (- z)) (- z)); [|apply lit_fmt_nat; lia].
    exists [], []. simpl. rewrite app_nil_r. auto.
  - apply (text_ok_int _ SNone (fmt_nat z) z); [|apply lit_fmt_nat; lia].
    exists [], []. simpl. rewrite app_nil_r. auto.
Qed.



(* ---------------- environment *)
Lemma cmp_str_eq : forall a b, cmp_str a b = Eq <-> a = b.
Proof.
  induction a as [|x a IH]; destruct b as [|y b]; simpl; split; intros H; try discriminate; try reflexivity.
  - destruct (N.compare x y) eqn:E; try discriminate. apply N.compare_eq in E. subst. f_equal. apply IH. exact H.
  - inversion H; subst. rewrite N.compare_refl. apply IH. reflexivity.
Qed.

Lemma str_eqb_eq a b : str_eqb a b = true <-> a = b.
Proof. unfold str_eqb. destruct (cmp_str a b) eqn:E; split; intros H; try discriminate; try (apply cmp_str_eq; assumption); try reflexivity; apply cmp_str_eq in H; congruence. Qed.

Lemma env_get_set : forall en n v m, env_get (env_set en n v) m = if str_eqb n m then v else env_get en m.
Proof.
  induction en as [|[k v0] r IH]; intros n v m; simpl.
  - reflexivity.
  - destruct (cmp_str n k) eqn:E; simpl.
    + apply cmp_str_eq in E. subst k. destruct (str_eqb n m); reflexivity.
    + destruct (str_eqb n m); reflexivity.
    + rewrite IH. destruct (str_eqb k m) eqn:Ek; [|reflexivity].
      apply str_eqb_eq in Ek. subst k. destruct (str_eqb n m) eqn:En; [|reflexivity].
      apply str_eqb_eq in En. subst. assert (cmp_str m m = Eq) by (apply cmp_str_eq; reflexivity). congruence.
Qed.

Definition Inv (en : env) : Prop := forall m, text_ok (env_get en m).

Lemma Inv_set en n z : Inv en -> Inv (env_set en n (fmt_int z)).
Proof. intros H m. rewrite env_get_set. destruct (str_eqb n m); [apply text_ok_fmt|apply H]. Qed.

(* ---------------- names read as 0 *)
Lemma name_chars : forall s, valid_name_rest s = true ->
  Forall (fun c => is_ws c = false /\ (c <> 35)%N) s.
Proof.
  induction s as [|c r IH]; intros H; [constructor|]. simpl in H. apply andb_prop in H. destruct H as [Hc Hr].
  constructor; [|apply IH; exact Hr]. unfold ascii_letter, ascii_digit, is_ws in *. lia.
Qed.

Lemma atoi_name s : valid_name s = true -> atoi s = 0.
Proof.
  intros H. destruct s as [|c r]; [discriminate|]. simpl in H. apply andb_prop in H. destruct H as [Hc Hr].
  pose proof (name_chars r Hr) as F.
  assert (Hc' : is_ws c = false /\ (c <> 35 /\ c <> 43 /\ c <> 45 /\ c <> 48)%N) by (unfold ascii_letter, is_ws in *; lia).
  assert (Hws : forall x, In x (c :: r) -> is_ws x = false).
  { intros x [Hx|Hx]; [subst x; apply Hc'|]. rewrite Forall_forall in F. apply F. exact Hx. }
  unfold atoi.
  pose proof (trim_text [] (c :: r) [] eq_refl eq_refl ltac:(discriminate) Hws) as T. simpl in T. rewrite app_nil_r in T.
  rewrite T. unfold strip_sign.
  assert (E43 : (c =? 43)%N = false) by lia. assert (E45 : (c =? 45)%N = false) by lia.
  assert (E48 : (c =? 48)%N = false) by lia. rewrite E43, E45.
  unfold atoi_body. rewrite E48. rewrite cut_none.
  - unfold parse_int. rewrite E43, E45. cbn [parse_uint_loop].
    unfold digit_val, nz. unfold ascii_letter in Hc.
    destruct ((48 <=? c)%N && (c <=? 57)%N) eqn:D1; [lia|].
    destruct ((97 <=? c)%N && (c <=? 122)%N) eqn:D2.
    { destruct (Z.of_N c - 97 + 10 >=? 10) eqn:G; [reflexivity|lia]. }
    destruct ((65 <=? c)%N && (c <=? 90)%N) eqn:D3.
    { destruct (Z.of_N c - 65 + 10 >=? 10) eqn:G; [reflexivity|lia]. }
    reflexivity.
  - constructor; [lia|]. eapply Forall_impl; [|exact F]. intros a [_ Ha]. exact Ha.
Qed.

Lemma lookup_not_name f en v : valid_name v = false -> lookup f en v = v.
Proof. intros H. destruct f; simpl; rewrite H; reflexivity. Qed.

Lemma lookup_S f en s : lookup (S f) en s =
  if valid_name s then match env_get en s with [] => s | v => lookup f en v end else s.
Proof. reflexivity. Qed.

Lemma lookup_rd en s : Inv en -> valid_name s = true -> atoi (lookup 99 en s) = atoi (env_get en s).
Proof.
  intros HI Hs. change 99%nat with (S 98). rewrite lookup_S. rewrite Hs.
  destruct (env_get en s) as [|c l] eqn:E.
  - rewrite (atoi_name s Hs). reflexivity.
  - destruct (HI s) as [H0|[Hn _]]; rewrite E in *; [discriminate|].
    rewrite lookup_not_name by exact Hn. reflexivity.
Qed.

(* ---------------- the whole-expression theorem *)
Section Eval.
  Variable V : str -> env -> env * bval.
  Hypothesis HV : forall s en, Inv en ->
    V s en = (en, BV (atoi (env_get en s))) \/ V s en = (en, BU).

  Definition Pe (e : expr) : Prop :=
    forall en en' r, Inv en -> bash_step V e en = (en', r) -> r <> BU ->
      arithm e en = (en', to_res r) /\ Inv en'.

  Lemma sub_eval x : Pe x -> forall en, Inv en ->
    match bash_step V x en with
    | (en1, BV v) => arithm x en = (en1, Ok v) /\ Inv en1
    | (en1, BE c) => arithm x en = (en1, Err c) /\ Inv en1
    | (_, BU) => True
    end.
  Proof.
    intros HP en HI. destruct (bash_step V x en) as [en1 [v|c|]] eqn:E; auto;
      apply (HP en en1 _ HI E); discriminate.
  Qed.

  Ltac sub x Hx HI H :=
    let S := fresh "S" in
    pose proof (sub_eval x Hx _ HI) as S;
    let en1 := fresh "en1" in let v := fresh "v" in let c := fresh "c" in
    let A := fresh "A" in let I := fresh "I" in
    destruct (bash_step V x _) as [en1 [v|c|]];
    [destruct S as [A I]; rewrite A
    |destruct S as [A I]; rewrite A; inversion H; subst; split; [reflexivity|assumption]
    |inversion H; subst; congruence].

  Lemma chk_case z r : chk z = r -> r <> BU -> r = BV z /\ wrap64 z = z.
  Proof.
    unfold chk. destruct (in64 z) eqn:E; intros <- Hr; [|congruence]. split; [reflexivity|apply wrap64_id; exact E].
  Qed.

  Theorem eval_step : forall e, wf e = true -> no_index e = true -> lits_ok e = true -> Pe e.
  Proof.
    induction e as [e IH] using expr_size_ind. intros Hwf Hni Hlo.
    destruct e as [s|n i|x|o post x|o x y].
    - (* Word *)
      intros en en' r HI H Hr. cbn [bash_step arithm] in *.
      destruct (valid_name s) eqn:Hs.
      + destruct (HV s en HI) as [E|E]; rewrite E in H; inversion H; subst; [|congruence].
        rewrite (lookup_rd en' s HI Hs). split; [reflexivity|assumption].
      + simpl in Hlo. rewrite Hs in Hlo. simpl in Hlo.
        destruct (lit_value s) as [z|] eqn:El; [|discriminate].
        unfold chk in H. rewrite Hlo in H. inversion H; subst.
        rewrite lookup_not_name by exact Hs.
        rewrite (atoi_int_text s SNone s z); [split; [reflexivity|assumption]| |exact El|].
        * exists [], []. simpl. rewrite app_nil_r. auto.
        * unfold in64, two63 in *. lia.
    - discriminate.
    - (* Paren *)
      intros en en' r HI H Hr. cbn [bash_step arithm] in *. simpl in *.
      apply (IH x ltac:(simpl; lia) Hwf Hni Hlo en en' r HI H Hr).
    - (* Un *)
      simpl in Hni, Hlo.
      assert (Hinc : forall (isinc : bool) (o' : unop), (o' = Inc /\ isinc = true \/ o' = Dec /\ isinc = false) -> o = o' -> Pe (Un o post x)).
      { intros isinc o' Ho' ->. intros en en' r HI H Hr.
        assert (Hx : exists s, x = Word s /\ valid_name s = true).
        { destruct Ho' as [[-> _]|[-> _]]; simpl in Hwf; apply andb_prop in Hwf; destruct Hwf as [Hn _];
            destruct x; simpl in *; try discriminate; eauto. }
        destruct Hx as (s & -> & Hs).
        assert (Hb : bash_step V (Un o' post (Word s)) en =
                match V s en with
                | (en1, BV old) => match chk (if isinc then old + 1 else old - 1) with
                                   | BV val => (env_set en1 s (fmt_int val), BV (if post then old else val))
                                   | r => (en1, r) end
                | r => r end).
        { destruct Ho' as [[-> ->]|[-> ->]]; cbn [bash_step name_of]; rewrite Hs; reflexivity. }
        assert (Ha : arithm (Un o' post (Word s)) en =
                let old := atoi (env_get en s) in
                let val := wrap64 (if isinc then old + 1 else old - 1) in
                (env_set en s (fmt_int val), Ok (if post then old else val))).
        { destruct Ho' as [[-> ->]|[-> ->]]; reflexivity. }
        rewrite Hb in H. rewrite Ha. cbv zeta.
        destruct (HV s en HI) as [E|E]; rewrite E in H; [|inversion H; subst; congruence].
        destruct (chk (if isinc then atoi (env_get en s) + 1 else atoi (env_get en s) - 1)) as [val|c|] eqn:Ec.
        - destruct (chk_case _ _ Ec ltac:(discriminate)) as [Ev Ew]. inversion Ev; subst val.
          inversion H; subst. rewrite Ew. split; [reflexivity|apply Inv_set; assumption].
        - exfalso. unfold chk in Ec. destruct (in64 _); discriminate.
        - inversion H; subst; congruence. }
      destruct o.
      1-4: (simpl in Hwf; apply andb_prop in Hwf; destruct Hwf as [_ Hwx];
            intros en en' r HI H Hr; cbn [bash_step arithm] in *;
            sub x (IH x ltac:(simpl; lia) Hwx Hni Hlo) HI H;
            inversion H; subst; try (split; [reflexivity|assumption])).
      + (* Minus *)
        destruct (chk_case (- v) _ eq_refl Hr) as [Ev Ew]. rewrite Ev, Ew. split; [reflexivity|assumption].
      + apply (Hinc true Inc); auto.
      + apply (Hinc false Dec); auto.
    - (* Bin *)
      simpl in Hni, Hlo. apply andb_prop in Hni. destruct Hni as [Hnx Hny].
      apply andb_prop in Hlo. destruct Hlo as [Hlx Hly].
      destruct (is_assign o) eqn:Hassign.
      + (* assignment *)
        assert (Hw : name_shape x = true /\ wf y = true).
        { destruct o; simpl in *; try discriminate;
            apply andb_prop in Hwf; destruct Hwf as [Hwf Hy]; apply andb_prop in Hwf; destruct Hwf; auto. }
        destruct Hw as [Hn Hwy].
        assert (Hx : exists s, x = Word s /\ valid_name s = true) by (destruct x; simpl in *; try discriminate; eauto).
        destruct Hx as (s & -> & Hs).
        intros en en' r HI H Hr.
        assert (Hb : bash_step V (Bin o (Word s) y) en =
                match (match o with Assgn => (en, BV 0) | _ => V s en end) with
                | (en0, BV val) =>
                    match bash_step V y en0 with
                    | (en1, BV arg) =>
                        match bash_assgn_op o val arg with
                        | BV v => (env_set en1 s (fmt_int v), BV v)
                        | r => (en1, r)
                        end
                    | r => r
                    end
                | r => r
                end).
        { cbn [bash_step name_of]. rewrite Hassign, Hs. reflexivity. }
        assert (Ha : arithm (Bin o (Word s) y) en =
                match arithm y en with
                | (en1, Ok arg) =>
                    match assgn_op o (atoi (env_get en s)) arg with
                    | Ok v => (env_set en1 s (fmt_int v), Ok v)
                    | Err c => (en1, Err c)
                    | Panic => (en1, Panic)
                    end
                | r => r
                end).
        { cbn [arithm word_lit]. rewrite Hassign. reflexivity. }
        rewrite Hb in H. rewrite Ha.
        assert (Hread : exists val, (match o with Assgn => (en, BV 0) | _ => V s en end) = (en, BV val) /\
                   (o = Assgn \/ val = atoi (env_get en s)) \/
                   (match o with Assgn => (en, BV 0) | _ => V s en end) = (en, BU)).
        { destruct (HV s en HI) as [E|E]; destruct o; try discriminate;
            try (exists 0; left; split; [reflexivity|left; reflexivity]);
            try (exists (atoi (env_get en s)); left; split; [exact E|right; reflexivity]);
            try (exists 0; right; exact E). }
        destruct Hread as (val & [[Erd Hval]|Erd]); rewrite Erd in H; [|inversion H; subst; congruence].
        sub y (IH y ltac:(simpl; lia) Hwy Hny Hly) HI H.
        assert (Hop : assgn_op o (atoi (env_get en s)) v = assgn_op o val v).
        { destruct Hval as [-> | ->]; reflexivity. }
        rewrite Hop.
        destruct (bash_assgn_op o val v) as [z|c|] eqn:Eo.
        * rewrite (assgn_matches o val v Hassign) by (rewrite Eo; discriminate). rewrite Eo. simpl.
          inversion H; subst. split; [reflexivity|apply Inv_set; assumption].
        * rewrite (assgn_matches o val v Hassign) by (rewrite Eo; discriminate). rewrite Eo. simpl.
          inversion H; subst. split; [reflexivity|assumption].
        * inversion H; subst; congruence.
      + (* other binary operators *)
        destruct o; try discriminate; simpl in Hwf;
          try (apply andb_prop in Hwf; destruct Hwf as [Hwx Hwy];
               intros en en' r HI H Hr; cbn [bash_step arithm is_assign] in *;
               sub x (IH x ltac:(simpl; lia) Hwx Hnx Hlx) HI H;
               sub y (IH y ltac:(simpl; lia) Hwy Hny Hly) I H;
               inversion H; subst;
               match goal with |- (_, bin_arit ?o ?a ?b) = _ /\ _ =>
                 rewrite (bin_matches_all o a b) by assumption; split; [reflexivity|assumption] end).
        * (* && *)
          apply andb_prop in Hwf; destruct Hwf as [Hwx Hwy].
          intros en en' r HI H Hr; cbn [bash_step arithm is_assign] in *.
          sub x (IH x ltac:(simpl; lia) Hwx Hnx Hlx) HI H.
          destruct (v =? 0); [inversion H; subst; split; [reflexivity|assumption]|].
          sub y (IH y ltac:(simpl; lia) Hwy Hny Hly) I H.
          inversion H; subst; split; [reflexivity|assumption].
        * (* || *)
          apply andb_prop in Hwf; destruct Hwf as [Hwx Hwy].
          intros en en' r HI H Hr; cbn [bash_step arithm is_assign] in *.
          sub x (IH x ltac:(simpl; lia) Hwx Hnx Hlx) HI H.
          destruct (v =? 0); [|inversion H; subst; split; [reflexivity|assumption]].
          sub y (IH y ltac:(simpl; lia) Hwy Hny Hly) I H.
          inversion H; subst; split; [reflexivity|assumption].
        * (* ternary *)
          destruct y as [| | | |o2 a b]; try discriminate. destruct o2; try discriminate.
          apply andb_prop in Hwf; destruct Hwf as [Hwf Hwb]; apply andb_prop in Hwf; destruct Hwf as [Hwx Hwa].
          simpl in Hny, Hly. apply andb_prop in Hny; destruct Hny as [Hna Hnb].
          apply andb_prop in Hly; destruct Hly as [Hla Hlb].
          intros en en' r HI H Hr; cbn [bash_step arithm is_assign] in *.
          sub x (IH x ltac:(simpl; lia) Hwx Hnx Hlx) HI H.
          destruct (v =? 0).
          -- apply (IH b ltac:(simpl; lia) Hwb Hnb Hlb _ _ _ I H Hr).
          -- apply (IH a ltac:(simpl; lia) Hwa Hna Hla _ _ _ I H Hr).
  Qed.
End Eval.



Lemma bash_arith_unfold d e en :
  bash_arith d e en = bash_step (bash_var (match d with O => None | S d' => Some (bash_arith d') end)) e en.
Proof. destruct d; reflexivity. Qed.

Lemma HV_bash d : forall s en, Inv en ->
  bash_var (Some (bash_arith d)) s en = (en, BV (atoi (env_get en s))) \/
  bash_var (Some (bash_arith d)) s en = (en, BU).
Proof.
  intros s en HI. unfold bash_var. destruct (env_get en s) as [|c l] eqn:E.
  - left. reflexivity.
  - destruct (HI s) as [H0|(Hn & e' & Hp & Hev)]; rewrite E in *; [discriminate|].
    rewrite Hp. rewrite bash_arith_unfold. apply Hev.
Qed.

Theorem eval_matches_inv : forall d e en en' r,
  wf e = true -> no_index e = true -> lits_ok e = true -> Inv en ->
  bash_arith (S d) e en = (en', r) -> r <> BU -> arithm e en = (en', to_res r) /\ Inv en'.
Proof.
  intros d e en en' r Hw Hn Hl HI H Hr. rewrite bash_arith_unfold in H.
  exact (eval_step _ (HV_bash d) e Hw Hn Hl en en' r HI H Hr).
Qed.

(* ---------------- the scope as decidable predicates *)
Lemma Inv_of_lits en : Forall (fun kv => lit_text (snd kv)) en -> Inv en.
Proof.
  intros F m. induction en as [|[k v] r IH]; simpl.
  - left; reflexivity.
  - inversion F; subst. destruct (str_eqb k m); [|apply IH; assumption].
    simpl in H1. destruct H1 as [->|(sg & w & n & Hi & Hl)]; [left; reflexivity|].
    eapply text_ok_int; eauto.
Qed.

Lemma drop_blanks_spec s : exists ws, s = ws ++ drop_blanks s /\ forallb blank ws = true.
Proof.
  induction s as [|c r IH]; [exists []; auto|]. simpl. destruct (blank c) eqn:E.
  - destruct IH as (ws & Hs & Hb). exists (c :: ws). simpl. rewrite E, Hb. split; [f_equal; exact Hs|reflexivity].
  - exists []. auto.
Qed.

Lemma span_word_spec s : s = fst (span_word s) ++ snd (span_word s).
Proof.
  induction s as [|c r IH]; [reflexivity|]. simpl. destruct (blank c); [reflexivity|].
  destruct (span_word r) as [w t]. simpl in *. f_equal. exact IH.
Qed.

Lemma int_text_b_sound v : int_text_b v = true -> lit_text v.
Proof.
  unfold int_text_b. destruct v as [|c0 v0]; [left; reflexivity|]. intros H. right.
  destruct (drop_blanks_spec (c0 :: v0)) as (ws1 & Hv & Hb1). set (s1 := drop_blanks (c0 :: v0)) in *.
  set (s2 := match s1 with c :: r => if ((c =? 43) || (c =? 45))%N then r else s1 | [] => s1 end) in *.
  pose proof (span_word_spec s2) as Hs2. destruct (span_word s2) as [w t]. simpl in Hs2.
  apply andb_prop in H. destruct H as [Ht Hl]. destruct (lit_value w) as [n|] eqn:El; [|discriminate].
  assert (Hsg : exists sg, s1 = sign_text sg ++ s2).
  { subst s2. destruct s1 as [|c r]; [exists SNone; reflexivity|].
    destruct ((c =? 43)%N || (c =? 45)%N) eqn:E; [|exists SNone; reflexivity].
    destruct (c =? 43)%N eqn:E1; [exists SPlus; apply N.eqb_eq in E1; subst; reflexivity|].
    exists SMinus. assert (c = 45%N) by lia. subst. reflexivity. }
  destruct Hsg as (sg & Hs1). exists sg, w, n. split; [|exact El].
  exists ws1, t. rewrite Hv, Hs1, Hs2. auto.
Qed.

Lemma Inv_of_lits_b en : env_lits_b en = true -> Inv en.
Proof.
  intros H. apply Inv_of_lits. unfold env_lits_b in H. rewrite forallb_forall in H.
  apply Forall_forall. intros kv Hk. apply int_text_b_sound. apply H. exact Hk.
Qed.

Theorem eval_matches : forall e en, in_scope e en = true ->
  arithm e en = (fst (bash_eval e en), to_res (snd (bash_eval e en))).
Proof.
  intros e en H. unfold in_scope in H.
  repeat (apply andb_prop in H; destruct H as [H ?]).
  destruct (bash_eval e en) as [en' r] eqn:E. simpl in *.
  unfold bash_eval in E. change 1024%nat with (S 1023) in E.
  apply (eval_matches_inv 1023 e en en' r); auto.
  - apply Inv_of_lits_b; assumption.
  - destruct r; simpl in *; discriminate.
Qed.

Example in_scope_example :
  in_scope (Bin Comma (Bin AddAssgn (Word [120%N]) (Bin Mul (Word [121%N]) (Word [48%N;120%N;49%N;48%N])))
                      (Bin TernQuest (Bin Gtr (Word [120%N]) (Word [53%N]))
                         (Bin TernColon (Un Inc true (Word [121%N])) (Bin Quo (Word [49%N]) (Word [48%N])))))
           [([120%N], [32%N;45%N;51%N]); ([121%N], [49%N;54%N;35%N;102%N;102%N])] = true.
Proof. vm_compute. reflexivity. Qed.
