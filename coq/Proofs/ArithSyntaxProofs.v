(* Proofs/ArithSyntaxProofs.v — the parser of Expand/ArithSyntax.v realises exactly the precedence /
   associativity table: parse_tokens (print e) = e for every well-parenthesised tree, min_paren
   produces well-parenthesised trees and only adds ParenArithm nodes.  Fuel bounds are explicit
   (length of the printed tokens + 1), so no separate monotonicity lemma is needed. *)
From Verif Require Import Base.Str Expand.ArithSyntax.
From Coq Require Import ZifyN ZifyNat ZifyBool.

Fixpoint size (e : expr) : nat :=
  match e with
  | Word _ => 1
  | Index _ i => S (size i)
  | Paren x => S (size x)
  | Un _ _ x => S (size x)
  | Bin _ x y => S (size x + size y)
  end.

Lemma expr_size_ind (P : expr -> Prop) :
  (forall e, (forall e', (size e' < size e)%nat -> P e') -> P e) -> forall e, P e.
Proof.
  intros H e. remember (size e) as n eqn:Hn. revert e Hn.
  induction n as [n IH] using lt_wf_ind. intros e Hn. apply H. intros e' Hlt.
  apply (IH (size e')); [lia | reflexivity].
Qed.

(* ------------------------------------------------------------ stop tokens *)
Definition stops (k : nat) (r : list token) : Prop :=
  match r with
  | [] => True
  | TRParen :: _ | TRBrack :: _ => True
  | TOp o :: _ => k < prec o
  | _ => False
  end.

Lemma stops_mono j k r : j <= k -> stops k r -> stops j r.
Proof. intros Hjk. destruct r as [|[]]; simpl; auto. lia. Qed.

Lemma prec_ge_2 o : 2 <= prec o.
Proof. destruct o; simpl; lia. Qed.

Lemma stops_0_1 r : stops 0 r -> stops 1 r.
Proof. destruct r as [|[]]; simpl; auto. intros _. pose proof (prec_ge_2 o). lia. Qed.

Lemma op_in_level o k : op_in o (level_ops k) = true -> prec o = k.
Proof.
  do 16 (destruct k as [|k]; [destruct o; simpl; intros; try discriminate; reflexivity|]).
  simpl. discriminate.
Qed.

Section Steps.
  Variable R : nat -> list token -> pres.
  Variable L : nat -> option expr -> list token -> pres.

  Lemma tail_stops k v r : stops k r -> tail_step R L k v r = POk v r.
  Proof.
    destruct r as [|t r']; [reflexivity|]. destruct t; try reflexivity. simpl. intros H.
    unfold tail_step.
    destruct (Nat.eqb k 2) eqn:E2.
    { apply Nat.eqb_eq in E2. subst k. destruct o; simpl in *; try reflexivity; lia. }
    destruct (Nat.eqb k 13) eqn:E13.
    { apply Nat.eqb_eq in E13. subst k. destruct o; simpl in *; try reflexivity; lia. }
    destruct (Nat.eqb k 14) eqn:E14.
    { apply Nat.eqb_eq in E14. subst k. destruct o; simpl in *; try reflexivity; lia. }
    unfold tail_left. destruct (op_in o (level_ops k)) eqn:E; [|reflexivity].
    apply op_in_level in E. lia.
  Qed.

  Lemma level_step_SS k ts :
    level_step R L (S (S k)) ts =
    match level_step R L (S k) ts with POk v r => tail_step R L (S (S k)) v r | e => e end.
  Proof. reflexivity. Qed.

  Lemma climb1 ts e rest :
    unary_step R ts = POk (Some e) rest ->
    forall k, 1 <= k -> stops (pred k) rest ->
    level_step R L k ts = tail_step R L k (Some e) rest.
  Proof.
    intros Hu. induction k as [|k IH]; [lia|]. intros _ Hs. simpl in Hs.
    destruct k as [|k'].
    - change (level_step R L 1 ts) with (unary_step R ts). rewrite Hu.
      symmetry. apply tail_stops. apply stops_0_1. exact Hs.
    - rewrite level_step_SS. rewrite IH; [|lia|simpl; eapply stops_mono; [|exact Hs]; lia].
      rewrite tail_stops by exact Hs. reflexivity.
  Qed.

  Lemma climbj j ts e rest :
    2 <= j -> level_step R L j ts = POk (Some e) rest ->
    forall k, j < k -> stops (pred k) rest ->
    level_step R L k ts = tail_step R L k (Some e) rest.
  Proof.
    intros Hj Hl. induction k as [|k IH]; [lia|]. intros Hk Hs. simpl in Hs.
    destruct k as [|k']; [lia|]. rewrite level_step_SS.
    destruct (Nat.eq_dec (S k') j) as [->|Hne].
    - rewrite Hl. reflexivity.
    - rewrite IH; [|lia|simpl; eapply stops_mono; [|exact Hs]; lia].
      rewrite tail_stops by exact Hs. reflexivity.
  Qed.
End Steps.

(* ------------------------------------------------------------ first token of a printed tree *)
Definition starter (t : token) : Prop :=
  match t with
  | TLit _ | TLParen | TInc | TDec | TNot | TTilde | TOp Add | TOp Sub => True
  | _ => False
  end.

Lemma print_starts e : exists t r, print e = t :: r /\ starter t.
Proof.
  induction e as [s|n i IH|x IH|o post x IH|o x IHx y IHy]; simpl.
  - eexists _, _; split; [reflexivity|exact I].
  - eexists _, _; split; [reflexivity|exact I].
  - eexists _, _; split; [reflexivity|exact I].
  - destruct post.
    + destruct IH as (t & r & Hp & Hs). rewrite Hp. eexists _, _; split; [reflexivity|exact Hs].
    + eexists _, _; split; [reflexivity|]. destruct o; exact I.
  - destruct IHx as (t & r & Hp & Hs). rewrite Hp. eexists _, _; split; [reflexivity|exact Hs].
Qed.

Lemma star_fix_print e Y : star_fix (print e ++ Y) = print e ++ Y.
Proof.
  destruct (print_starts e) as (t & r & Hp & Hs). rewrite Hp.
  destruct t; simpl in *; try contradiction; try reflexivity. destruct o; try contradiction; reflexivity.
Qed.

Lemma starts_colon_print e Y : starts_colon (print e ++ Y) = false.
Proof.
  destruct (print_starts e) as (t & r & Hp & Hs). rewrite Hp.
  destruct t; simpl in *; try contradiction; try reflexivity. destruct o; try contradiction; reflexivity.
Qed.

(* ------------------------------------------------------------ the round trip *)
Lemma pa_S f k ts : pa (S f) k ts = level_step (pa f) (lp f) k ts.
Proof. reflexivity. Qed.
Lemma lp_S f k v ts : lp (S f) k v ts = tail_step (pa f) (lp f) k v ts.
Proof. reflexivity. Qed.

Definition LoopsB (m k : nat) (v : option expr) (ts : list token) (v' : option expr) (r' : list token) :=
  forall f, m <= f -> lp f k v ts = POk v' r'.

Definition rk (k : nat) := k = 2 \/ k = 13 \/ k = 14.

Definition Bst (e : expr) :=
  forall k rest m v' r', 1 <= k -> level_of e <= k -> stops (pred k) rest ->
    (level_of e = k -> rk k -> stops k rest) -> 1 <= m ->
    LoopsB m k (Some e) rest v' r' ->
    forall f, length (print e) + m <= f -> pa f k (print e ++ rest) = POk v' r'.

Definition Ast (e : expr) :=
  forall k rest, 1 <= k -> level_of e <= k -> stops k rest ->
    forall f, length (print e) + 1 <= f -> pa f k (print e ++ rest) = POk (Some e) rest.

Lemma loops_id k v rest : stops k rest -> LoopsB 1 k v rest v rest.
Proof. intros Hs f Hf. destruct f; [lia|]. rewrite lp_S. apply tail_stops. exact Hs. Qed.

Lemma loops_stop m k v rest v' r' :
  stops k rest -> 1 <= m -> LoopsB m k v rest v' r' -> v' = v /\ r' = rest.
Proof.
  intros Hs Hm H. specialize (H m (le_n _)). destruct m; [lia|]. rewrite lp_S in H.
  rewrite tail_stops in H by exact Hs. inversion H; auto.
Qed.

Lemma A_of_B e : Bst e -> Ast e.
Proof.
  intros HB k rest Hk Hl Hs f Hf.
  apply (HB k rest 1 (Some e) rest); auto.
  - eapply stops_mono; [|exact Hs]. lia.
  - apply loops_id. exact Hs.
Qed.

(* finishing from each kind of base *)
Lemma finish_unary e ts rest k m v' r' f :
  unary_step (pa f) ts = POk (Some e) rest ->
  1 <= k -> stops (pred k) rest -> LoopsB m k (Some e) rest v' r' -> m <= S f ->
  pa (S f) k ts = POk v' r'.
Proof.
  intros Hu Hk Hs HL Hm. rewrite pa_S. rewrite (climb1 _ _ _ _ _ Hu k Hk Hs).
  change (tail_step (pa f) (lp f) k (Some e) rest) with (lp (S f) k (Some e) rest).
  apply HL. exact Hm.
Qed.

Lemma finish_level j e ts rest k m v' r' f :
  2 <= j -> pa (S f) j ts = POk (Some e) rest -> j < k -> stops (pred k) rest ->
  LoopsB m k (Some e) rest v' r' -> m <= S f ->
  pa (S f) k ts = POk v' r'.
Proof.
  intros Hj Hl Hk Hs HL Hm. rewrite pa_S in *. rewrite (climbj _ _ j _ _ _ Hj Hl k Hk Hs).
  change (tail_step (pa f) (lp f) k (Some e) rest) with (lp (S f) k (Some e) rest).
  apply HL. exact Hm.
Qed.

(* value-level expressions: a statement about value_step, then B *)
Definition Vst (e : expr) :=
  forall rest f, stops 0 rest -> length (print e) <= S f ->
    value_step (pa f) (print e ++ rest) = POk (Some e) rest /\
    unary_step (pa f) (print e ++ rest) = value_step (pa f) (print e ++ rest).

Lemma B_of_V e : level_of e = 0 -> Vst e -> Bst e.
Proof.
  intros Hl HV k rest m v' r' Hk _ Hs _ Hm HL f Hf.
  destruct f as [|f]; [lia|].
  destruct (HV rest f) as [Hv Hu]; [eapply stops_mono; [|exact Hs]; lia | lia |].
  eapply finish_unary; eauto; [rewrite Hu; exact Hv | lia].
Qed.

(* own-level statement for levels >= 2 *)
Definition Ost (e : expr) :=
  forall rest m v' r', stops (pred (level_of e)) rest -> (rk (level_of e) -> stops (level_of e) rest) ->
    1 <= m -> LoopsB m (level_of e) (Some e) rest v' r' ->
    forall f, length (print e) + m <= f -> pa f (level_of e) (print e ++ rest) = POk v' r'.

Lemma B_of_O e : 2 <= level_of e -> Ost e -> Bst e.
Proof.
  intros Hj HO k rest m v' r' Hk Hl Hs Hrk Hm HL f Hf.
  destruct (Nat.eq_dec (level_of e) k) as [E|E].
  - subst k. apply (HO rest m v' r'); auto.
  - destruct f as [|f]; [lia|].
    assert (Hsj : stops (level_of e) rest) by (eapply stops_mono; [|exact Hs]; lia).
    eapply (finish_level (level_of e)); eauto; try lia.
    apply (HO rest 1 (Some e) rest); auto.
    + eapply stops_mono; [|exact Hsj]; lia.
    + apply loops_id; exact Hsj.
    + lia.
Qed.

Lemma post_step_stops x rest : stops 0 rest -> post_step x rest = POk (Some x) rest.
Proof. destruct rest as [|[]]; simpl; intros; try contradiction; reflexivity. Qed.

Lemma value_lit s rest R :
  stops 0 rest -> value_step R (TLit s :: rest) = POk (Some (Word s)) rest.
Proof. destruct rest as [|[]]; simpl; intros; try contradiction; reflexivity. Qed.

Local Opaque pa lp.

Lemma V_word s : Vst (Word s).
Proof. intros rest f Hs Hf. split; [apply value_lit; exact Hs | reflexivity]. Qed.

Lemma level_le_15 x : wp x = true -> level_of x <= 15.
Proof.
  destruct x as [| | |[]|o]; simpl; try lia. destruct o; simpl; lia.
Qed.

Lemma V_paren x : Ast x -> level_of x <= 15 -> Vst (Paren x).
Proof.
  intros HA Hlv rest f Hs Hf. simpl in *. rewrite app_length in Hf. simpl in Hf.
  split; [|reflexivity].
  rewrite <- app_assoc. simpl. unfold value_step.
  rewrite (HA 15 (TRParen :: rest)); [|lia|exact Hlv|exact I|lia].
  apply post_step_stops. exact Hs.
Qed.

Lemma V_index n i : Ast i -> level_of i <= 15 -> Vst (Index n i).
Proof.
  intros HA Hlv rest f Hs Hf. simpl in *. rewrite app_length in Hf. simpl in Hf.
  split; [|reflexivity].
  rewrite <- app_assoc. simpl. unfold value_step. rewrite star_fix_print.
  rewrite (HA 15 (TRBrack :: rest)); [|lia|exact Hlv|exact I|lia].
  apply post_step_stops. exact Hs.
Qed.

(* names: Word with a valid name, or an index expression *)
Lemma V_name x : name_shape x = true -> (forall i n, x = Index n i -> Ast i /\ level_of i <= 15) -> Vst x.
Proof.
  intros Hn Hi. destruct x; try discriminate.
  - apply V_word.
  - destruct (Hi x name eq_refl). apply V_index; assumption.
Qed.

Lemma name_level x : name_shape x = true -> level_of x = 0.
Proof. destruct x; simpl; try discriminate; reflexivity. Qed.

Lemma name_is_name x : name_shape x = true -> is_name_expr (Some x) = true.
Proof. destruct x; simpl; try discriminate; auto. Qed.

Lemma pa_0 f ts : pa (S f) 0 ts = value_step (pa f) ts.
Proof. Local Transparent pa. reflexivity. Local Opaque pa. Qed.

Lemma V_preinc (o : unop) x : (o = Inc \/ o = Dec) -> name_shape x = true -> Vst x -> Vst (Un o false x).
Proof.
  intros Ho Hn HV rest f Hs Hf.
  assert (Hlen : length (print (Un o false x)) = S (length (print x))) by (destruct Ho; subst; reflexivity).
  rewrite Hlen in Hf.
  assert (Hhead : exists s r, print x = TLit s :: r) by (destruct x; try discriminate; simpl; eauto).
  destruct Hhead as (s & r & Hp).
  destruct f as [|f]; [rewrite Hp in Hf; simpl in Hf; lia|].
  destruct (HV rest f Hs ltac:(lia)) as [Hv _].
  assert (Hpre : pre_incdec (pa (S f)) o (print x ++ rest) = POk (Some (Un o false x)) rest).
  { unfold pre_incdec. rewrite pa_0, Hv. rewrite Hp. reflexivity. }
  destruct Ho; subst o; simpl; split; try reflexivity; exact Hpre.
Qed.

Lemma V_postinc (o : unop) x :
  (o = Inc \/ o = Dec) -> name_shape x = true ->
  (forall i n, x = Index n i -> Ast i /\ level_of i <= 15) -> Vst (Un o true x).
Proof.
  intros Ho Hn Hi rest f Hs Hf.
  assert (Hlen : length (print (Un o true x)) = S (length (print x))).
  { destruct Ho; subst; simpl; rewrite app_length; simpl; lia. }
  rewrite Hlen in Hf.
  assert (Hpr : print (Un o true x) ++ rest = print x ++ untok o :: rest).
  { destruct Ho; subst; simpl; rewrite <- app_assoc; reflexivity. }
  rewrite Hpr.
  pose proof (name_is_name x Hn) as Hnm.
  destruct x; try discriminate.
  - simpl. split; [|reflexivity]. simpl in Hnm. destruct Ho; subst o; simpl; rewrite Hnm; reflexivity.
  - destruct (Hi x name eq_refl) as [HA Hlv]. simpl in Hf. rewrite app_length in Hf. simpl in Hf.
    simpl. split; [|reflexivity]. rewrite <- app_assoc. simpl. unfold value_step. rewrite star_fix_print.
    rewrite (HA 15 (TRBrack :: untok o :: rest)); [|lia|exact Hlv|exact I|lia].
    destruct Ho; subst o; reflexivity.
Qed.

Lemma B_un (o : unop) x :
  (o = Not \/ o = BitNeg \/ o = Plus \/ o = Minus) -> Ast x -> level_of x <= 1 -> Bst (Un o false x).
Proof.
  intros Ho HA Hlv k rest m v' r' Hk Hl Hs Hrk Hm HL f Hf.
  assert (Hlen : length (print (Un o false x)) = S (length (print x))) by reflexivity.
  rewrite Hlen in Hf. destruct f as [|f]; [lia|].
  assert (Hs1 : stops 1 rest) by (apply stops_0_1; eapply stops_mono; [|exact Hs]; lia).
  eapply finish_unary; eauto; [|lia].
  destruct Ho as [->|[->|[->| ->]]]; simpl; unfold un_step;
    (rewrite (HA 1 rest); [reflexivity|lia|exact Hlv|exact Hs1|lia]).
Qed.

Definition left_op (o : binop) : bool :=
  negb (is_assign o) && negb (rassoc o) && negb (binop_eqb o TernColon).

Lemma left_prec o : left_op o = true -> 3 <= prec o /\ ~ rk (prec o) /\ op_in o (level_ops (prec o)) = true.
Proof. unfold rk. destruct o; simpl; try discriminate; intros _; repeat split; try lia; reflexivity. Qed.

Lemma left_tail o R L v ts' :
  left_op o = true ->
  tail_step R L (prec o) v (TOp o :: ts') = tail_left R L (prec o) v o (TOp o :: ts') ts'.
Proof. destruct o; simpl; try discriminate; reflexivity. Qed.

Lemma O_left o x y :
  left_op o = true -> Bst x -> Ast y ->
  level_of x <= prec o -> level_of y <= pred (prec o) -> Ost (Bin o x y).
Proof.
  intros Hlo HBx HAy Hlx Hly. destruct (left_prec o Hlo) as (H3 & Hnrk & Hin).
  unfold Ost. simpl level_of. intros rest m v' r' Hs Hrk Hm HL f Hf.
  simpl print in *. rewrite <- app_assoc. simpl. rewrite app_length in Hf. simpl in Hf.
  apply (HBx (prec o) (TOp o :: print y ++ rest) (S (Nat.max (length (print y) + 1) m)) v' r'); try lia.
  - simpl. lia.
  - intros _ Hr. contradiction.
  - intros f' Hf'. destruct f' as [|f'']; [lia|]. rewrite lp_S, left_tail by exact Hlo.
    unfold tail_left. rewrite Hin.
    rewrite (HAy (pred (prec o)) rest); [|lia|exact Hly|exact Hs|lia].
    apply HL. lia.
Qed.

Lemma O_pow x y :
  Bst x -> Ast y -> level_of x <= 1 -> level_of y <= 2 -> Ost (Bin Pow x y).
Proof.
  intros HBx HAy Hlx Hly. unfold Ost. simpl level_of. intros rest m v' r' Hs Hrk Hm HL f Hf.
  assert (Hs2 : stops 2 rest) by (apply Hrk; left; reflexivity).
  destruct (loops_stop _ _ _ _ _ _ Hs2 Hm HL) as [-> ->].
  simpl print in *. rewrite <- app_assoc. simpl. rewrite app_length in Hf. simpl in Hf.
  apply (HBx 2 (TOp Pow :: print y ++ rest) (S (length (print y) + 1))); try lia.
  - simpl. lia.
  - intros f' Hf'. destruct f' as [|f'']; [lia|]. rewrite lp_S.
    unfold tail_step. simpl Nat.eqb. cbv iota. unfold tail_pow. simpl binop_eqb. cbv iota.
    rewrite (HAy 2 rest); [reflexivity|lia|exact Hly|exact Hs2|lia].
Qed.

Lemma O_tern c a b :
  Bst c -> Ast a -> Ast b -> level_of c <= 12 -> level_of a <= 15 -> level_of b <= 13 ->
  Ost (Bin TernQuest c (Bin TernColon a b)).
Proof.
  intros HBc HAa HAb Hlc Hla Hlb. unfold Ost. simpl level_of. intros rest m v' r' Hs Hrk Hm HL f Hf.
  assert (Hs2 : stops 13 rest) by (apply Hrk; right; left; reflexivity).
  destruct (loops_stop _ _ _ _ _ _ Hs2 Hm HL) as [-> ->].
  simpl print in *. repeat (rewrite <- app_assoc; simpl).
  repeat (rewrite app_length in Hf; simpl in Hf).
  apply (HBc 13 (TOp TernQuest :: print a ++ TOp TernColon :: print b ++ rest)
             (S (length (print a) + length (print b) + 2))); try lia.
  - simpl. lia.
  - intros f' Hf'. destruct f' as [|f'']; [lia|]. rewrite lp_S.
    unfold tail_step. simpl Nat.eqb. cbv iota. unfold tail_tern. simpl binop_eqb. cbv iota.
    rewrite starts_colon_print.
    rewrite (HAa 15 (TOp TernColon :: print b ++ rest)); [|lia|exact Hla|simpl; lia|lia].
    rewrite (HAb 13 rest); [reflexivity|lia|exact Hlb|exact Hs2|lia].
Qed.

Lemma assign_prec o : is_assign o = true -> prec o = 14.
Proof. destruct o; simpl; try discriminate; reflexivity. Qed.

Lemma O_assign o x y :
  is_assign o = true -> name_shape x = true -> Bst x -> Ast y -> level_of y <= 14 -> Ost (Bin o x y).
Proof.
  intros Ho Hn HBx HAy Hly. unfold Ost. simpl level_of. rewrite (assign_prec o Ho).
  intros rest m v' r' Hs Hrk Hm HL f Hf.
  assert (Hs2 : stops 14 rest) by (apply Hrk; right; right; reflexivity).
  destruct (loops_stop _ _ _ _ _ _ Hs2 Hm HL) as [-> ->].
  simpl print in *. rewrite <- app_assoc. simpl. rewrite app_length in Hf. simpl in Hf.
  apply (HBx 14 (TOp o :: print y ++ rest) (S (length (print y) + 1))); try lia.
  - rewrite (name_level x Hn). lia.
  - simpl. rewrite (assign_prec o Ho). lia.
  - rewrite (name_level x Hn). intros; lia.
  - intros f' Hf'. destruct f' as [|f'']; [lia|]. rewrite lp_S.
    unfold tail_step. simpl Nat.eqb. cbv iota. unfold tail_assign. rewrite Ho.
    rewrite (name_is_name x Hn).
    rewrite (HAy 14 rest); [reflexivity|lia|exact Hly|exact Hs2|lia].
Qed.

(* ------------------------------------------------------------ main induction *)
Lemma wp_name_index x : name_shape x = true -> wp x = true ->
  forall i n, x = Index n i -> wp i = true /\ (size i < size x)%nat.
Proof. intros _ Hw i n ->. simpl in *. split; [exact Hw|lia]. Qed.

Lemma andb5 a b c d e : a && b && c && d && e = true -> a = true /\ b = true /\ c = true /\ d = true /\ e = true.
Proof. destruct a, b, c, d, e; simpl; intuition discriminate. Qed.
Lemma andb4 a b c d : a && b && c && d = true -> a = true /\ b = true /\ c = true /\ d = true.
Proof. destruct a, b, c, d; simpl; intuition discriminate. Qed.
Lemma andb3 a b c : a && b && c = true -> a = true /\ b = true /\ c = true.
Proof. destruct a, b, c; simpl; intuition discriminate. Qed.

Theorem B_all : forall e, wp e = true -> Bst e.
Proof.
  induction e as [e IH] using expr_size_ind. intros Hw.
  assert (IHA : forall e', (size e' < size e)%nat -> wp e' = true -> Ast e').
  { intros e' Hlt Hw'. apply A_of_B. apply IH; assumption. }
  assert (Hnames : forall x, (size x < size e)%nat -> name_shape x = true -> wp x = true ->
            forall i n, x = Index n i -> Ast i /\ level_of i <= 15).
  { intros x Hlt Hn Hwx i n ->. simpl in *. split; [apply IHA; [lia|exact Hwx] | apply level_le_15; exact Hwx]. }
  destruct e as [s|n i|x|o post x|o x y].
  - apply B_of_V; [reflexivity|apply V_word].
  - simpl in Hw. apply B_of_V; [reflexivity|]. apply V_index; [apply IHA; [simpl; lia|exact Hw] | apply level_le_15; exact Hw].
  - simpl in Hw. apply B_of_V; [reflexivity|]. apply V_paren; [apply IHA; [simpl; lia|exact Hw] | apply level_le_15; exact Hw].
  - destruct o; simpl in Hw;
      try (apply andb3 in Hw; destruct Hw as (Hp & Hlv & Hwx); destruct post; try discriminate;
           apply B_un; [tauto | apply IHA; [simpl; lia|exact Hwx] | apply Nat.leb_le; exact Hlv]).
    + apply andb_prop in Hw; destruct Hw as [Hn Hwx].
      destruct post; (apply B_of_V; [reflexivity|]).
      * apply V_postinc; [tauto|exact Hn|]. apply (Hnames x); [simpl; lia|exact Hn|exact Hwx].
      * apply V_preinc; [tauto|exact Hn|]. apply V_name; [exact Hn|]. apply (Hnames x); [simpl; lia|exact Hn|exact Hwx].
    + apply andb_prop in Hw; destruct Hw as [Hn Hwx].
      destruct post; (apply B_of_V; [reflexivity|]).
      * apply V_postinc; [tauto|exact Hn|]. apply (Hnames x); [simpl; lia|exact Hn|exact Hwx].
      * apply V_preinc; [tauto|exact Hn|]. apply V_name; [exact Hn|]. apply (Hnames x); [simpl; lia|exact Hn|exact Hwx].
  - assert (Hcases :
      (o = TernQuest /\ exists a b, y = Bin TernColon a b /\ level_of x <= 12 /\ wp x = true /\ wp a = true /\ level_of b <= 13 /\ wp b = true) \/
      (is_assign o = true /\ name_shape x = true /\ wp x = true /\ level_of y <= 14 /\ wp y = true) \/
      (o = Pow /\ level_of x <= 1 /\ level_of y <= 2 /\ wp x = true /\ wp y = true) \/
      (left_op o = true /\ level_of x <= prec o /\ level_of y <= pred (prec o) /\ wp x = true /\ wp y = true)).
    { destruct o; simpl in Hw; try discriminate;
        try (right; right; right; apply andb4 in Hw; destruct Hw as (H1 & H2 & H3 & H4);
             apply Nat.leb_le in H1; apply Nat.leb_le in H2; simpl in *; repeat split; assumption);
        try (right; left; apply andb4 in Hw; destruct Hw as (H1 & H2 & H3 & H4);
             apply Nat.leb_le in H3; repeat split; assumption).
      - right; right; left. apply andb4 in Hw; destruct Hw as (H1 & H2 & H3 & H4).
        apply Nat.leb_le in H1; apply Nat.leb_le in H2. simpl in *. repeat split; assumption.
      - left. split; [reflexivity|]. destruct y as [| | | |o2 a b]; try discriminate. destruct o2; try discriminate.
        apply andb5 in Hw; destruct Hw as (H1 & H2 & H3 & H4 & H5).
        apply Nat.leb_le in H1; apply Nat.leb_le in H4. exists a, b. repeat split; assumption. }
    destruct Hcases as [(-> & a & b & -> & Hlx & Hwx & Hwa & Hlb & Hwb) | [(Ha & Hn & Hwx & Hly & Hwy) | [(-> & Hlx & Hly & Hwx & Hwy) | (Hlo & Hlx & Hly & Hwx & Hwy)]]].
    + apply B_of_O; [simpl; lia|]. apply O_tern; auto; try (apply IHA; [simpl; lia|assumption]).
      * apply IH; [simpl; lia|assumption].
      * apply level_le_15; assumption.
    + apply B_of_O; [simpl; rewrite (assign_prec o Ha); lia|]. apply O_assign; auto.
      * apply IH; [simpl; lia|assumption].
      * apply IHA; [simpl; lia|assumption].
    + apply B_of_O; [simpl; lia|]. apply O_pow; auto.
      * apply IH; [simpl; lia|assumption].
      * apply IHA; [simpl; lia|assumption].
    + apply B_of_O; [simpl; destruct (left_prec o Hlo); lia|]. apply O_left; auto.
      * apply IH; [simpl; lia|assumption].
      * apply IHA; [simpl; lia|assumption].
Qed.

Theorem parse_print_wp : forall e, wp e = true -> parse_tokens (print e) = Some (Some e, []).
Proof.
  intros e Hw. unfold parse_tokens.
  pose proof (A_of_B e (B_all e Hw) 15 [] ltac:(lia) (level_le_15 e Hw) I (S (length (print e))) ltac:(lia)) as H.
  rewrite app_nil_r in H. rewrite H. reflexivity.
Qed.

(* ------------------------------------------------------------ min_paren produces well-parenthesised trees *)
Lemma level_par k e : Nat.leb (level_of (par k e)) k = true.
Proof. unfold par. destruct (Nat.leb (level_of e) k) eqn:E; [exact E|reflexivity]. Qed.

Lemma wp_par k e : wp (par k e) = wp e.
Proof. unfold par. destruct (Nat.leb (level_of e) k); reflexivity. Qed.

Lemma strip_par k e : strip (par k e) = strip e.
Proof. unfold par. destruct (Nat.leb (level_of e) k); reflexivity. Qed.

Lemma name_shape_mp x : name_shape x = true -> name_shape (min_paren x) = true.
Proof. destruct x; simpl; try discriminate; auto. Qed.

Theorem min_paren_wp : forall e, wf e = true -> wp (min_paren e) = true.
Proof.
  induction e as [e IH] using expr_size_ind. intros Hw.
  destruct e as [s|n i|x|o post x|o x y]; simpl in *.
  - reflexivity.
  - apply IH; [lia|exact Hw].
  - apply IH; [lia|exact Hw].
  - destruct o; simpl in *;
      try (apply andb_prop in Hw; destruct Hw as [Hp Hwx]; rewrite Hp, level_par, wp_par; simpl;
           apply IH; [lia|exact Hwx]);
      (apply andb_prop in Hw; destruct Hw as [Hn Hwx]; rewrite (name_shape_mp x Hn); simpl;
       apply IH; [lia|exact Hwx]).
  - destruct o; simpl in *; try discriminate;
      try (apply andb_prop in Hw; destruct Hw as [Hwx Hwy];
           rewrite !level_par, !wp_par; simpl; rewrite (IH x), (IH y); auto; lia);
      try (apply andb_prop in Hw; destruct Hw as [Hw Hwy]; apply andb_prop in Hw; destruct Hw as [Hn Hwx];
           rewrite (name_shape_mp x Hn), !level_par, !wp_par; simpl; rewrite (IH x), (IH y); auto; lia).
    destruct y as [| | | |o2 a b]; try discriminate. destruct o2; try discriminate.
    apply andb_prop in Hw; destruct Hw as [Hw Hwb]; apply andb_prop in Hw; destruct Hw as [Hwx Hwa].
    simpl in *. rewrite !level_par, !wp_par. simpl.
    rewrite (IH x), (IH a), (IH b); auto; simpl; lia.
Qed.

Theorem strip_min_paren : forall e, strip (min_paren e) = strip e.
Proof.
  induction e as [e IH] using expr_size_ind.
  destruct e as [s|n i|x|o post x|o x y]; simpl.
  - reflexivity.
  - rewrite IH; [reflexivity|simpl; lia].
  - apply IH; simpl; lia.
  - destruct o; simpl; rewrite ?strip_par, IH; try reflexivity; simpl; lia.
  - assert (Hx : strip (min_paren x) = strip x) by (apply IH; simpl; lia).
    assert (Hy : strip (min_paren y) = strip y) by (apply IH; simpl; lia).
    destruct o; simpl; rewrite ?strip_par, ?Hx, ?Hy; try reflexivity.
    destruct y as [| | | |o2 a b]; simpl; rewrite ?Hx; try (simpl in Hy; rewrite ?Hy; reflexivity).
    destruct o2; simpl; rewrite ?strip_par, ?Hx; rewrite ?(IH a), ?(IH b) by (simpl; lia); try reflexivity;
      simpl in Hy; rewrite ?strip_par in Hy; try (rewrite Hy; reflexivity); try (injection Hy as -> ->; reflexivity).
Qed.

Theorem parse_print_min : forall e, wf e = true ->
  parse_tokens (print_min e) = Some (Some (min_paren e), []) /\ strip (min_paren e) = strip e.
Proof.
  intros e Hw. split; [|apply strip_min_paren].
  unfold print_min. apply parse_print_wp. apply min_paren_wp. exact Hw.
Qed.

(* the level table of the Go chain is exactly the Spec table *)
Theorem level_ops_table : forall o k, op_in o (level_ops k) = true <->
  (prec o = k /\ is_assign o = false /\ rassoc o = false /\ o <> TernColon).
Proof.
  intros o k. split.
  - intros H. pose proof (op_in_level o k H) as Hp. subst k.
    destruct o; simpl in *; try discriminate; repeat split; discriminate.
  - intros (Hp & Ha & Hr & Hc). subst k. destruct o; simpl in *; try discriminate; try reflexivity.
    contradiction.
Qed.
