(* Proofs/PiecesProofs.v — soundness and completeness of the translation w.r.t. bash's rule on the second fragment
   (literals, escapes, * ?, bracket expressions with plain/escaped runes, ranges, negation, "]" first). *)
From Verif Require Import Base.Str Pattern.Regex Pattern.Translate Pattern.GlobSpec Pattern.Fragment
  Proofs.RegexProofs Proofs.TranslateProofs Proofs.BracketSpecProofs Proofs.BracketGoProofs.
From Coq Require Import ZifyN ZifyNat ZifyBool.
Open Scope N_scope.

Notation M := (matches orbit_id).

Lemma pat_text_cons : forall pc ps, pat_text (pc :: ps) = piece_text pc ++ pat_text ps.
Proof. reflexivity. Qed.

(* --- one piece = one regexpNext step ------------------------------------------------------ *)
Lemma piece_step : forall m k pc rest pv, m_ext m = false -> m_filenames m = false -> piece_ok pc = true ->
  exists txt, regexp_next (S k) m {| lprev := pv; lrest := piece_text pc ++ rest |} =
              SOk txt (OOk (piece_re pc)) {| lprev := rev (piece_text pc) ++ pv; lrest := rest |}.
Proof.
  intros m k pc rest pv Hx Hfn Hok. rewrite regexp_next_noext by auto.
  destruct pc as [c|c| | |neg rb es]; simpl in Hok.
  - apply negb_true_iff in Hok. repeat rewrite orb_false_iff in Hok. destruct Hok as ((((E0 & E1) & E2) & E3) & E4).
    cbn [piece_text app lnext lrest lprev fst snd]. unfold plain_next. rewrite E0, E1, E2, E4, E3. eexists. reflexivity.
  - apply negb_true_iff in Hok. cbn [piece_text app lnext lrest lprev fst snd]. unfold plain_next.
    change (cBSL =? 0) with false. change (cBSL =? cSTAR) with false. change (cBSL =? cQUEST) with false.
    change (cBSL =? cBSL) with true. cbn iota. cbn [lnext lrest lprev]. rewrite Hok. eexists. reflexivity.
  - cbn [piece_text app lnext lrest lprev fst snd]. unfold plain_next. change (cSTAR =? 0) with false.
    change (cSTAR =? cSTAR) with true. cbn iota. rewrite Hfn. eexists. reflexivity.
  - cbn [piece_text app lnext lrest lprev fst snd]. unfold plain_next. change (cQUEST =? 0) with false.
    change (cQUEST =? cSTAR) with false. change (cQUEST =? cQUEST) with true. cbn iota. rewrite Hfn. eexists. reflexivity.
  - rewrite piece_text_set. cbn [app lnext lrest lprev fst snd]. unfold plain_next.
    change (cLBRK =? 0) with false. change (cLBRK =? cSTAR) with false. change (cLBRK =? cQUEST) with false.
    change (cLBRK =? cBSL) with false. change (cLBRK =? cLBRK) with true. cbn iota. rewrite Hfn.
    destruct (bracket_set neg rb es rest (cLBRK :: pv) Hok) as [txt Ht]. exists txt. rewrite Ht. f_equal.
    f_equal. simpl. rewrite <- app_assoc. reflexivity.
Qed.

Lemma piece_text_nonempty : forall pc, (1 <= length (piece_text pc))%nat.
Proof. destruct pc; simpl; lia. Qed.

Lemma top_loop_pieces : forall m, m_ext m = false -> m_filenames m = false ->
  forall ps fuel pv txt acc, forallb piece_ok ps = true -> (length ps < fuel)%nat ->
  exists txt', top_loop fuel m {| lprev := pv; lrest := pat_text ps |} txt (OOk acc) [] =
               TOk txt' (m_entire m) (m_entire m) (OOk (pat_re acc ps)).
Proof.
  intros m Hx Hfn. induction ps as [|pc ps IH]; intros fuel pv txt acc Hok Hl.
  - destruct fuel; [simpl in Hl; lia|]. cbn [top_loop pat_text flat_map lrest length]. rewrite regexp_next_noext by auto.
    cbn. eexists. reflexivity.
  - simpl in Hok. apply andb_true_iff in Hok as [Hpc Hps]. destruct fuel; [simpl in Hl; lia|].
    cbn [top_loop]. rewrite pat_text_cons. cbn [lrest].
    destruct (piece_step m (S (length (piece_text pc ++ pat_text ps))) pc (pat_text ps) pv Hx Hfn Hpc) as [t Ht].
    rewrite Ht. cbn [ocat pat_re fold_left]. apply IH; auto. simpl in Hl. lia.
Qed.

(* --- the AST denotes the direct language ---------------------------------------------------- *)
Lemma items_mem_set : forall rb es x,
  items_mem (set_items rb es) x = (rb && (x =? cRBRK)) || existsb (elem_mem x) es.
Proof.
  intros rb es x. unfold set_items, items_mem. rewrite existsb_app.
  assert (E : existsb (fun it => item_mem it x) (map elem_item es) = existsb (elem_mem x) es).
  { induction es as [|e es IH]; [reflexivity|]. simpl. rewrite IH. destruct e; reflexivity. }
  rewrite E. destruct rb; simpl; rewrite ?orb_false_r; reflexivity.
Qed.

Lemma m_set_iff : forall neg rb es s,
  M (RSet (is_some neg) (set_items rb es)) s <-> exists x, s = [x] /\ set_accepts neg rb es x = true.
Proof.
  intros. unfold set_accepts. split.
  - intros H. inversion H as [| | |? ? x Hs| | | | | | | | |]; subst. exists x. split; auto.
    unfold set_ok, orbit_id in Hs. simpl in Hs. rewrite orb_false_r, items_mem_set in Hs. exact Hs.
  - intros (x & -> & Hs). constructor. unfold set_ok, orbit_id. simpl. rewrite orb_false_r, items_mem_set. exact Hs.
Qed.

Lemma pat_re_sem : forall ps acc s, forallb piece_ok ps = true ->
  (M (pat_re acc ps) s <-> exists s1 s2, s = s1 ++ s2 /\ M acc s1 /\ glang ps s2).
Proof.
  induction ps as [|pc ps IH]; intros acc s Hok.
  - simpl. split.
    + intros H. exists s, []. rewrite app_nil_r. auto.
    + intros (s1 & s2 & -> & H1 & ->). rewrite app_nil_r. auto.
  - simpl in Hok. apply andb_true_iff in Hok as [_ Hps]. cbn [pat_re fold_left].
    change (fold_left (fun a pc0 => RCat a (piece_re pc0)) ps (RCat acc (piece_re pc))) with (pat_re (RCat acc (piece_re pc)) ps).
    rewrite IH by auto. destruct pc as [c|c| | |neg rb es]; cbn [piece_re glang].
    + split.
      * intros (s1 & s2 & -> & H1 & H2). apply m_cat_iff in H1 as (t1 & t2 & -> & Ha & Hb). apply m_char_iff in Hb as ->.
        exists t1, (c :: s2). rewrite <- app_assoc. eauto.
      * intros (s1 & s2 & -> & H1 & (s' & -> & H2)). exists (s1 ++ [c]), s'. rewrite <- app_assoc. split; auto. split; auto.
        apply m_cat_iff. exists s1, [c]. split; auto. split; auto. apply m_char_iff. auto.
    + split.
      * intros (s1 & s2 & -> & H1 & H2). apply m_cat_iff in H1 as (t1 & t2 & -> & Ha & Hb). apply m_char_iff in Hb as ->.
        exists t1, (c :: s2). rewrite <- app_assoc. eauto.
      * intros (s1 & s2 & -> & H1 & (s' & -> & H2)). exists (s1 ++ [c]), s'. rewrite <- app_assoc. split; auto. split; auto.
        apply m_cat_iff. exists s1, [c]. split; auto. split; auto. apply m_char_iff. auto.
    + split.
      * intros (s1 & s2 & -> & H1 & H2). apply m_cat_iff in H1 as (t1 & t2 & -> & Ha & _).
        exists t1, (t2 ++ s2). rewrite app_assoc. split; auto. split; auto. exists t2, s2. auto.
      * intros (s1 & s2 & -> & H1 & (u1 & u2 & -> & H2)). exists (s1 ++ u1), u2. rewrite app_assoc. split; auto. split; auto.
        apply m_cat_iff. exists s1, u1. split; auto. split; auto. apply m_star_any.
    + split.
      * intros (s1 & s2 & -> & H1 & H2). apply m_cat_iff in H1 as (t1 & t2 & -> & Ha & Hb). apply m_any_iff in Hb as [x ->].
        exists t1, (x :: s2). rewrite <- app_assoc. split; auto. split; auto. exists x, s2. auto.
      * intros (s1 & s2 & -> & H1 & (x & s' & -> & H2)). exists (s1 ++ [x]), s'. rewrite <- app_assoc. split; auto. split; auto.
        apply m_cat_iff. exists s1, [x]. split; auto. split; auto. constructor.
    + split.
      * intros (s1 & s2 & -> & H1 & H2). apply m_cat_iff in H1 as (t1 & t2 & -> & Ha & Hb).
        apply m_set_iff in Hb as (x & -> & Hx).
        exists t1, (x :: s2). rewrite <- app_assoc. split; auto. split; auto. exists x, s2. auto.
      * intros (s1 & s2 & -> & H1 & (x & s' & -> & Hx & H2)). exists (s1 ++ [x]), s'. rewrite <- app_assoc. split; auto. split; auto.
        apply m_cat_iff. exists s1, [x]. split; auto. split; auto. apply m_set_iff. eauto.
Qed.

(* --- bash's rule on piece lists --------------------------------------------------------------- *)
Lemma stlb_cons2 : forall c n l, star_then_lone_backslash (c :: n :: l) = ((c =? cSTAR) || (c =? cQUEST)) && star_then_lone_backslash (n :: l).
Proof. reflexivity. Qed.

Lemma pieces_no_lone_backslash : forall ps, forallb piece_ok ps = true -> star_then_lone_backslash (pat_text ps) = false.
Proof.
  induction ps as [|pc ps IH]; intros Hok; [reflexivity|].
  simpl in Hok. apply andb_true_iff in Hok as [Hpc Hps]. rewrite pat_text_cons.
  destruct pc as [c|c| | |neg rb es]; simpl in Hpc.
  - apply negb_true_iff in Hpc. repeat rewrite orb_false_iff in Hpc. destruct Hpc as ((((E0 & E1) & E2) & E3) & E4).
    cbn [piece_text app star_then_lone_backslash]. rewrite E4, E1, E2. destruct (pat_text ps); reflexivity.
  - cbn [piece_text app star_then_lone_backslash]. reflexivity.
  - cbn [piece_text app]. specialize (IH Hps). destruct (pat_text ps) as [|n l]; [reflexivity|]. rewrite stlb_cons2, IH. apply andb_false_r.
  - cbn [piece_text app]. specialize (IH Hps). destruct (pat_text ps) as [|n l]; [reflexivity|]. rewrite stlb_cons2, IH. apply andb_false_r.
  - rewrite piece_text_set. cbn [app star_then_lone_backslash]. destruct (set_tail neg rb es ++ pat_text ps); reflexivity.
Qed.

Lemma gmatch_pieces : forall wc ps fuel s bos, forallb piece_ok ps = true -> (length (pat_text ps) < fuel)%nat ->
  (gmatch wc fuel f_plain (pat_text ps) s bos = true <-> glang ps s).
Proof.
  intros wc. induction ps as [|pc ps IH]; intros fuel s bos Hok Hl.
  - destruct fuel; [simpl in Hl; lia|]. cbn. destruct s; split; intros H; auto; discriminate.
  - simpl in Hok. apply andb_true_iff in Hok as [Hpc Hps]. rewrite pat_text_cons in *. rewrite app_length in Hl.
    destruct fuel; [lia|].
    destruct pc as [c|c| | |neg rb es]; simpl in Hpc; cbn [glang].
    + apply negb_true_iff in Hpc. repeat rewrite orb_false_iff in Hpc. destruct Hpc as ((((E0 & E1) & E2) & E3) & E4).
      cbn [piece_text app gmatch f_plain g_ext g_nocase g_pathname g_period andb]. rewrite E2, E1, E4, E3. cbn [andb].
      destruct s as [|x s'].
      * split; [discriminate|]. intros (s' & E & _). discriminate.
      * unfold fold1. cbn [andb]. rewrite andb_true_iff, N.eqb_eq, IH by (auto; simpl in Hl; lia). split.
        -- intros [-> H]. eauto.
        -- intros (s'' & E & H). injection E as -> ->. auto.
    + apply negb_true_iff in Hpc.
      cbn [piece_text app gmatch f_plain g_ext g_nocase g_pathname g_period andb].
      change (cBSL =? cQUEST) with false. change (cBSL =? cSTAR) with false. change (cBSL =? cBSL) with true. cbn [andb].
      destruct s as [|x s'].
      * split; [discriminate|]. intros (s' & E & _). discriminate.
      * unfold fold1. cbn [andb]. rewrite andb_true_iff, N.eqb_eq, IH by (auto; simpl in Hl; lia). split.
        -- intros [-> H]. eauto.
        -- intros (s'' & E & H). injection E as -> ->. auto.
    + cbn [piece_text app gmatch f_plain g_ext g_nocase g_pathname g_period andb].
      change (cSTAR =? cQUEST) with false. change (cSTAR =? cSTAR) with true.
      rewrite pieces_no_lone_backslash by auto. cbn [andb].
      destruct s as [|x s'].
      * rewrite IH by (auto; simpl in Hl; lia). split.
        -- intros H. exists [], []. auto.
        -- intros (s1 & s2 & E & H). symmetry in E. apply app_eq_nil in E as [-> ->]. auto.
      * apply star_loop_iff; [reflexivity|]. intros s0 b. apply IH; auto. simpl in Hl. lia.
    + cbn [piece_text app gmatch f_plain g_ext g_nocase g_pathname g_period andb].
      change (cQUEST =? cQUEST) with true. cbn iota.
      destruct s as [|x s'].
      * split; [discriminate|]. intros (x & s' & E & _). discriminate.
      * cbn [negb andb]. rewrite IH by (auto; simpl in Hl; lia). split.
        -- intros H. exists x, s'. auto.
        -- intros (x' & s'' & E & H). injection E as -> ->. auto.
    + rewrite piece_text_set in *. cbn [app gmatch f_plain g_ext g_nocase g_pathname g_period andb].
      change (cLBRK =? cQUEST) with false. change (cLBRK =? cSTAR) with false. change (cLBRK =? cBSL) with false.
      change (cLBRK =? cLBRK) with true. cbn [andb].
      destruct s as [|x s'].
      * split; [discriminate|]. intros (x & s' & E & _). discriminate.
      * assert (Hok' : piece_ok (PSet neg rb es) = true) by exact Hpc.
        rewrite (brackmatch_set wc neg rb es (pat_text ps) x Hok').
        destruct (set_accepts neg rb es x) eqn:Ea.
        -- rewrite IH by (auto; simpl in Hl; lia). split.
           ++ intros H. exists x, s'. auto.
           ++ intros (x' & s'' & E & _ & H). injection E as -> ->. auto.
        -- split; [discriminate|]. intros (x' & s'' & E & Ha & _). injection E as -> ->. congruence.
Qed.

(* --- the theorem ------------------------------------------------------------------------------- *)
Theorem sound_complete_pieces : forall wc m ps txt bol eol body,
  m_entire m = true -> m_filenames m = false -> m_ext m = false -> m_nocase m = false ->
  forallb piece_ok ps = true -> translate m (pat_text ps) = TOk txt bol eol body ->
  exists r, body = OOk r /\ bol = true /\ eol = true /\
            forall s, M r s <-> glob_spec wc f_plain (pat_text ps) s = true.
Proof.
  intros wc m ps txt bol eol body He Hfn Hx _ Hok Ht.
  unfold translate in Ht. rewrite He in Ht. cbn [negb andb] in Ht.
  assert (Hlen : (length ps < S (length (pat_text ps)))%nat).
  { clear. induction ps as [|pc ps IH]; [simpl; lia|]. rewrite pat_text_cons, app_length. pose proof (piece_text_nonempty pc). simpl. lia. }
  destruct (top_loop_pieces m Hx Hfn ps (S (length (pat_text ps))) [] (header m) REps Hok Hlen) as [t Ht'].
  rewrite Ht' in Ht. rewrite He in Ht. injection Ht as <- <- <- <-.
  exists (pat_re REps ps). repeat split; auto.
  - intros H. unfold glob_spec. apply gmatch_pieces; auto; [unfold spec_fuel; nia|].
    apply pat_re_sem in H; auto. destruct H as (s1 & s2 & -> & H1 & H2). apply m_eps_iff in H1 as ->. auto.
  - intros H. unfold glob_spec in H. apply gmatch_pieces in H; auto; [|unfold spec_fuel; nia].
    apply pat_re_sem; auto. exists [], s. split; auto. split; auto. constructor.
Qed.

Theorem pieces_never_error : forall m ps,
  m_entire m = true -> m_filenames m = false -> m_ext m = false -> forallb piece_ok ps = true ->
  exists txt, translate m (pat_text ps) = TOk txt true true (OOk (pat_re REps ps)).
Proof.
  intros m ps He Hfn Hx Hok. unfold translate. rewrite He. cbn [negb andb].
  assert (Hlen : (length ps < S (length (pat_text ps)))%nat).
  { clear. induction ps as [|pc ps IH]; [simpl; lia|]. rewrite pat_text_cons, app_length. pose proof (piece_text_nonempty pc). simpl. lia. }
  destruct (top_loop_pieces m Hx Hfn ps (S (length (pat_text ps))) [] (header m) REps Hok Hlen) as [t Ht'].
  rewrite Ht', He. eauto.
Qed.

(* --- error iff malformed, on the one-range bracket shape [a-b] ----------------------------------- *)
Theorem range_error_iff : forall m a b,
  m_entire m = true -> m_filenames m = false -> m_ext m = false ->
  plainc a = true -> plainc b = true -> (a =? cBANG) || (a =? cCARET) = false ->
  (translate m [cLBRK; a; cDASH; b; cRBRK] = TErr (ERange a b) <-> b < a).
Proof.
  intros m a b He Hfn Hx Ha Hb Hna. split.
  - intros Ht. destruct (N.lt_ge_cases b a) as [H|H]; [exact H|exfalso].
    assert (Hok : forallb piece_ok [PSet None false [ERng a b]] = true).
    { simpl. rewrite Ha, Hb. cbn [andb]. replace (a <=? b) with true by (symmetry; apply N.leb_le; lia).
      cbn [andb orb]. rewrite Hna. reflexivity. }
    destruct (pieces_never_error m _ He Hfn Hx Hok) as [txt Ht']. simpl in Ht'. simpl in Ht. rewrite Ht' in Ht. discriminate.
  - intros Hlt. apply N.ltb_lt in Hlt.
    unfold translate. rewrite He. cbn [negb andb length]. cbn [top_loop lrest length]. rewrite regexp_next_noext by auto.
    cbn [lnext lrest lprev fst snd]. unfold plain_next.
    change (cLBRK =? 0) with false. change (cLBRK =? cSTAR) with false. change (cLBRK =? cQUEST) with false.
    change (cLBRK =? cBSL) with false. change (cLBRK =? cLBRK) with true. cbn iota. rewrite Hfn.
    unfold bracket. cbn [lnext lrest lprev length].
    pose proof (plainc_inv a Ha) as (A0 & _ & _ & A3 & _). rewrite A0, Hna, A0, A3.
    match goal with |- context [bracket_loop ?F false false ?L a _ true ?S0] =>
      change (bracket_loop F false false L a {| lprev := [a; cLBRK]; lrest := [cDASH; b; cRBRK] |} true S0)
        with (bl_at F false L [cLBRK] [a; cDASH; b; cRBRK] true S0);
      rewrite (bl_rev F false L [cLBRK] [] true S0 a b Ha Hb Hlt eq_refl eq_refl eq_refl) by lia end.
    reflexivity.
Qed.
