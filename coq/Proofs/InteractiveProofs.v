From Coq Require Import List Arith Bool Lia.
From Verif Require Import Syntax.Interactive.
Import ListNotations.

Ltac pairs := repeat match goal with
  | |- context[fst (?a, ?b)] => change (fst (a, b)) with a
  | |- context[snd (?a, ?b)] => change (snd (a, b)) with b
  end.

Definition is_stmt (e : event) : bool := match e with EStmt _ _ _ _ _ => true | _ => false end.

Lemma run_cons : forall s e rest,
  run s (e :: rest) = (fst (run (fst (step s e)) rest), snd (step s e) ++ snd (run (fst (step s e)) rest)).
Proof.
  intros. simpl. destruct (step s e) as [s1 o1]. simpl. destruct (run s1 rest) as [s2 o2]. reflexivity.
Qed.

Lemma complete_app : forall a b, complete_batches (a ++ b) = complete_batches a ++ complete_batches b.
Proof. intros. unfold complete_batches. rewrite filter_app, map_app. reflexivity. Qed.

(* (1) the complete batches partition the statement sequence; what is left over is the final accumulator *)
Lemma partition_gen : forall tr s,
  error_free tr = true -> stmt_at_newline_complete tr = true ->
  concat (complete_batches (snd (run s tr))) ++ acc (fst (run s tr)) = acc s ++ stmts_of tr.
Proof.
  induction tr as [|e rest IH]; intros s He Hc.
  - simpl. rewrite app_nil_r. reflexivity.
  - rewrite run_cons. cbn [fst snd]. rewrite complete_app, concat_app.
    simpl in He, Hc. apply andb_true_iff in He as [He1 He2]. apply andb_true_iff in Hc as [Hc1 Hc2].
    destruct e as [rnl line inc | id err nl line inc].
    + (* ERead *)
      assert (Hacc : acc (fst (step s (ERead rnl line inc))) = acc s /\
                     concat (complete_batches (snd (step s (ERead rnl line inc)))) = []).
      { simpl. destruct (rnl && Nat.ltb (lastLine s) line); [|split; reflexivity].
        destruct inc; [split; reflexivity|]. destruct (acc s) eqn:Ea; split; reflexivity. }
      destruct Hacc as [Ha Hb]. rewrite Hb. cbn [app].
      rewrite (IH _ He2 Hc2). rewrite Ha. reflexivity.
    + (* EStmt *)
      destruct err; [discriminate|].
      destruct nl.
      * (* followed by a newline token: handed out as a complete batch *)
        destruct inc; [discriminate|].
        change (step s (EStmt id false true line false)) with (mkI [] (S line), [mkOut (acc s ++ [id]) false false]).
        pairs. change (concat (complete_batches [mkOut (acc s ++ [id]) false false])) with ((acc s ++ [id]) ++ []).
        rewrite <- app_assoc. rewrite (IH _ He2 Hc2).
        cbn. rewrite app_nil_r. rewrite <- app_assoc. reflexivity.
      * change (step s (EStmt id false false line inc)) with (mkI (acc s ++ [id]) (lastLine s), @nil out).
        pairs. change (concat (complete_batches (@nil out))) with (@nil nat). cbn [app].
        rewrite (IH _ He2 Hc2). cbn. rewrite <- app_assoc. reflexivity.
Qed.

Lemma no_stmt_ends : forall tr, existsb is_stmt tr = false -> ends_at_newline tr = true.
Proof.
  induction tr as [|e rest IH]; intro H; [reflexivity|].
  simpl in H. apply orb_false_iff in H as [H1 H2]. destruct e; simpl in *; [auto|discriminate].
Qed.

Lemma read_keeps_acc : forall s rnl line inc, acc (fst (step s (ERead rnl line inc))) = acc s.
Proof.
  intros. simpl. destruct (rnl && Nat.ltb (lastLine s) line); [|reflexivity].
  destruct inc; [reflexivity|]. destruct (acc s) eqn:E; simpl; auto.
Qed.

Lemma final_acc_nil : forall tr s,
  error_free tr = true -> ends_at_newline tr = true ->
  (existsb is_stmt tr = true \/ acc s = []) ->
  acc (fst (run s tr)) = [].
Proof.
  induction tr as [|e rest IH]; intros s He Hn Hor.
  - simpl. destruct Hor as [H|H]; [discriminate|exact H].
  - rewrite run_cons. cbn [fst]. simpl in He. apply andb_true_iff in He as [He1 He2].
    destruct e as [rnl line inc | id err nl line inc].
    + apply IH; auto. rewrite read_keeps_acc. simpl in Hor. exact Hor.
    + destruct err; [discriminate|]. simpl in Hn.
      fold (is_stmt) in Hn.
      destruct (existsb is_stmt rest) eqn:Ex.
      * apply IH; auto.
      * subst. apply IH; [exact He2 | apply no_stmt_ends; exact Ex | right; reflexivity].
Qed.

Theorem interactive_partition : forall tr,
  error_free tr = true -> stmt_at_newline_complete tr = true ->
  concat (complete_batches (snd (run init tr))) ++ acc (fst (run init tr)) = stmts_of tr.
Proof. intros tr He Hc. rewrite (partition_gen tr init He Hc). reflexivity. Qed.

Theorem interactive_all_statements : forall tr,
  error_free tr = true -> stmt_at_newline_complete tr = true -> ends_at_newline tr = true ->
  concat (complete_batches (snd (run init tr))) = stmts_of tr.
Proof.
  intros tr He Hc Hn. rewrite <- (interactive_partition tr He Hc).
  rewrite (final_acc_nil tr init He Hn); [rewrite app_nil_r; reflexivity|]. right. reflexivity.
Qed.

(* (2) a callback with Incomplete() = true only comes from a Read at a line end where the parser itself is incomplete,
   and it does not consume the accumulated statements *)
Theorem incomplete_only_from_read : forall tr s o,
  error_free tr = true -> stmt_at_newline_complete tr = true ->
  In o (snd (run s tr)) -> o_inc o = true ->
  exists line, In (ERead true line true) tr.
Proof.
  induction tr as [|e rest IH]; intros s o He Hc Hin Hinc.
  - simpl in Hin. contradiction.
  - rewrite run_cons in Hin. cbn [snd] in Hin. apply in_app_or in Hin.
    simpl in He, Hc. apply andb_true_iff in He as [He1 He2]. apply andb_true_iff in Hc as [Hc1 Hc2].
    destruct Hin as [Hin|Hin].
    + destruct e as [rnl line inc | id err nl line inc]; simpl in Hin.
      * destruct rnl; simpl in Hin; [|contradiction].
        destruct (Nat.ltb (lastLine s) line); [|contradiction].
        destruct inc.
        -- exists line. left. reflexivity.
        -- destruct (acc s); simpl in Hin; [destruct Hin as [<-|[]]; discriminate | contradiction].
      * destruct err; [discriminate|]. destruct nl; simpl in Hin; [|contradiction].
        destruct inc; [discriminate|]. destruct Hin as [<-|[]]. discriminate.
    + destruct (IH _ _ He2 Hc2 Hin Hinc) as [line H]. exists line. right. exact H.
Qed.

Lemma incomplete_keeps_acc : forall s rnl line, acc (fst (step s (ERead rnl line true))) = acc s.
Proof. intros. apply read_keeps_acc. Qed.

(* the full property "the yielded statements are Parse's statements" is refuted when the last statement is not followed by a
   newline token: the statement is accumulated and never handed out (known finding interactive_last_line_without_newline) *)
Example last_line_without_newline_refuted :
  let tr := [ERead false 1 false; EStmt 0 false false 1 false] in
  error_free tr = true /\ stmt_at_newline_complete tr = true /\
  concat (complete_batches (snd (run init tr))) = [] /\ stmts_of tr = [0].
Proof. vm_compute. repeat split. Qed.

Example two_lines_ok :
  let tr := [ERead false 1 false; EStmt 0 false false 1 false; EStmt 1 false true 1 false; ERead true 2 false;
             ERead true 3 true; EStmt 2 false true 4 false; ERead true 5 false] in
  concat (complete_batches (snd (run init tr))) = [0; 1; 2] /\ map o_inc (snd (run init tr)) = [false; true; false].
Proof. vm_compute. split; reflexivity. Qed.
